/* C16 (block signer part) - a block signer with blinding masks and per-leaf metadata yields for every leaf a
 * signature that verifies for that leaf's hash; a reset signer behaves exactly like a newly created one */
#include "ku.h"
#include "srv.h"
#include "ref/ref_pdu.h"
#include <ksi/blocksigner.h>

#define LOGIN "bs-user"
#define KEY   "bs-key"

static long n_requests, n_level_refusals;
static int g_reply_form;
static KSI_Signature **g_keep_sigs;   /* when set, do_block hands the leaf signatures over instead of freeing them */
static void handler(const unsigned char *req, size_t n, vbuf *resp, void *user) {
	rp_req r;
	rp_env e;
	rsig sig;
	vbuf body, payload;
	uint64_t level;
	(void)user;
	if (rp_parse_request(req, n, RP_AGGR, &r) != 0 || !r.has_req || !r.has_hash) { rp_req_free(&r); return; }
	n_requests++;
	memset(&e, 0, sizeof e);
	e.version = r.version; e.kind = RP_AGGR; e.login = LOGIN; e.mac_alg = RH_SHA256; e.key = KEY; e.keylen = strlen(KEY);
	level = r.has_level ? r.level : 0;
	vb_init(&body); vb_init(&payload);
	if (level + 1 > 255) {
		/* a root at level 255 leaves no room for the aggregator's own link: refused with "request too large" */
		n_level_refusals++;
		rp_aggr_resp_payload(&payload, r.version, r.req_id, 1, 0x0104, "request too large", NULL, 0);
		rp_wrap_response(resp, &e, payload.p, payload.n);
		vb_free(&body); vb_free(&payload);
		rp_req_free(&r);
		return;
	}
	/* reply forms: 0 calendar chain with its aggregation time and an authentication record; 1 aggregation chains only; 2 a calendar chain
	 * published in the second of the aggregation, which therefore carries no aggregation time element */
	rp_aggregate(&sig, r.hash, r.hash_len, level, level >= 240 ? 0 : 3, g_reply_form == 1 ? 0 : 3, 1700000000ULL, g_reply_form == 2 ? 1700000000ULL : 1700000000ULL + 86400 * 3);
	if (g_reply_form == 2) { sig.cal_has_aggr = 0; if (rs_fix(&sig, RS_FIX_TAIL) != 0) vf_harness_error("reply without aggregation time element"); }
	sig.ch[0].links[0].level_corr -= level;     /* reported relative to the client's root, see c07_sign.c */
	rp_sig_body(&sig, &body);
	rp_aggr_resp_payload(&payload, r.version, r.req_id, 1, 0, NULL, body.p, body.n);
	rp_wrap_response(resp, &e, payload.p, payload.n);
	vb_free(&body); vb_free(&payload);
	rp_req_free(&r);
}

static KSI_CTX *new_ctx(void) {
	KSI_CTX *ctx = ku_ctx();
	srv_install(handler, NULL);
	if (KSI_CTX_setAggregator(ctx, "ksi+tcp://bs.test:3332", LOGIN, KEY) != KSI_OK) vf_harness_error("setAggregator");
	return ctx;
}

static KSI_DataHash *leaf_hash(KSI_CTX *ctx, unsigned seed) {
	unsigned char h[RH_MAX_IMPRINT];
	size_t hl = ref_fake_imprint(RH_SHA256, seed, h);
	KSI_DataHash *d = NULL;
	if (KSI_DataHash_fromImprint(ctx, h, hl, &d) != KSI_OK) vf_harness_error("leaf hash");
	return d;
}
static KSI_MetaData *leaf_meta(KSI_CTX *ctx, unsigned k) {
	KSI_MetaData *m = NULL;
	KSI_Utf8String *s = NULL;
	KSI_Integer *sq = NULL;
	char id[32];
	snprintf(id, sizeof id, "client-%u", k);
	if (KSI_MetaData_new(ctx, &m) != KSI_OK || KSI_Utf8String_new(ctx, id, strlen(id) + 1, &s) != KSI_OK) vf_harness_error("metadata");
	/* the KSI_MetaData setters take their own reference */
	KSI_MetaData_setClientId(m, s);
	KSI_Utf8String_free(s);
	if (k & 1) { KSI_Integer_new(ctx, k, &sq); KSI_MetaData_setSequenceNr(m, sq); KSI_Integer_free(sq); }
	return m;
}

/* one block: adds the leaves, signs, checks every leaf signature; serialized signatures are appended to out (length-prefixed) */
static int do_block(KSI_CTX *ctx, KSI_BlockSigner *bs, int n, unsigned seed0, int with_meta, int level, vbuf *out, const char *what) {
	KSI_BlockSignerHandle *hd[16];
	int i, res, ok = 1;
	memset(hd, 0, sizeof hd);
	for (i = 0; i < n; i++) {
		KSI_DataHash *h = leaf_hash(ctx, seed0 + (unsigned)i);
		KSI_MetaData *m = (with_meta == 1 || (with_meta == 2 && (i & 1))) ? leaf_meta(ctx, seed0 + (unsigned)i) : NULL;
		res = KSI_BlockSigner_addLeaf(bs, h, level, m, &hd[i]);
		vf_count("impl_calls", 1);
		if (res != KSI_OK) { vf_fail("leaf-refused", "%s: leaf %d of %d refused 0x%x", what, i, n, res); ok = 0; }
		KSI_DataHash_free(h);
		KSI_MetaData_free(m);
	}
	res = (n & 1) ? KSI_BlockSigner_close(bs, NULL) : KSI_BlockSigner_closeAndSign(bs);    /* the older name of the same call for odd blocks */
	vf_count("impl_calls", 1);
	if (res != KSI_OK) { vf_fail("close-and-sign", "%s: closeAndSign failed 0x%x with %d leaves", what, res, n); ok = 0; }
	for (i = 0; i < n && ok; i++) {
		KSI_Signature *sig = NULL;
		unsigned char *raw = NULL, lenb[4];
		size_t rl = 0;
		unsigned char hh[RH_MAX_IMPRINT];
		size_t hl = ref_fake_imprint(RH_SHA256, seed0 + (unsigned)i, hh);
		KSI_DataHash *h = leaf_hash(ctx, seed0 + (unsigned)i);
		res = KSI_BlockSignerHandle_getSignature(hd[i], &sig);
		vf_count("impl_calls", 1);
		if (res != KSI_OK || sig == NULL) { vf_fail("no-leaf-signature", "%s: no signature for leaf %d: 0x%x", what, i, res); KSI_DataHash_free(h); continue; }
		/* library's own internal verification against the leaf hash (the leaf level is reflected in the first level correction) */
		res = KSI_Signature_verifyWithPolicy(sig, h, (KSI_uint64_t)level, KSI_VERIFICATION_POLICY_INTERNAL, NULL);
		if (res != KSI_OK) vf_fail("leaf-signature-invalid", "%s: signature of leaf %d/%d does not verify for its hash: 0x%x", what, i, n, res);
		if (KSI_Signature_serialize(sig, &raw, &rl) != KSI_OK) vf_fail("unserializable", "leaf signature cannot be serialized");
		else {
			/* asking the same handle again gives the same signature */
			KSI_Signature *again = NULL;
			unsigned char *raw2 = NULL;
			size_t rl2 = 0;
			KSI_BlockSignerHandle *r2 = hd[i];
			res = KSI_BlockSignerHandle_getSignature(r2, &again);
			vf_count("impl_calls", 1);
			if (res != KSI_OK || again == NULL || KSI_Signature_serialize(again, &raw2, &rl2) != KSI_OK || rl2 != rl || memcmp(raw, raw2, rl) != 0)
				vf_fail("leaf-signature-not-repeatable", "%s: second request for the signature of leaf %d: 0x%x, %zu bytes (first time %zu bytes)", what, i, res, rl2, rl);
			KSI_free(raw2); KSI_Signature_free(again);
		}
		if (raw != NULL) {
			rsig parsed;
			rs_verdict v;
			if (rs_parse(raw, rl, &parsed) != 0) vf_fail("leaf-signature-not-wellformed", "%s: leaf %d signature not understood by the reference parser", what, i);
			else {
				const unsigned char *dh; size_t dl;
				rs_eval(&parsed, &v);
				rs_document_hash(&parsed, &dh, &dl);
				if (v.violated | v.uncomputable) vf_fail("leaf-signature-inconsistent", "%s: leaf %d signature violates 0x%x/0x%x by the reference evaluator", what, i, v.violated, v.uncomputable);
				if (dl != hl || memcmp(dh, hh, hl) != 0) vf_fail("leaf-signature-other-hash", "%s: leaf %d signature is for another hash", what, i);
				if (rs_first_level_corr(&parsed) < (uint64_t)level) vf_fail("leaf-signature-level", "%s: leaf %d first level correction %llu below the leaf level %d", what, i, (unsigned long long)rs_first_level_corr(&parsed), level);
				vf_outcome("leaf:verified");
			}
			lenb[0] = (unsigned char)(rl >> 24); lenb[1] = (unsigned char)(rl >> 16); lenb[2] = (unsigned char)(rl >> 8); lenb[3] = (unsigned char)rl;
			if (out) { vb_put(out, lenb, 4); vb_put(out, raw, rl); }
		}
		KSI_free(raw);
		if (g_keep_sigs && i < 16) g_keep_sigs[i] = sig; else KSI_Signature_free(sig);
		KSI_DataHash_free(h);
	}
	if (out) {
		KSI_DataHash *pl = NULL;
		const unsigned char *imp = NULL; size_t il = 0;
		if (KSI_BlockSigner_getPrevLeaf(bs, &pl) == KSI_OK && pl && KSI_DataHash_getImprint(pl, &imp, &il) == KSI_OK) vb_put(out, imp, il);
		KSI_DataHash_free(pl);
	}
	for (i = 0; i < n; i++) KSI_BlockSignerHandle_free(hd[i]);
	return ok;
}

static KSI_BlockSigner *new_signer(KSI_CTX *ctx, int masking) {
	KSI_BlockSigner *bs = NULL;
	KSI_OctetString *iv = NULL;
	KSI_DataHash *prev = NULL;
	unsigned char zero[33];
	static const unsigned char ivb[32] = {1, 2, 3, 4, 5, 6, 7, 8, 9, 10, 11, 12, 13, 14, 15, 16, 17, 18, 19, 20, 21, 22, 23, 24, 25, 26, 27, 28, 29, 30, 31, 32};
	memset(zero, 0, sizeof zero); zero[0] = RH_SHA256;
	if (masking) {
		KSI_OctetString_new(ctx, ivb, sizeof ivb, &iv);
		KSI_DataHash_fromImprint(ctx, zero, 33, &prev);
	}
	if (KSI_BlockSigner_new(ctx, KSI_HASHALG_SHA2_256, prev, iv, &bs) != KSI_OK) vf_harness_error("KSI_BlockSigner_new");
	KSI_OctetString_free(iv);
	KSI_DataHash_free(prev);
	return bs;
}

/* leaves near the top of the level range: two level-0 leaves, then one of level L (with / without metadata). The high leaf is either
 * refused with an error or accepted; in both cases the block still closes and every ACCEPTED leaf gets a signature that verifies */
static void high_leaf_case(int masking, int meta, int L) {
	KSI_CTX *ctx = new_ctx();
	KSI_BlockSigner *bs = new_signer(ctx, masking);
	KSI_BlockSignerHandle *hd[3] = {NULL, NULL, NULL};
	int lv[3], acc[3] = {0, 0, 0}, i, res;
	long refusals0 = n_level_refusals;
	char what[64];
	lv[0] = 0; lv[1] = 0; lv[2] = L;
	snprintf(what, sizeof what, "mask%d meta%d leaves 0,0,%d", masking, meta, L);
	for (i = 0; i < 3; i++) {
		KSI_DataHash *h = leaf_hash(ctx, 300u + (unsigned)i);
		KSI_MetaData *m = (meta == 1 || (meta == 2 && i == 2)) ? leaf_meta(ctx, 300u + (unsigned)i) : NULL;
		res = KSI_BlockSigner_addLeaf(bs, h, lv[i], m, &hd[i]);
		vf_count("impl_calls", 1);
		acc[i] = res == KSI_OK;
		if (i < 2 && res != KSI_OK) vf_fail("leaf-refused", "%s: level-0 leaf %d refused 0x%x", what, i, res);
		if (i == 2) vf_outcome("high-leaf:%s", res == KSI_OK ? "accepted" : "refused");
		KSI_DataHash_free(h); KSI_MetaData_free(m);
	}
	res = KSI_BlockSigner_closeAndSign(bs);
	vf_count("impl_calls", 1);
	if (res != KSI_OK && n_level_refusals > refusals0) vf_outcome("high-leaf:root-at-level-255-not-signable");   /* the aggregator had no room above the root: a legitimate refusal */
	else if (res != KSI_OK) vf_fail("close-after-high-leaf", "%s: the leaf of level %d was %s, and closing the block then fails with 0x%x: the leaves accepted before have lost their proofs", what, L, acc[2] ? "accepted" : "refused", res);
	else for (i = 0; i < 3; i++) if (acc[i] && hd[i] != NULL) {
		KSI_Signature *sig = NULL;
		KSI_DataHash *h = leaf_hash(ctx, 300u + (unsigned)i);
		res = KSI_BlockSignerHandle_getSignature(hd[i], &sig);
		vf_count("impl_calls", 1);
		if (res != KSI_OK || sig == NULL) vf_fail("no-leaf-signature", "%s: no signature for accepted leaf %d: 0x%x", what, i, res);
		else if ((res = KSI_Signature_verifyWithPolicy(sig, h, (KSI_uint64_t)lv[i], KSI_VERIFICATION_POLICY_INTERNAL, NULL)) != KSI_OK) vf_fail("leaf-signature-invalid", "%s: signature of leaf %d does not verify for its hash and level: 0x%x", what, i, res);
		else vf_outcome("leaf:verified");
		KSI_Signature_free(sig); KSI_DataHash_free(h);
	}
	for (i = 0; i < 3; i++) KSI_BlockSignerHandle_free(hd[i]);
	KSI_BlockSigner_free(bs);
	KSI_CTX_free(ctx);
	if (vf_alloc_live != 0) { vf_fail("leak", "%ld SDK allocations live after the block", vf_alloc_live); vf_alloc_live = 0; }
}

static void run(void) {
	int n, masking, meta, level, n1;
	int maxn = VF_THOROUGH ? 9 : 6;
	/* every leaf gets a valid signature */
	for (masking = 0; masking < 2; masking++) for (meta = 0; meta < 3; meta++) for (level = 0; level <= (VF_THOROUGH ? 2 : 1); level++) for (n = 1; n <= maxn; n++) {
		KSI_CTX *ctx;
		KSI_BlockSigner *bs;
		char what[64];
		if (!vf_case_begin("bs:mask%d:meta%d:lvl%d:n%d", masking, meta, level, n)) continue;
		snprintf(what, sizeof what, "mask%d meta%d level%d", masking, meta, level);
		ctx = new_ctx();
		bs = new_signer(ctx, masking);
		do_block(ctx, bs, n, 10, meta, level, NULL, what);
		KSI_BlockSigner_free(bs);
		KSI_CTX_free(ctx);
		if (vf_alloc_live != 0) { vf_fail("leak", "%ld SDK allocations live after the block", vf_alloc_live); vf_alloc_live = 0; }
		if (n == 3 && masking && meta == 1 && level == 0) vf_sample("block signer, blinding masks, metadata on every leaf, 3 leaves: 3 signatures verified (library + reference)");
		vf_case_end(1);
	}
	/* the signatures outlive the signer, its handles and the document hashes: each still verifies for its own document only and still
	 * serializes to the same bytes after everything else has been released and other hashes have been created on the context */
	for (masking = 0; masking < 2; masking++) for (meta = 0; meta < 3; meta += 2) for (n = 1; n <= 4; n++) {
		KSI_CTX *ctx;
		KSI_BlockSigner *bs;
		KSI_Signature *kept[16];
		vbuf before;
		size_t off = 0;
		int i;
		char what[64];
		if (!vf_case_begin("bs-keep:mask%d:meta%d:n%d", masking, meta, n)) continue;
		snprintf(what, sizeof what, "kept signatures mask%d meta%d", masking, meta);
		memset(kept, 0, sizeof kept);
		vb_init(&before);
		ctx = new_ctx();
		bs = new_signer(ctx, masking);
		g_keep_sigs = kept;
		do_block(ctx, bs, n, 40, meta, 0, &before, what);
		g_keep_sigs = NULL;
		KSI_BlockSigner_free(bs);
		for (i = 0; i < n; i++) {
			/* other hashes are created (and released) on the context in between */
			KSI_DataHash *own = leaf_hash(ctx, 40u + (unsigned)i), *f1 = leaf_hash(ctx, 900u + (unsigned)i), *f2 = leaf_hash(ctx, 950u + (unsigned)i);
			unsigned char *raw = NULL;
			size_t rl = 0, want;
			int r;
			if (kept[i] == NULL) { KSI_DataHash_free(own); KSI_DataHash_free(f1); KSI_DataHash_free(f2); continue; }
			r = KSI_Signature_verifyWithPolicy(kept[i], f2, 0, KSI_VERIFICATION_POLICY_INTERNAL, NULL);
			if (r == KSI_OK) vf_fail("leaf-signature-verifies-foreign-document", "%s: after the signer was released the signature of leaf %d verifies for another document's hash", what, i);
			r = KSI_Signature_verifyWithPolicy(kept[i], f1, 0, KSI_VERIFICATION_POLICY_INTERNAL, NULL);
			if (r == KSI_OK) vf_fail("leaf-signature-verifies-foreign-document", "%s: after the signer was released the signature of leaf %d verifies for another document's hash", what, i);
			r = KSI_Signature_verifyWithPolicy(kept[i], own, 0, KSI_VERIFICATION_POLICY_INTERNAL, NULL);
			if (r != KSI_OK) vf_fail("leaf-signature-invalid", "%s: after the signer was released the signature of leaf %d no longer verifies for its own hash: 0x%x", what, i, r);
			vf_count("impl_calls", 3);
			want = off + 4 <= before.n ? ((size_t)before.p[off] << 24 | (size_t)before.p[off + 1] << 16 | (size_t)before.p[off + 2] << 8 | before.p[off + 3]) : 0;
			if (KSI_Signature_serialize(kept[i], &raw, &rl) != KSI_OK || rl != want || off + 4 + want > before.n || memcmp(raw, before.p + off + 4, rl) != 0)
				vf_fail("kept-signature-changed", "%s: the signature of leaf %d serializes to other bytes (%zu, before %zu) after the signer was released", what, i, rl, want);
			off += 4 + want;
			KSI_free(raw);
			KSI_DataHash_free(own); KSI_DataHash_free(f1); KSI_DataHash_free(f2);
			vf_outcome("leaf:kept-verified");
		}
		for (i = 0; i < n; i++) KSI_Signature_free(kept[i]);
		vb_free(&before);
		KSI_CTX_free(ctx);
		if (vf_alloc_live != 0) { vf_fail("leak", "%ld SDK allocations live after the block", vf_alloc_live); vf_alloc_live = 0; }
		vf_case_end(1);
	}
	/* other honest replies: aggregation chains only; a calendar chain without the (redundant) aggregation time element */
	for (g_reply_form = 1; g_reply_form <= 2; g_reply_form++) for (masking = 0; masking < 2; masking++) for (meta = 0; meta < 3; meta += 2) for (n = 1; n <= 3; n++) {
		KSI_CTX *ctx;
		KSI_BlockSigner *bs;
		char what[64];
		if (!vf_case_begin("bs-reply%d:mask%d:meta%d:n%d", g_reply_form, masking, meta, n)) continue;
		snprintf(what, sizeof what, "reply form %d mask%d meta%d", g_reply_form, masking, meta);
		ctx = new_ctx();
		bs = new_signer(ctx, masking);
		do_block(ctx, bs, n, 10, meta, n == 3 ? 1 : 0, NULL, what);
		KSI_BlockSigner_free(bs);
		KSI_CTX_free(ctx);
		if (vf_alloc_live != 0) { vf_fail("leak", "%ld SDK allocations live after the block", vf_alloc_live); vf_alloc_live = 0; }
		vf_case_end(1);
	}
	g_reply_form = 0;
	{
		static const int HL[] = {200, 250, 251, 252, 253, 254, 255};
		int hi;
		for (masking = 0; masking < 2; masking++) for (meta = 0; meta < 3; meta++) for (hi = 0; hi < 7; hi++) {
			if (!vf_case_begin("bs-high:mask%d:meta%d:lvl%d", masking, meta, HL[hi])) continue;
			high_leaf_case(masking, meta, HL[hi]);
			vf_case_end(1);
		}
	}
	/* reset == new: the second block signed by a reset signer is byte-identical to the same block signed by a new signer */
	for (masking = 0; masking < 2; masking++) for (meta = 0; meta < 3; meta++) for (n1 = 0; n1 <= 3; n1++) for (n = 1; n <= (VF_THOROUGH ? 5 : 3); n++) {
		KSI_CTX *ctx;
		KSI_BlockSigner *a, *b;
		vbuf oa, ob;
		if (!vf_case_begin("reset:mask%d:meta%d:first%d:n%d", masking, meta, n1, n)) continue;
		vb_init(&oa); vb_init(&ob);
		ctx = new_ctx();
		a = new_signer(ctx, masking);
		do_block(ctx, a, n, 50, meta, 0, &oa, "fresh signer");
		KSI_BlockSigner_free(a);
		b = new_signer(ctx, masking);
		if (n1 > 0) do_block(ctx, b, n1, 90, meta, 0, NULL, "first block");
		else { /* reset of an untouched signer */ }
		if (KSI_BlockSigner_reset(b) != KSI_OK) vf_fail("reset-failed", "KSI_BlockSigner_reset failed");
		vf_count("impl_calls", 1);
		/* like a new signer: before the block is closed no leaf signature exists; a second reset is harmless */
		{
			KSI_BlockSignerHandle *probe = NULL, *probe2 = NULL;
			KSI_Signature *ps = NULL;
			KSI_DataHash *ph = leaf_hash(ctx, 777);
			KSI_BlockSigner *fresh = new_signer(ctx, masking);
			int r_reset, r_fresh;
			KSI_BlockSigner_addLeaf(b, ph, 0, NULL, &probe);
			KSI_BlockSigner_addLeaf(fresh, ph, 0, NULL, &probe2);
			r_reset = KSI_BlockSignerHandle_getSignature(probe, &ps);
			if (ps) { KSI_Signature_free(ps); ps = NULL; }
			r_fresh = KSI_BlockSignerHandle_getSignature(probe2, &ps);
			if (ps) { KSI_Signature_free(ps); ps = NULL; }
			vf_count("impl_calls", 4);
			if ((r_reset == KSI_OK) != (r_fresh == KSI_OK)) vf_fail("reset-differs-from-new", "getSignature on an unclosed block: reset signer 0x%x, new signer 0x%x", r_reset, r_fresh);
			vf_outcome("unclosed-getSignature:%s", r_reset == KSI_OK ? "ok" : "refused");
			KSI_BlockSignerHandle_free(probe); KSI_BlockSignerHandle_free(probe2);
			KSI_DataHash_free(ph);
			KSI_BlockSigner_free(fresh);
			if (KSI_BlockSigner_reset(b) != KSI_OK) vf_fail("reset-failed", "second KSI_BlockSigner_reset failed");
		}
		do_block(ctx, b, n, 50, meta, 0, &ob, "reset signer");
		if (oa.n != ob.n || memcmp(oa.p, ob.p, oa.n) != 0) vf_fail("reset-differs-from-new", "masking %d metadata %d: the block of %d leaves signed after reset (first block %d leaves) differs from the same block signed by a new signer (%zu vs %zu bytes of signatures + previous-leaf value)", masking, meta, n, n1, ob.n, oa.n);
		vf_outcome("reset:%s", (oa.n == ob.n && memcmp(oa.p, ob.p, oa.n) == 0) ? "identical" : "DIFFERENT");
		KSI_BlockSigner_free(b);
		KSI_CTX_free(ctx);
		vb_free(&oa); vb_free(&ob);
		vf_case_end(1);
	}
}

int main(int argc, char **argv) {
	vf_driver d = {"C16", run};
	return vf_main(argc, argv, &d);
}
