/* C03 - hash-chain and calendar arithmetic equals the KSI chain formula (DESIGN.md section 3, C03) */
#include "ku.h"
#include "ref/ref.h"
#include <ksi/impl/hashchain_impl.h>

static KSI_CTX *ctx;

static const uint64_t CORR_FULL[] = {0, 1, 2, 127, 254, 255, 256, 0x7fffffffULL, 0x80000000ULL, 0xffffffffULL,
                                     0x100000000ULL, 0x100000001ULL, 0x8000000000000000ULL, 0xffffffffffffffffULL};
static const uint64_t CORR_MED[] = {0, 1, 254, 255, 256, 0x100000000ULL, 0xffffffffffffffffULL};
static const int START_LEVELS[] = {0, 1, 127, 253, 254, 255};
static const int ALGS_ALL[] = {RH_SHA1, RH_SHA256, RH_RIPEMD160, RH_SHA384, RH_SHA512, RH_SHA3_224, RH_SHA3_256, RH_SHA3_384, RH_SHA3_512, RH_SM3};

/* algorithms the SDK build under test (OpenSSL back end) can compute; the property speaks of
 * "supported hash algorithms" */
static int backend_supports(int alg) { return alg == RH_SHA1 || alg == RH_SHA256 || alg == RH_RIPEMD160 || alg == RH_SHA384 || alg == RH_SHA512; }

static void make_link(rlink *l, int dir, int kind, uint64_t corr, unsigned seed, int alg) {
	switch (kind) {
		case 0: ref_link_imprint(l, dir, alg, seed, corr); break;
		case 1: ref_link_legacy(l, dir, "anon", corr); break;
		case 2: ref_link_meta(l, dir, "client", 1, seed & 1, corr); break;
		default: ref_link_meta(l, dir, "clientX", 0, 0, corr); break;
	}
}

static void build_chain_tlv(vbuf *out, int alg, const unsigned char *in, size_t in_len, const rlink *links, size_t n) {
	vbuf b;
	size_t i;
	vb_init(&b);
	rtlv_put_u64(&b, 0x02, 1600000000);
	rtlv_put_u64(&b, 0x03, 5);
	rtlv_put(&b, 0x05, 0, 0, in, in_len, 0);
	rtlv_put_u64(&b, 0x06, (uint64_t)alg);
	for (i = 0; i < n; i++) ref_link_tlv(&b, &links[i]);
	rtlv_put(out, 0x0801, 0, 0, b.p, b.n, 0);
	vb_free(&b);
}

/* compare one aggregation through KSI_AggregationHashChain_aggregate (and KSI_HashChain_aggregate) */
static int check_aggr(KSI_AggregationHashChain *c, int alg, const unsigned char *in, size_t in_len, int start, const rlink *links, size_t n, const char *tag) {
	unsigned char exp[RH_MAX_IMPRINT];
	size_t exp_len = 0;
	int exp_level = -1, rr, res, lvl = -12345, nontrivial = 0;
	KSI_DataHash *root = NULL;
	rr = ref_chain_aggregate(alg, in, in_len, start, links, n, exp, &exp_len, &exp_level);
	{
		/* every other time the chain object is first asked for the root alone (the level output is optional): what that call leaves
		 * in the object's cache must not change the answer of the full call that follows */
		if (((unsigned)start ^ (unsigned)n ^ (in_len > 1 ? in[1] : 0u)) & 1u) {   /* decided by the case's own data: the same on replay */
			KSI_DataHash *r0 = NULL;
			int r = KSI_AggregationHashChain_aggregate(c, start, NULL, &r0);
			vf_count("impl_calls", 1);
			if (rr == 0 && backend_supports(alg) && (r != KSI_OK || !ku_hash_eq(r0, exp, exp_len))) vf_fail("aggr-root-mismatch", "start=%d n=%zu alg=%d, root-only call: expected root %s, got res 0x%x root %s", start, n, alg, vf_hex(exp, exp_len), r, ku_hash_hex(r0));
			if (r != KSI_OK && r0 != NULL) vf_fail("refused-with-root", "KSI_AggregationHashChain_aggregate (root only) start=%d returned 0x%x and still handed out a root", start, r);
			KSI_DataHash_free(r0);
		}
	}
	res = KSI_AggregationHashChain_aggregate(c, start, &lvl, &root);
	vf_count("impl_calls", 1);
	if (res != KSI_OK && root != NULL) vf_fail("refused-with-root", "KSI_AggregationHashChain_aggregate start=%d returned 0x%x and still handed out a root", start, res);
	if (rr == 0 && !backend_supports(alg)) {
		/* the OpenSSL hashing back end of the SDK does not implement this algorithm: the chain cannot be
		 * aggregated; the only requirement is that no WRONG value is produced */
		nontrivial = 1;
		vf_outcome("aggr:%s:unsupported-alg:%s", tag, res == KSI_OK ? "ok" : "refused");
		if (res == KSI_OK && (lvl != exp_level || !ku_hash_eq(root, exp, exp_len)))
			vf_fail("aggr-root-mismatch", "start=%d n=%zu alg=%d: expected level %d root %s, got level %d root %s", start, n, alg, exp_level, vf_hex(exp, exp_len), lvl, ku_hash_hex(root));
	} else if (rr == -2) {
		/* digest not computable by the reference: only "no crash" is compared */
		vf_outcome("aggr:%s:ref-uncomputable:res=%s", tag, res == KSI_OK ? "OK" : "err");
	} else if (rr == -1) {
		nontrivial = 1;
		vf_outcome("aggr:%s:reject-expected:%s", tag, res == KSI_OK ? "ACCEPTED" : "rejected");
		if (res == KSI_OK) vf_fail("aggr-out-of-range-accepted", "start=%d n=%zu: reference rejects (level leaves 0..255 or correction>255) but library returned OK level=%d root=%s", start, n, lvl, ku_hash_hex(root));
	} else {
		nontrivial = 1;
		vf_outcome("aggr:%s:accept-expected:%s", tag, res == KSI_OK ? "ok" : "REJECTED");
		if (res != KSI_OK) vf_fail("aggr-valid-rejected", "start=%d n=%zu: reference level %d but library error 0x%x", start, n, exp_level, res);
		else if (lvl != exp_level || !ku_hash_eq(root, exp, exp_len))
			vf_fail("aggr-root-mismatch", "start=%d n=%zu: expected level %d root %s, got level %d root %s", start, n, exp_level, vf_hex(exp, exp_len), lvl, ku_hash_hex(root));
	}
	vf_obs("res=%x lvl=%d root=%s", res, res == KSI_OK ? lvl : 0, res == KSI_OK ? ku_hash_hex(root) : "-");
	KSI_DataHash_free(root);
	return nontrivial;
}

static void run_links_case(int alg, int in_alg, const rlink *links, size_t n, const int *starts, int nstarts, const char *tag) {
	unsigned char in[RH_MAX_IMPRINT];
	size_t in_len = ref_fake_imprint(in_alg, 77, in);
	vbuf b;
	KSI_AggregationHashChain *c = NULL;
	int res, i, nt = 0;
	unsigned char *ex;
	vb_init(&b);
	build_chain_tlv(&b, alg, in, in_len, links, n);
	ex = ku_exact(b.p, b.n);
	res = ku_parse_aggr_chain(ctx, ex, b.n, &c);
	if (res != KSI_OK) {
		/* the typed parser may legitimately refuse (e.g. unknown hash id for the imprint);
		 * a refused chain can not be aggregated to a wrong value */
		vf_outcome("aggr:%s:parse-refused:%x", tag, res);
	} else {
		/* every start level twice in a row on the same chain object: the second call meets whatever the first one memoized
		 * or left behind when it was refused */
		for (i = 0; i < nstarts; i++) { nt |= check_aggr(c, alg, in, in_len, starts[i], links, n, tag); nt |= check_aggr(c, alg, in, in_len, starts[i], links, n, tag); }
		/* memo: repeat the first start level after the others */
		if (nstarts > 1) nt |= check_aggr(c, alg, in, in_len, starts[0], links, n, tag);
		/* direct list API as well */
		{
			KSI_LIST(KSI_HashChainLink) *ll = NULL;
			KSI_DataHash *ih = NULL, *out = NULL;
			unsigned char exp[RH_MAX_IMPRINT];
			size_t el = 0;
			int elv = -1, lv = -999, rr, r2;
			KSI_AggregationHashChain_getChain(c, &ll);
			KSI_AggregationHashChain_getInputHash(c, &ih);
			rr = ref_chain_aggregate(alg, in, in_len, starts[0], links, n, exp, &el, &elv);
			r2 = KSI_HashChain_aggregate(ctx, ll, ih, starts[0], alg, &lv, &out);
			vf_count("impl_calls", 1);
			if (rr == 0 && !backend_supports(alg)) {
				if (r2 == KSI_OK && (lv != elv || !ku_hash_eq(out, exp, el))) vf_fail("aggr-direct-mismatch", "unsupported algorithm produced a wrong value");
			} else if (rr == 0 && (r2 != KSI_OK || lv != elv || !ku_hash_eq(out, exp, el)))
				vf_fail("aggr-direct-mismatch", "KSI_HashChain_aggregate start=%d: expected level %d root %s, got res 0x%x level %d root %s", starts[0], elv, vf_hex(exp, el), r2, lv, ku_hash_hex(out));
			if (rr == -1 && r2 == KSI_OK)
				vf_fail("aggr-out-of-range-accepted", "KSI_HashChain_aggregate start=%d: reference rejects but library returned OK level=%d", starts[0], lv);
			if (r2 != KSI_OK && out != NULL) vf_fail("refused-with-root", "KSI_HashChain_aggregate start=%d returned 0x%x and still handed out a root", starts[0], r2);
			KSI_DataHash_free(out);
		}
		/* a metadata sibling changed in place (its client id given another first letter through the setter): the link list aggregates to
		 * the root of the record as it is NOW - what was parsed, hashed before or kept in a raw form must not show */
		{
			size_t mi;
			for (mi = 0; mi < n; mi++) if (links[mi].kind == RL_META) break;
			if (mi < n && backend_supports(alg)) {
				rlink mod[64];
				rtlv e;
				size_t off = 0, j;
				int found = 0;
				if (n > 64) vf_harness_error("chain too long");
				for (j = 0; j < n; j++) mod[j] = links[j];
				while (off < mod[mi].sib_len && rtlv_read(mod[mi].sib + off, mod[mi].sib_len - off, &e) == 0) {
					if (e.tag == 0x01 && e.len >= 2) { found = 1; break; }
					off += e.hdr + e.len;
				}
				if (found) {
					KSI_LIST(KSI_HashChainLink) *ll = NULL;
					KSI_HashChainLink *lk = NULL;
					KSI_MetaDataElement *mde = NULL;
					KSI_Utf8String *nu = NULL;
					KSI_DataHash *ih = NULL, *out = NULL;
					unsigned char exp[RH_MAX_IMPRINT];
					char nv[300];
					size_t el = 0, cl = e.len < sizeof nv ? e.len : sizeof nv - 1;
					int elv = -1, lv = -999, rr, r2;
					memcpy(nv, e.val, cl); nv[cl - 1] = 0;
					nv[0] = (char)(nv[0] == 'q' ? 'r' : 'q');
					mod[mi].sib[off + e.hdr] = (unsigned char)nv[0];
					KSI_AggregationHashChain_getChain(c, &ll);
					KSI_AggregationHashChain_getInputHash(c, &ih);
					KSI_HashChainLinkList_elementAt(ll, mi, &lk);
					if (lk != NULL) KSI_HashChainLink_getMetaData(lk, &mde);
					if (mde != NULL && KSI_Utf8String_new(ctx, nv, cl, &nu) == KSI_OK && KSI_MetaDataElement_setClientId(mde, nu) == KSI_OK) {
						nu = NULL;   /* the element has taken the string over */
						rr = ref_chain_aggregate(alg, in, in_len, starts[0], mod, n, exp, &el, &elv);
						r2 = KSI_HashChain_aggregate(ctx, ll, ih, starts[0], alg, &lv, &out);
						vf_count("impl_calls", 2);
						if (rr == 0 && (r2 != KSI_OK || lv != elv || !ku_hash_eq(out, exp, el)))
							vf_fail("aggr-after-metadata-edit", "start=%d: after the client id of the metadata sibling (link %zu) was set to '%s' the chain aggregates to res 0x%x level %d root %s, expected level %d root %s", starts[0], mi, nv, r2, lv, ku_hash_hex(out), elv, vf_hex(exp, el));
						else vf_outcome("aggr:metadata-edited-in-place:%s", rr == 0 ? "ok" : "reject-expected");
						KSI_DataHash_free(out);
					} else vf_outcome("aggr:metadata-edit-not-applicable");
					KSI_Utf8String_free(nu);
				}
			}
		}
	}
	KSI_AggregationHashChain_free(c);
	free(ex);
	vb_free(&b);
	vf_case_end(nt);
}

/* (a1) full product of link descriptors for short chains */
static void part_a1(void) {
	int maxlen = VF_THOROUGH ? 3 : 2;
	int len;
	for (len = 1; len <= maxlen; len++) {
		const uint64_t *corr = (len <= 2) ? CORR_FULL : CORR_MED;
		int ncorr = (len <= 2) ? (int)(sizeof CORR_FULL / sizeof *CORR_FULL) : (int)(sizeof CORR_MED / sizeof *CORR_MED);
		int per = 2 * 4 * ncorr;
		long total = 1, idx;
		int i;
		for (i = 0; i < len; i++) total *= per;
		for (idx = 0; idx < total; idx++) {
			rlink links[3];
			long x = idx;
			char name[200];
			int o = 0;
			for (i = 0; i < len; i++) {
				int d = (int)(x % per);
				x /= per;
				o += snprintf(name + o, sizeof name - (size_t)o, "%s%c%d.%d", i ? "," : "", (d & 1) ? 'L' : 'R', (d >> 1) & 3, d >> 3);
			}
			if (!vf_case_begin("a1:len%d:%s", len, name)) continue;
			x = idx;
			for (i = 0; i < len; i++) {
				int d = (int)(x % per);
				x /= per;
				make_link(&links[i], d & 1, (d >> 1) & 3, corr[d >> 3], (unsigned)(i + 1), RH_SHA256);
			}
			if (idx == 5) vf_sample("a1 chain of %d links (dir,kind,corr idx) %s over start levels 0,1,127,253,254,255", len, name);
			run_links_case(RH_SHA256, RH_SHA256, links, (size_t)len, START_LEVELS, 6, "a1");
		}
	}
}

/* (a2) every algorithm */
static void part_a2(void) {
	size_t ai, ii;
	for (ai = 0; ai < sizeof ALGS_ALL / sizeof *ALGS_ALL; ai++)
		for (ii = 0; ii < sizeof ALGS_ALL / sizeof *ALGS_ALL; ii++) {
			int len;
			for (len = 1; len <= 2; len++) {
				int pat;
				for (pat = 0; pat < (1 << (3 * len)); pat++) {
					rlink links[2];
					int i, starts[2] = {0, 3};
					if (!vf_case_begin("a2:alg%d:in%d:len%d:pat%d", ALGS_ALL[ai], ALGS_ALL[ii], len, pat)) continue;
					for (i = 0; i < len; i++) {
						int d = (pat >> (3 * i)) & 7;
						make_link(&links[i], d & 1, (d >> 1) & 3, 0, (unsigned)i + 9, ALGS_ALL[ii]);
					}
					run_links_case(ALGS_ALL[ai], ALGS_ALL[ii], links, (size_t)len, starts, 2, "a2");
				}
			}
		}
}

/* (a3)+(d) all direction patterns, root and shape index */
static void part_a3(void) {
	int maxn = VF_THOROUGH ? 12 : 8, n;
	for (n = 1; n <= maxn; n++) {
		unsigned pat;
		for (pat = 0; pat < (1u << n); pat++) {
			rlink links[12];
			int dirs[12], i, starts[1] = {0};
			if (!vf_case_begin("a3:n%d:pat%x", n, pat)) continue;
			for (i = 0; i < n; i++) { dirs[i] = (pat >> i) & 1; make_link(&links[i], dirs[i], 0, 0, (unsigned)i, RH_SHA256); }
			/* shape */
			{
				unsigned char in[RH_MAX_IMPRINT];
				size_t il = ref_fake_imprint(RH_SHA256, 77, in);
				vbuf b;
				KSI_AggregationHashChain *c = NULL;
				KSI_uint64_t shape = 0;
				vb_init(&b);
				build_chain_tlv(&b, RH_SHA256, in, il, links, (size_t)n);
				if (ku_parse_aggr_chain(ctx, b.p, b.n, &c) != KSI_OK) vf_fail("shape-parse", "valid chain refused");
				else {
					int r = KSI_AggregationHashChain_calculateShape(c, &shape);
					uint64_t e = ref_shape_index(dirs, n);
					vf_count("impl_calls", 1);
					if (r != KSI_OK || shape != e) vf_fail("shape-mismatch", "n=%d pat=%x expected %llx got res %x %llx", n, pat, (unsigned long long)e, r, (unsigned long long)shape);
					vf_obs("shape=%llx", (unsigned long long)shape);
				}
				KSI_AggregationHashChain_free(c);
				vb_free(&b);
			}
			run_links_case(RH_SHA256, RH_SHA256, links, (size_t)n, starts, 1, "a3");
		}
	}
	/* boundary lengths for the 64-bit shape */
	for (n = 61; n <= 63; n++) {
		int v;
		for (v = 0; v < 4; v++) {
			rlink *links;
			int *dirs, i, starts[1] = {0};
			if (!vf_case_begin("a3:n%d:variant%d", n, v)) continue;
			links = (rlink *)calloc((size_t)n, sizeof(rlink));
			dirs = (int *)calloc((size_t)n, sizeof(int));
			for (i = 0; i < n; i++) {
				dirs[i] = v == 0 ? 1 : v == 1 ? 0 : v == 2 ? (i & 1) : (i == n - 1);
				make_link(&links[i], dirs[i], 0, 0, (unsigned)i, RH_SHA256);
			}
			{
				unsigned char in[RH_MAX_IMPRINT];
				size_t il = ref_fake_imprint(RH_SHA256, 77, in);
				vbuf b;
				KSI_AggregationHashChain *c = NULL;
				KSI_uint64_t shape = 0;
				vb_init(&b);
				build_chain_tlv(&b, RH_SHA256, in, il, links, (size_t)n);
				if (ku_parse_aggr_chain(ctx, b.p, b.n, &c) != KSI_OK) vf_fail("shape-parse", "valid chain refused");
				else {
					int r = KSI_AggregationHashChain_calculateShape(c, &shape);
					uint64_t e = ref_shape_index(dirs, n);
					vf_count("impl_calls", 1);
					if (r != KSI_OK || shape != e) vf_fail("shape-mismatch", "n=%d variant=%d expected %llx got res %x %llx", n, v, (unsigned long long)e, r, (unsigned long long)shape);
				}
				KSI_AggregationHashChain_free(c);
				vb_free(&b);
			}
			run_links_case(RH_SHA256, RH_SHA256, links, (size_t)n, starts, 1, "a3long");
			free(links); free(dirs);
		}
	}
}

/* (a4) long chains around the level-255 boundary */
static void part_a4(void) {
	static const int NS[] = {13, 64, 70, 200, 254, 255, 256, 257};
	size_t k;
	for (k = 0; k < sizeof NS / sizeof *NS; k++) {
		int n = NS[k], v;
		for (v = 0; v < 3; v++) {
			rlink *links;
			int i, starts[4], ns = 0;
			if (!vf_case_begin("a4:n%d:variant%d", n, v)) continue;
			links = (rlink *)calloc((size_t)n, sizeof(rlink));
			for (i = 0; i < n; i++) make_link(&links[i], v == 0 ? 1 : v == 1 ? 0 : (i & 1), (i % 7 == 3) ? 1 : 0, 0, (unsigned)i, RH_SHA256);
			starts[ns++] = 0;
			if (255 - n - 1 >= 0) starts[ns++] = 255 - n - 1;
			if (255 - n >= 0) starts[ns++] = 255 - n;
			if (255 - n + 1 >= 0 && 255 - n + 1 <= 255) starts[ns++] = 255 - n + 1;
			run_links_case(RH_SHA256, RH_SHA256, links, (size_t)n, starts, ns, "a4");
			free(links);
		}
	}
}

/* (a5) list aggregation over several chains: output level of one chain is the start level of the next */
static void part_a5(void) {
	int pat;
	for (pat = 0; pat < 4 * 4 * 4 * 3; pat++) {
		int lens[3], nch = 1 + pat % 3, x = pat / 3, ci, level, start;
		if (!vf_case_begin("a5:list:pat%d", pat)) continue;
		lens[0] = 1 + x % 4; x /= 4; lens[1] = 1 + x % 4; x /= 4; lens[2] = 1 + x % 4;
		for (start = 0; start <= 250; start += 125) {
			KSI_AggregationHashChainList *list = NULL;
			unsigned char cur[RH_MAX_IMPRINT];
			size_t cur_len = ref_fake_imprint(RH_SHA256, 5, cur);
			int ok = 1, res;
			KSI_DataHash *out = NULL;
			level = start;
			KSI_AggregationHashChainList_new(&list);
			for (ci = 0; ci < nch; ci++) {
				rlink links[4];
				vbuf b;
				KSI_AggregationHashChain *c = NULL;
				unsigned char nxt[RH_MAX_IMPRINT];
				size_t nl = 0;
				int i, nlv = 0;
				for (i = 0; i < lens[ci]; i++) make_link(&links[i], (pat >> i) & 1, (i + ci) & 3, (uint64_t)((pat + i) % 3), (unsigned)(i + 10 * ci), RH_SHA256);
				vb_init(&b);
				build_chain_tlv(&b, ci == 1 ? RH_SHA512 : RH_SHA256, cur, cur_len, links, (size_t)lens[ci]);
				if (ku_parse_aggr_chain(ctx, b.p, b.n, &c) != KSI_OK) vf_harness_error("a5: chain refused");
				KSI_AggregationHashChainList_append(list, c);
				vb_free(&b);
				if (ok && ref_chain_aggregate(ci == 1 ? RH_SHA512 : RH_SHA256, cur, cur_len, level, links, (size_t)lens[ci], nxt, &nl, &nlv) != 0) ok = 0;
				if (ok) { memcpy(cur, nxt, nl); cur_len = nl; level = nlv; }
			}
			res = KSI_AggregationHashChainList_aggregate(list, ctx, start, &out);
			vf_count("impl_calls", 1);
			if (ok && (res != KSI_OK || !ku_hash_eq(out, cur, cur_len))) vf_fail("list-mismatch", "start=%d expected %s got res %x %s", start, vf_hex(cur, cur_len), res, ku_hash_hex(out));
			if (!ok && res == KSI_OK) vf_fail("list-out-of-range-accepted", "start=%d: reference rejects, library OK", start);
			if (res != KSI_OK && out != NULL) vf_fail("refused-with-root", "KSI_AggregationHashChainList_aggregate start=%d returned 0x%x and still handed out a root (%s): the root of a truncated list", start, res, ku_hash_hex(out));
			vf_outcome("list:%s:%s", ok ? "accept-expected" : "reject-expected", res == KSI_OK ? "ok" : "err");
			KSI_DataHash_free(out);
			KSI_AggregationHashChainList_free(list);
		}
		vf_case_end(1);
	}
}

/* (a0) zero-length chain through the list API: must not produce a wrong value */
static void part_a0(void) {
	int start;
	for (start = 0; start <= 255; start += 85) {
		KSI_LIST(KSI_HashChainLink) *ll = NULL;
		KSI_DataHash *in = NULL, *out = NULL;
		unsigned char imp[RH_MAX_IMPRINT];
		size_t il = ref_fake_imprint(RH_SHA256, 3, imp);
		int lv = -999, res;
		if (!vf_case_begin("a0:empty:start%d", start)) continue;
		KSI_HashChainLinkList_new(&ll);
		KSI_DataHash_fromImprint(ctx, imp, il, &in);
		res = KSI_HashChain_aggregate(ctx, ll, in, start, RH_SHA256, &lv, &out);
		vf_count("impl_calls", 1);
		if (res == KSI_OK) {
			if (lv != start) vf_fail("empty-chain-level", "empty chain start=%d returned level %d", start, lv);
			if (out != NULL && !ku_hash_eq(out, imp, il)) vf_fail("empty-chain-hash", "empty chain returned a hash different from its input");
		}
		vf_outcome("empty:%s", res == KSI_OK ? (out ? "ok-hash" : "ok-null") : "err");
		KSI_DataHash_free(out); KSI_DataHash_free(in); KSI_HashChainLinkList_free(ll);
		vf_case_end(1);
	}
}

/* ---------------- calendar ---------------- */
static void build_cal_tlv(vbuf *out, uint64_t pub, int with_aggr, uint64_t aggr, const unsigned char *in, size_t il, const rlink *links, size_t n) {
	vbuf b;
	size_t i;
	vb_init(&b);
	rtlv_put_u64(&b, 0x01, pub);
	if (with_aggr) rtlv_put_u64(&b, 0x02, aggr);
	rtlv_put(&b, 0x05, 0, 0, in, il, 0);
	for (i = 0; i < n; i++) rtlv_put(&b, links[i].is_left ? 0x07 : 0x08, 0, 0, links[i].sib, links[i].sib_len, 0);
	rtlv_put(out, 0x0802, 0, 0, b.p, b.n, 0);
	vb_free(&b);
}

/* (b) calendar root with algorithm switching */
static void part_b(void) {
	static const int SA[] = {RH_SHA256, RH_SHA1, RH_SHA512};
	static const int IA[] = {RH_SHA256, RH_SHA512, RH_SHA1};
	int maxn = VF_THOROUGH ? 6 : 4, n;
	size_t ia;
	for (ia = 0; ia < 3; ia++)
		for (n = 1; n <= maxn; n++) {
			long total = 1, idx;
			int i;
			for (i = 0; i < n; i++) total *= 6;
			for (idx = 0; idx < total; idx++) {
				rlink links[6];
				unsigned char in[RH_MAX_IMPRINT], exp[RH_MAX_IMPRINT];
				size_t il, el = 0;
				long x = idx;
				vbuf b;
				KSI_CalendarHashChain *c = NULL;
				KSI_DataHash *root = NULL, *root2 = NULL;
				int rr, res;
				if (!vf_case_begin("b:in%d:n%d:idx%ld", IA[ia], n, idx)) continue;
				il = ref_fake_imprint(IA[ia], 21, in);
				for (i = 0; i < n; i++) { int d = (int)(x % 6); x /= 6; ref_link_imprint(&links[i], d & 1, SA[d >> 1], (unsigned)(i + 40), 0); }
				vb_init(&b);
				build_cal_tlv(&b, 1700000000, 1, 1600000000, in, il, links, (size_t)n);
				if (ku_parse_cal_chain(ctx, b.p, b.n, &c) != KSI_OK) vf_fail("cal-parse", "valid calendar chain refused");
				else {
					KSI_LIST(KSI_HashChainLink) *ll = NULL;
					KSI_DataHash *ih = NULL;
					rr = ref_cal_aggregate(in, il, links, (size_t)n, exp, &el);
					res = KSI_CalendarHashChain_aggregate(c, &root);
					vf_count("impl_calls", 2);
					if (rr != 0) vf_harness_error("reference cannot compute calendar chain");
					if (res != KSI_OK || !ku_hash_eq(root, exp, el)) vf_fail("cal-root-mismatch", "expected %s got res %x %s", vf_hex(exp, el), res, ku_hash_hex(root));
					KSI_CalendarHashChain_getHashChain(c, &ll);
					KSI_CalendarHashChain_getInputHash(c, &ih);
					res = KSI_HashChain_aggregateCalendar(ctx, ll, ih, &root2);
					if (res != KSI_OK || !ku_hash_eq(root2, exp, el)) vf_fail("cal-root-mismatch", "aggregateCalendar: expected %s got res %x %s", vf_hex(exp, el), res, ku_hash_hex(root2));
					vf_obs("root=%s", ku_hash_hex(root));
					vf_outcome("cal-root:alg%d", exp[0]);
				}
				KSI_DataHash_free(root); KSI_DataHash_free(root2);
				KSI_CalendarHashChain_free(c);
				vb_free(&b);
				vf_case_end(1);
			}
		}
}

/* (c) registration time: every shape of length <= N x every publication time <= PMAX */
static void check_time(KSI_CalendarHashChain *c, const int *dirs, int n, uint64_t P, long *acc, long *rej) {
	KSI_Integer *pi = NULL, *old = NULL;
	uint64_t et = 0;
	time_t got = (time_t)-7;
	int rr, res;
	KSI_Integer_new(ctx, P, &pi);
	KSI_CalendarHashChain_getPublicationTime(c, &old);
	KSI_Integer_free(old);
	KSI_CalendarHashChain_setPublicationTime(c, pi);
	rr = ref_cal_time(dirs, n, P, &et);
	res = KSI_CalendarHashChain_calculateAggregationTime(c, &got);
	vf_count("impl_calls", 1);
	if (P >= 0x8000000000000000ULL) {
		/* beyond the signed 64-bit time domain: only "no wrong time accepted" */
		/* the result type is a signed time: a derived time of 2^63 or more cannot be reported at all (a negative value is not that time) */
		if (res == KSI_OK && (rr != 0 || got < 0 || (uint64_t)got != et)) vf_fail("caltime-wrong-accepted", "P=%llu n=%d: library derived %lld, reference %s", (unsigned long long)P, n, (long long)got, rr ? "impossible" : got < 0 ? "a time that does not fit the signed result" : "other");
		return;
	}
	if (rr == 0) {
		(*acc)++;
		if (res != KSI_OK || (uint64_t)got != et) vf_fail("caltime-mismatch", "P=%llu n=%d: reference time %llu, library res %x time %lld", (unsigned long long)P, n, (unsigned long long)et, res, (long long)got);
	} else {
		(*rej)++;
		if (res == KSI_OK) vf_fail("caltime-impossible-accepted", "P=%llu n=%d: shape impossible for the publication time but library derived %lld", (unsigned long long)P, n, (long long)got);
	}
}

static KSI_CalendarHashChain *cal_from_dirs(const int *dirs, int n) {
	rlink links[130];
	unsigned char in[RH_MAX_IMPRINT];
	size_t il = ref_fake_imprint(RH_SHA256, 1, in);
	vbuf b;
	KSI_CalendarHashChain *c = NULL;
	int i;
	for (i = 0; i < n; i++) ref_link_imprint(&links[i], dirs[i], RH_SHA256, (unsigned)i, 0);
	vb_init(&b);
	build_cal_tlv(&b, 1, 0, 0, in, il, links, (size_t)n);
	if (ku_parse_cal_chain(ctx, b.p, b.n, &c) != KSI_OK) vf_harness_error("cal_from_dirs: refused");
	vb_free(&b);
	return c;
}

static void part_c(void) {
	int maxn = VF_THOROUGH ? 12 : 8, n;
	uint64_t pmax = VF_THOROUGH ? 4096 : 256;
	for (n = 1; n <= maxn; n++) {
		unsigned pat;
		for (pat = 0; pat < (1u << n); pat++) {
			int dirs[12], i;
			KSI_CalendarHashChain *c;
			uint64_t P;
			long acc = 0, rej = 0;
			if (!vf_case_begin("c:n%d:pat%x", n, pat)) continue;
			for (i = 0; i < n; i++) dirs[i] = (pat >> i) & 1;
			c = cal_from_dirs(dirs, n);
			for (P = 0; P <= pmax; P++) check_time(c, dirs, n, P, &acc, &rej);
			vf_count("caltime_accept_expected", acc);
			vf_count("caltime_reject_expected", rej);
			vf_obs("acc=%ld rej=%ld", acc, rej);
			KSI_CalendarHashChain_free(c);
			vf_case_end(1);
		}
	}
	/* forward direction: for every (t, P) the reference shape must be accepted with time t.
	 * (covered backwards above for P <= pmax; here the large-P boundary families) */
	{
		static const uint64_t PS[] = {0x7fffffffULL, 0x80000000ULL, 0xffffffffULL, 0x100000000ULL, 0x100000001ULL,
		                              1700000000ULL, 0x3fffffffffffffffULL, 0x4000000000000000ULL, 0x4000000000000001ULL,
		                              0x7fffffffffffffffULL, 0x8000000000000000ULL, 0xffffffffffffffffULL};
		size_t pi;
		for (pi = 0; pi < sizeof PS / sizeof *PS; pi++) {
			uint64_t P = PS[pi], h = 1, ts[8];
			int k, nt = 0;
			while ((P >> 1) >= h) h <<= 1;
			ts[nt++] = 0; ts[nt++] = 1; ts[nt++] = P - 1; ts[nt++] = P; ts[nt++] = h - 1; ts[nt++] = h;
			ts[nt++] = P / 3; ts[nt++] = h / 2 + 12345;
			for (k = 0; k < nt; k++) {
				int dirs[130], n2, j;
				long acc = 0, rej = 0;
				KSI_CalendarHashChain *c;
				if (ts[k] > P) continue;
				if (!vf_case_begin("c:big:P%llx:t%llx", (unsigned long long)P, (unsigned long long)ts[k])) continue;
				n2 = ref_cal_shape(ts[k], P, dirs);
				if (n2 <= 0) { vf_case_end(0); continue; }
				c = cal_from_dirs(dirs, n2);
				check_time(c, dirs, n2, P, &acc, &rej);
				if (acc != 1 && P < 0x8000000000000000ULL) vf_harness_error("reference shape not accepted by reference inverse");
				KSI_CalendarHashChain_free(c);
				/* one-link perturbations: flip each link, drop the last, duplicate the last */
				for (j = 0; j < n2; j++) {
					dirs[j] ^= 1;
					c = cal_from_dirs(dirs, n2);
					check_time(c, dirs, n2, P, &acc, &rej);
					KSI_CalendarHashChain_free(c);
					dirs[j] ^= 1;
				}
				if (n2 > 1) { c = cal_from_dirs(dirs, n2 - 1); check_time(c, dirs, n2 - 1, P, &acc, &rej); KSI_CalendarHashChain_free(c); }
				if (n2 < 120) { dirs[n2] = dirs[n2 - 1]; c = cal_from_dirs(dirs, n2 + 1); check_time(c, dirs, n2 + 1, P, &acc, &rej); KSI_CalendarHashChain_free(c); }
				vf_count("caltime_accept_expected", acc);
				vf_count("caltime_reject_expected", rej);
				vf_case_end(1);
			}
		}
	}
}

static void run(void) {
	ctx = ku_ctx();
	if (!ref_hash_computable(RH_SHA256) || !ref_hash_computable(RH_SHA512)) vf_harness_error("reference digests unavailable");
	part_a0();
	part_a1();
	part_a2();
	part_a3();
	part_a4();
	part_a5();
	part_b();
	part_c();
	KSI_CTX_free(ctx);
}

int main(int argc, char **argv) {
	vf_driver d = {"C03", run};
	return vf_main(argc, argv, &d);
}
