/* C07 - signing returns success only with a valid signature for the requested hash */
#include "ku.h"
#include "srv.h"
#include "ref/ref_pdu.h"
#include <ksi/net_async.h>
#include <ksi/net_uri.h>

#define LOGIN "user-c07"
#define KEY   "key-c07-secret"

enum { B_HONEST = 0, B_FOREIGN_ID, B_STALE_ID, B_OTHER_HASH, B_OTHER_LEVEL, B_STATUS, B_ERROR_PDU, B_TRUNCATED, B_BAD_MAC, B_NO_MAC,
       B_OTHER_VERSION, B_INCONSISTENT, B_EMPTY, B_NO_CHAINS, B_OTHER_KEY, B_NO_HEADER, B_GARBAGE, B_REORDERED, B_ID_HIGH32, B_ID_HIGHFF, B_LC_WRAP, B_ERROR_WITH_RESPONSE, B_CONFIG_WITH_RESPONSE, B_NBEH };
static const char *BNAME[B_NBEH] = {"honest", "foreign-id", "stale-id", "other-hash", "other-level", "status", "error-pdu", "truncated", "bad-mac", "no-mac",
                                    "other-version", "inconsistent", "empty", "no-chains", "other-key", "no-header", "garbage", "chains-top-first", "id-plus-2^32", "id-high-half-set", "level-correction-wraps", "error-payload-with-response", "config-payload-with-response"};
static const uint64_t STATUSES[] = {0x0101, 0x0102, 0x0103, 0x0104, 0x0105, 0x0106, 0x0107, 0x0200, 0x0300, 0x0301, 0x7777,
                                   0x100000000ULL, 0x8000000000000000ULL, 0xffffffff00000000ULL, 0x100000101ULL};   /* wider than 32 bits: low half zero / a known code */
#define NSTATUS ((int)(sizeof STATUSES / sizeof *STATUSES))
/* internally inconsistent replies: ways to break an honest body */
#define NINCONS 9

typedef struct {
	int behaviour, sub, version, shape, tail;
	uint64_t prev_id; int have_prev;
	/* observations of the request */
	int nreq; rp_req last; int last_parsed; int mac_ok;
	rsig client_view; int have_view;
} server_t;
static server_t S;
static int g_conf_req;     /* 1: the asynchronous request also carries a configuration request */

static void break_body(rsig *s, int sub) {
	switch (sub % NINCONS) {
		case 0: s->ch[s->nchains - 1].links[0].sib[3] ^= 1; break;                               /* altered sibling: calendar input no longer matches */
		case 1: s->ch[0].aggr_time += 1; break;                                                     /* INT-02 / INT-04 */
		case 2: if (s->has_cal) s->cal_input[4] ^= 1; else s->ch[0].index[0] ^= 1; break;           /* INT-03 / INT-10 */
		case 3: s->ch[0].index[s->ch[0].nindex - 1] ^= 1; break;                                    /* INT-10 */
		case 4: if (s->has_auth) s->auth_hash[2] ^= 1; else s->ch[0].index[0] += 2; break;          /* INT-08 */
		case 5: if (s->has_cal) s->cal_aggr_time += 1; else s->ch[0].index[0] += 4; break;          /* INT-04/05 */
		case 6: if (s->nchains > 1) s->ch[1].input[1] ^= 1; else s->ch[0].index[0] += 8; break;     /* INT-01 */
		case 7: if (s->has_auth) s->auth_time -= 1; else s->ch[0].index[0] += 16; break;            /* INT-06 */
		default: if (s->has_cal && (s->has_auth || s->has_pub)) s->has_cal = 0; else s->ch[0].index[0] += 32; break;   /* a record over a calendar root, but no calendar chain */
	}
}

/* the same elements, aggregation chains listed highest first (the order of the elements inside a signature is free) */
static void chains_top_first(vbuf *body) {
	vbuf chains[8], rest, out;
	size_t off = 0;
	int n = 0, i;
	vb_init(&rest); vb_init(&out);
	while (off < body->n) {
		rtlv t;
		if (rtlv_read(body->p + off, body->n - off, &t) != 0) vf_harness_error("chains_top_first");
		if (t.tag == 0x0801 && n < 8) { vb_init(&chains[n]); vb_put(&chains[n], body->p + off, t.hdr + t.len); n++; }
		else vb_put(&rest, body->p + off, t.hdr + t.len);
		off += t.hdr + t.len;
	}
	for (i = n - 1; i >= 0; i--) { vb_putvb(&out, &chains[i]); vb_free(&chains[i]); }
	vb_putvb(&out, &rest);
	vb_reset(body); vb_putvb(body, &out);
	vb_free(&rest); vb_free(&out);
}

static void handler(const unsigned char *req, size_t n, vbuf *resp, void *user) {
	rp_req r;
	rp_env e;
	rsig sig;
	vbuf body, payload;
	unsigned char hash[RH_MAX_IMPRINT];
	size_t hl;
	uint64_t id, level;
	int version;
	(void)user;
	S.nreq++;
	rp_req_free(&S.last);
	S.last_parsed = rp_parse_request(req, n, RP_AGGR, &S.last) == 0;
	S.mac_ok = S.last_parsed && rp_request_mac_ok(&S.last, KEY, strlen(KEY));
	if (!S.last_parsed || !S.last.has_req || !S.last.has_hash) return;       /* nothing sensible to answer */
	r = S.last;
	id = r.req_id; level = r.has_level ? r.level : 0; version = r.version;
	memcpy(hash, r.hash, r.hash_len); hl = r.hash_len;
	memset(&e, 0, sizeof e);
	e.version = version; e.kind = RP_AGGR; e.login = LOGIN; e.mac_alg = RH_SHA256; e.key = KEY; e.keylen = strlen(KEY);
	vb_init(&body); vb_init(&payload);
	switch (S.behaviour) {
		case B_FOREIGN_ID: id += 1000; break;
		case B_ID_HIGH32: id += 1ULL << 32; break;                 /* same low half, other id */
		case B_ID_HIGHFF: id ^= 0xffffffff00000000ULL; break;
		case B_STALE_ID: if (S.have_prev) id = S.prev_id; break;
		case B_OTHER_HASH: hash[hl - 1] ^= 1; break;
		case B_OTHER_LEVEL: if (level > 0) level -= 1; break;
		case B_OTHER_VERSION: e.version = version == 2 ? 1 : 2; break;
		case B_BAD_MAC: e.flags |= RP_F_BAD_MAC; break;
		case B_NO_MAC: e.flags |= RP_F_NO_MAC; break;
		case B_OTHER_KEY: e.key = "key-c07-secreT"; break;
		case B_NO_HEADER: e.flags |= RP_F_NO_HEADER; break;
		default: break;
	}
	S.prev_id = r.req_id; S.have_prev = 1;
	if (S.behaviour == B_EMPTY) { vb_free(&body); vb_free(&payload); return; }
	if (S.behaviour == B_GARBAGE) { vb_put(resp, "\x82\x21\x00\x03\x01\x02\x03", 7); vb_free(&body); vb_free(&payload); return; }
	if (S.behaviour == B_ERROR_PDU) {
		rp_error_payload(&payload, e.version, RP_AGGR, STATUSES[S.sub % NSTATUS], "simulated error");
		rp_wrap_response(resp, &e, payload.p, payload.n);
		vb_free(&body); vb_free(&payload);
		return;
	}
	if (level + 1 <= 255) {
		int shape = S.shape;
		if (level >= 250) shape = 0;
		/* the aggregator hashes as if the client's subtree root sat at `level`, but reports the first level
		 * correction relative to that root; the client adds the requested level back */
		/* level-correction-wraps: the aggregator hashed as if the subtree root sat at level 0; the correction it reports (that of level 0
		 * minus the requested level, an 8-byte value just below 2^64) comes out right again when the client adds the requested level */
		rp_aggregate(&sig, hash, hl, (S.behaviour == B_LC_WRAP && r.has_level && r.level > 0) ? 0 : level, shape, S.tail, 1700000000ULL, 1700000000ULL + 86400 * 3);
		if (S.behaviour == B_INCONSISTENT) break_body(&sig, S.sub);
		sig.ch[0].links[0].level_corr -= level;
		/* a first level correction just below 2^64: adding the requested level wraps it around to a small, plausible value */
		if (S.behaviour == B_LC_WRAP && r.has_level && r.level > 0 && S.sub % 2) sig.ch[0].links[0].level_corr = (uint64_t)0 - 1;   /* sub 1: 2^64-1 whatever was hashed */
		if (S.behaviour != B_NO_CHAINS) {
			rp_sig_body(&sig, &body);
			if (S.behaviour == B_REORDERED) chains_top_first(&body);
			/* what the client reconstructs from this body */
			S.client_view = sig;
			S.client_view.ch[0].links[0].level_corr += (r.has_level ? r.level : 0);
			S.have_view = 1;
		}
	}
	/* error-payload-with-response: the authenticated PDU carries an error payload next to (sub 0: after, sub 1: in front of) the honest response */
	if (S.behaviour == B_ERROR_WITH_RESPONSE && S.sub % 2 == 1) rp_error_payload(&payload, e.version, RP_AGGR, 0x0300, "upstream error");
	/* config-payload-with-response: the authenticated v2 PDU carries the aggregator's configuration next to (sub 0: after, sub 1: in front of)
	 * the honest response - a pushed configuration riding on a reply, or the answer to a request that asked for both */
	if ((S.behaviour == B_CONFIG_WITH_RESPONSE || r.has_conf_req) && e.version == 2 && S.sub % 2 == 1) rp_aggr_conf_payload(&payload, 17, 1, 400, 1024, "ksi+tcp://parent.test:3332");
	rp_aggr_resp_payload(&payload, e.version, id, 1, S.behaviour == B_STATUS ? STATUSES[S.sub % NSTATUS] : 0, S.behaviour == B_STATUS ? "refused" : NULL, body.p, body.n);
	if (S.behaviour == B_ERROR_WITH_RESPONSE && S.sub % 2 == 0) rp_error_payload(&payload, e.version, RP_AGGR, 0x0101, "invalid request");
	if ((S.behaviour == B_CONFIG_WITH_RESPONSE || r.has_conf_req) && e.version == 2 && S.sub % 2 == 0) rp_aggr_conf_payload(&payload, 17, 1, 400, 1024, "ksi+tcp://parent.test:3332");
	rp_wrap_response(resp, &e, payload.p, payload.n);
	if (S.behaviour == B_TRUNCATED) resp->n = resp->n / 2;
	vb_free(&body); vb_free(&payload);
}

/* does an honest reply exist for this level? */
static int honest_possible(uint64_t level) { return level + 1 <= 255; }

static void check_request_seen(int doc_alg, unsigned seed, uint64_t level) {
	unsigned char h[RH_MAX_IMPRINT];
	size_t hl = ref_fake_imprint(doc_alg, seed, h);
	if (S.nreq == 0) return;
	if (!S.last_parsed) { vf_fail("request-unparsable", "the emitted request is not a well formed aggregation request PDU: %s", vf_hex(srv_last_request.p, srv_last_request.n)); return; }
	if (!S.last.has_hash || S.last.hash_len != hl || memcmp(S.last.hash, h, hl) != 0) vf_fail("request-hash-changed", "request carries hash %s, caller gave %s", vf_hex(S.last.hash, S.last.hash_len), vf_hex(h, hl));
	if ((S.last.has_level ? S.last.level : 0) != level) vf_fail("request-level-changed", "request carries level %llu, caller gave %llu", (unsigned long long)(S.last.has_level ? S.last.level : 0), (unsigned long long)level);
	if (strcmp(S.last.login, LOGIN) != 0) vf_fail("request-login-changed", "request carries login id '%s'", S.last.login);
	if (!S.mac_ok) vf_fail("request-mac", "request MAC does not verify under the configured key");
	if (g_conf_req && !S.last.has_conf_req) vf_fail("request-config-dropped", "the request on the wire carries no configuration request");
}

static void check_result(int res, KSI_Signature *sig, int expect_ok, int doc_alg, unsigned seed, uint64_t level, const char *what) {
	unsigned char h[RH_MAX_IMPRINT];
	size_t hl = ref_fake_imprint(doc_alg, seed, h);
	if (res == KSI_OK && sig != NULL) {
		unsigned char *raw = NULL;
		size_t rl = 0;
		rsig parsed;
		rs_verdict v;
		vf_outcome("%s:success", what);
		if (!expect_ok) vf_fail("success-on-deviant-reply", "%s: server behaviour '%s' (sub %d) but the call reported success", what, BNAME[S.behaviour], S.sub);
		if (KSI_Signature_serialize(sig, &raw, &rl) != KSI_OK) vf_fail("unserializable", "returned signature cannot be serialized");
		else if (rs_parse(raw, rl, &parsed) != 0) vf_fail("result-not-wellformed", "returned signature is not understood by the reference parser");
		else {
			const unsigned char *dh; size_t dl;
			rs_eval(&parsed, &v);
			rs_document_hash(&parsed, &dh, &dl);
			if (dl != hl || memcmp(dh, h, hl) != 0) vf_fail("result-other-hash", "signature input hash %s is not the requested %s", vf_hex(dh, dl), vf_hex(h, hl));
			if (rs_first_level_corr(&parsed) != level) vf_fail("result-other-level", "signature first level correction %llu, requested level %llu", (unsigned long long)rs_first_level_corr(&parsed), (unsigned long long)level);
			if (v.violated | v.uncomputable) vf_fail("result-inconsistent", "returned signature violates internal conditions 0x%x/0x%x", v.violated, v.uncomputable);
		}
		KSI_free(raw);
	} else {
		vf_outcome("%s:error", what);
		if (res == KSI_OK) vf_fail("ok-without-signature", "%s: KSI_OK but no signature", what);
		if (sig != NULL) vf_fail("error-with-signature", "%s: error 0x%x but a signature object was returned", what, res);
		if (expect_ok) vf_fail("honest-reply-rejected", "%s: honest reply (shape %d tail %d version %d) but error 0x%x", what, S.shape, S.tail, S.version, res);
	}
	vf_obs("res=%x sig=%d", res, sig != NULL);
}

static void set_version(KSI_CTX *ctx, int version) {
	KSI_CTX_setOption(ctx, KSI_OPT_AGGR_PDU_VER, (void *)(size_t)version);
}

/* one signing attempt through the chosen interface; prime = number of honest requests before (for stale id) */
static void one_case(int iface, int transport, int version, int doc_alg, uint64_t level, int shape, int tail, int behaviour, int sub) {
	KSI_CTX *ctx = ku_ctx();
	KSI_DataHash *hsh = NULL;
	KSI_Signature *sig = NULL;
	unsigned char h[RH_MAX_IMPRINT];
	size_t hl;
	const char *uri = transport == 0 ? "ksi+tcp://aggr.test:3332" : "ksi+http://aggr.test:8080/gt-signingservice";
	int res = KSI_UNKNOWN_ERROR, expect_ok;
	unsigned seed = 42;
	char what[64];
	snprintf(what, sizeof what, "%s-%s", iface == 0 ? "signAggregated" : iface == 1 ? "createSignature" : iface == 3 ? "signWithPolicyCtx" : iface == 4 ? "createAggregated" : iface == 5 ? "Signature_create" : "async", transport == 0 ? "tcp" : "http");
	srv_install(handler, NULL);
	memset(&S, 0, sizeof S);
	S.behaviour = B_HONEST; S.sub = sub; S.version = version; S.shape = shape; S.tail = tail;
	set_version(ctx, version);
	expect_ok = (behaviour == B_HONEST || behaviour == B_CONFIG_WITH_RESPONSE) && honest_possible(level);
	if (behaviour == B_OTHER_LEVEL && level == 0) expect_ok = 1;          /* deviation not expressible at level 0: reply is honest */
	if (behaviour == B_LC_WRAP && level == 0 && honest_possible(level)) expect_ok = 1;
	if (iface != 2) {
		if (KSI_CTX_setAggregator(ctx, uri, LOGIN, KEY) != KSI_OK) vf_harness_error("setAggregator");
		if (behaviour == B_STALE_ID) {
			/* first an honest exchange, whose id the server then reuses */
			KSI_DataHash *h0 = NULL;
			KSI_Signature *s0 = NULL;
			hl = ref_fake_imprint(doc_alg, 7, h);
			KSI_DataHash_fromImprint(ctx, h, hl, &h0);
			res = KSI_Signature_signAggregated(ctx, h0, 0, &s0);
			if (res != KSI_OK) vf_fail("honest-reply-rejected", "priming request failed 0x%x", res);
			KSI_Signature_free(s0); KSI_DataHash_free(h0);
		}
		S.behaviour = behaviour;
		hl = ref_fake_imprint(doc_alg, seed, h);
		KSI_DataHash_fromImprint(ctx, h, hl, &hsh);
		if (iface == 0) res = KSI_Signature_signAggregated(ctx, hsh, level, &sig);
		else if (iface == 3) {
			/* the variant that takes a policy and a caller-supplied verification context */
			KSI_VerificationContext vc;
			KSI_VerificationContext_init(&vc, ctx);
			res = KSI_Signature_signAggregatedWithPolicy(ctx, hsh, level, KSI_VERIFICATION_POLICY_INTERNAL, &vc, &sig);
			KSI_VerificationContext_clean(&vc);
		}
		else if (iface == 4) res = KSI_Signature_createAggregated(ctx, hsh, level, &sig);   /* the older names of the same calls */
		else if (iface == 5) res = KSI_Signature_create(ctx, hsh, &sig);
		else res = KSI_createSignature(ctx, hsh, &sig);
		vf_count("impl_calls", 1);
	} else {
		KSI_AsyncService *svc = NULL;
		KSI_AsyncHandle *hd = NULL, *out = NULL;
		int i, state = 0, err = 0, rounds = 1 + (behaviour == B_STALE_ID);
		if (KSI_SigningAsyncService_new(ctx, &svc) != KSI_OK) vf_harness_error("async service new");
		if (KSI_AsyncService_setEndpoint(svc, uri, LOGIN, KEY) != KSI_OK) vf_harness_error("async setEndpoint");
		while (rounds-- > 0) {
			uint64_t lv = rounds ? 0 : level;
			S.behaviour = rounds ? B_HONEST : behaviour;
			hl = ref_fake_imprint(doc_alg, rounds ? 7 : seed, h);
			KSI_DataHash_free(hsh); hsh = NULL;
			KSI_DataHash_fromImprint(ctx, h, hl, &hsh);
			if (g_conf_req && !rounds) {
				/* one request asking for a signature AND the aggregator's configuration */
				KSI_AggregationReq *rq = NULL;
				KSI_Config *cf = NULL;
				KSI_Integer *li = NULL;
				if (KSI_AggregationReq_new(ctx, &rq) != KSI_OK || KSI_Config_new(ctx, &cf) != KSI_OK || KSI_Integer_new(ctx, lv, &li) != KSI_OK) vf_harness_error("request objects");
				KSI_AggregationReq_setRequestHash(rq, hsh);
				if (lv != 0) KSI_AggregationReq_setRequestLevel(rq, li); else KSI_Integer_free(li);
				KSI_AggregationReq_setConfig(rq, cf);
				res = KSI_AsyncAggregationHandle_new(ctx, rq, &hd);
				if (res != KSI_OK) { KSI_AggregationReq_free(rq); hsh = NULL; }
			} else
			res = KSI_AsyncSigningHandle_new(ctx, hsh, lv, &hd);
			if (res != KSI_OK) { vf_outcome("async:handle-refused"); break; }
			hsh = NULL; /* the handle took ownership */
			res = KSI_AsyncService_addRequest(svc, hd);
			if (res != KSI_OK) { KSI_AsyncHandle_free(hd); vf_outcome("async:add-refused"); break; }
			out = NULL;
			for (i = 0; i < 60 && out == NULL; i++) {
				size_t waiting = 0;
				res = KSI_AsyncService_run(svc, &out, &waiting);
				vf_count("impl_calls", 1);
				if (res != KSI_OK) break;
				if (out != NULL) {
					/* a configuration delivered as a handle of its own is not the answer to the signing request */
					int st = 0;
					KSI_AsyncHandle_getState(out, &st);
					if (st == KSI_ASYNC_STATE_PUSH_CONFIG_RECEIVED) { vf_outcome("async:config-handle"); KSI_AsyncHandle_free(out); out = NULL; continue; }
				}
				if (out == NULL) sn_now += 1;
			}
			if (out == NULL) { res = res == KSI_OK ? KSI_UNKNOWN_ERROR : res; vf_fail("async-no-completion", "request not handed back within 60 rounds / 60 virtual seconds (res 0x%x)", res); break; }
			KSI_AsyncHandle_getState(out, &state);
			KSI_AsyncHandle_getError(out, &err);
			if (state == KSI_ASYNC_STATE_RESPONSE_RECEIVED) {
				sig = NULL;
				res = KSI_AsyncHandle_getSignature(out, &sig);
				if (res == KSI_OK && sig != NULL) {
					/* asking the completed handle again gives the same signature */
					KSI_Signature *again = NULL;
					unsigned char *r1 = NULL, *r2 = NULL;
					size_t n1 = 0, n2 = 0;
					int ra = KSI_AsyncHandle_getSignature(out, &again);
					vf_count("impl_calls", 1);
					if (ra != KSI_OK || again == NULL || KSI_Signature_serialize(sig, &r1, &n1) != KSI_OK || KSI_Signature_serialize(again, &r2, &n2) != KSI_OK || n1 != n2 || memcmp(r1, r2, n1) != 0)
						vf_fail("second-signature-differs", "async: the second KSI_AsyncHandle_getSignature on the completed handle gives 0x%x and %zu bytes, the first gave %zu bytes (requested level %llu)", ra, n2, n1, (unsigned long long)lv);
					KSI_free(r1); KSI_free(r2); KSI_Signature_free(again);
				}
			} else {
				res = err ? err : KSI_UNKNOWN_ERROR;
			}
			if (rounds) { if (res != KSI_OK) vf_fail("honest-reply-rejected", "async priming request failed 0x%x", res); KSI_Signature_free(sig); sig = NULL; }
			KSI_AsyncHandle_free(out);
		}
		KSI_AsyncService_free(svc);
	}
	if (getenv("VF_DEBUG")) KSI_ERR_statusDump(ctx, stderr);
	check_request_seen(doc_alg, seed, (iface == 1 || iface == 5) ? 0 : level);
	if (behaviour == B_OTHER_LEVEL || behaviour == B_INCONSISTENT || behaviour == B_OTHER_HASH || behaviour == B_HONEST || behaviour == B_REORDERED || behaviour == B_CONFIG_WITH_RESPONSE) {
		/* whether such a body is acceptable is decided by the reference evaluator on what the client
		 * reconstructs (e.g. without a calendar chain an altered sibling or level is not observable) */
		expect_ok = 0;
		if (S.have_view) {
			rs_verdict v;
			const unsigned char *dh; size_t dl;
			unsigned char hh[RH_MAX_IMPRINT];
			size_t hhl = ref_fake_imprint(doc_alg, seed, hh);
			rs_eval(&S.client_view, &v);
			rs_document_hash(&S.client_view, &dh, &dl);
			expect_ok = !(v.violated | v.uncomputable) && dl == hhl && memcmp(dh, hh, dl) == 0;
			/* an authentication or publication record without the calendar chain whose root it speaks about is not a signature */
			if (!S.client_view.has_cal && (S.client_view.has_auth || S.client_view.has_pub)) expect_ok = 0;
		}
		vf_outcome("body:%s:%s", BNAME[behaviour], expect_ok ? "acceptable" : "unacceptable");
	}
	if (behaviour == B_LC_WRAP && level > 0) {
		/* acceptable only when nothing wrapped: the correction hashed for level 0 already covers the requested level */
		expect_ok = sub % 2 == 0 && S.have_view && rs_first_level_corr(&S.client_view) >= level && rs_first_level_corr(&S.client_view) <= 255;
		vf_outcome("body:%s:%s", BNAME[behaviour], expect_ok ? "acceptable" : "unacceptable");
	}
	check_result(res, sig, expect_ok, doc_alg, seed, (iface == 1 || iface == 5) ? 0 : level, what);
	KSI_Signature_free(sig);
	KSI_DataHash_free(hsh);
	KSI_CTX_free(ctx);
	rp_req_free(&S.last);
	memset(&S.last, 0, sizeof S.last);
	if (vf_alloc_live != 0) { vf_fail("leak", "%ld SDK allocations still live after freeing the context", vf_alloc_live); vf_alloc_live = 0; }
}

static void part_main(void) {
	static const int ALGS[] = {RH_SHA256, RH_SHA512, RH_SHA384, RH_RIPEMD160};
	static const uint64_t LEVELS[] = {0, 1, 2, 254, 255};
	int iface, tr, ver, ai, li, shape, tail, b, sub;
	for (iface = 0; iface < 6; iface++) for (tr = 0; tr < 2; tr++) for (ver = 2; ver >= 1; ver--)
	for (ai = 0; ai < 4; ai++) for (li = 0; li < 5; li++) for (shape = 0; shape < 6; shape++) for (tail = 0; tail < 3; tail++)
	for (b = 0; b < B_NBEH; b++) {
		int nsub = b == B_STATUS || b == B_ERROR_PDU ? NSTATUS : b == B_INCONSISTENT ? NINCONS : (b == B_LC_WRAP || b == B_ERROR_WITH_RESPONSE || b == B_CONFIG_WITH_RESPONSE) ? 2 : 1;
		int rt = tail == 2 ? 3 : tail;
		if ((iface == 1 || iface == 5) && li != 0) continue;     /* createSignature / KSI_Signature_create have no level */
		if (!VF_THOROUGH) {
			/* quick: one shape / algorithm per behaviour, all behaviours, both transports, all interfaces */
			if (shape != (b % 6) || ai != (b % 4 == 3 ? 1 : 0) || (li != 0 && li != 2) || rt != (b & 1 ? 3 : 1) || (ver == 1 && b > B_STALE_ID && b != B_OTHER_VERSION && b != B_ERROR_WITH_RESPONSE)) continue;
		} else {
			/* thorough: full product over shape x tail x behaviour for SHA-256 / levels {0,2}; other algorithms and levels with shape = b%6 */
			if ((ai != 0 || (li != 0 && li != 2)) && shape != (b % 6)) continue;
			if (ver == 1 && (shape != (b % 6) || ai != 0)) continue;
		}
		for (sub = 0; sub < nsub; sub++) {
			if (!vf_case_begin("sign:if%d:tr%d:v%d:alg%d:lvl%llu:shape%d:tail%d:%s:%d", iface, tr, ver, ALGS[ai], (unsigned long long)LEVELS[li], shape, rt, BNAME[b], sub)) continue;
			one_case(iface, tr, ver, ALGS[ai], LEVELS[li], shape, rt, b, sub);
			vf_case_end(1);
		}
	}
}

/* the blocking interface refuses a deprecated (untrusted) input hash algorithm before anything is sent */
static void part_sha1(void) {
	int iface, tr;
	for (iface = 0; iface < 4; iface++) for (tr = 0; tr < 2; tr++) {
		KSI_CTX *ctx;
		KSI_DataHash *hsh = NULL;
		KSI_Signature *sig = NULL;
		unsigned char h[RH_MAX_IMPRINT];
		size_t hl;
		int res;
		long before;
		if (!vf_case_begin("sha1-refused:if%d:tr%d", iface, tr)) continue;
		ctx = ku_ctx();
		srv_install(handler, NULL);
		memset(&S, 0, sizeof S);
		S.version = 2; S.tail = 3;
		KSI_CTX_setAggregator(ctx, tr == 0 ? "ksi+tcp://aggr.test:3332" : "ksi+http://aggr.test/x", LOGIN, KEY);
		hl = ref_fake_imprint(RH_SHA1, 3, h);
		KSI_DataHash_fromImprint(ctx, h, hl, &hsh);
		before = sn_calls + fc_calls;
		res = iface == 0 ? KSI_Signature_signAggregated(ctx, hsh, 0, &sig) : iface == 1 ? KSI_createSignature(ctx, hsh, &sig) : iface == 2 ? KSI_Signature_createAggregated(ctx, hsh, 0, &sig) : KSI_Signature_create(ctx, hsh, &sig);
		vf_count("impl_calls", 1);
		if (res == KSI_OK || sig != NULL) vf_fail("sha1-accepted", "signing a SHA-1 input hash succeeded");
		if (sn_calls + fc_calls != before || S.nreq != 0) vf_fail("sha1-sent", "a request for a SHA-1 input hash reached the transport (%ld transport calls)", sn_calls + fc_calls - before);
		vf_outcome("sha1:%s", res == KSI_OK ? "accepted" : "refused");
		KSI_Signature_free(sig); KSI_DataHash_free(hsh); KSI_CTX_free(ctx);
		vf_case_end(1);
	}
}

/* signing the root of a local aggregation chain whose input hash sits at a given level (the block-signing style call): the
 * returned signature starts with that chain, its input hash is the chain's input hash and it verifies for that hash at the
 * requested level */
static void part_chain(void) {
	static const uint64_t LV[] = {0, 1, 3, 17, 200};
	int li, tr, corr;
	for (tr = 0; tr < 2; tr++) for (li = 0; li < 5; li++) for (corr = 0; corr < 2; corr++) {
		KSI_CTX *ctx;
		KSI_AggregationHashChain *chn = NULL;
		KSI_Signature *sig = NULL;
		KSI_DataHash *hsh = NULL;
		rs_chain c;
		vbuf cb;
		unsigned char h[RH_MAX_IMPRINT];
		size_t hl;
		int res, vres;
		if (!vf_case_begin("sign-chain:tr%d:lvl%llu:corr%d", tr, (unsigned long long)LV[li], corr)) continue;
		ctx = ku_ctx();
		srv_install(handler, NULL);
		memset(&S, 0, sizeof S);
		S.behaviour = B_HONEST; S.version = 2; S.shape = 2; S.tail = 3;
		if (KSI_CTX_setAggregator(ctx, tr == 0 ? "ksi+tcp://aggr.test:3332" : "ksi+http://aggr.test:8080/gt-signingservice", LOGIN, KEY) != KSI_OK) vf_harness_error("setAggregator");
		memset(&c, 0, sizeof c);
		c.aggr_time = 1; c.index[0] = 3; c.nindex = 1; c.alg = RH_SHA256;
		hl = c.input_len = ref_fake_imprint(RH_SHA256, 42, c.input);
		memcpy(h, c.input, hl);
		c.nlinks = 1;
		ref_link_imprint(&c.links[0], 1, RH_SHA256, 5, (uint64_t)corr * 2);
		vb_init(&cb);
		rs_serialize_chain(&c, &cb);
		if (ku_parse_aggr_chain(ctx, cb.p, cb.n, &chn) != KSI_OK) vf_harness_error("local chain fixture");
		res = KSI_Signature_signAggregationChain(ctx, (int)LV[li], chn, &sig);
		vf_count("impl_calls", 1);
		if (res != KSI_OK || sig == NULL) {
			vf_outcome("sign-chain:error");
			if (LV[li] + (uint64_t)corr * 2 + 2 <= 255) vf_fail("honest-reply-rejected", "KSI_Signature_signAggregationChain(level %llu) failed 0x%x although the aggregator answered honestly", (unsigned long long)LV[li], res);
		} else {
			unsigned char *raw = NULL;
			size_t rl = 0;
			rsig parsed;
			rs_verdict v;
			vf_outcome("sign-chain:success");
			if (KSI_Signature_serialize(sig, &raw, &rl) != KSI_OK || rs_parse(raw, rl, &parsed) != 0) vf_fail("result-not-wellformed", "the returned signature cannot be serialized / is not understood by the reference parser");
			else {
				const unsigned char *dh; size_t dl;
				rs_eval(&parsed, &v);
				rs_document_hash(&parsed, &dh, &dl);
				if (dl != hl || memcmp(dh, h, hl) != 0) vf_fail("result-other-hash", "signature input hash %s is not the chain's input hash %s", vf_hex(dh, dl), vf_hex(h, hl));
				if (v.violated | v.uncomputable) vf_fail("result-inconsistent", "returned signature violates internal conditions 0x%x/0x%x", v.violated, v.uncomputable);
				if (rs_first_level_corr(&parsed) != LV[li] + (uint64_t)corr * 2) vf_fail("result-other-level", "signature first level correction %llu, expected the link's %d plus the requested level %llu", (unsigned long long)rs_first_level_corr(&parsed), corr * 2, (unsigned long long)LV[li]);
			}
			KSI_free(raw);
			KSI_DataHash_fromImprint(ctx, h, hl, &hsh);
			vres = KSI_Signature_verifyWithPolicy(sig, hsh, LV[li], KSI_VERIFICATION_POLICY_INTERNAL, NULL);
			if (vres != KSI_OK) vf_fail("result-not-for-level", "the returned signature does not verify for the chain's input hash at the requested level %llu (0x%x)", (unsigned long long)LV[li], vres);
		}
		KSI_DataHash_free(hsh);
		KSI_Signature_free(sig);
		KSI_AggregationHashChain_free(chn);
		vb_free(&cb);
		KSI_CTX_free(ctx);
		rp_req_free(&S.last);
		memset(&S.last, 0, sizeof S.last);
		if (vf_alloc_live != 0) { vf_fail("leak", "%ld SDK allocations still live after freeing the context", vf_alloc_live); vf_alloc_live = 0; }
		vf_case_end(1);
	}
}

/* second use of an asynchronous handle: a handle that was handed back may be submitted again (the documented way to retry).
 * What the second round yields depends on the second reply only */
static void part_readd(void) {
	static const int SECOND[] = {B_HONEST, B_STATUS, B_ERROR_PDU, B_OTHER_HASH, B_BAD_MAC, B_FOREIGN_ID};
	int tr, first, si;
	for (tr = 0; tr < 2; tr++) for (first = 0; first < 2; first++) for (si = 0; si < 6; si++) {
		KSI_CTX *ctx;
		KSI_AsyncService *svc = NULL;
		KSI_AsyncHandle *hd = NULL, *out = NULL;
		KSI_DataHash *hsh = NULL;
		KSI_Signature *sig = NULL;
		unsigned char h[RH_MAX_IMPRINT];
		size_t hl;
		int round, res = KSI_OK;
		if (!vf_case_begin("async-readd:tr%d:first-%s:second-%s", tr, first ? "status-error" : "honest", BNAME[SECOND[si]])) continue;
		ctx = ku_ctx();
		srv_install(handler, NULL);
		memset(&S, 0, sizeof S);
		S.version = 2; S.shape = 1; S.tail = 3;
		if (KSI_SigningAsyncService_new(ctx, &svc) != KSI_OK) vf_harness_error("async service new");
		if (KSI_AsyncService_setEndpoint(svc, tr == 0 ? "ksi+tcp://aggr.test:3332" : "ksi+http://aggr.test:8080/gt-signingservice", LOGIN, KEY) != KSI_OK) vf_harness_error("async setEndpoint");
		KSI_AsyncService_setOption(svc, KSI_ASYNC_OPT_RCV_TIMEOUT, (void *)(size_t)5);
		hl = ref_fake_imprint(RH_SHA256, 42, h);
		KSI_DataHash_fromImprint(ctx, h, hl, &hsh);
		if (KSI_AsyncSigningHandle_new(ctx, hsh, 0, &hd) != KSI_OK) vf_harness_error("handle");
		for (round = 0; round < 2; round++) {
			int beh = round == 0 ? (first ? B_STATUS : B_HONEST) : SECOND[si], i, state = 0, err = 0, expect_ok;
			S.behaviour = beh; S.sub = 0;
			res = KSI_AsyncService_addRequest(svc, hd);
			vf_count("impl_calls", 1);
			if (res != KSI_OK) { vf_fail("readd-refused", "round %d: KSI_AsyncService_addRequest of the %s handle failed 0x%x", round, round ? "returned" : "new", res); KSI_AsyncHandle_free(hd); hd = NULL; break; }
			out = NULL;
			for (i = 0; i < 40 && out == NULL; i++) {
				size_t waiting = 0;
				res = KSI_AsyncService_run(svc, &out, &waiting);
				vf_count("impl_calls", 1);
				if (res != KSI_OK) break;
				if (out == NULL) sn_now += 1;
			}
			if (out != hd) { vf_fail("async-no-completion", "round %d: the handle was not handed back within 40 rounds (res 0x%x, got %p)", round, res, (void *)out); if (out) KSI_AsyncHandle_free(out); hd = NULL; break; }
			KSI_AsyncHandle_getState(out, &state);
			KSI_AsyncHandle_getError(out, &err);
			sig = NULL;
			res = KSI_AsyncHandle_getSignature(out, &sig);
			vf_count("impl_calls", 1);
			expect_ok = beh == B_HONEST;
			vf_outcome("async-readd:round%d:%s:%s", round, BNAME[beh], res == KSI_OK ? "signature" : "error");
			if (expect_ok) {
				KSI_DataHash *dh = NULL;
				if (state != KSI_ASYNC_STATE_RESPONSE_RECEIVED || res != KSI_OK || sig == NULL) vf_fail("honest-reply-rejected", "round %d: honest reply but state %d error 0x%x getSignature 0x%x", round, state, err, res);
				else if (KSI_Signature_getDocumentHash(sig, &dh) != KSI_OK || !ku_hash_eq(dh, h, hl)) vf_fail("result-other-hash", "round %d: signature for another hash", round);
			} else if (res == KSI_OK || sig != NULL) {
				vf_fail("success-on-deviant-reply", "round %d: the reply of this round was '%s' (state %d, error 0x%x) but KSI_AsyncHandle_getSignature returned a signature%s", round, BNAME[beh], state, err, round ? " - the one left from the first round" : "");
			}
			KSI_Signature_free(sig); sig = NULL;
		}
		KSI_AsyncHandle_free(hd);
		KSI_AsyncService_free(svc);
		KSI_CTX_free(ctx);
		rp_req_free(&S.last);
		memset(&S.last, 0, sizeof S.last);
		if (vf_alloc_live != 0) { vf_fail("leak", "%ld SDK allocations still live after freeing the context", vf_alloc_live); vf_alloc_live = 0; }
		vf_case_end(1);
	}
}

/* a signing request that also asks for the configuration: the hash and level still go out, the reply (configuration and response in one
 * PDU under v2) still completes the request with the signature */
static void part_confreq(void) {
	static const uint64_t LV[] = {0, 3};
	int tr, ver, li, sub, shape;
	g_conf_req = 1;
	for (tr = 0; tr < 2; tr++) for (ver = 2; ver >= 1; ver--) for (li = 0; li < 2; li++) for (sub = 0; sub < 2; sub++) for (shape = 0; shape < (VF_THOROUGH ? 6 : 2); shape++) {
		if (!vf_case_begin("sign-confreq:tr%d:v%d:lvl%llu:order%d:shape%d", tr, ver, (unsigned long long)LV[li], sub, shape)) continue;
		one_case(2, tr, ver, RH_SHA256, LV[li], shape, 1, B_HONEST, sub);
		vf_case_end(1);
	}
	g_conf_req = 0;
}

static void run(void) {
	part_confreq();
	part_sha1();
	part_readd();
	part_chain();
	part_main();
}

int main(int argc, char **argv) {
	vf_driver d = {"C07", run};
	return vf_main(argc, argv, &d);
}
