/* C10 - typed parsing enforces the KSI schema; unknown elements obey the critical flag.
 *
 * Bounded-exhaustive mutation enumeration: every valid base object x every tree position x every
 * mutation operator (and, thorough tier, operator pairs inside one container) is run through the real
 * typed parsers and compared with the declarative reference schema ref/ref_schema.c.
 *
 * Case names: self:<base>                       the unmodified base object
 *             s:<base>:<position>:<operator>    one operator at one tree position (pre-order index)
 *             p:<base>:<position>:<operator>    that operator (reduced set) followed by every operator at every
 *                                               child of the same container of the mutated tree
 * Violation signatures: accepts-invalid:<container>:<rule>, rejects-valid:<container>,
 *             nc-unknown:fields-differ | not-preserved | verdict-changed, crash:... (from the runner). */
#include "ku.h"
#include "ref/ref_schema.h"
#include "ref/ref_sig.h"
#include "ref/ref_pdu.h"
#include "ref/ref_pki.h"
#include <ksi/policy.h>
#include <ksi/publicationsfile.h>
#include <stdarg.h>
#include <unistd.h>
#include <sys/wait.h>
#include <errno.h>

KSI_IMPORT_TLV_TEMPLATE(KSI_Signature);
KSI_IMPORT_TLV_TEMPLATE(KSI_PublicationsFile);

static KSI_CTX *ctx;

/* ------------------------------------------------------------------ arena + TLV tree */
#define ARENA_SIZE (24u << 20)
static unsigned char *arena;
static size_t arena_used;
static void *aalloc(size_t n) {
	void *p;
	n = (n + 15u) & ~(size_t)15u;
	if (!arena) arena = (unsigned char *)malloc(ARENA_SIZE);
	if (arena_used + n > ARENA_SIZE) vf_harness_error("arena exhausted");
	p = arena + arena_used;
	arena_used += n;
	memset(p, 0, n);
	return p;
}
static void arena_reset(void) { arena_used = 0; }

typedef struct node node;
struct node {
	unsigned tag;
	int nc, fw;
	int cont;                 /* container id whose table describes the children; -1 = leaf */
	int pseudo;               /* publications file: the "root" is the magic followed by the records */
	const rsch_elem *el;      /* table entry of this element in its parent container; NULL = unknown there / top level */
	unsigned char *val; size_t len;
	node **kid; int nk, cap;
	node *parent;
};
#define UNK_TAG 0x1du        /* not in the alphabet of any container */

static node *nd_new(void) { node *n = (node *)aalloc(sizeof(node)); n->cont = -1; return n; }
static void kid_insert(node *p, int idx, node *c) {
	int i;
	if (p->nk == p->cap) {
		int ncap = p->cap ? p->cap * 2 : 8;
		node **nk = (node **)aalloc(sizeof(node *) * (size_t)ncap);
		if (p->nk) memcpy(nk, p->kid, sizeof(node *) * (size_t)p->nk);
		p->kid = nk; p->cap = ncap;
	}
	for (i = p->nk; i > idx; i--) p->kid[i] = p->kid[i - 1];
	p->kid[idx] = c;
	p->nk++;
	c->parent = p;
}
static void kid_remove(node *p, int idx) {
	int i;
	for (i = idx; i + 1 < p->nk; i++) p->kid[i] = p->kid[i + 1];
	p->nk--;
}
static int kid_index(const node *n) {
	int i;
	for (i = 0; i < n->parent->nk; i++) if (n->parent->kid[i] == n) return i;
	vf_harness_error("kid_index");
	return -1;
}
static node *nd_clone(const node *s) {
	node *n = nd_new();
	int i;
	*n = *s;
	n->kid = NULL; n->nk = 0; n->cap = 0; n->parent = NULL;
	if (s->len) { n->val = (unsigned char *)aalloc(s->len); memcpy(n->val, s->val, s->len); }
	for (i = 0; i < s->nk; i++) kid_insert(n, i, nd_clone(s->kid[i]));
	return n;
}
static void set_val(node *n, const void *d, size_t len) {
	n->val = (unsigned char *)aalloc(len ? len : 1);
	if (len) memcpy(n->val, d, len);
	n->len = len;
}

static node *read_elem(const rtlv *t, int parent_cont, int cont_override) {
	node *n = nd_new();
	int cont = -1;
	n->tag = t->tag; n->nc = t->nc; n->fw = t->fw;
	n->el = parent_cont >= 0 ? rsch_lookup(parent_cont, t->tag) : NULL;
	if (cont_override >= 0) cont = cont_override;
	else if (n->el && n->el->vtype == RV_CONTAINER) cont = n->el->sub;
	if (cont >= 0 && rtlv_count(t->val, t->len) >= 0) {
		size_t off = 0;
		n->cont = cont;
		while (off < t->len) {
			rtlv c;
			rtlv_read(t->val + off, t->len - off, &c);
			kid_insert(n, n->nk, read_elem(&c, cont, -1));
			off += c.hdr + c.len;
		}
	} else set_val(n, t->val, t->len);
	return n;
}
/* tolerant: whatever does not tile stays a leaf. NULL when the top level cannot be read at all */
static node *tree_read(int root, const unsigned char *p, size_t n) {
	rtlv t;
	if (root == RR_PUBFILE) {
		node *r = nd_new();
		size_t off = 8;
		r->pseudo = 1; r->cont = RC_PUBFILE;
		if (n < 8 || rtlv_count(p + 8, n - 8) < 0) return NULL;
		while (off < n) {
			rtlv_read(p + off, n - off, &t);
			kid_insert(r, r->nk, read_elem(&t, RC_PUBFILE, -1));
			off += t.hdr + t.len;
		}
		return r;
	}
	if (rtlv_read(p, n, &t) != 0 || t.hdr + t.len != n) return NULL;
	{
		int c = rsch_root_container(root, t.tag);
		return read_elem(&t, -1, c >= 0 ? c : -2);
	}
}
/* canonical encoding (shortest header form); -1 when some payload exceeds 0xffff */
static int tree_write(const node *n, vbuf *out) {
	int i, rc = 0;
	if (n->pseudo) {
		vb_put(out, RSCH_PUBFILE_MAGIC, 8);
		for (i = 0; i < n->nk; i++) if (tree_write(n->kid[i], out) != 0) return -1;
		return 0;
	}
	if (n->cont >= 0) {
		vbuf b;
		vb_init(&b);
		for (i = 0; i < n->nk && rc == 0; i++) rc = tree_write(n->kid[i], &b);
		if (rc == 0) rc = rtlv_put(out, n->tag, n->nc, n->fw, b.p, b.n, 0);
		vb_free(&b);
		return rc;
	}
	return rtlv_put(out, n->tag, n->nc, n->fw, n->val, n->len, 0);
}
#define MAXPOS 600
static int dfs(node *n, node **out, int k) {
	int i;
	if (k >= MAXPOS) vf_harness_error("too many positions");
	out[k++] = n;
	for (i = 0; i < n->nk; i++) k = dfs(n->kid[i], out, k);
	return k;
}
static int in_hashed(const node *n) {
	for (; n; n = n->parent) if (n->cont >= 0 && (rsch_container(n->cont)->cflags & RC_HASHED)) return 1;
	return 0;
}

/* ------------------------------------------------------------------ operators */
enum {
	OP_DEL, OP_DUP, OP_DUPN, OP_SWAP, OP_FIRST, OP_LAST, OP_RETAG, OP_FLAGS, OP_SHRINK, OP_GROW,
	OP_INS_C, OP_INS_CF, OP_INS_N, OP_INS_NF, OP_AFT_N, OP_VAL, OP_ADD, OP_INS_FOREIGN
};
/* library of valid sample elements harvested from the base objects: one per (container, table entry) */
#define MAXEL 16
static vbuf SAMPLE[RC_N][MAXEL];
static int sample_index(int cont, unsigned tag) {
	const rsch_elem *e = rsch_lookup(cont, tag);
	return e ? (int)(e - rsch_container(cont)->e) : -1;
}
typedef struct { int code; unsigned arg; char name[28]; int bad; /* OP_VAL: the value is meant to be invalid */ } opdesc;

/* value operators: (type, name, builder id) */
enum {
	VI_LEADZERO, VI_NINE, VI_EMPTY, VI_ZERO, VI_MAX8, VI_ONE,
	VS_NONUL, VS_EMBNUL, VS_LONE80, VS_LEADC2, VS_E2_82, VS_F0_9F_98, VS_FF, VS_FE, VS_C2_41, VS_E2_41_82, VS_BF_FIRST,
	VS_OK2, VS_OK3, VS_OK4, VS_OVERLONG, VS_F5, VS_ZEROLEN, VS_EMPTYSTR, VS_ASCII,
	VH_ALG3, VH_ALG6, VH_ALG0C, VH_ALG7E, VH_ALGFF, VH_SHORT, VH_LONG, VH_EMPTY, VH_ALGONLY, VH_SHA1, VH_SHA512, VH_SM3,
	VL_28, VL_30, VL_B0, VL_B1, VL_LEN26, VL_LENFF, VL_PAD, VL_PADMID, VL_LEN25, VL_LEN0, VL_EMPTY,
	VO_EMPTY, VO_ONE
};
static const struct { int vtype; int id; const char *name; int bad; } VALOPS[] = {
	{RV_INT, VI_LEADZERO, "int-leading-zero", 1}, {RV_INT, VI_NINE, "int-9-bytes", 1}, {RV_INT, VI_EMPTY, "int-empty", 0}, {RV_INT, VI_ZERO, "int-00", 1},
	{RV_INT, VI_MAX8, "int-8-bytes", 0}, {RV_INT, VI_ONE, "int-01", 0},
	{RV_STR, VS_NONUL, "str-no-nul", 1}, {RV_STR, VS_EMBNUL, "str-embedded-nul", 1}, {RV_STR, VS_LONE80, "str-lone-80", 1}, {RV_STR, VS_LEADC2, "str-c2-alone", 1},
	{RV_STR, VS_E2_82, "str-e2-82-cut", 1}, {RV_STR, VS_F0_9F_98, "str-f0-9f-98-cut", 1}, {RV_STR, VS_FF, "str-ff", 1}, {RV_STR, VS_FE, "str-fe", 1},
	{RV_STR, VS_C2_41, "str-c2-41", 1}, {RV_STR, VS_E2_41_82, "str-e2-41-82", 1}, {RV_STR, VS_BF_FIRST, "str-bf-first", 1},
	{RV_STR, VS_OK2, "str-2byte", 0}, {RV_STR, VS_OK3, "str-3byte", 0}, {RV_STR, VS_OK4, "str-4byte", 0}, {RV_STR, VS_OVERLONG, "str-overlong", 0}, {RV_STR, VS_F5, "str-f5-lead", 0},
	{RV_STR, VS_ZEROLEN, "str-zero-length", 1}, {RV_STR, VS_EMPTYSTR, "str-empty", 0}, {RV_STR, VS_ASCII, "str-ascii", 0},
	{RV_IMPRINT, VH_ALG3, "imp-alg-03", 1}, {RV_IMPRINT, VH_ALG6, "imp-alg-06", 1}, {RV_IMPRINT, VH_ALG0C, "imp-alg-0c", 1}, {RV_IMPRINT, VH_ALG7E, "imp-alg-7e", 1},
	{RV_IMPRINT, VH_ALGFF, "imp-alg-ff", 1}, {RV_IMPRINT, VH_SHORT, "imp-len-1", 1}, {RV_IMPRINT, VH_LONG, "imp-len+1", 1}, {RV_IMPRINT, VH_EMPTY, "imp-empty", 1},
	{RV_IMPRINT, VH_ALGONLY, "imp-alg-only", 1}, {RV_IMPRINT, VH_SHA1, "imp-sha1", 0}, {RV_IMPRINT, VH_SHA512, "imp-sha512", 0}, {RV_IMPRINT, VH_SM3, "imp-sm3", 0},
	{RV_LEGACY, VL_28, "leg-28", 1}, {RV_LEGACY, VL_30, "leg-30", 1}, {RV_LEGACY, VL_B0, "leg-byte0", 1}, {RV_LEGACY, VL_B1, "leg-byte1", 1}, {RV_LEGACY, VL_LEN26, "leg-strlen-26", 1},
	{RV_LEGACY, VL_LENFF, "leg-strlen-ff", 1}, {RV_LEGACY, VL_PAD, "leg-pad-last", 1}, {RV_LEGACY, VL_PADMID, "leg-pad-first", 1}, {RV_LEGACY, VL_LEN25, "leg-strlen-25", 0},
	{RV_LEGACY, VL_LEN0, "leg-strlen-0", 0}, {RV_LEGACY, VL_EMPTY, "leg-empty", 1},
	{RV_OCTETS, VO_EMPTY, "oct-empty", 0}, {RV_OCTETS, VO_ONE, "oct-1", 0},
};
#define NVALOPS ((int)(sizeof VALOPS / sizeof VALOPS[0]))

static void val_apply(node *n, int id) {
	unsigned char b[80];
	size_t l = 0, i;
	memset(b, 0, sizeof b);
#define S(str) do { l = sizeof(str); memcpy(b, str, l); } while (0)   /* includes the terminating NUL */
	switch (id) {
		case VI_LEADZERO: b[0] = 0; if (n->len && n->len < 60) memcpy(b + 1, n->val, n->len); else b[1] = 5; l = (n->len && n->len < 60 ? n->len : 1) + 1; break;
		case VI_NINE: b[0] = 1; l = 9; break;
		case VI_EMPTY: l = 0; break;
		case VI_ZERO: b[0] = 0; l = 1; break;
		case VI_MAX8: memset(b, 0xff, 8); l = 8; break;
		case VI_ONE: b[0] = 1; l = 1; break;
		case VS_NONUL: memcpy(b, "abc", 3); l = 3; break;
		case VS_EMBNUL: memcpy(b, "a\0b\0", 4); l = 4; break;
		case VS_LONE80: S("a\x80" "b"); break;
		case VS_LEADC2: S("a\xc2"); break;
		case VS_E2_82: S("a\xe2\x82"); break;
		case VS_F0_9F_98: S("\xf0\x9f\x98"); break;
		case VS_FF: S("a\xff" "b"); break;
		case VS_FE: S("\xfe\x80\x80\x80\x80\x80\x80"); break;
		case VS_C2_41: S("\xc2" "A"); break;
		case VS_E2_41_82: S("\xe2" "A\x82"); break;
		case VS_BF_FIRST: S("\xbf" "a"); break;
		case VS_OK2: S("\xc3\xa4" "b"); break;
		case VS_OK3: S("x\xe2\x82\xac"); break;
		case VS_OK4: S("\xf0\x9f\x98\x80"); break;
		case VS_OVERLONG: S("\xc0\x80"); break;
		case VS_F5: S("\xf5\x80\x80\x80"); break;
		case VS_ZEROLEN: l = 0; break;
		case VS_EMPTYSTR: b[0] = 0; l = 1; break;
		case VS_ASCII: S("other"); break;
		case VH_ALG3: case VH_ALG6: case VH_ALG0C: case VH_ALG7E: case VH_ALGFF:
			l = n->len && n->len < 70 ? n->len : 33;
			if (n->len && n->len < 70) memcpy(b, n->val, n->len);
			b[0] = id == VH_ALG3 ? 3 : id == VH_ALG6 ? 6 : id == VH_ALG0C ? 0x0c : id == VH_ALG7E ? 0x7e : 0xff;
			break;
		case VH_SHORT: l = ref_fake_imprint(RH_SHA256, 5, b) - 1; break;
		case VH_LONG: l = ref_fake_imprint(RH_SHA256, 5, b) + 1; break;
		case VH_EMPTY: l = 0; break;
		case VH_ALGONLY: b[0] = RH_SHA256; l = 1; break;
		case VH_SHA1: l = ref_fake_imprint(RH_SHA1, 6, b); break;
		case VH_SHA512: l = ref_fake_imprint(RH_SHA512, 7, b); break;
		case VH_SM3: l = ref_fake_imprint(RH_SM3, 8, b); break;
		case VL_28: case VL_30: case VL_B0: case VL_B1: case VL_LEN26: case VL_LENFF: case VL_PAD: case VL_PADMID: case VL_LEN25: case VL_LEN0:
			b[0] = 3; b[1] = 0; b[2] = 4; memcpy(b + 3, "Test", 4); l = 29;
			if (id == VL_28) l = 28;
			if (id == VL_30) l = 30;
			if (id == VL_B0) b[0] = 2;
			if (id == VL_B1) b[1] = 1;
			if (id == VL_LEN26) { b[2] = 26; for (i = 0; i < 26; i++) b[3 + i] = 'x'; }
			if (id == VL_LENFF) b[2] = 0xff;
			if (id == VL_PAD) b[28] = 1;
			if (id == VL_PADMID) b[7] = 'x';
			if (id == VL_LEN25) { b[2] = 25; for (i = 0; i < 25; i++) b[3 + i] = 'y'; }
			if (id == VL_LEN0) { b[2] = 0; memset(b + 3, 0, 4); }
			break;
		case VL_EMPTY: l = 0; break;
		case VO_EMPTY: l = 0; break;
		case VO_ONE: b[0] = 0x5a; l = 1; break;
	}
#undef S
	set_val(n, b, l);
}

static node *mk_unknown(int nc, int fw) {
	node *u = nd_new();
	u->tag = UNK_TAG; u->nc = nc; u->fw = fw;
	set_val(u, "\x01\x02", 2);
	return u;
}
static void to_leaf(node *n) {   /* a container becomes a raw payload so that one byte can be cut / added */
	vbuf b;
	int i;
	if (n->cont < 0) return;
	vb_init(&b);
	for (i = 0; i < n->nk; i++) if (tree_write(n->kid[i], &b) != 0) vf_harness_error("to_leaf");
	set_val(n, b.p, b.n);
	vb_free(&b);
	n->cont = -1; n->nk = 0;
}

/* operators applicable to node n. `reduced` selects the subset used for operator pairs */
#define MAXOPS 192
static int ops_for(const node *n, int root, opdesc *o, int reduced) {
	int k = 0, i;
	unsigned tags[20];
	int nt;
#define ADD(c, a, b_, ...) do { o[k].code = (c); o[k].arg = (a); o[k].bad = (b_); snprintf(o[k].name, sizeof o[k].name, __VA_ARGS__); k++; } while (0)
	if (n->pseudo) return 0;
	if (n->parent == NULL) {
		if (reduced) return 0;
		nt = rsch_root_tags(root, tags, 20);
		for (i = 0; i < nt; i++) if (tags[i] != n->tag) ADD(OP_RETAG, tags[i], 0, "rt%x", tags[i]);
		ADD(OP_RETAG, 0x0899, 0, "rt899");
		for (i = 0; i < 4; i++) if (i != (n->nc | (n->fw << 1))) ADD(OP_FLAGS, (unsigned)i, 0, "fl%d", i);
		return k;
	}
	{
		int idx = kid_index(n), last = n->parent->nk - 1;
		ADD(OP_DEL, 0, 0, "del");
		ADD(OP_DUP, 0, 0, "dup");
		ADD(OP_DUPN, 0, 0, "dupN");
		if (idx < last) ADD(OP_SWAP, 0, 0, "swap");
		if (idx > 0) ADD(OP_FIRST, 0, 0, "first");
		if (idx < last) ADD(OP_LAST, 0, 0, "last");
		nt = rsch_alphabet(n->parent->cont, tags, 20);
		if (reduced) {
			/* the next tag of the alphabet (cyclically) and the unknown tag */
			for (i = 0; i < nt; i++) if (tags[i] == n->tag) break;
			if (nt > 1) { unsigned t = tags[(i + 1) % nt]; if (t != n->tag) ADD(OP_RETAG, t, 0, "rt%x", t); }
		} else {
			for (i = 0; i < nt; i++) if (tags[i] != n->tag) ADD(OP_RETAG, tags[i], 0, "rt%x", tags[i]);
		}
		ADD(OP_RETAG, UNK_TAG, 0, "rt%x", UNK_TAG);
		for (i = 0; i < 4; i++) {
			if (i == (n->nc | (n->fw << 1))) continue;
			if (reduced && i != 1) continue;
			ADD(OP_FLAGS, (unsigned)i, 0, "fl%d", i);
		}
		if (!reduced) {
			if (n->cont >= 0 ? n->nk > 0 : n->len > 0) ADD(OP_SHRINK, 0, 0, "shrink");
			ADD(OP_GROW, 0, 0, "grow");
		}
		ADD(OP_INS_C, 0, 0, "insC");
		ADD(OP_INS_CF, 0, 0, "insCF");
		ADD(OP_INS_N, 0, 0, "insN");
		if (!reduced) ADD(OP_INS_NF, 0, 0, "insNF");
		if (!reduced || idx == last) ADD(OP_AFT_N, 0, 0, "aftN");
		/* tags that other containers of the schema define but this one does not (e.g. elements of the other PDU version): here they
		 * are unknown elements; inserted as critical ones before the first child only */
		if (!reduced && idx == 0) {
			unsigned t;
			for (t = 0x01; t <= 0x1f; t++) {
				int known = 0;
				for (i = 0; i < nt; i++) if (tags[i] == t) known = 1;
				if (!known && t != UNK_TAG) { ADD(OP_INS_FOREIGN, t, 0, "insX%x", t); ADD(OP_INS_FOREIGN, t, 1, "insXe%x", t); ADD(OP_INS_FOREIGN, t, 2, "insXi%x", t); }
			}
		}
		/* schema-aware construction: add a valid sample of every element of the container's alphabet after this one */
		if (!reduced) for (i = 0; i < nt; i++) {
			int si = sample_index(n->parent->cont, tags[i]);
			if (si >= 0 && SAMPLE[n->parent->cont][si].n) ADD(OP_ADD, tags[i], 0, "add%x", tags[i]);
		}
		if (n->el && n->cont < 0 && n->el->vtype != RV_CONTAINER) {
			int vt = n->el->vtype == RV_STRNZ ? RV_STR : n->el->vtype, first_bad = 1;
			for (i = 0; i < NVALOPS; i++) {
				if (VALOPS[i].vtype != vt) continue;
				if (reduced) { if (!VALOPS[i].bad || !first_bad) continue; first_bad = 0; }
				ADD(OP_VAL, (unsigned)VALOPS[i].id, VALOPS[i].bad, "v:%s", VALOPS[i].name);
			}
		}
	}
#undef ADD
	if (k > MAXOPS) vf_harness_error("MAXOPS");
	return k;
}

/* applies the operator in place; returns 0, or -1 when it does not apply */
static int op_apply(node *n, const opdesc *op) {
	node *p = n->parent, *c;
	int idx = p ? kid_index(n) : 0;
	switch (op->code) {
		case OP_DEL: kid_remove(p, idx); return 0;
		case OP_DUP: kid_insert(p, idx + 1, nd_clone(n)); return 0;
		case OP_DUPN: c = nd_clone(n); c->nc = 1; kid_insert(p, idx + 1, c); return 0;
		case OP_SWAP: if (idx + 1 >= p->nk) return -1; p->kid[idx] = p->kid[idx + 1]; p->kid[idx + 1] = n; return 0;
		case OP_FIRST: if (idx == 0) return -1; kid_remove(p, idx); kid_insert(p, 0, n); return 0;
		case OP_LAST: if (idx == p->nk - 1) return -1; kid_remove(p, idx); kid_insert(p, p->nk, n); return 0;
		case OP_RETAG: if (n->tag == op->arg) return -1; n->tag = op->arg; return 0;
		case OP_FLAGS: if ((unsigned)(n->nc | (n->fw << 1)) == op->arg) return -1; n->nc = op->arg & 1; n->fw = (op->arg >> 1) & 1; return 0;
		case OP_SHRINK: to_leaf(n); if (n->len == 0) return -1; n->len--; return 0;
		case OP_GROW: {
			unsigned char *v;
			to_leaf(n);
			v = (unsigned char *)aalloc(n->len + 1);
			if (n->len) memcpy(v, n->val, n->len);
			v[n->len] = 0;
			n->val = v; n->len++;
			return 0;
		}
		case OP_INS_C: kid_insert(p, idx, mk_unknown(0, 0)); return 0;
		case OP_INS_CF: kid_insert(p, idx, mk_unknown(0, 1)); return 0;
		case OP_INS_FOREIGN: {   /* payload: two raw bytes / empty / one small integer child (what the tag may hold where it IS defined) */
			node *u = mk_unknown(0, 0);
			u->tag = op->arg;
			if (op->bad == 1) set_val(u, "", 0);
			if (op->bad == 2) set_val(u, "\x01\x01\x05", 3);
			kid_insert(p, idx, u);
			return 0;
		}
		case OP_INS_N: kid_insert(p, idx, mk_unknown(1, 0)); return 0;
		case OP_INS_NF: kid_insert(p, idx, mk_unknown(1, 1)); return 0;
		case OP_AFT_N: kid_insert(p, idx + 1, mk_unknown(1, 0)); return 0;
		case OP_VAL: if (n->cont >= 0) return -1; val_apply(n, (int)op->arg); return 0;
		case OP_ADD: {
			int si = sample_index(p->cont, op->arg);
			rtlv t;
			if (si < 0 || SAMPLE[p->cont][si].n == 0 || rtlv_read(SAMPLE[p->cont][si].p, SAMPLE[p->cont][si].n, &t) != 0) return -1;
			kid_insert(p, idx + 1, read_elem(&t, p->cont, -1));
			return 0;
		}
	}
	return -1;
}
static int op_is_nc_insert(const opdesc *op) { return op->code == OP_INS_N || op->code == OP_INS_NF || op->code == OP_AFT_N; }

/* ------------------------------------------------------------------ the typed parsers */
typedef struct { int root; void *obj; } parsed;
static void set_versions(int root) {
	/* each service has its own PDU version option; the other service's option is set to the OTHER version, which must not matter */
	if (root == RR_AGGR_V1 || root == RR_AGGR_V2) {
		KSI_CTX_setOption(ctx, KSI_OPT_AGGR_PDU_VER, (void *)(size_t)(root == RR_AGGR_V1 ? KSI_PDU_VERSION_1 : KSI_PDU_VERSION_2));
		KSI_CTX_setOption(ctx, KSI_OPT_EXT_PDU_VER, (void *)(size_t)(root == RR_AGGR_V1 ? KSI_PDU_VERSION_2 : KSI_PDU_VERSION_1));
	}
	if (root == RR_EXT_V1 || root == RR_EXT_V2) {
		KSI_CTX_setOption(ctx, KSI_OPT_EXT_PDU_VER, (void *)(size_t)(root == RR_EXT_V1 ? KSI_PDU_VERSION_1 : KSI_PDU_VERSION_2));
		KSI_CTX_setOption(ctx, KSI_OPT_AGGR_PDU_VER, (void *)(size_t)(root == RR_EXT_V1 ? KSI_PDU_VERSION_2 : KSI_PDU_VERSION_1));
	}
}
static int impl_parse(int root, const unsigned char *p, size_t n, parsed *out) {
	unsigned char *ex = ku_exact(p, n);
	int res = KSI_UNKNOWN_ERROR;
	out->root = root; out->obj = NULL;
	set_versions(root);
	switch (root) {
		case RR_SIG: { KSI_Signature *s = NULL; res = KSI_Signature_parseWithPolicy(ctx, ex, n, KSI_VERIFICATION_POLICY_EMPTY, NULL, &s); out->obj = s; break; }
		case RR_AGGR_V1: case RR_AGGR_V2: { KSI_AggregationPdu *a = NULL; res = KSI_AggregationPdu_parse(ctx, ex, n, &a); out->obj = a; break; }
		case RR_EXT_V1: case RR_EXT_V2: { KSI_ExtendPdu *e = NULL; res = KSI_ExtendPdu_parse(ctx, ex, n, &e); out->obj = e; break; }
		case RR_PUBFILE: { KSI_PublicationsFile *f = NULL; res = KSI_PublicationsFile_parse(ctx, ex, n, &f); out->obj = f; break; }
	}
	vf_count("impl_calls", 1);
	free(ex);
	if (res == KSI_OK && out->obj == NULL) { vf_fail("ok-without-object", "%s parser returned KSI_OK and no object", rsch_root_name(root)); res = KSI_UNKNOWN_ERROR; }
	return res;
}
static void parsed_free(parsed *o) {
	switch (o->root) {
		case RR_SIG: KSI_Signature_free((KSI_Signature *)o->obj); break;
		case RR_AGGR_V1: case RR_AGGR_V2: KSI_AggregationPdu_free((KSI_AggregationPdu *)o->obj); break;
		case RR_EXT_V1: case RR_EXT_V2: KSI_ExtendPdu_free((KSI_ExtendPdu *)o->obj); break;
		case RR_PUBFILE: KSI_PublicationsFile_free((KSI_PublicationsFile *)o->obj); break;
	}
	o->obj = NULL;
}
/* the same parse in a forked child: 1 accepted, 0 refused, -1 the child ended abnormally (`crash` = "<kind>:<function>").
 * Used by the pair tier for inputs in which a known element that needs content is empty and ends the exactly sized
 * input (where reading the first content byte leaves the buffer), so that a crash there (reported as a violation)
 * does not use up the runner's limit of 40 restarts per shard. Forking the sanitized process is expensive, hence
 * the narrow condition; every other input is parsed in-process under the runner's crash containment. */
static int contained_parse(int root, const unsigned char *p, size_t n, char *crash, size_t cn) {
	int fd[2], st = 0;
	pid_t pid;
	char buf[8192];
	size_t used = 0;
	ssize_t r;
	snprintf(crash, cn, "?:?");
	if (pipe(fd) != 0) vf_harness_error("pipe");
	fflush(stdout);
	pid = fork();
	if (pid < 0) vf_harness_error("fork");
	if (pid == 0) {
		parsed o;
		int res;
		close(fd[0]);
		dup2(fd[1], 2);
		close(fd[1]);
		res = impl_parse(root, p, n, &o);
		_exit(res == KSI_OK ? 11 : 10);
	}
	close(fd[1]);
	while ((r = read(fd[0], buf + used, sizeof buf - 1 - used)) != 0) {
		if (r < 0) { if (errno == EINTR) continue; break; }
		used += (size_t)r;
		if (used >= sizeof buf - 1) { char sink[1024]; while (read(fd[0], sink, sizeof sink) > 0) {} break; }
	}
	close(fd[0]);
	buf[used] = 0;
	while (waitpid(pid, &st, 0) < 0 && errno == EINTR) {}
	if (WIFEXITED(st) && WEXITSTATUS(st) == 11) return 1;
	if (WIFEXITED(st) && WEXITSTATUS(st) == 10) return 0;
	{
		char kind[64] = "abort", fn[96] = "?", *q, *e, *line;
		if ((q = strstr(buf, "ERROR: AddressSanitizer: "))) { q += 25; e = strpbrk(q, " \n"); snprintf(kind, sizeof kind, "%.*s", e ? (int)(e - q) : 40, q); }
		else if (strstr(buf, "runtime error: ")) snprintf(kind, sizeof kind, "ubsan");
		for (line = buf; line && *line; line = strchr(line, '\n') ? strchr(line, '\n') + 1 : NULL) {
			char *eol = strchr(line, '\n'), *in;
			size_t ll = eol ? (size_t)(eol - line) : strlen(line);
			char tmp[600];
			snprintf(tmp, sizeof tmp, "%.*s", (int)(ll > 590 ? 590 : ll), line);
			if (strstr(tmp, "/src/ksi/") && (in = strstr(tmp, " in "))) { in += 4; e = strpbrk(in, " \n"); if (e) *e = 0; snprintf(fn, sizeof fn, "%s", in); break; }
		}
		snprintf(crash, cn, "%s:%s", kind, fn);
	}
	return -1;
}
/* every known field, re-encoded from the typed object through the getters of the templates */
static int field_dump(parsed *o, vbuf *out) {
	unsigned char *raw = NULL;
	size_t len = 0;
	int res = KSI_UNKNOWN_ERROR;
	set_versions(o->root);
	switch (o->root) {
		case RR_SIG: res = KSI_TlvTemplate_serializeObject(ctx, o->obj, 0x0800, 0, 0, KSI_TLV_TEMPLATE(KSI_Signature), &raw, &len); break;
		case RR_AGGR_V1: case RR_AGGR_V2: res = KSI_AggregationPdu_serialize((KSI_AggregationPdu *)o->obj, &raw, &len); break;
		case RR_EXT_V1: case RR_EXT_V2: res = KSI_ExtendPdu_serialize((KSI_ExtendPdu *)o->obj, &raw, &len); break;
		case RR_PUBFILE: res = KSI_TlvTemplate_serializeObject(ctx, o->obj, 0x0700, 0, 0, KSI_TLV_TEMPLATE(KSI_PublicationsFile), &raw, &len); break;
	}
	vf_count("impl_calls", 1);
	if (res == KSI_OK && raw) vb_put(out, raw, len);
	KSI_free(raw);
	return res;
}
/* 1 = internal verification reports OK, 0 = anything else */
static int internal_ok(KSI_Signature *sig, int *rc_out, int *code_out) {
	KSI_VerificationContext vc;
	KSI_PolicyVerificationResult *result = NULL;
	int rc, ok;
	KSI_VerificationContext_init(&vc, ctx);
	vc.signature = sig;
	rc = KSI_SignatureVerifier_verify(KSI_VERIFICATION_POLICY_INTERNAL, &vc, &result);
	vf_count("impl_calls", 1);
	ok = (rc == KSI_OK && result != NULL && result->finalResult.resultCode == KSI_VER_RES_OK);
	if (rc_out) *rc_out = rc;
	if (code_out) *code_out = result ? (int)result->finalResult.errorCode : -1;
	KSI_PolicyVerificationResult_free(result);
	KSI_VerificationContext_clean(&vc);
	return ok;
}

/* ------------------------------------------------------------------ base objects */
typedef struct {
	char name[20];
	int root;
	int quick;            /* member of the quick tier's base set */
	int pairs;            /* member of the thorough tier's operator-pair set */
	vbuf bytes;
	/* lazily computed from the unmutated base */
	int have_ref; vbuf dump; int dump_res; int int_ok;
} base_t;
#define MAXBASE 40
static base_t BASE[MAXBASE];
static int nbase;

#define T_SIGN 1710000000ULL
#define T_PUB  (T_SIGN + 86400 * 11 + 17)

static base_t *add_base(const char *name, int root, int quick, int pairs) {
	base_t *b;
	if (nbase >= MAXBASE) vf_harness_error("MAXBASE");
	b = &BASE[nbase++];
	memset(b, 0, sizeof *b);
	snprintf(b->name, sizeof b->name, "%s", name);
	b->root = root; b->quick = quick; b->pairs = pairs;
	vb_init(&b->bytes); vb_init(&b->dump);
	return b;
}
static unsigned mkdesc(int dir, int kind, int corr) { return (unsigned)(dir | (kind << 1) | (corr << 3)); }

static void sig_model(int k, rsig *s) {
	rs_params p;
	rs_default_params(&p);
	p.aggr_time = T_SIGN; p.pub_time = T_PUB;
	{ int i; for (i = 0; i < RS_MAXCH; i++) p.chain_alg[i] = RH_SHA256; }
	switch (k) {
		case 0: p.nchains = 1; p.tail = 0; p.nlinks[0] = 1; p.link_desc[0][0] = mkdesc(1, 0, 0); break;
		case 1: p.nchains = 2; p.tail = 1; p.nlinks[0] = 2; p.link_desc[0][0] = mkdesc(0, 1, 2); p.link_desc[0][1] = mkdesc(1, 0, 0);
			p.nlinks[1] = 1; p.link_desc[1][0] = mkdesc(0, 0, 0); break;
		case 2: p.nchains = 3; p.tail = 2; p.nlinks[0] = 2; p.link_desc[0][0] = mkdesc(1, 2, 1); p.link_desc[0][1] = mkdesc(0, 0, 0);
			p.nlinks[1] = 1; p.link_desc[1][0] = mkdesc(1, 0, 0);
			p.nlinks[2] = 2; p.link_desc[2][0] = mkdesc(0, 1, 0); p.link_desc[2][1] = mkdesc(1, 0, 3); break;
		case 3: p.nchains = 2; p.tail = 3; p.with_rfc3161 = 1; p.nlinks[0] = 1; p.link_desc[0][0] = mkdesc(1, 0, 0);
			p.nlinks[1] = 2; p.link_desc[1][0] = mkdesc(0, 0, 0); p.link_desc[1][1] = mkdesc(1, 2, 0); break;
		case 4: p.nchains = 1; p.tail = 2; p.with_rfc3161 = 1; p.nlinks[0] = 2; p.link_desc[0][0] = mkdesc(1, 3, 0); p.link_desc[0][1] = mkdesc(0, 0, 1); break;
		case 5: p.nchains = 2; p.tail = 3; p.nlinks[0] = 2; p.link_desc[0][0] = mkdesc(0, 1, 0); p.link_desc[0][1] = mkdesc(1, 2, 0);
			p.nlinks[1] = 2; p.chain_alg[1] = RH_SHA512; p.link_desc[1][0] = mkdesc(1, 0, 0); p.link_desc[1][1] = mkdesc(0, 0, 0); break;
		case 6: p.nchains = 2; p.tail = 2; p.nlinks[0] = 2; p.link_desc[0][0] = mkdesc(1, 2, 0); p.link_desc[0][1] = mkdesc(1, 1, 0);
			p.nlinks[1] = 1; p.link_desc[1][0] = mkdesc(0, 0, 0); break;
		default: p.nchains = 1; p.tail = 1; p.doc_alg = RH_SHA512; p.sib_alg = RH_SHA1; p.aggr_time = 1400000000ULL; p.pub_time = 1400000000ULL + 86400 * 3;
			p.nlinks[0] = 2; p.link_desc[0][0] = mkdesc(1, 0, 0); p.link_desc[0][1] = mkdesc(0, 0, 2); break;
	}
	rs_build(s, &p);
	if (k == 6) s->pub_nrefs = 2;
}

static void env_init(rp_env *e, int version, int kind, int ids) {
	memset(e, 0, sizeof *e);
	e->version = version; e->kind = kind; e->login = "anon"; e->mac_alg = RH_SHA256; e->key = "anon"; e->keylen = 4;
	e->with_ids = ids; e->instance_id = 7; e->message_id = 300;
}
static void put_cont(vbuf *out, unsigned tag, const vbuf *body) { rtlv_put(out, tag, 0, 0, body->p, body->n, 0); }

static rk_cert signer, cert_a;
static void build_bases(void) {
	static int done;
	int k;
	unsigned char h[RH_MAX_IMPRINT];
	size_t hl = ref_fake_imprint(RH_SHA256, 77, h);
	if (done) return;
	done = 1;
	/* ---- signatures */
	for (k = 0; k < 8; k++) {
		static rsig s;
		char nm[16];
		base_t *b;
		snprintf(nm, sizeof nm, "sig%d", k);
		b = add_base(nm, RR_SIG, k == 2 || k == 3, k == 0 || k == 2 || k == 3 || k == 4);
		sig_model(k, &s);
		if (k == 6) { s.ch[0].has_input_data = 1; memcpy(s.ch[0].input_data, "input data", 10); s.ch[0].input_data_len = 10; }
		rs_serialize(&s, &b->bytes);
		if (k == 6) {
			/* add what the builder never emits: an aggregation authentication record and a repository uri, by editing the tree */
			node *t, *n;
			vbuf a, sd, rec;
			rtlv e;
			int i;
			arena_reset();
			t = tree_read(RR_SIG, b->bytes.p, b->bytes.n);
			vb_init(&a); vb_init(&sd); vb_init(&rec);
			rtlv_put_u64(&a, 0x02, T_SIGN); rtlv_put_u64(&a, 0x03, 5); rtlv_put_u64(&a, 0x03, 3);
			rtlv_put(&a, 0x05, 0, 0, h, hl, 0);
			rtlv_put_str(&sd, 0x01, RK_SIGTYPE_SHA256_RSA); rtlv_put(&sd, 0x02, 0, 0, "\x01\x02\x03\x04\x05", 5, 0); rtlv_put(&sd, 0x03, 0, 0, "\xaa\xbb\xcc\xdd", 4, 0);
			rtlv_put_str(&sd, 0x04, "http://verif.test/certs");
			put_cont(&a, 0x0b, &sd);
			put_cont(&rec, 0x0804, &a);
			rtlv_read(rec.p, rec.n, &e);
			for (i = 0; i < t->nk; i++) if (t->kid[i]->tag == 0x0803) break;
			if (i == t->nk) vf_harness_error("sig6: no publication record");
			kid_insert(t, i + 1, read_elem(&e, RC_SIG, -1));
			n = nd_new(); n->tag = 0x0a; n->el = rsch_lookup(RC_PUB_REC, 0x0a); set_val(n, "http://verif.test/pub", 22);
			kid_insert(t->kid[i], t->kid[i]->nk, n);
			vb_reset(&b->bytes);
			if (tree_write(t, &b->bytes) != 0) vf_harness_error("sig6");
			vb_free(&a); vb_free(&sd); vb_free(&rec);
		}
	}
	/* ---- aggregation PDUs */
	{
		static rsig s;
		rp_env e;
		vbuf body, pl, x, y;
		base_t *b;
		vb_init(&body); vb_init(&pl); vb_init(&x); vb_init(&y);
		/* v1 response with a signature body (calendar authentication record) */
		rp_aggregate(&s, h, hl, 0, 3, 3, T_SIGN, T_PUB);
		rp_sig_body(&s, &body);
		rp_aggr_resp_payload(&pl, 1, 17, 1, 0, NULL, body.p, body.n);
		env_init(&e, 1, RP_AGGR, 0);
		b = add_base("aggr1-resp", RR_AGGR_V1, 0, 0); rp_wrap_response(&b->bytes, &e, pl.p, pl.n);
		/* v1 request */
		vb_reset(&x); rtlv_put_u64(&x, 0x01, 17); rtlv_put(&x, 0x02, 0, 0, h, hl, 0); rtlv_put_u64(&x, 0x03, 4);
		vb_reset(&pl); put_cont(&pl, 0x201, &x);
		b = add_base("aggr1-req", RR_AGGR_V1, 1, 1); rp_wrap_request(&b->bytes, &e, pl.p, pl.n);
		/* v1 error */
		vb_reset(&pl); rp_error_payload(&pl, 1, RP_AGGR, 0x101, "bad request");
		env_init(&e, 1, RP_AGGR, 1);
		b = add_base("aggr1-err", RR_AGGR_V1, 0, 0); rp_wrap_response(&b->bytes, &e, pl.p, pl.n);
		/* v1 response carrying configuration and acknowledgment, and a request carrying a configuration request */
		vb_reset(&x); rtlv_put_u64(&x, 0x01, 18); rtlv_put_u64(&x, 0x04, 0); rtlv_put_str(&x, 0x05, "ok");
		vb_reset(&y); rtlv_put_u64(&y, 0x01, 19); rtlv_put_u64(&y, 0x02, 1); rtlv_put_u64(&y, 0x03, 1000); rtlv_put_str(&y, 0x04, "ksi://parent-1"); rtlv_put_str(&y, 0x04, "ksi://parent-2");
		put_cont(&x, 0x10, &y);
		vb_reset(&y); rtlv_put_u64(&y, 0x01, 1000); rtlv_put_u64(&y, 0x02, 40);
		put_cont(&x, 0x11, &y);
		vb_reset(&pl); put_cont(&pl, 0x202, &x);
		b = add_base("aggr1-conf", RR_AGGR_V1, 0, 1); rp_wrap_response(&b->bytes, &e, pl.p, pl.n);
		vb_reset(&x); rtlv_put_u64(&x, 0x01, 20); vb_reset(&y); put_cont(&x, 0x10, &y);
		vb_reset(&pl); put_cont(&pl, 0x201, &x);
		b = add_base("aggr1-confreq", RR_AGGR_V1, 0, 0); rp_wrap_request(&b->bytes, &e, pl.p, pl.n);
		/* v2 response with a signature body (calendar chain only) */
		rp_aggregate(&s, h, hl, 2, 1, 1, T_SIGN, T_PUB);
		vb_reset(&body); rp_sig_body(&s, &body);
		vb_reset(&pl); rp_aggr_resp_payload(&pl, 2, 21, 1, 0, NULL, body.p, body.n);
		env_init(&e, 2, RP_AGGR, 0);
		b = add_base("aggr2-resp", RR_AGGR_V2, 0, 0); rp_wrap_response(&b->bytes, &e, pl.p, pl.n);
		/* v2 response: status and error message only */
		vb_reset(&pl); rp_aggr_resp_payload(&pl, 2, 22, 1, 0x105, "request too large", NULL, 0);
		b = add_base("aggr2-status", RR_AGGR_V2, 0, 1); rp_wrap_response(&b->bytes, &e, pl.p, pl.n);
		/* v2 error */
		vb_reset(&pl); rp_error_payload(&pl, 2, RP_AGGR, 0x101, "bad request");
		b = add_base("aggr2-err", RR_AGGR_V2, 0, 0); rp_wrap_response(&b->bytes, &e, pl.p, pl.n);
		/* v2 configuration response */
		vb_reset(&pl); rp_aggr_conf_payload(&pl, 19, 1, 1000, 200, "ksi://parent-1");
		b = add_base("aggr2-conf", RR_AGGR_V2, 0, 0); rp_wrap_response(&b->bytes, &e, pl.p, pl.n);
		/* v2 response + configuration (two parents) + acknowledgment */
		vb_reset(&pl); rp_aggr_resp_payload(&pl, 2, 23, 1, 0x300, "no data", NULL, 0);
		vb_reset(&x); rtlv_put_u64(&x, 0x01, 19); rtlv_put_u64(&x, 0x02, 1); rtlv_put_u64(&x, 0x03, 1000); rtlv_put_u64(&x, 0x04, 16);
		rtlv_put_str(&x, 0x10, "ksi://parent-1"); rtlv_put_str(&x, 0x10, "ksi://parent-2");
		put_cont(&pl, 0x04, &x);
		vb_reset(&x); for (k = 1; k <= 6; k++) rtlv_put_u64(&x, (unsigned)k, 1700000000000000ULL + (uint64_t)k);
		put_cont(&pl, 0x05, &x);
		env_init(&e, 2, RP_AGGR, 1);
		b = add_base("aggr2-all", RR_AGGR_V2, 1, 1); rp_wrap_response(&b->bytes, &e, pl.p, pl.n);
		/* v2 requests */
		vb_reset(&x); rtlv_put_u64(&x, 0x01, 24); rtlv_put(&x, 0x02, 0, 0, h, hl, 0); rtlv_put_u64(&x, 0x03, 3);
		vb_reset(&pl); put_cont(&pl, 0x02, &x);
		b = add_base("aggr2-req", RR_AGGR_V2, 1, 1); rp_wrap_request(&b->bytes, &e, pl.p, pl.n);
		vb_reset(&x); put_cont(&pl, 0x04, &x);
		rtlv_put_u64(&x, 0x01, 1700000000ULL); put_cont(&pl, 0x05, &x);
		env_init(&e, 2, RP_AGGR, 0);
		b = add_base("aggr2-reqall", RR_AGGR_V2, 0, 0); rp_wrap_request(&b->bytes, &e, pl.p, pl.n);
		vb_free(&body); vb_free(&pl); vb_free(&x); vb_free(&y);
	}
	/* ---- extension PDUs */
	{
		static rsig c;
		rp_env e;
		vbuf cal, pl, x;
		base_t *b;
		vb_init(&cal); vb_init(&pl); vb_init(&x);
		rp_extend(&c, h, hl, T_SIGN, T_PUB);
		rs_serialize_cal(&c, &cal);
		rp_ext_resp_payload(&pl, 1, 9, 1, 0, NULL, 1, T_PUB + 50, cal.p, cal.n);
		env_init(&e, 1, RP_EXT, 0);
		b = add_base("ext1-resp", RR_EXT_V1, 1, 0); rp_wrap_response(&b->bytes, &e, pl.p, pl.n);
		vb_reset(&x); rtlv_put_u64(&x, 0x01, 9); rtlv_put_u64(&x, 0x02, T_SIGN); rtlv_put_u64(&x, 0x03, T_PUB);
		vb_reset(&pl); put_cont(&pl, 0x301, &x);
		env_init(&e, 1, RP_EXT, 1);
		b = add_base("ext1-req", RR_EXT_V1, 0, 1); rp_wrap_request(&b->bytes, &e, pl.p, pl.n);
		vb_reset(&pl); rp_error_payload(&pl, 1, RP_EXT, 0x104, "time out of range");
		b = add_base("ext1-err", RR_EXT_V1, 0, 0); rp_wrap_response(&b->bytes, &e, pl.p, pl.n);
		vb_reset(&pl); rp_ext_resp_payload(&pl, 2, 10, 1, 0, NULL, 1, T_PUB + 50, cal.p, cal.n);
		env_init(&e, 2, RP_EXT, 0);
		b = add_base("ext2-resp", RR_EXT_V2, 1, 0); rp_wrap_response(&b->bytes, &e, pl.p, pl.n);
		vb_reset(&pl); rp_ext_resp_payload(&pl, 2, 11, 1, 0x105, "too old", 0, 0, NULL, 0);
		b = add_base("ext2-status", RR_EXT_V2, 0, 1); rp_wrap_response(&b->bytes, &e, pl.p, pl.n);
		vb_reset(&pl); rp_error_payload(&pl, 2, RP_EXT, 0x101, "bad request");
		b = add_base("ext2-err", RR_EXT_V2, 0, 0); rp_wrap_response(&b->bytes, &e, pl.p, pl.n);
		vb_reset(&pl); rp_ext_conf_payload(&pl, 50, "ksi://ext-parent", 1136073600, (int64_t)T_PUB);
		env_init(&e, 2, RP_EXT, 1);
		b = add_base("ext2-conf", RR_EXT_V2, 0, 1); rp_wrap_response(&b->bytes, &e, pl.p, pl.n);
		vb_reset(&x); rtlv_put_u64(&x, 0x01, 12); rtlv_put_u64(&x, 0x02, T_SIGN); rtlv_put_u64(&x, 0x03, T_PUB);
		vb_reset(&pl); put_cont(&pl, 0x02, &x);
		vb_reset(&x); put_cont(&pl, 0x04, &x);
		b = add_base("ext2-req", RR_EXT_V2, 0, 1); rp_wrap_request(&b->bytes, &e, pl.p, pl.n);
		/* calendar chains consisting of left links only / of one right link only (each member of the at-least-one group alone) */
		for (k = 0; k < 2; k++) {
			unsigned char sib[RH_MAX_IMPRINT];
			size_t sl = ref_fake_imprint(RH_SHA256, (unsigned)(90 + k), sib);
			vb_reset(&x); rtlv_put_u64(&x, 0x01, T_PUB); rtlv_put_u64(&x, 0x02, T_SIGN); rtlv_put(&x, 0x05, 0, 0, h, hl, 0);
			rtlv_put(&x, k ? 0x08 : 0x07, 0, 0, sib, sl, 0);
			if (!k) rtlv_put(&x, 0x07, 0, 0, h, hl, 0);
			vb_reset(&cal); put_cont(&cal, 0x0802, &x);
			vb_reset(&pl); rp_ext_resp_payload(&pl, k ? 1 : 2, 13, 0, 0, NULL, 0, 0, cal.p, cal.n);
			env_init(&e, k ? 1 : 2, RP_EXT, 0);
			b = add_base(k ? "ext1-right" : "ext2-left", k ? RR_EXT_V1 : RR_EXT_V2, 0, 1); rp_wrap_response(&b->bytes, &e, pl.p, pl.n);
		}
		vb_free(&cal); vb_free(&pl); vb_free(&x);
	}
	/* ---- publications files */
	{
		rpubfile f;
		base_t *b;
		vbuf hd, d, r;
		size_t sl;
		rk_init();
		rk_issue(&signer, 0, "publications@verif.test", "Verif Publications", 1500000000, 1900000000);
		rk_issue(&cert_a, 0, "a@verif.test", "cert a", 1500000000, 1600000000);
		memset(&f, 0, sizeof f);
		f.version = 2; f.created = 1600000000;
		f.ncerts = 2; f.certs[0] = &cert_a; f.certs[1] = &signer;
		f.npubs = 2;
		for (k = 0; k < 2; k++) { f.pub_time[k] = 1600000000ULL + (uint64_t)k * 86400 * 30; f.pub_hash_len[k] = ref_fake_imprint(RH_SHA256, (unsigned)(50 + k), f.pub_hash[k]); }
		b = add_base("pubfile-2x2", RR_PUBFILE, 0, 0); rpf_serialize(&f, &signer, &b->bytes, &sl);
		f.ncerts = 0; f.npubs = 0;
		b = add_base("pubfile-min", RR_PUBFILE, 0, 1); rpf_serialize(&f, &signer, &b->bytes, &sl);
		/* header with repository uri, one certificate, one publication with reference and uri */
		b = add_base("pubfile-full", RR_PUBFILE, 1, 1);
		vb_init(&hd); vb_init(&d); vb_init(&r);
		vb_put(&b->bytes, RSCH_PUBFILE_MAGIC, 8);
		rtlv_put_u64(&hd, 0x01, 2); rtlv_put_u64(&hd, 0x02, 1600000000); rtlv_put_str(&hd, 0x03, "http://verif.test/publications.bin");
		put_cont(&b->bytes, 0x0701, &hd);
		rpf_cert_record(&cert_a, &b->bytes);
		rtlv_put_u64(&d, 0x02, 1600000000); rtlv_put(&d, 0x04, 0, 0, h, hl, 0);
		put_cont(&r, 0x10, &d); rtlv_put_str(&r, 0x09, "ref: test publication"); rtlv_put_str(&r, 0x0a, "http://verif.test/pub");
		put_cont(&b->bytes, 0x0703, &r);
		rpf_sig_record(&signer, b->bytes.p, b->bytes.n, &b->bytes);
		vb_free(&hd); vb_free(&d); vb_free(&r);
	}
	/* the DER blobs of the valid base objects are the only RV_DER values the reference decides;
	 * the first occurrence of every (container, element) becomes the sample used by the "add" operator */
	for (k = 0; k < nbase; k++) {
		node *pos[MAXPOS], *t;
		int np, i;
		arena_reset();
		t = tree_read(BASE[k].root, BASE[k].bytes.p, BASE[k].bytes.n);
		if (!t) vf_harness_error("base %s unreadable", BASE[k].name);
		np = dfs(t, pos, 0);
		for (i = 0; i < np; i++) {
			node *n = pos[i];
			if (!n->el || !n->parent) continue;
			if (n->el->vtype == RV_DER) rsch_trust_blob(n->val, n->len);
			{
				int si = sample_index(n->parent->cont, n->tag);
				if (si >= 0 && si < MAXEL && SAMPLE[n->parent->cont][si].n == 0) { vb_init(&SAMPLE[n->parent->cont][si]); if (tree_write(n, &SAMPLE[n->parent->cont][si]) != 0) vf_harness_error("sample"); }
			}
		}
	}
	arena_reset();
}

/* reference observations of the unmutated base (parsed fields, internal verdict) */
static void base_reference(base_t *b) {
	parsed o;
	int res;
	if (b->have_ref) return;
	b->have_ref = 1;
	res = impl_parse(b->root, b->bytes.p, b->bytes.n, &o);
	if (res != KSI_OK) { b->dump_res = -1; return; }
	b->dump_res = field_dump(&o, &b->dump);
	if (b->root == RR_SIG) b->int_ok = internal_ok((KSI_Signature *)o.obj, NULL, NULL);
	parsed_free(&o);
}

/* ------------------------------------------------------------------ the oracle comparison */
static char g_sigs[24][80];
static int g_nsig;
static void fail_once(const char *sig, const char *fmt, ...) {
	char d[2600];
	va_list ap;
	int i;
	vf_count("deviations", 1);
	for (i = 0; i < g_nsig; i++) if (strcmp(g_sigs[i], sig) == 0) return;
	if (g_nsig < 24) snprintf(g_sigs[g_nsig++], sizeof g_sigs[0], "%s", sig);
	va_start(ap, fmt);
	vsnprintf(d, sizeof d, fmt, ap);
	va_end(ap);
	vf_fail(sig, "%s", d);
}
static const char *hexcut(const unsigned char *p, size_t n) { return vf_hex(p, n > 700 ? 700 : n); }

/* `where`: container in which the mutation took place; `what`: operator description;
 * only_nc: the only changes are inserted unknown non-critical elements */
static void judge(base_t *b, const unsigned char *p, size_t n, const char *where, const char *what, int only_nc, int hashed, int contain) {
	rsch_info info;
	parsed o;
	int v = rsch_validate(b->root, p, n, &info);
	int res, acc;
	const char *rn = rsch_root_name(b->root);
	if (contain && v == RSCH_REJECT && info.empty_at_end > 0) {
		char crash[200], sig[260];
		int r = contained_parse(b->root, p, n, crash, sizeof crash);
		vf_obs("%d%d", v, r);
		vf_outcome("%s:invalid:%s", rn, r == 1 ? "accepted" : r == 0 ? "refused" : "CRASHED");
		if (r == 1) {
			char rule[96], *c2;
			snprintf(rule, sizeof rule, "%s", info.rule);
			c2 = strchr(rule, ':'); if (c2) c2 = strchr(c2 + 1, ':'); if (c2) *c2 = 0;
			snprintf(sig, sizeof sig, "accepts-invalid:%s", rule);
			fail_once(sig, "%s %s: %s: schema violation [%s] but the %s parser returned KSI_OK; bytes=%s", b->name, what, where, info.rule, rn, hexcut(p, n));
		}
		if (r < 0) { snprintf(sig, sizeof sig, "crash:%s", crash); fail_once(sig, "%s %s: %s: the %s parser ended abnormally (%s) on a tree with schema violation [%s]; bytes=%s", b->name, what, where, rn, crash, info.rule, hexcut(p, n)); }
		return;
	}
	res = impl_parse(b->root, p, n, &o);
	acc = (res == KSI_OK);
	vf_obs("%d%d", v, acc);
	vf_outcome("%s:%s:%s", rn, v == RSCH_ACCEPT ? "valid" : v == RSCH_REJECT ? "invalid" : "silent", acc ? "accepted" : "refused");
	if (v == RSCH_REJECT) {
		char rule[96], *c2;
		snprintf(rule, sizeof rule, "%s", info.rule);
		/* class of the violated rule: container:rule (without the element name) */
		c2 = strchr(rule, ':'); if (c2) c2 = strchr(c2 + 1, ':'); if (c2) *c2 = 0;
		vf_outcome("rule:%s:%s", strchr(rule, ':') ? strchr(rule, ':') + 1 : rule, acc ? "ACCEPTED" : "refused");
		if (acc) {
			char sig[120];
			snprintf(sig, sizeof sig, "accepts-invalid:%s", rule);
			fail_once(sig, "%s %s: %s: schema violation [%s] but the %s parser returned KSI_OK; bytes=%s", b->name, what, where, info.rule, rn, hexcut(p, n));
		}
	} else if (v == RSCH_ACCEPT && !acc) {
		char sig[120];
		snprintf(sig, sizeof sig, "rejects-valid:%s", where);
		fail_once(sig, "%s %s: the tree satisfies the schema but the %s parser refused it: 0x%x; bytes=%s", b->name, what, rn, res, hexcut(p, n));
	} else if (v == RSCH_SILENT) {
		/* class: the rule without container and element names */
		char r[96], *c1;
		snprintf(r, sizeof r, "%s", strchr(info.silent, ':') ? strchr(info.silent, ':') + 1 : info.silent);
		c1 = strchr(r, ':'); if (c1) *c1 = 0;
		vf_outcome("silent:%s:%s", r, acc ? "accepted" : "refused");
	}
	/* unknown non-critical elements are ignored: same fields, element preserved, same verdict */
	if (acc && v == RSCH_ACCEPT && only_nc && info.unknown_nc > 0) {
		base_reference(b);
		vf_outcome("nc-ignored:%s:%s", rn, hashed ? "in-hashed-content" : "plain");
		if (b->dump_res != KSI_OK) vf_outcome("nc-fields-not-compared:base-object-not-re-encodable");
		if (b->dump_res == KSI_OK && !hashed) {
			vbuf d;
			int dr;
			vb_init(&d);
			dr = field_dump(&o, &d);
			if (dr != KSI_OK || d.n != b->dump.n || memcmp(d.p, b->dump.p, d.n) != 0)
				fail_once("nc-unknown:fields-differ", "%s %s: %s: known fields re-encoded from the parsed object differ from those of the base object (res 0x%x): got %s expected %s",
				          b->name, what, where, dr, hexcut(d.p, d.n), hexcut(b->dump.p, b->dump.n));
			else vf_outcome("nc-fields-equal:%s", rn);
			vb_free(&d);
		}
		if (b->root == RR_SIG) {
			unsigned char *raw = NULL;
			size_t rl = 0;
			int sr = KSI_Signature_serialize((KSI_Signature *)o.obj, &raw, &rl);
			vf_count("impl_calls", 1);
			if (sr != KSI_OK || rl != n || memcmp(raw, p, n) != 0)
				fail_once("nc-unknown:not-preserved", "%s %s: %s: KSI_Signature_serialize (0x%x) does not return the input bytes: got %s", b->name, what, where, sr, raw ? hexcut(raw, rl) : "-");
			else vf_outcome("nc-preserved");
			KSI_free(raw);
			if (!hashed) {
				int rc = 0, code = 0, ok = internal_ok((KSI_Signature *)o.obj, &rc, &code);
				if (ok != b->int_ok)
					fail_once("nc-unknown:verdict-changed", "%s %s: %s: internal verification %s on the base object but rc=0x%x error=0x%x with the ignored element", b->name, what, where,
					          b->int_ok ? "OK" : "not OK", rc, code);
				else vf_outcome("nc-verdict-unchanged");
			} else vf_outcome("nc-verdict-not-judged");
		}
	}
	if (acc) parsed_free(&o);
}

/* ------------------------------------------------------------------ enumeration */
static const char *cont_name(const node *n) { return (n && n->cont >= 0) ? rsch_container(n->cont)->name : "top"; }

static void part_self(void) {
	int k;
	for (k = 0; k < nbase; k++) {
		base_t *b = &BASE[k];
		node *t;
		vbuf w;
		rsch_info info;
		if (!vf_case_begin("self:%s", b->name)) continue;
		g_nsig = 0;
		arena_reset();
		t = tree_read(b->root, b->bytes.p, b->bytes.n);
		vb_init(&w);
		if (!t || tree_write(t, &w) != 0 || w.n != b->bytes.n || memcmp(w.p, b->bytes.p, w.n) != 0) vf_harness_error("base %s: tree round trip differs", b->name);
		if (rsch_validate(b->root, b->bytes.p, b->bytes.n, &info) != RSCH_ACCEPT) vf_harness_error("base %s is not accepted by the reference schema: %s / %s", b->name, info.rule, info.silent);
		judge(b, b->bytes.p, b->bytes.n, "base", "unmodified", 0, 0, 0);
		base_reference(b);
		if (b->root == RR_SIG && !b->int_ok) { int rc = 0, code = 0; parsed o; impl_parse(b->root, b->bytes.p, b->bytes.n, &o); internal_ok((KSI_Signature *)o.obj, &rc, &code); vf_harness_error("base %s is not internally consistent rc=%x code=%x", b->name, rc, code); }
		vf_outcome("base:%s", rsch_root_name(b->root));
		if (k < 3) { node *pos[MAXPOS]; vf_sample("base %s (%s): %zu bytes, %d tree positions", b->name, rsch_root_name(b->root), b->bytes.n, dfs(t, pos, 0)); }
		vb_free(&w);
		vf_case_end(1);
	}
}

static void part_single(void) {
	int k;
	for (k = 0; k < nbase; k++) {
		base_t *b = &BASE[k];
		node *pos[MAXPOS], *t;
		int np, pi, oi;
		static opdesc ops[MAXPOS][MAXOPS];
		static int nops[MAXPOS];
		(void)b->quick;   /* both tiers: every base (the quick flag marks the 8 bases of the original bound) */
		arena_reset();
		t = tree_read(b->root, b->bytes.p, b->bytes.n);
		np = dfs(t, pos, 0);
		for (pi = 0; pi < np; pi++) nops[pi] = ops_for(pos[pi], b->root, ops[pi], 0);
		for (pi = 0; pi < np; pi++) for (oi = 0; oi < nops[pi]; oi++) {
			const opdesc *op = &ops[pi][oi];
			node *pos2[MAXPOS], *t2, *n;
			vbuf w;
			char what[96];
			if (!vf_case_begin("s:%s:%d:%s", b->name, pi, op->name)) continue;
			g_nsig = 0;
			arena_reset();
			t2 = tree_read(b->root, b->bytes.p, b->bytes.n);
			dfs(t2, pos2, 0);
			n = pos2[pi];
			snprintf(what, sizeof what, "position %d (tag %x in %s) operator %s", pi, n->tag, cont_name(n->parent), op->name);
			vb_init(&w);
			if (op_apply(n, op) != 0 || tree_write(t2, &w) != 0) { vf_outcome("operator-not-applicable"); vb_free(&w); vf_case_end(0); continue; }
			if (pi == 7 && oi < 2) vf_sample("single: %s %s -> %zu bytes", b->name, what, w.n);
			judge(b, w.p, w.n, cont_name(n->parent), what, op_is_nc_insert(op), in_hashed(n->parent), 0);
			vb_free(&w);
			vf_case_end(1);
		}
	}
}

/* pairs: first operator (reduced set) at every position, second operator (reduced set) at every position of the
 * same container of the mutated tree */
static void part_pairs(void) {
	int k;
	if (!VF_THOROUGH) return;
	for (k = 0; k < nbase; k++) {
		base_t *b = &BASE[k];
		node *pos[MAXPOS], *t;
		int np, pi, oi;
		static opdesc ops[MAXPOS][MAXOPS];
		static int nops[MAXPOS];
		/* all bases (the pairs flag marks the subset used when time is short) */
		arena_reset();
		t = tree_read(b->root, b->bytes.p, b->bytes.n);
		np = dfs(t, pos, 0);
		for (pi = 0; pi < np; pi++) nops[pi] = ops_for(pos[pi], b->root, ops[pi], 1);
		for (pi = 0; pi < np; pi++) for (oi = 0; oi < nops[pi]; oi++) {
			const opdesc *op1 = &ops[pi][oi];
			node *pos2[MAXPOS], *t2, *n, *q;
			vbuf w1;
			int path[12], depth = 0, d, j, nk1;
			const char *where;
			if (!vf_case_begin("p:%s:%d:%s", b->name, pi, op1->name)) continue;
			g_nsig = 0;
			arena_reset();
			t2 = tree_read(b->root, b->bytes.p, b->bytes.n);
			dfs(t2, pos2, 0);
			n = pos2[pi];
			for (q = n->parent; q && q->parent; q = q->parent) { if (depth >= 12) vf_harness_error("depth"); path[depth++] = kid_index(q); }
			vb_init(&w1);
			if (op_apply(n, op1) != 0 || tree_write(t2, &w1) != 0) { vb_free(&w1); vf_case_end(0); continue; }
			/* number of children of the container after the first operator */
			arena_reset();
			t2 = tree_read(b->root, w1.p, w1.n);
			if (!t2) { vb_free(&w1); vf_case_end(0); continue; }
			q = t2;
			for (d = depth - 1; d >= 0; d--) q = q->kid[path[d]];
			nk1 = q->nk;
			where = cont_name(q);
			for (j = 0; j < nk1; j++) {
				opdesc ops2[MAXOPS];
				int n2, o2;
				arena_reset();
				t2 = tree_read(b->root, w1.p, w1.n);
				q = t2;
				for (d = depth - 1; d >= 0; d--) q = q->kid[path[d]];
				n2 = ops_for(q->kid[j], b->root, ops2, 0);
				for (o2 = 0; o2 < n2; o2++) {
					vbuf w2;
					char what[128];
					arena_reset();
					t2 = tree_read(b->root, w1.p, w1.n);
					q = t2;
					for (d = depth - 1; d >= 0; d--) q = q->kid[path[d]];
					vb_init(&w2);
					if (op_apply(q->kid[j], &ops2[o2]) == 0 && tree_write(t2, &w2) == 0) {
						snprintf(what, sizeof what, "position %d operator %s, then child %d of %s operator %s", pi, op1->name, j, where, ops2[o2].name);
						judge(b, w2.p, w2.n, where, what, op_is_nc_insert(op1) && op_is_nc_insert(&ops2[o2]), in_hashed(q), 1);
						vf_count("pair_evaluations", 1);
					}
					vb_free(&w2);
				}
			}
			vb_free(&w1);
			vf_case_end(1);
		}
	}
}

static void run(void) {
	ctx = ku_ctx();
	build_bases();
	part_self();
	part_single();
	part_pairs();
	KSI_CTX_free(ctx);
}

int main(int argc, char **argv) {
	vf_driver d = {"C10", run};
	return vf_main(argc, argv, &d);
}
