/* vf.h - common harness core: case enumeration protocol, sharding, crash containment,
 * counters, samples, violations, allocation funnel. See DESIGN.md section 2. */
#ifndef VF_H_
#define VF_H_
#include <stddef.h>
#include <stdint.h>
#include <stdio.h>

#ifdef __cplusplus
extern "C" {
#endif

/* ---- byte buffers ---- */
typedef struct { unsigned char *p; size_t n, cap; } vbuf;
void vb_init(vbuf *b);
void vb_free(vbuf *b);
void vb_reset(vbuf *b);
void vb_put(vbuf *b, const void *d, size_t n);
void vb_putc(vbuf *b, int c);
void vb_putvb(vbuf *b, const vbuf *s);
/* hex helpers (static ring of buffers; for messages only) */
const char *vf_hex(const void *d, size_t n);
int vf_unhex(const char *s, unsigned char *out, size_t cap, size_t *n);
uint64_t vf_fnv(const void *d, size_t n, uint64_t h);

/* ---- driver entry ---- */
typedef struct {
	const char *property;     /* "C03" */
	void (*run)(void);        /* enumerates all cases, calling vf_case_begin/vf_case_end */
} vf_driver;
int vf_main(int argc, char **argv, const vf_driver *drv);

extern int vf_tier;           /* 0 quick, 1 thorough */
extern int vf_seed;
#define VF_THOROUGH (vf_tier == 1)

/* ---- case protocol ----
 * if (!vf_case_begin("sub:%d:%s", ...)) continue;   -- returns 0 when the case belongs to
 *     another shard, was already executed before a crash restart, is not the replayed case,
 *     or the deadline has passed.
 * ... run the implementation, compare with the oracle, call vf_fail on disagreement ...
 * vf_case_end(nontrivial);                           -- nontrivial: reached an oracle comparison
 */
int  vf_case_begin(const char *fmt, ...) __attribute__((format(printf, 1, 2)));
void vf_case_end(int nontrivial);
const char *vf_case_name(void);
/* observation log of the current case (folded into a hash; used for the determinism
 * self-test and for counting distinct outcomes) */
void vf_obs(const char *fmt, ...) __attribute__((format(printf, 1, 2)));
/* outcome classes: counted per distinct string over the whole run */
void vf_outcome(const char *fmt, ...) __attribute__((format(printf, 1, 2)));
/* report a violation in the current case. sig: stable signature (used for known-findings
 * matching); detail: free text */
void vf_fail(const char *sig, const char *fmt, ...) __attribute__((format(printf, 2, 3)));
/* counters */
void vf_count(const char *key, long n);
void vf_max(const char *key, long v);
/* harness (not property) error: aborts the run with exit code 2 */
void vf_harness_error(const char *fmt, ...) __attribute__((format(printf, 1, 2)));
void vf_soft_error(const char *fmt, ...) __attribute__((format(printf, 1, 2)));
/* samples: first few calls are kept */
void vf_sample(const char *fmt, ...) __attribute__((format(printf, 1, 2)));
/* mark the enumeration as cut short for a reason */
void vf_inexhaustive(const char *fmt, ...) __attribute__((format(printf, 1, 2)));
int  vf_replaying(void);

/* ---- allocation funnel (base.c is compiled with -Dmalloc=vf_malloc ...) ---- */
void *vf_malloc(size_t n);
void *vf_calloc(size_t a, size_t b);
void  vf_free(void *p);
extern long vf_alloc_count;      /* SDK allocations since last reset */
extern long vf_alloc_live;       /* live SDK blocks */
extern long vf_alloc_fail_at;    /* fail the n-th allocation from now (1-based); 0 = off */
extern long vf_alloc_fail_at2;   /* second fault index (absolute count), 0 = off */
extern long vf_alloc_failed;     /* number of injected failures so far */
void vf_alloc_reset(void);

#ifdef __cplusplus
}
#endif
#endif
