/* C08 - extending needs a matching calendar chain and preserves the signature */
#include "ku.h"
#include "srv.h"
#include "ref/ref_pdu.h"
#include <ksi/net_async.h>
#include <ksi/net_uri.h>

KSI_IMPORT_TLV_TEMPLATE(KSI_PublicationRecord);
#define LOGIN "user-c08"
#define KEY   "key-c08"
#define T0    1600000000ULL                 /* aggregation time of the source signatures */
#define P0    (T0 + 86400ULL * 5 + 77)      /* their original publication time */
#define PHEAD (T0 + 86400ULL * 40 + 3)      /* "calendar head" used when no publication time is requested */

enum { R_CORRECT = 0, R_WRONG_ID, R_WRONG_AGGR_TIME, R_WRONG_PUB_TIME, R_SHAPE, R_OTHER_INPUT, R_RIGHT_ALTERED, R_RIGHT_REMOVED, R_RIGHT_ADDED,
       R_LEFT_ALTERED, R_STATUS, R_ERROR_PDU, R_BAD_MAC, R_NO_CHAIN, R_NO_AGGR_TIME_FIELD, R_OTHER_VERSION, R_EMPTY,
       R_EXTRA_RIGHT_LOWEST, R_EXTRA_LEFT_LOWEST, R_EXTRA_RIGHT_HIGHEST, R_DROP_LOWEST,
       R_NOSTATUS_WRONG_ID, R_NOSTATUS_WRONG_PUB_TIME, R_NOSTATUS_WRONG_AGGR_TIME, R_ERROR_WITH_RESPONSE, R_NREPLY };   /* R_NOSTATUS_*: the reply has no status element at all and deviates otherwise */
static const char *RNAME[R_NREPLY] = {"correct", "wrong-id", "wrong-aggr-time", "wrong-pub-time", "shape", "other-input", "right-altered", "right-removed",
                                      "right-added", "left-altered", "status", "error-pdu", "bad-mac", "no-chain", "no-aggr-time-field", "other-version", "empty",
                                      "extra-right-lowest", "extra-left-lowest", "extra-right-highest", "drop-lowest",
                                      "no-status-wrong-id", "no-status-wrong-pub-time", "no-status-wrong-aggr-time", "error-payload-with-response"};
static const uint64_t STATUSES[] = {0x0101, 0x0102, 0x0103, 0x0104, 0x0105, 0x0106, 0x0107, 0x0200, 0x0201, 0x0202, 0x0300, 0x0301, 0x999,
                                   0x100000000ULL, 0x8000000000000000ULL, 0xffffffff00000000ULL, 0x100000101ULL};   /* wider than 32 bits */
#define NSTATUS ((int)(sizeof STATUSES / sizeof *STATUSES))

typedef struct {
	int reply, sub;
	unsigned char root[RH_MAX_IMPRINT]; size_t root_len;   /* aggregation root of the source (what an honest extender has at T0) */
	int nreq; rp_req last; int last_parsed, mac_ok;
	rsig sent_cal; int have_cal; int envelope_ok; uint64_t sent_id;
} server_t;
static server_t S;
static int g_own_ctx;   /* 0: plain calls; 1 / 2: the WithPolicy forms with a fresh / a used verification context */

static void handler(const unsigned char *req, size_t n, vbuf *resp, void *user) {
	rp_env e;
	rp_req r;
	rsig cal;
	vbuf calb, payload;
	uint64_t id, t, P;
	int i;
	(void)user;
	S.nreq++;
	rp_req_free(&S.last);
	S.last_parsed = rp_parse_request(req, n, RP_EXT, &S.last) == 0;
	S.mac_ok = S.last_parsed && rp_request_mac_ok(&S.last, KEY, strlen(KEY));
	if (!S.last_parsed || !S.last.has_req || !S.last.has_aggr_time) return;
	r = S.last;
	memset(&e, 0, sizeof e);
	e.version = r.version; e.kind = RP_EXT; e.login = LOGIN; e.mac_alg = RH_SHA256; e.key = KEY; e.keylen = strlen(KEY);
	id = r.req_id; t = r.aggr_time; P = r.has_pub_time ? r.pub_time : PHEAD;
	S.envelope_ok = 1; S.have_cal = 0;
	vb_init(&calb); vb_init(&payload);
	if (S.reply == R_EMPTY) { S.envelope_ok = 0; goto done; }
	if (S.reply == R_ERROR_PDU) {
		S.envelope_ok = 0;
		rp_error_payload(&payload, e.version, RP_EXT, STATUSES[S.sub % NSTATUS], "simulated");
		rp_wrap_response(resp, &e, payload.p, payload.n);
		goto done;
	}
	if (t > P) {
		/* an honest extender has no chain from t to an earlier publication */
		S.envelope_ok = 0;
		rp_ext_resp_payload(&payload, e.version, id, 1, 0x0104, "invalid time range", 0, 0, NULL, 0);
		rp_wrap_response(resp, &e, payload.p, payload.n);
		goto done;
	}
	switch (S.reply) {
		case R_WRONG_ID: case R_NOSTATUS_WRONG_ID: id += 1; break;
		case R_WRONG_AGGR_TIME: case R_NOSTATUS_WRONG_AGGR_TIME: if (t + 1 <= P) t += 1; else t -= 1; break;
		case R_WRONG_PUB_TIME: case R_NOSTATUS_WRONG_PUB_TIME: P += 1; break;
		case R_BAD_MAC: e.flags |= RP_F_BAD_MAC; S.envelope_ok = 0; break;
		case R_OTHER_VERSION: e.version = r.version == 2 ? 1 : 2; S.envelope_ok = 0; break;
		case R_STATUS: S.envelope_ok = 0; break;
		default: break;
	}
	rp_extend(&cal, S.root, S.root_len, t, P);
	switch (S.reply) {
		case R_SHAPE: /* claims the requested aggregation time but has the shape of another second */
			cal.cal_aggr_time = r.aggr_time;
			if (cal.cal_aggr_time + 1 <= P) { rsig c2; rp_extend(&c2, S.root, S.root_len, r.aggr_time + 1, P); c2.cal_aggr_time = r.aggr_time; cal = c2; }
			else { rsig c2; rp_extend(&c2, S.root, S.root_len, r.aggr_time - 1, P); c2.cal_aggr_time = r.aggr_time; cal = c2; }
			break;
		case R_OTHER_INPUT: cal.cal_input[cal.cal_input_len - 1] ^= 1; break;
		case R_RIGHT_ALTERED: { int k = S.sub, hit = 0;   /* sub 0: the first right link, 1: the LAST one, 2 / 3: the second / third */
			if (S.sub == 1) { for (i = cal.ncal - 1; i >= 0; i--) if (!cal.cal[i].is_left) { cal.cal[i].sib[5] ^= 1; hit = 1; break; } if (hit) break; }
			if (S.sub >= 2) k = S.sub - 1;
			for (i = 0; i < cal.ncal; i++) if (!cal.cal[i].is_left && k-- == 0) { cal.cal[i].sib[5] ^= 1; hit = 1; break; } if (!hit) for (i = 0; i < cal.ncal; i++) if (!cal.cal[i].is_left) { cal.cal[i].sib[5] ^= 1; break; } break; }
		case R_LEFT_ALTERED: for (i = 0; i < cal.ncal; i++) if (cal.cal[i].is_left) { cal.cal[i].sib[6] ^= 1; break; } break;
		case R_NO_AGGR_TIME_FIELD: cal.cal_has_aggr = 0; break;
		case R_EXTRA_RIGHT_LOWEST: case R_EXTRA_LEFT_LOWEST:   /* a surplus link below the leaf position */
			if (cal.ncal < RS_MAXCAL) { memmove(&cal.cal[1], &cal.cal[0], sizeof(rlink) * (size_t)cal.ncal); cal.ncal++; ref_link_imprint(&cal.cal[0], S.reply == R_EXTRA_LEFT_LOWEST, RH_SHA256, 4242, 0); }
			break;
		case R_EXTRA_RIGHT_HIGHEST: if (cal.ncal < RS_MAXCAL) { ref_link_imprint(&cal.cal[cal.ncal], 0, RH_SHA256, 4243, 0); cal.ncal++; } break;
		case R_DROP_LOWEST: if (cal.ncal > 1) { memmove(&cal.cal[0], &cal.cal[1], sizeof(rlink) * (size_t)(cal.ncal - 1)); cal.ncal--; } break;
		case R_RIGHT_REMOVED: for (i = 0; i < cal.ncal; i++) if (!cal.cal[i].is_left) { memmove(&cal.cal[i], &cal.cal[i + 1], sizeof(rlink) * (size_t)(cal.ncal - i - 1)); cal.ncal--; break; } break;
		case R_RIGHT_ADDED: for (i = 0; i < cal.ncal && cal.ncal < RS_MAXCAL; i++) if (!cal.cal[i].is_left) { memmove(&cal.cal[i + 1], &cal.cal[i], sizeof(rlink) * (size_t)(cal.ncal - i)); cal.ncal++; break; } break;
		default: break;
	}
	S.sent_cal = cal; S.have_cal = 1; S.sent_id = id;
	if (S.reply != R_NO_CHAIN) rs_serialize_cal(&cal, &calb); else S.have_cal = 0;
	if (S.reply == R_ERROR_WITH_RESPONSE) { S.envelope_ok = 0; if (S.sub % 2) rp_error_payload(&payload, e.version, RP_EXT, 0x0300, "upstream error"); }   /* an error payload next to the correct response */
	rp_ext_resp_payload(&payload, e.version, id, S.reply < R_NOSTATUS_WRONG_ID || S.reply == R_ERROR_WITH_RESPONSE, S.reply == R_STATUS ? STATUSES[S.sub % NSTATUS] : 0, S.reply == R_STATUS ? "refused" : NULL, 1, PHEAD, calb.p, calb.n);
	if (S.reply == R_ERROR_WITH_RESPONSE && S.sub % 2 == 0) rp_error_payload(&payload, e.version, RP_EXT, 0x0101, "invalid request");
	rp_wrap_response(resp, &e, payload.p, payload.n);
done:
	vb_free(&calb); vb_free(&payload);
}

/* reference decision: may a client accept what was sent for (source, requested publication time, supplied publication record)? */
static int right_links_agree(const rsig *a, const rsig *b) {
	/* every right link of a appears, in order, as the right links of b, and b has no further right links */
	int i, j = 0;
	for (i = 0; i < a->ncal; i++) {
		if (a->cal[i].is_left) continue;
		while (j < b->ncal && b->cal[j].is_left) j++;
		if (j >= b->ncal) return 0;
		if (a->cal[i].sib_len != b->cal[j].sib_len || memcmp(a->cal[i].sib, b->cal[j].sib, a->cal[i].sib_len) != 0) return 0;
		j++;
	}
	for (; j < b->ncal; j++) if (!b->cal[j].is_left) return 0;
	return 1;
}

static int reference_accepts(const rsig *src, const rp_req *rq, int have_pubrec, uint64_t pr_time, const unsigned char *pr_hash, size_t pr_len, rsig *expected) {
	const rsig *c = &S.sent_cal;
	int dirs[RS_MAXCAL], i;
	uint64_t t = 0, claimed;
	unsigned char root[RH_MAX_IMPRINT], aroot[RH_MAX_IMPRINT];
	size_t rl = 0, al = 0;
	if (!S.envelope_ok || !S.have_cal) return 0;
	if (S.sent_id != rq->req_id) return 0;
	if (rq->has_pub_time && c->cal_pub_time != rq->pub_time) return 0;
	claimed = c->cal_has_aggr ? c->cal_aggr_time : c->cal_pub_time;
	if (claimed != rq->aggr_time) return 0;
	if (rq->aggr_time != rs_signing_time(src)) return 0;
	for (i = 0; i < c->ncal; i++) dirs[i] = c->cal[i].is_left;
	if (ref_cal_time(dirs, c->ncal, c->cal_pub_time, &t) != 0 || t != claimed) return 0;
	if (rs_aggr_root(src, 0, aroot, &al, NULL) != 0) return 0;
	if (al != c->cal_input_len || memcmp(aroot, c->cal_input, al) != 0) return 0;
	if (src->has_cal && !right_links_agree(src, c)) return 0;
	/* expected result */
	*expected = *src;
	expected->has_cal = 1; expected->cal_pub_time = c->cal_pub_time; expected->cal_has_aggr = c->cal_has_aggr; expected->cal_aggr_time = c->cal_aggr_time;
	memcpy(expected->cal_input, c->cal_input, c->cal_input_len); expected->cal_input_len = c->cal_input_len;
	memcpy(expected->cal, c->cal, sizeof c->cal); expected->ncal = c->ncal;
	expected->has_auth = 0; expected->has_pub = 0;
	if (have_pubrec) {
		if (rs_cal_root(expected, root, &rl) != 0) return 0;
		if (pr_time != c->cal_pub_time || pr_len != rl || memcmp(pr_hash, root, rl) != 0) return 0;   /* a record that contradicts the chain cannot verify */
		expected->has_pub = 1; expected->pub_time = pr_time; memcpy(expected->pub_hash, pr_hash, pr_len); expected->pub_hash_len = pr_len; expected->pub_nrefs = 1;
	}
	return 1;
}

static KSI_PublicationRecord *make_pubrec(KSI_CTX *ctx, uint64_t t, const unsigned char *h, size_t hl) {
	/* a publication record as a caller would hold it: parsed from TLV */
	vbuf b, d;
	KSI_TLV *tlv = NULL;
	KSI_PublicationRecord *pr = NULL;
	vb_init(&b); vb_init(&d);
	rtlv_put_u64(&d, 0x02, t);
	rtlv_put(&d, 0x04, 0, 0, h, hl, 0);
	rtlv_put(&b, 0x10, 0, 0, d.p, d.n, 0);
	rtlv_put_str(&b, 0x09, "ref: test publication");
	vb_reset(&d);
	rtlv_put(&d, 0x0803, 0, 0, b.p, b.n, 0);
	if (KSI_TLV_parseBlob(ctx, d.p, d.n, &tlv) != KSI_OK || KSI_PublicationRecord_new(ctx, &pr) != KSI_OK || KSI_TlvTemplate_extract(ctx, pr, tlv, KSI_TLV_TEMPLATE(KSI_PublicationRecord)) != KSI_OK) vf_harness_error("cannot build publication record");
	KSI_TLV_free(tlv);
	vb_free(&b); vb_free(&d);
	return pr;
}

/* target: 0 head (no time), 1 equal to aggregation time, 2 later, 3 earlier; pubrec: 0 none, 1 matching record, 2 record with another hash, 3 record with another time */
/* the order of the elements inside a signature is free: the same signature with its publication / authentication record
 * listed FIRST (before the aggregation chains) */
static int g_rec_first;
static void record_first(vbuf *sb) {
	rtlv top, t, last;
	size_t off = 0, last_off = 0;
	vbuf out, pl;
	int have = 0;
	if (rtlv_read(sb->p, sb->n, &top) != 0) vf_harness_error("record_first");
	while (off < top.len) {
		if (rtlv_read(top.val + off, top.len - off, &t) != 0) vf_harness_error("record_first: child");
		last = t; last_off = off; have = 1;
		off += t.hdr + t.len;
	}
	if (!have || (last.tag != 0x0803 && last.tag != 0x0805)) return;
	vb_init(&out); vb_init(&pl);
	vb_put(&pl, top.val + last_off, last.hdr + last.len);
	if (g_rec_first == 2) {
		/* record, calendar chain, aggregation chains (the order in which some aggregators deliver a signature) */
		size_t o2 = 0, cal_off = 0, cal_n = 0;
		while (o2 < last_off) {
			if (rtlv_read(top.val + o2, last_off - o2, &t) != 0) vf_harness_error("record_first: child");
			if (t.tag == 0x0802) { cal_off = o2; cal_n = t.hdr + t.len; }
			o2 += t.hdr + t.len;
		}
		if (cal_n) { vb_put(&pl, top.val + cal_off, cal_n); vb_put(&pl, top.val, cal_off); vb_put(&pl, top.val + cal_off + cal_n, last_off - cal_off - cal_n); }
		else vb_put(&pl, top.val, last_off);
	} else
	vb_put(&pl, top.val, last_off);
	rtlv_put(&out, top.tag, 0, 0, pl.p, pl.n, 1);
	vb_reset(sb); vb_putvb(sb, &out);
	vb_free(&out); vb_free(&pl);
}

static void one_case(int iface, int transport, int version, int src_tail, int nchains, int target, int pubrec, int reply, int sub) {
	KSI_CTX *ctx = ku_ctx();
	rs_params p;
	rsig src, expected;
	vbuf sb, rb;
	KSI_Signature *sig = NULL, *ext = NULL;
	KSI_PublicationRecord *pr = NULL;
	KSI_Integer *to = NULL;
	unsigned char *after = NULL, prh[RH_MAX_IMPRINT];
	size_t after_len = 0, prl = 0;
	uint64_t target_time = 0, pr_time = 0;
	int res, i, accept, silent = 0;
	char what[48];
	snprintf(what, sizeof what, "%s-%s", iface == 0 ? "extendTo" : iface == 1 ? "extend" : iface == 3 ? "ha" : "async", transport == 0 ? "tcp" : "http");
	srv_install(handler, NULL);
	memset(&S, 0, sizeof S);
	S.reply = reply; S.sub = sub;
	KSI_CTX_setOption(ctx, KSI_OPT_EXT_PDU_VER, (void *)(size_t)version);
	/* source signature */
	rs_default_params(&p);
	p.aggr_time = T0; p.pub_time = P0; p.tail = src_tail; p.nchains = nchains;
	for (i = 0; i < nchains; i++) { p.nlinks[i] = 1 + (i & 1); p.chain_alg[i] = RH_SHA256; p.link_desc[i][0] = (unsigned)(i & 1); p.link_desc[i][1] = 1; }
	rs_build(&src, &p);
	vb_init(&sb); vb_init(&rb);
	rs_serialize(&src, &sb);
	if (g_rec_first) record_first(&sb);
	if (KSI_Signature_parse(ctx, sb.p, sb.n, &sig) != KSI_OK) vf_harness_error("source signature refused");
	rs_aggr_root(&src, 0, S.root, &S.root_len, NULL);
	switch (target) { case 0: target_time = 0; break; case 1: target_time = T0; break; case 2: target_time = T0 + 86400 * 12 + 5; break; default: target_time = T0 - 3600; break; }
	if (KSI_CTX_setExtender(ctx, transport == 0 ? "ksi+tcp://ext.test:3331" : "ksi+http://ext.test:8081/gt-extendingservice", LOGIN, KEY) != KSI_OK) vf_harness_error("setExtender");
	if (pubrec && iface != 0) {
		/* the record a client would take from a publications file for time target_time (or PHEAD when extending to the head) */
		rsig honest;
		pr_time = target == 0 ? PHEAD : target_time;
		if (pr_time >= T0) { rp_extend(&honest, S.root, S.root_len, T0, pr_time); rs_cal_root(&honest, prh, &prl); }
		else prl = ref_fake_imprint(RH_SHA256, 9, prh);
		if (pubrec == 2) prh[3] ^= 1;
		if (pubrec == 3) pr_time += 1;   /* then the request asks for pr_time */
		pr = make_pubrec(ctx, pr_time, prh, prl);
	}
	if (iface <= 1 && g_own_ctx) {
		/* the ...WithPolicy forms with the caller's own verification context: a fresh one (1), or the one the application has just
		 * verified the source signature with and that still names it (2); the result is judged all the same */
		KSI_VerificationContext vc;
		if (KSI_VerificationContext_init(&vc, ctx) != KSI_OK) vf_harness_error("verification context");
		if (g_own_ctx == 2) vc.signature = sig;
		if (iface == 0) {
			if (target != 0) KSI_Integer_new(ctx, target_time, &to);
			res = KSI_Signature_extendToWithPolicy(sig, ctx, to, KSI_VERIFICATION_POLICY_INTERNAL, &vc, &ext);
		} else res = KSI_Signature_extendWithPolicy(sig, ctx, pr, KSI_VERIFICATION_POLICY_INTERNAL, &vc, &ext);
		vf_count("impl_calls", 1);
		vc.signature = NULL;
		KSI_VerificationContext_clean(&vc);
	} else if (iface == 0) {
		if (target != 0) KSI_Integer_new(ctx, target_time, &to);
		res = KSI_Signature_extendTo(sig, ctx, to, &ext);
		vf_count("impl_calls", 1);
	} else if (iface == 1) {
		res = KSI_Signature_extend(sig, ctx, pr, &ext);
		vf_count("impl_calls", 1);
	} else {
		KSI_AsyncService *svc = NULL;
		KSI_AsyncHandle *hd = NULL, *out = NULL;
		int state = 0, err = 0;
		if (iface == 3) {
			/* the high-availability extending service: the same request goes to two endpoints (both answered by the same extender) */
			res = KSI_ExtendingHighAvailabilityService_new(ctx, &svc);
			if (res == KSI_OK) res = KSI_AsyncService_addEndpoint(svc, transport == 0 ? "ksi+tcp://ext.test:3331" : "ksi+http://ext.test:8081/x", LOGIN, KEY);
			if (res == KSI_OK) res = KSI_AsyncService_addEndpoint(svc, transport == 0 ? "ksi+tcp://ext2.test:3331" : "ksi+http://ext2.test:8081/x", LOGIN, KEY);
		} else {
			res = KSI_ExtendingAsyncService_new(ctx, &svc);
			if (res == KSI_OK) res = KSI_AsyncService_setEndpoint(svc, transport == 0 ? "ksi+tcp://ext.test:3331" : "ksi+http://ext.test:8081/x", LOGIN, KEY);
		}
		if (res != KSI_OK) vf_harness_error("async extending service");
		res = KSI_AsyncExtendingHandle_new(ctx, sig, pr, &hd);
		if (res == KSI_OK) {
			res = KSI_AsyncService_addRequest(svc, hd);
			if (res != KSI_OK) KSI_AsyncHandle_free(hd);
		}
		if (res == KSI_OK) {
			for (i = 0; i < 60 && out == NULL; i++) {
				size_t waiting = 0;
				res = KSI_AsyncService_run(svc, &out, &waiting);
				vf_count("impl_calls", 1);
				if (res != KSI_OK) break;
				if (out == NULL) sn_now += 1;
				else {
					/* HA: a notice about one endpoint's failure; the request itself is still open */
					int st = 0;
					KSI_AsyncHandle_getState(out, &st);
					if (st == KSI_ASYNC_STATE_ERROR_NOTICE) { KSI_AsyncHandle_free(out); out = NULL; }
				}
			}
			if (out == NULL) { if (res == KSI_OK) { res = KSI_UNKNOWN_ERROR; vf_fail("async-no-completion", "extend request not handed back within 60 rounds"); } }
			else {
				KSI_AsyncHandle_getState(out, &state);
				KSI_AsyncHandle_getError(out, &err);
				{
					/* what the handle itself reports: a response object exactly when answered (bearing the request's id and status 0); for
					 */
					KSI_ExtendResp *er = NULL;
					long ee = 0;
					KSI_Utf8String *em = NULL;
					int gr = KSI_AsyncHandle_getExtendResp(out, &er);
					if (state == KSI_ASYNC_STATE_RESPONSE_RECEIVED) {
						KSI_Integer *ri = NULL, *st = NULL;
						if (gr != KSI_OK || er == NULL) vf_fail("answered-without-response-object", "%s: the request is handed back as answered but KSI_AsyncHandle_getExtendResp gives 0x%x / %s", what, gr, er ? "object" : "NULL");
						else {
							KSI_ExtendResp_getRequestId(er, &ri); KSI_ExtendResp_getStatus(er, &st);
							if (iface == 2 && S.last_parsed && (ri == NULL || KSI_Integer_getUInt64(ri) != S.last.req_id)) vf_fail("response-object-mismatch", "%s: the response object on the handle bears id %llx, the request went out as %llx", what, ri ? (unsigned long long)KSI_Integer_getUInt64(ri) : 0ULL, (unsigned long long)S.last.req_id);
							if (st != NULL && KSI_Integer_getUInt64(st) != 0) vf_fail("response-object-mismatch", "%s: answered request whose response object has status %llu", what, (unsigned long long)KSI_Integer_getUInt64(st));
						}
					} else if (state == KSI_ASYNC_STATE_ERROR) {
						if (er != NULL) vf_fail("error-with-response", "%s: the request is handed back as failed (0x%x) but its handle carries a response object", what, err);
						/* status code and message as the handle reports them (not judged: an extender refusal reaches the handle through the
						 * response check, which keeps the error class but not the details) */
						KSI_AsyncHandle_getExtError(out, &ee);
						KSI_AsyncHandle_getErrorMessage(out, &em);
						if (reply == R_STATUS) vf_outcome("async:status-details:%s", ((uint64_t)ee == STATUSES[sub % NSTATUS] && em != NULL) ? "reported" : "not-reported");
					}
				}
				if (state == KSI_ASYNC_STATE_RESPONSE_RECEIVED) {
					res = KSI_AsyncHandle_getSignature(out, &ext);
					if (res == KSI_OK && ext != NULL) {
						/* asking the completed handle again gives the same extended signature */
						KSI_Signature *again = NULL;
						unsigned char *r1 = NULL, *r2 = NULL;
						size_t n1 = 0, n2 = 0;
						int ra = KSI_AsyncHandle_getSignature(out, &again);
						vf_count("impl_calls", 1);
						if (ra != KSI_OK || again == NULL || KSI_Signature_serialize(ext, &r1, &n1) != KSI_OK || KSI_Signature_serialize(again, &r2, &n2) != KSI_OK || n1 != n2 || memcmp(r1, r2, n1) != 0)
							vf_fail("second-signature-differs", "%s: the second KSI_AsyncHandle_getSignature on the completed handle gives 0x%x and %zu bytes, the first gave %zu bytes", what, ra, n2, n1);
						KSI_free(r1); KSI_free(r2); KSI_Signature_free(again);
					}
				} else res = err ? err : KSI_UNKNOWN_ERROR;
				if (iface == 2 && state == KSI_ASYNC_STATE_RESPONSE_RECEIVED && res == KSI_OK && ext != NULL) {
					/* the handle is submitted once more; this time the extender refuses (status 0x101): the second round ends with an error and
					 * nothing of the first round's reply is left on the handle */
					server_t S1 = S;
					KSI_AsyncHandle *out2 = NULL;
					int k, st2 = -1, r2;
					memset(&S.last, 0, sizeof S.last);
					S.reply = R_STATUS; S.sub = 0; S.nreq = 0;
					r2 = KSI_AsyncService_addRequest(svc, out);
					vf_count("impl_calls", 1);
					if (r2 != KSI_OK) vf_outcome("async:readd-refused");
					else {
						for (k = 0; k < 60 && out2 == NULL; k++) {
							size_t waiting = 0;
							if (KSI_AsyncService_run(svc, &out2, &waiting) != KSI_OK) break;
							vf_count("impl_calls", 1);
							if (out2 == NULL) sn_now += 1;
						}
						if (out2 == NULL) vf_fail("async-no-completion", "%s: the re-submitted handle was not handed back within 60 rounds", what);
						else {
							KSI_Signature *none = NULL;
							KSI_ExtendResp *er2 = NULL;
							int sr;
							if (out2 != out) vf_fail("foreign-handle", "%s: the service handed back another handle than the one re-submitted", what);
							KSI_AsyncHandle_getState(out2, &st2);
							sr = KSI_AsyncHandle_getSignature(out2, &none);
							KSI_AsyncHandle_getExtendResp(out2, &er2);
							if (st2 != KSI_ASYNC_STATE_ERROR) vf_fail("success-on-unacceptable-reply", "%s: the re-submitted request was refused by the extender (status 0x101) but came back in state %d", what, st2);
							if (sr == KSI_OK || none != NULL) vf_fail("stale-result-on-readded-handle", "%s: the re-submitted request was refused by the extender but KSI_AsyncHandle_getSignature gives 0x%x and %s (left over from the first round)", what, sr, none ? "a signature" : "NULL");
							if (er2 != NULL) vf_fail("stale-result-on-readded-handle", "%s: the re-submitted request was refused by the extender but the handle still carries a response object", what);
							KSI_Signature_free(none);
							vf_outcome("async:readd:second-round-%s", st2 == KSI_ASYNC_STATE_ERROR ? "error" : "other");
						}
					}
					rp_req_free(&S.last);
					S = S1;
				}
				KSI_AsyncHandle_free(out);
			}
		}
		KSI_AsyncService_free(svc);
	}
	/* request as seen on the wire */
	if (S.nreq > 0) {
		if (!S.last_parsed) vf_fail("request-unparsable", "emitted extend request not well formed: %s", vf_hex(srv_last_request.p, srv_last_request.n));
		else {
			uint64_t want_pub = iface == 0 ? target_time : (pr ? pr_time : 0);
			if (!S.mac_ok) vf_fail("request-mac", "extend request MAC does not verify under the configured key");
			if (S.last.aggr_time != T0) vf_fail("request-aggr-time", "request asks aggregation time %llu, signature is from %llu", (unsigned long long)S.last.aggr_time, (unsigned long long)T0);
			if ((S.last.has_pub_time ? S.last.pub_time : 0) != want_pub) vf_fail("request-pub-time", "request asks publication time %llu, caller wanted %llu", (unsigned long long)(S.last.has_pub_time ? S.last.pub_time : 0), (unsigned long long)want_pub);
		}
	}
	accept = S.nreq > 0 && S.last_parsed && reference_accepts(&src, &S.last, pr != NULL, pr_time, prh, prl, &expected);
	/* the statement does not say whether a chain that omits the aggregation-time field (time = publication time) is
	 * "the requested aggregation time": both refusing and accepting such an otherwise acceptable reply are allowed */
	if (accept && S.have_cal && !S.sent_cal.cal_has_aggr) silent = 1;
	vf_outcome("ref:%s:%s", RNAME[reply], silent ? "statement-silent" : accept ? "acceptable" : "unacceptable");
	if (res == KSI_OK && ext != NULL) {
		unsigned char *raw = NULL;
		size_t rl = 0;
		vf_outcome("%s:success", what);
		if (!accept) vf_fail("success-on-unacceptable-reply", "%s: reply '%s' (sub %d, target %d, pubrec %d, source tail %d) must be refused but extending succeeded", what, RNAME[reply], sub, target, pubrec, src_tail);
		else if (KSI_Signature_serialize(ext, &raw, &rl) != KSI_OK) vf_fail("unserializable", "extended signature cannot be serialized");
		else {
			rsig got;
			rs_verdict v;
			rs_serialize(&expected, &rb);
			if (rs_parse(raw, rl, &got) != 0) vf_fail("result-not-wellformed", "extended signature not understood by the reference parser: %s", vf_hex(raw, rl));
			else {
				vbuf g;
				vb_init(&g);
				rs_serialize(&got, &g);
				/* compare the canonical re-serialization: same chains, new calendar chain, exactly the supplied record, no auth record */
				if (g.n != rb.n || memcmp(g.p, rb.p, g.n) != 0) vf_fail("result-differs", "extended signature differs from the reference result (got %zu bytes, expected %zu); has_pub=%d has_auth=%d", g.n, rb.n, got.has_pub, got.has_auth);
				rs_eval(&got, &v);
				if (v.violated | v.uncomputable) vf_fail("result-inconsistent", "extended signature violates 0x%x/0x%x", v.violated, v.uncomputable);
				vb_free(&g);
			}
			if (g_rec_first && iface == 0 && reply == R_CORRECT) {
				/* the result is extended once more (same target): again the reference result, and its bytes parse */
				KSI_Signature *ext2 = NULL;
				unsigned char *raw2 = NULL;
				size_t rl2 = 0;
				int r2 = KSI_Signature_extendTo(ext, ctx, to, &ext2);
				vf_count("impl_calls", 1);
				if (r2 != KSI_OK || ext2 == NULL) vf_fail("acceptable-reply-rejected", "%s: extending the extended signature once more (same target, correct reply) fails with 0x%x", what, r2);
				else if (KSI_Signature_serialize(ext2, &raw2, &rl2) != KSI_OK) vf_fail("unserializable", "twice extended signature cannot be serialized");
				else {
					rsig got2;
					vbuf g2;
					vb_init(&g2);
					if (rs_parse(raw2, rl2, &got2) != 0) vf_fail("result-not-wellformed", "%s: the signature extended twice is not a well-formed signature (%zu bytes; once extended: %zu)", what, rl2, rl);
					else { rs_serialize(&got2, &g2); if (g2.n != rb.n || memcmp(g2.p, rb.p, g2.n) != 0) vf_fail("result-differs", "%s: the signature extended twice differs from the reference result (%zu vs %zu bytes)", what, g2.n, rb.n); else vf_outcome("extended-twice:identical"); }
					vb_free(&g2);
				}
				KSI_free(raw2);
				KSI_Signature_free(ext2);
			}
		}
		KSI_free(raw);
	} else {
		vf_outcome("%s:error", what);
		if (res == KSI_OK) vf_fail("ok-without-signature", "KSI_OK but no extended signature");
		if (ext != NULL) vf_fail("error-with-signature", "error 0x%x but an extended signature was returned", res);
		if (accept && !silent) vf_fail("acceptable-reply-rejected", "%s: reply '%s' (target %d, pubrec %d, source tail %d, v%d) is acceptable but error 0x%x", what, RNAME[reply], target, pubrec, src_tail, version, res);
	}
	vf_obs("res=%x ext=%d", res, ext != NULL);
	/* the source is untouched in every case */
	if (KSI_Signature_serialize(sig, &after, &after_len) != KSI_OK || after_len != sb.n || memcmp(after, sb.p, sb.n) != 0)
		vf_fail("source-changed", "serialization of the source signature changed by extending (reply %s)", RNAME[reply]);
	KSI_free(after);
	KSI_Signature_free(ext); KSI_Signature_free(sig);
	KSI_PublicationRecord_free(pr);
	KSI_Integer_free(to);
	KSI_CTX_free(ctx);
	rp_req_free(&S.last); memset(&S.last, 0, sizeof S.last);
	vb_free(&sb); vb_free(&rb);
	if (vf_alloc_live != 0) { vf_fail("leak", "%ld SDK allocations live after the case", vf_alloc_live); vf_alloc_live = 0; }
}

/* the supplied publication record replaces whatever anchor the signature carried - also when KSI_Signature_replacePublicationRecord is
 * used on its own (e.g. to refresh the record of an earlier extension result from a newer publications file) */
static void part_replace(void) {
	int tail, nch, first, twice;
	for (tail = 1; tail <= 3; tail++) for (nch = 1; nch <= 2; nch++) for (first = 0; first < 2; first++) for (twice = 0; twice < 2; twice++) {
		KSI_CTX *ctx;
		rs_params p;
		rsig src, expected, got;
		vbuf sb, rb, g;
		KSI_Signature *sig = NULL, *cl = NULL, *back = NULL;
		KSI_PublicationRecord *pr = NULL;
		unsigned char root[RH_MAX_IMPRINT], *raw = NULL, *raw2 = NULL;
		size_t rl = 0, n1 = 0, n2 = 0;
		int i, res, round;
		if (!vf_case_begin("replace-record:tail%d:chains%d:%s:%s", tail, nch, first ? "record-first" : "record-last", twice ? "twice" : "once")) continue;
		ctx = ku_ctx();
		rs_default_params(&p);
		p.aggr_time = T0; p.pub_time = P0; p.tail = tail; p.nchains = nch;
		for (i = 0; i < nch; i++) { p.nlinks[i] = 1 + (i & 1); p.chain_alg[i] = RH_SHA256; p.link_desc[i][0] = (unsigned)(i & 1); p.link_desc[i][1] = 1; }
		rs_build(&src, &p);
		vb_init(&sb); vb_init(&rb); vb_init(&g);
		rs_serialize(&src, &sb);
		if (first) record_first(&sb);
		if (KSI_Signature_parse(ctx, sb.p, sb.n, &sig) != KSI_OK) vf_harness_error("source signature refused");
		if (rs_cal_root(&src, root, &rl) != 0) vf_harness_error("calendar root");
		expected = src;
		expected.has_auth = 0; expected.has_pub = 1; expected.pub_time = src.cal_pub_time; memcpy(expected.pub_hash, root, rl); expected.pub_hash_len = rl; expected.pub_nrefs = 1;
		for (round = 0; round <= twice; round++) {
			pr = make_pubrec(ctx, src.cal_pub_time, root, rl);
			res = KSI_Signature_replacePublicationRecord(sig, pr);
			vf_count("impl_calls", 1);
			if (res != KSI_OK) { vf_fail("replace-refused", "KSI_Signature_replacePublicationRecord (round %d) on a signature with %s refused a record that matches its calendar chain: 0x%x", round, tail == 1 ? "no anchor" : tail == 2 ? "a publication record" : "an authentication record", res); KSI_PublicationRecord_free(pr); break; }
		}
		if (res == KSI_OK) {
			if (KSI_Signature_serialize(sig, &raw, &n1) != KSI_OK) vf_fail("unserializable", "signature cannot be serialized after its publication record was replaced");
			else if (rs_parse(raw, n1, &got) != 0) vf_fail("result-not-wellformed", "after KSI_Signature_replacePublicationRecord on a signature with %s the serialized signature is not a well-formed signature (a former record left behind?): %zu bytes, source %zu bytes", tail == 1 ? "no anchor" : tail == 2 ? "a publication record" : "an authentication record", n1, sb.n);
			else {
				rs_verdict v;
				rs_serialize(&expected, &rb);
				rs_serialize(&got, &g);
				if (g.n != rb.n || memcmp(g.p, rb.p, g.n) != 0) vf_fail("result-differs", "after replacing the record the signature differs from the reference result (has_pub=%d has_auth=%d, %zu vs %zu bytes)", got.has_pub, got.has_auth, g.n, rb.n);
				rs_eval(&got, &v);
				if (v.violated | v.uncomputable) vf_fail("result-inconsistent", "signature with the replaced record violates 0x%x/0x%x", v.violated, v.uncomputable);
				/* the stored form is usable: it parses again and a clone serializes identically */
				res = KSI_Signature_parse(ctx, raw, n1, &back);
				if (res != KSI_OK) vf_fail("result-not-parsable", "the signature serialized after the replacement is refused by KSI_Signature_parse: 0x%x", res);
				res = KSI_Signature_clone(sig, &cl);
				if (res != KSI_OK || cl == NULL || KSI_Signature_serialize(cl, &raw2, &n2) != KSI_OK || n2 != n1 || memcmp(raw, raw2, n1) != 0) vf_fail("result-clone-differs", "clone of the signature with the replaced record: 0x%x, %zu vs %zu bytes", res, n2, n1);
				vf_outcome("replace-record:tail%d:ok", tail);
			}
		}
		KSI_free(raw); KSI_free(raw2);
		KSI_Signature_free(back); KSI_Signature_free(cl); KSI_Signature_free(sig);
		KSI_CTX_free(ctx);
		vb_free(&sb); vb_free(&rb); vb_free(&g);
		if (vf_alloc_live != 0) { vf_fail("leak", "%ld SDK allocations live after the case", vf_alloc_live); vf_alloc_live = 0; }
		vf_case_end(1);
	}
}

static void run(void) {
	int iface, tr, ver, tail, nch, target, pubrec, reply, sub;
	for (iface = 0; iface < (g_own_ctx ? 2 : 4); iface++) for (tr = 0; tr < 2; tr++) for (ver = 2; ver >= 1; ver--)
	for (tail = 0; tail <= 3; tail++) for (nch = 1; nch <= 2; nch++) for (target = 0; target < 4; target++) for (pubrec = 0; pubrec < 4; pubrec++)
	for (reply = 0; reply < R_NREPLY; reply++) {
		int nsub = (reply == R_STATUS || reply == R_ERROR_PDU) ? NSTATUS : reply == R_RIGHT_ALTERED ? 4 : reply == R_ERROR_WITH_RESPONSE ? 2 : 1;
		if (iface == 0 && pubrec != 0) continue;                 /* extendTo takes a time, not a record */
		if (iface != 0 && (target == 1 || target == 3)) continue; /* a record's time is its own target */
		if (iface != 0 && pubrec == 0 && target != 0) continue;
		if (nch == 2 && !(tail == 1 && VF_THOROUGH)) continue;
		if (iface == 3 && (ver == 1 || (!VF_THOROUGH && tr == 1))) continue;    /* HA service: PDU v2 (quick: TCP endpoints) */
		if (g_own_ctx && (tr != 0 || ver != 2 || nch != 1)) continue;
		if (ver == 1 && !(reply <= R_WRONG_ID || reply == R_OTHER_VERSION || reply == R_RIGHT_ALTERED || reply == R_NOSTATUS_WRONG_ID)) continue;
		if (!VF_THOROUGH) {
			if (tr == 1 && reply > R_WRONG_ID && reply != R_RIGHT_ALTERED) continue;
			if ((tail == 0 || tail == 2) && !(reply == R_CORRECT || reply == R_RIGHT_ALTERED || reply == R_OTHER_INPUT || reply == R_SHAPE || reply >= R_EXTRA_RIGHT_LOWEST)) continue;
		}
		for (sub = 0; sub < nsub; sub++) {
			if (!VF_THOROUGH && sub > 1 && !((reply == R_STATUS || reply == R_ERROR_PDU) && sub >= NSTATUS - 4)) continue;   /* quick: two ordinary codes and the four wider than 32 bits */
			if (g_own_ctx && sub > 0) continue;
			if (!vf_case_begin("ext%s:if%d:tr%d:v%d:tail%d:n%d:target%d:pr%d:%s:%d", g_own_ctx == 0 ? "" : g_own_ctx == 1 ? "-ctxfresh" : "-ctxused", iface, tr, ver, tail, nch, target, pubrec, RNAME[reply], sub)) continue;
			one_case(iface, tr, ver, tail, nch, target, pubrec, reply, sub);
			vf_case_end(1);
		}
	}
}

static void run_all(void) {
	int iface, tr, tail, target, pubrec;
	run();
	for (g_own_ctx = 1; g_own_ctx <= 2; g_own_ctx++) run();
	g_own_ctx = 0;
	/* sources whose record comes first */
	for (g_rec_first = 1; g_rec_first <= 2; g_rec_first++)
	for (iface = 0; iface < 3; iface++) for (tr = 0; tr < 2; tr++) for (tail = 2; tail <= 3; tail++) for (target = 0; target < 3; target += 2) for (pubrec = 0; pubrec < 2; pubrec++) {
		if (iface == 0 && pubrec != 0) continue;
		if (iface != 0 && pubrec == 0 && target != 0) continue;
		if (!vf_case_begin("ext-recfirst%d:if%d:tr%d:tail%d:target%d:pr%d", g_rec_first, iface, tr, tail, target, pubrec)) continue;
		one_case(iface, tr, 2, tail, 1, target, pubrec, R_CORRECT, 0);
		vf_outcome("source:record-first");
		vf_case_end(1);
	}
	g_rec_first = 0;
	part_replace();
}

int main(int argc, char **argv) {
	vf_driver d = {"C08", run_all};
	return vf_main(argc, argv, &d);
}
