/* C19 - a failed memory allocation yields an error, never a crash, leak or corruption.
 *
 * Exhaustive fault enumeration. For every operation of the catalogue below a counting run measures N, the number
 * of SDK allocations made by the part of the operation that runs under fault; then for every i in 1..N the
 * operation is re-run from an identical fresh state (new context, new fixtures, network simulation reset) with
 * allocation i failing; for small operations (N <= 60, thorough tier) also with every pair i < j failing.
 *
 * One operation = setup (fault-free) + run (SDK calls under fault, then fault off, then a canonical digest of what
 * the calls returned, then release of the returned objects) + g_close (frees the setup objects and the context).
 *
 * Oracle after each injected fault:
 *   - the process is still alive and the sanitizers are silent (a crash is reported by the runner with the case name)
 *   - the fault was really injected
 *   - the call reported an error, or it reported success and its digest equals the fault-free digest
 *   - a sentinel operation on the same context (parse + internal verification + serialization of a known good signature)
 *     gives the fault-free result
 *   - the same operation repeated on the same context and the same setup objects without a fault gives the fault-free
 *     return code and digest
 *   - after freeing everything, including the context, no SDK allocation is live
 */
#include "anchor_fix.h"
#include <ksi/net_async.h>
#include <ksi/net_ha.h>
#include <ksi/net_uri.h>
#include <ksi/signature_builder.h>
#include <ksi/tree_builder.h>
#include <ksi/blocksigner.h>
#include <ksi/hmac.h>
#include <ksi/impl/signature_impl.h>
#include <stdarg.h>

KSI_IMPORT_TLV_TEMPLATE(KSI_PublicationRecord);

#define A_LOGIN "c19-user"
#define A_KEY   "c19-key"
#define A_T0    1700000000ULL
#define A_P0    (A_T0 + 86400ULL * 3)
#define TCP_AGGR  "ksi+tcp://aggr.c19.test:3332"
#define HTTP_AGGR "ksi+http://aggr.c19.test:8080/gt-signingservice"
#define TCP_EXT   "ksi+tcp://ext.c19.test:3331"
#define HTTP_EXT  "ksi+http://ext.c19.test:8081/gt-extendingservice"

#define CHUNK 16                 /* fault indices per case */
#define PAIR_MAX_N 60
#define SINGLE_MAX 5000
#define QUICK_MAX 800

/* ------------------------------------------------------------------ fault control */
static long g_fault_n, g_fault_hits;
static int g_fault_is_off = 1;
static long cur_i, cur_j;
static const char *cur_op = "?";

static void fault_arm(long i, long j) {
	vf_alloc_reset();
	vf_alloc_fail_at = i;
	vf_alloc_fail_at2 = j;
	g_fault_is_off = 0;
}
/* end of the part of an operation that runs under fault; everything after it (digest, release) is fault-free */
static void fault_off(void) {
	if (g_fault_is_off) return;
	g_fault_is_off = 1;
	g_fault_n = vf_alloc_count;
	g_fault_hits = vf_alloc_failed;
	vf_alloc_fail_at = 0;
	vf_alloc_fail_at2 = 0;
}

static void failf(const char *cls, const char *fmt, ...) __attribute__((format(printf, 2, 3)));
static void failf(const char *cls, const char *fmt, ...) {
	char sig[160], d[1500];
	va_list ap;
	va_start(ap, fmt);
	vsnprintf(d, sizeof d, fmt, ap);
	va_end(ap);
	snprintf(sig, sizeof sig, "%s:%s", cls, cur_op);
	if (cur_j) vf_fail(sig, "operation %s, allocations %ld and %ld failing: %s", cur_op, cur_i, cur_j, d);
	else vf_fail(sig, "operation %s, allocation %ld failing: %s", cur_op, cur_i, d);
}

/* ------------------------------------------------------------------ digest of what an operation returned */
static vbuf OUT;
static void out_fmt(const char *fmt, ...) __attribute__((format(printf, 1, 2)));
static void out_fmt(const char *fmt, ...) {
	char b[600];
	va_list ap;
	va_start(ap, fmt);
	vsnprintf(b, sizeof b, fmt, ap);
	va_end(ap);
	vb_put(&OUT, b, strlen(b));
	vb_putc(&OUT, '|');
}
static void out_bytes(const void *p, size_t n) { out_fmt("%zu:", n); vb_put(&OUT, p, n); vb_putc(&OUT, '|'); }
static void out_sig(KSI_Signature *s) {
	unsigned char *raw = NULL;
	size_t n = 0;
	int rc;
	if (s == NULL) { out_fmt("sig:NULL"); return; }
	rc = KSI_Signature_serialize(s, &raw, &n);
	if (rc != KSI_OK) out_fmt("sig:unserializable:%x", rc);
	else out_bytes(raw, n);
	KSI_free(raw);
}
static void out_hash(const KSI_DataHash *h) {
	const unsigned char *p = NULL;
	size_t l = 0;
	if (h == NULL) { out_fmt("hash:NULL"); return; }
	if (KSI_DataHash_getImprint(h, &p, &l) != KSI_OK) { out_fmt("hash:unreadable"); return; }
	out_bytes(p, l);
}

/* ------------------------------------------------------------------ simulated services: honest aggregator + fixture extender / publications file */
static void aggr_handler(const unsigned char *req, size_t n, vbuf *resp, void *user) {
	rp_req r;
	rp_env e;
	rsig sig;
	vbuf body, payload;
	uint64_t level;
	if (n == 0 || rp_parse_request(req, n, RP_AGGR, &r) != 0) {
		if (n != 0) rp_req_free(&r);
		fx_handler(req, n, resp, user);
		return;
	}
	memset(&e, 0, sizeof e);
	e.version = r.version; e.kind = RP_AGGR; e.login = A_LOGIN; e.mac_alg = RH_SHA256; e.key = A_KEY; e.keylen = strlen(A_KEY);
	vb_init(&body); vb_init(&payload);
	if (r.has_conf_req && !r.has_req && r.version == 2) {
		rp_aggr_conf_payload(&payload, 17, 1, 400, 1024, "ksi+tcp://parent.c19.test:1");
		rp_wrap_response(resp, &e, payload.p, payload.n);
		vb_free(&body); vb_free(&payload);
		rp_req_free(&r);
		return;
	}
	if (!r.has_req || !r.has_hash) { vb_free(&body); vb_free(&payload); rp_req_free(&r); return; }
	level = r.has_level ? r.level : 0;
	if (level + 1 <= 255) {
		rp_aggregate(&sig, r.hash, r.hash_len, level, 3, 3, A_T0, A_P0);
		sig.ch[0].links[0].level_corr -= level;
		rp_sig_body(&sig, &body);
	}
	rp_aggr_resp_payload(&payload, e.version, r.req_id, 1, 0, NULL, body.p, body.n);
	if (r.has_conf_req && r.version == 2) rp_aggr_conf_payload(&payload, 17, 1, 400, 1024, "ksi+tcp://parent.c19.test:1");   /* request and configuration request in one PDU */
	rp_wrap_response(resp, &e, payload.p, payload.n);
	vb_free(&body); vb_free(&payload);
	rp_req_free(&r);
}
static void net_reset(void) {
	fx_server_install(FXE_CORRECT);          /* srv_install: sn_reset + fc_reset; fixed virtual clock */
	srv_handler = aggr_handler;
}

/* ------------------------------------------------------------------ fixtures */
/* signature forms: 0 no calendar, 1 calendar, 2 + publication, 3 + authentication record, 4 RFC3161 record, 5 metadata / legacy links */
#define NFORMS 6
static const char *FORMNAME[NFORMS] = {"nocal", "cal", "pub", "auth", "rfc3161", "meta"};
static void sig_model(int form, rsig *s) {
	rs_params p;
	fx_pki();
	rs_default_params(&p);
	p.nchains = 2; p.nlinks[0] = 2; p.nlinks[1] = 1; p.chain_alg[0] = p.chain_alg[1] = RH_SHA256;
	p.link_desc[0][0] = 0u | (3u << 3); p.link_desc[0][1] = 1u | (1u << 1); p.link_desc[1][0] = 1;
	p.aggr_time = FX_T0; p.pub_time = FX_P0;
	p.tail = form <= 3 ? form : 1;
	if (form == 4) { p.with_rfc3161 = 1; p.link_desc[0][0] = 0; }
	if (form == 5) { p.nlinks[0] = 3; p.link_desc[0][0] = 0u | (2u << 1); p.link_desc[0][1] = 1u | (3u << 1); p.link_desc[0][2] = 1u | (1u << 1); p.nlinks[1] = 2; p.link_desc[1][1] = 0u | (2u << 1); }
	rs_build(s, &p);
	if (form == 3) rk_sign_auth_record(s, &fx_auth_cert);
}
static void sig_bytes(int form, vbuf *out) {
	rsig s;
	sig_model(form, &s);
	rs_serialize(&s, out);
}

enum { P_INTERNAL = 0, P_CALENDAR, P_KEY, P_PUBFILE, P_USERPUB, P_GENERAL, P_NPOL };
static const char *PNAME[P_NPOL] = {"internal", "calendar", "key", "pubfile", "userpub", "general"};

typedef struct {
	KSI_CTX *ctx;
	/* setup objects (all optional) */
	KSI_VerificationContext vc; int have_vc;
	const KSI_Policy *policy;
	KSI_DataHash *doc;
	KSI_PublicationData *upd;
	KSI_PublicationsFile *pf;
	KSI_Signature *sig;
	KSI_PublicationRecord *pr;
	KSI_Integer *to;
	KSI_AsyncService *svc;
	KSI_TreeBuilder *tb; KSI_TreeLeafHandle *leaf[8];
	KSI_DataHash *dh[8];
	KSI_MetaData *md;
	KSI_OctetString *os;
	vbuf in, in2;
	char str[300];
	int level;
} G_t;
static G_t G;

static void g_close(void) {
	int i;
	if (G.have_vc) { G.vc.documentHash = NULL; KSI_VerificationContext_clean(&G.vc); }
	KSI_AsyncService_free(G.svc);
	for (i = 0; i < 8; i++) KSI_TreeLeafHandle_free(G.leaf[i]);
	KSI_TreeBuilder_free(G.tb);
	for (i = 0; i < 8; i++) KSI_DataHash_free(G.dh[i]);
	KSI_MetaData_free(G.md);
	KSI_OctetString_free(G.os);
	KSI_Integer_free(G.to);
	KSI_PublicationRecord_free(G.pr);
	KSI_DataHash_free(G.doc);
	KSI_PublicationData_free(G.upd);
	KSI_PublicationsFile_free(G.pf);
	KSI_Signature_free(G.sig);
	KSI_CTX_free(G.ctx);
	vb_free(&G.in); vb_free(&G.in2);
	memset(&G, 0, sizeof G);
}

static KSI_DataHash *mk_hash(unsigned seed) {
	unsigned char h[RH_MAX_IMPRINT];
	size_t hl = ref_fake_imprint(RH_SHA256, seed, h);
	KSI_DataHash *d = NULL;
	if (KSI_DataHash_fromImprint(G.ctx, h, hl, &d) != KSI_OK) vf_harness_error("fixture hash");
	return d;
}
static KSI_Signature *parse_fixture(const vbuf *b) {
	KSI_Signature *s = NULL;
	int rc = KSI_Signature_parseWithPolicy(G.ctx, b->p, b->n, KSI_VERIFICATION_POLICY_EMPTY, NULL, &s);
	if (rc != KSI_OK) vf_harness_error("fixture signature refused 0x%x (operation %s)", rc, cur_op);
	return s;
}
static KSI_MetaData *mk_meta(void) {
	/* the setters of KSI_MetaData take their own reference: the caller keeps and frees its objects */
	KSI_MetaData *m = NULL;
	KSI_Utf8String *s = NULL;
	KSI_Integer *n = NULL;
	if (KSI_MetaData_new(G.ctx, &m) != KSI_OK) vf_harness_error("metadata");
	if (KSI_Utf8String_new(G.ctx, "client-c19", 11, &s) != KSI_OK || KSI_MetaData_setClientId(m, s) != KSI_OK) vf_harness_error("client id");
	KSI_Utf8String_free(s); s = NULL;
	if (KSI_Utf8String_new(G.ctx, "machine", 8, &s) != KSI_OK || KSI_MetaData_setMachineId(m, s) != KSI_OK) vf_harness_error("machine id");
	KSI_Utf8String_free(s);
	if (KSI_Integer_new(G.ctx, 700, &n) != KSI_OK || KSI_MetaData_setSequenceNr(m, n) != KSI_OK) vf_harness_error("sequence nr");
	KSI_Integer_free(n);
	return m;
}
/* a publication record as a caller would hold it: parsed from TLV */
static KSI_PublicationRecord *mk_pubrec(uint64_t t, const unsigned char *h, size_t hl) {
	vbuf b, d;
	KSI_TLV *tlv = NULL;
	KSI_PublicationRecord *pr = NULL;
	vb_init(&b); vb_init(&d);
	rtlv_put_u64(&d, 0x02, t);
	rtlv_put(&d, 0x04, 0, 0, h, hl, 0);
	rtlv_put(&b, 0x10, 0, 0, d.p, d.n, 0);
	rtlv_put_str(&b, 0x09, "ref: c19 publication");
	rtlv_put_str(&b, 0x09, "ref: second reference");
	vb_reset(&d);
	rtlv_put(&d, 0x0803, 0, 0, b.p, b.n, 0);
	if (KSI_TLV_parseBlob(G.ctx, d.p, d.n, &tlv) != KSI_OK || KSI_PublicationRecord_new(G.ctx, &pr) != KSI_OK || KSI_TlvTemplate_extract(G.ctx, pr, tlv, KSI_TLV_TEMPLATE(KSI_PublicationRecord)) != KSI_OK) vf_harness_error("cannot build publication record");
	KSI_TLV_free(tlv);
	vb_free(&b); vb_free(&d);
	return pr;
}
/* publications file holding FX_PE, FX_P0 and FX_P1 of the calendar rooted at FXS.root, both certificates */
static void pubfile_bytes(vbuf *out) {
	uint64_t times[3] = {FX_P0, FX_P1, FX_HEAD};
	unsigned char hashes[3][RH_MAX_IMPRINT];
	size_t hlens[3];
	const rk_cert *certs[2] = {&fx_auth_cert, &fx_auth_cert_otherkey};
	int i;
	for (i = 0; i < 3; i++) fx_cal_root(FXS.root, FXS.root_len, times[i], hashes[i], &hlens[i]);
	fx_make_pubfile(out, 3, times, hashes, hlens, 2, certs, &fx_pub_signer);
}

/* the sentinel: a known good signature is parsed, internally verified and serialized again */
static vbuf SENT;
static const char *sentinel(KSI_CTX *ctx) {
	static char why[120];
	KSI_Signature *s = NULL;
	unsigned char *raw = NULL;
	size_t n = 0;
	int rc;
	why[0] = 0;
	if (SENT.n == 0) sig_bytes(3, &SENT);
	rc = KSI_Signature_parseWithPolicy(ctx, SENT.p, SENT.n, KSI_VERIFICATION_POLICY_INTERNAL, NULL, &s);
	if (rc != KSI_OK) snprintf(why, sizeof why, "parse + internal verification of a good signature failed with 0x%x", rc);
	else if ((rc = KSI_Signature_serialize(s, &raw, &n)) != KSI_OK) snprintf(why, sizeof why, "serialization of a good signature failed with 0x%x", rc);
	else if (n != SENT.n || memcmp(raw, SENT.p, n) != 0) snprintf(why, sizeof why, "good signature serialized to other bytes");
	KSI_free(raw);
	KSI_Signature_free(s);
	return why[0] ? why : NULL;
}

static int g_fail_line;
#define CK(x) do { res = (x); if (res != KSI_OK) { g_fail_line = __LINE__; goto done; } } while (0)

/* ================================================================== the catalogue */

/* ---- context */
static void su_none(int k) { (void)k; net_reset(); }
static int run_ctx_new(int k) {
	KSI_CTX *c = NULL;
	int res;
	(void)k;
	CK(KSI_CTX_new(&c));
done:
	fault_off();
	if (res == KSI_OK) { const char *w = sentinel(c); out_fmt("ctx:%s", w ? w : "usable"); }
	KSI_CTX_free(c);
	return res;
}
static int run_ctx_config(int k) {
	KSI_CTX *c = NULL;
	KSI_PKITruststore *pki = NULL;
	KSI_CertConstraint cc[2];
	int res;
	(void)k;
	memset(cc, 0, sizeof cc);
	cc[0].oid = KSI_CERT_EMAIL; cc[0].val = FX_EMAIL;
	CK(KSI_CTX_new(&c));
	CK(KSI_CTX_setAggregator(c, TCP_AGGR, A_LOGIN, A_KEY));
	CK(KSI_CTX_setExtender(c, HTTP_EXT, FX_LOGIN, FX_KEY));
	CK(KSI_CTX_setPublicationUrl(c, "http://pub.fx.test/ksi-publications.bin"));
	CK(KSI_CTX_setDefaultPubFileCertConstraints(c, cc));
	CK(KSI_PKITruststore_new(c, 0, &pki));
	CK(KSI_CTX_setPKITruststore(c, pki));
	pki = NULL;
	CK(KSI_CTX_setAggregator(c, HTTP_AGGR, A_LOGIN, A_KEY));      /* replaces the first client */
done:
	fault_off();
	if (res == KSI_OK) { const char *w = sentinel(c); out_fmt("ctx:%s", w ? w : "usable"); }
	KSI_PKITruststore_free(pki);
	KSI_CTX_free(c);
	return res;
}

/* ---- signature parsing */
/* k == 100: a signature whose calendar chain switches the hash algorithm (left links carrying SHA-512 and then SHA-256 imprints) */
static void mixed_calendar_bytes(vbuf *out) {
	rsig s;
	int i, nleft = 0;
	sig_model(2, &s);
	for (i = 0; i < s.ncal; i++) if (s.cal[i].is_left && nleft++ == 1) { rlink l; ref_link_imprint(&l, 1, RH_SHA512, 4711, 0); s.cal[i] = l; }
	if (nleft < 3) vf_harness_error("fixture calendar chain has %d left links, 3 needed", nleft);
	if (rs_fix(&s, RS_FIX_TAIL) != 0) vf_harness_error("fixture: mixed-algorithm calendar chain");
	rs_serialize(&s, out);
}
static void su_sigbytes(int k) {
	net_reset();
	G.ctx = ku_ctx();
	if (k == 100) mixed_calendar_bytes(&G.in);
	else sig_bytes(k % NFORMS, &G.in);
}
static int run_parse(int k) {
	KSI_Signature *s = NULL;
	int res;
	CK(KSI_Signature_parseWithPolicy(G.ctx, G.in.p, G.in.n, (k >= NFORMS && k != 100) ? KSI_VERIFICATION_POLICY_EMPTY : KSI_VERIFICATION_POLICY_INTERNAL, NULL, &s));
done:
	fault_off();
	if (res == KSI_OK) out_sig(s);
	else if (s != NULL) out_fmt("error-with-object");
	KSI_Signature_free(s);
	return res;
}

#define PSEUDO_INCONCLUSIVE 0x7fff0001
/* an asynchronous request that ends with a time-out although the simulated peer answers at once and every KSI_AsyncService_run
 * call returned KSI_OK: the reply (or the request) was lost silently inside the client - not an error report of the failed allocation */
static int g_async_timeout;
static int is_timeout_err(int e) { return e == KSI_NETWORK_RECIEVE_TIMEOUT || e == KSI_NETWORK_SEND_TIMEOUT || e == KSI_NETWORK_CONNECTION_TIMEOUT; }
static int g_inconclusive_code;
/* ---- verification under each policy: a world with an anchor matching the policy */
static void su_world(int pol) {
	vbuf sb, pf;
	rsig model;
	int form = pol == P_KEY ? 3 : (pol == P_PUBFILE || pol == P_USERPUB || pol == P_GENERAL) ? 2 : pol == P_CALENDAR ? 1 : 3;
	const unsigned char *dh;
	size_t dl;
	net_reset();
	fx_pki();
	G.ctx = fx_ctx(1, 0);
	sig_model(form, &model);
	vb_init(&sb); vb_init(&pf);
	rs_serialize(&model, &sb);
	G.sig = parse_fixture(&sb);
	rs_aggr_root(&model, 0, FXS.root, &FXS.root_len, NULL);
	KSI_VerificationContext_init(&G.vc, G.ctx);
	G.have_vc = 1;
	G.vc.signature = G.sig;
	rs_document_hash(&model, &dh, &dl);
	if (KSI_DataHash_fromImprint(G.ctx, dh, dl, &G.doc) != KSI_OK) vf_harness_error("document hash");
	G.vc.documentHash = G.doc;
	G.vc.docAggrLevel = 3;
	switch (pol) {
		case P_INTERNAL: G.policy = KSI_VERIFICATION_POLICY_INTERNAL; break;
		case P_CALENDAR: G.policy = KSI_VERIFICATION_POLICY_CALENDAR_BASED; break;
		case P_KEY: case P_PUBFILE: {
			uint64_t times[1] = {FX_P0};
			unsigned char hashes[1][RH_MAX_IMPRINT];
			size_t hlens[1];
			const rk_cert *certs[1] = {&fx_auth_cert};
			fx_cal_root(FXS.root, FXS.root_len, FX_P0, hashes[0], &hlens[0]);
			fx_make_pubfile(&pf, 1, times, hashes, hlens, 1, certs, &fx_pub_signer);
			if (KSI_PublicationsFile_parse(G.ctx, pf.p, pf.n, &G.pf) != KSI_OK) vf_harness_error("fixture publications file refused");
			G.vc.userPublicationsFile = G.pf;
			G.policy = pol == P_KEY ? KSI_VERIFICATION_POLICY_KEY_BASED : KSI_VERIFICATION_POLICY_PUBLICATIONS_FILE_BASED;
			break;
		}
		default:
			G.upd = fx_pubdata(G.ctx, model.pub_time, model.pub_hash, model.pub_hash_len);
			G.vc.userPublication = G.upd;
			G.policy = pol == P_USERPUB ? KSI_VERIFICATION_POLICY_USER_PUBLICATION_BASED : KSI_VERIFICATION_POLICY_GENERAL;
			break;
	}
	vb_free(&sb); vb_free(&pf);
}
static int run_verify(int pol) {
	KSI_PolicyVerificationResult *r = NULL;
	int res;
	(void)pol;
	CK(KSI_SignatureVerifier_verify(G.policy, &G.vc, &r));
done:
	fault_off();
	if (res == KSI_OK && r != NULL && r->finalResult.resultCode == KSI_VER_RES_NA) {
		/* "inconclusive" is how the verifier reports that it could not complete: counted as an error report, not as a result.
		 * (a FAIL verdict, i.e. "the signature is invalid", caused by an allocation failure is a wrong result) */
		res = PSEUDO_INCONCLUSIVE;
		g_inconclusive_code = (int)r->finalResult.errorCode;
		/* ... unless the verdict itself says that memory ran out: the library knew, and the documented way to say so is the return code
		 * (out of memory is on its list of fatal errors, which are returned and not turned into a verdict) */
		if (r->finalResult.status == KSI_OUT_OF_MEMORY) out_fmt("KSI_OK with an inconclusive verdict whose recorded status is KSI_OUT_OF_MEMORY");
	} else if (res == KSI_OK) { if (r) out_fmt("verdict:%d:%x", (int)r->finalResult.resultCode, (int)r->finalResult.errorCode); else out_fmt("verdict:none"); }
	KSI_PolicyVerificationResult_free(r);
	return res;
}
/* verification that is inconclusive without any fault, because the extender answers with an error status / not at all
 * (the verdict then carries a status message, which is copied into the result lists): k = policy | extender behaviour << 8.
 * The inconclusive verdict is the fault-free RESULT here */
static void su_world_ext(int k) {
	su_world(k & 0xff);
	FXS.ext_behaviour = k >> 8;
}
static int run_verify_na(int k) {
	KSI_PolicyVerificationResult *r = NULL;
	int res;
	(void)k;
	CK(KSI_SignatureVerifier_verify(G.policy, &G.vc, &r));
done:
	fault_off();
	if (res == KSI_OK) { if (r) out_fmt("verdict:%d:%x", (int)r->finalResult.resultCode, (int)r->finalResult.errorCode); else out_fmt("verdict:none"); }
	KSI_PolicyVerificationResult_free(r);
	return res;
}
/* verification with the context's own anchors: publications file over HTTP, extender over TCP */
static void su_verify_default(int k) {
	vbuf sb;
	rsig model;
	(void)k;
	net_reset();
	fx_pki();
	G.ctx = fx_ctx(1, 1);
	sig_model(2, &model);
	vb_init(&sb);
	rs_serialize(&model, &sb);
	G.sig = parse_fixture(&sb);
	rs_aggr_root(&model, 0, FXS.root, &FXS.root_len, NULL);
	pubfile_bytes(&FXS.pubfile);
	vb_free(&sb);
	{ const unsigned char *dh; size_t dl; rs_document_hash(&model, &dh, &dl); if (KSI_DataHash_fromImprint(G.ctx, dh, dl, &G.dh[0]) != KSI_OK) vf_harness_error("document hash"); }
}
static int run_verify_default(int k) {
	int res;
	if (k == 1) CK(KSI_Signature_verifyWithPolicy(G.sig, G.dh[0], 3, KSI_VERIFICATION_POLICY_INTERNAL, NULL));
	else if (k == 2) CK(KSI_verifyDataHash(G.ctx, G.sig, G.dh[0]));
	else CK(KSI_verifySignature(G.ctx, G.sig));
done:
	fault_off();
	if (res == KSI_OK) out_fmt("verified");
	return res;
}

/* ---- operations on a parsed signature */
static void su_sig(int form) {
	net_reset();
	G.ctx = ku_ctx();
	sig_bytes(form, &G.in);
	G.sig = parse_fixture(&G.in);
}
/* the same signature object after it has already answered the request once without a fault (objects that cache what they
 * build on first use are then in another state) */
static void su_sig_primed(int form) {
	KSI_HashChainLinkIdentityList *l = NULL;
	KSI_DataHash *ph = NULL;
	KSI_Utf8String *ps = NULL;
	KSI_LIST(KSI_Utf8String) *refs = NULL, *urls = NULL;
	time_t when = 0;
	unsigned char *raw = NULL;
	size_t n = 0;
	su_sig(form);
	if (KSI_Signature_getAggregationHashChainIdentity(G.sig, &l) != KSI_OK) vf_harness_error("priming: identity");
	KSI_HashChainLinkIdentityList_free(l);
	if (KSI_Signature_getPublicationInfo(G.sig, &ph, &ps, &when, &refs, &urls) == KSI_OK) { KSI_DataHash_free(ph); KSI_Utf8String_free(ps); KSI_Utf8StringList_free(refs); KSI_Utf8StringList_free(urls); }
	if (KSI_Signature_serialize(G.sig, &raw, &n) != KSI_OK) vf_harness_error("priming: serialize");
	KSI_free(raw);
}
static int run_serialize(int k) {
	unsigned char *raw = NULL;
	size_t n = 0;
	int res;
	(void)k;
	CK(KSI_Signature_serialize(G.sig, &raw, &n));
done:
	fault_off();
	if (res == KSI_OK) out_bytes(raw, n);
	KSI_free(raw);
	return res;
}
static int run_clone(int k) {
	KSI_Signature *c = NULL;
	int res;
	(void)k;
	CK(KSI_Signature_clone(G.sig, &c));
done:
	fault_off();
	if (res == KSI_OK) out_sig(c);
	KSI_Signature_free(c);
	return res;
}
static int run_identity(int k) {
	KSI_HashChainLinkIdentityList *l = NULL;
	size_t i;
	int res;
	(void)k;
	CK(KSI_Signature_getAggregationHashChainIdentity(G.sig, &l));
done:
	fault_off();
	if (res == KSI_OK) {
		out_fmt("n=%zu", KSI_HashChainLinkIdentityList_length(l));
		for (i = 0; i < KSI_HashChainLinkIdentityList_length(l); i++) {
			KSI_HashChainLinkIdentity *id = NULL;
			KSI_HashChainLinkIdentityType t = KSI_IDENTITY_TYPE_UNKNOWN;
			KSI_Utf8String *c = NULL;
			KSI_HashChainLinkIdentityList_elementAt(l, i, &id);
			KSI_HashChainLinkIdentity_getType(id, &t);
			KSI_HashChainLinkIdentity_getClientId(id, &c);
			out_fmt("%d:%s", (int)t, c ? KSI_Utf8String_cstr(c) : "(null)");
		}
	}
	KSI_HashChainLinkIdentityList_free(l);
	return res;
}
static int run_sig_getters(int k) {
	KSI_DataHash *doc = NULL, *ph = NULL;
	KSI_Integer *t = NULL;
	KSI_Utf8String *ps = NULL;
	KSI_LIST(KSI_Utf8String) *refs = NULL, *urls = NULL;
	time_t when = 0;
	int res;
	(void)k;
	CK(KSI_Signature_getDocumentHash(G.sig, &doc));                 /* borrowed */
	CK(KSI_Signature_getSigningTime(G.sig, &t));                    /* borrowed */
	CK(KSI_Signature_getPublicationInfo(G.sig, &ph, &ps, &when, &refs, &urls));   /* all to be freed by the caller */
done:
	fault_off();
	if (res == KSI_OK) {
		out_hash(doc); out_hash(ph);
		out_fmt("t=%llu pub=%s when=%lld refs=%zu urls=%zu", (unsigned long long)KSI_Integer_getUInt64(t), ps ? KSI_Utf8String_cstr(ps) : "(null)", (long long)when, KSI_Utf8StringList_length(refs), KSI_Utf8StringList_length(urls));
	}
	/* a failed call has nothing to hand out: a caller that follows the convention does not look at the outputs then */
	if (res != KSI_OK && (ph != NULL || ps != NULL || refs != NULL || urls != NULL))
		out_fmt("outputs set by the failed call: hash=%d string=%d refs=%d urls=%d", ph != NULL, ps != NULL, refs != NULL, urls != NULL);
	KSI_DataHash_free(ph);
	KSI_Utf8String_free(ps);
	KSI_Utf8StringList_free(refs);
	KSI_Utf8StringList_free(urls);
	return res;
}

/* ---- PDUs */
static void su_aggr_pdu(int k) {
	rp_env e;
	rsig sig;
	vbuf body, payload;
	unsigned char h[RH_MAX_IMPRINT];
	size_t hl = ref_fake_imprint(RH_SHA256, 11, h);
	(void)k;
	net_reset();
	G.ctx = ku_ctx();
	memset(&e, 0, sizeof e);
	e.version = 2; e.kind = RP_AGGR; e.login = A_LOGIN; e.mac_alg = RH_SHA256; e.key = A_KEY; e.keylen = strlen(A_KEY);
	vb_init(&body); vb_init(&payload);
	rp_aggregate(&sig, h, hl, 0, 3, 3, A_T0, A_P0);
	rp_sig_body(&sig, &body);
	rp_aggr_resp_payload(&payload, 2, 77, 1, 0, NULL, body.p, body.n);
	rp_aggr_conf_payload(&payload, 17, 1, 400, 1024, "ksi+tcp://parent.test:1");
	rp_wrap_response(&G.in, &e, payload.p, payload.n);
	vb_free(&body); vb_free(&payload);
}
static int run_aggr_pdu(int k) {
	KSI_AggregationPdu *pdu = NULL;
	KSI_AggregationResp *resp = NULL;
	KSI_SignatureBuilder *b = NULL;
	KSI_Signature *s = NULL;
	unsigned char *raw = NULL;
	size_t n = 0;
	int res;
	CK(KSI_AggregationPdu_parse(G.ctx, G.in.p, G.in.n, &pdu));
	CK(KSI_AggregationPdu_verify(pdu, A_KEY));
	if (k == 1) {
		/* response -> signature through the builder */
		CK(KSI_AggregationPdu_getResponse(pdu, &resp));
		CK(KSI_SignatureBuilder_openFromAggregationResp(resp, &b));
		CK(KSI_SignatureBuilder_close(b, 0, &s));
	}
done:
	fault_off();
	if (res == KSI_OK) {
		if (k == 1) out_sig(s);
		else { int rc = KSI_AggregationPdu_serialize(pdu, &raw, &n); if (rc == KSI_OK) out_bytes(raw, n); else out_fmt("unserializable:%x", rc); }
	}
	KSI_free(raw);
	KSI_Signature_free(s);
	KSI_SignatureBuilder_free(b);
	KSI_AggregationPdu_free(pdu);
	return res;
}
static void su_ext_pdu(int k) {
	rp_env e;
	rsig cal;
	vbuf calb, payload;
	unsigned char h[RH_MAX_IMPRINT];
	size_t hl = ref_fake_imprint(RH_SHA256, 12, h);
	(void)k;
	net_reset();
	G.ctx = ku_ctx();
	memset(&e, 0, sizeof e);
	e.version = 2; e.kind = RP_EXT; e.login = FX_LOGIN; e.mac_alg = RH_SHA256; e.key = FX_KEY; e.keylen = strlen(FX_KEY);
	vb_init(&calb); vb_init(&payload);
	rp_extend(&cal, h, hl, FX_T0, FX_P1);
	rs_serialize_cal(&cal, &calb);
	rp_ext_resp_payload(&payload, 2, 78, 1, 0, NULL, 1, FX_HEAD, calb.p, calb.n);
	rp_ext_conf_payload(&payload, 4, "ksi+tcp://parent.test:2", 1400000000, (int64_t)FX_HEAD);
	rp_wrap_response(&G.in, &e, payload.p, payload.n);
	vb_free(&calb); vb_free(&payload);
}
static int run_ext_pdu(int k) {
	KSI_ExtendPdu *pdu = NULL;
	unsigned char *raw = NULL;
	size_t n = 0;
	int res;
	(void)k;
	CK(KSI_ExtendPdu_parse(G.ctx, G.in.p, G.in.n, &pdu));
	CK(KSI_ExtendPdu_verify(pdu, FX_KEY));
done:
	fault_off();
	if (res == KSI_OK) { int rc = KSI_ExtendPdu_serialize(pdu, &raw, &n); if (rc == KSI_OK) out_bytes(raw, n); else out_fmt("unserializable:%x", rc); }
	KSI_free(raw);
	KSI_ExtendPdu_free(pdu);
	return res;
}

/* ---- request construction */
static void su_ctx_hash(int k) {
	(void)k;
	net_reset();
	G.ctx = ku_ctx();
	G.dh[0] = mk_hash(21);
}
/* the service is configured under the fault, then used without one: what was configured has to be what was asked for */
static int run_configure_sign(int k) {
	KSI_Signature *s = NULL;
	long sn0, fc0;
	int res;
	CK(KSI_CTX_setAggregator(G.ctx, k ? HTTP_AGGR : TCP_AGGR, A_LOGIN, A_KEY));
	fault_off();
	sn0 = sn_calls; fc0 = fc_calls;
	CK(KSI_Signature_signAggregated(G.ctx, G.dh[0], 0, &s));
done:
	fault_off();
	if (res == KSI_OK) { out_sig(s); out_fmt("transport:%s", sn_calls > sn0 ? "tcp" : fc_calls > fc0 ? "http" : "none"); }
	else if (s != NULL) out_fmt("error-with-object");
	KSI_Signature_free(s);
	return res;
}
static int run_sign_request(int k) {
	KSI_AggregationReq *req = NULL;
	KSI_AggregationPdu *pdu = NULL;
	KSI_Integer *id = NULL;
	unsigned char *raw = NULL;
	size_t n = 0;
	int res;
	(void)k;
	CK(KSI_createSignRequest(G.ctx, G.dh[0], 5, &req));
	CK(KSI_Integer_new(G.ctx, 0x1234, &id));
	CK(KSI_AggregationReq_setRequestId(req, id));
	id = NULL;
	CK(KSI_AggregationReq_enclose(req, A_LOGIN, A_KEY, &pdu));
	req = NULL;                                  /* taken over by the PDU on success */
	CK(KSI_AggregationPdu_serialize(pdu, &raw, &n));
done:
	fault_off();
	if (res == KSI_OK) {
		rp_req r;
		if (rp_parse_request(raw, n, RP_AGGR, &r) != 0) out_fmt("request:unparsable");
		else {
			out_fmt("request:v%d login=%s level=%llu mac=%d", r.version, r.login, (unsigned long long)(r.has_level ? r.level : 0), rp_request_mac_ok(&r, A_KEY, strlen(A_KEY)));
			out_bytes(r.hash, r.hash_len);
			rp_req_free(&r);
		}
	}
	KSI_free(raw);
	KSI_Integer_free(id);
	KSI_AggregationReq_free(req);
	KSI_AggregationPdu_free(pdu);
	return res;
}
static int run_extend_request(int k) {
	KSI_ExtendReq *req = NULL;
	KSI_ExtendPdu *pdu = NULL;
	KSI_Integer *a = NULL, *b = NULL, *id = NULL;
	unsigned char *raw = NULL;
	size_t n = 0;
	int res;
	(void)k;
	CK(KSI_Integer_new(G.ctx, FX_T0, &a));
	CK(KSI_Integer_new(G.ctx, FX_P1, &b));
	CK(KSI_createExtendRequest(G.ctx, a, b, &req));
	CK(KSI_Integer_new(G.ctx, 0x4321, &id));
	CK(KSI_ExtendReq_setRequestId(req, id));
	id = NULL;
	CK(KSI_ExtendReq_enclose(req, FX_LOGIN, FX_KEY, &pdu));
	req = NULL;
	CK(KSI_ExtendPdu_serialize(pdu, &raw, &n));
done:
	fault_off();
	if (res == KSI_OK) {
		rp_req r;
		if (rp_parse_request(raw, n, RP_EXT, &r) != 0) out_fmt("request:unparsable");
		else {
			out_fmt("request:v%d login=%s t=%llu p=%llu mac=%d", r.version, r.login, (unsigned long long)r.aggr_time, (unsigned long long)r.pub_time, rp_request_mac_ok(&r, FX_KEY, strlen(FX_KEY)));
			rp_req_free(&r);
		}
	}
	KSI_free(raw);
	KSI_Integer_free(a); KSI_Integer_free(b); KSI_Integer_free(id);
	KSI_ExtendReq_free(req);
	KSI_ExtendPdu_free(pdu);
	return res;
}

static int null_logger(void *c, int level, const char *msg) { (void)c; (void)level; (void)msg; return KSI_OK; }
/* ---- blocking signing (k bit 0: HTTP instead of TCP; bit 1: with level; bit 2: PDU version 1; bit 3: debug logging switched on; 16: configuration request) */
static void su_sign(int k) {
	net_reset();
	G.ctx = ku_ctx();
	if (KSI_CTX_setAggregator(G.ctx, (k & 1) ? HTTP_AGGR : TCP_AGGR, A_LOGIN, A_KEY) != KSI_OK) vf_harness_error("setAggregator");
	if (k & 4) KSI_CTX_setOption(G.ctx, KSI_OPT_AGGR_PDU_VER, (void *)(size_t)KSI_PDU_VERSION_1);
	if (k & 8) { KSI_CTX_setLoggerCallback(G.ctx, null_logger, NULL); KSI_CTX_setLogLevel(G.ctx, KSI_LOG_DEBUG); }
	G.dh[0] = mk_hash(31);
}
static int run_sign(int k) {
	KSI_Signature *s = NULL;
	KSI_Config *cfg = NULL;
	int res;
	if (k == 16) CK(KSI_receiveAggregatorConfig(G.ctx, &cfg));
	else CK(KSI_Signature_signAggregated(G.ctx, G.dh[0], (k & 2) ? 2 : 0, &s));
done:
	fault_off();
	if (res == KSI_OK && k == 16) {
		KSI_Integer *ml = NULL, *mr = NULL;
		KSI_LIST(KSI_Utf8String) *pu = NULL;
		KSI_Config_getMaxLevel(cfg, &ml); KSI_Config_getMaxRequests(cfg, &mr); KSI_Config_getParentUri(cfg, &pu);
		out_fmt("config:maxlevel=%llu maxreq=%llu parents=%zu", (unsigned long long)KSI_Integer_getUInt64(ml), (unsigned long long)KSI_Integer_getUInt64(mr), KSI_Utf8StringList_length(pu));
	} else if (res == KSI_OK) out_sig(s);
	else if (s != NULL) out_fmt("error-with-object");
	KSI_Config_free(cfg);
	KSI_Signature_free(s);
	return res;
}

/* ---- extending (k: 0 extendTo over TCP, 1 extend with a publication record over HTTP, 2 extendTo head over HTTP, 3 KSI_extendSignature: nearest publication
 * of the context's publications file (HTTP) through the TCP extender) */
static void su_extend(int k) {
	rsig model;
	vbuf sb;
	net_reset();
	fx_pki();
	if (k == 3) G.ctx = fx_ctx(1, 1);
	else {
		G.ctx = ku_ctx();
		if (KSI_CTX_setExtender(G.ctx, (k == 1 || k == 2) ? HTTP_EXT : TCP_EXT, FX_LOGIN, FX_KEY) != KSI_OK) vf_harness_error("setExtender");
		if (k == 4) KSI_CTX_setOption(G.ctx, KSI_OPT_EXT_PDU_VER, (void *)(size_t)KSI_PDU_VERSION_1);
	}
	sig_model(k == 1 ? 3 : 1, &model);
	vb_init(&sb);
	rs_serialize(&model, &sb);
	G.sig = parse_fixture(&sb);
	vb_free(&sb);
	rs_aggr_root(&model, 0, FXS.root, &FXS.root_len, NULL);
	if ((k == 0 || k == 4) && KSI_Integer_new(G.ctx, FX_P1, &G.to) != KSI_OK) vf_harness_error("integer");
	if (k == 1) {
		unsigned char h[RH_MAX_IMPRINT];
		size_t hl;
		fx_cal_root(FXS.root, FXS.root_len, FX_P1, h, &hl);
		G.pr = mk_pubrec(FX_P1, h, hl);
	}
	if (k == 3) pubfile_bytes(&FXS.pubfile);
}
static int run_extend(int k) {
	KSI_Signature *e = NULL;
	int res;
	if (k == 0 || k == 2 || k == 4) CK(KSI_Signature_extendTo(G.sig, G.ctx, G.to, &e));
	else if (k == 1) CK(KSI_Signature_extend(G.sig, G.ctx, G.pr, &e));
	else CK(KSI_extendSignature(G.ctx, G.sig, &e));
done:
	fault_off();
	if (res == KSI_OK) out_sig(e);
	else if (e != NULL) out_fmt("error-with-object");
	KSI_Signature_free(e);
	return res;
}

/* ---- tree builder */
static void su_tree(int k) {
	int i;
	(void)k;
	net_reset();
	G.ctx = ku_ctx();
	for (i = 0; i < 5; i++) G.dh[i] = mk_hash(40 + (unsigned)i);
	G.md = mk_meta();
}
static void out_chain(KSI_AggregationHashChain *c) {
	KSI_DataHash *root = NULL;
	int lvl = -1, rc;
	KSI_LIST(KSI_HashChainLink) *links = NULL;
	if (c == NULL) { out_fmt("chain:NULL"); return; }
	KSI_AggregationHashChain_getChain(c, &links);
	rc = KSI_AggregationHashChain_aggregate(c, 0, &lvl, &root);
	out_fmt("chain:links=%zu rc=%x level=%d", KSI_HashChainLinkList_length(links), rc, lvl);
	out_hash(root);
	KSI_DataHash_free(root);
}
static int run_tree(int k) {
	KSI_TreeBuilder *tb = NULL;
	KSI_TreeLeafHandle *leaf[8] = {NULL, NULL, NULL, NULL, NULL, NULL, NULL, NULL};
	KSI_AggregationHashChain *c1 = NULL, *c2 = NULL;
	int res, i, retried = 0;
	/* k == 1: a step that fails under the fault is repeated once, without a fault, on the SAME builder and the work goes on: the tree
	 * that comes out is the fault-free tree (a refused leaf leaves the builder as it was) */
#define STEP(x) do { res = (x); if (res != KSI_OK) { int first_ = res; if (k != 1 || retried) { g_fail_line = __LINE__; goto done; } retried = 1; fault_off(); res = (x); \
		if (res != KSI_OK) { failf("repeat-differs", "tree builder: a step failed with 0x%x under the fault; repeated on the same builder without a fault it fails with 0x%x", first_, res); g_fail_line = __LINE__; goto done; } } } while (0)
	CK(KSI_TreeBuilder_new(G.ctx, KSI_HASHALG_SHA2_256, &tb));
	for (i = 0; i < 3; i++) STEP(KSI_TreeBuilder_addDataHash(tb, G.dh[i], 0, &leaf[i]));
	STEP(KSI_TreeBuilder_addMetaData(tb, G.md, 0, &leaf[3]));
	STEP(KSI_TreeBuilder_addDataHash(tb, G.dh[3], 1, &leaf[4]));
	STEP(KSI_TreeBuilder_addDataHash(tb, G.dh[4], 0, &leaf[5]));
	if (k == 1) {
		/* two more leaves: the eighth node carries over three slots */
		STEP(KSI_TreeBuilder_addDataHash(tb, G.dh[0], 0, &leaf[6]));
		STEP(KSI_TreeBuilder_addDataHash(tb, G.dh[1], 0, &leaf[7]));
	}
	STEP(KSI_TreeBuilder_close(tb));
	STEP(KSI_TreeLeafHandle_getAggregationChain(leaf[1], &c1));
	STEP(KSI_TreeLeafHandle_getAggregationChain(leaf[3], &c2));
#undef STEP
done:
	fault_off();
	if (res == KSI_OK) { out_hash(tb->rootNode ? tb->rootNode->hash : NULL); out_chain(c1); out_chain(c2); }
	KSI_AggregationHashChain_free(c1); KSI_AggregationHashChain_free(c2);
	for (i = 0; i < 8; i++) KSI_TreeLeafHandle_free(leaf[i]);
	KSI_TreeBuilder_free(tb);
	return res;
}

/* ---- signature builder: local aggregation chain prepended to the signature of the local root */
static void su_builder(int k) {
	int i;
	const unsigned char *p = NULL;
	size_t l = 0;
	rsig rs;
	vbuf sb;
	net_reset();
	G.ctx = ku_ctx();
	if (k == 1) { sig_bytes(2, &G.in); G.sig = parse_fixture(&G.in); return; }
	if (k == 2 || k == 3) { sig_bytes(3, &G.in); G.sig = parse_fixture(&G.in); return; }
	for (i = 0; i < 3; i++) G.dh[i] = mk_hash(50 + (unsigned)i);
	if (KSI_TreeBuilder_new(G.ctx, KSI_HASHALG_SHA2_256, &G.tb) != KSI_OK) vf_harness_error("tree builder");
	for (i = 0; i < 3; i++) if (KSI_TreeBuilder_addDataHash(G.tb, G.dh[i], k == 4 ? 1 : 0, &G.leaf[i]) != KSI_OK) vf_harness_error("tree leaf");
	if (KSI_TreeBuilder_close(G.tb) != KSI_OK || G.tb->rootNode == NULL) vf_harness_error("tree close");
	if (KSI_DataHash_getImprint(G.tb->rootNode->hash, &p, &l) != KSI_OK) vf_harness_error("tree root");
	G.level = (int)G.tb->rootNode->level;
	rp_aggregate(&rs, p, l, (uint64_t)G.level, 3, 1, A_T0, A_P0);
	vb_init(&sb);
	rs_serialize(&rs, &sb);
	G.sig = parse_fixture(&sb);
	vb_free(&sb);
}
static int run_builder(int k) {
	KSI_SignatureBuilder *b = NULL;
	KSI_AggregationHashChain *c = NULL;
	KSI_Signature *s = NULL;
	int res;
	if (k == 1) {
		CK(KSI_SignatureBuilder_openFromSignature(G.sig, &b));
		CK(KSI_SignatureBuilder_close(b, 0, &s));
	} else if (k == 2 || k == 3) {
		/* a signature assembled from its parts; k == 3: a close that failed is repeated on the same builder without a fault */
		size_t i;
		CK(KSI_SignatureBuilder_open(G.ctx, &b));
		for (i = 0; i < KSI_AggregationHashChainList_length(G.sig->aggregationChainList); i++) {
			KSI_AggregationHashChain *ch = NULL;
			CK(KSI_AggregationHashChainList_elementAt(G.sig->aggregationChainList, i, &ch));
			CK(KSI_SignatureBuilder_addAggregationChain(b, ch));
		}
		CK(KSI_SignatureBuilder_setCalendarHashChain(b, G.sig->calendarChain));
		CK(KSI_SignatureBuilder_setCalendarAuthRecord(b, G.sig->calendarAuthRec));
		res = KSI_SignatureBuilder_close(b, 0, &s);
		if (res != KSI_OK && k == 3) {
			int first = res;
			fault_off();
			if (s != NULL) { out_fmt("error-with-object"); goto done; }
			res = KSI_SignatureBuilder_close(b, 0, &s);
			if (res != KSI_OK) { failf("repeat-differs", "KSI_SignatureBuilder_close failed with 0x%x under the fault; repeated on the same builder without a fault it fails with 0x%x", first, res); }
		}
		if (res != KSI_OK) { g_fail_line = __LINE__; goto done; }
	} else {
		CK(KSI_TreeLeafHandle_getAggregationChain(G.leaf[1], &c));
		CK(KSI_SignatureBuilder_openFromSignature(G.sig, &b));
		/* k == 4: the leaves sit at level 1, as the block signer does it: start level and root level are the leaf's level (the chain
		 * whose first link gets the level is then not the first chain element of the signature's stored form) */
		CK(KSI_SignatureBuilder_setAggregationChainStartLevel(b, k == 4 ? 1 : 0));
		CK(KSI_SignatureBuilder_appendAggregationChain(b, c));
		CK(KSI_SignatureBuilder_close(b, k == 4 ? 1 : 0, &s));
	}
done:
	fault_off();
	if (res == KSI_OK) out_sig(s);
	else if (s != NULL) out_fmt("error-with-object");
	KSI_Signature_free(s);
	KSI_SignatureBuilder_free(b);
	KSI_AggregationHashChain_free(c);
	return res;
}

/* ---- block signer over the simulated aggregator */
static void su_block(int k) {
	int i;
	net_reset();
	G.ctx = ku_ctx();
	if (KSI_CTX_setAggregator(G.ctx, TCP_AGGR, A_LOGIN, A_KEY) != KSI_OK) vf_harness_error("setAggregator");
	for (i = 0; i < 3; i++) G.dh[i] = mk_hash(60 + (unsigned)i);
	G.md = mk_meta();
	if (k == 1) {
		/* masking: previous leaf + initialisation vector */
		static const unsigned char iv[32] = {1, 2, 3, 4, 5, 6, 7, 8, 9, 10, 11, 12, 13, 14, 15, 16, 17, 18, 19, 20, 21, 22, 23, 24, 25, 26, 27, 28, 29, 30, 31, 32};
		G.dh[3] = mk_hash(69);
		if (KSI_OctetString_new(G.ctx, iv, sizeof iv, &G.os) != KSI_OK) vf_harness_error("octet string");
	}
}
static int run_block(int k) {
	KSI_BlockSigner *bs = NULL;
	KSI_BlockSignerHandle *h[3] = {NULL, NULL, NULL};
	KSI_Signature *s[3] = {NULL, NULL, NULL};
	KSI_DataHash *prev = NULL;
	int res, i;
	CK(KSI_BlockSigner_new(G.ctx, KSI_HASHALG_SHA2_256, k == 1 ? G.dh[3] : NULL, k == 1 ? G.os : NULL, &bs));
	CK(KSI_BlockSigner_addLeaf(bs, G.dh[0], 0, NULL, &h[0]));
	CK(KSI_BlockSigner_addLeaf(bs, G.dh[1], 0, G.md, &h[1]));
	CK(KSI_BlockSigner_addLeaf(bs, G.dh[2], 0, NULL, &h[2]));
	CK(KSI_BlockSigner_closeAndSign(bs));
	for (i = 0; i < 3; i++) CK(KSI_BlockSignerHandle_getSignature(h[i], &s[i]));
	CK(KSI_BlockSigner_getPrevLeaf(bs, &prev));          /* handed over to the caller */
done:
	fault_off();
	if (res == KSI_OK) { for (i = 0; i < 3; i++) out_sig(s[i]); out_hash(prev); }
	KSI_DataHash_free(prev);
	for (i = 0; i < 3; i++) { KSI_Signature_free(s[i]); KSI_BlockSignerHandle_free(h[i]); }
	KSI_BlockSigner_free(bs);
	return res;
}

/* the leaves of a masked block with meta-data only (no signing): few allocations, so every index is taken in both tiers */
static int run_block_leaves(int k) {
	KSI_BlockSigner *bs = NULL;
	KSI_BlockSignerHandle *h[4] = {NULL, NULL, NULL, NULL};
	KSI_DataHash *prev = NULL;
	int res, i;
	(void)k;
	CK(KSI_BlockSigner_new(G.ctx, KSI_HASHALG_SHA2_256, G.dh[3], G.os, &bs));
	CK(KSI_BlockSigner_addLeaf(bs, G.dh[0], 0, NULL, &h[0]));
	CK(KSI_BlockSigner_addLeaf(bs, G.dh[1], 0, G.md, &h[1]));
	CK(KSI_BlockSigner_addLeaf(bs, G.dh[2], 0, NULL, &h[2]));
	CK(KSI_BlockSigner_addLeaf(bs, G.dh[0], 0, G.md, &h[3]));
	CK(KSI_BlockSigner_getPrevLeaf(bs, &prev));
done:
	fault_off();
	if (res == KSI_OK) out_hash(prev);
	KSI_DataHash_free(prev);
	for (i = 0; i < 4; i++) KSI_BlockSignerHandle_free(h[i]);
	KSI_BlockSigner_free(bs);
	return res;
}

/* ---- asynchronous service. k bit 0: HTTP instead of TCP; bit 1: the service is a setup object that survives the failed call;
 * bit 2: high availability service with two endpoints (TCP + HTTP); bit 3: extending instead of signing */
static void su_async(int k) {
	net_reset();
	G.ctx = ku_ctx();
	if (k & 8) {
		rsig model;
		vbuf sb;
		sig_model(1, &model);
		vb_init(&sb);
		rs_serialize(&model, &sb);
		G.sig = parse_fixture(&sb);
		vb_free(&sb);
		rs_aggr_root(&model, 0, FXS.root, &FXS.root_len, NULL);
	}
	if (k & 2) {
		if (KSI_SigningAsyncService_new(G.ctx, &G.svc) != KSI_OK) vf_harness_error("async service");
		if (KSI_AsyncService_setEndpoint(G.svc, (k & 1) ? HTTP_AGGR : TCP_AGGR, A_LOGIN, A_KEY) != KSI_OK) vf_harness_error("async endpoint");
	}
}
static int run_async(int k) {
	KSI_AsyncService *svc = G.svc;
	KSI_AsyncHandle *hd = NULL, *mine = NULL, *out = NULL;
	KSI_DataHash *h = NULL;
	KSI_Signature *s = NULL;
	KSI_AggregationReq *mreq = NULL;
	KSI_Config *mcfg = NULL;
	unsigned char imp[RH_MAX_IMPRINT];
	size_t il = ref_fake_imprint(RH_SHA256, 71, imp);
	int res, i, state = 0, err = 0;
	if (svc == NULL) {
		if ((k & 8) && (k & 4)) {
			CK(KSI_ExtendingHighAvailabilityService_new(G.ctx, &svc));
			CK(KSI_AsyncService_addEndpoint(svc, HTTP_EXT, FX_LOGIN, FX_KEY));
			CK(KSI_AsyncService_addEndpoint(svc, TCP_EXT, FX_LOGIN, FX_KEY));
		} else if (k & 8) {
			CK(KSI_ExtendingAsyncService_new(G.ctx, &svc));
			CK(KSI_AsyncService_setEndpoint(svc, (k & 1) ? HTTP_EXT : TCP_EXT, FX_LOGIN, FX_KEY));
		} else if (k & 4) {
			CK(KSI_SigningHighAvailabilityService_new(G.ctx, &svc));
			CK(KSI_AsyncService_addEndpoint(svc, TCP_AGGR, A_LOGIN, A_KEY));
			CK(KSI_AsyncService_addEndpoint(svc, HTTP_AGGR, A_LOGIN, A_KEY));
		} else {
			CK(KSI_SigningAsyncService_new(G.ctx, &svc));
			CK(KSI_AsyncService_setEndpoint(svc, (k & 1) ? HTTP_AGGR : TCP_AGGR, A_LOGIN, A_KEY));
		}
	}
	if (k & 8) CK(KSI_AsyncExtendingHandle_new(G.ctx, G.sig, NULL, &hd));
	else if (k & 32) {
		/* one request that asks for a signature AND for the server's configuration */
		CK(KSI_DataHash_fromImprint(G.ctx, imp, il, &h));
		CK(KSI_AggregationReq_new(G.ctx, &mreq));
		CK(KSI_AggregationReq_setRequestHash(mreq, h));
		h = NULL;
		CK(KSI_Config_new(G.ctx, &mcfg));
		CK(KSI_AggregationReq_setConfig(mreq, mcfg));
		mcfg = NULL;
		CK(KSI_AsyncAggregationHandle_new(G.ctx, mreq, &hd));
		mreq = NULL;
	} else {
		CK(KSI_DataHash_fromImprint(G.ctx, imp, il, &h));
		CK(KSI_AsyncSigningHandle_new(G.ctx, h, 0, &hd));
		h = NULL;                                /* owned by the handle after a successful call */
	}
	CK(KSI_AsyncService_addRequest(svc, hd));
	mine = hd; hd = NULL;                        /* owned by the service after a successful call */
	for (i = 0; i < 90; i++) {
		size_t waiting = 0;
		out = NULL;
		CK(KSI_AsyncService_run(svc, &out, &waiting));
		if (out == mine) break;
		if (out != NULL) { KSI_AsyncHandle_free(out); out = NULL; continue; }   /* the left-over of an earlier failed attempt on a surviving service */
		sn_now += 1;
	}
	if (out == NULL) { g_async_timeout = -1; res = KSI_NETWORK_RECIEVE_TIMEOUT; goto done; }
	CK(KSI_AsyncHandle_getState(out, &state));
	CK(KSI_AsyncHandle_getError(out, &err));
	if (state == KSI_ASYNC_STATE_RESPONSE_RECEIVED) CK(KSI_AsyncHandle_getSignature(out, &s));
	else { res = err ? err : KSI_UNKNOWN_ERROR; if (is_timeout_err(err)) g_async_timeout = err; }
	if ((k & 16) && svc != G.svc) {
		/* releasing the handle and the service is part of what runs under the fault (release paths allocate too: recycle lists) */
		KSI_AsyncHandle_free(out); out = NULL;
		KSI_AsyncService_free(svc); svc = NULL;
	}
done:
	fault_off();
	if (res == KSI_OK) out_sig(s);
	else if (s != NULL) out_fmt("error-with-object");
	KSI_Signature_free(s);
	KSI_AsyncHandle_free(out);
	KSI_AsyncHandle_free(hd);
	KSI_DataHash_free(h);
	KSI_AggregationReq_free(mreq);
	KSI_Config_free(mcfg);
	if (svc != G.svc) KSI_AsyncService_free(svc);
	return res;
}

/* three requests in flight on one service (k: 0 TCP, 1 HTTP) */
static int run_async_multi(int k) {
	KSI_AsyncService *svc = NULL;
	KSI_AsyncHandle *hd = NULL, *out = NULL;
	KSI_DataHash *h = NULL;
	KSI_Signature *s[3] = {NULL, NULL, NULL};
	int res, i, added = 0, got = 0;
	CK(KSI_SigningAsyncService_new(G.ctx, &svc));
	CK(KSI_AsyncService_setEndpoint(svc, (k & 1) ? HTTP_AGGR : TCP_AGGR, A_LOGIN, A_KEY));
	CK(KSI_AsyncService_setOption(svc, KSI_ASYNC_OPT_REQUEST_CACHE_SIZE, (void *)(size_t)4));
	CK(KSI_AsyncService_setOption(svc, KSI_ASYNC_OPT_MAX_REQUEST_COUNT, (void *)(size_t)4));
	for (added = 0; added < 3; added++) {
		unsigned char imp[RH_MAX_IMPRINT];
		size_t il = ref_fake_imprint(RH_SHA256, 75 + (unsigned)added, imp);
		CK(KSI_DataHash_fromImprint(G.ctx, imp, il, &h));
		CK(KSI_AsyncSigningHandle_new(G.ctx, h, 0, &hd));
		h = NULL;
		CK(KSI_AsyncHandle_setRequestCtx(hd, (void *)(size_t)(added + 1), NULL));
		CK(KSI_AsyncService_addRequest(svc, hd));
		hd = NULL;
	}
	for (i = 0; i < 120 && got < 3; i++) {
		size_t waiting = 0;
		const void *tag = NULL;
		int state = 0, err = 0;
		out = NULL;
		CK(KSI_AsyncService_run(svc, &out, &waiting));
		if (out == NULL) { sn_now += 1; continue; }
		CK(KSI_AsyncHandle_getState(out, &state));
		CK(KSI_AsyncHandle_getError(out, &err));
		CK(KSI_AsyncHandle_getRequestCtx(out, &tag));
		if (state != KSI_ASYNC_STATE_RESPONSE_RECEIVED) { res = err ? err : KSI_UNKNOWN_ERROR; if (is_timeout_err(err)) g_async_timeout = err; goto done; }
		if ((size_t)tag < 1 || (size_t)tag > 3 || s[(size_t)tag - 1] != NULL) { res = KSI_INVALID_STATE; goto done; }
		CK(KSI_AsyncHandle_getSignature(out, &s[(size_t)tag - 1]));
		KSI_AsyncHandle_free(out); out = NULL;
		got++;
	}
	if (got < 3) { g_async_timeout = -1; res = KSI_NETWORK_RECIEVE_TIMEOUT; }
done:
	fault_off();
	if (res == KSI_OK) for (i = 0; i < 3; i++) out_sig(s[i]);
	for (i = 0; i < 3; i++) KSI_Signature_free(s[i]);
	KSI_AsyncHandle_free(out);
	KSI_AsyncHandle_free(hd);
	KSI_DataHash_free(h);
	KSI_AsyncService_free(svc);
	return res;
}

/* ---- publications file */
static void su_pubfile(int k) {
	unsigned char h[RH_MAX_IMPRINT];
	net_reset();
	fx_pki();
	G.ctx = fx_ctx(0, k == 3);
	FXS.root_len = ref_fake_imprint(RH_SHA256, 81, FXS.root);
	if (k == 3) pubfile_bytes(&FXS.pubfile);
	else pubfile_bytes(&G.in);
	if (k == 4) {
		/* the publications file is read through the file transport */
		static char path[300], uri[320];
		const char *vd = getenv("VERIF_DIR");
		FILE *f;
		snprintf(path, sizeof path, "%s/build/tmp", vd ? vd : "/verif");
		mkdir(path, 0777);
		snprintf(path, sizeof path, "%s/build/tmp/c19_pub_%ld.bin", vd ? vd : "/verif", (long)getpid());
		f = fopen(path, "wb");
		if (!f || fwrite(G.in.p, 1, G.in.n, f) != G.in.n) vf_harness_error("cannot write %s", path);
		fclose(f);
		snprintf(uri, sizeof uri, "file://%s", path);
		if (KSI_CTX_setPublicationUrl(G.ctx, uri) != KSI_OK) vf_harness_error("setPublicationUrl(file)");
	}
	if (k == 1 || k == 2) if (KSI_PublicationsFile_parse(G.ctx, G.in.p, G.in.n, &G.pf) != KSI_OK) vf_harness_error("fixture publications file refused");
	if (k == 2) {
		size_t hl;
		if (KSI_Integer_new(G.ctx, FX_P0 + 5, &G.to) != KSI_OK) vf_harness_error("integer");
		if (KSI_OctetString_new(G.ctx, fx_auth_cert.id, 4, &G.os) != KSI_OK) vf_harness_error("octet string");
		fx_cal_root(FXS.root, FXS.root_len, FX_P1, h, &hl);
		ref_pubstring(FX_P1, h, hl, G.str, sizeof G.str);
		G.pr = mk_pubrec(FX_P1, h, hl);
	}
}
static void out_pubrec(KSI_PublicationRecord *r) {
	KSI_PublicationData *pd = NULL;
	KSI_Integer *t = NULL;
	KSI_DataHash *h = NULL;
	if (r == NULL) { out_fmt("pubrec:NULL"); return; }
	KSI_PublicationRecord_getPublishedData(r, &pd);
	KSI_PublicationData_getTime(pd, &t);
	KSI_PublicationData_getImprint(pd, &h);
	out_fmt("pubrec:%llu", (unsigned long long)KSI_Integer_getUInt64(t));
	out_hash(h);
}
static int run_pubfile(int k) {
	KSI_PublicationsFile *pf = NULL;
	KSI_PublicationRecord *r1 = NULL, *r2 = NULL, *r3 = NULL, *r4 = NULL, *r5 = NULL, *r6 = NULL;
	KSI_PKICertificate *cert = NULL;
	unsigned char *der = NULL;
	size_t dl = 0;
	char *raw = NULL;
	size_t n = 0;
	int res;
	switch (k) {
		case 0:
			CK(KSI_PublicationsFile_parse(G.ctx, G.in.p, G.in.n, &pf));
			break;
		case 1:
			CK(KSI_PublicationsFile_verify(G.pf, G.ctx));
			break;
		case 2:
			CK(KSI_PublicationsFile_getPublicationDataByTime(G.pf, G.to, &r1));        /* not present: NULL */
			CK(KSI_PublicationsFile_getNearestPublication(G.pf, G.to, &r2));           /* a reference */
			CK(KSI_PublicationsFile_getLatestPublication(G.pf, G.to, &r3));            /* borrowed */
			CK(KSI_PublicationsFile_getPublicationDataByPublicationString(G.pf, G.str, &r4));   /* borrowed */
			CK(KSI_PublicationsFile_findPublication(G.pf, G.pr, &r5));                 /* a reference */
			CK(KSI_PublicationsFile_findPublicationByTime(G.pf, G.to, &r6));           /* a reference (none) */
			CK(KSI_PublicationsFile_getPKICertificateById(G.pf, G.os, &cert));         /* borrowed */
			CK(KSI_PKICertificate_serialize(cert, &der, &dl));
			break;
		default:
			CK(KSI_receivePublicationsFile(G.ctx, &pf));
			CK(KSI_verifyPublicationsFile(G.ctx, pf));
			break;
	}
done:
	fault_off();
	if (res == KSI_OK) {
		if (k == 0 || k == 3 || k == 4) {
			int rc = KSI_PublicationsFile_serialize(G.ctx, pf, &raw, &n);
			if (rc == KSI_OK) out_bytes(raw, n); else out_fmt("unserializable:%x", rc);
		} else if (k == 1) out_fmt("trusted");
		else { out_pubrec(r1); out_pubrec(r2); out_pubrec(r3); out_pubrec(r4); out_pubrec(r5); out_pubrec(r6); out_bytes(der, dl); }
	}
	KSI_free(raw);
	KSI_free(der);
	KSI_PublicationRecord_free(r2);
	KSI_PublicationRecord_free(r5);
	KSI_PublicationRecord_free(r6);
	KSI_PublicationsFile_free(pf);
	return res;
}

/* ---- publication strings */
static void su_pubstring(int k) {
	unsigned char h[RH_MAX_IMPRINT];
	size_t hl = ref_fake_imprint(RH_SHA256, 91, h);
	net_reset();
	G.ctx = ku_ctx();
	ref_pubstring(FX_P0, h, hl, G.str, sizeof G.str);
	if (k == 1) G.upd = fx_pubdata(G.ctx, FX_P0, h, hl);
}
static int run_pubstring(int k) {
	KSI_PublicationData *pd = NULL;
	char *s = NULL;
	int res;
	if (k == 0) CK(KSI_PublicationData_fromBase32(G.ctx, G.str, &pd));
	else CK(KSI_PublicationData_toBase32(G.upd, &s));
done:
	fault_off();
	if (res == KSI_OK) {
		if (k == 0) { KSI_Integer *t = NULL; KSI_DataHash *h = NULL; KSI_PublicationData_getTime(pd, &t); KSI_PublicationData_getImprint(pd, &h); out_fmt("t=%llu", (unsigned long long)KSI_Integer_getUInt64(t)); out_hash(h); }
		else out_fmt("%s", s ? s : "(null)");
	}
	KSI_free(s);
	KSI_PublicationData_free(pd);
	return res;
}

/* ---- TLV */
static int run_tlv(int k) {
	KSI_TLV *t = NULL, *c = NULL;
	KSI_LIST(KSI_TLV) *nested = NULL;
	unsigned char *raw = NULL;
	size_t n = 0, i, grand = 0;
	int res;
	(void)k;
	CK(KSI_TLV_parseBlob(G.ctx, G.in.p, G.in.n, &t));
	CK(KSI_TLV_getNestedList(t, &nested));
	for (i = 0; i < KSI_TLVList_length(nested); i++) {
		/* the composite children of a signature: aggregation chains, calendar chain, authentication record */
		KSI_TLV *ch = NULL;
		KSI_LIST(KSI_TLV) *sub = NULL;
		unsigned tag;
		CK(KSI_TLVList_elementAt(nested, i, &ch));
		tag = KSI_TLV_getTag(ch);
		if (tag == 0x801 || tag == 0x802 || tag == 0x805) { CK(KSI_TLV_getNestedList(ch, &sub)); grand += KSI_TLVList_length(sub); }
	}
	CK(KSI_TLV_clone(t, &c));
	CK(KSI_TLV_serialize(c, &raw, &n));
done:
	fault_off();
	if (res == KSI_OK) { out_fmt("children=%zu grandchildren=%zu", KSI_TLVList_length(nested), grand); out_bytes(raw, n); }
	KSI_free(raw);
	KSI_TLV_free(c);
	KSI_TLV_free(t);
	return res;
}

/* ---- lists */
static int cmp_int(const KSI_Integer **a, const KSI_Integer **b) {
	KSI_uint64_t x = KSI_Integer_getUInt64(*a), y = KSI_Integer_getUInt64(*b);
	return x < y ? -1 : x > y;
}
static int run_list(int k) {
	static const KSI_uint64_t V[] = {5005, 3003, 9009, 1001, 7007, 8008, 2002, 6006, 4004, 1500, 2500, 3500};
	KSI_LIST(KSI_Integer) *l = NULL;
	KSI_Integer *x = NULL, *el = NULL;
	size_t *pos = NULL, i, at = 0;
	int res, found = 0;
	(void)k;
	CK(KSI_IntegerList_new(&l));
	for (i = 0; i < sizeof V / sizeof *V; i++) {
		CK(KSI_Integer_new(G.ctx, V[i], &x));
		CK(KSI_IntegerList_append(l, x));
		x = NULL;
	}
	CK(KSI_Integer_new(G.ctx, 4242, &x));
	CK(KSI_IntegerList_insertAt(l, 2, x));
	x = NULL;
	CK(KSI_Integer_new(G.ctx, 4343, &x));
	CK(KSI_IntegerList_replaceAt(l, 4, x));
	x = NULL;
	CK(KSI_IntegerList_remove(l, 0, NULL));
	CK(KSI_IntegerList_remove(l, 1, &x));
	KSI_Integer_free(x); x = NULL;
	CK(KSI_IntegerList_sort(l, cmp_int));
	CK(KSI_IntegerList_elementAt(l, 3, &el));         /* borrowed */
	CK(KSI_IntegerList_indexOf(l, el, &pos));
	CK(KSI_IntegerList_find(l, el, &found, &at));
done:
	fault_off();
	if (res == KSI_OK) {
		out_fmt("len=%zu pos=%zu found=%d at=%zu", KSI_IntegerList_length(l), pos ? *pos : (size_t)-1, found, at);
		for (i = 0; i < KSI_IntegerList_length(l); i++) { KSI_Integer *e = NULL; KSI_IntegerList_elementAt(l, i, &e); out_fmt("%llu", (unsigned long long)KSI_Integer_getUInt64(e)); }
	}
	KSI_free(pos);
	KSI_Integer_free(x);
	KSI_IntegerList_free(l);
	return res;
}
/* ---- hashing */
static int run_hasher(int k) {
	KSI_DataHasher *hr = NULL;
	KSI_DataHash *h1 = NULL, *h2 = NULL, *h3 = NULL;
	int res;
	(void)k;
	CK(KSI_DataHasher_open(G.ctx, KSI_HASHALG_SHA2_256, &hr));
	CK(KSI_DataHasher_add(hr, "hello ", 6));
	CK(KSI_DataHasher_addImprint(hr, G.dh[0]));
	CK(KSI_DataHasher_close(hr, &h1));
	CK(KSI_DataHasher_reset(hr));
	CK(KSI_DataHasher_add(hr, "world", 5));
	CK(KSI_DataHasher_close(hr, &h2));
	CK(KSI_DataHash_create(G.ctx, "abc", 3, KSI_HASHALG_SHA2_512, &h3));
done:
	fault_off();
	if (res == KSI_OK) { out_hash(h1); out_hash(h2); out_hash(h3); }
	KSI_DataHash_free(h1); KSI_DataHash_free(h2); KSI_DataHash_free(h3);
	KSI_DataHasher_free(hr);
	return res;
}
static int run_hmac(int k) {
	KSI_DataHash *h1 = NULL, *h2 = NULL;
	KSI_HmacHasher *hh = NULL;
	int res;
	(void)k;
	CK(KSI_HMAC_create(G.ctx, KSI_HASHALG_SHA2_256, "secret", (const unsigned char *)"message", 7, &h1));
	CK(KSI_HmacHasher_open(G.ctx, KSI_HASHALG_SHA2_512, "another key", &hh));
	CK(KSI_HmacHasher_add(hh, "mes", 3));
	CK(KSI_HmacHasher_add(hh, "sage", 4));
	CK(KSI_HmacHasher_close(hh, &h2));
done:
	fault_off();
	if (res == KSI_OK) { out_hash(h1); out_hash(h2); }
	KSI_DataHash_free(h1); KSI_DataHash_free(h2);
	KSI_HmacHasher_free(hh);
	return res;
}

typedef struct {
	const char *name;
	void (*setup)(int);
	int (*run)(int);
	int k;
} op_t;

static const op_t OPS[] = {
	{"ctx-new-free", su_none, run_ctx_new, 0},
	{"ctx-configure", su_none, run_ctx_config, 0},
	{"parse-sig-nocal", su_sigbytes, run_parse, 0},
	{"parse-sig-cal", su_sigbytes, run_parse, 1},
	{"parse-sig-pub", su_sigbytes, run_parse, 2},
	{"parse-sig-auth", su_sigbytes, run_parse, 3},
	{"parse-sig-rfc3161", su_sigbytes, run_parse, 4},
	{"parse-sig-meta", su_sigbytes, run_parse, 5},
	{"parse-sig-calendar-switching-algorithms", su_sigbytes, run_parse, 100},
	{"parse-empty-nocal", su_sigbytes, run_parse, 6},
	{"parse-empty-cal", su_sigbytes, run_parse, 7},
	{"parse-empty-pub", su_sigbytes, run_parse, 8},
	{"parse-empty-auth", su_sigbytes, run_parse, 9},
	{"parse-empty-rfc3161", su_sigbytes, run_parse, 10},
	{"parse-empty-meta", su_sigbytes, run_parse, 11},
	{"verify-internal", su_world, run_verify, P_INTERNAL},
	{"verify-calendar", su_world, run_verify, P_CALENDAR},
	{"verify-key", su_world, run_verify, P_KEY},
	{"verify-pubfile", su_world, run_verify, P_PUBFILE},
	{"verify-userpub", su_world, run_verify, P_USERPUB},
	{"verify-general", su_world, run_verify, P_GENERAL},
	{"verify-calendar-extender-error", su_world_ext, run_verify_na, P_CALENDAR | (FXE_ERROR_STATUS << 8)},
	{"verify-calendar-extender-silent", su_world_ext, run_verify_na, P_CALENDAR | (FXE_NO_REPLY << 8)},
	{"verify-general-extender-error", su_world_ext, run_verify_na, P_GENERAL | (FXE_ERROR_STATUS << 8)},
	{"verify-default-ctx", su_verify_default, run_verify_default, 0},
	{"verify-helper-internal", su_verify_default, run_verify_default, 1},
	{"verify-datahash-ctx", su_verify_default, run_verify_default, 2},
	{"sig-serialize", su_sig, run_serialize, 3},
	{"sig-clone", su_sig, run_clone, 3},
	{"sig-clone-rfc3161", su_sig, run_clone, 4},
	{"sig-identity", su_sig, run_identity, 5},
	{"sig-getters", su_sig, run_sig_getters, 2},
	{"sig-identity-second-request", su_sig_primed, run_identity, 5},
	{"sig-getters-second-request", su_sig_primed, run_sig_getters, 2},
	{"sig-serialize-second-request", su_sig_primed, run_serialize, 3},
	{"sig-clone-second-request", su_sig_primed, run_clone, 5},
	{"aggr-pdu-parse", su_aggr_pdu, run_aggr_pdu, 0},
	{"aggr-resp-to-signature", su_aggr_pdu, run_aggr_pdu, 1},
	{"ext-pdu-parse", su_ext_pdu, run_ext_pdu, 0},
	{"configure-tcp-then-sign", su_ctx_hash, run_configure_sign, 0},
	{"configure-http-then-sign", su_ctx_hash, run_configure_sign, 1},
	{"sign-request-build", su_ctx_hash, run_sign_request, 0},
	{"extend-request-build", su_ctx_hash, run_extend_request, 0},
	{"sign-tcp", su_sign, run_sign, 0},
	{"sign-http", su_sign, run_sign, 1},
	{"sign-level-tcp", su_sign, run_sign, 2},
	{"sign-tcp-pdu-v1", su_sign, run_sign, 4},
	{"sign-http-logging", su_sign, run_sign, 9},
	{"aggregator-config-tcp", su_sign, run_sign, 16},
	{"extend-to-tcp", su_extend, run_extend, 0},
	{"extend-pubrec-http", su_extend, run_extend, 1},
	{"extend-head-http", su_extend, run_extend, 2},
	{"extend-nearest-ctx", su_extend, run_extend, 3},
	{"extend-to-tcp-pdu-v1", su_extend, run_extend, 4},
	{"tree-builder", su_tree, run_tree, 0},
	{"tree-builder-retry-step", su_tree, run_tree, 1},
	{"builder-append-chain", su_builder, run_builder, 0},
	{"builder-append-chain-leaf-level-1", su_builder, run_builder, 4},
	{"builder-reclose", su_builder, run_builder, 1},
	{"builder-from-parts", su_builder, run_builder, 2},
	{"builder-from-parts-retry-close", su_builder, run_builder, 3},
	{"block-signer", su_block, run_block, 0},
	{"block-signer-masked", su_block, run_block, 1},
	{"block-signer-masked-leaves-only", su_block, run_block_leaves, 1},
	{"async-sign-tcp", su_async, run_async, 0},
	{"async-sign-http", su_async, run_async, 1},
	{"async-sign-tcp-kept-service", su_async, run_async, 2},
	{"async-sign-http-kept-service", su_async, run_async, 3},
	{"ha-sign-2-endpoints", su_async, run_async, 4},
	{"async-extend-tcp", su_async, run_async, 8},
	{"async-extend-http", su_async, run_async, 9},
	{"ha-extend-2-endpoints", su_async, run_async, 12},
	{"async-sign-with-config-request-tcp", su_async, run_async, 32},
	{"async-sign-with-config-request-http", su_async, run_async, 33},
	{"async-sign-tcp-release-under-fault", su_async, run_async, 16},
	{"async-sign-http-release-under-fault", su_async, run_async, 17},
	{"ha-sign-2-endpoints-release-under-fault", su_async, run_async, 20},
	{"ha-extend-2-endpoints-release-under-fault", su_async, run_async, 28},
	{"async-sign-tcp-3-requests", su_async, run_async_multi, 0},
	{"async-sign-http-3-requests", su_async, run_async_multi, 1},
	{"pubfile-parse", su_pubfile, run_pubfile, 0},
	{"pubfile-verify", su_pubfile, run_pubfile, 1},
	{"pubfile-lookups", su_pubfile, run_pubfile, 2},
	{"pubfile-receive-verify", su_pubfile, run_pubfile, 3},
	{"pubfile-receive-file-uri", su_pubfile, run_pubfile, 4},
	{"pubstring-from-base32", su_pubstring, run_pubstring, 0},
	{"pubstring-to-base32", su_pubstring, run_pubstring, 1},
	{"tlv-parse-clone-serialize", su_sigbytes, run_tlv, 3},
	{"list-typed", su_ctx_hash, run_list, 0},
	{"data-hasher", su_ctx_hash, run_hasher, 0},
	{"hmac", su_ctx_hash, run_hmac, 0},
};
#define NOPS ((int)(sizeof OPS / sizeof *OPS))

/* ================================================================== engine */
typedef struct { int rc; long n, hits; vbuf out; } runres;
typedef struct { long N; int rc; vbuf out; long stride; int measured; } base_t;
static base_t BASE[sizeof OPS / sizeof *OPS];

static void do_run(const op_t *op, long i, long j, runres *r) {
	vb_reset(&OUT);
	g_fault_n = g_fault_hits = 0;
	fault_arm(i, j);
	r->rc = op->run(op->k);
	fault_off();
	r->n = g_fault_n; r->hits = g_fault_hits;
	vb_reset(&r->out);
	vb_putvb(&r->out, &OUT);
}
static int same(const runres *r, const base_t *b) { return r->rc == b->rc && r->out.n == b->out.n && (r->out.n == 0 || memcmp(r->out.p, b->out.p, r->out.n) == 0); }

/* printable, terminated prefix of a digest (messages only) */
static const char *dig(const vbuf *b) {
	static char t[2][140];
	static int k;
	char *o = t[k++ & 1];
	size_t i, n = b->n < 120 ? b->n : 120;
	for (i = 0; i < n; i++) o[i] = (b->p[i] >= 32 && b->p[i] < 127) ? (char)b->p[i] : '.';
	o[n] = 0;
	return o;
}

/* fault-free run from a fresh state: N, return code and digest; also checks that the harness itself is sound for this operation */
static void fresh_run(const op_t *op, runres *r, runres *rep) {
	const char *w;
	cur_op = op->name; cur_i = cur_j = 0;
	if (vf_alloc_live != 0) vf_harness_error("%ld SDK allocations live before operation %s", vf_alloc_live, op->name);
	op->setup(op->k);
	do_run(op, 0, 0, r);
	if (G.ctx && (w = sentinel(G.ctx)) != NULL) vf_harness_error("operation %s: sentinel fails without any fault: %s", op->name, w);
	if (r->rc != KSI_OK && G.ctx && getenv("C19_DEBUG")) { fprintf(stderr, "%s: failed at source line %d\n", op->name, g_fail_line); KSI_ERR_statusDump(G.ctx, stderr); }
	do_run(op, 0, 0, rep);
	g_close();
	if (vf_alloc_live != 0) vf_harness_error("operation %s leaves %ld SDK allocations live without any fault (harness or fault-free leak)", op->name, vf_alloc_live);
}
static void measure(int o) {
	const op_t *op = &OPS[o];
	base_t *b = &BASE[o];
	runres r, rep;
	int pass;
	long cap = VF_THOROUGH ? SINGLE_MAX : QUICK_MAX;
	memset(&r, 0, sizeof r); memset(&rep, 0, sizeof rep);
	for (pass = 0; pass < 3; pass++) {           /* pass 0 warms up one-time initialisations, 1 measures, 2 confirms */
		fresh_run(op, &r, &rep);
		if (pass == 1) { b->N = r.n; b->rc = r.rc; vb_reset(&b->out); vb_putvb(&b->out, &r.out); }
		if (pass == 2 && (r.n != b->N || !same(&r, b))) vf_harness_error("operation %s is not deterministic: N %ld vs %ld, rc 0x%x vs 0x%x", op->name, r.n, b->N, r.rc, b->rc);
	}
	if (b->rc != KSI_OK) {
		/* nothing to compare a faulted run with: the operation is left out, the others are still enumerated */
		vf_soft_error("operation %s fails without any fault: 0x%x (digest %s)", op->name, b->rc, dig(&b->out));
		b->measured = -1; b->N = 0;
		vb_free(&r.out); vb_free(&rep.out);
		return;
	}
	if (!same(&rep, b)) vf_harness_error("operation %s is not repeatable on the same context without a fault: rc 0x%x vs 0x%x, digest %zu vs %zu bytes", op->name, rep.rc, b->rc, rep.out.n, b->out.n);
	if (b->N <= 0) vf_harness_error("operation %s makes no SDK allocation", op->name);
	b->stride = (b->N + cap - 1) / cap;
	if (b->stride < 1) b->stride = 1;
	b->measured = 1;
	vb_free(&r.out); vb_free(&rep.out);
}

/* one injection: allocation i (and j, 0 = none) of the operation fails */
static void inject(int o, long i, long j) {
	const op_t *op = &OPS[o];
	const base_t *b = &BASE[o];
	static runres r, rep;
	const char *w;
	const char *tag = j ? "fault2" : "fault";
	int easy_before = fc_easy_live;
	cur_op = op->name; cur_i = i; cur_j = j;
	if (vf_replaying()) fprintf(stderr, "[C19] %s: failing allocation %ld (second fault: %ld) of %ld\n", op->name, i, j, b->N);
	op->setup(op->k);
	g_async_timeout = 0;
	do_run(op, i, j, &r);
	vf_count("impl_calls", 1);
	if (g_async_timeout) failf("lost-in-async-processing", "every KSI_AsyncService_run call returned KSI_OK and the peer answered at once, but a request %s: the failed allocation was swallowed and the request or its reply was dropped",
	                           g_async_timeout < 0 ? "was never handed back within 90 rounds / 90 virtual seconds" : g_async_timeout == KSI_NETWORK_RECIEVE_TIMEOUT ? "ended with a receive time-out" : "ended with a send / connection time-out");
	if (r.hits == 0) failf("fault-not-injected", "the operation made only %ld allocations (counting run: %ld)", r.n, b->N);
	if (r.rc == KSI_OK) {
		vf_outcome("%s:success-inessential", tag);
		vf_outcome("op:%s:success-inessential", op->name);
		if (!same(&r, b)) failf("wrong-result", "the call reported success but its result differs from the fault-free result (%zu vs %zu digest bytes): %s", r.out.n, b->out.n, dig(&r.out));
	} else {
		vf_outcome("%s:error-returned", tag);
		vf_outcome("op:%s:error-returned", op->name);
		vf_outcome(r.rc == KSI_OUT_OF_MEMORY ? "error-code:out-of-memory" : r.rc == PSEUDO_INCONCLUSIVE ? "error-code:verdict-inconclusive" : "error-code:other");
		if (r.rc == PSEUDO_INCONCLUSIVE) vf_obs("na:%x", g_inconclusive_code);
		if (r.out.n != 0) failf("error-with-result", "the call reported error 0x%x and still handed out a result: %s", r.rc, dig(&r.out));
	}
	vf_obs("%ld:%ld:%x:%ld", i, j, r.rc, r.hits);
	/* the context is still usable */
	if (G.ctx && (w = sentinel(G.ctx)) != NULL) failf("sentinel", "after the failed call (0x%x) the context is damaged: %s", r.rc, w);
	/* the same operation again on the same context and setup objects, no fault */
	do_run(op, 0, 0, &rep);
	if (!same(&rep, b)) failf("repeat-differs", "repeated without a fault on the same context after the faulted call (0x%x): rc 0x%x (fault-free 0x%x), digest %zu bytes (fault-free %zu)", r.rc, rep.rc, b->rc, rep.out.n, b->out.n);
	g_close();
	if (vf_alloc_live != 0) {
		failf("leak", "%ld SDK allocation(s) still live after freeing every object and the context (faulted call returned 0x%x)", vf_alloc_live, r.rc);
		vf_alloc_live = 0;
	}
	/* transfer handles of the HTTP library are resources of the SDK as well */
	if (fc_easy_live != easy_before) failf("leak-http-handle", "%d libcurl easy handle(s) not cleaned up after freeing every object and the context", fc_easy_live - easy_before);
}

/* at the start of every case: the operation still behaves as in the counting run of the enumeration */
static void confirm_baseline(int o) {
	static runres r, rep;
	fresh_run(&OPS[o], &r, &rep);
	if (r.n != BASE[o].N || !same(&r, &BASE[o])) vf_harness_error("operation %s: counting run inside the case differs from the enumeration's (N %ld vs %ld, rc 0x%x vs 0x%x)", OPS[o].name, r.n, BASE[o].N, r.rc, BASE[o].rc);
}

static void run(void) {
	int o;
	const char *only = getenv("C19_ONLY");
	for (o = 0; o < NOPS; o++) {
		const op_t *op = &OPS[o];
		base_t *b = &BASE[o];
		long lo, i, j, width;
		if (only && strcmp(only, op->name) != 0) continue;
		if (!b->measured) measure(o);
		if (b->measured < 0) continue;
		if (getenv("C19_LIST")) fprintf(stderr, "%-32s N=%ld stride=%ld\n", op->name, b->N, b->stride);
		width = CHUNK * b->stride;
		for (lo = 1; lo <= b->N; lo += width) {
			long hi = lo + width - 1 < b->N ? lo + width - 1 : b->N;
			int ok;
			if (b->stride > 1) ok = vf_case_begin("op:%s:i%ld-%ld:s%ld", op->name, lo, hi, b->stride);
			else ok = vf_case_begin("op:%s:i%ld-%ld", op->name, lo, hi);
			if (!ok) continue;
			if (lo == 1) {
				vf_count("operations", 1);
				vf_max("max_allocs", b->N);
				{ char key[56]; snprintf(key, sizeof key, "N_%s", op->name); vf_max(key, b->N); }
				vf_sample("op:%s:N=%ld stride=%ld", op->name, b->N, b->stride);
				if (b->stride > 1) {
					vf_outcome("strided:%s", VF_THOROUGH ? "thorough" : "quick");
					if (VF_THOROUGH) vf_inexhaustive("operation %s makes %ld allocations: every %ld-th index only", op->name, b->N, b->stride);
				}
			}
			confirm_baseline(o);
			for (i = lo; i <= hi; i += b->stride) {
				/* debugging aid for replays only: C19_INDEX=n restricts the chunk to one index */
				if (vf_replaying() && getenv("C19_INDEX") && atol(getenv("C19_INDEX")) != i) continue;
				inject(o, i, 0);
			}
			vf_case_end(1);
		}
		if (VF_THOROUGH && b->N <= PAIR_MAX_N) {
			for (i = 1; i < b->N; i++) {
				if (!vf_case_begin("op:%s:pairs:i%ld", op->name, i)) continue;
				confirm_baseline(o);
				for (j = i + 1; j <= b->N; j++) inject(o, i, j);
				vf_count("pair_injections", b->N - i);
				vf_case_end(1);
			}
		}
	}
}

int main(int argc, char **argv) {
	vf_driver d = {"C19", run};
	return vf_main(argc, argv, &d);
}
