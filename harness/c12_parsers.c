/* C12 - every parser of untrusted bytes is memory-safe, total and leak-free (DESIGN.md section 3, C12)
 *
 * Bounded-exhaustive enumeration of inputs on the real compiled code. Oracle: sanitizers (a crash inside a
 * case is reported by the runner), the call returns, SDK live-allocation count is back to the baseline after
 * the context of the batch has been freed, a sentinel parse on the same context gives the same result after
 * the batch as before it.
 *
 * Part order (crash-prone parts last, because the runner stops a shard after 40 crashes):
 *   selfcheck, (ii) small seeds, (iii) publication strings + URIs, (i) short byte strings, (ii) other seeds,
 *   (iii) hash algorithm names, (ii) "element moved to the end with length 0" family.
 */
#define _GNU_SOURCE
#include "ku.h"
#include "simnet.h"
#include "ref/ref_sig.h"
#include "ref/ref_pdu.h"
#include <ksi/policy.h>
#include <ksi/net.h>
#include <ksi/fast_tlv.h>
#include <ksi/tlv_element.h>
#include <ksi/pkitruststore.h>
#include <ksi/signature_builder.h>
#include <ksi/signature_helper.h>
#include <ksi/impl/signature_impl.h>
#include <stdarg.h>
#include <time.h>
#include <dirent.h>
#include <sys/stat.h>

enum { EP_SIG_EMPTY = 0, EP_SIG_INT, EP_AGGR1, EP_AGGR2, EP_EXT1, EP_EXT2, EP_PUBFILE, EP_TLV, EP_FTLV, EP_ELEM, EP_ELEMX, EP_NBIN,
       EP_B32 = EP_NBIN, EP_URI, EP_HASHNAME, EP_N };
static const char *EPNAME[EP_N] = {"sigparse-empty", "sigparse", "aggrpdu-v1", "aggrpdu-v2", "extpdu-v1", "extpdu-v2", "pubfile",
                                   "tlv", "ftlv", "tlvelem", "tlvelem-expand", "pubstring", "uri", "hashname"};
#define REFKEY "key-c12"
#define REFLOGIN "user-c12"

/* ------------------------------------------------------------------ deadline
 * (the shared runner tests its deadline only at enumeration indices that are multiples of 16, i.e. in shard 0 of 16;
 * the driver therefore stops enumerating by itself and marks the run as not exhaustive) */
static double g_stop_at;
static double mono(void) { struct timespec ts; clock_gettime(CLOCK_MONOTONIC, &ts); return (double)ts.tv_sec + (double)ts.tv_nsec * 1e-9; }
static int time_over(void) {
	if (g_stop_at <= 0 || mono() < g_stop_at) return 0;
	vf_inexhaustive("deadline reached: the remaining cases were not enumerated");
	return 1;
}

/* ------------------------------------------------------------------ per case statistics */
static long st_calls, st_ok[EP_N], st_err[EP_N], st_follow, st_inputs;
static long st_ver[3];               /* verification follow-ups: OK / NA+FAIL / error status */
static long st_pduverify_ok, st_log_calls, st_skipped_after_leak;
static long g_case_leaked[EP_N];      /* blocks leaked by the context-free entry points in this case */
static uint64_t st_hash;
static int g_quiet;                  /* attribution pass: no statistics, no reports from the follow-ups */
static volatile size_t g_sink;
#define NOTE(v) (st_hash = (st_hash ^ (uint64_t)(unsigned)(v)) * 1099511628211ULL)
#define CALL() (st_calls++)

static int st_nsigs;
static void stats_reset(void) {
	memset(st_ok, 0, sizeof st_ok); memset(st_err, 0, sizeof st_err); memset(st_ver, 0, sizeof st_ver);
	st_calls = st_follow = st_inputs = st_pduverify_ok = st_log_calls = 0;
	st_nsigs = 0; st_skipped_after_leak = 0;
	memset(g_case_leaked, 0, sizeof g_case_leaked);
	st_hash = 1469598103934665603ULL;
}
static void stats_flush(void) {
	int e;
	for (e = 0; e < EP_N; e++) {
		if (st_ok[e]) { vf_outcome("%s:ok", EPNAME[e]); vf_count(EPNAME[e], st_ok[e]); }
		if (st_err[e]) vf_outcome("%s:err", EPNAME[e]);
		if (st_ok[e] || st_err[e]) vf_obs("%s %ld/%ld", EPNAME[e], st_ok[e], st_err[e]);
	}
	if (st_ver[0]) vf_outcome("verify:OK");
	if (st_ver[1]) vf_outcome("verify:NA-or-FAIL");
	if (st_ver[2]) vf_outcome("verify:error-status");
	if (st_pduverify_ok) vf_outcome("pduverify:ok");
	if (st_log_calls) vf_outcome("debuglog:used");
	vf_obs("h=%016llx calls=%ld", (unsigned long long)st_hash, st_calls);
	vf_count("impl_calls", st_calls);
	vf_count("inputs", st_inputs);
	vf_count("followup_objects", st_follow);
	if (st_skipped_after_leak) { vf_count("inputs_not_fed_after_leak_cap", st_skipped_after_leak); vf_outcome("leak-cap-reached"); }
}

static void fail(const char *sig, const char *fmt, ...) __attribute__((format(printf, 2, 3)));
static char st_sigs[16][64];
static void fail(const char *sig, const char *fmt, ...) {
	char b[2800];
	va_list ap;
	int i;
	if (g_quiet) return;
	/* one report per signature and case; further instances are counted */
	for (i = 0; i < st_nsigs; i++) if (!strcmp(st_sigs[i], sig)) { vf_count("further_instances", 1); return; }
	if (st_nsigs < 16) snprintf(st_sigs[st_nsigs++], sizeof st_sigs[0], "%s", sig);
	va_start(ap, fmt);
	vsnprintf(b, sizeof b, fmt, ap);
	va_end(ap);
	vf_fail(sig, "%s", b);
}

/* exactly sized heap block; the empty input is the address just behind a one byte block (malloc(0) would be
 * given one addressable byte) */
typedef struct { unsigned char *base, *p; } xblock;
static xblock xb_make(const void *d, size_t n) {
	xblock x;
	if (n == 0) { x.base = (unsigned char *)malloc(1); x.p = x.base + 1; }
	else { x.base = ku_exact(d, n); x.p = x.base; }
	return x;
}
static void xb_free(xblock *x) { free(x->base); x->base = x->p = NULL; }

/* ------------------------------------------------------------------ context of a batch */
static KSI_CTX *ctx;
static int g_loglevel;
static long g_live0;
static KSI_PublicationsFile *g_userpub;      /* parsed once per context (signature batches only) */
static KSI_PublicationData *g_userpubdata;
static vbuf g_userpub_bytes;
static vbuf g_sentinel;

static int log_discard(void *c, int lvl, const char *msg) {
	(void)c; (void)lvl;
	if (msg) g_sink += strlen(msg);
	st_log_calls++;
	return KSI_OK;
}

static void ctx_open(int loglevel, int with_userpub) {
	static KSI_CertConstraint cc[] = {{KSI_CERT_EMAIL, "publications@guardtime.com"}, {NULL, NULL}};
	g_live0 = vf_alloc_live;
	g_loglevel = loglevel;
	sn_reset(); fc_reset();
	ctx = ku_ctx();
	KSI_CTX_setDefaultPubFileCertConstraints(ctx, cc);
	if (loglevel) {
		KSI_CTX_setLoggerCallback(ctx, log_discard, NULL);
		KSI_CTX_setLogLevel(ctx, KSI_LOG_DEBUG);
		/* debug configuration also has unreachable services configured: every connection attempt fails fast in simnet */
		KSI_CTX_setExtender(ctx, "ksi+http://extender.sim.invalid:8081/ext", REFLOGIN, REFKEY);
		KSI_CTX_setPublicationUrl(ctx, "http://pub.sim.invalid/ksi-publications.bin");
	}
	g_userpub = NULL; g_userpubdata = NULL;
	if (with_userpub && g_userpub_bytes.n) {
		if (KSI_PublicationsFile_parse(ctx, g_userpub_bytes.p, g_userpub_bytes.n, &g_userpub) == KSI_OK && g_userpub != NULL) {
			KSI_PublicationRecord *pr = NULL;
			if (KSI_PublicationsFile_getLatestPublication(g_userpub, NULL, &pr) == KSI_OK && pr != NULL)
				KSI_PublicationRecord_getPublishedData(pr, &g_userpubdata);
		} else g_userpub = NULL;
	}
}
static long ctx_close(void) {
	KSI_PublicationsFile_free(g_userpub);
	g_userpub = NULL; g_userpubdata = NULL;
	KSI_CTX_free(ctx);
	ctx = NULL;
	return vf_alloc_live - g_live0;
}

/* sentinel: a known good signature parsed (internal policy), verified internally and serialized again on the
 * context of the batch. Returns a digest of what was observed. */
static uint64_t sentinel(void) {
	KSI_Signature *s = NULL;
	KSI_VerificationContext vc;
	KSI_PolicyVerificationResult *r = NULL;
	unsigned char *raw = NULL;
	size_t rl = 0;
	uint64_t h = 1469598103934665603ULL;
	xblock x = xb_make(g_sentinel.p, g_sentinel.n);
	int res = KSI_Signature_parse(ctx, x.p, g_sentinel.n, &s), rc = -1, code = -1, same = 0, sr = -1;
	if (res == KSI_OK && s != NULL) {
		KSI_VerificationContext_init(&vc, ctx);
		vc.signature = s;
		rc = KSI_SignatureVerifier_verify(KSI_VERIFICATION_POLICY_INTERNAL, &vc, &r);
		if (rc == KSI_OK && r != NULL) code = (int)r->finalResult.resultCode;
		KSI_PolicyVerificationResult_free(r);
		KSI_VerificationContext_clean(&vc);
		sr = KSI_Signature_serialize(s, &raw, &rl);
		same = (sr == KSI_OK && rl == g_sentinel.n && memcmp(raw, g_sentinel.p, rl) == 0);
		KSI_free(raw);
	}
	KSI_Signature_free(s);
	xb_free(&x);
	h = vf_fnv(&res, sizeof res, h); h = vf_fnv(&rc, sizeof rc, h); h = vf_fnv(&code, sizeof code, h);
	h = vf_fnv(&sr, sizeof sr, h); h = vf_fnv(&same, sizeof same, h);
	return h;
}
static uint64_t g_sentinel_good;   /* digest of (OK, OK, RES_OK, OK, same) */

/* ------------------------------------------------------------------ touching parsed values */
static const size_t STRSZ[] = {1, 16, 400, 1500};
#define NSTRSZ 4
/* calls a toString style function with exactly sized heap buffers; the result must be terminated inside */
#define TOSTR(what, expr) do { int zi_; for (zi_ = 0; zi_ < NSTRSZ; zi_++) { size_t l = STRSZ[zi_]; char *b = (char *)malloc(l), *r_; \
	memset(b, 'x', l); CALL(); r_ = (expr); \
	if (r_ != NULL) { if (r_ != b) fail("tostring-foreign-pointer", "%s returned a pointer that is not the buffer", what); \
		else if (memchr(b, 0, l) == NULL) fail("tostring-unterminated", "%s: no terminator within the %zu byte buffer", what, l); \
		else g_sink += strlen(b); } \
	free(b); } } while (0)

static void int_touch(const KSI_Integer *i) {
	if (i == NULL) return;
	g_sink += (size_t)KSI_Integer_getUInt64(i);
	{
		/* a buffer that holds every possible rendering; short buffers are enumerated in the case text:datestring */
		char *b = (char *)malloc(64);
		memset(b, 'x', 64);
		CALL();
		if (KSI_Integer_toDateString(i, b, 64) == b) { if (memchr(b, 0, 64) == NULL) fail("tostring-unterminated", "KSI_Integer_toDateString(%llu): no terminator within the 64 byte buffer", (unsigned long long)KSI_Integer_getUInt64(i)); else g_sink += strlen(b); }
		free(b);
	}
}
static void utf_touch(const KSI_Utf8String *s) {
	const char *c;
	if (s == NULL) return;
	c = KSI_Utf8String_cstr(s);
	if (c) g_sink += strlen(c);
	g_sink += KSI_Utf8String_size(s);
}
static void utflist_touch(KSI_LIST(KSI_Utf8String) *l) {
	size_t i;
	for (i = 0; i < KSI_Utf8StringList_length(l); i++) { KSI_Utf8String *s = NULL; KSI_Utf8StringList_elementAt(l, i, &s); utf_touch(s); }
}
static void oct_touch(const KSI_OctetString *o) {
	const unsigned char *d = NULL;
	size_t n = 0;
	if (o == NULL) return;
	if (KSI_OctetString_extract(o, &d, &n) == KSI_OK && d != NULL) g_sink += (size_t)vf_fnv(d, n, 0);
	TOSTR("KSI_OctetString_toString", KSI_OctetString_toString(o, ':', b, l));
}
static void hash_touch(const KSI_DataHash *h) {
	const unsigned char *d = NULL;
	size_t n = 0;
	KSI_HashAlgorithm alg = 0;
	if (h == NULL) return;
	if (KSI_DataHash_getImprint(h, &d, &n) == KSI_OK && d != NULL) g_sink += (size_t)vf_fnv(d, n, 0);
	d = NULL; n = 0;
	if (KSI_DataHash_extract(h, &alg, &d, &n) == KSI_OK && d != NULL) g_sink += (size_t)vf_fnv(d, n, 0);
	TOSTR("KSI_DataHash_toString", KSI_DataHash_toString(h, b, l));
}
static void pubdata_touch(KSI_PublicationData *pd) {
	KSI_Integer *t = NULL;
	KSI_DataHash *h = NULL;
	char *s = NULL;
	if (pd == NULL) return;
	KSI_PublicationData_getTime(pd, &t); int_touch(t);
	KSI_PublicationData_getImprint(pd, &h); hash_touch(h);
	CALL();
	if (KSI_PublicationData_toBase32(pd, &s) == KSI_OK && s != NULL) g_sink += strlen(s);
	KSI_free(s);
	TOSTR("KSI_PublicationData_toString", KSI_PublicationData_toString(pd, b, l));
}
static void pubrec_touch(KSI_PublicationRecord *pr) {
	KSI_PublicationData *pd = NULL;
	KSI_LIST(KSI_Utf8String) *l1 = NULL, *l2 = NULL;
	if (pr == NULL) return;
	KSI_PublicationRecord_getPublishedData(pr, &pd); pubdata_touch(pd);
	KSI_PublicationRecord_getPublicationRefList(pr, &l1); utflist_touch(l1);
	KSI_PublicationRecord_getRepositoryUriList(pr, &l2); utflist_touch(l2);
	TOSTR("KSI_PublicationRecord_toString", KSI_PublicationRecord_toString(pr, b, l));
}
static void pkisigned_touch(KSI_PKISignedData *sd) {
	KSI_OctetString *o = NULL;
	KSI_Utf8String *u = NULL;
	if (sd == NULL) return;
	KSI_PKISignedData_getSignatureValue(sd, &o); oct_touch(o); o = NULL;
	KSI_PKISignedData_getCertId(sd, &o); oct_touch(o);
	KSI_PKISignedData_getCertRepositoryUri(sd, &u); utf_touch(u); u = NULL;
	KSI_PKISignedData_getSigType(sd, &u); utf_touch(u);
}
static void calauth_touch(KSI_CalendarAuthRec *ar) {
	KSI_PublicationData *pd = NULL;
	KSI_Utf8String *u = NULL;
	KSI_PKISignedData *sd = NULL;
	if (ar == NULL) return;
	KSI_CalendarAuthRec_getPublishedData(ar, &pd); pubdata_touch(pd);
	KSI_CalendarAuthRec_getSignatureData(ar, &sd); pkisigned_touch(sd);
}
static void calchain_touch(KSI_CalendarHashChain *c) {
	KSI_Integer *t = NULL;
	KSI_DataHash *h = NULL, *root = NULL;
	time_t at = 0;
	if (c == NULL) return;
	KSI_CalendarHashChain_getPublicationTime(c, &t); int_touch(t); t = NULL;
	KSI_CalendarHashChain_getAggregationTime(c, &t); int_touch(t);
	KSI_CalendarHashChain_getInputHash(c, &h); hash_touch(h);
	CALL(); NOTE(KSI_CalendarHashChain_aggregate(c, &root)); hash_touch(root); KSI_DataHash_free(root);
	CALL(); NOTE(KSI_CalendarHashChain_calculateAggregationTime(c, &at));
}
static void aggrchain_touch(KSI_AggregationHashChain *c) {
	KSI_Integer *t = NULL;
	KSI_DataHash *h = NULL, *root = NULL;
	KSI_LIST(KSI_Integer) *idx = NULL;
	KSI_OctetString *o = NULL;
	int lvl = 0;
	size_t i;
	if (c == NULL) return;
	KSI_AggregationHashChain_getAggregationTime(c, &t); int_touch(t); t = NULL;
	KSI_AggregationHashChain_getAggrHashId(c, &t); int_touch(t);
	KSI_AggregationHashChain_getInputHash(c, &h); hash_touch(h);
	KSI_AggregationHashChain_getInputData(c, &o); oct_touch(o);
	KSI_AggregationHashChain_getChainIndex(c, &idx);
	for (i = 0; i < KSI_IntegerList_length(idx); i++) { KSI_Integer *x = NULL; KSI_IntegerList_elementAt(idx, i, &x); if (x) g_sink += (size_t)KSI_Integer_getUInt64(x); }
	CALL(); NOTE(KSI_AggregationHashChain_aggregate(c, 0, &lvl, &root)); hash_touch(root); KSI_DataHash_free(root);
}

/* ------------------------------------------------------------------ follow-ups: signature */
static const KSI_Policy *policy_at(int i) {
	switch (i) {
		case 0: return KSI_VERIFICATION_POLICY_INTERNAL;
		case 1: return KSI_VERIFICATION_POLICY_CALENDAR_BASED;
		case 2: return KSI_VERIFICATION_POLICY_KEY_BASED;
		case 3: return KSI_VERIFICATION_POLICY_PUBLICATIONS_FILE_BASED;
		case 4: return KSI_VERIFICATION_POLICY_USER_PUBLICATION_BASED;
		case 5: return KSI_VERIFICATION_POLICY_GENERAL;
		default: return KSI_VERIFICATION_POLICY_EMPTY;
	}
}
#define NPOLICY 7

static void sig_verify_all(KSI_Signature *sig, int rich) {
	int i;
	KSI_DataHash *doc = NULL;
	if (rich) KSI_Signature_getDocumentHash(sig, &doc);
	for (i = 0; i < NPOLICY; i++) {
		KSI_VerificationContext vc;
		KSI_PolicyVerificationResult *r = NULL;
		int rc;
		KSI_VerificationContext_init(&vc, ctx);
		vc.signature = sig;
		if (rich) {
			vc.userPublicationsFile = g_userpub;
			vc.userPublication = g_userpubdata;
			vc.extendingAllowed = 1;
			vc.documentHash = doc;
		}
		CALL();
		rc = KSI_SignatureVerifier_verify(policy_at(i), &vc, &r);
		NOTE(rc);
		if (rc == KSI_OK) {
			if (r == NULL) fail("verify-ok-without-result", "KSI_SignatureVerifier_verify returned KSI_OK and no result (policy %d)", i);
			else {
				int c = (int)r->finalResult.resultCode;
				NOTE(c); NOTE(r->finalResult.errorCode);
				if (c != KSI_VER_RES_OK && c != KSI_VER_RES_NA && c != KSI_VER_RES_FAIL) fail("verify-result-out-of-range", "policy %d: result code %d", i, c);
				g_sink += strlen(KSI_VerificationErrorCode_toString((int)r->finalResult.errorCode));
				st_ver[c == KSI_VER_RES_OK ? 0 : 1]++;
			}
		} else st_ver[2]++;
		KSI_PolicyVerificationResult_free(r);
		KSI_VerificationContext_clean(&vc);
	}
}

static void sig_followups(KSI_Signature *sig) {
	unsigned char *raw = NULL;
	size_t rl = 0;
	KSI_Signature *cl = NULL;
	KSI_HashChainLinkIdentityList *ids = NULL;
	KSI_Integer *t = NULL;
	KSI_DataHash *h = NULL, *ph = NULL;
	KSI_Utf8String *ps = NULL;
	KSI_LIST(KSI_Utf8String) *refs = NULL, *urls = NULL;
	KSI_PublicationRecord *pr = NULL;
	KSI_CalendarAuthRec *ar = NULL;
	KSI_DataHasher *hsr = NULL;
	KSI_HashAlgorithm alg = 0;
	time_t pd = 0;
	size_t i;
	int res;
	st_follow++;
	sn_reset(); fc_reset();
	sig_verify_all(sig, 0);
	sig_verify_all(sig, 1);
	CALL(); res = KSI_Signature_serialize(sig, &raw, &rl); NOTE(res);
	if (res == KSI_OK && raw != NULL) g_sink += (size_t)vf_fnv(raw, rl, 0);
	KSI_free(raw); raw = NULL;
	CALL(); res = KSI_Signature_clone(sig, &cl); NOTE(res);
	if (res == KSI_OK && cl != NULL) {
		CALL(); res = KSI_Signature_serialize(cl, &raw, &rl); NOTE(res);
		KSI_free(raw); raw = NULL;
	}
	KSI_Signature_free(cl);
	CALL(); res = KSI_Signature_getAggregationHashChainIdentity(sig, &ids); NOTE(res);
	if (res == KSI_OK && ids != NULL) {
		for (i = 0; i < KSI_HashChainLinkIdentityList_length(ids); i++) {
			KSI_HashChainLinkIdentity *id = NULL;
			KSI_HashChainLinkIdentityType ty = 0;
			KSI_Utf8String *u = NULL;
			KSI_Integer *n = NULL;
			KSI_HashChainLinkIdentityList_elementAt(ids, i, &id);
			if (id == NULL) continue;
			KSI_HashChainLinkIdentity_getType(id, &ty); NOTE(ty);
			KSI_HashChainLinkIdentity_getClientId(id, &u); utf_touch(u); u = NULL;
			KSI_HashChainLinkIdentity_getMachineId(id, &u); utf_touch(u);
			KSI_HashChainLinkIdentity_getSequenceNr(id, &n); int_touch(n); n = NULL;
			KSI_HashChainLinkIdentity_getRequestTime(id, &n); int_touch(n);
		}
	}
	KSI_HashChainLinkIdentityList_free(ids);
	{
		/* the metadata records of the links, field by field, through ONE receiving variable per type that is not cleared in between (a getter
		 * for an absent field has to say so itself) */
		size_t ci, li;
		KSI_Utf8String *mu = NULL;
		KSI_Integer *mn = NULL;
		KSI_OctetString *mp = NULL;
		for (ci = 0; ci < KSI_AggregationHashChainList_length(sig->aggregationChainList); ci++) {
			KSI_AggregationHashChain *ch = NULL;
			KSI_LIST(KSI_HashChainLink) *ll = NULL;
			KSI_AggregationHashChainList_elementAt(sig->aggregationChainList, ci, &ch);
			if (ch == NULL || KSI_AggregationHashChain_getChain(ch, &ll) != KSI_OK || ll == NULL) continue;
			for (li = 0; li < KSI_HashChainLinkList_length(ll); li++) {
				KSI_HashChainLink *lk = NULL;
				KSI_MetaDataElement *mde = NULL;
				KSI_HashChainLinkList_elementAt(ll, li, &lk);
				if (lk == NULL || KSI_HashChainLink_getMetaData(lk, &mde) != KSI_OK || mde == NULL) continue;
				CALL(); NOTE(KSI_MetaDataElement_getClientId(mde, &mu)); utf_touch(mu);
				CALL(); NOTE(KSI_MetaDataElement_getMachineId(mde, &mu)); utf_touch(mu);
				CALL(); NOTE(KSI_MetaDataElement_getSequenceNr(mde, &mn)); int_touch(mn);
				CALL(); NOTE(KSI_MetaDataElement_getRequestTimeInMicros(mde, &mn)); int_touch(mn);
				CALL(); NOTE(KSI_MetaDataElement_getPadding(mde, &mp)); oct_touch(mp);
			}
		}
	}
	CALL(); NOTE(KSI_Signature_getSigningTime(sig, &t)); int_touch(t);
	CALL(); NOTE(KSI_Signature_getDocumentHash(sig, &h)); hash_touch(h);
	CALL(); NOTE(KSI_Signature_getHashAlgorithm(sig, &alg));
	CALL(); NOTE(KSI_Signature_createDataHasher(sig, &hsr)); KSI_DataHasher_free(hsr);
	CALL(); res = KSI_Signature_getPublicationInfo(sig, &ph, &ps, &pd, &refs, &urls); NOTE(res);
	hash_touch(ph); utf_touch(ps); utflist_touch(refs); utflist_touch(urls);
	KSI_DataHash_free(ph); KSI_Utf8String_free(ps); KSI_Utf8StringList_free(refs); KSI_Utf8StringList_free(urls);
	CALL(); NOTE(KSI_Signature_getPublicationRecord(sig, &pr)); pubrec_touch(pr);
	CALL(); NOTE(KSI_Signature_getCalendarAuthRec(sig, &ar)); calauth_touch(ar);
}

/* ------------------------------------------------------------------ follow-ups: PDUs */
static void header_touch(KSI_Header *h) {
	KSI_Integer *n = NULL;
	KSI_Utf8String *u = NULL;
	if (h == NULL) return;
	KSI_Header_getInstanceId(h, &n); int_touch(n); n = NULL;
	KSI_Header_getMessageId(h, &n); int_touch(n);
	KSI_Header_getLoginId(h, &u); utf_touch(u);
}
static void config_touch(KSI_Config *c) {
	KSI_Integer *n = NULL;
	KSI_LIST(KSI_Utf8String) *l = NULL;
	if (c == NULL) return;
	KSI_Config_getMaxLevel(c, &n); int_touch(n); n = NULL;
	KSI_Config_getAggrAlgo(c, &n); int_touch(n); n = NULL;
	KSI_Config_getAggrPeriod(c, &n); int_touch(n); n = NULL;
	KSI_Config_getMaxRequests(c, &n); int_touch(n); n = NULL;
	KSI_Config_getCalendarFirstTime(c, &n); int_touch(n); n = NULL;
	KSI_Config_getCalendarLastTime(c, &n); int_touch(n);
	KSI_Config_getParentUri(c, &l); utflist_touch(l);
}
static void errpdu_touch(KSI_ErrorPdu *e) {
	KSI_Integer *n = NULL;
	KSI_Utf8String *u = NULL;
	if (e == NULL) return;
	KSI_ErrorPdu_getStatus(e, &n); int_touch(n);
	KSI_ErrorPdu_getErrorMessage(e, &u); utf_touch(u);
}
static void ack_touch(KSI_RequestAck *a) {
	KSI_Integer *n = NULL;
	if (a == NULL) return;
	KSI_RequestAck_getRequestTime(a, &n); int_touch(n); n = NULL;
	KSI_RequestAck_getReceiptTime(a, &n); int_touch(n); n = NULL;
	KSI_RequestAck_getAcknowledgeTime(a, &n); int_touch(n); n = NULL;
	KSI_RequestAck_getAggregationPeriod(a, &n); int_touch(n); n = NULL;
	KSI_RequestAck_getAggregationDelay(a, &n); int_touch(n); n = NULL;
	KSI_RequestAck_getAggregationDrift(a, &n); int_touch(n);
}

static void aggr_followups(KSI_AggregationPdu *pdu) {
	KSI_Header *hd = NULL;
	KSI_AggregationReq *rq = NULL;
	KSI_AggregationResp *rs = NULL;
	KSI_Config *cf = NULL;
	KSI_RequestAck *ak = NULL;
	KSI_DataHash *h = NULL, *mac = NULL;
	KSI_ErrorPdu *er = NULL;
	int r;
	st_follow++;
	CALL(); r = KSI_AggregationPdu_verify(pdu, "anon"); NOTE(r); if (r == KSI_OK) st_pduverify_ok++;
	CALL(); r = KSI_AggregationPdu_verify(pdu, REFKEY); NOTE(r); if (r == KSI_OK) st_pduverify_ok++;
	CALL(); NOTE(KSI_AggregationPdu_calculateHmac(pdu, KSI_HASHALG_SHA2_256, REFKEY, &mac)); hash_touch(mac); KSI_DataHash_free(mac);
	KSI_AggregationPdu_getHeader(pdu, &hd); header_touch(hd);
	KSI_AggregationPdu_getHmac(pdu, &h); hash_touch(h);
	KSI_AggregationPdu_getError(pdu, &er); errpdu_touch(er);
	KSI_AggregationPdu_getConfRequest(pdu, &cf); config_touch(cf); cf = NULL;
	KSI_AggregationPdu_getConfResponse(pdu, &cf); config_touch(cf); cf = NULL;
	KSI_AggregationPdu_getAckRequest(pdu, &ak); ack_touch(ak); ak = NULL;
	KSI_AggregationPdu_getAckResponse(pdu, &ak); ack_touch(ak); ak = NULL;
	KSI_AggregationPdu_getRequest(pdu, &rq);
	if (rq != NULL) {
		KSI_Integer *n = NULL;
		KSI_DataHash *rh = NULL;
		KSI_AggregationReq_getRequestId(rq, &n); int_touch(n); n = NULL;
		KSI_AggregationReq_getRequestLevel(rq, &n); int_touch(n);
		KSI_AggregationReq_getRequestHash(rq, &rh); hash_touch(rh);
		KSI_AggregationReq_getConfig(rq, &cf); config_touch(cf); cf = NULL;
	}
	KSI_AggregationPdu_getResponse(pdu, &rs);
	if (rs != NULL) {
		KSI_Integer *n = NULL;
		KSI_Utf8String *u = NULL;
		KSI_CalendarHashChain *cc = NULL;
		KSI_LIST(KSI_AggregationHashChain) *al = NULL;
		KSI_CalendarAuthRec *ar = NULL;
		KSI_SignatureBuilder *bld = NULL;
		KSI_Signature *sig = NULL;
		size_t i;
		KSI_AggregationResp_getRequestId(rs, &n); int_touch(n); n = NULL;
		KSI_AggregationResp_getStatus(rs, &n); int_touch(n);
		KSI_AggregationResp_getErrorMsg(rs, &u); utf_touch(u);
		KSI_AggregationResp_getConfig(rs, &cf); config_touch(cf);
		KSI_AggregationResp_getRequestAck(rs, &ak); ack_touch(ak);
		KSI_AggregationResp_getCalendarChain(rs, &cc); calchain_touch(cc);
		KSI_AggregationResp_getCalendarAuthRec(rs, &ar); calauth_touch(ar);
		KSI_AggregationResp_getAggregationChainList(rs, &al);
		for (i = 0; i < KSI_AggregationHashChainList_length(al); i++) { KSI_AggregationHashChain *c = NULL; KSI_AggregationHashChainList_elementAt(al, i, &c); aggrchain_touch(c); }
		/* what a client does with an aggregation response: build the signature from it */
		CALL(); r = KSI_SignatureBuilder_openFromAggregationResp(rs, &bld); NOTE(r);
		if (r == KSI_OK && bld != NULL) {
			CALL(); r = KSI_SignatureBuilder_close(bld, 0, &sig); NOTE(r);
			if (r == KSI_OK && sig != NULL) sig_followups(sig);
			KSI_Signature_free(sig);
		}
		KSI_SignatureBuilder_free(bld);
	}
}

static void ext_followups(KSI_ExtendPdu *pdu) {
	KSI_Header *hd = NULL;
	KSI_ExtendReq *rq = NULL;
	KSI_ExtendResp *rs = NULL;
	KSI_Config *cf = NULL;
	KSI_DataHash *h = NULL, *mac = NULL;
	KSI_ErrorPdu *er = NULL;
	int r;
	st_follow++;
	CALL(); r = KSI_ExtendPdu_verify(pdu, "anon"); NOTE(r); if (r == KSI_OK) st_pduverify_ok++;
	CALL(); r = KSI_ExtendPdu_verify(pdu, REFKEY); NOTE(r); if (r == KSI_OK) st_pduverify_ok++;
	CALL(); NOTE(KSI_ExtendPdu_calculateHmac(pdu, KSI_HASHALG_SHA2_256, REFKEY, &mac)); hash_touch(mac); KSI_DataHash_free(mac);
	KSI_ExtendPdu_getHeader(pdu, &hd); header_touch(hd);
	KSI_ExtendPdu_getHmac(pdu, &h); hash_touch(h);
	KSI_ExtendPdu_getError(pdu, &er); errpdu_touch(er);
	KSI_ExtendPdu_getConfRequest(pdu, &cf); config_touch(cf); cf = NULL;
	KSI_ExtendPdu_getConfResponse(pdu, &cf); config_touch(cf); cf = NULL;
	KSI_ExtendPdu_getRequest(pdu, &rq);
	if (rq != NULL) {
		KSI_Integer *n = NULL;
		KSI_ExtendReq_getRequestId(rq, &n); int_touch(n); n = NULL;
		KSI_ExtendReq_getAggregationTime(rq, &n); int_touch(n); n = NULL;
		KSI_ExtendReq_getPublicationTime(rq, &n); int_touch(n);
		KSI_ExtendReq_getConfig(rq, &cf); config_touch(cf); cf = NULL;
	}
	KSI_ExtendPdu_getResponse(pdu, &rs);
	if (rs != NULL) {
		KSI_Integer *n = NULL;
		KSI_Utf8String *u = NULL;
		KSI_CalendarHashChain *cc = NULL;
		KSI_ExtendResp_getRequestId(rs, &n); int_touch(n); n = NULL;
		KSI_ExtendResp_getStatus(rs, &n); int_touch(n); n = NULL;
		KSI_ExtendResp_getLastTime(rs, &n); int_touch(n);
		KSI_ExtendResp_getErrorMsg(rs, &u); utf_touch(u);
		KSI_ExtendResp_getConfig(rs, &cf); config_touch(cf);
		KSI_ExtendResp_getCalendarHashChain(rs, &cc); calchain_touch(cc);
	}
}

/* ------------------------------------------------------------------ follow-ups: publications file */
static void pubfile_followups(KSI_PublicationsFile *pf) {
	static const KSI_uint64_t TIMES[] = {0, 1, 1397520000ULL, 1400112000ULL, 1500000000ULL, 0x7fffffffULL, 0xffffffffffffffffULL};
	KSI_PublicationsHeader *hd = NULL;
	KSI_LIST(KSI_CertificateRecord) *certs = NULL;
	KSI_LIST(KSI_PublicationRecord) *pubs = NULL;
	KSI_PKISignature *ps = NULL;
	KSI_PublicationRecord *pr = NULL;
	char *raw = NULL;
	size_t rl = 0, sl = 0, i;
	int r;
	st_follow++;
	CALL(); NOTE(KSI_PublicationsFile_getSignedDataLength(pf, &sl)); NOTE(sl);
	KSI_PublicationsFile_getHeader(pf, &hd);
	if (hd != NULL) {
		KSI_Integer *n = NULL;
		KSI_Utf8String *u = NULL;
		KSI_PublicationsHeader_getVersion(hd, &n); int_touch(n); n = NULL;
		KSI_PublicationsHeader_getTimeCreated(hd, &n); int_touch(n);
		KSI_PublicationsHeader_getRepositoryUri(hd, &u); utf_touch(u);
	}
	KSI_PublicationsFile_getCertificates(pf, &certs);
	for (i = 0; i < KSI_CertificateRecordList_length(certs); i++) {
		KSI_CertificateRecord *cr = NULL;
		KSI_OctetString *id = NULL;
		KSI_PKICertificate *c = NULL, *c2 = NULL;
		KSI_CertificateRecordList_elementAt(certs, i, &cr);
		if (cr == NULL) continue;
		KSI_CertificateRecord_getCertId(cr, &id); oct_touch(id);
		KSI_CertificateRecord_getCert(cr, &c);
		if (c != NULL && i < 3) TOSTR("KSI_PKICertificate_toString", KSI_PKICertificate_toString(c, b, l));
		if (id != NULL) { CALL(); NOTE(KSI_PublicationsFile_getPKICertificateById(pf, id, &c2)); }
	}
	{
		/* an id that is in no file */
		KSI_OctetString *id = NULL;
		KSI_PKICertificate *c2 = NULL;
		if (KSI_OctetString_new(ctx, (const unsigned char *)"\x01\x02\x03\x04", 4, &id) == KSI_OK) { CALL(); NOTE(KSI_PublicationsFile_getPKICertificateById(pf, id, &c2)); }
		KSI_OctetString_free(id);
	}
	KSI_PublicationsFile_getPublications(pf, &pubs);
	for (i = 0; i < KSI_PublicationRecordList_length(pubs); i++) {
		KSI_PublicationRecord *p = NULL;
		KSI_PublicationRecordList_elementAt(pubs, i, &p);
		if (i < 2 || i + 2 >= KSI_PublicationRecordList_length(pubs)) pubrec_touch(p);
		else if (p != NULL) { KSI_PublicationData *pd = NULL; KSI_Integer *t = NULL; KSI_PublicationRecord_getPublishedData(p, &pd); if (pd) KSI_PublicationData_getTime(pd, &t); if (t) g_sink += (size_t)KSI_Integer_getUInt64(t); }
	}
	for (i = 0; i < sizeof TIMES / sizeof *TIMES; i++) {
		KSI_Integer *t = NULL;
		if (KSI_Integer_new(ctx, TIMES[i], &t) != KSI_OK) continue;
		pr = NULL; CALL(); NOTE(KSI_PublicationsFile_getPublicationDataByTime(pf, t, &pr)); NOTE(pr != NULL);
		pr = NULL; CALL(); NOTE(KSI_PublicationsFile_getNearestPublication(pf, t, &pr)); NOTE(pr != NULL); if (pr) pubrec_touch(pr); KSI_PublicationRecord_free(pr);
		pr = NULL; CALL(); NOTE(KSI_PublicationsFile_getLatestPublication(pf, t, &pr)); NOTE(pr != NULL);
		pr = NULL; CALL(); NOTE(KSI_PublicationsFile_findPublicationByTime(pf, t, &pr)); NOTE(pr != NULL); KSI_PublicationRecord_free(pr);
		KSI_Integer_free(t);
	}
	{
		/* the record-based searches with the time (and the record) of the file's own last record: a file may carry a record more than once */
		KSI_PublicationRecord *lastrec = NULL, *found = NULL;
		KSI_PublicationData *lpd = NULL;
		KSI_Integer *lt = NULL;
		if (pubs != NULL && KSI_PublicationRecordList_length(pubs) > 0) KSI_PublicationRecordList_elementAt(pubs, KSI_PublicationRecordList_length(pubs) - 1, &lastrec);
		if (lastrec != NULL && KSI_PublicationRecord_getPublishedData(lastrec, &lpd) == KSI_OK && lpd != NULL && KSI_PublicationData_getTime(lpd, &lt) == KSI_OK && lt != NULL) {
			CALL(); NOTE(KSI_PublicationsFile_findPublicationByTime(pf, lt, &found)); NOTE(found != NULL); KSI_PublicationRecord_free(found); found = NULL;
			CALL(); NOTE(KSI_PublicationsFile_findPublication(pf, lastrec, &found)); NOTE(found != NULL); KSI_PublicationRecord_free(found);
		}
	}
	pr = NULL; CALL(); NOTE(KSI_PublicationsFile_getLatestPublication(pf, NULL, &pr)); if (pr) pubrec_touch(pr);
	if (pr != NULL) {
		/* a copy of the record is made and released, other hashes are created on the context: the record of the file is what it was */
		char b1[1200], b2[1200];
		KSI_PublicationRecord *cl = NULL;
		KSI_DataHash *h1 = NULL, *h2 = NULL;
		b1[0] = b2[0] = 0;
		KSI_PublicationRecord_toString(pr, b1, sizeof b1);
		CALL(); r = KSI_PublicationRecord_clone(pr, &cl); NOTE(r);
		if (r == KSI_OK && cl != NULL) {
			/* the copy is the application's own: giving it another time must not reach the record of the file */
			KSI_PublicationData *cpd = NULL;
			KSI_Integer *nt = NULL, *ot = NULL;
			if (KSI_PublicationRecord_getPublishedData(cl, &cpd) == KSI_OK && cpd != NULL && KSI_Integer_new(ctx, 1234567, &nt) == KSI_OK) {
				KSI_PublicationData_getTime(cpd, &ot);
				if (KSI_PublicationData_setTime(cpd, nt) != KSI_OK) KSI_Integer_free(nt);
				else KSI_Integer_free(ot);       /* the setter stores the new value; the former one is the caller's to release */
			}
		}
		KSI_PublicationRecord_free(cl);
		KSI_DataHash_create(ctx, "c12-clone-a", 11, KSI_HASHALG_SHA2_256, &h1);
		KSI_DataHash_create(ctx, "c12-clone-b", 11, KSI_HASHALG_SHA2_256, &h2);
		KSI_PublicationRecord_toString(pr, b2, sizeof b2);
		if (strcmp(b1, b2) != 0) fail("record-changed-by-its-copy", "a publication record of the file renders differently after a copy of it was made and released and two hashes were created: '%.200s' / '%.200s'", b1, b2);
		KSI_DataHash_free(h1); KSI_DataHash_free(h2);
	}
	KSI_PublicationsFile_getSignature(pf, &ps);
	CALL(); r = KSI_PublicationsFile_serialize(ctx, pf, &raw, &rl); NOTE(r);
	if (r == KSI_OK && raw != NULL) g_sink += (size_t)vf_fnv(raw, rl, 0);
	KSI_free(raw);
	CALL(); NOTE(KSI_PublicationsFile_verify(pf, ctx));
}

/* ------------------------------------------------------------------ follow-ups: raw TLV readers */
static int tlv_expand(KSI_TLV *t, int depth) {
	KSI_LIST(KSI_TLV) *l = NULL;
	size_t i;
	int r;
	if (depth > 16) return 0;
	CALL(); r = KSI_TLV_getNestedList(t, &l); NOTE(r);
	if (r != KSI_OK || l == NULL) return 0;
	for (i = 0; i < KSI_TLVList_length(l); i++) { KSI_TLV *c = NULL; KSI_TLVList_elementAt(l, i, &c); if (c) tlv_expand(c, depth + 1); }
	return 1;
}
static void tlv_followups(KSI_TLV *t, size_t input_len) {
	KSI_TLV *cl = NULL;
	unsigned char *raw = NULL;
	const unsigned char *rv = NULL;
	size_t rl = 0;
	int r, expanded;
	st_follow++;
	NOTE(KSI_TLV_getTag(t)); NOTE(KSI_TLV_isNonCritical(t)); NOTE(KSI_TLV_isForward(t));
	if (KSI_TLV_getRawValue(t, &rv, &rl) == KSI_OK && rv != NULL) g_sink += (size_t)vf_fnv(rv, rl, 0);
	/* rendering of the raw element: all buffer sizes (one size for very large elements: the rendering cost is proportional to the element) */
	if (input_len <= 4096) TOSTR("KSI_TLV_toString", KSI_TLV_toString(t, b, l));
	else { char *b = (char *)malloc(1500); memset(b, 'x', 1500); CALL(); if (KSI_TLV_toString(t, b, 1500) == b) { if (memchr(b, 0, 1500) == NULL) fail("tostring-unterminated", "KSI_TLV_toString: no terminator within the 1500 byte buffer"); else g_sink += strlen(b); } free(b); }
	CALL(); r = KSI_TLV_clone(t, &cl); NOTE(r);
	expanded = tlv_expand(t, 0);
	if (expanded) {
		/* rendering of the nested form */
		char *b = (char *)malloc(1500); memset(b, 'x', 1500); CALL();
		if (KSI_TLV_toString(t, b, 1500) == b) { if (memchr(b, 0, 1500) == NULL) fail("tostring-unterminated", "KSI_TLV_toString: no terminator within the 1500 byte buffer"); else g_sink += strlen(b); }
		free(b);
	}
	CALL(); r = KSI_TLV_serialize(t, &raw, &rl); NOTE(r);
	if (r == KSI_OK && raw != NULL) g_sink += (size_t)vf_fnv(raw, rl, 0);
	KSI_free(raw); raw = NULL;
	if (cl != NULL) {
		CALL(); r = KSI_TLV_serialize(cl, &raw, &rl); NOTE(r);
		KSI_free(raw);
	}
	KSI_TLV_free(cl);
}
static void elem_expand(KSI_TlvElement *e, int depth) {
	KSI_TlvElement *x = NULL;
	size_t i, n;
	if (depth > 16) return;
	CALL(); NOTE(KSI_TlvElement_getElement(e, 0x1ffd, &x));   /* expands the sub-elements */
	KSI_TlvElement_free(x);
	n = KSI_TlvElementList_length(e->subList);
	for (i = 0; i < n; i++) {
		KSI_TlvElement *c = NULL;
		KSI_TlvElementList_elementAt(e->subList, i, &c);
		if (c == NULL) continue;
		if (i < 4 && depth <= 1) {
			KSI_Integer *iv = NULL; KSI_OctetString *ov = NULL; KSI_Utf8String *uv = NULL;
			CALL(); NOTE(KSI_TlvElement_getInteger(e, ctx, c->ftlv.tag, &iv)); KSI_Integer_free(iv);
			CALL(); NOTE(KSI_TlvElement_getOctetString(e, ctx, c->ftlv.tag, &ov)); oct_touch(ov); KSI_OctetString_free(ov);
			CALL(); NOTE(KSI_TlvElement_getUtf8String(e, ctx, c->ftlv.tag, &uv)); utf_touch(uv); KSI_Utf8String_free(uv);
		}
		elem_expand(c, depth + 1);
	}
}
static void elem_serialize(KSI_TlvElement *e) {
	size_t len = 0, len2 = 0;
	int r;
	CALL(); r = KSI_TlvElement_serialize(e, NULL, 0, &len, 0); NOTE(r); NOTE(len);
	if (r == KSI_OK && len <= 0x20000) {
		unsigned char *b = (unsigned char *)malloc(len ? len : 1);
		CALL(); r = KSI_TlvElement_serialize(e, b, len, &len2, 0); NOTE(r);
		if (r == KSI_OK) g_sink += (size_t)vf_fnv(b, len2 <= len ? len2 : len, 0);
		free(b);
	}
}
static void elem_followups(KSI_TlvElement *e, int expand) {
	st_follow++;
	NOTE(e->ftlv.tag); NOTE(e->ftlv.dat_len);
	elem_serialize(e);
	if (expand) { elem_expand(e, 0); elem_serialize(e); }
	CALL(); NOTE(KSI_TlvElement_detach(e));
	elem_serialize(e);
}

/* ------------------------------------------------------------------ one input through one entry point */
static void err_render(void) {
	/* rendering of the error trace of the context after a failed call */
	char *b = (char *)malloc(600);
	int ext = 0;
	char msg[64];
	memset(b, 'x', 600);
	CALL();
	if (KSI_ERR_toString(ctx, b, 600) != NULL) { if (memchr(b, 0, 600) == NULL) fail("tostring-unterminated", "KSI_ERR_toString"); else g_sink += strlen(b); }
	free(b);
	KSI_ERR_getBaseErrorMessage(ctx, msg, sizeof msg, NULL, &ext);
	/* the same trace through the logger (at the lowest and at the debug level) and as a dump to a stream */
	CALL(); NOTE(KSI_LOG_logCtxError(ctx, KSI_LOG_ERROR));
	CALL(); NOTE(KSI_LOG_logCtxError(ctx, KSI_LOG_DEBUG));
	{
		static FILE *devnull;
		if (!devnull) devnull = fopen("/dev/null", "w");
		if (devnull) { CALL(); NOTE(KSI_ERR_statusDump(ctx, devnull)); }
	}
}

static long g_exact_leaked;
#define LEAK_CAP 500                  /* after that many leaked blocks the entry point is not fed any more in this case (the process would grow without bound) */
static const char *ep_leak_sig(int ep) {
	static char b[EP_N][40];
	snprintf(b[ep], sizeof b[ep], "leak:%s", EPNAME[ep]);
	return b[ep];
}

/* returns 1 when the entry point accepted the input */
static int run_input(int ep, const unsigned char *d, size_t n, int render_err) {
	int ok = 0, res;
	xblock x;
	if (g_case_leaked[ep] > LEAK_CAP) { if (!g_quiet) st_skipped_after_leak++; return 0; }
	x = xb_make(d, n);
	long live_before = vf_alloc_live;
	int exact_leak_check = 0;
	switch (ep) {
		case EP_SIG_EMPTY: case EP_SIG_INT: {
			KSI_Signature *sig = NULL;
			CALL();
			if (ep == EP_SIG_EMPTY) res = KSI_Signature_parseWithPolicy(ctx, x.p, n, KSI_VERIFICATION_POLICY_EMPTY, NULL, &sig);
			else res = KSI_Signature_parse(ctx, x.p, n, &sig);
			NOTE(res);
			if (res == KSI_OK) {
				if (sig == NULL) fail("ok-without-object", "%s returned KSI_OK and no signature; input=%s", EPNAME[ep], vf_hex(d, n));
				else { ok = 1; sig_followups(sig); }
			} else {
				if (sig != NULL) fail("error-with-object", "%s returned 0x%x and an object; input=%s", EPNAME[ep], res, vf_hex(d, n));
				if (render_err) err_render();
			}
			KSI_Signature_free(sig);
			break;
		}
		case EP_AGGR1: case EP_AGGR2: {
			KSI_AggregationPdu *pdu = NULL;
			KSI_CTX_setOption(ctx, KSI_OPT_AGGR_PDU_VER, (void *)(size_t)(ep == EP_AGGR1 ? 1 : 2));
			CALL(); res = KSI_AggregationPdu_parse(ctx, x.p, n, &pdu); NOTE(res);
			if (res == KSI_OK) {
				if (pdu == NULL) fail("ok-without-object", "%s returned KSI_OK and no PDU; input=%s", EPNAME[ep], vf_hex(d, n));
				else { ok = 1; aggr_followups(pdu); }
			} else if (render_err) err_render();
			KSI_AggregationPdu_free(pdu);
			break;
		}
		case EP_EXT1: case EP_EXT2: {
			KSI_ExtendPdu *pdu = NULL;
			KSI_CTX_setOption(ctx, KSI_OPT_EXT_PDU_VER, (void *)(size_t)(ep == EP_EXT1 ? 1 : 2));
			CALL(); res = KSI_ExtendPdu_parse(ctx, x.p, n, &pdu); NOTE(res);
			if (res == KSI_OK) {
				if (pdu == NULL) fail("ok-without-object", "%s returned KSI_OK and no PDU; input=%s", EPNAME[ep], vf_hex(d, n));
				else { ok = 1; ext_followups(pdu); }
			} else if (render_err) err_render();
			KSI_ExtendPdu_free(pdu);
			break;
		}
		case EP_PUBFILE: {
			KSI_PublicationsFile *pf = NULL;
			CALL(); res = KSI_PublicationsFile_parse(ctx, x.p, n, &pf); NOTE(res);
			if (res == KSI_OK) {
				if (pf == NULL) fail("ok-without-object", "%s returned KSI_OK and no object; input=%s", EPNAME[ep], vf_hex(d, n));
				else { ok = 1; pubfile_followups(pf); }
			} else if (render_err) err_render();
			KSI_PublicationsFile_free(pf);
			break;
		}
		case EP_TLV: {
			KSI_TLV *t = NULL;
			CALL(); res = KSI_TLV_parseBlob(ctx, x.p, n, &t); NOTE(res);
			if (res == KSI_OK) {
				if (t == NULL) fail("ok-without-object", "%s returned KSI_OK and no object; input=%s", EPNAME[ep], vf_hex(d, n));
				else { ok = 1; tlv_followups(t, n); }
			} else if (render_err) err_render();
			KSI_TLV_free(t);
			break;
		}
		case EP_FTLV: {
			KSI_FTLV f, arr[4];
			size_t rd = 0;
			exact_leak_check = 1;
			memset(&f, 0, sizeof f);
			CALL(); res = KSI_FTLV_memRead(x.p, n, &f); NOTE(res);
			if (res == KSI_OK) {
				ok = 1;
				NOTE(f.tag); NOTE(f.hdr_len); NOTE(f.dat_len);
				if (f.hdr_len + f.dat_len > n) fail("ftlv-beyond-input", "KSI_FTLV_memRead reports hdr %zu + len %zu for an input of %zu bytes (%s)", f.hdr_len, f.dat_len, n, vf_hex(d, n));
				else g_sink += (size_t)vf_fnv(x.p + f.hdr_len, f.dat_len, 0);
			}
			CALL(); res = KSI_FTLV_memReadN(x.p, n, NULL, 0, &rd); NOTE(res); NOTE(rd);
			rd = 0; memset(arr, 0, sizeof arr);
			CALL(); res = KSI_FTLV_memReadN(x.p, n, arr, 4, &rd); NOTE(res); NOTE(rd);
			if (res == KSI_OK) {
				size_t i;
				for (i = 0; i < rd && i < 4; i++) {
					if (arr[i].off + arr[i].hdr_len + arr[i].dat_len > n) { fail("ftlv-beyond-input", "KSI_FTLV_memReadN element %zu: off %zu hdr %zu len %zu for an input of %zu bytes", i, arr[i].off, arr[i].hdr_len, arr[i].dat_len, n); break; }
					g_sink += (size_t)vf_fnv(x.p + arr[i].off, arr[i].hdr_len + arr[i].dat_len, 0);
				}
			}
			break;
		}
		case EP_ELEM: case EP_ELEMX: {
			KSI_TlvElement *e = NULL;
			exact_leak_check = 1;
			CALL(); res = KSI_TlvElement_parse(x.p, n, &e); NOTE(res);
			if (res == KSI_OK) {
				if (e == NULL) fail("ok-without-object", "%s returned KSI_OK and no object; input=%s", EPNAME[ep], vf_hex(d, n));
				else { ok = 1; elem_followups(e, ep == EP_ELEMX); }
			}
			KSI_TlvElement_free(e);
			break;
		}
		case EP_B32: {
			/* d is a C string of n bytes; the block holds the terminator and nothing more */
			KSI_PublicationData *pd = NULL;
			xblock s;
			char *z = (char *)malloc(n + 1);
			memcpy(z, d, n); z[n] = 0;
			s = xb_make(z, n + 1); free(z);
			CALL(); res = KSI_PublicationData_fromBase32(ctx, (const char *)s.p, &pd); NOTE(res);
			if (res == KSI_OK) {
				if (pd == NULL) fail("ok-without-object", "%s returned KSI_OK and no object; input=%s", EPNAME[ep], vf_hex(d, n));
				else { ok = 1; st_follow++; pubdata_touch(pd); }
			} else if (render_err) err_render();
			KSI_PublicationData_free(pd);
			xb_free(&s);
			break;
		}
		case EP_URI: {
			char *scheme = NULL, *host = NULL, *path = NULL;
			unsigned port = 0;
			xblock s;
			char *z = (char *)malloc(n + 1);
			exact_leak_check = 1;
			memcpy(z, d, n); z[n] = 0;
			s = xb_make(z, n + 1); free(z);
			CALL(); res = KSI_UriSplitBasic((const char *)s.p, &scheme, &host, &port, &path); NOTE(res);
			if (res == KSI_OK) { ok = 1; NOTE(port); }
			if (scheme) g_sink += strlen(scheme);
			if (host) g_sink += strlen(host);
			if (path) g_sink += strlen(path);
			KSI_free(scheme); KSI_free(host); KSI_free(path);
			xb_free(&s);
			break;
		}
		case EP_HASHNAME: {
			KSI_HashAlgorithm id;
			xblock s;
			char *z = (char *)malloc(n + 1);
			exact_leak_check = 1;
			memcpy(z, d, n); z[n] = 0;
			s = xb_make(z, n + 1); free(z);
			CALL(); id = KSI_getHashAlgorithmByName((const char *)s.p); NOTE(id);
			if ((int)id != -1) {
				const char *nm = KSI_getHashAlgorithmName(id);
				ok = 1;
				if (nm == NULL) fail("hashname-unknown-id", "KSI_getHashAlgorithmByName(%s) returned id %d that has no name", vf_hex(d, n), (int)id);
				else g_sink += strlen(nm);
				NOTE(KSI_isHashAlgorithmSupported(id)); NOTE(KSI_isHashAlgorithmTrusted(id)); NOTE(KSI_getHashLength(id));
			}
			xb_free(&s);
			break;
		}
	}
	if (exact_leak_check && vf_alloc_live != live_before) {
		/* entry points that do not keep anything in the context: exact accounting per call */
		fail(ep_leak_sig(ep), "%ld SDK block(s) still allocated after the call and after freeing what it returned; entry point %s, input (%zu bytes)=%s", vf_alloc_live - live_before, EPNAME[ep], n, vf_hex(d, n));
		g_exact_leaked += vf_alloc_live - live_before;
		g_case_leaked[ep] += vf_alloc_live - live_before;
	}
	xb_free(&x);
	if (!g_quiet) { if (ok) st_ok[ep]++; else st_err[ep]++; }
	return ok;
}

/* ------------------------------------------------------------------ batches
 * A batch is a deterministic sequence of items; item i yields one input and the entry points it goes to. */
typedef struct batch {
	long count;
	int (*get)(struct batch *b, long i, vbuf *out, int *eps);   /* returns number of entry points (0 = skip item) */
	int userpub;          /* signature follow-ups need the user publications file */
	int render_stride;    /* error trace rendered for every k-th item (1 = all) */
	void *u; long a, b2, c;
} batch;

/* runs items [lo,hi) on a fresh context. Returns bit 1 = leak, bit 2 = sentinel changed */
static int probe(batch *b, long lo, long hi, int loglevel, int only_ep, long *leaked) {
	vbuf in;
	int eps[EP_N], ne, k, bad = 0;
	uint64_t s0, s1;
	long i, lk;
	vb_init(&in);
	ctx_open(loglevel, b->userpub);
	g_exact_leaked = 0;
	s0 = sentinel();
	for (i = lo; i < hi; i++) {
		vb_reset(&in);
		ne = b->get(b, i, &in, eps);
		if (ne <= 0) continue;
		if (!g_quiet) st_inputs++;
		for (k = 0; k < ne; k++) {
			if (only_ep >= 0 && eps[k] != only_ep) continue;
			run_input(eps[k], in.p, in.n, b->render_stride <= 1 || (i % b->render_stride) == 0);
		}
	}
	s1 = sentinel();
	lk = ctx_close() - g_exact_leaked;   /* per-call exact findings were reported where they happened */
	if (leaked) *leaked = lk;
	if (lk != 0) bad |= 1;
	if (s0 != s1) bad |= 2;
	vb_free(&in);
	return bad;
}

static void run_batch(batch *b, int loglevel) {
	long leaked = 0;
	int bad = probe(b, 0, b->count, loglevel, -1, &leaked), ep, found = 0;
	vbuf in;
	if (!bad) return;
	{
	/* attribution, per entry point: the whole batch through that entry point only on a fresh context, then
	 * bisection to the first item that reproduces the problem alone (not counted in the statistics) */
	long keep_calls = st_calls, keep_follow = st_follow;
	uint64_t keep_hash = st_hash;
	g_quiet = 1;
	vb_init(&in);
	for (ep = 0; ep < EP_N; ep++) {
		long lo = 0, hi = b->count, lk = 0;
		int eps[EP_N], r, what;
		if (!st_ok[ep] && !st_err[ep]) continue;
		what = probe(b, 0, b->count, loglevel, ep, &lk) & bad;
		if (!what) continue;
		while (hi - lo > 1) {
			long mid = lo + (hi - lo) / 2;
			if (probe(b, lo, mid, loglevel, ep, NULL) & what) hi = mid; else lo = mid;
		}
		r = probe(b, lo, lo + 1, loglevel, ep, &lk) & what;
		vb_reset(&in);
		b->get(b, lo, &in, eps);
		g_quiet = 0;
		if (r & 1) { found |= 1; fail(ep_leak_sig(ep), "%ld SDK block(s) still allocated after the call, freeing what it returned and freeing the context; entry point %s, log level %s, input (%zu bytes)=%s",
		                              lk, EPNAME[ep], loglevel ? "debug" : "none", in.n, vf_hex(in.p, in.n)); }
		if (r & 2) { found |= 2; fail("ctx-damaged", "sentinel parse/verify on the same context differs after the call; entry point %s, input (%zu bytes)=%s", EPNAME[ep], in.n, vf_hex(in.p, in.n)); }
		g_quiet = 1;
	}
	g_quiet = 0;
	st_calls = keep_calls; st_follow = keep_follow; st_hash = keep_hash;
	vb_free(&in);
	if ((bad & 1) && !(found & 1)) fail("leak:batch", "%ld SDK block(s) still allocated after the batch of %ld items (log level %s); not reproduced by a single item", leaked, b->count, loglevel ? "debug" : "none");
	if ((bad & 2) && !(found & 2)) fail("ctx-damaged", "sentinel result changed during the batch of %ld items; not reproduced by a single item", b->count);
	}
}

/* ------------------------------------------------------------------ seeds */
enum { ST_SIG = 0, ST_AGGR, ST_EXT, ST_PUBFILE, ST_TLV };
static const char *STNAME[] = {"signature", "aggregation-pdu", "extension-pdu", "publications-file", "tlv"};
typedef struct { size_t off, hdr, len; int parent, is16; unsigned tag; int nc, fw; } el_t;
typedef struct {
	char name[160];
	unsigned char *d; size_t n;
	int type, quick;
	size_t base;              /* offset of the first TLV (8 for the publications file magic) */
	el_t *el; int nel, cap;
	unsigned char *ishdr;     /* 1 for offsets that belong to a TLV header (or the file magic) */
} seed_t;
#define MAXSEEDS 600
static seed_t SEEDS[MAXSEEDS];
static int NSEEDS;

static void walk(seed_t *s, size_t off, size_t end, int parent, int depth) {
	while (off < end) {
		rtlv t;
		el_t *e;
		int me;
		if (rtlv_read(s->d + off, end - off, &t) != 0) return;
		if (s->nel == s->cap) { s->cap = s->cap ? s->cap * 2 : 64; s->el = (el_t *)realloc(s->el, sizeof(el_t) * (size_t)s->cap); }
		me = s->nel++;
		e = &s->el[me];
		memset(s->ishdr + off, 1, t.hdr);
		e->off = off; e->hdr = t.hdr; e->len = t.len; e->parent = parent; e->is16 = t.is16; e->tag = t.tag; e->nc = t.nc; e->fw = t.fw;
		if (t.len > 0 && depth < 12 && rtlv_count(t.val, t.len) > 0) walk(s, off + t.hdr, off + t.hdr + t.len, me, depth + 1);
		off += t.hdr + t.len;
	}
}

static void add_seed(const char *name, const unsigned char *d, size_t n) {
	seed_t *s;
	if (NSEEDS >= MAXSEEDS) vf_harness_error("too many seeds");
	s = &SEEDS[NSEEDS++];
	memset(s, 0, sizeof *s);
	snprintf(s->name, sizeof s->name, "%s", name);
	s->d = (unsigned char *)malloc(n ? n : 1);
	if (n) memcpy(s->d, d, n);
	s->n = n;
	s->type = ST_TLV;
	if (n >= 8 && memcmp(d, "KSIPUBLF", 8) == 0) { s->type = ST_PUBFILE; s->base = 8; }
	else if (n >= 2) {
		/* the tag of the first header decides (the element itself need not fit) */
		unsigned tag = (d[0] & 0x80) ? (n >= 2 ? (((unsigned)d[0] & 0x1f) << 8) | d[1] : 0) : (d[0] & 0x1fu);
		if (tag == 0x800) s->type = ST_SIG;
		else if (tag == 0x200 || tag == 0x220 || tag == 0x221) s->type = ST_AGGR;
		else if (tag == 0x300 || tag == 0x320 || tag == 0x321) s->type = ST_EXT;
	}
	s->ishdr = (unsigned char *)calloc(n + 1, 1);
	memset(s->ishdr, 1, s->base);
	walk(s, s->base, s->n, -1, 0);
}

static int cmp_str(const void *a, const void *b) { return strcmp(*(const char *const *)a, *(const char *const *)b); }
static const char *repo_dir(void) { const char *r = getenv("VERIF_REPO"); return (r && *r) ? r : "/repo"; }

static void load_dir(const char *rel) {
	char path[1024], *names[800];
	int n = 0, i;
	DIR *dp;
	struct dirent *de;
	snprintf(path, sizeof path, "%s/test/resource/tlv%s%s", repo_dir(), *rel ? "/" : "", rel);
	dp = opendir(path);
	if (!dp) { if (!*rel) vf_harness_error("cannot open %s", path); return; }
	while ((de = readdir(dp)) != NULL && n < 800) {
		const char *dot = strrchr(de->d_name, '.');
		if (!dot) continue;
		if (strcmp(dot, ".ksig") && strcmp(dot, ".tlv") && strcmp(dot, ".bin") && strcmp(dot, ".gtts")) continue;
		names[n++] = strdup(de->d_name);
	}
	closedir(dp);
	qsort(names, (size_t)n, sizeof names[0], cmp_str);
	for (i = 0; i < n; i++) {
		char fp[1400], nm[300];
		struct stat st;
		FILE *f;
		snprintf(fp, sizeof fp, "%s/%s", path, names[i]);
		snprintf(nm, sizeof nm, "%s%s%s", rel, *rel ? "/" : "", names[i]);
		if (stat(fp, &st) == 0 && S_ISREG(st.st_mode) && st.st_size <= 70000 && (f = fopen(fp, "rb")) != NULL) {
			unsigned char *buf = (unsigned char *)malloc((size_t)st.st_size + 1);
			size_t got = fread(buf, 1, (size_t)st.st_size, f);
			fclose(f);
			add_seed(nm, buf, got);
			free(buf);
		}
		free(names[i]);
	}
}

static unsigned mkdesc(int dir, int kind, int corr) { return (unsigned)(dir | (kind << 1) | (corr << 3)); }
static void ref_sig_params(rs_params *p, int tail, int rfc) {
	rs_default_params(p);
	p->nchains = 2; p->tail = tail; p->with_rfc3161 = rfc;
	p->aggr_time = 1600000000ULL; p->pub_time = 1600000000ULL + 86400 * 9 + 5;
	p->nlinks[0] = 2; p->chain_alg[0] = RH_SHA256;
	p->link_desc[0][0] = mkdesc(1, 2, 1);        /* left, metadata with padding, level correction 1 */
	p->link_desc[0][1] = mkdesc(0, 1, 0);        /* right, legacy id */
	p->nlinks[1] = 2; p->chain_alg[1] = RH_SHA512;
	p->link_desc[1][0] = mkdesc(1, 0, 0);
	p->link_desc[1][1] = mkdesc(0, 3, 2);        /* right, metadata without padding */
}

static void add_ref_seeds(void) {
	int tail, rfc, ver, kind;
	vbuf b, pl, body;
	char nm[64];
	vb_init(&b); vb_init(&pl); vb_init(&body);
	for (tail = 0; tail <= 3; tail++) for (rfc = 0; rfc <= 1; rfc++) {
		rs_params p;
		rsig s;
		ref_sig_params(&p, tail, rfc);
		rs_build(&s, &p);
		/* the second metadata link also carries machine id, sequence number (three octets: beyond the SDK's pool of small
		 * integers) and request time */
		ref_meta_seqnr = (tail == 3 && rfc == 0) ? 256 : (tail == 2) ? 65536 : 70007;   /* 256: the first value beyond the pool */
		ref_link_meta(&s.ch[1].links[1], 0, "cl", 0, 1, 2);
		ref_meta_seqnr = 7;
		if (rs_fix(&s, RS_FIX_INPUTS | RS_FIX_CAL_IN | RS_FIX_TAIL) != 0) vf_harness_error("reference seed");
		vb_reset(&b); rs_serialize(&s, &b);
		snprintf(nm, sizeof nm, "ref:sig.tail%d.rfc%d", tail, rfc);
		add_seed(nm, b.p, b.n);
	}
	for (ver = 1; ver <= 2; ver++) for (kind = RP_AGGR; kind <= RP_EXT; kind++) {
		rp_env e;
		const char *kn = kind == RP_AGGR ? "aggr" : "ext";
		unsigned char h[RH_MAX_IMPRINT];
		size_t hl = ref_fake_imprint(RH_SHA256, 12, h);
		memset(&e, 0, sizeof e);
		e.version = ver; e.kind = kind; e.login = REFLOGIN; e.mac_alg = RH_SHA256; e.key = REFKEY; e.keylen = strlen(REFKEY);
		e.with_ids = 1; e.instance_id = 7; e.message_id = 300;
		/* response */
		vb_reset(&pl); vb_reset(&body); vb_reset(&b);
		if (kind == RP_AGGR) {
			rsig s;
			rp_aggregate(&s, h, hl, 0, 3, 3, 1700000000ULL, 1700000000ULL + 86400 * 3);
			rp_sig_body(&s, &body);
			rp_aggr_resp_payload(&pl, ver, 0x1234, 1, 0, NULL, body.p, body.n);
		} else {
			rsig c;
			rp_extend(&c, h, hl, 1600000000ULL, 1600000000ULL + 86400 * 30 + 3);
			rs_serialize_cal(&c, &body);
			rp_ext_resp_payload(&pl, ver, 0x1234, 1, 0, NULL, 1, 1700000000ULL, body.p, body.n);
		}
		rp_wrap_response(&b, &e, pl.p, pl.n);
		snprintf(nm, sizeof nm, "ref:%s-resp.v%d", kn, ver); add_seed(nm, b.p, b.n);
		/* response with an error status and message */
		vb_reset(&pl); vb_reset(&b);
		if (kind == RP_AGGR) rp_aggr_resp_payload(&pl, ver, 0x1234, 1, 0x0101, "request refused", NULL, 0);
		else rp_ext_resp_payload(&pl, ver, 0x1234, 1, 0x0104, "invalid time range", 0, 0, NULL, 0);
		rp_wrap_response(&b, &e, pl.p, pl.n);
		snprintf(nm, sizeof nm, "ref:%s-status.v%d", kn, ver); add_seed(nm, b.p, b.n);
		/* error PDU */
		vb_reset(&pl); vb_reset(&b);
		rp_error_payload(&pl, ver, kind, 0x0102, "authentication failure");
		rp_wrap_response(&b, &e, pl.p, pl.n);
		snprintf(nm, sizeof nm, "ref:%s-error.v%d", kn, ver); add_seed(nm, b.p, b.n);
		/* request */
		vb_reset(&pl); vb_reset(&body); vb_reset(&b);
		rtlv_put_u64(&body, 0x01, 0x4321);
		if (kind == RP_AGGR) { rtlv_put(&body, 0x02, 0, 0, h, hl, 0); rtlv_put_u64(&body, 0x03, 3); }
		else { rtlv_put_u64(&body, 0x02, 1600000000ULL); rtlv_put_u64(&body, 0x03, 1600900000ULL); }
		rtlv_put(&pl, ver == 2 ? 0x02u : (kind == RP_AGGR ? 0x201u : 0x301u), 0, 0, body.p, body.n, 0);
		rp_wrap_request(&b, &e, pl.p, pl.n);
		snprintf(nm, sizeof nm, "ref:%s-req.v%d", kn, ver); add_seed(nm, b.p, b.n);
		if (ver == 2) {
			/* the same request with integers beyond 32 bits whose low half is small (2^32+5 as request id, 2^32+3 / 2^63 in the other fields) */
			vb_reset(&pl); vb_reset(&body); vb_reset(&b);
			rtlv_put_u64(&body, 0x01, 0x100000005ULL);
			if (kind == RP_AGGR) { rtlv_put(&body, 0x02, 0, 0, h, hl, 0); rtlv_put_u64(&body, 0x03, 3); }
			else { rtlv_put_u64(&body, 0x02, 0x100000003ULL); rtlv_put_u64(&body, 0x03, 0x8000000000000000ULL); }
			rtlv_put(&pl, 0x02u, 0, 0, body.p, body.n, 0);
			rp_wrap_request(&b, &e, pl.p, pl.n);
			snprintf(nm, sizeof nm, "ref:%s-req-wide-integers.v%d", kn, ver); add_seed(nm, b.p, b.n);
		}
		if (ver == 2) {
			/* configuration response (alone, and together with a response) */
			vb_reset(&pl); vb_reset(&b);
			if (kind == RP_AGGR) rp_aggr_conf_payload(&pl, 17, 1, 400, 1024, "ksi+tcp://parent.sim.invalid:3332");
			else rp_ext_conf_payload(&pl, 4, "ksi+http://parent.sim.invalid/ext", 1400000000, 1700000000);
			rp_wrap_response(&b, &e, pl.p, pl.n);
			snprintf(nm, sizeof nm, "ref:%s-conf.v%d", kn, ver); add_seed(nm, b.p, b.n);
			/* configuration request */
			vb_reset(&pl); vb_reset(&b);
			rtlv_put(&pl, 0x04, 0, 0, NULL, 0, 0);
			rp_wrap_request(&b, &e, pl.p, pl.n);
			snprintf(nm, sizeof nm, "ref:%s-confreq.v%d", kn, ver); add_seed(nm, b.p, b.n);
		}
	}
	{
		/* a publication record whose reference string is present but empty (09 01 00): refused, and refused cleanly */
		rs_params p;
		rsig s2;
		vbuf o;
		size_t off;
		rs_default_params(&p);
		p.tail = 2;
		rs_build(&s2, &p);
		vb_init(&o);
		rs_serialize(&s2, &o);
		/* append 09 01 00 to the publication record (the last element of the signature) and lengthen both enclosing TLV16 headers */
		{
			rtlv top, e;
			size_t last = 0;
			if (rtlv_read(o.p, o.n, &top) != 0) vf_harness_error("pubref seed");
			for (off = top.hdr; off < o.n && rtlv_read(o.p + off, o.n - off, &e) == 0; off += e.hdr + e.len) last = off;
			if (rtlv_read(o.p + last, o.n - last, &e) == 0 && e.tag == 0x803 && e.hdr == 4 && top.hdr == 4) {
				unsigned l1 = (unsigned)top.len + 3, l2 = (unsigned)e.len + 3;
				vb_put(&o, "\x09\x01\x00", 3);
				o.p[2] = (unsigned char)(l1 >> 8); o.p[3] = (unsigned char)l1;
				o.p[last + 2] = (unsigned char)(l2 >> 8); o.p[last + 3] = (unsigned char)l2;
				add_seed("ref:sig.pubref-empty-string", o.p, o.n);
			}
		}
		vb_free(&o);
	}
	{
		/* the zero-length imprint at the very end of the buffer, in its smallest form: signature { aggregation chain { input hash, length 0 } } */
		static const unsigned char Z[] = {0x88, 0x00, 0x00, 0x06, 0x88, 0x01, 0x00, 0x02, 0x05, 0x00};
		add_seed("ref:sig.zero-length-input-hash", Z, sizeof Z);
	}
	vb_free(&b); vb_free(&pl); vb_free(&body);
}

static const char *QUICK_SEEDS[] = {
	"ref:sig.tail3.rfc0", "ref:sig.tail2.rfc1", "ref:aggr-resp.v2", "ref:aggr-resp.v1", "ref:ext-resp.v2", "ref:ext-resp.v1", "ref:aggr-error.v2",
	"ref:ext-conf.v2", "ref:sig.zero-length-input-hash", "ok-sig-metadata-with-padding.ksig", "rfc3161-sha1-as-input-hash-2017.ksig", "ok_nested-9.tlv",
	"publications-one-cert-one-publication-record-with-wrong-hash.tlv", "ref:pubfile.large-unknown-record", "ref:pubfile.sha512-publication", "ref:pubfile.long-references", "ref:ext-req-wide-integers.v2", "ref:sig.pubref-empty-string", NULL
};

static void load_seeds(void) {
	int i, k;
	vbuf b;
	add_ref_seeds();
	load_dir("");
	load_dir("v2");
	{
		/* a publications file that carries a large unknown non-critical record in front of its signature record (the parser skips it, a
		 * re-serialization drops it: the rebuilt file is much shorter than the bytes that were parsed) */
		int n0 = NSEEDS;
		for (i = 0; i < n0; i++) if (!strcmp(SEEDS[i].name, "publications-one-cert-one-publication-record-with-wrong-hash.tlv")) {
			const unsigned char *d = SEEDS[i].d;
			size_t n = SEEDS[i].n, off = 8;
			rtlv t;
			while (off < n && rtlv_read(d + off, n - off, &t) == 0 && t.tag != 0x704) off += t.hdr + t.len;
			if (off < n && t.tag == 0x704) {
				vbuf o, pad;
				size_t padn = t.hdr + t.len + 1000, j;
				vb_init(&o); vb_init(&pad);
				for (j = 0; j < padn; j++) vb_putc(&pad, (unsigned char)(j * 7 + 1));
				vb_put(&o, d, off);
				rtlv_put(&o, 0x710, 1, 0, pad.p, pad.n, 1);
				vb_put(&o, d + off, n - off);
				add_seed("ref:pubfile.large-unknown-record", o.p, o.n);
				vb_free(&o); vb_free(&pad);
				{
					/* the same file with a further publication record whose imprint is a SHA2-512 one (the longest rendering of a record) */
					vbuf o2, pd, rec;
					unsigned char imp[65];
					vb_init(&o2); vb_init(&pd); vb_init(&rec);
					imp[0] = 0x05; for (j = 1; j < 65; j++) imp[j] = (unsigned char)(j * 3);
					rtlv_put_u64(&pd, 0x02, 1500000000ULL);
					rtlv_put(&pd, 0x04, 0, 0, imp, 65, 0);
					rtlv_put(&rec, 0x10, 0, 0, pd.p, pd.n, 0);
					vb_put(&o2, d, off);
					rtlv_put(&o2, 0x703, 0, 0, rec.p, rec.n, 0);
					vb_put(&o2, d + off, n - off);
					add_seed("ref:pubfile.sha512-publication", o2.p, o2.n);
					{
						/* and one whose publication record carries three references of 300 characters each (a rendering much longer than a small buffer) */
						vbuf o3, rec3;
						char ref[302];
						int q;
						vb_init(&o3); vb_init(&rec3);
						rtlv_put(&rec3, 0x10, 0, 0, pd.p, pd.n, 0);
						for (q = 0; q < 3; q++) { memset(ref, 'a' + q, 300); ref[300] = 0; rtlv_put(&rec3, 0x09, 0, 0, (const unsigned char *)ref, 301, 0); }
						vb_put(&o3, d, off);
						rtlv_put(&o3, 0x703, 0, 0, rec3.p, rec3.n, 0);
						vb_put(&o3, d + off, n - off);
						add_seed("ref:pubfile.long-references", o3.p, o3.n);
						vb_free(&o3); vb_free(&rec3);
					}
					vb_free(&o2); vb_free(&pd); vb_free(&rec);
				}
			}
		}
	}
	{
		/* a publications file of more than 65535 bytes (its publication records repeated): it parses, but cannot be written back as one
		 * 16-bit TLV; offered as it is only (the entry point and its follow-ups: look-ups, refused serialization, verification, release) */
		int n0 = NSEEDS;
		for (i = 0; i < n0; i++) if (!strcmp(SEEDS[i].name, "ksi-publications.bin")) {
			const unsigned char *d = SEEDS[i].d;
			size_t n = SEEDS[i].n, off = 8, p0 = 0, p1 = 0;
			rtlv t;
			while (off < n && rtlv_read(d + off, n - off, &t) == 0) {
				if (t.tag == 0x703) { if (!p0) p0 = off; p1 = off + t.hdr + t.len; }
				off += t.hdr + t.len;
			}
			if (p0 && p1 > p0) {
				vbuf o;
				vb_init(&o);
				vb_put(&o, d, p1);
				while (o.n + (n - p1) <= 66000) vb_put(&o, d + p0, p1 - p0);
				vb_put(&o, d + p1, n - p1);
				add_seed("big:pubfile.over-64k", o.p, o.n);
				SEEDS[NSEEDS - 1].quick = 1;
				vb_free(&o);
			}
		}
	}
	for (i = 0; i < NSEEDS; i++) for (k = 0; QUICK_SEEDS[k]; k++) if (!strcmp(SEEDS[i].name, QUICK_SEEDS[k])) SEEDS[i].quick = 1;
	/* user publications file of the rich verification context */
	vb_init(&g_userpub_bytes);
	for (i = 0; i < NSEEDS; i++) if (!strcmp(SEEDS[i].name, "ksi-publications.bin")) vb_put(&g_userpub_bytes, SEEDS[i].d, SEEDS[i].n);
	/* sentinel signature */
	{
		rs_params p;
		rsig s;
		ref_sig_params(&p, 2, 0);
		p.aggr_time = 1650000000ULL; p.pub_time = 1650000000ULL + 86400 * 4;
		rs_build(&s, &p);
		vb_init(&b); rs_serialize(&s, &b);
		g_sentinel = b;
	}
}
static int seed_selected(const seed_t *s) { return VF_THOROUGH || s->quick; }

static int seed_eps(const seed_t *s, int *eps) {
	switch (s->type) {
		case ST_SIG: eps[0] = EP_SIG_EMPTY; eps[1] = EP_SIG_INT; eps[2] = EP_TLV; eps[3] = EP_ELEM; eps[4] = EP_ELEMX; eps[5] = EP_FTLV; return 6;
		case ST_AGGR: eps[0] = EP_AGGR1; eps[1] = EP_AGGR2; return 2;
		case ST_EXT: eps[0] = EP_EXT1; eps[1] = EP_EXT2; return 2;
		case ST_PUBFILE: eps[0] = EP_PUBFILE; return 1;
		default: eps[0] = EP_TLV; eps[1] = EP_ELEM; eps[2] = EP_ELEMX; eps[3] = EP_FTLV; return 4;
	}
}

/* ------------------------------------------------------------------ (ii) mutation families */
#define BIG_SEED 8192
enum { F_ID = 0, F_TRUNC, F_BYTE, F_LEN, F_ZEND, F_SWEEP, F_LEGACY, F_N };
static const char *FNAME[F_N] = {"id", "trunc", "byte", "len", "zend", "sweep", "legacy"};

static long fam_count(const seed_t *s, int fam) {
	switch (fam) {
		case F_ID: return 1;
		case F_TRUNC: return s->n ? (long)s->n - 1 : 0;     /* prefixes of length 1..n-1; the empty input is the case short:<entry point>:empty */
		case F_BYTE: return (long)s->n * 6;
		case F_LEN: return (long)s->nel * 5;
		case F_SWEEP: return (long)s->n * 256;
		case F_LEGACY: return (long)s->nel * 96;
		default: return (long)s->nel;
	}
}

static void put_hdr(vbuf *out, const el_t *e, size_t len) {
	unsigned char h[4];
	if (e->is16 || len > 0xff || e->tag > 0x1f) {
		h[0] = (unsigned char)(0x80 | (e->nc ? 0x40 : 0) | (e->fw ? 0x20 : 0) | ((e->tag >> 8) & 0x1f));
		h[1] = (unsigned char)(e->tag & 0xff); h[2] = (unsigned char)((len >> 8) & 0xff); h[3] = (unsigned char)(len & 0xff);
		vb_put(out, h, 4);
	} else {
		h[0] = (unsigned char)((e->nc ? 0x40 : 0) | (e->fw ? 0x20 : 0) | (e->tag & 0x1f)); h[1] = (unsigned char)len;
		vb_put(out, h, 2);
	}
}
static int is_ancestor(const seed_t *s, int a, int t) { while (t >= 0) { if (t == a) return 1; t = s->el[t].parent; } return 0; }
/* element i rebuilt so that target t (a descendant or i itself) is the very last thing, with length 0 */
static void emit_zend(const seed_t *s, int i, int t, vbuf *out) {
	const el_t *e = &s->el[i];
	vbuf pl;
	int c, path = -1;
	if (i == t) { put_hdr(out, e, 0); return; }
	vb_init(&pl);
	for (c = i + 1; c < s->nel && s->el[c].off < e->off + e->hdr + e->len; c++) {
		if (s->el[c].parent != i) continue;
		if (is_ancestor(s, c, t)) { path = c; continue; }
		vb_put(&pl, s->d + s->el[c].off, s->el[c].hdr + s->el[c].len);
	}
	if (path >= 0) emit_zend(s, path, t, &pl);
	if (pl.n > 0xffff) { vb_free(&pl); vb_put(out, s->d + e->off, e->hdr + e->len); return; }
	put_hdr(out, e, pl.n);
	vb_putvb(out, &pl);
	vb_free(&pl);
}

/* quick tier: the sweep covers header bytes, the first four payload bytes of every leaf element (algorithm ids, flags, length
 * octets, leading integer bytes) and every byte of leaves of at most 16 bytes; the thorough tier covers every offset */
static int sweep_quick_offset(const seed_t *s, size_t off) {
	int i, best = -1;
	if (s->ishdr[off]) return 1;
	for (i = 0; i < s->nel; i++) if (off >= s->el[i].off + s->el[i].hdr && off < s->el[i].off + s->el[i].hdr + s->el[i].len) best = i;   /* innermost: elements are in document order */
	if (best < 0) return 1;
	return s->el[best].len <= 16 || off < s->el[best].off + s->el[best].hdr + 4;
}

/* returns 1 when a mutant was produced (0: the mutation is a no-op or a duplicate of an earlier one) */
static int make_mutant(const seed_t *s, int fam, long idx, vbuf *out) {
	switch (fam) {
		case F_ID: vb_put(out, s->d, s->n); return 1;
		case F_TRUNC: vb_put(out, s->d, (size_t)idx + 1); return 1;
		case F_BYTE: {
			size_t off = (size_t)(idx / 6);
			int op = (int)(idx % 6), k;
			unsigned char o = s->d[off], v[6];
			v[0] = 0; v[1] = 0xff; v[2] = (unsigned char)(o ^ 1); v[3] = (unsigned char)(o ^ 0x80); v[4] = (unsigned char)(o + 1); v[5] = (unsigned char)(o - 1);
			if (v[op] == o) return 0;
			if (s->n > BIG_SEED && !s->ishdr[off] && op != 2) return 0;   /* large seeds: payload offsets get ^01 only */
			for (k = 0; k < op; k++) if (v[k] == v[op]) return 0;
			vb_put(out, s->d, s->n);
			out->p[off] = v[op];
			return 1;
		}
		case F_LEGACY: {   /* every 29-octet legacy identifier (tag 03 inside a link) rewritten: string length 0..31 x {letters + zero padding,
		                    * letters to the end, non-zero padding} */
			const el_t *e = &s->el[idx / 96];
			int L = (int)((idx % 96) % 32), var = (int)((idx % 96) / 32), k;
			unsigned char *q;
			if (e->tag != 0x03 || e->len != 29 || e->parent < 0 || (s->el[e->parent].tag != 0x07 && s->el[e->parent].tag != 0x08)) return 0;
			vb_put(out, s->d, s->n);
			q = out->p + e->off + e->hdr;
			q[0] = 0x03; q[1] = 0x00; q[2] = (unsigned char)L;
			for (k = 3; k < 29; k++) q[k] = (k - 3 < L || var == 1) ? (unsigned char)('A' + (k % 23)) : (var == 2 && k == 28) ? 0x01 : 0x00;
			return 1;
		}
		case F_SWEEP: {   /* every offset x every other byte value (the six values of the byte family are done there) */
			size_t off = (size_t)(idx / 256);
			unsigned char o = s->d[off], v = (unsigned char)(idx % 256);
			if (!VF_THOROUGH && !sweep_quick_offset(s, off)) return 0;
			if (v == o || v == 0 || v == 0xff || v == (unsigned char)(o ^ 1) || v == (unsigned char)(o ^ 0x80) || v == (unsigned char)(o + 1) || v == (unsigned char)(o - 1)) return 0;
			vb_put(out, s->d, s->n);
			out->p[off] = v;
			return 1;
		}
		case F_LEN: {
			const el_t *e = &s->el[idx / 5];
			int op = (int)(idx % 5), k;
			size_t max = e->hdr == 4 ? 0xffff : 0xff, v[5];
			v[0] = 0; v[1] = e->len ? e->len - 1 : 0; v[2] = e->len + 1; v[3] = s->n - (e->off + e->hdr); v[4] = 0xffff;
			for (k = 0; k < 5; k++) if (v[k] > max) v[k] = max;
			if (v[op] == e->len) return 0;
			for (k = 0; k < op; k++) if (v[k] == v[op]) return 0;
			vb_put(out, s->d, s->n);
			if (e->hdr == 4) { out->p[e->off + 2] = (unsigned char)(v[op] >> 8); out->p[e->off + 3] = (unsigned char)(v[op] & 0xff); }
			else out->p[e->off + 1] = (unsigned char)v[op];
			return 1;
		}
		default: {
			int t = (int)idx, c;
			/* top level: prefix (magic), every top-level element except the one on the path, then the path element */
			int path = -1;
			vb_put(out, s->d, s->base);
			for (c = 0; c < s->nel; c++) {
				if (s->el[c].parent != -1) continue;
				if (is_ancestor(s, c, t)) { path = c; continue; }
				vb_put(out, s->d + s->el[c].off, s->el[c].hdr + s->el[c].len);
			}
			if (path < 0) return 0;
			emit_zend(s, path, t, out);
			return 1;
		}
	}
}

static int seed_get(batch *b, long i, vbuf *out, int *eps) {
	const seed_t *s = (const seed_t *)b->u;
	if (!make_mutant(s, (int)b->a, b->b2 + i, out)) return 0;
	return seed_eps(s, eps);
}

/* items per case: sized so that a case stays in the range of a second or two (ASan build, idle machine) */
static long chunk_items(const seed_t *s, int fam) {
	double per_item;   /* rough cost of one mutant through all its entry points, microseconds */
	long c;
	if (fam == F_ZEND) return 1;
	if (fam == F_SWEEP) return 16384;
	if (fam == F_LEGACY) return 100000;
	switch (s->type) {
		case ST_SIG: per_item = 300.0 + 1.8 * (double)s->n; break;
		case ST_AGGR: per_item = 200.0 + 1.2 * (double)s->n; break;
		case ST_EXT: per_item = 100.0 + 0.5 * (double)s->n; break;
		case ST_PUBFILE: per_item = 500.0 + 0.5 * (double)s->n; break;
		default: per_item = 30.0 + 0.4 * (double)s->n; break;
	}
	if (fam == F_BYTE && s->n > BIG_SEED) per_item /= 4.0;   /* most indices of the family are skipped for large seeds */
	c = (long)(1.5e6 / per_item);
	if (c < 24) c = 24;
	if (c > 100000) c = 100000;
	return c;
}

static void seed_cases(const seed_t *s, int fam) {
	long total = fam_count(s, fam), ch = chunk_items(s, fam), start;
	int L;
	for (start = 0; start < total; start += ch) for (L = 0; L <= 1; L++) {
		batch b;
		/* debug log level: every family of the quick seeds; for the other seeds every family but the per-offset one */
		if (L == 1 && fam == F_BYTE && !s->quick) continue;
		if (L == 1 && (fam == F_SWEEP || fam == F_LEGACY)) continue;
		if (time_over()) return;
		if (!vf_case_begin("m:%s:%s:%ld:L%d", s->name, FNAME[fam], start / ch, L)) continue;
		memset(&b, 0, sizeof b);
		b.u = (void *)s; b.a = fam; b.b2 = start; b.count = (start + ch <= total) ? ch : total - start;
		b.get = seed_get; b.userpub = (s->type == ST_SIG || s->type == ST_AGGR); b.render_stride = 1;
		stats_reset();
		run_batch(&b, L ? 1 : 0);
		if (start == 0 && L == 0 && fam == F_BYTE) vf_sample("seed %s (%s, %zu bytes, %d TLV elements): every offset x {=00,=ff,^01,^80,+1,-1}, chunk of %ld mutants", s->name, STNAME[s->type], s->n, s->nel, b.count);
		if (fam == F_ZEND && L == 0 && s->el[start].tag == 0x05 && s->el[start].parent >= 0 && s->el[s->el[start].parent].tag == 0x801) {
			vbuf m; vb_init(&m);
			if (make_mutant(s, fam, start, &m)) vf_sample("seed %s: element #%ld (tag %02x inside %04x) moved to the end with length 0 -> %zu bytes ending in ..%s", s->name, start, s->el[start].tag, s->el[s->el[start].parent].tag, m.n, vf_hex(m.p + (m.n > 12 ? m.n - 12 : 0), m.n > 12 ? 12 : m.n));
			vb_free(&m);
		}
		stats_flush();
		vf_case_end(st_calls > 0);
	}
}

#define SMALL_SEED 128
static void part_seeds(int which) {   /* 0: small seeds, all families but zend; 1: other seeds, same; 2: zend of every seed */
	int i, f;
	for (i = 0; i < NSEEDS; i++) {
		const seed_t *s = &SEEDS[i];
		if (!seed_selected(s)) continue;
		if (strncmp(s->name, "big:", 4) == 0) { if (which == 1) seed_cases(s, F_ID); continue; }
		if (which == 2) { seed_cases(s, F_ZEND); continue; }
		if (which == 3) {
			/* full byte sweep: reference-built signatures (quick: the one with legacy-id and metadata links and an authentication
			 * record; thorough: every reference-built seed up to 2000 bytes) */
			if (strncmp(s->name, "ref:", 4) != 0 || s->n > 2000) continue;
			if (!VF_THOROUGH && strcmp(s->name, "ref:sig.tail3.rfc0") != 0) continue;
			seed_cases(s, F_SWEEP);
			seed_cases(s, F_LEGACY);
			continue;
		}
		if ((s->n <= SMALL_SEED) != (which == 0)) continue;
		for (f = F_ID; f < F_ZEND; f++) seed_cases(s, f);
	}
}

/* ------------------------------------------------------------------ (i) all short byte strings */
static const unsigned char SA[12] = {0x00, 0x01, 0x02, 0x04, 0x05, 0x07, 0x08, 0x1f, 0x80, 0x88, 0xff, 0x03};

static int full_get(batch *b, long i, vbuf *out, int *eps) {
	vb_putc(out, (int)b->b2);
	if (i >= 1 && i <= 256) vb_putc(out, (int)(i - 1));
	else if (i > 256) { long k = i - 257; vb_putc(out, (int)(k >> 8)); vb_putc(out, (int)(k & 255)); }
	eps[0] = (int)b->a;
	return 1;
}
static int struct_get(batch *b, long i, vbuf *out, int *eps) {
	long span = 1, len = 0, k;
	unsigned char t[8];
	vb_putc(out, SA[b->b2]); vb_putc(out, SA[b->c]);
	while (i >= span) { i -= span; span *= 12; len++; }
	for (k = len - 1; k >= 0; k--) { t[k] = SA[i % 12]; i /= 12; }
	vb_put(out, t, (size_t)len);
	eps[0] = (int)b->a;
	return 1;
}
static int empty_get(batch *b, long i, vbuf *out, int *eps) { (void)i; (void)out; eps[0] = (int)b->a; return 1; }

static void part_short(void) {
	int ep, L, b0, a0, a1;
	for (L = 0; L <= 1; L++) for (ep = 0; ep < EP_NBIN; ep++) {
		int big = VF_THOROUGH && L == 0;     /* debug log level: the quick bounds in both tiers */
		int maxlen = big ? 7 : 5, k;
		long scount = 0, span = 1;
		for (k = 2; k <= maxlen; k++) { scount += span; span *= 12; }
		if (vf_case_begin("short:%s:empty:L%d", EPNAME[ep], L)) {
			batch b; memset(&b, 0, sizeof b);
			b.a = ep; b.count = 1; b.get = empty_get; b.render_stride = 1; b.userpub = 0;
			stats_reset(); run_batch(&b, L); stats_flush(); vf_case_end(1);
		}
		for (b0 = 0; b0 < 256; b0++) {
			batch b;
			if (time_over()) return;
			if (!vf_case_begin("short:%s:full:%02x:L%d", EPNAME[ep], b0, L)) continue;
			memset(&b, 0, sizeof b);
			b.a = ep; b.b2 = b0; b.count = big ? 1 + 256 + 65536 : 1 + 256; b.get = full_get; b.render_stride = big ? 61 : 1;
			stats_reset(); run_batch(&b, L);
			if (ep == EP_SIG_INT && b0 == 0x88 && L == 0) vf_sample("all byte strings 88, 88 xx%s through KSI_Signature_parse: %ld inputs, %ld accepted", big ? ", 88 xx yy" : "", b.count, st_ok[ep]);
			stats_flush(); vf_case_end(1);
		}
		for (a0 = 0; a0 < 12; a0++) for (a1 = 0; a1 < 12; a1++) {
			batch b;
			if (time_over()) return;
			if (!vf_case_begin("short:%s:struct:%02x%02x:L%d", EPNAME[ep], SA[a0], SA[a1], L)) continue;
			memset(&b, 0, sizeof b);
			b.a = ep; b.b2 = a0; b.c = a1; b.count = scount; b.get = struct_get; b.render_stride = big ? 61 : 7;
			stats_reset(); run_batch(&b, L);
			if (ep == EP_TLV && a0 == 1 && a1 == 4 && L == 0) vf_sample("all strings 01 04 s, s over the 12 byte structural alphabet, |s| <= %d, through KSI_TLV_parseBlob: %ld inputs, %ld accepted", maxlen - 2, b.count, st_ok[ep]);
			stats_flush(); vf_case_end(1);
		}
	}
}

/* ------------------------------------------------------------------ (iii) text entry points */
#define NTA 129
static unsigned char TA[NTA];
static void init_ta(void) { int i; for (i = 0; i < 127; i++) TA[i] = (unsigned char)(i + 1); TA[127] = 0x80; TA[128] = 0xff; }

/* all strings of length 1..3 whose first character index is in [b2, c) */
static int text_get(batch *b, long i, vbuf *out, int *eps) {
	long per = 1 + NTA + (long)NTA * NTA, first = b->b2 + i / per, r = i % per;
	vb_putc(out, TA[first]);
	if (r >= 1 && r <= NTA) vb_putc(out, TA[r - 1]);
	else if (r > NTA) { long k = r - 1 - NTA; vb_putc(out, TA[k / NTA]); vb_putc(out, TA[k % NTA]); }
	eps[0] = (int)b->a;
	return 1;
}

/* single character edits of a base string: 0 = the string itself, deletions, substitutions, insertions */
static const unsigned char EDITC[] = {'-', '_', '0', '1', '2', '9', 'A', 'a', 'Z', 'z', ',', ' ', '=', 0x80, 0xff};
#define NEDITC ((long)sizeof EDITC)
static long edit_count(size_t m) { return 1 + (long)m + (long)m * NEDITC + ((long)m + 1) * NEDITC; }
static void edit_make(const char *s, size_t m, long idx, vbuf *out) {
	if (idx == 0) { vb_put(out, s, m); return; }
	idx--;
	if (idx < (long)m) { vb_put(out, s, (size_t)idx); vb_put(out, s + idx + 1, m - (size_t)idx - 1); return; }
	idx -= (long)m;
	if (idx < (long)m * NEDITC) { vb_put(out, s, m); out->p[out->n - m + (size_t)(idx / NEDITC)] = EDITC[idx % NEDITC]; return; }
	idx -= (long)m * NEDITC;
	vb_put(out, s, (size_t)(idx / NEDITC)); vb_putc(out, EDITC[idx % NEDITC]); vb_put(out, s + idx / NEDITC, m - (size_t)(idx / NEDITC));
}
static int edit_get(batch *b, long i, vbuf *out, int *eps) {
	const char *s = (const char *)b->u;
	edit_make(s, strlen(s), i, out);
	eps[0] = (int)b->a;
	return 1;
}

static void text_case(const char *name, int ep, batch *b, int L) {
	if (time_over()) return;
	if (!vf_case_begin("text:%s:%s:L%d", EPNAME[ep], name, L)) return;
	b->a = ep; b->render_stride = 1;
	stats_reset(); run_batch(b, L);
	if (b->get == edit_get && L == 0) vf_sample("%s: '%s' and each single-character edit of it (%ld strings): %ld accepted, %ld refused", EPNAME[ep], (const char *)b->u, b->count, st_ok[ep], st_err[ep]);
	stats_flush(); vf_case_end(1);
}

static void part_text_short(int ep, int group, int levels) {
	int first, L;
	char nm[32];
	for (L = 0; L < levels; L++) for (first = 0; first < NTA; first += group) {
		batch b; memset(&b, 0, sizeof b);
		b.b2 = first; b.c = first + group > NTA ? NTA : first + group;
		b.count = (b.c - b.b2) * (1 + NTA + (long)NTA * NTA); b.get = text_get;
		snprintf(nm, sizeof nm, "short:%02x-%02x", TA[b.b2], TA[b.c - 1]);
		text_case(nm, ep, &b, L);
	}
}

/* publication strings */
static char PUBSTR[6][200];
static int NPUBSTR;
static void init_pubstr(void) {
	static const int ALG[] = {RH_SHA256, RH_SHA512, RH_SHA1, RH_SHA384, RH_RIPEMD160};
	static const uint64_t TM[] = {1400112000ULL, 1, 0xffffffffULL, 0x123456789abcULL, 1600000000ULL};
	int i;
	for (i = 0; i < 5; i++) {
		unsigned char im[RH_MAX_IMPRINT];
		size_t il = ref_fake_imprint(ALG[i], 40u + (unsigned)i, im);
		ref_pubstring(TM[i], im, il, PUBSTR[i], sizeof PUBSTR[i]);
	}
	NPUBSTR = 5;
	/* a real one (test/resource publication of 2014-04-15) */
	snprintf(PUBSTR[NPUBSTR++], sizeof PUBSTR[0], "%s", "AAAAAA-CTJR3I-AANBWU-RY76YF-7TH2M5-KGEZVA-WLLRGD-3GKYBG-AM5WWV-4MCLSP-XPRDDI-UFMHBA");
}
static int list_get(batch *b, long i, vbuf *out, int *eps) {
	const char *const *l = (const char *const *)b->u;
	vb_put(out, l[i], strlen(l[i]));
	eps[0] = (int)b->a;
	return 1;
}
static void part_pubstring(void) {
	int i, L;
	char nm[32];
	part_text_short(EP_B32, 1, 2);
	for (L = 0; L <= 1; L++) {
		static const char *MISC[] = {"", "-", "--------", "AAAAAA", "AAAAAA-AAAAAA", "AAAAAAAAAAAAAAAAAAAAAAAAAAAAAAAAAAAAAAAAAAAAAAAAAAAAAAAAAAAAAAAAAAAAAAAAAAAAAAAAAAAAAAAAAAAAAAAAAAAAAAAAAAAA",
		                            "77777777", "========", "AAAAAA-CTJR3I-AANBWU-RY76YF-7TH2M5-KGEZVA-WLLRGD-3GKYBG-AM5WWV-4MCLSP-XPRDDI-UFMHBA-AAAAAA"};
		batch b; memset(&b, 0, sizeof b);
		b.u = (void *)MISC; b.count = (long)(sizeof MISC / sizeof *MISC); b.get = list_get;
		text_case("misc", EP_B32, &b, L);
		for (i = 0; i < NPUBSTR; i++) {
			memset(&b, 0, sizeof b);
			b.u = PUBSTR[i]; b.count = edit_count(strlen(PUBSTR[i])); b.get = edit_get;
			snprintf(nm, sizeof nm, "edit%d", i);
			text_case(nm, EP_B32, &b, L);
		}
	}
}

/* URIs */
static char **URIS;
static long NURIS;
static void init_uris(void) {
	static const char *SCH[] = {"", "http://", "https://", "ksi://", "ksi+http://", "ksi+tcp://", "HTTP://", "file://", "ksi+unknown://", "://", "a:", "http:/", "http:"};
	static const char *USR[] = {"", "user:pass@", "user@", ":@", "@", "u%40x:p%3a@", "user:pa:ss@"};
	static const char *HST[] = {"", "localhost", "example.com", "127.0.0.1", "[::1]", "[2001:db8::1]", "[::1", "::1", "[]", "a..b", "-", "xn--bcher-kva.example", "host name"};
	static const char *PRT[] = {"", ":", ":0", ":80", ":65535", ":65536", ":4294967296", ":99999999999999999999", ":-1", ":8a", ":+80"};
	static const char *PTH[] = {"", "/", "/a/b?x=1#frag", "?q", "#f", "//", "/%zz%", "/a b"};
	long cap = (long)(sizeof SCH / sizeof *SCH) * (long)(sizeof USR / sizeof *USR) * (long)(sizeof HST / sizeof *HST) * (long)(sizeof PRT / sizeof *PRT) * (long)(sizeof PTH / sizeof *PTH) + 16;
	size_t a, b, c, d, e;
	char *lng;
	URIS = (char **)calloc((size_t)cap, sizeof *URIS);
	for (a = 0; a < sizeof SCH / sizeof *SCH; a++) for (b = 0; b < sizeof USR / sizeof *USR; b++) for (c = 0; c < sizeof HST / sizeof *HST; c++)
	for (d = 0; d < sizeof PRT / sizeof *PRT; d++) for (e = 0; e < sizeof PTH / sizeof *PTH; e++) {
		char t[256];
		snprintf(t, sizeof t, "%s%s%s%s%s", SCH[a], USR[b], HST[c], PRT[d], PTH[e]);
		URIS[NURIS++] = strdup(t);
	}
	/* very long components */
	lng = (char *)malloc(5200); strcpy(lng, "http://"); memset(lng + 7, 'h', 5000); strcpy(lng + 5007, ":80/path"); URIS[NURIS++] = lng;
	lng = (char *)malloc(5200); memset(lng, 's', 5000); strcpy(lng + 5000, "://host/"); URIS[NURIS++] = lng;
	lng = (char *)malloc(5200); strcpy(lng, "ksi+tcp://host:"); memset(lng + 15, '9', 5000); lng[5015] = 0; URIS[NURIS++] = lng;
	lng = (char *)malloc(5200); strcpy(lng, "http://host/"); memset(lng + 12, 'p', 5000); lng[5012] = 0; URIS[NURIS++] = lng;
	lng = (char *)malloc(5200); strcpy(lng, "http://"); memset(lng + 7, 'u', 5000); strcpy(lng + 5007, "@host/"); URIS[NURIS++] = lng;
}
static void part_uri(void) {
	long start, ch = 8192;
	char nm[32];
	part_text_short(EP_URI, 1, 1);
	for (start = 0; start < NURIS; start += ch) {
		batch b; memset(&b, 0, sizeof b);
		b.u = (void *)(URIS + start); b.count = start + ch <= NURIS ? ch : NURIS - start; b.get = list_get;
		snprintf(nm, sizeof nm, "list%ld", start / ch);
		text_case(nm, EP_URI, &b, 0);
	}
}

/* hash algorithm names (the tables of src/ksi/hash.c) */
static const char *HASHNAMES[] = {"SHA-1", "SHA1", "SHA-256", "SHA2-256", "SHA-2", "SHA2", "SHA256", "DEFAULT", "RIPEMD-160", "RIPEMD160", "SHA-384", "SHA384", "SHA2-384",
                                  "SHA-512", "SHA512", "SHA2-512", "SHA3-224", "SHA3-256", "SHA3-384", "SHA3-512", "SM-3", "SM3", "sha_256", "nonexistent"};
static void part_hashname(void) {
	size_t i;
	{
		/* the known names alone (first 20 entries: every table before SM-3) */
		batch b; memset(&b, 0, sizeof b);
		b.u = (void *)HASHNAMES; b.count = 20; b.get = list_get;
		text_case("known", EP_HASHNAME, &b, 0);
	}
	for (i = 0; i < sizeof HASHNAMES / sizeof *HASHNAMES; i++) {
		batch b; memset(&b, 0, sizeof b);
		b.u = (void *)HASHNAMES[i]; b.count = edit_count(strlen(HASHNAMES[i])); b.get = edit_get;
		text_case(HASHNAMES[i], EP_HASHNAME, &b, 0);
	}
	part_text_short(EP_HASHNAME, 8, 1);
}

/* ------------------------------------------------------------------ self check of the harness */
static void part_selfcheck(void);
static void part_datestring(void);
static void part_selfcheck(void) {
	int i;
	if (!vf_case_begin("selfcheck")) return;
	stats_reset();
	ctx_open(0, 1);
	if (sentinel() != g_sentinel_good) vf_fail("sentinel-not-accepted", "the known good sentinel signature is not parsed / verified / re-serialized identically on a fresh context");
	if (g_userpub_bytes.n && g_userpub == NULL) vf_outcome("selfcheck:user-publications-file-not-parsed");
	if (ctx_close() != 0) vf_fail("leak:batch", "SDK blocks still allocated after the self check context was freed");
	for (i = 0; i < NSEEDS; i++) {
		const seed_t *s = &SEEDS[i];
		batch b;
		long before = 0;
		int e;
		if (strncmp(s->name, "ref:", 4) != 0) continue;
		for (e = 0; e < EP_N; e++) before += st_ok[e];
		memset(&b, 0, sizeof b);
		b.u = (void *)s; b.a = F_ID; b.count = 1; b.get = seed_get; b.userpub = 1; b.render_stride = 1;
		run_batch(&b, 0);
		for (e = 0; e < EP_N; e++) before -= st_ok[e];
		vf_outcome("selfcheck:refseed:%s", before ? "accepted" : "refused");
		if (!before) vf_outcome("selfcheck:refused:%s", s->name);
	}
	vf_obs("seeds=%d", NSEEDS);
	vf_max("seeds", NSEEDS);
	stats_flush();
	vf_case_end(1);
}

/* KSI_Integer_toDateString: every buffer size 1..40 x a set of times (values a parsed object can carry) */
static void part_datestring(void) {
	static const KSI_uint64_t TM[] = {0, 1, 59, 86399, 86400, 951782400ULL, 1400112000ULL, 0x7fffffffULL, 0x80000000ULL, 0xffffffffULL, 253402300799ULL, 253402300800ULL,
	                                  0x7fffffffffffffffULL, 0x8000000000000000ULL, 0xffffffffffffffffULL, 67767976233532799ULL, 67768036191676800ULL};
	size_t i, l;
	if (!vf_case_begin("text:datestring")) return;
	stats_reset();
	ctx_open(0, 0);
	for (i = 0; i < sizeof TM / sizeof *TM; i++) {
		KSI_Integer *v = NULL;
		if (KSI_Integer_new(ctx, TM[i], &v) != KSI_OK) continue;
		for (l = 1; l <= 40; l++) {
			char *b = (char *)malloc(l), *r;
			memset(b, 'x', l);
			CALL(); r = KSI_Integer_toDateString(v, b, l);
			if (r == b && memchr(b, 0, l) == NULL) { fail("tostring-unterminated", "KSI_Integer_toDateString(%llu, buf, %zu) returned the buffer without a terminator (documented: the remainder is discarded and a terminating NUL is guaranteed)", (unsigned long long)TM[i], l); vf_outcome("datestring:unterminated"); }
			else if (r == b) { g_sink += strlen(b); vf_outcome("datestring:ok"); }
			else vf_outcome("datestring:null");
			free(b);
		}
		KSI_Integer_free(v);
	}
	if (ctx_close() != 0) fail("leak:batch", "SDK blocks still allocated");
	stats_flush();
	vf_case_end(1);
}

static void run(void) {
	int res = KSI_OK, rc = KSI_OK, code = KSI_VER_RES_OK, sr = KSI_OK, same = 1;
	uint64_t h = 1469598103934665603ULL;
	h = vf_fnv(&res, sizeof res, h); h = vf_fnv(&rc, sizeof rc, h); h = vf_fnv(&code, sizeof code, h); h = vf_fnv(&sr, sizeof sr, h); h = vf_fnv(&same, sizeof same, h);
	g_sentinel_good = h;
	init_ta(); init_pubstr(); init_uris();
	load_seeds();
	part_selfcheck();
	part_seeds(0);
	part_pubstring();
	part_datestring();
	part_uri();
	part_short();
	part_seeds(1);
	part_seeds(3);
	part_hashname();
	part_seeds(2);
}

int main(int argc, char **argv) {
	vf_driver d = {"C12", run};
	int i, plain = 1;
	double dl = 0;
	for (i = 1; i < argc; i++) {
		if (!strcmp(argv[i], "--deadline") && i + 1 < argc) dl = atof(argv[i + 1]);
		if (!strcmp(argv[i], "--replay") || !strcmp(argv[i], "--list") || !strcmp(argv[i], "--obs-sample")) plain = 0;
	}
	if (plain && dl > 0) g_stop_at = mono() + dl;
	return vf_main(argc, argv, &d);
}
