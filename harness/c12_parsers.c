/* C12 - every parser of untrusted bytes is memory-safe, total and leak-free (DESIGN.md section 3, C12)
 *
 * Bounded-exhaustive enumeration of inputs on the real compiled code. Oracle: sanitizers (a crash inside a
 * case is reported by the runner), the call returns, SDK live-allocation count is back to the baseline after
 * the context of the batch has been freed, a sentinel parse on the same context gives the same result after
 * the batch as before it.
 *
 * Part order (crash-prone parts last, because the runner stops a shard after 40 crashes):
 *   selfcheck, (ii) small seeds, (iii) publication strings + URIs, (i) short byte strings, (ii) other seeds,
 *   (iii) hash algorithm names, (ii) "element moved to the end with length 0" family.
 */
#define _GNU_SOURCE
#include "ku.h"
#include "simnet.h"
#include "ref/ref_sig.h"
#include "ref/ref_pdu.h"
#include <ksi/policy.h>
#include <ksi/net.h>
#include <ksi/fast_tlv.h>
#include <ksi/tlv_element.h>
#include <ksi/pkitruststore.h>
#include <ksi/signature_builder.h>
#include <ksi/signature_helper.h>
#include <dirent.h>
#include <sys/stat.h>

enum { EP_SIG_EMPTY = 0, EP_SIG_INT, EP_AGGR1, EP_AGGR2, EP_EXT1, EP_EXT2, EP_PUBFILE, EP_TLV, EP_FTLV, EP_ELEM, EP_NBIN,
       EP_B32 = EP_NBIN, EP_URI, EP_HASHNAME, EP_N };
static const char *EPNAME[EP_N] = {"sigparse-empty", "sigparse", "aggrpdu-v1", "aggrpdu-v2", "extpdu-v1", "extpdu-v2", "pubfile",
                                   "tlv", "ftlv", "tlvelem", "pubstring", "uri", "hashname"};
#define REFKEY "key-c12"
#define REFLOGIN "user-c12"

/* ------------------------------------------------------------------ per case statistics */
static long st_calls, st_ok[EP_N], st_err[EP_N], st_follow, st_inputs;
static long st_ver[3];               /* verification follow-ups: OK / NA+FAIL / error status */
static long st_pduverify_ok, st_log_calls;
static uint64_t st_hash;
static int g_quiet;                  /* attribution pass: no statistics, no reports from the follow-ups */
static volatile size_t g_sink;
#define NOTE(v) (st_hash = (st_hash ^ (uint64_t)(unsigned)(v)) * 1099511628211ULL)
#define CALL() (st_calls++)

static void stats_reset(void) {
	memset(st_ok, 0, sizeof st_ok); memset(st_err, 0, sizeof st_err); memset(st_ver, 0, sizeof st_ver);
	st_calls = st_follow = st_inputs = st_pduverify_ok = st_log_calls = 0;
	st_hash = 1469598103934665603ULL;
}
static void stats_flush(void) {
	int e;
	for (e = 0; e < EP_N; e++) {
		if (st_ok[e]) { vf_outcome("%s:ok", EPNAME[e]); vf_count(EPNAME[e], st_ok[e]); }
		if (st_err[e]) vf_outcome("%s:err", EPNAME[e]);
		if (st_ok[e] || st_err[e]) vf_obs("%s %ld/%ld", EPNAME[e], st_ok[e], st_err[e]);
	}
	if (st_ver[0]) vf_outcome("verify:OK");
	if (st_ver[1]) vf_outcome("verify:NA-or-FAIL");
	if (st_ver[2]) vf_outcome("verify:error-status");
	if (st_pduverify_ok) vf_outcome("pduverify:ok");
	if (st_log_calls) vf_outcome("debuglog:used");
	vf_obs("h=%016llx calls=%ld", (unsigned long long)st_hash, st_calls);
	vf_count("impl_calls", st_calls);
	vf_count("inputs", st_inputs);
	vf_count("followup_objects", st_follow);
}

static void fail(const char *sig, const char *fmt, ...) __attribute__((format(printf, 2, 3)));
static void fail(const char *sig, const char *fmt, ...) {
	char b[2800];
	va_list ap;
	if (g_quiet) return;
	va_start(ap, fmt);
	vsnprintf(b, sizeof b, fmt, ap);
	va_end(ap);
	vf_fail(sig, "%s", b);
}

/* exactly sized heap block; the empty input is the address just behind a one byte block (malloc(0) would be
 * given one addressable byte) */
typedef struct { unsigned char *base, *p; } xblock;
static xblock xb_make(const void *d, size_t n) {
	xblock x;
	if (n == 0) { x.base = (unsigned char *)malloc(1); x.p = x.base + 1; }
	else { x.base = ku_exact(d, n); x.p = x.base; }
	return x;
}
static void xb_free(xblock *x) { free(x->base); x->base = x->p = NULL; }

/* ------------------------------------------------------------------ context of a batch */
static KSI_CTX *ctx;
static int g_loglevel;
static long g_live0;
static KSI_PublicationsFile *g_userpub;      /* parsed once per context (signature batches only) */
static KSI_PublicationData *g_userpubdata;
static vbuf g_userpub_bytes;
static vbuf g_sentinel;

static int log_discard(void *c, int lvl, const char *msg) {
	(void)c; (void)lvl;
	if (msg) g_sink += strlen(msg);
	st_log_calls++;
	return KSI_OK;
}

static void ctx_open(int loglevel, int with_userpub) {
	static KSI_CertConstraint cc[] = {{KSI_CERT_EMAIL, "publications@guardtime.com"}, {NULL, NULL}};
	g_live0 = vf_alloc_live;
	g_loglevel = loglevel;
	sn_reset(); fc_reset();
	ctx = ku_ctx();
	KSI_CTX_setDefaultPubFileCertConstraints(ctx, cc);
	if (loglevel) {
		KSI_CTX_setLoggerCallback(ctx, log_discard, NULL);
		KSI_CTX_setLogLevel(ctx, KSI_LOG_DEBUG);
		/* debug configuration also has unreachable services configured: every connection attempt fails fast in simnet */
		KSI_CTX_setExtender(ctx, "ksi+http://extender.sim.invalid:8081/ext", REFLOGIN, REFKEY);
		KSI_CTX_setPublicationUrl(ctx, "http://pub.sim.invalid/ksi-publications.bin");
	}
	g_userpub = NULL; g_userpubdata = NULL;
	if (with_userpub && g_userpub_bytes.n) {
		if (KSI_PublicationsFile_parse(ctx, g_userpub_bytes.p, g_userpub_bytes.n, &g_userpub) == KSI_OK && g_userpub != NULL) {
			KSI_PublicationRecord *pr = NULL;
			if (KSI_PublicationsFile_getLatestPublication(g_userpub, NULL, &pr) == KSI_OK && pr != NULL)
				KSI_PublicationRecord_getPublishedData(pr, &g_userpubdata);
		} else g_userpub = NULL;
	}
}
static long ctx_close(void) {
	KSI_PublicationsFile_free(g_userpub);
	g_userpub = NULL; g_userpubdata = NULL;
	KSI_CTX_free(ctx);
	ctx = NULL;
	return vf_alloc_live - g_live0;
}

/* sentinel: a known good signature parsed (internal policy), verified internally and serialized again on the
 * context of the batch. Returns a digest of what was observed. */
static uint64_t sentinel(void) {
	KSI_Signature *s = NULL;
	KSI_VerificationContext vc;
	KSI_PolicyVerificationResult *r = NULL;
	unsigned char *raw = NULL;
	size_t rl = 0;
	uint64_t h = 1469598103934665603ULL;
	xblock x = xb_make(g_sentinel.p, g_sentinel.n);
	int res = KSI_Signature_parse(ctx, x.p, g_sentinel.n, &s), rc = -1, code = -1, same = 0, sr = -1;
	if (res == KSI_OK && s != NULL) {
		KSI_VerificationContext_init(&vc, ctx);
		vc.signature = s;
		rc = KSI_SignatureVerifier_verify(KSI_VERIFICATION_POLICY_INTERNAL, &vc, &r);
		if (rc == KSI_OK && r != NULL) code = (int)r->finalResult.resultCode;
		KSI_PolicyVerificationResult_free(r);
		KSI_VerificationContext_clean(&vc);
		sr = KSI_Signature_serialize(s, &raw, &rl);
		same = (sr == KSI_OK && rl == g_sentinel.n && memcmp(raw, g_sentinel.p, rl) == 0);
		KSI_free(raw);
	}
	KSI_Signature_free(s);
	xb_free(&x);
	h = vf_fnv(&res, sizeof res, h); h = vf_fnv(&rc, sizeof rc, h); h = vf_fnv(&code, sizeof code, h);
	h = vf_fnv(&sr, sizeof sr, h); h = vf_fnv(&same, sizeof same, h);
	return h;
}
static uint64_t g_sentinel_good;   /* digest of (OK, OK, RES_OK, OK, same) */

/* ------------------------------------------------------------------ touching parsed values */
static const size_t STRSZ[] = {1, 16, 1500};
#define NSTRSZ 3
/* calls a toString style function with exactly sized heap buffers; the result must be terminated inside */
#define TOSTR(what, expr) do { int zi_; for (zi_ = 0; zi_ < NSTRSZ; zi_++) { size_t l = STRSZ[zi_]; char *b = (char *)malloc(l), *r_; \
	memset(b, 'x', l); CALL(); r_ = (expr); \
	if (r_ != NULL) { if (r_ != b) fail("tostring-foreign-pointer", "%s returned a pointer that is not the buffer", what); \
		else if (memchr(b, 0, l) == NULL) fail("tostring-unterminated", "%s: no terminator within the %zu byte buffer", what, l); \
		else g_sink += strlen(b); } \
	free(b); } } while (0)

static void int_touch(const KSI_Integer *i) {
	if (i == NULL) return;
	g_sink += (size_t)KSI_Integer_getUInt64(i);
	TOSTR("KSI_Integer_toDateString", KSI_Integer_toDateString(i, b, l));
}
static void utf_touch(const KSI_Utf8String *s) {
	const char *c;
	if (s == NULL) return;
	c = KSI_Utf8String_cstr(s);
	if (c) g_sink += strlen(c);
	g_sink += KSI_Utf8String_size(s);
}
static void utflist_touch(KSI_LIST(KSI_Utf8String) *l) {
	size_t i;
	for (i = 0; i < KSI_Utf8StringList_length(l); i++) { KSI_Utf8String *s = NULL; KSI_Utf8StringList_elementAt(l, i, &s); utf_touch(s); }
}
static void oct_touch(const KSI_OctetString *o) {
	const unsigned char *d = NULL;
	size_t n = 0;
	if (o == NULL) return;
	if (KSI_OctetString_extract(o, &d, &n) == KSI_OK && d != NULL) g_sink += (size_t)vf_fnv(d, n, 0);
	TOSTR("KSI_OctetString_toString", KSI_OctetString_toString(o, ':', b, l));
}
static void hash_touch(const KSI_DataHash *h) {
	const unsigned char *d = NULL;
	size_t n = 0;
	KSI_HashAlgorithm alg = 0;
	if (h == NULL) return;
	if (KSI_DataHash_getImprint(h, &d, &n) == KSI_OK && d != NULL) g_sink += (size_t)vf_fnv(d, n, 0);
	d = NULL; n = 0;
	if (KSI_DataHash_extract(h, &alg, &d, &n) == KSI_OK && d != NULL) g_sink += (size_t)vf_fnv(d, n, 0);
	TOSTR("KSI_DataHash_toString", KSI_DataHash_toString(h, b, l));
}
static void pubdata_touch(KSI_PublicationData *pd) {
	KSI_Integer *t = NULL;
	KSI_DataHash *h = NULL;
	char *s = NULL;
	if (pd == NULL) return;
	KSI_PublicationData_getTime(pd, &t); int_touch(t);
	KSI_PublicationData_getImprint(pd, &h); hash_touch(h);
	CALL();
	if (KSI_PublicationData_toBase32(pd, &s) == KSI_OK && s != NULL) g_sink += strlen(s);
	KSI_free(s);
	TOSTR("KSI_PublicationData_toString", KSI_PublicationData_toString(pd, b, l));
}
static void pubrec_touch(KSI_PublicationRecord *pr) {
	KSI_PublicationData *pd = NULL;
	KSI_LIST(KSI_Utf8String) *l1 = NULL, *l2 = NULL;
	if (pr == NULL) return;
	KSI_PublicationRecord_getPublishedData(pr, &pd); pubdata_touch(pd);
	KSI_PublicationRecord_getPublicationRefList(pr, &l1); utflist_touch(l1);
	KSI_PublicationRecord_getRepositoryUriList(pr, &l2); utflist_touch(l2);
	TOSTR("KSI_PublicationRecord_toString", KSI_PublicationRecord_toString(pr, b, l));
}
static void pkisigned_touch(KSI_PKISignedData *sd) {
	KSI_OctetString *o = NULL;
	KSI_Utf8String *u = NULL;
	if (sd == NULL) return;
	KSI_PKISignedData_getSignatureValue(sd, &o); oct_touch(o); o = NULL;
	KSI_PKISignedData_getCertId(sd, &o); oct_touch(o);
	KSI_PKISignedData_getCertRepositoryUri(sd, &u); utf_touch(u); u = NULL;
	KSI_PKISignedData_getSigType(sd, &u); utf_touch(u);
}
static void calauth_touch(KSI_CalendarAuthRec *ar) {
	KSI_PublicationData *pd = NULL;
	KSI_Utf8String *u = NULL;
	KSI_PKISignedData *sd = NULL;
	if (ar == NULL) return;
	KSI_CalendarAuthRec_getPublishedData(ar, &pd); pubdata_touch(pd);
	KSI_CalendarAuthRec_getSignatureAlgo(ar, &u); utf_touch(u);
	KSI_CalendarAuthRec_getSignatureData(ar, &sd); pkisigned_touch(sd);
}
static void calchain_touch(KSI_CalendarHashChain *c) {
	KSI_Integer *t = NULL;
	KSI_DataHash *h = NULL, *root = NULL;
	time_t at = 0;
	if (c == NULL) return;
	KSI_CalendarHashChain_getPublicationTime(c, &t); int_touch(t); t = NULL;
	KSI_CalendarHashChain_getAggregationTime(c, &t); int_touch(t);
	KSI_CalendarHashChain_getInputHash(c, &h); hash_touch(h);
	CALL(); NOTE(KSI_CalendarHashChain_aggregate(c, &root)); hash_touch(root); KSI_DataHash_free(root);
	CALL(); NOTE(KSI_CalendarHashChain_calculateAggregationTime(c, &at));
}
static void aggrchain_touch(KSI_AggregationHashChain *c) {
	KSI_Integer *t = NULL;
	KSI_DataHash *h = NULL, *root = NULL;
	KSI_LIST(KSI_Integer) *idx = NULL;
	KSI_OctetString *o = NULL;
	int lvl = 0;
	size_t i;
	if (c == NULL) return;
	KSI_AggregationHashChain_getAggregationTime(c, &t); int_touch(t); t = NULL;
	KSI_AggregationHashChain_getAggrHashId(c, &t); int_touch(t);
	KSI_AggregationHashChain_getInputHash(c, &h); hash_touch(h);
	KSI_AggregationHashChain_getInputData(c, &o); oct_touch(o);
	KSI_AggregationHashChain_getChainIndex(c, &idx);
	for (i = 0; i < KSI_IntegerList_length(idx); i++) { KSI_Integer *x = NULL; KSI_IntegerList_elementAt(idx, i, &x); if (x) g_sink += (size_t)KSI_Integer_getUInt64(x); }
	CALL(); NOTE(KSI_AggregationHashChain_aggregate(c, 0, &lvl, &root)); hash_touch(root); KSI_DataHash_free(root);
}

/* ------------------------------------------------------------------ follow-ups: signature */
static const KSI_Policy *policy_at(int i) {
	switch (i) {
		case 0: return KSI_VERIFICATION_POLICY_INTERNAL;
		case 1: return KSI_VERIFICATION_POLICY_CALENDAR_BASED;
		case 2: return KSI_VERIFICATION_POLICY_KEY_BASED;
		case 3: return KSI_VERIFICATION_POLICY_PUBLICATIONS_FILE_BASED;
		case 4: return KSI_VERIFICATION_POLICY_USER_PUBLICATION_BASED;
		case 5: return KSI_VERIFICATION_POLICY_GENERAL;
		default: return KSI_VERIFICATION_POLICY_EMPTY;
	}
}
#define NPOLICY 7

static void sig_verify_all(KSI_Signature *sig, int rich) {
	int i;
	KSI_DataHash *doc = NULL;
	if (rich) KSI_Signature_getDocumentHash(sig, &doc);
	for (i = 0; i < NPOLICY; i++) {
		KSI_VerificationContext vc;
		KSI_PolicyVerificationResult *r = NULL;
		int rc;
		KSI_VerificationContext_init(&vc, ctx);
		vc.signature = sig;
		if (rich) {
			vc.userPublicationsFile = g_userpub;
			vc.userPublication = g_userpubdata;
			vc.extendingAllowed = 1;
			vc.documentHash = doc;
		}
		CALL();
		rc = KSI_SignatureVerifier_verify(policy_at(i), &vc, &r);
		NOTE(rc);
		if (rc == KSI_OK) {
			if (r == NULL) fail("verify-ok-without-result", "KSI_SignatureVerifier_verify returned KSI_OK and no result (policy %d)", i);
			else {
				int c = (int)r->finalResult.resultCode;
				NOTE(c); NOTE(r->finalResult.errorCode);
				if (c != KSI_VER_RES_OK && c != KSI_VER_RES_NA && c != KSI_VER_RES_FAIL) fail("verify-result-out-of-range", "policy %d: result code %d", i, c);
				g_sink += strlen(KSI_VerificationErrorCode_toString((int)r->finalResult.errorCode));
				st_ver[c == KSI_VER_RES_OK ? 0 : 1]++;
			}
		} else st_ver[2]++;
		KSI_PolicyVerificationResult_free(r);
		KSI_VerificationContext_clean(&vc);
	}
}

static void sig_followups(KSI_Signature *sig) {
	unsigned char *raw = NULL;
	size_t rl = 0;
	KSI_Signature *cl = NULL;
	KSI_HashChainLinkIdentityList *ids = NULL;
	KSI_Integer *t = NULL;
	KSI_DataHash *h = NULL, *ph = NULL;
	KSI_Utf8String *ps = NULL;
	KSI_LIST(KSI_Utf8String) *refs = NULL, *urls = NULL;
	KSI_PublicationRecord *pr = NULL;
	KSI_CalendarAuthRec *ar = NULL;
	KSI_DataHasher *hsr = NULL;
	KSI_HashAlgorithm alg = 0;
	time_t pd = 0;
	size_t i;
	int res;
	st_follow++;
	sn_reset(); fc_reset();
	sig_verify_all(sig, 0);
	sig_verify_all(sig, 1);
	CALL(); res = KSI_Signature_serialize(sig, &raw, &rl); NOTE(res);
	if (res == KSI_OK && raw != NULL) g_sink += (size_t)vf_fnv(raw, rl, 0);
	KSI_free(raw); raw = NULL;
	CALL(); res = KSI_Signature_clone(sig, &cl); NOTE(res);
	if (res == KSI_OK && cl != NULL) {
		CALL(); res = KSI_Signature_serialize(cl, &raw, &rl); NOTE(res);
		KSI_free(raw); raw = NULL;
	}
	KSI_Signature_free(cl);
	CALL(); res = KSI_Signature_getAggregationHashChainIdentity(sig, &ids); NOTE(res);
	if (res == KSI_OK && ids != NULL) {
		for (i = 0; i < KSI_HashChainLinkIdentityList_length(ids); i++) {
			KSI_HashChainLinkIdentity *id = NULL;
			KSI_HashChainLinkIdentityType ty = 0;
			KSI_Utf8String *u = NULL;
			KSI_Integer *n = NULL;
			KSI_HashChainLinkIdentityList_elementAt(ids, i, &id);
			if (id == NULL) continue;
			KSI_HashChainLinkIdentity_getType(id, &ty); NOTE(ty);
			KSI_HashChainLinkIdentity_getClientId(id, &u); utf_touch(u); u = NULL;
			KSI_HashChainLinkIdentity_getMachineId(id, &u); utf_touch(u);
			KSI_HashChainLinkIdentity_getSequenceNr(id, &n); int_touch(n); n = NULL;
			KSI_HashChainLinkIdentity_getRequestTime(id, &n); int_touch(n);
		}
	}
	KSI_HashChainLinkIdentityList_free(ids);
	CALL(); NOTE(KSI_Signature_getSigningTime(sig, &t)); int_touch(t);
	CALL(); NOTE(KSI_Signature_getDocumentHash(sig, &h)); hash_touch(h);
	CALL(); NOTE(KSI_Signature_getHashAlgorithm(sig, &alg));
	CALL(); NOTE(KSI_Signature_createDataHasher(sig, &hsr)); KSI_DataHasher_free(hsr);
	CALL(); res = KSI_Signature_getPublicationInfo(sig, &ph, &ps, &pd, &refs, &urls); NOTE(res);
	hash_touch(ph); utf_touch(ps); utflist_touch(refs); utflist_touch(urls);
	KSI_DataHash_free(ph); KSI_Utf8String_free(ps); KSI_Utf8StringList_free(refs); KSI_Utf8StringList_free(urls);
	CALL(); NOTE(KSI_Signature_getPublicationRecord(sig, &pr)); pubrec_touch(pr);
	CALL(); NOTE(KSI_Signature_getCalendarAuthRec(sig, &ar)); calauth_touch(ar);
}

/* ------------------------------------------------------------------ follow-ups: PDUs */
static void header_touch(KSI_Header *h) {
	KSI_Integer *n = NULL;
	KSI_Utf8String *u = NULL;
	if (h == NULL) return;
	KSI_Header_getInstanceId(h, &n); int_touch(n); n = NULL;
	KSI_Header_getMessageId(h, &n); int_touch(n);
	KSI_Header_getLoginId(h, &u); utf_touch(u);
}
static void config_touch(KSI_Config *c) {
	KSI_Integer *n = NULL;
	KSI_LIST(KSI_Utf8String) *l = NULL;
	if (c == NULL) return;
	KSI_Config_getMaxLevel(c, &n); int_touch(n); n = NULL;
	KSI_Config_getAggrAlgo(c, &n); int_touch(n); n = NULL;
	KSI_Config_getAggrPeriod(c, &n); int_touch(n); n = NULL;
	KSI_Config_getMaxRequests(c, &n); int_touch(n); n = NULL;
	KSI_Config_getCalendarFirstTime(c, &n); int_touch(n); n = NULL;
	KSI_Config_getCalendarLastTime(c, &n); int_touch(n);
	KSI_Config_getParentUri(c, &l); utflist_touch(l);
}
static void errpdu_touch(KSI_ErrorPdu *e) {
	KSI_Integer *n = NULL;
	KSI_Utf8String *u = NULL;
	if (e == NULL) return;
	KSI_ErrorPdu_getStatus(e, &n); int_touch(n);
	KSI_ErrorPdu_getErrorMessage(e, &u); utf_touch(u);
}
static void ack_touch(KSI_RequestAck *a) {
	KSI_Integer *n = NULL;
	if (a == NULL) return;
	KSI_RequestAck_getRequestTime(a, &n); int_touch(n); n = NULL;
	KSI_RequestAck_getReceiptTime(a, &n); int_touch(n); n = NULL;
	KSI_RequestAck_getAcknowledgeTime(a, &n); int_touch(n); n = NULL;
	KSI_RequestAck_getAggregationPeriod(a, &n); int_touch(n); n = NULL;
	KSI_RequestAck_getAggregationDelay(a, &n); int_touch(n); n = NULL;
	KSI_RequestAck_getAggregationDrift(a, &n); int_touch(n);
}

static void aggr_followups(KSI_AggregationPdu *pdu) {
	KSI_Header *hd = NULL;
	KSI_AggregationReq *rq = NULL;
	KSI_AggregationResp *rs = NULL;
	KSI_Config *cf = NULL;
	KSI_RequestAck *ak = NULL;
	KSI_DataHash *h = NULL, *mac = NULL;
	KSI_ErrorPdu *er = NULL;
	int r;
	st_follow++;
	CALL(); r = KSI_AggregationPdu_verify(pdu, "anon"); NOTE(r); if (r == KSI_OK) st_pduverify_ok++;
	CALL(); r = KSI_AggregationPdu_verify(pdu, REFKEY); NOTE(r); if (r == KSI_OK) st_pduverify_ok++;
	CALL(); NOTE(KSI_AggregationPdu_calculateHmac(pdu, KSI_HASHALG_SHA2_256, REFKEY, &mac)); hash_touch(mac); KSI_DataHash_free(mac);
	KSI_AggregationPdu_getHeader(pdu, &hd); header_touch(hd);
	KSI_AggregationPdu_getHmac(pdu, &h); hash_touch(h);
	KSI_AggregationPdu_getError(pdu, &er); errpdu_touch(er);
	KSI_AggregationPdu_getConfRequest(pdu, &cf); config_touch(cf); cf = NULL;
	KSI_AggregationPdu_getConfResponse(pdu, &cf); config_touch(cf); cf = NULL;
	KSI_AggregationPdu_getAckRequest(pdu, &ak); ack_touch(ak); ak = NULL;
	KSI_AggregationPdu_getAckResponse(pdu, &ak); ack_touch(ak); ak = NULL;
	KSI_AggregationPdu_getRequest(pdu, &rq);
	if (rq != NULL) {
		KSI_Integer *n = NULL;
		KSI_DataHash *rh = NULL;
		KSI_AggregationReq_getRequestId(rq, &n); int_touch(n); n = NULL;
		KSI_AggregationReq_getRequestLevel(rq, &n); int_touch(n);
		KSI_AggregationReq_getRequestHash(rq, &rh); hash_touch(rh);
		KSI_AggregationReq_getConfig(rq, &cf); config_touch(cf); cf = NULL;
	}
	KSI_AggregationPdu_getResponse(pdu, &rs);
	if (rs != NULL) {
		KSI_Integer *n = NULL;
		KSI_Utf8String *u = NULL;
		KSI_CalendarHashChain *cc = NULL;
		KSI_LIST(KSI_AggregationHashChain) *al = NULL;
		KSI_CalendarAuthRec *ar = NULL;
		KSI_SignatureBuilder *bld = NULL;
		KSI_Signature *sig = NULL;
		size_t i;
		KSI_AggregationResp_getRequestId(rs, &n); int_touch(n); n = NULL;
		KSI_AggregationResp_getStatus(rs, &n); int_touch(n);
		KSI_AggregationResp_getErrorMsg(rs, &u); utf_touch(u);
		KSI_AggregationResp_getConfig(rs, &cf); config_touch(cf);
		KSI_AggregationResp_getRequestAck(rs, &ak); ack_touch(ak);
		KSI_AggregationResp_getCalendarChain(rs, &cc); calchain_touch(cc);
		KSI_AggregationResp_getCalendarAuthRec(rs, &ar); calauth_touch(ar);
		KSI_AggregationResp_getAggregationChainList(rs, &al);
		for (i = 0; i < KSI_AggregationHashChainList_length(al); i++) { KSI_AggregationHashChain *c = NULL; KSI_AggregationHashChainList_elementAt(al, i, &c); aggrchain_touch(c); }
		/* what a client does with an aggregation response: build the signature from it */
		CALL(); r = KSI_SignatureBuilder_openFromAggregationResp(rs, &bld); NOTE(r);
		if (r == KSI_OK && bld != NULL) {
			CALL(); r = KSI_SignatureBuilder_close(bld, 0, &sig); NOTE(r);
			if (r == KSI_OK && sig != NULL) sig_followups(sig);
			KSI_Signature_free(sig);
		}
		KSI_SignatureBuilder_free(bld);
	}
}

static void ext_followups(KSI_ExtendPdu *pdu) {
	KSI_Header *hd = NULL;
	KSI_ExtendReq *rq = NULL;
	KSI_ExtendResp *rs = NULL;
	KSI_Config *cf = NULL;
	KSI_DataHash *h = NULL, *mac = NULL;
	KSI_ErrorPdu *er = NULL;
	int r;
	st_follow++;
	CALL(); r = KSI_ExtendPdu_verify(pdu, "anon"); NOTE(r); if (r == KSI_OK) st_pduverify_ok++;
	CALL(); r = KSI_ExtendPdu_verify(pdu, REFKEY); NOTE(r); if (r == KSI_OK) st_pduverify_ok++;
	CALL(); NOTE(KSI_ExtendPdu_calculateHmac(pdu, KSI_HASHALG_SHA2_256, REFKEY, &mac)); hash_touch(mac); KSI_DataHash_free(mac);
	KSI_ExtendPdu_getHeader(pdu, &hd); header_touch(hd);
	KSI_ExtendPdu_getHmac(pdu, &h); hash_touch(h);
	KSI_ExtendPdu_getError(pdu, &er); errpdu_touch(er);
	KSI_ExtendPdu_getConfRequest(pdu, &cf); config_touch(cf); cf = NULL;
	KSI_ExtendPdu_getConfResponse(pdu, &cf); config_touch(cf); cf = NULL;
	KSI_ExtendPdu_getRequest(pdu, &rq);
	if (rq != NULL) {
		KSI_Integer *n = NULL;
		KSI_ExtendReq_getRequestId(rq, &n); int_touch(n); n = NULL;
		KSI_ExtendReq_getAggregationTime(rq, &n); int_touch(n); n = NULL;
		KSI_ExtendReq_getPublicationTime(rq, &n); int_touch(n);
		KSI_ExtendReq_getConfig(rq, &cf); config_touch(cf); cf = NULL;
	}
	KSI_ExtendPdu_getResponse(pdu, &rs);
	if (rs != NULL) {
		KSI_Integer *n = NULL;
		KSI_Utf8String *u = NULL;
		KSI_CalendarHashChain *cc = NULL;
		KSI_ExtendResp_getRequestId(rs, &n); int_touch(n); n = NULL;
		KSI_ExtendResp_getStatus(rs, &n); int_touch(n); n = NULL;
		KSI_ExtendResp_getLastTime(rs, &n); int_touch(n);
		KSI_ExtendResp_getErrorMsg(rs, &u); utf_touch(u);
		KSI_ExtendResp_getConfig(rs, &cf); config_touch(cf);
		KSI_ExtendResp_getCalendarHashChain(rs, &cc); calchain_touch(cc);
	}
}

/* ------------------------------------------------------------------ follow-ups: publications file */
static void pubfile_followups(KSI_PublicationsFile *pf) {
	static const KSI_uint64_t TIMES[] = {0, 1, 1397520000ULL, 1400112000ULL, 1500000000ULL, 0x7fffffffULL, 0xffffffffffffffffULL};
	KSI_PublicationsHeader *hd = NULL;
	KSI_LIST(KSI_CertificateRecord) *certs = NULL;
	KSI_LIST(KSI_PublicationRecord) *pubs = NULL;
	KSI_PKISignature *ps = NULL;
	KSI_PublicationRecord *pr = NULL;
	char *raw = NULL;
	size_t rl = 0, sl = 0, i;
	int r;
	st_follow++;
	CALL(); NOTE(KSI_PublicationsFile_getSignedDataLength(pf, &sl)); NOTE(sl);
	KSI_PublicationsFile_getHeader(pf, &hd);
	if (hd != NULL) {
		KSI_Integer *n = NULL;
		KSI_Utf8String *u = NULL;
		KSI_PublicationsHeader_getVersion(hd, &n); int_touch(n); n = NULL;
		KSI_PublicationsHeader_getTimeCreated(hd, &n); int_touch(n);
		KSI_PublicationsHeader_getRepositoryUri(hd, &u); utf_touch(u);
	}
	KSI_PublicationsFile_getCertificates(pf, &certs);
	for (i = 0; i < KSI_CertificateRecordList_length(certs); i++) {
		KSI_CertificateRecord *cr = NULL;
		KSI_OctetString *id = NULL;
		KSI_PKICertificate *c = NULL, *c2 = NULL;
		KSI_CertificateRecordList_elementAt(certs, i, &cr);
		if (cr == NULL) continue;
		KSI_CertificateRecord_getCertId(cr, &id); oct_touch(id);
		KSI_CertificateRecord_getCert(cr, &c);
		if (c != NULL && i < 3) TOSTR("KSI_PKICertificate_toString", KSI_PKICertificate_toString(c, b, l));
		if (id != NULL) { CALL(); NOTE(KSI_PublicationsFile_getPKICertificateById(pf, id, &c2)); }
	}
	{
		/* an id that is in no file */
		KSI_OctetString *id = NULL;
		KSI_PKICertificate *c2 = NULL;
		if (KSI_OctetString_new(ctx, (const unsigned char *)"\x01\x02\x03\x04", 4, &id) == KSI_OK) { CALL(); NOTE(KSI_PublicationsFile_getPKICertificateById(pf, id, &c2)); }
		KSI_OctetString_free(id);
	}
	KSI_PublicationsFile_getPublications(pf, &pubs);
	for (i = 0; i < KSI_PublicationRecordList_length(pubs); i++) {
		KSI_PublicationRecord *p = NULL;
		KSI_PublicationRecordList_elementAt(pubs, i, &p);
		if (i < 2 || i + 2 >= KSI_PublicationRecordList_length(pubs)) pubrec_touch(p);
		else if (p != NULL) { KSI_PublicationData *pd = NULL; KSI_Integer *t = NULL; KSI_PublicationRecord_getPublishedData(p, &pd); if (pd) KSI_PublicationData_getTime(pd, &t); if (t) g_sink += (size_t)KSI_Integer_getUInt64(t); }
	}
	for (i = 0; i < sizeof TIMES / sizeof *TIMES; i++) {
		KSI_Integer *t = NULL;
		if (KSI_Integer_new(ctx, TIMES[i], &t) != KSI_OK) continue;
		pr = NULL; CALL(); NOTE(KSI_PublicationsFile_getPublicationDataByTime(pf, t, &pr)); NOTE(pr != NULL);
		pr = NULL; CALL(); NOTE(KSI_PublicationsFile_getNearestPublication(pf, t, &pr)); NOTE(pr != NULL); if (pr) pubrec_touch(pr); KSI_PublicationRecord_free(pr);
		pr = NULL; CALL(); NOTE(KSI_PublicationsFile_getLatestPublication(pf, t, &pr)); NOTE(pr != NULL);
		KSI_Integer_free(t);
	}
	pr = NULL; CALL(); NOTE(KSI_PublicationsFile_getLatestPublication(pf, NULL, &pr)); if (pr) pubrec_touch(pr);
	KSI_PublicationsFile_getSignature(pf, &ps);
	CALL(); r = KSI_PublicationsFile_serialize(ctx, pf, &raw, &rl); NOTE(r);
	if (r == KSI_OK && raw != NULL) g_sink += (size_t)vf_fnv(raw, rl, 0);
	KSI_free(raw);
	CALL(); NOTE(KSI_PublicationsFile_verify(pf, ctx));
}

/* ------------------------------------------------------------------ follow-ups: raw TLV readers */
static void tlv_expand(KSI_TLV *t, int depth) {
	KSI_LIST(KSI_TLV) *l = NULL;
	size_t i;
	int r;
	if (depth > 16) return;
	CALL(); r = KSI_TLV_getNestedList(t, &l); NOTE(r);
	if (r != KSI_OK || l == NULL) return;
	for (i = 0; i < KSI_TLVList_length(l); i++) { KSI_TLV *c = NULL; KSI_TLVList_elementAt(l, i, &c); if (c) tlv_expand(c, depth + 1); }
}
static void tlv_followups(KSI_TLV *t) {
	KSI_TLV *cl = NULL;
	unsigned char *raw = NULL;
	const unsigned char *rv = NULL;
	size_t rl = 0;
	int r;
	st_follow++;
	NOTE(KSI_TLV_getTag(t)); NOTE(KSI_TLV_isNonCritical(t)); NOTE(KSI_TLV_isForward(t));
	if (KSI_TLV_getRawValue(t, &rv, &rl) == KSI_OK && rv != NULL) g_sink += (size_t)vf_fnv(rv, rl, 0);
	TOSTR("KSI_TLV_toString", KSI_TLV_toString(t, b, l));
	CALL(); r = KSI_TLV_clone(t, &cl); NOTE(r);
	tlv_expand(t, 0);
	TOSTR("KSI_TLV_toString", KSI_TLV_toString(t, b, l));
	CALL(); r = KSI_TLV_serialize(t, &raw, &rl); NOTE(r);
	if (r == KSI_OK && raw != NULL) g_sink += (size_t)vf_fnv(raw, rl, 0);
	KSI_free(raw); raw = NULL;
	if (cl != NULL) {
		CALL(); r = KSI_TLV_serialize(cl, &raw, &rl); NOTE(r);
		KSI_free(raw);
		TOSTR("KSI_TLV_toString", KSI_TLV_toString(cl, b, l));
	}
	KSI_TLV_free(cl);
}
static void elem_expand(KSI_TlvElement *e, int depth) {
	KSI_TlvElement *x = NULL;
	size_t i, n;
	if (depth > 16) return;
	CALL(); NOTE(KSI_TlvElement_getElement(e, 0x1ffd, &x));   /* expands the sub-elements */
	KSI_TlvElement_free(x);
	n = KSI_TlvElementList_length(e->subList);
	for (i = 0; i < n; i++) {
		KSI_TlvElement *c = NULL;
		KSI_TlvElementList_elementAt(e->subList, i, &c);
		if (c == NULL) continue;
		if (i < 4) {
			KSI_Integer *iv = NULL; KSI_OctetString *ov = NULL; KSI_Utf8String *uv = NULL;
			CALL(); NOTE(KSI_TlvElement_getInteger(e, ctx, c->ftlv.tag, &iv)); KSI_Integer_free(iv);
			CALL(); NOTE(KSI_TlvElement_getOctetString(e, ctx, c->ftlv.tag, &ov)); oct_touch(ov); KSI_OctetString_free(ov);
			CALL(); NOTE(KSI_TlvElement_getUtf8String(e, ctx, c->ftlv.tag, &uv)); utf_touch(uv); KSI_Utf8String_free(uv);
		}
		elem_expand(c, depth + 1);
	}
}
static void elem_serialize(KSI_TlvElement *e) {
	size_t len = 0, len2 = 0;
	int r;
	CALL(); r = KSI_TlvElement_serialize(e, NULL, 0, &len, 0); NOTE(r); NOTE(len);
	if (r == KSI_OK && len <= 0x20000) {
		unsigned char *b = (unsigned char *)malloc(len ? len : 1);
		CALL(); r = KSI_TlvElement_serialize(e, b, len, &len2, 0); NOTE(r);
		if (r == KSI_OK) g_sink += (size_t)vf_fnv(b, len2 <= len ? len2 : len, 0);
		free(b);
	}
}
static void elem_followups(KSI_TlvElement *e) {
	st_follow++;
	NOTE(e->ftlv.tag); NOTE(e->ftlv.dat_len);
	elem_serialize(e);
	elem_expand(e, 0);
	elem_serialize(e);
	CALL(); NOTE(KSI_TlvElement_detach(e));
	elem_serialize(e);
}

/* ------------------------------------------------------------------ one input through one entry point */
static void err_render(void) {
	/* rendering of the error trace of the context after a failed call */
	char *b = (char *)malloc(600);
	int ext = 0;
	char msg[64];
	memset(b, 'x', 600);
	CALL();
	if (KSI_ERR_toString(ctx, b, 600) != NULL) { if (memchr(b, 0, 600) == NULL) fail("tostring-unterminated", "KSI_ERR_toString"); else g_sink += strlen(b); }
	free(b);
	KSI_ERR_getBaseErrorMessage(ctx, msg, sizeof msg, NULL, &ext);
}

/* returns 1 when the entry point accepted the input */
static int run_input(int ep, const unsigned char *d, size_t n, int render_err) {
	int ok = 0, res;
	xblock x = xb_make(d, n);
	long live_before = vf_alloc_live;
	int exact_leak_check = 0;
	switch (ep) {
		case EP_SIG_EMPTY: case EP_SIG_INT: {
			KSI_Signature *sig = NULL;
			CALL();
			if (ep == EP_SIG_EMPTY) res = KSI_Signature_parseWithPolicy(ctx, x.p, n, KSI_VERIFICATION_POLICY_EMPTY, NULL, &sig);
			else res = KSI_Signature_parse(ctx, x.p, n, &sig);
			NOTE(res);
			if (res == KSI_OK) {
				if (sig == NULL) fail("ok-without-object", "%s returned KSI_OK and no signature; input=%s", EPNAME[ep], vf_hex(d, n));
				else { ok = 1; sig_followups(sig); }
			} else {
				if (sig != NULL) fail("error-with-object", "%s returned 0x%x and an object; input=%s", EPNAME[ep], res, vf_hex(d, n));
				if (render_err) err_render();
			}
			KSI_Signature_free(sig);
			break;
		}
		case EP_AGGR1: case EP_AGGR2: {
			KSI_AggregationPdu *pdu = NULL;
			KSI_CTX_setOption(ctx, KSI_OPT_AGGR_PDU_VER, (void *)(size_t)(ep == EP_AGGR1 ? 1 : 2));
			CALL(); res = KSI_AggregationPdu_parse(ctx, x.p, n, &pdu); NOTE(res);
			if (res == KSI_OK) {
				if (pdu == NULL) fail("ok-without-object", "%s returned KSI_OK and no PDU; input=%s", EPNAME[ep], vf_hex(d, n));
				else { ok = 1; aggr_followups(pdu); }
			} else if (render_err) err_render();
			KSI_AggregationPdu_free(pdu);
			break;
		}
		case EP_EXT1: case EP_EXT2: {
			KSI_ExtendPdu *pdu = NULL;
			KSI_CTX_setOption(ctx, KSI_OPT_EXT_PDU_VER, (void *)(size_t)(ep == EP_EXT1 ? 1 : 2));
			CALL(); res = KSI_ExtendPdu_parse(ctx, x.p, n, &pdu); NOTE(res);
			if (res == KSI_OK) {
				if (pdu == NULL) fail("ok-without-object", "%s returned KSI_OK and no PDU; input=%s", EPNAME[ep], vf_hex(d, n));
				else { ok = 1; ext_followups(pdu); }
			} else if (render_err) err_render();
			KSI_ExtendPdu_free(pdu);
			break;
		}
		case EP_PUBFILE: {
			KSI_PublicationsFile *pf = NULL;
			CALL(); res = KSI_PublicationsFile_parse(ctx, x.p, n, &pf); NOTE(res);
			if (res == KSI_OK) {
				if (pf == NULL) fail("ok-without-object", "%s returned KSI_OK and no object; input=%s", EPNAME[ep], vf_hex(d, n));
				else { ok = 1; pubfile_followups(pf); }
			} else if (render_err) err_render();
			KSI_PublicationsFile_free(pf);
			break;
		}
		case EP_TLV: {
			KSI_TLV *t = NULL;
			CALL(); res = KSI_TLV_parseBlob(ctx, x.p, n, &t); NOTE(res);
			if (res == KSI_OK) {
				if (t == NULL) fail("ok-without-object", "%s returned KSI_OK and no object; input=%s", EPNAME[ep], vf_hex(d, n));
				else { ok = 1; tlv_followups(t); }
			} else if (render_err) err_render();
			KSI_TLV_free(t);
			break;
		}
		case EP_FTLV: {
			KSI_FTLV f, arr[4];
			size_t rd = 0;
			exact_leak_check = 1;
			memset(&f, 0, sizeof f);
			CALL(); res = KSI_FTLV_memRead(x.p, n, &f); NOTE(res);
			if (res == KSI_OK) {
				ok = 1;
				NOTE(f.tag); NOTE(f.hdr_len); NOTE(f.dat_len);
				if (f.hdr_len + f.dat_len > n) fail("ftlv-beyond-input", "KSI_FTLV_memRead reports hdr %zu + len %zu for an input of %zu bytes (%s)", f.hdr_len, f.dat_len, n, vf_hex(d, n));
				else g_sink += (size_t)vf_fnv(x.p + f.hdr_len, f.dat_len, 0);
			}
			CALL(); res = KSI_FTLV_memReadN(x.p, n, NULL, 0, &rd); NOTE(res); NOTE(rd);
			rd = 0; memset(arr, 0, sizeof arr);
			CALL(); res = KSI_FTLV_memReadN(x.p, n, arr, 4, &rd); NOTE(res); NOTE(rd);
			if (res == KSI_OK) {
				size_t i;
				for (i = 0; i < rd && i < 4; i++) {
					if (arr[i].off + arr[i].hdr_len + arr[i].dat_len > n) { fail("ftlv-beyond-input", "KSI_FTLV_memReadN element %zu: off %zu hdr %zu len %zu for an input of %zu bytes", i, arr[i].off, arr[i].hdr_len, arr[i].dat_len, n); break; }
					g_sink += (size_t)vf_fnv(x.p + arr[i].off, arr[i].hdr_len + arr[i].dat_len, 0);
				}
			}
			break;
		}
		case EP_ELEM: {
			KSI_TlvElement *e = NULL;
			CALL(); res = KSI_TlvElement_parse(x.p, n, &e); NOTE(res);
			if (res == KSI_OK) {
				if (e == NULL) fail("ok-without-object", "%s returned KSI_OK and no object; input=%s", EPNAME[ep], vf_hex(d, n));
				else { ok = 1; elem_followups(e); }
			}
			KSI_TlvElement_free(e);
			break;
		}
		case EP_B32: {
			/* d is a C string of n bytes; the block holds the terminator and nothing more */
			KSI_PublicationData *pd = NULL;
			xblock s;
			char *z = (char *)malloc(n + 1);
			memcpy(z, d, n); z[n] = 0;
			s = xb_make(z, n + 1); free(z);
			CALL(); res = KSI_PublicationData_fromBase32(ctx, (const char *)s.p, &pd); NOTE(res);
			if (res == KSI_OK) {
				if (pd == NULL) fail("ok-without-object", "%s returned KSI_OK and no object; input=%s", EPNAME[ep], vf_hex(d, n));
				else { ok = 1; st_follow++; pubdata_touch(pd); }
			} else if (render_err) err_render();
			KSI_PublicationData_free(pd);
			xb_free(&s);
			break;
		}
		case EP_URI: {
			char *scheme = NULL, *host = NULL, *path = NULL;
			unsigned port = 0;
			xblock s;
			char *z = (char *)malloc(n + 1);
			exact_leak_check = 1;
			memcpy(z, d, n); z[n] = 0;
			s = xb_make(z, n + 1); free(z);
			CALL(); res = KSI_UriSplitBasic((const char *)s.p, &scheme, &host, &port, &path); NOTE(res);
			if (res == KSI_OK) { ok = 1; NOTE(port); }
			if (scheme) g_sink += strlen(scheme);
			if (host) g_sink += strlen(host);
			if (path) g_sink += strlen(path);
			KSI_free(scheme); KSI_free(host); KSI_free(path);
			xb_free(&s);
			break;
		}
		case EP_HASHNAME: {
			KSI_HashAlgorithm id;
			xblock s;
			char *z = (char *)malloc(n + 1);
			exact_leak_check = 1;
			memcpy(z, d, n); z[n] = 0;
			s = xb_make(z, n + 1); free(z);
			CALL(); id = KSI_getHashAlgorithmByName((const char *)s.p); NOTE(id);
			if ((int)id != -1) {
				const char *nm = KSI_getHashAlgorithmName(id);
				ok = 1;
				if (nm == NULL) fail("hashname-unknown-id", "KSI_getHashAlgorithmByName(%s) returned id %d that has no name", vf_hex(d, n), (int)id);
				else g_sink += strlen(nm);
				NOTE(KSI_isHashAlgorithmSupported(id)); NOTE(KSI_isHashAlgorithmTrusted(id)); NOTE(KSI_getHashLength(id));
			}
			xb_free(&s);
			break;
		}
	}
	if (exact_leak_check && vf_alloc_live != live_before)
		fail(ep == EP_FTLV ? "leak:ftlv" : ep == EP_URI ? "leak:uri" : "leak:hashname", "%ld SDK block(s) still allocated after the call; input=%s", vf_alloc_live - live_before, vf_hex(d, n));
	xb_free(&x);
	if (!g_quiet) { if (ok) st_ok[ep]++; else st_err[ep]++; }
	return ok;
}

/* ------------------------------------------------------------------ batches
 * A batch is a deterministic sequence of items; item i yields one input and the entry points it goes to. */
typedef struct batch {
	long count;
	int (*get)(struct batch *b, long i, vbuf *out, int *eps);   /* returns number of entry points (0 = skip item) */
	int userpub;          /* signature follow-ups need the user publications file */
	int render_stride;    /* error trace rendered for every k-th item (1 = all) */
	void *u; long a, b2, c;
} batch;

/* runs items [lo,hi) on a fresh context. Returns bit 1 = leak, bit 2 = sentinel changed */
static int probe(batch *b, long lo, long hi, int loglevel, int only_ep, long *leaked) {
	vbuf in;
	int eps[EP_N], ne, k, bad = 0;
	uint64_t s0, s1;
	long i, lk;
	vb_init(&in);
	ctx_open(loglevel, b->userpub);
	s0 = sentinel();
	for (i = lo; i < hi; i++) {
		vb_reset(&in);
		ne = b->get(b, i, &in, eps);
		if (ne <= 0) continue;
		if (!g_quiet) st_inputs++;
		for (k = 0; k < ne; k++) {
			if (only_ep >= 0 && eps[k] != only_ep) continue;
			run_input(eps[k], in.p, in.n, b->render_stride <= 1 || (i % b->render_stride) == 0);
		}
	}
	s1 = sentinel();
	lk = ctx_close();
	if (leaked) *leaked = lk;
	if (lk != 0) bad |= 1;
	if (s0 != s1 || s0 != g_sentinel_good) bad |= 2;
	vb_free(&in);
	return bad;
}

static void run_batch(batch *b, int loglevel) {
	long leaked = 0;
	int bad = probe(b, 0, b->count, loglevel, -1, &leaked);
	if (!bad) return;
	/* attribution: bisect to the first item that reproduces the problem on a fresh context */
	{
		long lo = 0, hi = b->count, lk = 0;
		int what = bad, found = 0, k, ne, eps[EP_N];
		vbuf in;
		g_quiet = 1;
		while (hi - lo > 1) {
			long mid = lo + (hi - lo) / 2;
			if (probe(b, lo, mid, loglevel, -1, NULL) & what) hi = mid; else lo = mid;
		}
		vb_init(&in);
		ne = b->get(b, lo, &in, eps);
		for (k = 0; k < ne && !found; k++) {
			int r = probe(b, lo, lo + 1, loglevel, eps[k], &lk);
			if (r & 1) { g_quiet = 0; fail(ep_leak_sig(eps[k]), "%ld SDK block(s) still allocated after the context was freed; entry point %s, log level %s, input (%zu bytes)=%s",
			                                 lk, EPNAME[eps[k]], loglevel ? "debug" : "none", in.n, vf_hex(in.p, in.n)); g_quiet = 1; found = 1; }
			if (r & 2) { g_quiet = 0; fail("ctx-damaged", "sentinel parse/verify on the same context differs after the call; entry point %s, input (%zu bytes)=%s", EPNAME[eps[k]], in.n, vf_hex(in.p, in.n)); g_quiet = 1; found = 1; }
		}
		g_quiet = 0;
		if (!found) {
			if (bad & 1) fail("leak:batch", "%ld SDK block(s) still allocated after the batch of %ld items (log level %s); not reproduced by a single item", leaked, b->count, loglevel ? "debug" : "none");
			if (bad & 2) fail("ctx-damaged", "sentinel result changed during the batch of %ld items; not reproduced by a single item", b->count);
		}
		vb_free(&in);
	}
}
