/* C09 - TLV encoding round-trips and never emits or accepts a mis-sized element
 * (DESIGN.md section 3, C09). Bounded-exhaustive enumeration on the real object code, compared
 * with the reference tree model in ref/ref_tlvtree.c. */
#define _GNU_SOURCE
#include "ku.h"
#include "ref/ref.h"
#include "simnet.h"
#define REF_TLVTREE_DECL_ONLY
#include "ref/ref_tlvtree.c"
#include <ksi/tlv_element.h>
#include <ksi/fast_tlv.h>
#include <stdarg.h>
#include <errno.h>
#include <sys/types.h>
#include <sys/socket.h>
#include <netinet/in.h>
#include <unistd.h>

static KSI_CTX *ctx;
static long g_calls;
#define CALL() (g_calls++)
static uint64_t g_obs;
#define OBS(v) (g_obs = g_obs * 1099511628211ULL + (uint64_t)(v) + 1)

static const unsigned TAGS[7] = {0, 1, 0x1f, 0x20, 0xff, 0x100, 0x1fff};
static const size_t LENS[8] = {0, 1, 254, 255, 256, 257, 65534, 65535};

/* ------------------------------------------------------------------ per-case bookkeeping */
enum {
	OC_TREE_FITS, OC_TREE_OVER_ROOT, OC_TREE_OVER_INNER, OC_HDR2, OC_HDR4,
	OC_TLV_BUILD_REFUSED_OVERSIZE, OC_EL_BUILD_REFUSED_OVERSIZE,
	OC_SER_OK, OC_SER_REFUSED_SHORT, OC_SER_REFUSED_OVERSIZE, OC_SER_OVERSIZE_OK, OC_SER_LENIENT_OK, OC_SER_LENIENT_ERR,
	OC_ALLOC_SER_OK, OC_ALLOC_SER_REFUSED, OC_CLONE_OK, OC_CLONE_REFUSED,
	OC_PARSEBACK_TLV, OC_PARSEBACK_EL, OC_PARSEBACK_FTLV,
	OC_MEMREAD_OK, OC_MEMREAD_REJ_HDR, OC_MEMREAD_REJ_SHORT,
	OC_MEMREADN_OK, OC_MEMREADN_REJ,
	OC_BLOB_OK, OC_BLOB_REJ_HDR, OC_BLOB_REJ_SHORT, OC_BLOB_REJ_TRAILING,
	OC_ELP_OK, OC_ELP_REJ, OC_ELP_TRAILING_ACCEPTED, OC_ELP_TRAILING_REJECTED,
	OC_NEST_OK, OC_NEST_REJ_UNTILED,
	OC_STREAM_SOCK_OK, OC_STREAM_SOCK_REJ, OC_STREAM_FILE_OK, OC_STREAM_FILE_REJ, OC_STREAM_COOKIE_OK,
	OC_OK, OC_REJECT,
	OC_N
};
static const char *OC_NAME[OC_N] = {
	"tree:fits", "tree:oversize-root", "tree:oversize-inner", "hdr:two-byte", "hdr:four-byte",
	"tlv:oversize-leaf-refused-at-build", "elem:oversize-leaf-refused-at-build",
	"ser:ok", "ser:refused-short-buffer", "ser:refused-oversize", "ser:OVERSIZE-WRITTEN", "ser:noheader-oversize-root:ok", "ser:noheader-oversize-root:err",
	"serialize:ok", "serialize:refused-oversize", "clone:ok", "clone:refused-oversize",
	"parseback:tlv", "parseback:elem", "parseback:ftlv",
	"memRead:ok", "memRead:reject-incomplete-header", "memRead:reject-short-payload",
	"memReadN:ok", "memReadN:reject",
	"parseBlob:ok", "parseBlob:reject-incomplete-header", "parseBlob:reject-short-payload", "parseBlob:reject-trailing",
	"elemParse:ok", "elemParse:reject", "elemParse:TRAILING-ACCEPTED", "elemParse:trailing-rejected",
	"expand:ok", "expand:reject-untiled",
	"stream:socket:ok", "stream:socket:reject", "stream:file:ok", "stream:file:reject", "stream:cookie:ok",
	"edit:applied", "edit:refused-absent-or-ambiguous"
};
static long g_oc[OC_N];
#define OC(c) (g_oc[c]++)

static char g_sigs[32][48];
static int g_nsig;
static char g_part[16];

static int begin_case(const char *part, const char *fmt, ...) {
	char b[400];
	va_list ap;
	va_start(ap, fmt);
	vsnprintf(b, sizeof b, fmt, ap);
	va_end(ap);
	if (!vf_case_begin("%s:%s", part, b)) return 0;
	snprintf(g_part, sizeof g_part, "%s", part);
	g_nsig = 0;
	g_calls = 0;
	g_obs = 7;
	memset(g_oc, 0, sizeof g_oc);
	return 1;
}

static void end_case(void) {
	int i;
	for (i = 0; i < OC_N; i++) if (g_oc[i]) { vf_outcome("%s:%s", g_part, OC_NAME[i]); OBS(g_oc[i]); }
	vf_obs("calls=%ld h=%016llx", g_calls, (unsigned long long)g_obs);
	vf_count("impl_calls", g_calls);
	vf_case_end(g_calls > 0);
}

/* report a disagreement; within one case every signature is reported once (the first instance
 * carries the detail), all instances are counted in the counter dev:<sig> */
static void fail1(const char *sig, const char *fmt, ...) __attribute__((format(printf, 2, 3)));
static void fail1(const char *sig, const char *fmt, ...) {
	char d[2600], k[56];
	va_list ap;
	int i;
	snprintf(k, sizeof k, "dev:%s", sig);
	vf_count(k, 1);
	OBS(sig[0] + 1000);
	for (i = 0; i < g_nsig; i++) if (strcmp(g_sigs[i], sig) == 0) return;
	if (g_nsig < 32) snprintf(g_sigs[g_nsig++], sizeof g_sigs[0], "%s", sig);
	va_start(ap, fmt);
	vsnprintf(d, sizeof d, fmt, ap);
	va_end(ap);
	vf_fail(sig, "%s", d);
}

/* exactly sized heap copy; for n == 0 a pointer to the END of a block, so that any read faults */
static unsigned char *exact_in(const void *d, size_t n, unsigned char **base) {
	if (n == 0) { *base = (unsigned char *)malloc(8); return *base + 8; }
	*base = (unsigned char *)malloc(n);
	memcpy(*base, d, n);
	return *base;
}

static const char *hx(const unsigned char *p, size_t n) { return vf_hex(p, n > 24 ? 24 : n); }

/* ------------------------------------------------------------------ comparators: parsed object vs reference node */
static void cmp_tlv(KSI_TLV *t, const rnode *n, const char *what) {
	const unsigned char *rv = NULL;
	size_t rl = 0;
	int res;
	CALL();
	if (KSI_TLV_getTag(t) != n->tag || KSI_TLV_isNonCritical(t) != n->nc || KSI_TLV_isForward(t) != n->fw)
		fail1("tlv-parse-fields", "%s: expected tag %x nc %d fw %d, got tag %x nc %d fw %d", what, n->tag, n->nc, n->fw,
		      KSI_TLV_getTag(t), KSI_TLV_isNonCritical(t), KSI_TLV_isForward(t));
	res = KSI_TLV_getRawValue(t, &rv, &rl);
	if (res != KSI_OK || rl != n->raw_len || (rl && memcmp(rv, n->raw, rl) != 0))
		fail1("tlv-parse-payload", "%s: tag %x expected payload of %zu bytes %s.., got res %x len %zu %s..", what, n->tag, n->raw_len,
		      hx(n->raw, n->raw_len), res, rl, res == KSI_OK && rv ? hx(rv, rl) : "-");
	OBS(res); OBS(rl);
	if (n->attempt) {
		KSI_LIST(KSI_TLV) *l = NULL;
		res = KSI_TLV_getNestedList(t, &l);
		CALL();
		OBS(res);
		if (n->nested) {
			OC(OC_NEST_OK);
			if (res != KSI_OK) fail1("tlv-valid-nested-rejected", "%s: payload of tag %x (%zu bytes) tiles into %d elements but KSI_TLV_getNestedList returned %x", what, n->tag, n->raw_len, n->nchild, res);
			else if ((long)KSI_TLVList_length(l) != n->nchild) fail1("tlv-nested-count", "%s: tag %x expected %d children, got %zu", what, n->tag, n->nchild, (size_t)KSI_TLVList_length(l));
			else {
				const rnode *c;
				size_t i = 0;
				for (c = n->first; c; c = c->next, i++) {
					KSI_TLV *ct = NULL;
					if (KSI_TLVList_elementAt(l, i, &ct) != KSI_OK || ct == NULL) { fail1("tlv-nested-count", "%s: child %zu not accessible", what, i); break; }
					cmp_tlv(ct, c, what);
				}
			}
		} else {
			OC(OC_NEST_REJ_UNTILED);
			if (res == KSI_OK) fail1("tlv-untiled-accepted", "%s: payload of tag %x (%zu bytes: %s) is not an exact tiling of elements but KSI_TLV_getNestedList succeeded with %zu children",
			                         what, n->tag, n->raw_len, hx(n->raw, n->raw_len), (size_t)KSI_TLVList_length(l));
			else {
				/* the refused expansion leaves the element as it was: asking again is refused again, and the payload it reports is unchanged */
				int res2;
				l = NULL;
				res2 = KSI_TLV_getNestedList(t, &l);
				CALL();
				if (res2 == KSI_OK) fail1("tlv-untiled-accepted-on-retry", "%s: payload of tag %x (%zu bytes: %s) is not an exact tiling; KSI_TLV_getNestedList refused it with %x and then accepted it with %zu children", what, n->tag, n->raw_len, hx(n->raw, n->raw_len), res, (size_t)KSI_TLVList_length(l));
				rv = NULL; rl = 0;
				res2 = KSI_TLV_getRawValue(t, &rv, &rl);
				if (res2 != KSI_OK || rl != n->raw_len || (rl && memcmp(rv, n->raw, rl) != 0))
					fail1("tlv-payload-changed-by-refused-expansion", "%s: tag %x reports a payload of %zu bytes (res %x) after its expansion was refused, it was parsed with %zu bytes", what, n->tag, rl, res2, n->raw_len);
			}
		}
	}
}

static void cmp_el(KSI_TlvElement *e, const rnode *n, const char *what) {
	CALL();
	if (e->ftlv.tag != n->tag || !!e->ftlv.is_nc != n->nc || !!e->ftlv.is_fwd != n->fw || e->ftlv.dat_len != n->raw_len || e->ftlv.hdr_len != n->in_hdr)
		fail1("elem-parse-fields", "%s: expected tag %x nc %d fw %d hdr %zu len %zu, got tag %x nc %d fw %d hdr %zu len %zu", what, n->tag, n->nc, n->fw, n->in_hdr, n->raw_len,
		      e->ftlv.tag, e->ftlv.is_nc, e->ftlv.is_fwd, e->ftlv.hdr_len, e->ftlv.dat_len);
	else if (n->raw_len && memcmp(e->ptr + e->ftlv.hdr_len, n->raw, n->raw_len) != 0)
		fail1("elem-parse-payload", "%s: tag %x payload differs: expected %s.. got %s..", what, n->tag, hx(n->raw, n->raw_len), hx(e->ptr + e->ftlv.hdr_len, n->raw_len));
	if (n->attempt) {
		KSI_TlvElement *x = NULL;
		int res = KSI_TlvElement_getElement(e, 0x1ffd, &x);   /* the documented way to expand the sub-elements */
		CALL();
		OBS(res);
		KSI_TlvElement_free(x);
		if (n->nested) {
			OC(OC_NEST_OK);
			if (e->subList == NULL) fail1("elem-valid-nested-rejected", "%s: payload of tag %x (%zu bytes) tiles into %d elements but expansion returned %x", what, n->tag, n->raw_len, n->nchild, res);
			else if ((long)KSI_TlvElementList_length(e->subList) != n->nchild) fail1("elem-nested-count", "%s: tag %x expected %d children, got %zu", what, n->tag, n->nchild, (size_t)KSI_TlvElementList_length(e->subList));
			else {
				const rnode *c;
				size_t i = 0;
				for (c = n->first; c; c = c->next, i++) {
					KSI_TlvElement *ce = NULL;
					if (KSI_TlvElementList_elementAt(e->subList, i, &ce) != KSI_OK || ce == NULL) { fail1("elem-nested-count", "%s: child %zu not accessible", what, i); break; }
					cmp_el(ce, c, what);
				}
			}
		} else {
			OC(OC_NEST_REJ_UNTILED);
			if (res == KSI_OK || e->subList != NULL)
				fail1("elem-untiled-accepted", "%s: payload of tag %x (%zu bytes: %s) is not an exact tiling but element expansion returned %x (%zu children)", what, n->tag, n->raw_len,
				      hx(n->raw, n->raw_len), res, (size_t)KSI_TlvElementList_length(e->subList));
		}
	}
}

/* header reader: p points into an exactly sized heap block, [p, p+n) is the element */
static void cmp_ftlv(const unsigned char *p, size_t n, const rnode *nd, const char *what) {
	KSI_FTLV f;
	int res;
	memset(&f, 0xAB, sizeof f);
	res = KSI_FTLV_memRead(p, n, &f);
	CALL();
	OBS(res);
	if (res != KSI_OK) { fail1("ftlv-valid-rejected", "%s: KSI_FTLV_memRead refused a complete element of %zu bytes (%s..) with %x", what, n, hx(p, n), res); return; }
	if (f.tag != nd->tag || !!f.is_nc != nd->nc || !!f.is_fwd != nd->fw || f.hdr_len != nd->in_hdr || f.dat_len != nd->raw_len || f.off != 0) {
		fail1("ftlv-fields", "%s: expected tag %x nc %d fw %d hdr %zu len %zu off 0, got tag %x nc %d fw %d hdr %zu len %zu off %zu", what, nd->tag, nd->nc, nd->fw, nd->in_hdr, nd->raw_len,
		      f.tag, f.is_nc, f.is_fwd, f.hdr_len, f.dat_len, f.off);
		return;
	}
	if (nd->attempt && nd->raw_len > 0) {
		size_t rd = 7777;
		res = KSI_FTLV_memReadN(p + f.hdr_len, f.dat_len, NULL, 0, &rd);
		CALL();
		OBS(res);
		if (!nd->nested) {
			if (res == KSI_OK) fail1("ftlv-untiled-accepted", "%s: KSI_FTLV_memReadN counted %zu elements in a payload that does not tile (%s)", what, rd, hx(p + f.hdr_len, f.dat_len));
		} else if (res != KSI_OK || (long)rd != nd->nchild) {
			fail1("ftlv-nested-count", "%s: KSI_FTLV_memReadN(count) expected %d elements, got res %x count %zu", what, nd->nchild, res, rd);
		} else {
			KSI_FTLV *arr = (KSI_FTLV *)calloc((size_t)nd->nchild, sizeof *arr);
			size_t rd2 = 0, i = 0, off = 0;
			const rnode *c;
			res = KSI_FTLV_memReadN(p + f.hdr_len, f.dat_len, arr, (size_t)nd->nchild, &rd2);
			CALL();
			if (res != KSI_OK || (long)rd2 != nd->nchild) fail1("ftlv-nested-count", "%s: KSI_FTLV_memReadN(array) expected %d elements, got res %x count %zu", what, nd->nchild, res, rd2);
			else for (c = nd->first; c; c = c->next, i++) {
				if (arr[i].off != off) { fail1("ftlv-fields", "%s: child %zu offset expected %zu got %zu", what, i, off, arr[i].off); break; }
				cmp_ftlv(p + f.hdr_len + off, arr[i].hdr_len + arr[i].dat_len, c, what);
				off += c->in_hdr + c->raw_len;
			}
			free(arr);
		}
	}
}

/* ------------------------------------------------------------------ serialized output vs expected bytes */
static void expect_bytes(const char *sig, const char *what, const unsigned char *got, size_t got_len, const vbuf *exp) {
	if (got_len != exp->n || (exp->n && memcmp(got, exp->p, exp->n) != 0)) {
		size_t i = 0;
		while (i < got_len && i < exp->n && got[i] == exp->p[i]) i++;
		fail1(sig, "%s: expected %zu bytes %s.., got %zu bytes %s.. (first difference at offset %zu)", what, exp->n, hx(exp->p, exp->n), got_len, hx(got, got_len), i);
	}
}

static void el_serialize_expect(KSI_TlvElement *e, const vbuf *exp, const char *sig, const char *what) {
	size_t len = 0, len2 = 0;
	unsigned char *b;
	int res = KSI_TlvElement_serialize(e, NULL, 0, &len, 0);
	CALL();
	if (res != KSI_OK || len != exp->n) { fail1(sig, "%s: length query expected %zu got res %x len %zu", what, exp->n, res, len); return; }
	b = (unsigned char *)malloc(len ? len : 1);
	res = KSI_TlvElement_serialize(e, b, len, &len2, 0);
	CALL();
	if (res != KSI_OK) fail1(sig, "%s: serialize into an exactly sized buffer of %zu bytes returned %x", what, len, res);
	else expect_bytes(sig, what, b, len2, exp);
	free(b);
}

static void tlv_serialize_expect(KSI_TLV *t, const vbuf *exp, const char *sig, const char *what) {
	unsigned char *b = NULL;
	size_t bl = 0;
	int res = KSI_TLV_serialize(t, &b, &bl);
	CALL();
	if (res != KSI_OK) fail1(sig, "%s: KSI_TLV_serialize returned %x, expected %zu bytes", what, res, exp->n);
	else expect_bytes(sig, what, b, bl, exp);
	KSI_free(b);
}

/* ------------------------------------------------------------------ one byte string through all parsers (parts a, c) */
static void check_bytes(const unsigned char *src, size_t n, int depth, const char *what) {
	unsigned char *base, *x;
	rhdr h;
	int hr, res;
	long tile;
	rnode *ref;
	if (n == 0) return;   /* the empty string has its own cases (a0) */
	x = exact_in(src, n, &base);
	hr = rt_hdr(src, n, &h);
	tile = rt_tile(src, n);
	rt_reset();
	ref = rt_decode(src, n, depth);

	/* 1. header reader: one element from a buffer that may be longer */
	{
		KSI_FTLV f;
		memset(&f, 0xAB, sizeof f);
		res = KSI_FTLV_memRead(x, n, &f);
		CALL(); OBS(res);
		OC(hr == 0 ? OC_MEMREAD_OK : hr == 1 ? OC_MEMREAD_REJ_SHORT : OC_MEMREAD_REJ_HDR);
		if (hr == 0 && res != KSI_OK) fail1("ftlv-valid-rejected", "%s: KSI_FTLV_memRead(%s.., %zu) refused a complete element (hdr %zu len %zu) with %x", what, hx(src, n), n, h.hdr, h.len, res);
		else if (hr != 0 && res == KSI_OK) fail1("ftlv-misfit-accepted", "%s: KSI_FTLV_memRead(%s.., %zu) accepted an element that does not fit the input (%s; got hdr %zu len %zu)", what, hx(src, n), n,
		                                         hr == 1 ? "declared payload longer than the input" : "incomplete header", f.hdr_len, f.dat_len);
		else if (res == KSI_OK && (f.tag != h.tag || !!f.is_nc != h.nc || !!f.is_fwd != h.fw || f.hdr_len != h.hdr || f.dat_len != h.len || f.off != 0))
			fail1("ftlv-fields", "%s: input %s..: expected tag %x nc %d fw %d hdr %zu len %zu, got tag %x nc %d fw %d hdr %zu len %zu off %zu", what, hx(src, n), h.tag, h.nc, h.fw, h.hdr, h.len,
			      f.tag, f.is_nc, f.is_fwd, f.hdr_len, f.dat_len, f.off);
	}
	/* 2. multi reader: count, then up to 2 elements */
	{
		size_t rd = 7777;
		KSI_FTLV arr[2];
		int exp_ok = 0;
		size_t exp_rd = 0, off2 = 0;
		res = KSI_FTLV_memReadN(x, n, NULL, 0, &rd);
		CALL(); OBS(res);
		OC(tile >= 1 ? OC_MEMREADN_OK : OC_MEMREADN_REJ);
		if (tile >= 1 && (res != KSI_OK || (long)rd != tile)) fail1("ftlv-readN-count", "%s: input of %zu bytes %s.. tiles into %ld elements, KSI_FTLV_memReadN(count) returned %x count %zu", what, n, hx(src, n), tile, res, rd);
		if (tile < 0 && res == KSI_OK) fail1("ftlv-untiled-accepted", "%s: input of %zu bytes %s.. is not an exact tiling but KSI_FTLV_memReadN(count) returned OK count %zu", what, n, hx(src, n), rd);
		if (hr == 0) {
			exp_ok = 1; exp_rd = 1; off2 = h.hdr + h.len;
			if (off2 < n) {
				rhdr h2;
				if (rt_hdr(src + off2, n - off2, &h2) == 0) exp_rd = 2; else exp_ok = 0;
			}
		}
		memset(arr, 0xAB, sizeof arr);
		rd = 7777;
		res = KSI_FTLV_memReadN(x, n, arr, 2, &rd);
		CALL(); OBS(res);
		if (exp_ok && (res != KSI_OK || rd != exp_rd || arr[0].off != 0 || arr[0].hdr_len != h.hdr || arr[0].dat_len != h.len || arr[0].tag != h.tag || (exp_rd == 2 && arr[1].off != off2)))
			fail1("ftlv-readN-array", "%s: input %s.. (%zu bytes): expected %zu elements (second at %zu), got res %x count %zu off0 %zu off1 %zu", what, hx(src, n), n, exp_rd, off2, res, rd, arr[0].off, arr[1].off);
		if (!exp_ok && res == KSI_OK) fail1("ftlv-misfit-accepted", "%s: KSI_FTLV_memReadN(array of 2) accepted %s.. (%zu bytes) although one of the first two elements does not fit", what, hx(src, n), n);
	}
	/* 3. tree codec: the whole input must be exactly one element */
	{
		KSI_TLV *t = NULL;
		res = KSI_TLV_parseBlob(ctx, x, n, &t);
		CALL(); OBS(res);
		OC(ref ? OC_BLOB_OK : hr == 0 ? OC_BLOB_REJ_TRAILING : hr == 1 ? OC_BLOB_REJ_SHORT : OC_BLOB_REJ_HDR);
		if (ref && res != KSI_OK) fail1("tlv-valid-rejected", "%s: KSI_TLV_parseBlob refused the exact element %s.. (%zu bytes) with %x", what, hx(src, n), n, res);
		else if (!ref && res == KSI_OK) fail1("tlv-missized-accepted", "%s: KSI_TLV_parseBlob accepted %s.. (%zu bytes) although the declared length (hdr %zu + len %zu) does not tile the input", what, hx(src, n), n, h.hdr, h.len);
		else if (ref) {
			vbuf re;
			cmp_tlv(t, ref, what);
			/* parse, expand, serialize == canonical re-encoding of the reference tree */
			rt_layout(ref);
			vb_init(&re);
			if (rt_encode(ref, &re, 1) != 0) vf_harness_error("reference cannot re-encode a decoded tree");
			tlv_serialize_expect(t, &re, "tlv-reserialize-mismatch", what);
			vb_free(&re);
		}
		KSI_TLV_free(t);
	}
	/* 4. element codec */
	{
		unsigned char *b2, *x2 = exact_in(src, n, &b2);
		KSI_TlvElement *e = NULL;
		res = KSI_TlvElement_parse(x2, n, &e);
		CALL(); OBS(res);
		if (hr != 0) {
			OC(OC_ELP_REJ);
			if (res == KSI_OK) fail1("elem-misfit-accepted", "%s: KSI_TlvElement_parse accepted %s.. (%zu bytes) although the element does not fit the input", what, hx(src, n), n);
		} else if (h.hdr + h.len != n) {
			/* trailing bytes after the element: the property demands exact tiling of the input */
			OC(res == KSI_OK ? OC_ELP_TRAILING_ACCEPTED : OC_ELP_TRAILING_REJECTED);
			if (res == KSI_OK) fail1("elem-parse-trailing-accepted", "%s: KSI_TlvElement_parse(%s.., dat_len=%zu) returned OK although the element occupies only %zu bytes (%zu trailing bytes silently ignored; KSI_TLV_parseBlob refuses this input)",
			                         what, hx(src, n), n, h.hdr + h.len, n - h.hdr - h.len);
		} else {
			OC(OC_ELP_OK);
			if (res != KSI_OK) fail1("elem-valid-rejected", "%s: KSI_TlvElement_parse refused the exact element %s.. (%zu bytes) with %x", what, hx(src, n), n, res);
		}
		if (res == KSI_OK && hr == 0) {
			rnode *r2;
			vbuf re;
			rt_reset();
			r2 = rt_decode(src, h.hdr + h.len, depth);
			cmp_el(e, r2, what);
			rt_layout(r2);
			vb_init(&re);
			if (rt_encode(r2, &re, 1) != 0) vf_harness_error("reference cannot re-encode a decoded tree");
			el_serialize_expect(e, &re, "elem-reserialize-mismatch", what);
			vb_free(&re);
		}
		KSI_TlvElement_free(e);
		free(b2);
	}
	free(base);
}

/* ------------------------------------------------------------------ building implementation trees from a reference tree */
static KSI_TLV *build_tlv(const rnode *n, int *refused) {
	KSI_TLV *t = NULL;
	int res = KSI_TLV_new(ctx, n->tag, n->nc, n->fw, &t);
	CALL();
	if (res != KSI_OK) { *refused = res; return NULL; }
	if (!n->nested) {
		res = KSI_TLV_setRawValue(t, n->raw, n->raw_len);
		CALL();
		if (res != KSI_OK) { *refused = res; KSI_TLV_free(t); return NULL; }
	} else {
		const rnode *c;
		for (c = n->first; c; c = c->next) {
			KSI_TLV *ct = build_tlv(c, refused);
			if (!ct) { KSI_TLV_free(t); return NULL; }
			res = KSI_TLV_appendNestedTlv(t, ct);
			CALL();
			if (res != KSI_OK) { *refused = res; KSI_TLV_free(ct); KSI_TLV_free(t); return NULL; }
		}
	}
	return t;
}

/* the way the library's own setters build elements: fill the public struct, optionally detach (own copy) */
static KSI_TlvElement *build_el(const rnode *n, int detach_leaves, int *refused) {
	KSI_TlvElement *e = NULL;
	int res = KSI_TlvElement_new(&e);
	CALL();
	if (res != KSI_OK) { *refused = res; return NULL; }
	e->ftlv.tag = n->tag;
	e->ftlv.is_nc = n->nc;
	e->ftlv.is_fwd = n->fw;
	if (!n->nested) {
		e->ftlv.hdr_len = 0;
		e->ftlv.dat_len = n->raw_len;
		e->ptr = (unsigned char *)n->raw;
		e->ptr_own = 0;
		if (detach_leaves) {
			res = KSI_TlvElement_detach(e);
			CALL();
			if (res != KSI_OK) { *refused = res; e->ptr = NULL; KSI_TlvElement_free(e); return NULL; }
		}
	} else {
		const rnode *c;
		for (c = n->first; c; c = c->next) {
			KSI_TlvElement *ce = build_el(c, detach_leaves, refused);
			if (!ce) { KSI_TlvElement_free(e); return NULL; }
			res = KSI_TlvElement_appendElement(e, ce);
			CALL();
			KSI_TlvElement_free(ce);
			if (res != KSI_OK) { *refused = res; KSI_TlvElement_free(e); return NULL; }
		}
	}
	return e;
}

/* ------------------------------------------------------------------ output buffer sweeps */
#define SMALL_NEED 40
static int pick_sizes(size_t need, int oversize, size_t *out) {
	int k = 0;
	size_t s;
	if (!oversize && need <= SMALL_NEED) { for (s = 0; s <= need + 2; s++) out[k++] = s; return k; }
	out[k++] = 0;
	if (VF_THOROUGH) out[k++] = 1;
	if (VF_THOROUGH && need >= 4) out[k++] = need - 2;
	if (need >= 2) out[k++] = need - 1;
	out[k++] = need;
	out[k++] = need + 1;
	if (VF_THOROUGH) out[k++] = need + 2;
	out[k++] = need + 2 < 65540 ? 65540 : need + 100;
	return k;
}

enum { CODEC_TLV = 0, CODEC_EL = 1 };
static const char *CN[2] = {"tlv", "elem"};

static int call_ser(int codec, void *obj, unsigned char *buf, size_t size, size_t *len, int opt, int canary_variant, const char **fn) {
	CALL();
	if (codec == CODEC_TLV) {
		KSI_TLV *t = (KSI_TLV *)obj;
		if (opt == 0 && !canary_variant) { *fn = "KSI_TLV_serialize_ex"; return KSI_TLV_serialize_ex(t, buf, size, len); }
		if (opt == KSI_TLV_OPT_NO_HEADER && canary_variant) { *fn = "KSI_TLV_serializePayload"; *len = size; return KSI_TLV_serializePayload(t, buf, len); }
		*fn = "KSI_TLV_writeBytes";
		return KSI_TLV_writeBytes(t, buf, size, len, opt);
	}
	*fn = "KSI_TlvElement_serialize";
	return KSI_TlvElement_serialize((KSI_TlvElement *)obj, buf, size, len, opt);
}

/* every option combination x every buffer size of the bound. For each (opt, size) the call is first made
 * on a buffer embedded between canary areas (left margin wide enough to hold a right-aligned write of
 * `need` bytes), then - unless the canaries were hit - on an exactly sized heap block where ASan faults
 * on any access outside. */
static void sweep(int codec, void *obj, const rnode *root, const vbuf *enc, const vbuf *cont, int fits, int inner_fits, const char *desc) {
	int opt;
	char sig[48];
	for (opt = 0; opt < 4; opt++) {
		int no_hdr = opt & KSI_TLV_OPT_NO_HEADER, no_move = opt & KSI_TLV_OPT_NO_MOVE;
		size_t need = root->content + (no_hdr ? 0 : root->hdr);
		int avail = no_hdr ? inner_fits : fits;
		int lenient = no_hdr && root->content > 0xffff;   /* no header carries the root's length: error or correct bytes */
		const unsigned char *exp = avail ? (no_hdr ? cont->p : enc->p) : NULL;
		size_t sizes[64];
		int nsz = pick_sizes(need, !avail || lenient, sizes), si, variant;
		for (si = 0; si < nsz; si++) {
			size_t size = sizes[si];
			for (variant = 1; variant >= 0; variant--) {
				size_t lm = 64 + (size < need ? need - size : 0), rm = 64, len = 0xDEAD, i;
				unsigned char *base, *buf;
				const char *fn = "";
				int res, outside = 0;
				if (variant) {
					base = (unsigned char *)malloc(lm + size + rm);
					memset(base, 0xA5, lm);
					memset(base + lm + size, 0x5A, rm);
					buf = base + lm;
				} else if (size == 0) {
					base = (unsigned char *)malloc(8);
					buf = base + 8;
				} else {
					base = buf = (unsigned char *)malloc(size);
				}
				if (size && size <= 4096) memset(buf, 0xEE, size);
				res = call_ser(codec, obj, buf, size, &len, opt, variant, &fn);
				OBS(res);
				if (variant) {
					for (i = 0; i < lm && !outside; i++) if (base[i] != 0xA5) outside = 1 + (int)(lm - i);
					for (i = 0; i < rm && !outside; i++) if (base[lm + size + i] != 0x5A) outside = -1 - (int)i;
				}
				if (outside) {
					snprintf(sig, sizeof sig, "%s-write-outside-buffer", CN[codec]);
					fail1(sig, "tree %s: %s(opt=%d) with a buffer of %zu bytes (needed %zu) wrote outside the caller's buffer (%s, returned %x)", desc, fn, opt, size, need,
					      outside > 0 ? "before the buffer" : "after the buffer", res);
					free(base);
					break;   /* the same call on an exactly sized heap block would abort under ASan */
				}
				if (res == KSI_OK) {
					const unsigned char *g = buf + (no_move && need <= size ? size - need : 0);
					const char *wrong = NULL;
					size_t d = 0;
					if (!avail) wrong = "oversize-written";
					else if (size < need) wrong = "short-buffer-accepted";
					else if (len != need) wrong = "serialize-length";
					else if (need && memcmp(g, exp, need) != 0) { wrong = "serialize-bytes"; while (d < need && g[d] == exp[d]) d++; }
					if (wrong && !fits) wrong = "oversize-written";   /* whatever went wrong, the tree should have been refused */
					if (!wrong) OC(lenient ? OC_SER_LENIENT_OK : OC_SER_OK);
					else {
						snprintf(sig, sizeof sig, "%s-%s", CN[codec], wrong);
						if (!fits) {
							OC(OC_SER_OVERSIZE_OK);
							fail1(sig, "tree %s: content of %zu bytes exceeds the 16-bit length field, but %s(opt=%d, size=%zu) returned OK, len=%zu (true size %zu), output starts %s", desc, root->content, fn, opt, size, len, need,
							      hx(buf, size < 4 ? size : 4));
						} else if (size < need) fail1(sig, "tree %s: %s(opt=%d) returned OK (len=%zu) for a buffer of %zu bytes although %zu are needed", desc, fn, opt, len, size, need);
						else if (len != need) fail1(sig, "tree %s: %s(opt=%d, size=%zu) reported %zu bytes, expected %zu", desc, fn, opt, size, len, need);
						else fail1(sig, "tree %s: %s(opt=%d, size=%zu): output differs from the reference encoding at offset %zu: expected %s.. got %s..", desc, fn, opt, size, d, hx(exp + d, need - d), hx(g + d, need - d));
					}
				} else {
					if (!avail) OC(OC_SER_REFUSED_OVERSIZE);
					else if (lenient) OC(OC_SER_LENIENT_ERR);
					else if (size < need) OC(OC_SER_REFUSED_SHORT);
					else {
						snprintf(sig, sizeof sig, "%s-adequate-buffer-refused", CN[codec]);
						fail1(sig, "tree %s: %s(opt=%d) refused (%x) a buffer of %zu bytes although exactly %zu bytes are needed", desc, fn, opt, res, size, need);
					}
				}
				free(base);
			}
		}
	}
}

/* ------------------------------------------------------------------ the full battery for one reference tree (part b) */
static void parse_back(rnode *root, const vbuf *enc, const char *desc) {
	unsigned char *base, *x = exact_in(enc->p, enc->n, &base);
	KSI_TLV *t = NULL;
	KSI_TlvElement *e = NULL;
	int res;
	/* tree codec */
	res = KSI_TLV_parseBlob(ctx, x, enc->n, &t);
	CALL();
	OC(OC_PARSEBACK_TLV);
	if (res != KSI_OK) fail1("tlv-valid-rejected", "tree %s: KSI_TLV_parseBlob refused the reference encoding (%zu bytes) with %x", desc, enc->n, res);
	else {
		cmp_tlv(t, root, desc);
		tlv_serialize_expect(t, enc, "tlv-reserialize-mismatch", desc);
	}
	KSI_TLV_free(t);
	/* header reader */
	OC(OC_PARSEBACK_FTLV);
	cmp_ftlv(x, enc->n, root, desc);
	free(base);
	/* element codec (the element refers to the input block; after detach the block is released) */
	x = exact_in(enc->p, enc->n, &base);
	res = KSI_TlvElement_parse(x, enc->n, &e);
	CALL();
	OC(OC_PARSEBACK_EL);
	if (res != KSI_OK) fail1("elem-valid-rejected", "tree %s: KSI_TlvElement_parse refused the reference encoding (%zu bytes) with %x", desc, enc->n, res);
	else {
		cmp_el(e, root, desc);
		el_serialize_expect(e, enc, "elem-reserialize-mismatch", desc);
		res = KSI_TlvElement_detach(e);
		CALL();
		free(base);
		base = NULL;
		if (res != KSI_OK) fail1("elem-detach-refused", "tree %s: KSI_TlvElement_detach of a parsed element returned %x", desc, res);
		else {
			el_serialize_expect(e, enc, "elem-detach-mismatch", desc);
			cmp_el(e, root, desc);
		}
	}
	KSI_TlvElement_free(e);
	free(base);
}

static long g_trees;

static void battery(rnode *root) {
	char desc[300] = "";
	vbuf enc, cont;
	int fits, inner, dm;
	rt_layout(root);
	fits = rt_fits(root, 0);
	inner = rt_fits(root, 1);
	rt_describe(root, desc, sizeof desc);
	vb_init(&enc); vb_init(&cont);
	if (fits && rt_encode(root, &enc, 1) != 0) vf_harness_error("reference refuses a fitting tree");
	if (inner && rt_encode(root, &cont, 0) != 0) vf_harness_error("reference refuses fitting content");
	if (fits) rt_bind(root, enc.p);
	OC(fits ? OC_TREE_FITS : inner ? OC_TREE_OVER_ROOT : OC_TREE_OVER_INNER);
	if (fits) OC(enc.p[0] & 0x80 ? OC_HDR4 : OC_HDR2);
	g_trees++;
	OBS(root->content);

	/* ---- tree codec */
	{
		int refused = 0;
		KSI_TLV *t = build_tlv(root, &refused);
		if (!t) {
			if (fits) fail1("tlv-build-refused", "tree %s fits the length field but building it failed with %x", desc, refused);
			else OC(OC_TLV_BUILD_REFUSED_OVERSIZE);
		} else {
			unsigned char *b = NULL;
			size_t bl = 0;
			const unsigned char *rv = NULL;
			size_t rl = 0;
			KSI_TLV *cl = NULL;
			int res;
			/* allocating serializer */
			res = KSI_TLV_serialize(t, &b, &bl);
			CALL(); OBS(res);
			if (fits) {
				OC(OC_ALLOC_SER_OK);
				if (res != KSI_OK) fail1("tlv-valid-refused", "tree %s: KSI_TLV_serialize returned %x for a tree that fits (%zu bytes)", desc, res, enc.n);
				else expect_bytes("tlv-serialize-bytes", desc, b, bl, &enc);
			} else if (res == KSI_OK) {
				OC(OC_SER_OVERSIZE_OK);
				fail1("tlv-oversize-written", "tree %s: content of %zu bytes exceeds the 16-bit length field, but KSI_TLV_serialize returned OK with %zu bytes starting %s", desc, root->content, bl, hx(b, bl > 4 ? 4 : bl));
			} else OC(OC_ALLOC_SER_REFUSED);
			KSI_free(b);
			/* caller supplied buffers */
			sweep(CODEC_TLV, t, root, &enc, &cont, fits, inner, desc);
			/* clone = serialize + parse + re-expand */
			res = KSI_TLV_clone(t, &cl);
			CALL(); OBS(res);
			if (fits) {
				OC(OC_CLONE_OK);
				if (res != KSI_OK) fail1("tlv-clone-refused", "tree %s: KSI_TLV_clone returned %x", desc, res);
				else { cmp_tlv(cl, root, desc); tlv_serialize_expect(cl, &enc, "tlv-clone-mismatch", desc); }
			} else if (res == KSI_OK) {
				fail1("tlv-oversize-written", "tree %s: content of %zu bytes exceeds the 16-bit length field, but KSI_TLV_clone succeeded", desc, root->content);
			} else OC(OC_CLONE_REFUSED);
			KSI_TLV_free(cl);
			/* nested -> raw conversion of the root, then serialize again */
			res = KSI_TLV_getRawValue(t, &rv, &rl);
			CALL(); OBS(res);
			if (inner) {
				if (res == KSI_OK) { if (rl != cont.n || (rl && memcmp(rv, cont.p, rl) != 0)) fail1("tlv-rawvalue-mismatch", "tree %s: KSI_TLV_getRawValue returned %zu bytes %s.., expected %zu bytes %s..", desc, rl, hx(rv, rl), cont.n, hx(cont.p, cont.n)); }
				else if (fits) fail1("tlv-valid-refused", "tree %s: KSI_TLV_getRawValue returned %x", desc, res);
			} else if (res == KSI_OK) {
				fail1("tlv-oversize-written", "tree %s: an inner element's content exceeds the 16-bit length field, but KSI_TLV_getRawValue produced a %zu byte payload", desc, rl);
			}
			b = NULL;
			res = KSI_TLV_serialize(t, &b, &bl);
			CALL(); OBS(res);
			if (fits) { if (res != KSI_OK) fail1("tlv-valid-refused", "tree %s: KSI_TLV_serialize after raw conversion returned %x", desc, res); else expect_bytes("tlv-serialize-bytes", desc, b, bl, &enc); }
			else if (res == KSI_OK) fail1("tlv-oversize-written", "tree %s: content of %zu bytes exceeds the 16-bit length field, but KSI_TLV_serialize (after KSI_TLV_getRawValue) returned OK with %zu bytes starting %s", desc, root->content, bl, hx(b, bl > 4 ? 4 : bl));
			KSI_free(b);
			KSI_TLV_free(t);
		}
	}
	/* ---- element codec: leaves borrowed (dm 0) / detached (dm 1) */
	for (dm = 0; dm < 2; dm++) {
		int refused = 0, res;
		KSI_TlvElement *e = build_el(root, dm, &refused);
		if (!e) {
			if (fits) fail1("elem-build-refused", "tree %s fits the length field but building it failed with %x", desc, refused);
			else OC(OC_EL_BUILD_REFUSED_OVERSIZE);
			continue;
		}
		if (fits) {
			size_t len = 0;
			res = KSI_TlvElement_serialize(e, NULL, 0, &len, 0);
			CALL();
			if (res != KSI_OK || len != enc.n) fail1("elem-serialize-length", "tree %s: length query returned %x len %zu, expected %zu", desc, res, len, enc.n);
		}
		sweep(CODEC_EL, e, root, &enc, &cont, fits, inner, desc);
		if (dm == 1 && root->nested) {
			res = KSI_TlvElement_detach(e);
			CALL(); OBS(res);
			if (fits) { if (res != KSI_OK) fail1("elem-detach-refused", "tree %s: KSI_TlvElement_detach returned %x", desc, res); else el_serialize_expect(e, &enc, "elem-detach-mismatch", desc); }
			else if (res == KSI_OK) fail1("elem-oversize-written", "tree %s: content of %zu bytes exceeds the 16-bit length field, but KSI_TlvElement_detach (serialize + remap) succeeded", desc, root->content);
		}
		KSI_TlvElement_free(e);
	}
	/* ---- serialize followed by parse */
	if (fits) parse_back(root, &enc, desc);
	vb_free(&enc); vb_free(&cont);
}

/* ================================================================== part (a): all two-byte prefixes */
static size_t fill3(unsigned char *p, size_t k) {
	/* filler that tiles iff k % 3 == 0: elements 02 01 AA. Long fillers (k >= 4096) use 257-byte elements
	 * 02 FF AA*255 (tiles iff k % 257 == 0, e.g. 65535) because list append in the library is O(n) per child */
	static const unsigned char F[3] = {0x02, 0x01, 0xAA};
	size_t i;
	if (k < 4096) { for (i = 0; i < k; i++) p[i] = F[i % 3]; return k; }
	for (i = 0; i < k; i++) p[i] = (i % 257 == 0) ? 0x02 : (i % 257 == 1) ? 0xFF : 0xAA;
	return k;
}

static void a_inputs(unsigned char *in, size_t hdr, size_t D, const char *what) {
	size_t ks[7], k;
	int nk = 0, i, j;
	ks[nk++] = 0; ks[nk++] = 1; ks[nk++] = 2; ks[nk++] = 3;
	if (D > 0) ks[nk++] = D - 1;
	ks[nk++] = D; ks[nk++] = D + 1;
	for (i = 0; i < nk; i++) {
		for (j = 0; j < i; j++) if (ks[j] == ks[i]) break;
		if (j < i) continue;
		k = ks[i];
		fill3(in + hdr, k);
		check_bytes(in, hdr + k, 1, what);
	}
}

static void part_a(void) {
	static const size_t DQ[] = {0, 1, 3, 255, 256, 257};
	static const size_t DT[] = {0, 1, 2, 3, 4, 255, 256, 257, 1000, 65534, 65535};
	const size_t *Ds = VF_THOROUGH ? DT : DQ;
	int nD = VF_THOROUGH ? 11 : 6, b0, b1, di;
	unsigned char *in = (unsigned char *)malloc(4 + 65536 + 8);
	/* the empty input, one call per case (a fault is attributed to the function) */
	for (di = 0; di < 4; di++) {
		static const char *FN[4] = {"memRead", "memReadN", "parseBlob", "elemParse"};
		unsigned char *base, *x;
		int res = -1;
		if (!begin_case("a0", "empty:%s", FN[di])) continue;
		x = exact_in("", 0, &base);
		if (di == 0) { KSI_FTLV f; res = KSI_FTLV_memRead(x, 0, &f); }
		else if (di == 1) { size_t rd; res = KSI_FTLV_memReadN(x, 0, NULL, 0, &rd); }
		else if (di == 2) { KSI_TLV *t = NULL; res = KSI_TLV_parseBlob(ctx, x, 0, &t); KSI_TLV_free(t); }
		else { KSI_TlvElement *e = NULL; res = KSI_TlvElement_parse(x, 0, &e); KSI_TlvElement_free(e); }
		CALL();
		if (res == KSI_OK) fail1("empty-accepted", "%s accepted the empty byte string", FN[di]);
		vf_outcome("a0:empty:%s:rejected", FN[di]);
		free(base);
		end_case();
	}
	/* all one-byte inputs */
	if (begin_case("a", "one-byte")) {
		for (b0 = 0; b0 < 256; b0++) { in[0] = (unsigned char)b0; check_bytes(in, 1, 1, "one-byte"); }
		end_case();
	}
	for (b0 = 0; b0 < 256; b0++) {
		if (!begin_case("a", "b0=%02x", b0)) continue;
		if (b0 == 0x21) vf_sample("a:b0=21: all 256 second bytes; TLV8 prefix 21 LL followed by 0,1,2,3,LL-1,LL,LL+1 filler bytes through KSI_FTLV_memRead/memReadN, KSI_TLV_parseBlob(+getNestedList), KSI_TlvElement_parse(+expansion)");
		for (b1 = 0; b1 < 256; b1++) {
			char what[40];
			in[0] = (unsigned char)b0; in[1] = (unsigned char)b1;
			if (!(b0 & 0x80)) {
				snprintf(what, sizeof what, "prefix %02x%02x", b0, b1);
				a_inputs(in, 2, (size_t)b1, what);
			} else {
				snprintf(what, sizeof what, "prefix %02x%02x (truncated header)", b0, b1);
				check_bytes(in, 2, 1, what);
				in[2] = 0x00;
				check_bytes(in, 3, 1, what);
				for (di = 0; di < nD; di++) {
					size_t D = Ds[di];
					if (D >= 65534 && !(b1 == 0 || b1 == 0xff || b1 == 0x80)) continue;
					in[2] = (unsigned char)(D >> 8); in[3] = (unsigned char)D;
					snprintf(what, sizeof what, "prefix %02x%02x len %zu", b0, b1, D);
					a_inputs(in, 4, D, what);
				}
			}
		}
		end_case();
	}
	free(in);
}

/* ================================================================== part (b): trees */
static rnode *leafx(unsigned tag, int fl, size_t len, unsigned seed) { return rt_leaf(tag, fl & 1, (fl >> 1) & 1, rt_pat(seed), len); }
static rnode *nestx(unsigned tag, int fl) { return rt_nested(tag, fl & 1, (fl >> 1) & 1); }

/* (b1) every single element */
static void part_b1(void) {
	static const size_t OVER[3] = {65536, 65537, 70000};
	int ti, li, fl;
	for (ti = 0; ti < 7; ti++)
		for (li = 0; li < 11; li++) {
			size_t len = li < 8 ? LENS[li] : OVER[li - 8];
			if (!begin_case("b1", "tag%x:len%zu", TAGS[ti], len)) continue;
			if (ti == 2 && li == 3) vf_sample("b1:tag1f:len255: single element tag 0x1f, 255 payload bytes, 4 flag combinations: build/serialize/clone/parse through tree codec, element codec, header reader; every buffer size of the bound x 4 option sets");
			for (fl = 0; fl < 4; fl++) { rt_reset(); battery(leafx(TAGS[ti], fl, len, (unsigned)(ti * 11 + li))); }
			end_case();
		}
}

/* (b2a) depth 2, all labels, tiny payloads */
static rnode *b2a_child(int idx, unsigned seed) {   /* idx in 0..55: tag x flags x len{0,1} */
	return leafx(TAGS[idx % 7], (idx / 7) & 3, (size_t)(idx / 28), seed);
}
static void part_b2a(void) {
	int pt, k, maxk = VF_THOROUGH ? 3 : 2;
	for (pt = 0; pt < 7; pt++)
		for (k = 0; k <= maxk; k++) {
			int ngroups = k == 0 ? 1 : k < 3 ? 7 : 98, g;   /* k = 3: (first child tag, second child tag, parent flag half) */
			for (g = 0; g < ngroups; g++) {
				int pf;
				long i1, i2, i3;
				if (!begin_case("b2a", "ptag%x:k%d:g%d", TAGS[pt], k, g)) continue;
				for (pf = 0; pf < 4; pf++) {
					int g2 = g % 49;
					if (k == 3 && pf / 2 != g / 49) continue;
					if (k == 0) {
						/* a parent without children cannot be built through the tree API: element codec only sees it as an empty leaf */
						rt_reset(); battery(leafx(TAGS[pt], pf, 0, 0));
						continue;
					}
					for (i1 = 0; i1 < 56; i1++) {
						if ((int)(i1 % 7) != (k < 3 ? g : g2 % 7)) continue;
						for (i2 = 0; i2 < (k >= 2 ? 56 : 1); i2++) {
							if (k == 3 && (int)(i2 % 7) != g2 / 7) continue;
							for (i3 = 0; i3 < (k >= 3 ? 56 : 1); i3++) {
								rnode *r;
								rt_reset();
								r = nestx(TAGS[pt], pf);
								rt_add(r, b2a_child((int)i1, 1));
								if (k >= 2) rt_add(r, b2a_child((int)i2, 2));
								if (k >= 3) rt_add(r, b2a_child((int)i3, 3));
								battery(r);
							}
						}
					}
				}
				end_case();
			}
		}
}

/* (b2b) depth 2, all size combinations */
static rnode *b2b_child(int a, int pos) { return leafx((a & 1) ? 0x20 : 0x1f, (a + pos) & 3, LENS[a >> 1], (unsigned)(a * 3 + pos)); }
static void part_b2b(void) {
	int pt, k, a1, a2, a3;
	for (pt = 0; pt < 2; pt++)
		for (k = 1; k <= 3; k++)
			for (a1 = 0; a1 < 16; a1++) {
				if (!begin_case("b2b", "ptag%x:k%d:c%d", pt ? 0x20 : 0x1f, k, a1)) continue;
				if (pt == 0 && k == 2 && a1 == 6) vf_sample("b2b:ptag1f:k2:c6: parent 0x1f with child (0x1f, 255 bytes) and every second child from {0x1f,0x20} x {0,1,254,255,256,257,65534,65535} bytes");
				for (a2 = 0; a2 < (k >= 2 ? 16 : 1); a2++)
					for (a3 = 0; a3 < (k >= 3 ? 16 : 1); a3++) {
						rnode *r;
						rt_reset();
						r = nestx(pt ? 0x20 : 0x1f, (a1 + a2) & 3);
						rt_add(r, b2b_child(a1, 0));
						if (k >= 2) rt_add(r, b2b_child(a2, 1));
						if (k >= 3) rt_add(r, b2b_child(a3, 2));
						battery(r);
					}
				end_case();
			}
}

/* (b3) children whose encoded sizes sum to a boundary value */
static rnode *sized_child(size_t e, unsigned seed) {   /* a leaf whose encoding has exactly e bytes */
	if (e >= 2 && e <= 257) return leafx(0x01, (int)(seed & 3), e - 2, seed);
	if (e >= 260 && e - 4 <= 65535) return leafx(0x100, (int)(seed & 3), e - 4, seed);
	return NULL;
}
static rnode *fill_child(size_t e, unsigned seed) {    /* four-byte header whatever the length */
	if (e < 4 || e - 4 > 65535) return NULL;
	return leafx(0x100, (int)(seed & 3), e - 4, seed);
}
static void b3_tree(unsigned ptag, size_t S, const size_t *first, int nfirst, int last_first, int wrap) {
	rnode *r, *c[3];
	size_t sum = 0;
	int i;
	rt_reset();
	for (i = 0; i < nfirst; i++) { c[i] = sized_child(first[i], (unsigned)i + 1); if (!c[i]) return; sum += first[i]; }
	if (S < sum) return;
	c[nfirst] = fill_child(S - sum, 9);
	if (!c[nfirst]) return;
	r = nestx(ptag, 1);
	if (last_first) rt_add(r, c[nfirst]);
	for (i = 0; i < nfirst; i++) rt_add(r, c[i]);
	if (!last_first) rt_add(r, c[nfirst]);
	if (wrap) { rnode *w = nestx(0x1f, 2); rt_add(w, r); if (wrap == 2) rt_add(w, leafx(0x02, 0, 1, 3)); r = w; }
	battery(r);
}
static void part_b3(void) {
	static const size_t SUMS[] = {65527, 65528, 65531, 65532, 65534, 65535, 65536, 65537, 65539, 65540, 65541, 131071, 131072, 131073};
	size_t si;
	int k, pt, wrap;
	for (si = 0; si < sizeof SUMS / sizeof *SUMS; si++)
		for (k = 1; k <= 3; k++) {
			size_t S = SUMS[si];
			if (!begin_case("b3", "sum%zu:k%d", S, k)) continue;
			if (S == 65536 && k == 2) vf_sample("b3:sum65536:k2: parents whose two children's encodings sum to exactly 65536 bytes (e.g. 32768+32768): must be refused by every serializer, never written with length 0");
			for (pt = 0; pt < 2; pt++)
				for (wrap = 0; wrap < 3; wrap++) {
					unsigned ptag = pt ? 0x20 : 0x1f;
					if (k == 1) b3_tree(ptag, S, NULL, 0, 0, wrap);
					else if (k == 2) {
						size_t e1s[8] = {2, 3, 4, 257, 260, S / 2, S - 4, 65539};
						int i, lf;
						for (i = 0; i < 8; i++) for (lf = 0; lf < 2; lf++) { size_t f[1]; f[0] = e1s[i]; if (e1s[i] == 4) continue; b3_tree(ptag, S, f, 1, lf, wrap); }
					} else {
						size_t prs[5][2] = {{2, 2}, {2, 257}, {257, 260}, {S / 3, S / 3}, {3, S / 2}};
						int i;
						for (i = 0; i < 5; i++) b3_tree(ptag, S, prs[i], 2, i & 1, wrap);
					}
				}
			end_case();
		}
}

/* (b4) depth 3 product over the header-form boundaries */
static int b4_nleaf(void) { return VF_THOROUGH ? 12 : 10; }
static rnode *b4_leaf(int a, unsigned seed) {
	static const size_t LQ[6] = {0, 1, 254, 255, 256, 257};
	return leafx((a & 1) ? 0x20 : 0x1f, (int)(seed & 3), LQ[a >> 1], seed);
}
static int b4_nmid(void) { int A = b4_nleaf(); return 2 * (1 + A + A * A); }
static rnode *b4_mid(int m, unsigned seed) {
	int A = b4_nleaf(), per = 1 + A + A * A, v = m % per;
	unsigned tag = (m / per) ? 0x20 : 0x1f;
	rnode *r;
	if (v == 0) return leafx(tag, (int)(seed & 3), 0, seed);
	r = nestx(tag, (int)((seed >> 1) & 3));
	v -= 1;
	if (v < A) { rt_add(r, b4_leaf(v, seed + 1)); return r; }
	v -= A;
	rt_add(r, b4_leaf(v % A, seed + 1));
	rt_add(r, b4_leaf(v / A, seed + 2));
	return r;
}
static void part_b4(void) {
	int rtag, m1, m2, M = b4_nmid();
	for (rtag = 0; rtag < 2; rtag++)
		for (m1 = 0; m1 < M; m1++) {
			if (!begin_case("b4", "rtag%x:m%d", rtag ? 0x20 : 0x1f, m1)) continue;
			for (m2 = -1; m2 < M; m2++) {
				rnode *r;
				rt_reset();
				r = nestx(rtag ? 0x20 : 0x1f, (m1 + m2 + 1) & 3);
				rt_add(r, b4_mid(m1, (unsigned)m1));
				if (m2 >= 0) rt_add(r, b4_mid(m2, (unsigned)(m2 + 7)));
				battery(r);
			}
			end_case();
		}
}

/* (b5, c) all ordered tree shapes of depth <= d with 1..K children per inner node */
static long shape_count(int d, int K) {
	long c, s = 1, p = 1;
	int k;
	if (d <= 1) return 1;
	c = shape_count(d - 1, K);
	for (k = 1; k <= K; k++) { p *= c; s += p; }
	return s;
}
static size_t scheme_len(int scheme, int me, int v) {
	static const size_t LM[8] = {0, 1, 82, 83, 124, 125, 251, 253};
	static const size_t LB[6] = {254, 255, 256, 257, 0, 1};
	if (scheme == 0) return (size_t)((me + v) % 3);
	if (scheme == 1) return LM[(me * 5 + v) % 8];
	return LB[(me * 3 + v) % 6];
}
static rnode *make_shape(long idx, int d, int K, int *j, int v, int scheme) {
	int me = (*j)++, k, i;
	unsigned tag = TAGS[(me + v) % 7];
	int fl = (me + v / 7) & 3;
	long c, p = 1;
	rnode *n;
	if (idx == 0 || d <= 1) return leafx(tag, fl, scheme_len(scheme, me, v), (unsigned)(me * 17 + v));
	idx -= 1;
	c = shape_count(d - 1, K);
	for (k = 1; k <= K; k++) { p *= c; if (idx < p) break; idx -= p; }
	n = nestx(tag, fl);
	for (i = 0; i < k; i++) { rt_add(n, make_shape(idx % c, d - 1, K, j, v, scheme)); idx /= c; }
	return n;
}
static void part_b5(void) {
	long ns = shape_count(3, 3), s;
	int scheme, v;
	for (s = 0; s < ns; s++)
		for (scheme = 0; scheme < 3; scheme++) {
			if (!begin_case("b5", "shape%ld:scheme%d", s, scheme)) continue;
			for (v = 0; v < 28; v++) { int j = 0; rt_reset(); battery(make_shape(s, 3, 3, &j, v, scheme)); }
			end_case();
		}
}

/* (b6) depth-3 chains around both boundaries */
static void part_b6(void) {
	static const size_t LS[] = {246, 247, 248, 249, 250, 251, 252, 255, 256, 65526, 65527, 65528, 65530, 65531, 65532, 65535};
	size_t i;
	int tg;
	for (i = 0; i < sizeof LS / sizeof *LS; i++) {
		if (!begin_case("b6", "chain:len%zu", LS[i])) continue;
		for (tg = 0; tg < 4; tg++) {
			rnode *r, *m;
			rt_reset();
			r = nestx((tg & 1) ? 0x20 : 0x1f, tg);
			m = nestx((tg & 2) ? 0x20 : 0x1f, tg + 1);
			rt_add(m, leafx(0x1f, tg + 2, LS[i], (unsigned)i));
			rt_add(r, m);
			battery(r);
		}
		end_case();
	}
}

/* ================================================================== part (c): truncations and length-field perturbations */
typedef struct { size_t off, hdr; } lenfield;
static void collect_fields(const rnode *n, lenfield *f, int *nf, int cap) {
	const rnode *c;
	if (*nf < cap) { f[*nf].off = n->off; f[*nf].hdr = n->hdr; (*nf)++; }
	for (c = n->first; c; c = c->next) collect_fields(c, f, nf, cap);
}

static void c_base(rnode *root) {
	vbuf enc;
	lenfield fields[64];
	int nf = 0, i, op;
	unsigned char *m;
	size_t k, n;
	char what[80];
	rt_layout(root);
	if (!rt_fits(root, 0)) vf_harness_error("part c base does not fit");
	vb_init(&enc);
	rt_encode(root, &enc, 1);
	collect_fields(root, fields, &nf, 64);
	n = enc.n;
	m = (unsigned char *)malloc(2 * n + 8);
	/* the valid encoding, every truncation, trailing byte, two concatenated copies */
	memcpy(m, enc.p, n);
	check_bytes(m, n, 3, "valid encoding");
	for (k = 1; k < n; k++) { snprintf(what, sizeof what, "truncation to %zu of %zu bytes", k, n); check_bytes(m, k, 3, what); }
	m[n] = 0x00;
	check_bytes(m, n + 1, 3, "valid encoding + 1 trailing byte");
	memcpy(m + n, enc.p, n);
	check_bytes(m, 2 * n, 3, "two concatenated copies");
	/* every length field x {+1, -1, +256, -256, 0, 0xff, 0xffff} */
	for (i = 0; i < nf; i++)
		for (op = 0; op < 7; op++) {
			size_t lo = fields[i].off + (fields[i].hdr == 4 ? 2 : 1);
			long old, nv, max = fields[i].hdr == 4 ? 0xffff : 0xff;
			memcpy(m, enc.p, n);
			old = fields[i].hdr == 4 ? ((long)m[lo] << 8 | m[lo + 1]) : m[lo];
			nv = op == 0 ? old + 1 : op == 1 ? old - 1 : op == 2 ? old + 256 : op == 3 ? old - 256 : op == 4 ? 0 : op == 5 ? 0xff : 0xffff;
			if (nv < 0 || nv > max || nv == old) continue;
			if (fields[i].hdr == 4) { m[lo] = (unsigned char)(nv >> 8); m[lo + 1] = (unsigned char)nv; } else m[lo] = (unsigned char)nv;
			snprintf(what, sizeof what, "length field at offset %zu changed %ld -> %ld", lo, old, nv);
			check_bytes(m, n, 3, what);
		}
	free(m);
	vb_free(&enc);
}

static void part_c(void) {
	int K = VF_THOROUGH ? 3 : 2, scheme, vi;
	long ns = shape_count(3, K), s;
	static const int VS[4] = {0, 9, 18, 27};
	for (s = 0; s < ns; s++)
		for (scheme = 0; scheme < 3; scheme++)
			for (vi = 0; vi < 4; vi++) {
				int j = 0;
				rnode *r;
				if (!begin_case("c", "K%d:shape%ld:scheme%d:v%d", K, s, scheme, VS[vi])) continue;
				if (s == 5 && scheme == 0 && vi == 0) vf_sample("c:shape5: a depth-3 tree; its encoding, every truncation, +1 trailing byte, doubled, and every length field +-1/+-256/0/0xff/0xffff through all parsers with full expansion to depth 3 and re-serialization");
				rt_reset();
				r = make_shape(s, 3, K, &j, VS[vi], scheme);
				c_base(r);
				end_case();
			}
}

/* ================================================================== part (d): stream readers */
static size_t d_chunks[40];
static int d_nchunks, d_ci;
static size_t d_cleft;
static void d_plan_reset(void) { d_ci = 0; d_cleft = d_nchunks ? d_chunks[0] : 0; }
static size_t d_next(size_t avail, size_t cap) {
	size_t k;
	while (d_cleft == 0 && d_ci + 1 < d_nchunks) d_cleft = d_chunks[++d_ci];
	k = d_cleft ? d_cleft : avail;
	if (k > cap) k = cap;
	if (k > avail) k = avail;
	if (d_cleft) d_cleft -= k;
	return k;
}
static long d_on_recv(sn_conn *c, size_t avail, size_t cap) {
	if (avail == 0) return c->peer_closed ? 0 : -EWOULDBLOCK;
	return (long)d_next(avail, cap);
}
typedef struct { const unsigned char *p; size_t n, pos; } dcookie;
static ssize_t d_cookie_read(void *ck, char *buf, size_t size) {
	dcookie *c = (dcookie *)ck;
	size_t k;
	if (c->pos >= c->n) return 0;
	k = d_next(c->n - c->pos, size);
	memcpy(buf, c->p + c->pos, k);
	c->pos += k;
	return (ssize_t)k;
}

enum { RD_SOCKET, RD_FILE, RD_COOKIE };
static unsigned char d_fill = 0xEE;   /* what the caller's buffer holds before the read (a fresh calloc'ed buffer holds zeros) */
/* one stream read: stream = first `avail_n` bytes of s (EOF after them); elem_n = size of the leading element */
static void d_read(int kind, const unsigned char *s, size_t avail_n, const rhdr *h, int complete, size_t bufsz, const char *what) {
	size_t elem_n = h->hdr + h->len, consumed = 7777, pos = 0;
	unsigned char *buf = (unsigned char *)malloc(bufsz ? bufsz : 1);
	KSI_FTLV f;
	int res, expect_ok = complete && bufsz >= elem_n && bufsz >= 2;
	static const char *KN[3] = {"KSI_FTLV_socketRead", "KSI_FTLV_fileRead(fmemopen)", "KSI_FTLV_fileRead(chunked stream)"};
	memset(&f, 0xAB, sizeof f);
	memset(buf, d_fill, bufsz ? bufsz : 1);
	d_plan_reset();
	if (kind == RD_SOCKET) {
		struct sockaddr_in sa;
		int fd = socket(AF_INET, SOCK_STREAM, 0);
		sn_conn *c;
		memset(&sa, 0, sizeof sa);
		sa.sin_family = AF_INET;
		if (connect(fd, (struct sockaddr *)&sa, sizeof sa) != 0) vf_harness_error("simnet connect failed");
		c = sn_by_fd(fd);
		sn_server_write(c, s, avail_n);
		sn_server_close(c);
		res = KSI_FTLV_socketRead(fd, buf, bufsz, &consumed, &f);
		pos = c->in_off;
		close(fd);
	} else if (kind == RD_FILE) {
		unsigned char *copy = (unsigned char *)malloc(avail_n ? avail_n : 1);
		FILE *fp;
		memcpy(copy, s, avail_n);
		fp = fmemopen(copy, avail_n, "rb");
		if (!fp) vf_harness_error("fmemopen failed");
		res = KSI_FTLV_fileRead(fp, buf, bufsz, &consumed, &f);
		pos = (size_t)ftell(fp);
		fclose(fp);
		free(copy);
	} else {
		dcookie ck;
		cookie_io_functions_t io = {d_cookie_read, NULL, NULL, NULL};
		FILE *fp;
		ck.p = s; ck.n = avail_n; ck.pos = 0;
		fp = fopencookie(&ck, "rb", io);
		if (!fp) vf_harness_error("fopencookie failed");
		setvbuf(fp, NULL, _IONBF, 0);
		res = KSI_FTLV_fileRead(fp, buf, bufsz, &consumed, &f);
		pos = ck.pos;
		fclose(fp);
	}
	CALL(); OBS(res); OBS(consumed);
	if (expect_ok) {
		OC(kind == RD_SOCKET ? OC_STREAM_SOCK_OK : kind == RD_FILE ? OC_STREAM_FILE_OK : OC_STREAM_COOKIE_OK);
		if (res != KSI_OK) fail1("stream-valid-rejected", "%s: %s refused a complete element of %zu bytes (buffer %zu) with %x", what, KN[kind], elem_n, bufsz, res);
		else {
			if (consumed != elem_n || pos != elem_n) fail1("stream-consumed", "%s: %s: element has %zu bytes, reported consumed %zu, stream position advanced by %zu", what, KN[kind], elem_n, consumed, pos);
			if (f.tag != h->tag || !!f.is_nc != h->nc || !!f.is_fwd != h->fw || f.hdr_len != h->hdr || f.dat_len != h->len)
				fail1("stream-fields", "%s: %s: expected tag %x nc %d fw %d hdr %zu len %zu, got tag %x nc %d fw %d hdr %zu len %zu", what, KN[kind], h->tag, h->nc, h->fw, h->hdr, h->len, f.tag, f.is_nc, f.is_fwd, f.hdr_len, f.dat_len);
			if (memcmp(buf, s, elem_n) != 0) fail1("stream-bytes", "%s: %s: buffer holds %s.., stream element is %s..", what, KN[kind], hx(buf, elem_n), hx(s, elem_n));
		}
	} else {
		OC(kind == RD_SOCKET ? OC_STREAM_SOCK_REJ : OC_STREAM_FILE_REJ);
		if (res == KSI_OK) fail1("stream-misfit-accepted", "%s: %s returned OK (consumed %zu) although %s", what, KN[kind], consumed, complete ? "the buffer is smaller than the element" : "the stream ends inside the element");
		if (consumed != 7777 && consumed > avail_n) fail1("stream-consumed", "%s: %s reported %zu bytes consumed from a stream of %zu bytes", what, KN[kind], consumed, avail_n);
		if (pos > elem_n && complete) fail1("stream-consumed", "%s: %s read %zu bytes from the stream, beyond the first element (%zu bytes)", what, KN[kind], pos, elem_n);
	}
	free(buf);
}

static void part_d(void) {
	/* element kinds: header form x flags x tag, payload lengths so that the encoding has <= 12 bytes */
	static const unsigned char H8[3] = {0x05, 0x7f, 0x00};
	static const unsigned char H16[3][2] = {{0x80, 0x05}, {0xff, 0xff}, {0xa1, 0x00}};
	int form, hv, plen;
	for (form = 0; form < 2; form++)
		for (hv = 0; hv < 3; hv++)
			for (plen = 0; plen <= (form ? 8 : 10); plen++) {
				unsigned char s[32];
				size_t n, t, i, p;
				rhdr h;
				static const size_t TS[3] = {0, 1, 3};
				int ti, mode;
				unsigned long comp;
				char what[100];
				if (!begin_case("d", "form%d:h%d:len%d", form ? 16 : 8, hv, plen)) continue;
				sn_reset();
				sn.on_recv = d_on_recv;
				if (form) { s[0] = H16[hv][0]; s[1] = H16[hv][1]; s[2] = 0; s[3] = (unsigned char)plen; n = 4; }
				else { s[0] = H8[hv]; s[1] = (unsigned char)plen; n = 2; }
				for (i = 0; i < (size_t)plen; i++) s[n++] = (unsigned char)(0x81 + 17 * i + hv);   /* payload bytes that look like TLV16 headers */
				for (i = n; i < sizeof s; i++) s[i] = (unsigned char)(0xC0 + i);
				if (rt_hdr(s, n, &h) != 0 || h.hdr + h.len != n) vf_harness_error("part d: reference disagrees with its own stream element");
				if (form == 1 && hv == 0 && plen == 3) vf_sample("d:form16:h0:len3: element 80 05 00 03 + 3 payload bytes followed by 0/1/3 trailing bytes, all 64 chunkings x 2 tail modes through KSI_FTLV_socketRead (simulated socket) and KSI_FTLV_fileRead (fmemopen and a chunked stream): exactly 7 bytes consumed");
				/* every composition of the element's n bytes; trailing bytes merged into the last chunk or sent separately */
				for (ti = 0; ti < 3; ti++)
					for (mode = 0; mode < (TS[ti] ? 2 : 1); mode++)
						for (comp = 0; comp < (1ul << (n - 1)); comp++) {
							size_t cur = 1;
							t = TS[ti];
							d_nchunks = 0;
							for (i = 0; i + 1 < n; i++) { if (comp >> i & 1) { d_chunks[d_nchunks++] = cur; cur = 1; } else cur++; }
							if (t && mode == 0) cur += t;
							d_chunks[d_nchunks++] = cur;
							if (t && mode == 1) d_chunks[d_nchunks++] = t;
							snprintf(what, sizeof what, "element %s + %zu trailing, chunking %lx mode %d", vf_hex(s, n), t, comp, mode);
							d_read(RD_SOCKET, s, n + t, &h, 1, n, what);
							d_read(RD_COOKIE, s, n + t, &h, 1, n, what);
							if (comp == 0) {
								d_read(RD_FILE, s, n + t, &h, 1, n, what);
								d_read(RD_FILE, s, n + t, &h, 1, n + 5, what);
								d_read(RD_SOCKET, s, n + t, &h, 1, n + 5, what);
								/* buffers smaller than the element: must be refused without overrun */
								for (p = 0; p < n; p++) { d_read(RD_SOCKET, s, n + t, &h, 1, p, what); d_read(RD_FILE, s, n + t, &h, 1, p, what); }
							}
						}
				/* stream ends inside the element */
				d_nchunks = 0;
				for (p = 1; p < n; p++) {
					static const unsigned char FILL[3] = {0xEE, 0x00, 0x01};
					int fi;
					for (fi = 0; fi < 3; fi++) {
						d_fill = FILL[fi];
						snprintf(what, sizeof what, "element %s cut after %zu bytes, buffer pre-filled with %02x", vf_hex(s, n), p, d_fill);
						d_read(RD_SOCKET, s, p, &h, 0, n, what);
						d_read(RD_FILE, s, p, &h, 0, n, what);
						d_read(RD_COOKIE, s, p, &h, 0, n, what);
						d_read(RD_FILE, s, p, &h, 0, n + 300, what);
					}
					d_fill = 0xEE;
				}
				end_case();
			}
	/* large elements through the stream readers */
	{
		static const size_t LL[] = {255, 256, 65534, 65535};
		size_t li;
		for (li = 0; li < 4; li++) {
			unsigned char *s;
			size_t n, L = LL[li], d;
			rhdr h;
			vbuf b;
			rnode *r;
			if (!begin_case("d", "large:len%zu", L)) continue;
			sn_reset();
			sn.on_recv = d_on_recv;
			rt_reset();
			r = leafx(0x1f, 1, L, 3);
			rt_layout(r);
			vb_init(&b);
			rt_encode(r, &b, 1);
			vb_put(&b, "\x01\x00\x07", 3);
			s = b.p; n = b.n - 3;
			rt_hdr(s, n, &h);
			d_nchunks = 3; d_chunks[0] = 1; d_chunks[1] = 3; d_chunks[2] = 1000;
			for (d = 0; d < 3; d++) {
				size_t bs = n - 1 + d;
				d_read(RD_SOCKET, s, n + 3, &h, 1, bs, "large element");
				d_read(RD_FILE, s, n + 3, &h, 1, bs, "large element");
				d_read(RD_COOKIE, s, n + 3, &h, 1, bs, "large element");
			}
			d_read(RD_SOCKET, s, n - 1, &h, 0, n, "large element cut by one byte");
			d_read(RD_FILE, s, n - 1, &h, 0, n, "large element cut by one byte");
			vb_free(&b);
			end_case();
		}
	}
}

/* ================================================================== */
/* ------------------------------------------------------------------ part e: edits of an element tree */
/* A parent with up to three children is obtained from its encoding (parsed, children expanded lazily) or built with the
 * element API; then every sequence of edit operations of the bound is applied - remove the child with a tag, append a
 * child, set (replace or add) a child - and after every operation the serialization has to be the reference encoding of
 * the tree the operations describe, and has to parse back. */
#define E_MAXCH 8
typedef struct { unsigned tag; int fl; size_t len; unsigned seed; } echild;
typedef struct { unsigned ptag; int pfl; echild ch[E_MAXCH]; int n; } etree;
static const unsigned E_TAGS[3] = {0x01, 0x02, 0x20};
static const size_t E_LENS[3] = {0, 3, 253};

static rnode *e_ref(const etree *t) {
	rnode *p = nestx(t->ptag, t->pfl);
	int i;
	for (i = 0; i < t->n; i++) rt_add(p, leafx(t->ch[i].tag, t->ch[i].fl, t->ch[i].len, t->ch[i].seed));
	if (t->n == 0) { p = leafx(t->ptag, t->pfl, 0, 0); }
	return p;
}
static int e_count(const etree *t, unsigned tag, int *pos) { int i, n = 0; for (i = 0; i < t->n; i++) if (t->ch[i].tag == tag) { if (!n) *pos = i; n++; } return n; }
static KSI_TlvElement *e_leaf_el(const echild *c, int detach) {
	rnode *r = leafx(c->tag, c->fl, c->len, c->seed);
	int refused = 0;
	KSI_TlvElement *e = build_el(r, detach, &refused);
	if (!e) vf_harness_error("part e: cannot build a leaf element (%x)", refused);
	return e;
}
static void e_check(KSI_TlvElement *pe, const etree *t, const char *what) {
	vbuf enc;
	rnode *r = e_ref(t);
	vb_init(&enc);
	rt_layout(r);
	if (rt_encode(r, &enc, 1) != 0) vf_harness_error("part e: reference encoding");
	el_serialize_expect(pe, &enc, "elem-edit-serialize", what);
	vb_free(&enc);
}
/* op code: 0..2 remove tag k; 3..11 append (tag, len); 12..20 set (tag, len) */
#define E_NOPS 21
static void e_opname(int op, char *o, size_t cap) {
	if (op < 3) snprintf(o, cap, "rm%x", E_TAGS[op]);
	else if (op < 12) snprintf(o, cap, "app%x.%zu", E_TAGS[(op - 3) / 3], E_LENS[(op - 3) % 3]);
	else snprintf(o, cap, "set%x.%zu", E_TAGS[(op - 12) / 3], E_LENS[(op - 12) % 3]);
}
static int e_apply(KSI_TlvElement *pe, etree *t, int op, unsigned seed, int detach, const char *what) {
	int res, pos = 0, cnt;
	if (op < 3) {
		KSI_TlvElement *out = NULL;
		cnt = e_count(t, E_TAGS[op], &pos);
		res = KSI_TlvElement_removeElement(pe, E_TAGS[op], &out);
		CALL();
		if (cnt == 1) {
			if (res != KSI_OK) { fail1("elem-edit-refused", "%s: removing the only child with tag %x returned %x", what, E_TAGS[op], res); return -1; }
			if (out == NULL || out->ftlv.tag != E_TAGS[op] || out->ftlv.dat_len != t->ch[pos].len) fail1("elem-edit-removed-wrong", "%s: the removed element is not the child with tag %x", what, E_TAGS[op]);
			memmove(&t->ch[pos], &t->ch[pos + 1], sizeof t->ch[0] * (size_t)(t->n - pos - 1));
			t->n--;
			OC(OC_OK);
		} else {
			/* absent or ambiguous: has to be refused and must leave the tree alone */
			if (res == KSI_OK) { fail1("elem-edit-ambiguous-accepted", "%s: removing tag %x succeeded although %d children carry it", what, E_TAGS[op], cnt); KSI_TlvElement_free(out); return -1; }
			OC(OC_REJECT);
		}
		KSI_TlvElement_free(out);
		return 0;
	} else {
		echild c;
		KSI_TlvElement *ce;
		int is_set = op >= 12, k = (op - (is_set ? 12 : 3));
		c.tag = E_TAGS[k / 3]; c.len = E_LENS[k % 3]; c.fl = (int)(seed & 3); c.seed = seed;
		if (t->n >= E_MAXCH) return 1;
		ce = e_leaf_el(&c, detach);
		cnt = e_count(t, c.tag, &pos);
		res = is_set ? KSI_TlvElement_setElement(pe, ce) : KSI_TlvElement_appendElement(pe, ce);
		CALL();
		KSI_TlvElement_free(ce);
		if (is_set && cnt > 1) {
			if (res == KSI_OK) { fail1("elem-edit-ambiguous-accepted", "%s: setting tag %x succeeded although %d children carry it", what, c.tag, cnt); return -1; }
			OC(OC_REJECT);
			return 0;
		}
		if (res != KSI_OK) { fail1("elem-edit-refused", "%s: %s of a child with tag %x returned %x", what, is_set ? "set" : "append", c.tag, res); return -1; }
		if (is_set && cnt == 1) t->ch[pos] = c;
		else t->ch[t->n++] = c;
		OC(OC_OK);
		return 0;
	}
}
static void e_sequence(const etree *t0, int origin, const int *ops, int nops) {
	etree t = *t0;
	KSI_TlvElement *pe = NULL;
	vbuf enc;
	unsigned char *heap = NULL;
	char what[200], nm[24];
	int i, refused = 0, k = 0, only_removed = 1;
	rnode *r = e_ref(&t);
	vb_init(&enc);
	rt_layout(r);
	if (rt_encode(r, &enc, 1) != 0) vf_harness_error("part e: reference encoding of the start tree");
	k += snprintf(what, sizeof what, "%s parent %x with %d children;", origin == 0 ? "parsed" : origin == 1 ? "built" : "built+detached", t.ptag, t.n);
	if (origin == 0) {
		heap = (unsigned char *)malloc(enc.n ? enc.n : 1);
		memcpy(heap, enc.p, enc.n);
		if (KSI_TlvElement_parse(heap, enc.n, &pe) != KSI_OK || pe == NULL) { fail1("elem-valid-rejected", "%s the reference encoding does not parse", what); goto done; }
		CALL();
	} else {
		rt_bind(r, enc.p);
		pe = build_el(r, origin == 2, &refused);
		if (!pe) { fail1("elem-edit-refused", "%s cannot be built (%x)", what, refused); goto done; }
	}
	for (i = 0; i < nops; i++) {
		int rc;
		e_opname(ops[i], nm, sizeof nm);
		if (k < (int)sizeof what - 30) k += snprintf(what + k, sizeof what - (size_t)k, " %s", nm);
		rc = e_apply(pe, &t, ops[i], (unsigned)(40 + 7 * i + ops[i]), origin == 2, what);
		if (rc != 0) break;
		e_check(pe, &t, what);
		/* a parsed element from which children were only removed still reports its payload length (the library keeps the
		 * field up to date on removal; appended / replaced children that were never serialized have no header length yet) */
		if (ops[i] >= 3) only_removed = 0;
		if (origin == 0 && only_removed) {
			size_t pl = 0;
			rnode *rr = e_ref(&t);
			rt_layout(rr);
			pl = rr->content;
			if (pe->ftlv.dat_len != pl) fail1("elem-edit-reported-length", "%s: the element reports a payload of %zu bytes, its children encode to %zu", what, pe->ftlv.dat_len, pl);
		}
	}
	/* the edited element detaches (re-encodes itself into an own buffer) to the same bytes */
	if (i == nops) {
		int res = KSI_TlvElement_detach(pe);
		CALL();
		if (res != KSI_OK) fail1("elem-edit-detach", "%s: detach after the edits returned %x", what, res);
		else {
			/* a detached element owns one buffer that IS its encoding, and reports that encoding's header and payload length */
			vbuf enc2;
			rnode *r2 = e_ref(&t);
			vb_init(&enc2);
			rt_layout(r2);
			if (rt_encode(r2, &enc2, 1) != 0) vf_harness_error("part e: reference encoding after the edits");
			if (pe->ptr == NULL || pe->ftlv.hdr_len + pe->ftlv.dat_len != enc2.n || memcmp(pe->ptr, enc2.p, enc2.n) != 0)
				fail1("elem-edit-detached-buffer", "%s: after the final detach the element's own buffer (header %zu + payload %zu bytes) is not its encoding (%zu bytes)", what, pe->ftlv.hdr_len, pe->ftlv.dat_len, enc2.n);
			vb_free(&enc2);
			e_check(pe, &t, what);
		}
	}
done:
	KSI_TlvElement_free(pe);
	free(heap);
	vb_free(&enc);
	rt_reset();
	g_trees++;
}
static void part_e(void) {
	/* start trees: 0..3 children drawn in order from (tag, len) pairs; origins: parsed / built / built+detached */
	static const int START[][3] = {{-1, -1, -1}, {0, -1, -1}, {2, -1, -1}, {0, 4, -1}, {1, 8, -1}, {0, 4, 8}, {2, 3, 7}, {0, 0, -1}, {5, 5, 5}};
	int nstart = (int)(sizeof START / sizeof *START), si, origin, o1, o2, o3, maxops = VF_THOROUGH ? 3 : 2;
	for (si = 0; si < nstart; si++) for (origin = 0; origin < 3; origin++) for (o1 = 0; o1 < E_NOPS; o1++) {
		etree t;
		int j, ops[3];
		memset(&t, 0, sizeof t);
		t.ptag = si & 1 ? 0x10 : 0x120; t.pfl = si & 3;
		for (j = 0; j < 3 && START[si][j] >= 0; j++) { t.ch[t.n].tag = E_TAGS[START[si][j] / 3]; t.ch[t.n].len = E_LENS[START[si][j] % 3]; t.ch[t.n].fl = j & 3; t.ch[t.n].seed = (unsigned)(si * 5 + j); t.n++; }
		if (origin == 0 && t.n == 0) continue;       /* an empty payload cannot be told from a raw leaf */
		if (!begin_case("e", "start%d:origin%d:op%d:len%d", si, origin, o1, maxops)) continue;
		ops[0] = o1;
		e_sequence(&t, origin, ops, 1);
		for (o2 = 0; o2 < E_NOPS; o2++) {
			ops[1] = o2;
			e_sequence(&t, origin, ops, 2);
			if (maxops >= 3) for (o3 = 0; o3 < E_NOPS; o3++) { ops[2] = o3; e_sequence(&t, origin, ops, 3); }
		}
		end_case();
	}
}

/* ------------------------------------------------------------------ part f: edits of a TLV tree (tree codec) */
/* A parent with up to three leaf children is parsed from its encoding (copying parser / parser that adopts the caller's
 * buffer) or built with the API; then every sequence of edit operations of the bound is applied - expand the payload into
 * the child list, collapse it into raw bytes, set the raw value of the parent or of a child, append a child, replace a
 * child - and after every operation the serialization, the raw payload and a clone have to be those of the tree the
 * operations describe. An operation may be refused (the value does not fit the element's own buffer); then the tree has
 * to be what it was before. */
typedef struct { unsigned ptag; int pfl; int is_raw; size_t rawlen; unsigned rawseed; echild ch[E_MAXCH]; int n; } ftree;
static const size_t F_LENS[3] = {0, 3, 300};
#define F_NOPS 32
static rnode *f_ref(const ftree *t) {
	rnode *p;
	int i;
	if (t->is_raw) return leafx(t->ptag, t->pfl, t->rawlen, t->rawseed);
	if (t->n == 0) return leafx(t->ptag, t->pfl, 0, 0);
	p = nestx(t->ptag, t->pfl);
	for (i = 0; i < t->n; i++) rt_add(p, leafx(t->ch[i].tag, t->ch[i].fl, t->ch[i].len, t->ch[i].seed));
	return p;
}
static void f_opname(int op, char *o, size_t cap) {
	if (op == 0) snprintf(o, cap, "expand");
	else if (op == 1) snprintf(o, cap, "collapse");
	else if (op < 5) snprintf(o, cap, "setraw.%zu", F_LENS[op - 2]);
	else if (op < 14) snprintf(o, cap, "child%d.setraw.%zu", (op - 5) / 3, F_LENS[(op - 5) % 3]);
	else if (op < 20) snprintf(o, cap, "append%x.%zu", E_TAGS[(op - 14) / 2], F_LENS[1 + (op - 14) % 2]);
	else snprintf(o, cap, "child%d.replace%x.%zu", (op - 20) / 4, E_TAGS[((op - 20) % 4) / 2 * 2], F_LENS[1 + (op - 20) % 2]);
}
static KSI_TLV *f_child(KSI_TLV *root, int k) {
	KSI_LIST(KSI_TLV) *l = NULL;
	KSI_TLV *c = NULL;
	if (KSI_TLV_getNestedList(root, &l) != KSI_OK || l == NULL) return NULL;
	CALL();
	if (KSI_TLVList_elementAt(l, (size_t)k, &c) != KSI_OK) return NULL;
	return c;
}
static KSI_TLV *f_leaf(const echild *c) {
	KSI_TLV *t = NULL;
	if (KSI_TLV_new(ctx, c->tag, c->fl & 1, (c->fl >> 1) & 1, &t) != KSI_OK) vf_harness_error("part f: KSI_TLV_new");
	if (KSI_TLV_setRawValue(t, rt_pat(c->seed), c->len) != KSI_OK) vf_harness_error("part f: leaf value");
	CALL(); CALL();
	return t;
}
static void f_check(KSI_TLV *root, const ftree *t, const char *what) {
	vbuf enc, pl;
	rnode *r = f_ref(t);
	KSI_TLV *cl = NULL;
	int res;
	vb_init(&enc); vb_init(&pl);
	rt_layout(r);
	if (rt_encode(r, &enc, 1) != 0 || rt_encode(r, &pl, 0) != 0) vf_harness_error("part f: reference encoding");
	tlv_serialize_expect(root, &enc, "tlv-edit-serialize", what);
	res = KSI_TLV_clone(root, &cl);
	CALL();
	if (res != KSI_OK || cl == NULL) fail1("tlv-edit-clone", "%s: clone returned %x", what, res);
	else tlv_serialize_expect(cl, &enc, "tlv-edit-clone", what);
	KSI_TLV_free(cl);
	vb_free(&enc); vb_free(&pl);
}
/* returns 0 applied / refused-and-unchanged, 1 not applicable, -1 reported */
static int f_apply(KSI_TLV *root, ftree *t, int op, unsigned seed, const char *what) {
	int res;
	if (op == 0) {
		KSI_LIST(KSI_TLV) *l = NULL;
		if (t->is_raw) return 1;                       /* arbitrary raw bytes need not be a tiling of elements */
		res = KSI_TLV_getNestedList(root, &l);
		CALL();
		if (res != KSI_OK) { fail1("tlv-edit-refused", "%s: expanding the payload returned %x", what, res); return -1; }
		if ((int)KSI_TLVList_length(l) != t->n) { fail1("tlv-edit-children", "%s: %d children expected, the list has %d", what, t->n, (int)KSI_TLVList_length(l)); return -1; }
		return 0;
	}
	if (op == 1) {
		const unsigned char *p = NULL;
		size_t n = 0;
		vbuf pl;
		rnode *r = f_ref(t);
		res = KSI_TLV_getRawValue(root, &p, &n);
		CALL();
		if (res != KSI_OK) { fail1("tlv-edit-refused", "%s: KSI_TLV_getRawValue returned %x", what, res); return -1; }
		vb_init(&pl);
		rt_layout(r);
		if (rt_encode(r, &pl, 0) != 0) vf_harness_error("part f: reference payload");
		expect_bytes("tlv-edit-rawvalue", what, p, n, &pl);
		vb_free(&pl);
		return 0;
	}
	if (op < 5) {
		size_t L = F_LENS[op - 2];
		res = KSI_TLV_setRawValue(root, rt_pat(seed), L);
		CALL();
		if (res == KSI_OK) { t->is_raw = 1; t->rawlen = L; t->rawseed = seed; t->n = 0; OC(OC_OK); }
		else OC(OC_REJECT);
		return 0;
	}
	if (op < 14) {
		int k = (op - 5) / 3;
		size_t L = F_LENS[(op - 5) % 3];
		KSI_TLV *c;
		if (t->is_raw || k >= t->n) return 1;
		c = f_child(root, k);
		if (!c) { fail1("tlv-edit-children", "%s: child %d is not in the nested list", what, k); return -1; }
		res = KSI_TLV_setRawValue(c, rt_pat(seed), L);
		CALL();
		if (res == KSI_OK) { t->ch[k].len = L; t->ch[k].seed = seed; OC(OC_OK); }
		else OC(OC_REJECT);
		return 0;
	}
	{
		echild c;
		KSI_TLV *ct;
		int is_repl = op >= 20, k = is_repl ? (op - 20) / 4 : -1;
		if (t->is_raw) return 1;
		if (is_repl && k >= t->n) return 1;
		if (!is_repl && t->n >= E_MAXCH) return 1;
		c.tag = is_repl ? E_TAGS[((op - 20) % 4) / 2 * 2] : E_TAGS[(op - 14) / 2];
		c.len = F_LENS[1 + (is_repl ? (op - 20) : (op - 14)) % 2];
		c.fl = (int)(seed & 3); c.seed = seed;
		ct = f_leaf(&c);
		if (is_repl) {
			KSI_TLV *old = f_child(root, k);
			if (!old) { KSI_TLV_free(ct); fail1("tlv-edit-children", "%s: child %d is not in the nested list", what, k); return -1; }
			res = KSI_TLV_replaceNestedTlv(root, old, ct);
		} else {
			/* the caller brings the payload into its expanded form first (appending to an element whose payload is held as raw
			 * bytes starts a new child list: the API leaves that conversion to the caller) */
			{ KSI_LIST(KSI_TLV) *l = NULL; KSI_TLV_getNestedList(root, &l); CALL(); }
			res = KSI_TLV_appendNestedTlv(root, ct);
		}
		CALL();
		if (res != KSI_OK) { KSI_TLV_free(ct); fail1("tlv-edit-refused", "%s: %s returned %x", what, is_repl ? "replace" : "append", res); return -1; }
		if (is_repl) t->ch[k] = c; else t->ch[t->n++] = c;
		OC(OC_OK);
		return 0;
	}
}
static void f_sequence(const ftree *t0, int origin, const int *ops, int nops) {
	ftree t = *t0;
	KSI_TLV *root = NULL;
	vbuf enc;
	unsigned char *own = NULL;
	char what[220], nm[32];
	int i, refused = 0, k = 0, res;
	rnode *r = f_ref(&t);
	vb_init(&enc);
	rt_layout(r);
	if (rt_encode(r, &enc, 1) != 0) vf_harness_error("part f: reference encoding of the start tree");
	k += snprintf(what, sizeof what, "%s parent %x with %d children;", origin == 0 ? "parsed (copy)" : origin == 1 ? "parsed (adopted buffer)" : "built", t.ptag, t.n);
	if (origin == 0) { res = KSI_TLV_parseBlob(ctx, enc.p, enc.n, &root); CALL(); }
	else if (origin == 1) {
		own = (unsigned char *)KSI_malloc(enc.n ? enc.n : 1);
		if (!own) vf_harness_error("part f: KSI_malloc");
		memcpy(own, enc.p, enc.n);
		res = KSI_TLV_parseBlob2(ctx, own, enc.n, 1, &root); CALL();
		if (res != KSI_OK) KSI_free(own);
	} else { rt_bind(r, enc.p); root = build_tlv(r, &refused); res = root ? KSI_OK : refused; }
	if (res != KSI_OK || root == NULL) { fail1("tlv-valid-rejected", "%s cannot be obtained (%x)", what, res); goto done; }
	for (i = 0; i < nops; i++) {
		int rc;
		f_opname(ops[i], nm, sizeof nm);
		if (k < (int)sizeof what - 40) k += snprintf(what + k, sizeof what - (size_t)k, " %s", nm);
		rc = f_apply(root, &t, ops[i], (unsigned)(60 + 11 * i + ops[i]), what);
		if (rc < 0) break;
		if (rc == 0) f_check(root, &t, what);
	}
done:
	KSI_TLV_free(root);
	vb_free(&enc);
	rt_reset();
	g_trees++;
}
static void part_f(void) {
	static const int START[][3] = {{-1, -1, -1}, {1, -1, -1}, {1, 5, -1}, {2, 4, 7}, {0, 8, -1}, {8, 8, -1}};
	int nstart = (int)(sizeof START / sizeof *START), si, origin, o1, o2, o3, maxops = VF_THOROUGH ? 3 : 2;
	for (si = 0; si < nstart; si++) for (origin = 0; origin < 3; origin++) for (o1 = 0; o1 < F_NOPS; o1++) {
		ftree t;
		int j, ops[3];
		memset(&t, 0, sizeof t);
		t.ptag = si & 1 ? 0x11 : 0x121; t.pfl = si & 3;
		for (j = 0; j < 3 && START[si][j] >= 0; j++) { t.ch[t.n].tag = E_TAGS[START[si][j] / 3]; t.ch[t.n].len = F_LENS[START[si][j] % 3]; t.ch[t.n].fl = j & 3; t.ch[t.n].seed = (unsigned)(si * 7 + j); t.n++; }
		if (!begin_case("f", "start%d:origin%d:op%d:len%d", si, origin, o1, maxops)) continue;
		ops[0] = o1;
		f_sequence(&t, origin, ops, 1);
		for (o2 = 0; o2 < F_NOPS; o2++) {
			ops[1] = o2;
			f_sequence(&t, origin, ops, 2);
			if (maxops >= 3) for (o3 = 0; o3 < F_NOPS; o3++) { ops[2] = o3; f_sequence(&t, origin, ops, 3); }
		}
		end_case();
	}
}

static void run(void) {
	ctx = ku_ctx();
	part_a();
	part_b1();
	part_b2a();
	part_b2b();
	part_b3();
	part_b4();
	part_b5();
	part_b6();
	part_c();
	part_d();
	part_e();
	part_f();
	KSI_CTX_free(ctx);
}

int main(int argc, char **argv) {
	vf_driver d = {"C09", run};
	return vf_main(argc, argv, &d);
}
