/* C14 - TCP clients frame the byte stream independently of how it is chunked.
 *
 * Every answer of the socket layer (connect / poll / send / recv) is owned by this driver. A case is one
 * complete schedule of such answers (chunk boundaries, would-block results, faults at byte offsets) run
 * against the real client code:
 *   rx / rxc / tx  - the TCP async transport object driven directly (dispatch / getResponse / addRequest)
 *                    with tiny TLVs and tiny requests: all compositions of short streams
 *   e2e / flt      - KSI_AsyncService_run over ksi+tcp:// with real aggregation requests / authentic replies
 *   blk            - the blocking client through KSI_Signature_signAggregated
 * Oracles: reference TLV split of the stream (rtlv_read), wire = concatenation of whole requests in
 * submission order, every request handed back with its own response or with a network error in a horizon. */
#include "ku.h"
#include "srv.h"
#include "ref/ref_pdu.h"
#include <ksi/net_async.h>
#include <ksi/net_tcp.h>
#include <ksi/net_uri.h>
#include "impl/net_async_impl.h"
#include <errno.h>
#include <poll.h>
#include <unistd.h>
#include <sys/wait.h>
#include <sys/time.h>
#include <signal.h>

#define LOGIN "user-c14"
#define KEY   "key-c14-secret"
#define URI   "ksi+tcp://aggr.test:3332"

/* ====================================================================== environment script */
enum { A_CUT = 0, A_WB, A_EINTR, A_RESET, A_PIPE, A_CLOSE, A_TIMEDOUT, A_NACT };
static const char *ANAME[A_NACT] = {"cut", "wb", "eintr", "reset", "pipe", "close", "timedout"};
#define MAXEV 40
typedef struct { size_t off; int act; int fired; size_t arm_out; } ev_t;
typedef struct { int n; ev_t e[MAXEV]; int dead; } dscript;
enum { CM_OK = 0, CM_PENDING, CM_REFUSED, CM_NEVER, CM_HUP, CM_POLLERR, CM_EINTR, CM_NOWRITE };
typedef struct {
	dscript rx, tx;
	int cmode, cparam, polls;
	/* what happened (for the oracle) */
	int fault_dir;            /* 0 none, 1 rx, 2 tx, 3 connect */
	int fault_act;
	size_t fault_off;
} cscript;
#define MAXCS 6
static cscript CS[MAXCS];
/* the common runner allows 120 s of wall time per case; a client that spins without touching the socket layer (so that the step budget
 * on socket calls cannot see it) is cut off earlier by a CPU-time watchdog (independent of machine load): no schedule in this driver
 * needs more than a few milliseconds of CPU. The process then ends by SIGALRM, which the runner reports as crash:hang. */
#define CASE_CPU_SECONDS 5
static void on_vtalrm(int sig) { (void)sig; signal(SIGALRM, SIG_DFL); raise(SIGALRM); }
static void cpu_watchdog(int sec) {
	struct itimerval it;
	memset(&it, 0, sizeof it);
	it.it_value.tv_sec = sec;
	setitimer(ITIMER_VIRTUAL, &it, NULL);
}
static int case_begin_ok(int r) { if (r) { signal(SIGVTALRM, on_vtalrm); cpu_watchdog(CASE_CPU_SECONDS); } return r; }
#define CASE_BEGIN(...) case_begin_ok(vf_case_begin(__VA_ARGS__))
#define CASE_END(x) do { cpu_watchdog(0); vf_case_end(x); } while (0)
static long hook_calls, hook_budget;
static int spin;
static sn_conn *cur_conn;

static void script_reset(void) {
	memset(CS, 0, sizeof CS);
	hook_calls = 0; hook_budget = 4000; spin = 0; cur_conn = NULL;
}
static cscript *cs_of(sn_conn *c) { return c->seq < MAXCS ? &CS[c->seq] : NULL; }
static void ev_add(dscript *d, size_t off, int act, size_t arm_out) {
	if (d->n >= MAXEV) vf_harness_error("too many script events");
	d->e[d->n].off = off; d->e[d->n].act = act; d->e[d->n].fired = 0; d->e[d->n].arm_out = arm_out;
	d->n++;
}
static int budget(void) {
	if (++hook_calls > hook_budget) { spin = 1; return 1; }
	return 0;
}
static ev_t *ev_due(dscript *d, size_t pos, size_t out_n) {
	int i;
	for (i = 0; i < d->n; i++) {
		ev_t *e = &d->e[i];
		if (!e->fired && e->off == pos && e->act != A_CUT && out_n >= e->arm_out) return e;
	}
	return NULL;
}
static size_t next_boundary(dscript *d, size_t pos) {
	size_t b = (size_t)-1;
	int i;
	for (i = 0; i < d->n; i++) if (d->e[i].off > pos && d->e[i].off < b) b = d->e[i].off;
	return b;
}
static long act_answer(cscript *cs, int dir, ev_t *e, sn_conn *c) {
	e->fired = 1;
	switch (e->act) {
		case A_WB: return -EWOULDBLOCK;
		case A_EINTR: if (!cs->fault_dir) { cs->fault_dir = dir; cs->fault_act = A_EINTR; cs->fault_off = e->off; } return -EINTR;
		case A_TIMEDOUT: if (!cs->fault_dir) { cs->fault_dir = dir; cs->fault_act = A_TIMEDOUT; cs->fault_off = e->off; } return -ETIMEDOUT;
		case A_RESET: cs->rx.dead = cs->tx.dead = A_RESET; cs->fault_dir = dir; cs->fault_act = A_RESET; cs->fault_off = e->off; return -ECONNRESET;
		case A_PIPE: cs->rx.dead = cs->tx.dead = A_RESET; cs->fault_dir = dir; cs->fault_act = A_PIPE; cs->fault_off = e->off; return -EPIPE;
		case A_CLOSE: cs->rx.dead = A_CLOSE; c->peer_closed = 1; cs->fault_dir = dir; cs->fault_act = A_CLOSE; cs->fault_off = e->off; return 0;
		default: return -EIO;
	}
}

static long h_recv(sn_conn *c, size_t avail, size_t cap) {
	cscript *cs = cs_of(c);
	size_t pos = c->in_off, b, k;
	ev_t *e;
	if (budget()) return -ECONNABORTED;
	if (cs && (cs->cmode == CM_HUP || cs->cmode == CM_REFUSED || cs->cmode == CM_NEVER)) return -ECONNREFUSED;   /* never established: carries no data */
	if (cs) {
		if (cs->rx.dead == A_CLOSE) return 0;
		if (cs->rx.dead == A_RESET) return -ECONNRESET;
		if ((e = ev_due(&cs->rx, pos, c->out.n)) != NULL) return act_answer(cs, 1, e, c);
	}
	if (avail == 0) return c->peer_closed ? 0 : -EWOULDBLOCK;
	b = cs ? next_boundary(&cs->rx, pos) : (size_t)-1;
	k = avail < cap ? avail : cap;
	if (b != (size_t)-1 && b - pos < k) k = b - pos;
	return (long)k;
}

static long h_send(sn_conn *c, const void *buf, size_t len) {
	cscript *cs = cs_of(c);
	size_t pos = c->out.n, b, k = len;
	ev_t *e;
	(void)buf;
	if (budget()) return -ECONNABORTED;
	if (cs && (cs->cmode == CM_HUP || cs->cmode == CM_REFUSED || cs->cmode == CM_NEVER)) return -ENOTCONN;       /* never established: carries no data */
	if (cs) {
		if (cs->tx.dead) return -ECONNRESET;
		if ((e = ev_due(&cs->tx, pos, pos)) != NULL) return act_answer(cs, 2, e, c);
		b = next_boundary(&cs->tx, pos);
		if (b != (size_t)-1 && b - pos < k) k = b - pos;
	}
	return (long)k;
}

static int h_connect(sn_conn *c) {
	cscript *cs = cs_of(c);
	if (budget()) return -ECONNABORTED;
	if (!cs) return 0;
	switch (cs->cmode) {
		case CM_PENDING: return cs->cparam + 1;
		case CM_REFUSED: cs->fault_dir = 3; return -ECONNREFUSED;
		case CM_EINTR: if (cs->polls++ == 0) { if (c->nonblock) cs->fault_dir = 3; return -EINTR; } return 0;
		case CM_NEVER: cs->fault_dir = 3; return c->nonblock ? 1 : -ETIMEDOUT;
		case CM_HUP: cs->fault_dir = 3; return c->nonblock ? 1 : -ECONNREFUSED;
		case CM_POLLERR: return 1;
		default: return 0;
	}
}

static int h_poll(sn_conn *c, short events, short *rev) {
	cscript *cs = cs_of(c);
	if (budget()) return -ENOMEM;
	if (!cs) return -2;
	if (c->state == SN_CONNECTING) {
		switch (cs->cmode) {
			case CM_NEVER: *rev = 0; return 0;
			case CM_HUP: *rev = (short)(POLLOUT | POLLERR | POLLHUP); return 0;
			case CM_POLLERR: if (cs->polls++ == 0) { cs->fault_dir = 3; return -ENOMEM; } return -2;
			default: return -2;
		}
	}
	if (c->state == SN_CONNECTED && cs->cmode == CM_NOWRITE && c->out.n == 0) return -2;    /* the first batch goes out; later polls find the send buffer full */
	if (c->state == SN_CONNECTED) {
		short r = 0;
		if (events & POLLOUT) {
			if (cs->cmode == CM_NOWRITE && cs->polls < cs->cparam) cs->polls++;
			else r |= POLLOUT;
		}
		if (events & POLLIN) {
			if (c->in.n > c->in_off || c->peer_closed || cs->rx.dead || ev_due(&cs->rx, c->in_off, c->out.n)) r |= POLLIN;
		}
		*rev = r;
		return 0;
	}
	return -2;
}

static void h_after_send(sn_conn *c) {
	cur_conn = c;
	srv_after_send(c);
	cur_conn = NULL;
}

/* ====================================================================== simulated aggregator */
#define MAXREQ 8
static unsigned char IMPR[MAXREQ][RH_MAX_IMPRINT];
static size_t IMPRLEN;
typedef struct {
	int hold, expect, seen;            /* hold: answer only after `expect` requests of the phase have arrived */
	vbuf held; int held_j[MAXREQ]; size_t held_len[MAXREQ]; int nheld; int held_conn;
	int resp_conn[MAXREQ]; size_t resp_end[MAXREQ];
	int unparsed;
} server_t;
static server_t SV;

static void server_reset(void) {
	int j;
	vb_free(&SV.held);
	memset(&SV, 0, sizeof SV);
	for (j = 0; j < MAXREQ; j++) SV.resp_conn[j] = -1;
}
static void imprints_init(void) {
	int j;
	for (j = 0; j < MAXREQ; j++) IMPRLEN = ref_fake_imprint(RH_SHA256, 1400 + (unsigned)j, IMPR[j]);
}

static void handler(const unsigned char *req, size_t n, vbuf *resp, void *user) {
	rp_req r;
	rp_env e;
	rsig sig;
	vbuf body, payload, one;
	uint64_t level;
	int j, k;
	size_t base;
	(void)user;
	memset(&r, 0, sizeof r);
	if (rp_parse_request(req, n, RP_AGGR, &r) != 0 || !r.has_req || !r.has_hash) { SV.unparsed++; rp_req_free(&r); return; }
	for (j = 0; j < MAXREQ; j++) if (r.hash_len == IMPRLEN && memcmp(r.hash, IMPR[j], IMPRLEN) == 0) break;
	level = r.has_level ? r.level : 0;
	memset(&e, 0, sizeof e);
	e.version = r.version; e.kind = RP_AGGR; e.login = LOGIN; e.mac_alg = RH_SHA256; e.key = KEY; e.keylen = strlen(KEY);
	vb_init(&body); vb_init(&payload); vb_init(&one);
	rp_aggregate(&sig, r.hash, r.hash_len, level, 0, 0, 1700000000ULL, 1700000000ULL + 86400 * 3);
	sig.ch[0].links[0].level_corr -= level;
	rp_sig_body(&sig, &body);
	rp_aggr_resp_payload(&payload, e.version, r.req_id, 1, 0, NULL, body.p, body.n);
	rp_wrap_response(&one, &e, payload.p, payload.n);
	/* replies are held per connection: a new connection starts with nothing pending, and is answered at once */
	if (cur_conn && cur_conn->seq != SV.held_conn) { vb_reset(&SV.held); SV.nheld = 0; SV.held_conn = cur_conn->seq; SV.hold = 0; }
	if (SV.nheld < MAXREQ) { SV.held_j[SV.nheld] = j; SV.held_len[SV.nheld] = one.n; SV.nheld++; vb_putvb(&SV.held, &one); }
	SV.seen++;
	if (!(SV.hold && SV.seen < SV.expect)) {
		/* flush everything held, in arrival order */
		base = (cur_conn ? cur_conn->in.n : 0) + resp->n;
		for (k = 0; k < SV.nheld; k++) {
			base += SV.held_len[k];
			if (SV.held_j[k] < MAXREQ) { SV.resp_conn[SV.held_j[k]] = cur_conn ? cur_conn->seq : 0; SV.resp_end[SV.held_j[k]] = base; }
		}
		vb_putvb(resp, &SV.held);
		vb_reset(&SV.held); SV.nheld = 0;
	}
	vb_free(&body); vb_free(&payload); vb_free(&one);
	rp_req_free(&r);
}

static void env_install(void) {
	srv_install(handler, NULL);
	script_reset();
	server_reset();
	sn.on_recv = h_recv; sn.on_send = h_send; sn.on_connect = h_connect; sn.on_poll = h_poll; sn.after_send = h_after_send;
}

static long trans_total;
static void count_env(long client_steps) {
	/* states: choice points reached (socket-layer calls the environment answered);
	 * transitions: environment answers taken + client steps (run / dispatch / sign calls) */
	vf_count("states", hook_calls);
	vf_count("transitions", hook_calls + client_steps);
	vf_count("impl_calls", client_steps);
	vf_count("traces", 1);
	vf_max("max_socket_calls_per_schedule", hook_calls);
	trans_total += hook_calls;
}

static int is_net_error(int err) {
	return err == KSI_NETWORK_ERROR || err == KSI_NETWORK_CONNECTION_TIMEOUT || err == KSI_NETWORK_SEND_TIMEOUT ||
	       err == KSI_NETWORK_RECIEVE_TIMEOUT || err == KSI_ASYNC_CONNECTION_CLOSED || err == KSI_IO_ERROR;
}

/* ====================================================================== wire oracle */
static vbuf REQ[MAXREQ];
static int nreq;
static int sent_on[MAXREQ];          /* connection on which request j travelled whole, -1 */
static size_t partial_len[MAXREQ];   /* bytes of request j on a connection that ended inside it */

static void req_reset(void) {
	int j;
	for (j = 0; j < MAXREQ; j++) { vb_reset(&REQ[j]); sent_on[j] = -1; partial_len[j] = 0; }
	nreq = 0;
}

/* every connection's output must be whole requests in submission order, cut short only where the connection
 * ended. A request cut short may travel again (whole) later; nothing else may repeat. Returns 0 when it holds. */
static int wire_check(const char *tag) {
	int ci, j, jmin = 0, bad = 0;
	for (j = 0; j < MAXREQ; j++) { sent_on[j] = -1; partial_len[j] = 0; }
	for (ci = 0; ci < sn_nconn && ci < SN_MAX_CONN; ci++) {
		sn_conn *c = &sn_conns[ci];
		size_t pos = 0;
		while (pos < c->out.n) {
			size_t rem = c->out.n - pos;
			int found = -1;
			for (j = jmin; j < nreq; j++) if (REQ[j].n > 0 && REQ[j].n <= rem && memcmp(c->out.p + pos, REQ[j].p, REQ[j].n) == 0) { found = j; break; }
			if (found >= 0) { sent_on[found] = ci; jmin = found + 1; pos += REQ[found].n; continue; }
			for (j = jmin; j < nreq; j++) if (REQ[j].n > rem && memcmp(c->out.p + pos, REQ[j].p, rem) == 0) { found = j; break; }
			if (found >= 0) {
				int ended = c->state == SN_CLOSED_BY_CLIENT || (ci < MAXCS && CS[ci].fault_dir != 0);
				if (!ended) {
					vf_fail("wire-request-incomplete", "%s: connection %d is still open but its output ends %zu bytes into request %d (%zu bytes)", tag, ci, rem, found, REQ[found].n);
					bad = 1;
				}
				partial_len[found] = rem;
				jmin = found;
				pos = c->out.n;
				continue;
			}
			/* diagnose: continuation of a request cut short on an earlier connection? */
			for (j = 0; j < nreq; j++) {
				size_t p = partial_len[j];
				if (p > 0 && p < REQ[j].n && REQ[j].n - p <= rem && memcmp(c->out.p + pos, REQ[j].p + p, REQ[j].n - p) == 0) {
					vf_fail("wire-resumed-midrequest", "%s: connection %d offset %zu carries bytes %zu..%zu of request %d (the first %zu bytes went to an earlier connection that ended): "
					        "the new connection does not start with a whole request", tag, ci, pos, p, REQ[j].n, j, p);
					return 1;
				}
			}
			vf_fail("wire-not-whole-requests", "%s: connection %d offset %zu (of %zu): bytes %s.. are not the start of a request >= #%d in submission order", tag, ci, pos, c->out.n,
			        vf_hex(c->out.p + pos, rem < 12 ? rem : 12), jmin);
			return 1;
		}
	}
	return bad;
}

/* ====================================================================== part rx / rxc / tx: transport object driven directly */
typedef struct { int size, is16; size_t len; } kind_t;
static const kind_t KIND[] = {
	{2, 0, 0}, {3, 0, 1}, {4, 0, 2}, {5, 0, 3}, {6, 0, 4}, {4, 1, 0}, {5, 1, 1}, {6, 1, 2},
	{257, 0, 255}, {258, 1, 254}, {260, 1, 256}, {65539, 1, 65535}};
#define NKIND 12
#define NSMALL 8
#define K_HUGE 11

static KSI_CTX *g_ctx;
static KSI_CTX *dctx(void) { if (!g_ctx) g_ctx = ku_ctx(); return g_ctx; }

static void build_pdu(vbuf *out, int kind, int idx) {
	static unsigned char pay[65536];
	size_t i, before = out->n;
	unsigned tag = KIND[kind].is16 ? (unsigned)(0x0221 + idx) : (unsigned)(0x01 + idx * 5 + (kind & 3));
	for (i = 0; i < KIND[kind].len; i++) pay[i] = (unsigned char)((i * 29 + (size_t)idx * 53 + (size_t)kind * 7 + 0x83) & 0xff);
	if (rtlv_put(out, tag, idx & 1, 0, pay, KIND[kind].len, KIND[kind].is16) != 0 || out->n - before != (size_t)KIND[kind].size) vf_harness_error("build_pdu kind %d", kind);
}
static void build_stream(vbuf *out, const int *kinds, int nk) {
	int i;
	for (i = 0; i < nk; i++) build_pdu(out, kinds[i], i);
}
static size_t stream_size(const int *kinds, int nk) {
	size_t n = 0; int i;
	for (i = 0; i < nk; i++) n += (size_t)KIND[kinds[i]].size;
	return n;
}
static const char *stream_name(const int *kinds, int nk) {
	static char b[64];
	int i, o = 0;
	for (i = 0; i < nk; i++) o += snprintf(b + o, sizeof b - (size_t)o, "%s%d", i ? "." : "", kinds[i]);
	return b;
}

static KSI_AsyncClient *dc_new(KSI_CTX *ctx, size_t round_max) {
	KSI_AsyncClient *c = NULL;
	if (KSI_TcpAsyncClient_new(ctx, &c) != KSI_OK || c == NULL) vf_harness_error("KSI_TcpAsyncClient_new");
	if (KSI_TcpAsyncClient_setService(c, "tcp.test", 3332, "u", "k") != KSI_OK) vf_harness_error("KSI_TcpAsyncClient_setService");
	c->options[KSI_ASYNC_OPT_MAX_REQUEST_COUNT] = round_max;
	return c;
}
static KSI_AsyncHandle *dc_add(KSI_CTX *ctx, KSI_AsyncClient *c, const unsigned char *raw, size_t n) {
	KSI_AsyncHandle *h = NULL, *ref;
	if (KSI_AbstractAsyncHandle_new(ctx, &h) != KSI_OK || h == NULL) vf_harness_error("KSI_AbstractAsyncHandle_new");
	h->raw = KSI_malloc(n);
	if (h->raw == NULL) vf_harness_error("KSI_malloc");
	memcpy(h->raw, raw, n);
	h->len = n; h->sentCount = 0;
	ref = KSI_AsyncHandle_ref(h);
	if (c->addRequest(c->clientImpl, ref) != KSI_OK) vf_harness_error("transport addRequest");
	return h;
}

typedef struct { vbuf bytes; size_t len[16]; int n; int bad_left; } got_t;
static void drain(KSI_AsyncClient *c, got_t *g) {
	for (;;) {
		KSI_OctetString *os = NULL;
		const unsigned char *p = NULL;
		size_t l = 0, left = 99;
		if (c->getResponse(c->clientImpl, &os, &left) != KSI_OK) { g->bad_left = 1; return; }
		if (os == NULL) { if (left != 0) g->bad_left = 1; return; }
		KSI_OctetString_extract(os, &p, &l);
		if (g->n < 16) g->len[g->n] = l;
		g->n++;
		vb_put(&g->bytes, p, l);
		KSI_OctetString_free(os);
		if (g->n > 64) return;
	}
}

/* compare the PDUs handed upward with the reference split of `stream` (first `whole` bytes are complete PDUs) */
static void compare_pdus(const char *what, const got_t *g, const vbuf *stream) {
	size_t pos = 0, gpos = 0;
	int i = 0;
	while (pos < stream->n) {
		rtlv t;
		size_t tot;
		if (rtlv_read(stream->p + pos, stream->n - pos, &t) != 0) break;     /* incomplete tail: must never be handed up */
		tot = t.hdr + t.len;
		if (i >= g->n) { vf_fail("pdu-missing", "%s: the stream contains a complete PDU #%d (%zu bytes at offset %zu) that was not handed upward (got %d PDUs)", what, i, tot, pos, g->n); return; }
		if (i < 16 && g->len[i] != tot) { vf_fail("pdu-wrong-length", "%s: PDU #%d handed upward has %zu bytes, the stream's element at offset %zu has %zu", what, i, g->len[i], pos, tot); return; }
		if (gpos + tot > g->bytes.n || memcmp(g->bytes.p + gpos, stream->p + pos, tot) != 0) { vf_fail("pdu-wrong-bytes", "%s: PDU #%d (%zu bytes) differs from the stream bytes at offset %zu", what, i, tot, pos); return; }
		pos += tot; gpos += tot; i++;
	}
	if (g->n > i) vf_fail("pdu-extra", "%s: %d PDUs handed upward, the stream contains %d complete ones (extra one has %zu bytes)", what, g->n, i, i < 16 ? g->len[i] : (size_t)0);
	if (g->bad_left) vf_fail("getresponse-left", "%s: getResponse failed or reported a wrong number of queued responses", what);
}

static const unsigned char TINYREQ[4] = {0x02, 0x02, 0xa5, 0x5a};
static const unsigned char TINYREQ2[5] = {0x03, 0x03, 0x11, 0x22, 0x33};

/* one receive schedule (already placed in CS[0].rx) on `stream`; tail_act: after the stream the peer closes / resets
 * (A_CLOSE / A_RESET) or nothing (0); then, if stream2 != NULL, a second request and stream2 on a fresh connection */
static void rx_exec(const vbuf *stream, int nwb, int tail_act, const vbuf *stream2) {
	KSI_CTX *ctx = dctx();
	KSI_AsyncClient *c;
	KSI_AsyncHandle *h1, *h2 = NULL;
	sn_conn *conn = NULL;
	got_t g;
	int round, extra = 0, res, closed_seen = 0;
	long steps = 0;
	memset(&g, 0, sizeof g);
	c = dc_new(ctx, 100);
	h1 = dc_add(ctx, c, TINYREQ, sizeof TINYREQ);
	hook_budget = 200 + 4 * (long)nwb + 3 * (long)CS[0].rx.n + (long)(stream->n / 65539) * 4;
	for (round = 0; round < nwb + 6; round++) {
		res = c->dispatch(c->clientImpl); steps++;
		if (round == 0) {
			conn = sn_last();
			if (conn == NULL || conn->out.n != sizeof TINYREQ || memcmp(conn->out.p, TINYREQ, sizeof TINYREQ) != 0) { vf_fail("tx-direct", "first dispatch did not put the 4 byte request on the wire (res 0x%x)", res); goto done; }
			sn_server_write(conn, stream->p, stream->n);
			continue;
		}
		drain(c, &g);
		if (res == KSI_ASYNC_CONNECTION_CLOSED) { closed_seen = 1; break; }
		if (res != KSI_OK) { vf_fail("dispatch-error", "dispatch returned 0x%x while receiving (delivered %zu of %zu bytes)", res, conn->in_off, stream->n); goto done; }
		if (conn->in_off == stream->n && !tail_act && extra++ >= 1) break;
	}
	if (spin) { vf_fail("spin", "more than %ld socket calls for a stream of %zu bytes", hook_budget, stream->n); goto done; }
	if (conn->in_off != stream->n) { vf_fail("rx-stalled", "only %zu of %zu stream bytes were read within %d dispatch rounds", conn->in_off, stream->n, round); goto done; }
	compare_pdus("stream", &g, stream);
	if (tail_act) {
		if (!closed_seen) vf_fail("close-not-reported", "peer %s after %zu bytes but dispatch never returned KSI_ASYNC_CONNECTION_CLOSED", ANAME[tail_act], stream->n);
		if (conn->state != SN_CLOSED_BY_CLIENT) vf_fail("socket-not-closed", "peer %s but the client did not close its socket", ANAME[tail_act]);
		vf_outcome("rxc:%s:%s", ANAME[tail_act], closed_seen ? "closed" : "not-noticed");
	}
	if (stream2 != NULL) {
		got_t g2;
		sn_conn *conn2;
		memset(&g2, 0, sizeof g2);
		h2 = dc_add(ctx, c, TINYREQ2, sizeof TINYREQ2);
		res = c->dispatch(c->clientImpl); steps++;
		conn2 = sn_last();
		if (conn2 == conn || conn2 == NULL) { vf_fail("no-fresh-connection", "after the peer %s the next request did not open a new connection (res 0x%x)", ANAME[tail_act], res); vb_free(&g2.bytes); goto done; }
		if (conn2->out.n != sizeof TINYREQ2 || memcmp(conn2->out.p, TINYREQ2, sizeof TINYREQ2) != 0) vf_fail("wire-not-whole-requests", "fresh connection carries %s, expected the whole 5 byte request", vf_hex(conn2->out.p, conn2->out.n));
		drain(c, &g2);
		if (g2.n) vf_fail("pdu-extra", "%d PDUs handed upward on a fresh connection before the server wrote anything (left-over of the closed connection)", g2.n);
		sn_server_write(conn2, stream2->p, stream2->n);
		for (round = 0; round < 4; round++) {
			res = c->dispatch(c->clientImpl); steps++;
			drain(c, &g2);
			if (res != KSI_OK) { vf_fail("dispatch-error", "dispatch returned 0x%x on the fresh connection", res); break; }
		}
		if (conn2->in_off != stream2->n) vf_fail("rx-stalled", "fresh connection: only %zu of %zu bytes read", conn2->in_off, stream2->n);
		else compare_pdus("fresh-connection stream", &g2, stream2);
		vb_free(&g2.bytes);
	}
	if (!tail_act) vf_outcome("rx:pdus:%d", g.n);
done:
	vb_free(&g.bytes);
	KSI_AsyncClient_free(c);
	KSI_AsyncHandle_free(h1);
	KSI_AsyncHandle_free(h2);
	count_env(steps);
}

/* ternary boundary code: digit i (boundary after byte i+1): 0 none, 1 cut, 2 cut + would-block */
static int code_to_script(dscript *d, const char *code, size_t n) {
	size_t i;
	int nwb = 0;
	for (i = 0; i + 1 < n; i++) {
		if (code[i] == '1') ev_add(d, i + 1, A_CUT, 0);
		else if (code[i] == '2') { ev_add(d, i + 1, A_WB, 0); nwb++; }
	}
	return nwb;
}
/* next code in the enumeration over alphabet `alpha` (string of digits); returns 0 after the last */
static int code_next(char *code, size_t len, const char *alpha) {
	size_t i;
	for (i = 0; i < len; i++) {
		const char *p = strchr(alpha, code[i]);
		if (p[1]) { code[i] = p[1]; return 1; }
		code[i] = alpha[0];
	}
	return 0;
}

static int sampled[16];
#define SAMPLE(i, ...) do { if (!sampled[i]) { sampled[i] = 1; vf_sample(__VA_ARGS__); } } while (0)
static void rx_short_stream(const int *kinds, int nk) {
	size_t n = stream_size(kinds, nk);
	size_t full3 = VF_THOROUGH ? 9 : 7;      /* full ternary enumeration up to this stream length */
	const char *alphas[3] = {"01", "02", "012"};
	int a;
	char code[32];
	for (a = 0; a < 3; a++) {
		if (a == 2 && n > full3) continue;
		if (a == 1 && n > 12) continue;                  /* 13..14 bytes: every composition, without the would-block variant */
		memset(code, '0', sizeof code); code[n - 1] = 0;
		do {
			vbuf st;
			int nwb;
			if (a > 0 && strchr(code, '2') == NULL) continue;                       /* already covered by the binary enumeration */
			if (a == 2 && strchr(code, '1') == NULL) continue;
			if (!CASE_BEGIN("rx:k%s:t%s", stream_name(kinds, nk), n > 1 ? code : "-")) continue;
			env_install();
			vb_init(&st);
			build_stream(&st, kinds, nk);
			nwb = code_to_script(&CS[0].rx, code, n);
			if (a == 2) SAMPLE(0, "%s: transport object, stream of PDU kinds %s (%zu bytes), boundary code %s (1 = chunk boundary, 2 = boundary + would-block)", vf_case_name(), stream_name(kinds, nk), n, code);
			rx_exec(&st, nwb, 0, NULL);
			vb_free(&st);
			CASE_END(1);
		} while (n > 1 && code_next(code, n - 1, alphas[a]));
	}
}

static int cmp_size(const void *a, const void *b) { size_t x = *(const size_t *)a, y = *(const size_t *)b; return x < y ? -1 : x > y; }
/* offsets worth cutting at in a long stream: around every PDU start / header end / PDU end and the receive call's capacity */
static int interesting_offsets(const int *kinds, int nk, size_t *out, int cap) {
	size_t s = 0, n = stream_size(kinds, nk), cand[64];
	int i, k, nc = 0, no = 0;
	for (i = 0; i < nk; i++) {
		size_t h = KIND[kinds[i]].is16 ? 4 : 2, e = s + (size_t)KIND[kinds[i]].size;
		size_t c[] = {s - 1, s + 1, s + 2, s + 3, s + h - 1, s + h, s + h + 1, e - 1, e, s + 65535, s + 65536, s + 255, s + 256};
		for (k = 0; k < (int)(sizeof c / sizeof *c); k++) if (nc < 64 && c[k] > 0 && c[k] < n && c[k] <= e && (s == 0 || c[k] >= s - 1)) cand[nc++] = c[k];
		s = e;
	}
	if (n > 65539) { cand[nc++] = 65539; if (n > 65540) cand[nc++] = 65540; cand[nc++] = 65538; }
	qsort(cand, (size_t)nc, sizeof *cand, cmp_size);
	for (i = 0; i < nc && no < cap; i++) if (cand[i] > 0 && cand[i] < n && (no == 0 || out[no - 1] != cand[i])) out[no++] = cand[i];
	return no;
}

static void rx_cut_case(const int *kinds, int nk, size_t a, size_t b, int wb) {
	vbuf st;
	int nwb = 0;
	if (b) { if (!CASE_BEGIN("rx:k%s:cut%zu,%zu:wb%d", stream_name(kinds, nk), a, b, wb)) return; }
	else if (!CASE_BEGIN("rx:k%s:cut%zu:wb%d", stream_name(kinds, nk), a, wb)) return;
	env_install();
	vb_init(&st);
	build_stream(&st, kinds, nk);
	ev_add(&CS[0].rx, a, wb ? A_WB : A_CUT, 0); nwb += wb;
	if (b) { ev_add(&CS[0].rx, b, wb ? A_WB : A_CUT, 0); nwb += wb; }
	rx_exec(&st, nwb, 0, NULL);
	vb_free(&st);
	CASE_END(1);
}

static void rx_long_stream(const int *kinds, int nk) {
	size_t n = stream_size(kinds, nk), off[64], a, b;
	int no = interesting_offsets(kinds, nk, off, 64), i, j, wb;
	int huge = 0;
	for (i = 0; i < nk; i++) if (kinds[i] == K_HUGE) huge = 1;
	for (wb = 0; wb < 2; wb++) {
		if (!huge && (VF_THOROUGH || nk == 1)) {
			for (a = 1; a < n; a++) rx_cut_case(kinds, nk, a, 0, wb);                 /* every 1-cut */
		} else {
			for (i = 0; i < no; i++) rx_cut_case(kinds, nk, off[i], 0, wb);
		}
		if (!huge && n <= 40 && VF_THOROUGH) {
			for (a = 1; a < n; a++) for (b = a + 1; b < n; b++) rx_cut_case(kinds, nk, a, b, wb);   /* every 2-cut */
		} else if ((VF_THOROUGH && (nk <= 2 || wb == 0)) || (!VF_THOROUGH && (nk <= 2 || wb == 0))) {
			for (i = 0; i < no; i++) for (j = i + 1; j < no; j++) rx_cut_case(kinds, nk, off[i], off[j], wb);
		}
	}
}

static void part_rx(void) {
	int k[3], nk;
	size_t short_max = VF_THOROUGH ? 14 : 10;
	for (nk = 1; nk <= 3; nk++) {
		int idx[3] = {0, 0, 0};
		for (;;) {
			int i, small = 1;
			size_t n;
			for (i = 0; i < nk; i++) { k[i] = idx[i]; if (k[i] >= NSMALL) small = 0; }
			n = stream_size(k, nk);
			if (small && n <= short_max) rx_short_stream(k, nk);
			else if (VF_THOROUGH || nk <= 2) rx_long_stream(k, nk);
			else {
				/* quick: of the 3-PDU streams only those that fill the reassembly buffer (two maximum-size PDUs + a 2-byte or a maximum-size one) */
				int huge = 0, other = 0;
				for (i = 0; i < nk; i++) { if (k[i] == K_HUGE) huge++; else if (k[i] != 0) other++; }
				if (huge >= 2 && !other) rx_long_stream(k, nk);
			}
			for (i = nk - 1; i >= 0; i--) { if (++idx[i] < NKIND) break; idx[i] = 0; }
			if (i < 0) break;
		}
	}
}

/* peer closes / resets after whole PDUs + a proper prefix of one more; nothing partial may come up, and the next
 * request travels on a fresh connection whose stream is framed from its own first byte */
static void part_rxc(void) {
	static const int FIRST[][2] = {{-1, -1}, {1, -1}, {6, -1}, {2, 5}};
	static const int PART[] = {0, 1, 4, 5, 7, 9, 11};
	static const int SECOND[][2] = {{3, -1}, {7, 0}};
	int f, p, s, act, wb;
	for (f = 0; f < 4; f++) for (p = 0; p < 7; p++) for (s = 0; s < 2; s++) for (act = A_RESET; act <= A_CLOSE; act++) {
		size_t psize = (size_t)KIND[PART[p]].size, plen;
		if (act == A_PIPE) continue;
		if (!VF_THOROUGH && (s == 1 && f != 3)) continue;
		for (plen = 0; plen < psize; plen++) {
			if (psize > 16 && !(plen < 8 || plen + 3 > psize || plen == 255 || plen == 256 || plen == 257 || plen == 65535)) continue;
			for (wb = 0; wb < 2; wb++) {
				vbuf st, whole, st2;
				int kinds[3], nk = 0, k2[2], nk2 = 0;
				if (wb && plen == 0) continue;
				if (!CASE_BEGIN("rxc:f%d:p%d.%zu:s%d:%s:wb%d", f, PART[p], plen, s, ANAME[act], wb)) continue;
				SAMPLE(1, "%s: whole PDUs + %zu bytes of one more, then peer %s; next request on a fresh connection with its own stream", vf_case_name(), plen, ANAME[act]);
				env_install();
				if (FIRST[f][0] >= 0) kinds[nk++] = FIRST[f][0];
				if (FIRST[f][1] >= 0) kinds[nk++] = FIRST[f][1];
				k2[nk2++] = SECOND[s][0];
				if (SECOND[s][1] >= 0) k2[nk2++] = SECOND[s][1];
				vb_init(&st); vb_init(&whole); vb_init(&st2);
				build_stream(&st, kinds, nk);
				build_pdu(&whole, PART[p], 2);
				vb_put(&st, whole.p, plen);
				build_stream(&st2, k2, nk2);
				/* would-block right before the partial element, then the fault once everything was read */
				if (wb) ev_add(&CS[0].rx, st.n - plen, A_WB, 0);
				ev_add(&CS[0].rx, st.n, act, 0);
				rx_exec(&st, wb, act, &st2);
				vb_free(&st); vb_free(&whole); vb_free(&st2);
				CASE_END(1);
			}
		}
	}
}

/* tiny requests through addRequest / dispatch: every composition of partial sends, each chunk optionally preceded by would-block */
static void tx_exec(const int *sizes, int ns, const char *code, int wb0, size_t round_max) {
	KSI_CTX *ctx = dctx();
	KSI_AsyncClient *c = dc_new(ctx, round_max);
	KSI_AsyncHandle *h[4];
	vbuf all;
	unsigned char raw[16];
	int i, round, nwb, res, rc_seen = 0;
	size_t j;
	long steps = 0;
	sn_conn *conn;
	vb_init(&all);
	for (i = 0; i < ns; i++) {
		for (j = 0; j < (size_t)sizes[i]; j++) raw[j] = (unsigned char)(0x11 * (i + 1) + 0x20 * (int)j + 0x80 * (j == 0));
		h[i] = dc_add(ctx, c, raw, (size_t)sizes[i]);
		vb_put(&all, raw, (size_t)sizes[i]);
	}
	if (wb0) ev_add(&CS[0].tx, 0, A_WB, 0);
	nwb = wb0 + code_to_script(&CS[0].tx, code, all.n);
	hook_budget = 100 + 6 * (long)all.n;
	for (round = 0; round < nwb + ns + 3; round++) {
		res = c->dispatch(c->clientImpl); steps++;
		if (res != KSI_OK) {
			if (res == KSI_ASYNC_CONNECTION_CLOSED) { vf_fail("wouldblock-closed-connection", "dispatch reported a closed connection although the peer only answered would-block / short counts"); break; }
			rc_seen = res;
		}
		if (round_max == 1) sn_now += 1;
	}
	conn = sn_nconn > 0 ? &sn_conns[0] : NULL;
	if (spin) vf_fail("spin", "more than %ld socket calls while sending %zu bytes", hook_budget, all.n);
	else if (sn_nconn != 1 || conn == NULL) vf_fail("tx-connections", "%d connections were opened for one request batch", sn_nconn);
	else if (conn->out.n != all.n || memcmp(conn->out.p, all.p, all.n) != 0)
		vf_fail("wire-not-whole-requests", "wire has %zu bytes %s, expected the %d requests back to back: %s", conn->out.n, vf_hex(conn->out.p, conn->out.n), ns, vf_hex(all.p, all.n));
	else {
		for (i = 0; i < ns; i++) if (h[i]->state != KSI_ASYNC_STATE_WAITING_FOR_RESPONSE || h[i]->raw != NULL)
			vf_fail("tx-state", "request %d fully written but its state is %d (raw %s)", i, h[i]->state, h[i]->raw ? "kept" : "released");
	}
	/* the value a would-block dispatch returns is judged end to end (part e2e): here it is only recorded */
	vf_outcome("tx:dispatch-rc:%x", rc_seen);
	vb_free(&all);
	KSI_AsyncClient_free(c);
	for (i = 0; i < ns; i++) KSI_AsyncHandle_free(h[i]);
	count_env(steps);
}

static void part_tx(void) {
	static const int SETS[][4] = {{1, 0, 0, 0}, {2, 0, 0, 0}, {3, 0, 0, 0}, {5, 0, 0, 0}, {7, 0, 0, 0}, {10, 0, 0, 0}, {2, 2, 0, 0}, {2, 5, 0, 0}, {5, 2, 0, 0}, {3, 4, 0, 0}, {5, 5, 0, 0},
	                                {2, 2, 2, 0}, {3, 2, 4, 0}, {2, 5, 3, 0}, {4, 3, 3, 0}};
	int s, wb0, lim;
	for (s = 0; s < (int)(sizeof SETS / sizeof *SETS); s++) {
		int ns = 0, total = 0;
		char code[16];
		while (ns < 4 && SETS[s][ns]) { total += SETS[s][ns]; ns++; }
		if (!VF_THOROUGH && total > 7) continue;
		for (lim = 0; lim < 2; lim++) {
			if (lim && ns < 2) continue;
			for (wb0 = 0; wb0 < 2; wb0++) {
				memset(code, '0', sizeof code); code[total - 1] = 0;
				do {
					if (!CASE_BEGIN("tx:s%d.%d.%d:w%d:t%s:lim%d", SETS[s][0], SETS[s][1], SETS[s][2], wb0, total > 1 ? code : "-", lim ? 1 : 100)) continue;
					env_install();
					tx_exec(SETS[s], ns, code, wb0, lim ? 1 : 100);
					CASE_END(1);
				} while (total > 1 && code_next(code, (size_t)total - 1, lim ? "01" : "012"));
			}
		}
	}
}

/* connection lost while a tiny request is half written (send error at every byte offset, or the peer closes after a would-block):
 * whatever was not written completely travels again, whole, on a fresh connection */
static void part_txf(void) {
	static const int SETS[][4] = {{5, 0, 0, 0}, {2, 5, 0, 0}, {3, 4, 0, 0}, {2, 2, 3, 0}, {10, 0, 0, 0}};
	static const int ACTS[] = {A_RESET, A_PIPE, A_EINTR, A_CLOSE};
	int s, ai;
	size_t off;
	for (s = 0; s < 5; s++) for (ai = 0; ai < 4; ai++) {
		int ns = 0, total = 0;
		while (ns < 4 && SETS[s][ns]) { total += SETS[s][ns]; ns++; }
		for (off = 0; off < (size_t)total; off++) {
			KSI_CTX *ctx;
			KSI_AsyncClient *c;
			KSI_AsyncHandle *h[4];
			unsigned char raw[16];
			int i, round, res, closed = 0;
			size_t j;
			long steps = 0;
			if (ACTS[ai] == A_CLOSE && off == 0) continue;
			if (!CASE_BEGIN("txf:s%d.%d.%d:%s:off%zu", SETS[s][0], SETS[s][1], SETS[s][2], ANAME[ACTS[ai]], off)) continue;
			SAMPLE(2, "%s: tiny requests, connection lost at output offset %zu (%s); the rest must travel whole on a fresh connection", vf_case_name(), off, ANAME[ACTS[ai]]);
			env_install();
			req_reset();
			ctx = dctx();
			c = dc_new(ctx, 100);
			for (i = 0; i < ns; i++) {
				for (j = 0; j < (size_t)SETS[s][i]; j++) raw[j] = (unsigned char)(0x11 * (i + 1) + 0x20 * (int)j + 0x80 * (j == 0));
				h[i] = dc_add(ctx, c, raw, (size_t)SETS[s][i]);
				vb_put(&REQ[i], raw, (size_t)SETS[s][i]);
			}
			nreq = ns;
			if (ACTS[ai] == A_CLOSE) { ev_add(&CS[0].tx, off, A_WB, 0); ev_add(&CS[0].rx, 0, A_CLOSE, off); }
			else ev_add(&CS[0].tx, off, ACTS[ai], 0);
			hook_budget = 200;
			for (round = 0; round < 6; round++) {
				res = c->dispatch(c->clientImpl); steps++;
				if (res == KSI_ASYNC_CONNECTION_CLOSED) closed++;
				else if (res != KSI_OK) vf_fail("dispatch-error", "dispatch returned 0x%x", res);
			}
			if (spin) vf_fail("spin", "more than %ld socket calls", hook_budget);
			if (!closed) vf_fail("close-not-reported", "the connection failed (%s at output offset %zu) but dispatch never reported it", ANAME[ACTS[ai]], off);
			if (sn_nconn != 2) vf_fail("no-fresh-connection", "%d connections after one failure", sn_nconn);
			else if (sn_conns[0].state != SN_CLOSED_BY_CLIENT) vf_fail("socket-not-closed", "the failed connection was not closed");
			if (wire_check("txf") == 0) {
				for (i = 0; i < ns; i++) if (sent_on[i] < 0 && h[i]->state != KSI_ASYNC_STATE_ERROR)
					vf_fail("request-lost", "request %d never travelled whole on any connection and is not in the error state (state %d)", i, h[i]->state);
			}
			vf_outcome("txf:%s:%s", ANAME[ACTS[ai]], sn_nconn == 2 ? "reconnected" : "other");
			KSI_AsyncClient_free(c);
			for (i = 0; i < ns; i++) KSI_AsyncHandle_free(h[i]);
			count_env(steps);
			CASE_END(1);
		}
	}
}

/* a request is abandoned by the client while it is half written (a would-block at output offset `off`, then the send timeout
 * elapses before the socket accepts more): the connection's byte stream now ends inside that request, so whatever is sent
 * later has to travel, whole, on a fresh connection - never appended to the fragment */
static void part_txa(void) {
	static const int SETS[][4] = {{5, 0, 0, 0}, {2, 5, 0, 0}, {3, 4, 0, 0}, {2, 2, 3, 0}, {10, 0, 0, 0}};
	int s, late;
	size_t off;
	for (s = 0; s < 5; s++) for (late = 1; late <= 2; late++) {
		int ns = 0, total = 0;
		while (ns < 4 && SETS[s][ns]) { total += SETS[s][ns]; ns++; }
		for (off = 0; off <= (size_t)total; off++) {
			KSI_CTX *ctx;
			KSI_AsyncClient *c;
			KSI_AsyncHandle *h[6];
			unsigned char raw[16];
			int i, round, res, inside = 0, nall;
			size_t j, acc = 0;
			long steps = 0;
			if (!CASE_BEGIN("txa:s%d.%d.%d:late%d:off%zu", SETS[s][0], SETS[s][1], SETS[s][2], late, off)) continue;
			SAMPLE(2, "%s: tiny requests, would-block at output offset %zu, then the send timeout of the queued requests elapses and %d more request(s) are submitted", vf_case_name(), off, late);
			env_install();
			req_reset();
			ctx = dctx();
			c = dc_new(ctx, 100);
			for (i = 0; i < ns; i++) {
				for (j = 0; j < (size_t)SETS[s][i]; j++) raw[j] = (unsigned char)(0x11 * (i + 1) + 0x20 * (int)j + 0x80 * (j == 0));
				h[i] = dc_add(ctx, c, raw, (size_t)SETS[s][i]);
				vb_put(&REQ[i], raw, (size_t)SETS[s][i]);
				if (off > acc && off < acc + (size_t)SETS[s][i]) inside = 1;
				acc += (size_t)SETS[s][i];
			}
			nreq = ns;
			if (off < (size_t)total) ev_add(&CS[0].tx, off, A_WB, 0);
			hook_budget = 300;
			res = c->dispatch(c->clientImpl); steps++;
			if (res != KSI_OK) vf_fail("wouldblock-dispatch-error", "dispatch returned 0x%x for a would-block", res);
			/* the socket stays full for longer than the send timeout */
			sn_now += (time_t)c->options[KSI_ASYNC_OPT_SND_TIMEOUT] + 1;
			for (i = 0; i < late; i++) {
				for (j = 0; j < 3; j++) raw[j] = (unsigned char)(0x0f - i + 0x20 * (int)j + 0x80 * (j == 0));
				h[ns + i] = dc_add(ctx, c, raw, 3);
				vb_put(&REQ[ns + i], raw, 3);
			}
			nall = nreq = ns + late;
			for (round = 0; round < 6; round++) {
				res = c->dispatch(c->clientImpl); steps++;
				if (res != KSI_OK && res != KSI_ASYNC_CONNECTION_CLOSED) vf_fail("dispatch-error", "dispatch returned 0x%x", res);
			}
			if (spin) vf_fail("spin", "more than %ld socket calls", hook_budget);
			if (wire_check("txa") == 0) {
				for (i = 0; i < nall; i++) {
					if (sent_on[i] < 0 && h[i]->state != KSI_ASYNC_STATE_ERROR)
						vf_fail("request-lost", "request %d never travelled whole on any connection and is not in the error state (state %d)", i, h[i]->state);
					if (sent_on[i] >= 0 && h[i]->state != KSI_ASYNC_STATE_WAITING_FOR_RESPONSE)
						vf_fail("tx-state", "request %d was written whole but its state is %d", i, h[i]->state);
				}
				for (i = ns; i < nall; i++) if (sent_on[i] < 0)
					vf_fail("late-request-not-sent", "request %d, submitted after the time-out, was not written although the peer accepts data", i);
			}
			vf_outcome("txa:%s:conns%d", inside ? "abandoned-inside-request" : "abandoned-at-boundary", sn_nconn);
			KSI_AsyncClient_free(c);
			for (i = 0; i < nall; i++) KSI_AsyncHandle_free(h[i]);
			count_env(steps);
			CASE_END(1);
		}
	}
}

/* ====================================================================== part e2e / flt: asynchronous service */
typedef struct { int returned, state, err, sig_res, own, round; } result_t;
typedef struct {
	KSI_CTX *ctx;
	KSI_AsyncService *svc;
	KSI_AsyncHandle *hd[MAXREQ];
	result_t r[MAXREQ];
	int n;
	long runs;
	int run_err;
} e2e_t;

static void e2e_open(e2e_t *E) {
	memset(E, 0, sizeof *E);
	E->ctx = ku_ctx();
	if (KSI_SigningAsyncService_new(E->ctx, &E->svc) != KSI_OK) vf_harness_error("KSI_SigningAsyncService_new");
	if (KSI_AsyncService_setEndpoint(E->svc, URI, LOGIN, KEY) != KSI_OK) vf_harness_error("KSI_AsyncService_setEndpoint");
	if (KSI_AsyncService_setOption(E->svc, KSI_ASYNC_OPT_REQUEST_CACHE_SIZE, (void *)(size_t)MAXREQ) != KSI_OK) vf_harness_error("cache size option");
	if (KSI_AsyncService_setOption(E->svc, KSI_ASYNC_OPT_MAX_REQUEST_COUNT, (void *)(size_t)100) != KSI_OK) vf_harness_error("request count option");
	req_reset();
}
static void e2e_close(e2e_t *E) {
	KSI_AsyncService_free(E->svc);
	KSI_CTX_free(E->ctx);
}
static void e2e_add(e2e_t *E) {
	KSI_DataHash *hsh = NULL;
	KSI_AsyncHandle *hd = NULL;
	int j = E->n;
	if (j >= MAXREQ) vf_harness_error("too many requests");
	if (KSI_DataHash_fromImprint(E->ctx, IMPR[j], IMPRLEN, &hsh) != KSI_OK) vf_harness_error("fromImprint");
	if (KSI_AsyncSigningHandle_new(E->ctx, hsh, 0, &hd) != KSI_OK) vf_harness_error("KSI_AsyncSigningHandle_new");
	if (KSI_AsyncService_addRequest(E->svc, hd) != KSI_OK) vf_harness_error("KSI_AsyncService_addRequest");
	if (hd->raw == NULL || hd->len == 0) vf_harness_error("handle has no serialized request");
	vb_reset(&REQ[j]); vb_put(&REQ[j], hd->raw, hd->len);
	E->hd[j] = hd;
	E->n = j + 1;
	nreq = E->n;
}
/* run until requests [0, upto) were all handed back or the horizon is reached */
static void e2e_pump(e2e_t *E, int upto, int horizon, int clock) {
	int round, j;
	for (round = 0; round < horizon; round++) {
		KSI_AsyncHandle *out = NULL;
		size_t waiting = 0;
		int res, all = 1;
		for (j = 0; j < upto; j++) if (!E->r[j].returned) all = 0;
		if (all) return;
		res = KSI_AsyncService_run(E->svc, &out, &waiting);
		E->runs++;
		if (res != KSI_OK) { E->run_err = res; return; }
		if (spin) return;
		if (out == NULL) { sn_now += clock; continue; }
		for (j = 0; j < E->n; j++) if (E->hd[j] == out && !E->r[j].returned) break;
		if (j == E->n) { vf_fail("unknown-handle", "KSI_AsyncService_run handed back a handle that is not an outstanding request"); KSI_AsyncHandle_free(out); continue; }
		E->r[j].returned = 1; E->r[j].round = round;
		KSI_AsyncHandle_getState(out, &E->r[j].state);
		KSI_AsyncHandle_getError(out, &E->r[j].err);
		if (E->r[j].state == KSI_ASYNC_STATE_RESPONSE_RECEIVED) {
			KSI_Signature *sig = NULL;
			KSI_DataHash *dh = NULL;
			E->r[j].sig_res = KSI_AsyncHandle_getSignature(out, &sig);
			if (E->r[j].sig_res == KSI_OK && sig != NULL && KSI_Signature_getDocumentHash(sig, &dh) == KSI_OK && ku_hash_eq(dh, IMPR[j], IMPRLEN)) E->r[j].own = 1;
			KSI_Signature_free(sig);
		}
		KSI_AsyncHandle_free(out);
		E->hd[j] = NULL;
	}
}

enum { X_MUST_OK = 0, X_ANY, X_MUST_NETERR };
/* judge request j: what = "first" / "later" */
static void judge_request(const e2e_t *E, int j, int expect, const char *cls, const char *what, int horizon) {
	const result_t *r = &E->r[j];
	if (!r->returned) {
		vf_fail("no-completion", "%s request %d was not handed back within %d rounds of KSI_AsyncService_run (virtual clock advanced on every idle round)", what, j, horizon);
		vf_outcome("%s:%s:stuck", cls, what);
		return;
	}
	if (r->state == KSI_ASYNC_STATE_RESPONSE_RECEIVED) {
		vf_outcome("%s:%s:ok", cls, what);
		if (r->sig_res != KSI_OK) vf_fail("response-rejected", "%s request %d: response received but KSI_AsyncHandle_getSignature failed 0x%x", what, j, r->sig_res);
		else if (!r->own) vf_fail("foreign-response", "%s request %d completed with a signature for another hash", what, j);
		if (expect == X_MUST_NETERR) vf_fail("completed-without-response", "%s request %d completed although its response was never delivered completely", what, j);
	} else if (r->state == KSI_ASYNC_STATE_ERROR) {
		vf_outcome("%s:%s:err:%x", cls, what, r->err);
		if (expect == X_MUST_OK && strcmp(what, "later") == 0) vf_fail("later-request-failed", "later request %d (submitted after the affected ones were handed back) must travel on a fresh connection and complete, but ended with error 0x%x", j, r->err);
		else if (expect == X_MUST_OK) vf_fail("request-failed", "%s request %d: nothing failed on its path (its whole response was delivered) but it ended with error 0x%x", what, j, r->err);
		else if (!is_net_error(r->err)) vf_fail("not-a-network-error", "%s request %d ended with error 0x%x, which is not a network error", what, j, r->err);
	} else {
		vf_fail("odd-state", "%s request %d handed back in state %d", what, j, r->state);
	}
	vf_obs("r%d:%d:%x:%d", j, r->state, r->err, r->round);
}

/* was the response of request j completely delivered by the environment? */
static int served(int j, int *soft) {
	int ci = SV.resp_conn[j];
	cscript *cs;
	*soft = 0;
	if (ci < 0) return 0;
	if (ci >= MAXCS) return 1;
	cs = &CS[ci];
	if (cs->fault_dir == 0) return 1;
	if (cs->fault_dir == 2) { *soft = 1; return 1; }                  /* the client itself gave the connection up while writing: unread replies may be lost */
	if (cs->fault_dir == 1) {
		if (SV.resp_end[j] <= cs->fault_off) return 1;
		if (cs->fault_act == A_EINTR) { *soft = 1; return 1; }
		return 0;
	}
	return 0;
}

typedef struct { int n1, n2, hold, clock, horizon; const char *cls; } scen_t;

static void scenario(const scen_t *sc) {
	e2e_t E;
	int j, faulted = -1, ci;
	int second_conn_dead = MAXCS > 1 && (CS[1].cmode == CM_HUP || CS[1].cmode == CM_REFUSED || CS[1].cmode == CM_NEVER);
	e2e_open(&E);
	hook_budget = 3000;
	SV.hold = sc->hold; SV.expect = sc->n1; SV.seen = 0;
	for (j = 0; j < sc->n1; j++) e2e_add(&E);
	e2e_pump(&E, sc->n1, sc->horizon, sc->clock);
	if (sc->n2 && !E.run_err && !spin) {
		SV.expect = sc->n2; SV.seen = 0; SV.hold = 0;
		for (j = 0; j < sc->n2; j++) e2e_add(&E);
		e2e_pump(&E, sc->n1 + sc->n2, sc->horizon, sc->clock);
	}
	if (E.run_err) vf_fail("run-error", "KSI_AsyncService_run returned 0x%x", E.run_err);
	if (spin) vf_fail("spin", "more than %ld socket calls in one scenario", hook_budget);
	for (ci = 0; ci < MAXCS && ci < sn_nconn; ci++) if (CS[ci].fault_dir && (CS[ci].fault_act != A_EINTR || sn_conns[ci].state == SN_CLOSED_BY_CLIENT)) faulted = ci;
	for (j = 0; j < E.n; j++) {
		int soft = 0, sv = served(j, &soft);
		/* served: the whole response was delivered -> must complete (unless the client itself had to give the connection up);
		 * not served (response cut, or the server never saw the whole request): must end with a network error */
		int expect = sv ? (soft ? X_ANY : X_MUST_OK) : X_MUST_NETERR;
		/* the first connection was refused / never came up: the requests waiting for it are ended with a network error
		 * (they are not kept for a later connection) */
		if (j < sc->n1 && (CS[0].cmode == CM_HUP || CS[0].cmode == CM_REFUSED || CS[0].cmode == CM_NEVER)) expect = X_MUST_NETERR;
		/* the connection that served the first requests went down and the NEXT one is refused / never comes up: the later requests end
		 * with a network error as well (what the client remembers of its former connection does not count) */
		if (j >= sc->n1 && second_conn_dead) { judge_request(&E, j, X_MUST_NETERR, sc->cls, "later", sc->horizon); continue; }
		judge_request(&E, j, j < sc->n1 ? expect : X_MUST_OK, sc->cls, j < sc->n1 ? "first" : "later", sc->horizon);
	}
	if (wire_check(sc->cls) == 0) {
		for (j = sc->n1; j < E.n; j++) {
			if (second_conn_dead) { if (sent_on[j] >= 0) vf_fail("data-on-dead-connection", "later request %d travelled on connection %d although no connection after the first could be established", j, sent_on[j]); continue; }
			if (sent_on[j] < 0) vf_fail("later-request-not-sent", "later request %d never travelled whole on any connection", j);
			else if (faulted >= 0 && sent_on[j] <= faulted) vf_fail("no-fresh-connection", "later request %d was written to connection %d, which had failed", j, sent_on[j]);
		}
		if (faulted < 0 && sn_nconn > 1) vf_fail("needless-reconnect", "%d connections were used although nothing failed (would-block / short counts only)", sn_nconn);
	}
	for (ci = 0; ci < MAXCS && ci < sn_nconn; ci++) {
		cscript *cs = &CS[ci];
		if (cs->fault_dir && cs->fault_act != A_EINTR && cs->fault_act != A_TIMEDOUT && sn_conns[ci].state != SN_CLOSED_BY_CLIENT && cs->cmode != CM_REFUSED)
			vf_fail("socket-not-closed", "connection %d failed (%s) but the client never closed it", ci, ANAME[cs->fault_act]);
	}
	vf_obs("conns=%d unparsed=%d", sn_nconn, SV.unparsed);
	vf_max("max_run_calls", E.runs);
	e2e_close(&E);
	count_env(E.runs);
}

/* sizes learnt from one default run (deterministic): request end offsets RO[k] (k requests back to back), response size P.
 * The run is done in a forked process and its failure is tolerated (the sizes of the unmodified library are used then), so that a
 * library that breaks even the default schedule is reported by the cases "cal:async" / "cal:blk", not as a harness error. */
#define NCAL 5
static size_t RO[MAXREQ + 1] = {0, 102, 205, 308, 411, 514}, P_SZ = 147;
static int cal_async_ok, cal_blk_ok;
static int calibrate(size_t *ro, size_t *p) {
	e2e_t E;
	int j, ok = 1;
	env_install();
	e2e_open(&E);
	SV.expect = NCAL;
	for (j = 0; j < NCAL; j++) e2e_add(&E);
	e2e_pump(&E, NCAL, 20, 1);
	ro[0] = 0;
	for (j = 0; j < NCAL; j++) {
		if (!E.r[j].returned || E.r[j].state != KSI_ASYNC_STATE_RESPONSE_RECEIVED || !E.r[j].own) ok = 0;
		ro[j + 1] = ro[j] + REQ[j].n;
		if (SV.resp_end[j] != (size_t)(j + 1) * SV.resp_end[0]) ok = 0;
	}
	*p = SV.resp_end[0];
	if (sn_nconn != 1 || sn_conns[0].out.n != ro[NCAL] || *p == 0) ok = 0;
	e2e_close(&E);
	return ok;
}
static int reqs_before(size_t off) { int k = 0; while (k < NCAL && RO[k + 1] <= off) k++; return k; }
static int req_boundary_near(size_t x, int n, size_t d) {
	int i;
	for (i = 0; i <= n; i++) { size_t s = RO[i]; if ((x >= s && x - s <= d) || (x < s && s - x <= d)) return 1; }
	return 0;
}

static void e2e_rx_case(int n, size_t a, size_t b, int wb) {
	scen_t sc = {n, 0, 0, 1, 40, "e2e:rx"};
	if (b) { if (!CASE_BEGIN("e2e:rx:n%d:cut%zu,%zu:wb%d", n, a, b, wb)) return; }
	else if (!CASE_BEGIN("e2e:rx:n%d:cut%zu:wb%d", n, a, wb)) return;
	env_install();
	ev_add(&CS[0].rx, a, wb ? A_WB : A_CUT, 0);
	if (b) ev_add(&CS[0].rx, b, wb ? A_WB : A_CUT, 0);
	scenario(&sc);
	CASE_END(1);
}
static void e2e_tx_case(int n, int hold, size_t a, size_t b, int wb) {
	scen_t sc = {n, 0, hold, 1, 40, "e2e:tx"};
	if (b) { if (!CASE_BEGIN("e2e:tx:n%d:hold%d:cut%zu,%zu:wb%d", n, hold, a, b, wb)) return; }
	else if (!CASE_BEGIN("e2e:tx:n%d:hold%d:cut%zu:wb%d", n, hold, a, wb)) return;
	SAMPLE(6, "%s: async service, %d requests, partial sends cut at output offsets %zu/%zu, would-block mode %d, server %s", vf_case_name(), n, a, b, wb, hold ? "answers after the last request" : "answers each request at once");
	env_install();
	/* wb: 0 short counts only, 1 would-block at every cut, 2 would-block twice at the first cut */
	ev_add(&CS[0].tx, a, wb ? A_WB : A_CUT, 0);
	if (wb == 2) ev_add(&CS[0].tx, a, A_WB, 0);
	if (b) ev_add(&CS[0].tx, b, wb ? A_WB : A_CUT, 0);
	scenario(&sc);
	CASE_END(1);
}

static int boundary_near(size_t x, size_t unit, int n, size_t d) {
	int i;
	for (i = 0; i <= n; i++) { size_t s = (size_t)i * unit; if ((x >= s && x - s <= d) || (x < s && s - x <= d)) return 1; }
	return 0;
}

static void part_e2e(void) {
	int n, wb, hold;
	size_t a, b;
	for (n = 1; n <= 3; n++) for (wb = 0; wb < 2; wb++) {
		size_t len = (size_t)n * P_SZ;
		for (a = 1; a < len; a++) e2e_rx_case(n, a, 0, wb);
		/* 2-cuts. thorough: every pair for 1..2 responses; for 3 responses every pair touching a PDU boundary (+-8) and every second
		 * (with would-block: every third) other pair. quick: every pair on one response, boundary pairs + a stride otherwise */
		for (a = 1; a < len; a++) for (b = a + 1; b < len; b++) {
			int keep;
			if (VF_THOROUGH) keep = n < 3 || boundary_near(a, P_SZ, n, 8) || boundary_near(b, P_SZ, n, 8) || (a + b) % (wb ? 3 : 2) == 0;
			else if (n == 1) keep = wb == 0 || a % 3 == 1;
			else keep = (boundary_near(a, P_SZ, n, 4) && boundary_near(b, P_SZ, n, 4)) || (a % 17 == 1 && b % 13 == 2);
			if (keep) e2e_rx_case(n, a, b, wb);
		}
	}
	for (n = 1; n <= 3; n++) for (hold = 0; hold < 2; hold++) for (wb = 0; wb < 3; wb++) {
		size_t len = RO[n], stride = VF_THOROUGH ? 1 : (n == 1 ? 3 : 11);
		if (n == 1 && hold) continue;
		for (a = 0; a < len; a++) { if (a == 0 && !wb) continue; e2e_tx_case(n, hold, a, 0, wb); }
		if (wb == 2) continue;
		for (a = 1; a < len; a++) for (b = a + 1; b < len; b++) {
			int keep = (req_boundary_near(a, n, 3) && req_boundary_near(b, n, 3)) || (a % stride == 0 && b % stride == 0) || (n == 1 && VF_THOROUGH);
			if (n == 3 && VF_THOROUGH && !(req_boundary_near(a, n, 3) || req_boundary_near(b, n, 3)) && !(a % 3 == 0 && b % 3 == 0)) keep = 0;
			if (keep) e2e_tx_case(n, hold, a, b, wb);
		}
	}
}

static void part_flt(void) {
	static const int RXACT[] = {A_CLOSE, A_RESET, A_EINTR, A_WB};
	static const int TXACT[] = {A_RESET, A_PIPE, A_EINTR, A_WB};
	int n1, ai, arm, hold, k, clock, m;
	size_t off;
	/* faults on the receive side at every byte offset of the response stream */
	for (ai = 0; ai < 4; ai++) for (n1 = 1; n1 <= 2; n1++) for (off = 0; off <= (size_t)n1 * P_SZ; off++) for (arm = 0; arm < 2; arm++) {
		scen_t sc = {n1, 2, 0, 1, 50, NULL};
		char cls[48];
		if (arm == 0 && off != 0) continue;            /* later offsets are reached only after the requests were written anyway */
		if (!CASE_BEGIN("flt:rx:%s:n%d:off%zu:arm%d", ANAME[RXACT[ai]], n1, off, arm)) continue;
		SAMPLE(4, "%s: async service, %d outstanding requests, recv answers %s at offset %zu of the response stream, then 2 later requests", vf_case_name(), n1, ANAME[RXACT[ai]], off);
		env_install();
		snprintf(cls, sizeof cls, "flt:rx:%s", ANAME[RXACT[ai]]); sc.cls = cls;
		ev_add(&CS[0].rx, off, RXACT[ai], arm ? RO[n1] : 0);
		scenario(&sc);
		CASE_END(1);
	}
	/* faults on the send side at every byte offset of the request stream */
	for (ai = 0; ai < 4; ai++) for (n1 = 1; n1 <= 2; n1++) for (hold = 0; hold < 2; hold++) for (off = 0; off < RO[n1]; off++) {
		scen_t sc = {n1, 2, hold, 1, 50, NULL};
		char cls[48];
		if (n1 == 1 && hold) continue;
		if (!CASE_BEGIN("flt:tx:%s:n%d:hold%d:off%zu", ANAME[TXACT[ai]], n1, hold, off)) continue;
		SAMPLE(3, "%s: async service, %d real requests, send answers %s at output offset %zu, then 2 later requests", vf_case_name(), n1, ANAME[TXACT[ai]], off);
		env_install();
		snprintf(cls, sizeof cls, "flt:tx:%s", ANAME[TXACT[ai]]); sc.cls = cls;
		ev_add(&CS[0].tx, off, TXACT[ai], 0);
		scenario(&sc);
		CASE_END(1);
	}
	/* peer close / reset while a request is half written (the writer was told would-block at `off`) */
	for (ai = 0; ai < 2; ai++) for (n1 = 1; n1 <= 2; n1++) for (off = 1; off < RO[n1]; off++) {
		scen_t sc = {n1, 2, 0, 1, 50, NULL};
		char cls[48];
		if (off == RO[1]) continue;
		if (!CASE_BEGIN("flt:mid:%s:n%d:off%zu", ANAME[RXACT[ai]], n1, off)) continue;
		env_install();
		snprintf(cls, sizeof cls, "flt:mid:%s", ANAME[RXACT[ai]]); sc.cls = cls;
		ev_add(&CS[0].tx, off, A_WB, 0);
		ev_add(&CS[0].rx, (size_t)reqs_before(off) * P_SZ, RXACT[ai], off);
		scenario(&sc);
		CASE_END(1);
	}
	/* connection establishment */
	for (m = 0; m < 7; m++) for (n1 = 1; n1 <= 2; n1++) for (clock = 0; clock < 2; clock++) for (k = 0; k < 6; k++) {
		static const char *MN[] = {"refused", "hup", "never", "pollerr", "eintr", "pending", "nowrite", "refused2"};
		static const int MM[] = {CM_REFUSED, CM_HUP, CM_NEVER, CM_POLLERR, CM_EINTR, CM_PENDING, CM_NOWRITE, CM_REFUSED};
		static const int KS[] = {1, 2, 3, 5, 9, 12};
		scen_t sc = {n1, 2, 0, clock, 50, NULL};
		char cls[48];
		int param = (m == 5 || m == 6) ? KS[k] : 0;
		if (!(m == 5 || m == 6) && k > 0) continue;
		if (m == 2 && clock == 0) continue;                                  /* a timeout needs a moving clock */
		if ((m == 5 || m == 6) && clock == 1 && KS[k] > 9) continue;          /* slower than the configured timeouts: covered by "never" */
		if (!CASE_BEGIN("flt:conn:%s%d:n%d:clk%d", MN[m], param, n1, clock)) continue;
		SAMPLE(5, "%s: connection establishment answer '%s' (parameter %d), virtual clock %s", vf_case_name(), MN[m], param, clock ? "advances 1 s per idle round" : "frozen");
		env_install();
		snprintf(cls, sizeof cls, "flt:conn:%s", MN[m]); sc.cls = cls;
		CS[0].cmode = MM[m]; CS[0].cparam = param;
		scenario(&sc);
		CASE_END(1);
	}
	/* the first connection is fine, serves its requests and is then closed by the peer; the connection attempted for the later requests is
	 * refused / hangs up / never comes up */
	for (m = 0; m < 3; m++) for (n1 = 1; n1 <= 2; n1++) {
		static const char *MN[] = {"refused", "hup", "never"};
		static const int MM[] = {CM_REFUSED, CM_HUP, CM_NEVER};
		scen_t sc = {n1, 2, 0, 1, 50, NULL};
		char cls[48];
		if (!CASE_BEGIN("flt:conn2:%s:n%d", MN[m], n1)) continue;
		env_install();
		snprintf(cls, sizeof cls, "flt:conn2:%s", MN[m]); sc.cls = cls;
		ev_add(&CS[0].rx, (size_t)n1 * P_SZ, A_CLOSE, RO[n1]);
		CS[1].cmode = MM[m];
		CS[2].cmode = MM[m];
		scenario(&sc);
		CASE_END(1);
	}
}

/* ====================================================================== part blk: blocking client */
static vbuf BLKREQ;
static size_t BR_SZ, BP_SZ;

static int blk_sign(KSI_CTX *ctx, int j, int *own) {
	KSI_DataHash *hsh = NULL, *dh = NULL;
	KSI_Signature *sig = NULL;
	int res;
	*own = 0;
	KSI_DataHash_fromImprint(ctx, IMPR[j], IMPRLEN, &hsh);
	res = KSI_Signature_signAggregated(ctx, hsh, 0, &sig);
	if (res == KSI_OK && sig == NULL) { vf_fail("ok-without-signature", "KSI_OK but no signature"); res = KSI_UNKNOWN_ERROR; }
	if (res != KSI_OK && sig != NULL) vf_fail("error-with-signature", "error 0x%x but a signature was returned", res);
	if (sig != NULL && KSI_Signature_getDocumentHash(sig, &dh) == KSI_OK && ku_hash_eq(dh, IMPR[j], IMPRLEN)) *own = 1;
	KSI_Signature_free(sig);
	KSI_DataHash_free(hsh);
	return res;
}

static int blk_calibrate(unsigned char *req, size_t cap, size_t *br, size_t *bp) {
	KSI_CTX *ctx;
	KSI_DataHash *hsh = NULL;
	KSI_Signature *sig = NULL;
	int res, ok;
	env_install();
	ctx = ku_ctx();
	KSI_CTX_setAggregator(ctx, URI, LOGIN, KEY);
	KSI_DataHash_fromImprint(ctx, IMPR[0], IMPRLEN, &hsh);
	res = KSI_Signature_signAggregated(ctx, hsh, 0, &sig);
	ok = res == KSI_OK && sig != NULL && sn_nconn == 1 && sn_conns[0].out.n > 0 && sn_conns[0].out.n <= cap;
	if (ok) { memcpy(req, sn_conns[0].out.p, sn_conns[0].out.n); *br = sn_conns[0].out.n; *bp = sn_conns[0].in.n; }
	KSI_Signature_free(sig);
	KSI_DataHash_free(hsh);
	KSI_CTX_free(ctx);
	return ok;
}

typedef struct { int async_ok, blk_ok; size_t ro[MAXREQ + 1], p, br, bp; unsigned char blkreq[512]; } cal_t;
static void calibrate_all(void) {
	int fd[2];
	pid_t pid;
	cal_t c;
	ssize_t n = 0;
	int st = 0;
	memset(&c, 0, sizeof c);
	BR_SZ = 92; BP_SZ = 147;
	if (pipe(fd) != 0) vf_harness_error("pipe");
	pid = fork();
	if (pid < 0) vf_harness_error("fork");
	if (pid == 0) {
		ssize_t w;
		close(fd[0]);
		c.async_ok = calibrate(c.ro, &c.p);
		c.blk_ok = blk_calibrate(c.blkreq, sizeof c.blkreq, &c.br, &c.bp);
		w = write(fd[1], &c, sizeof c);
		(void)w;
		_exit(0);
	}
	close(fd[1]);
	{
		char *q = (char *)&c;
		size_t got = 0;
		while (got < sizeof c && (n = read(fd[0], q + got, sizeof c - got)) > 0) got += (size_t)n;
		if (got != sizeof c) memset(&c, 0, sizeof c);
	}
	close(fd[0]);
	waitpid(pid, &st, 0);
	cal_async_ok = c.async_ok; cal_blk_ok = c.blk_ok;
	if (c.async_ok) { memcpy(RO, c.ro, sizeof RO); P_SZ = c.p; }
	if (c.blk_ok) { BR_SZ = c.br; BP_SZ = c.bp; vb_reset(&BLKREQ); vb_put(&BLKREQ, c.blkreq, c.br); }
}

/* expect: X_MUST_OK, X_ANY, X_MUST_NETERR (here: any error, no signature) */
static void blk_exec(const char *cls, int expect) {
	KSI_CTX *ctx = ku_ctx();
	int own = 0, own2 = 0, res, res2;
	hook_budget = 2000;
	KSI_CTX_setAggregator(ctx, URI, LOGIN, KEY);
	res = blk_sign(ctx, 0, &own);
	if (spin) vf_fail("spin", "more than %ld socket calls for one blocking request", hook_budget);
	if (res == KSI_OK) {
		vf_outcome("%s:success", cls);
		if (!own) vf_fail("foreign-response", "signature for another hash");
		if (expect == X_MUST_NETERR) vf_fail("signature-from-partial-data", "the response was never delivered completely (%zu of %zu bytes) but signing succeeded", sn_conns[0].in_off, sn_conns[0].in.n);
		if (sn_conns[0].out.n != BR_SZ || (cal_blk_ok && memcmp(sn_conns[0].out.p, BLKREQ.p, BR_SZ) != 0)) vf_fail("wire-not-whole-requests", "blocking client wrote %zu bytes, the request has %zu", sn_conns[0].out.n, BR_SZ);
	} else {
		vf_outcome("%s:error:%x", cls, res);
		if (expect == X_MUST_OK) vf_fail("request-failed", "only short counts / retried interruptions happened but signing failed with 0x%x (read %zu of %zu response bytes, wrote %zu of %zu request bytes)", res,
		                                 sn_conns[0].in_off, sn_conns[0].in.n, sn_conns[0].out.n, BR_SZ);
		else if (!is_net_error(res)) vf_fail("not-a-network-error", "connection fault reported as 0x%x, which is not a network error", res);
		if (sn_conns[0].out.n > BR_SZ || (cal_blk_ok && sn_conns[0].out.n > 0 && memcmp(sn_conns[0].out.p, BLKREQ.p, sn_conns[0].out.n) != 0)) vf_fail("wire-not-whole-requests", "blocking client wrote bytes that are not a prefix of the request");
	}
	if (sn_nconn >= 1 && sn_conns[0].state != SN_CLOSED_BY_CLIENT && sn_conns[0].state != SN_CREATED && CS[0].cmode != CM_REFUSED) vf_fail("socket-not-closed", "blocking client left its socket open (state %d)", sn_conns[0].state);
	/* a later request: fresh connection, whole request, success */
	res2 = blk_sign(ctx, 1, &own2);
	if (res2 != KSI_OK || !own2) vf_fail("later-request-failed", "the request after the affected one failed 0x%x", res2);
	else if (sn_nconn < 2 || sn_conns[sn_nconn - 1].out.n != BR_SZ) vf_fail("no-fresh-connection", "later request did not travel whole on a fresh connection (%d connections)", sn_nconn);
	vf_obs("res=%x res2=%x conns=%d", res, res2, sn_nconn);
	KSI_CTX_free(ctx);
	count_env(2);
}

static void part_blk(void) {
	static const int RXACT[] = {A_CLOSE, A_RESET, A_WB, A_TIMEDOUT, A_EINTR};
	static const int TXACT[] = {A_RESET, A_PIPE, A_WB, A_EINTR};
	size_t a, b;
	int pre, ai;
	for (pre = 0; pre < 2; pre++) for (a = 1; a < BR_SZ; a++) {
		if (!CASE_BEGIN("blk:tx:cut%zu:eintr%d", a, pre)) continue;
		env_install();
		ev_add(&CS[0].tx, a, pre ? A_EINTR : A_CUT, 0);
		blk_exec("blk:tx", X_MUST_OK);
		CASE_END(1);
	}
	for (a = 1; a < BR_SZ; a++) for (b = a + 1; b < BR_SZ; b++) {
		if (!VF_THOROUGH && !(a % 9 == 1 && b % 7 == 3)) continue;
		if (!CASE_BEGIN("blk:tx:cut%zu,%zu", a, b)) continue;
		env_install();
		ev_add(&CS[0].tx, a, A_CUT, 0); ev_add(&CS[0].tx, b, A_CUT, 0);
		blk_exec("blk:tx", X_MUST_OK);
		CASE_END(1);
	}
	for (pre = 0; pre < 2; pre++) for (a = 1; a < BP_SZ; a++) {
		if (!CASE_BEGIN("blk:rx:cut%zu:eintr%d", a, pre)) continue;
		env_install();
		ev_add(&CS[0].rx, a, pre ? A_EINTR : A_CUT, 0);
		blk_exec("blk:rx", X_MUST_OK);
		CASE_END(1);
	}
	for (a = 1; a < BP_SZ; a++) for (b = a + 1; b < BP_SZ; b++) {
		if (!VF_THOROUGH && !((a < 7 && b < 9) || (a % 5 == 1 && b % 7 == 3))) continue;
		if (!CASE_BEGIN("blk:rx:cut%zu,%zu", a, b)) continue;
		env_install();
		ev_add(&CS[0].rx, a, A_CUT, 0); ev_add(&CS[0].rx, b, A_CUT, 0);
		blk_exec("blk:rx", X_MUST_OK);
		CASE_END(1);
	}
	for (ai = 0; ai < 4; ai++) for (a = 0; a <= BP_SZ; a++) {
		char cls[40];
		if (a == BP_SZ && RXACT[ai] != A_CLOSE) continue;
		if (!CASE_BEGIN("blk:rxf:%s:off%zu", ANAME[RXACT[ai]], a)) continue;
		SAMPLE(7, "%s: blocking client, recv answers %s after %zu of %zu response bytes; then a second request", vf_case_name(), ANAME[RXACT[ai]], a, BP_SZ);
		env_install();
		snprintf(cls, sizeof cls, "blk:rxf:%s", ANAME[RXACT[ai]]);
		ev_add(&CS[0].rx, a, RXACT[ai], BR_SZ);
		blk_exec(cls, a == BP_SZ ? X_MUST_OK : X_MUST_NETERR);
		CASE_END(1);
	}
	for (ai = 0; ai < 3; ai++) for (a = 0; a < BR_SZ; a++) {
		char cls[40];
		if (!CASE_BEGIN("blk:txf:%s:off%zu", ANAME[TXACT[ai]], a)) continue;
		env_install();
		snprintf(cls, sizeof cls, "blk:txf:%s", ANAME[TXACT[ai]]);
		ev_add(&CS[0].tx, a, TXACT[ai], 0);
		blk_exec(cls, X_MUST_NETERR);
		CASE_END(1);
	}
	for (ai = 0; ai < 3; ai++) {
		static const char *MN[] = {"refused", "eintr", "timedout"};
		static const int MM[] = {CM_REFUSED, CM_EINTR, CM_NEVER};
		char cls[40];
		if (!CASE_BEGIN("blk:conn:%s", MN[ai])) continue;
		env_install();
		snprintf(cls, sizeof cls, "blk:conn:%s", MN[ai]);
		CS[0].cmode = MM[ai];
		blk_exec(cls, ai == 1 ? X_MUST_OK : X_MUST_NETERR);
		CASE_END(1);
	}
}

/* the default schedule (everything delivered / accepted at once) inside a case, so that its failure is a reported violation */
static void part_cal(void) {
	if (CASE_BEGIN("cal:async")) {
		scen_t sc = {3, 2, 0, 1, 40, "cal:async"};
		env_install();
		scenario(&sc);
		if (!cal_async_ok) vf_fail("default-schedule-failed", "asynchronous service: %d requests under the default schedule (every socket call succeeds completely) did not all complete with their own responses on one connection", NCAL);
		CASE_END(1);
	}
	if (CASE_BEGIN("cal:blk")) {
		env_install();
		blk_exec("cal:blk", X_MUST_OK);
		if (!cal_blk_ok) vf_fail("default-schedule-failed", "blocking client: signing under the default schedule failed");
		CASE_END(1);
	}
}

/* the time after which a blocking connection counts as timed out is the caller's setting: every way of configuring the transfer
 * time-out reaches the socket of the next request (both directions), and a server that stays silent then ends the request with a
 * network error. (The context-level setter applies to the transport clients that exist when it is called: it is used after the
 * endpoint has been configured; calling it earlier returns KSI_OK without effect, which the statement does not speak about.) */
static void part_opt(void) {
	static const int SECS[] = {1, 7, 120};
	int how, vi, silent;
	for (how = 0; how < 2; how++) for (vi = 0; vi < 3; vi++) for (silent = 0; silent < 2; silent++) {
		KSI_CTX *ctx;
		KSI_NetworkClient *tcp = NULL;
		int own = 0, res, v = SECS[vi];
		sn_conn *c;
		if (!CASE_BEGIN("opt:%s:%ds:%s", how == 0 ? "ctx-setter" : "tcp-client-setter", v, silent ? "silent-server" : "answering-server")) continue;
		env_install();
		ctx = ku_ctx();
		hook_budget = 2000;
		if (how == 1) {
			/* an application-built TCP client installed as the context's network provider */
			if (KSI_TcpClient_new(ctx, &tcp) != KSI_OK || KSI_TcpClient_setAggregator(tcp, "aggr.test", 3332, LOGIN, KEY) != KSI_OK) vf_harness_error("tcp client");
			if (KSI_TcpClient_setTransferTimeoutSeconds(tcp, v) != KSI_OK) vf_harness_error("KSI_TcpClient_setTransferTimeoutSeconds");
			if (KSI_CTX_setNetworkProvider(ctx, tcp) != KSI_OK) vf_harness_error("setNetworkProvider");
		} else {
			KSI_CTX_setAggregator(ctx, URI, LOGIN, KEY);
			if (how == 0 && KSI_CTX_setTransferTimeoutSeconds(ctx, v) != KSI_OK) vf_harness_error("KSI_CTX_setTransferTimeoutSeconds");
		}
		if (silent) ev_add(&CS[0].rx, 0, A_TIMEDOUT, BR_SZ);
		res = blk_sign(ctx, 0, &own);
		c = sn_nconn >= 1 ? &sn_conns[0] : NULL;
		if (c == NULL) vf_fail("no-connection", "the blocking request opened no connection");
		else if (!c->rcv_timeo_set || !c->snd_timeo_set || c->rcv_timeo_s != v || c->snd_timeo_s != v)
			vf_fail("timeout-option-not-applied", "transfer time-out configured as %d s, the request's socket has receive time-out %ld s%s and send time-out %ld s%s", v, c->rcv_timeo_s, c->rcv_timeo_set ? "" : " (never set)", c->snd_timeo_s, c->snd_timeo_set ? "" : " (never set)");
		if (silent) {
			vf_outcome("opt:silent:%s", res == KSI_OK ? "success" : "error");
			if (res == KSI_OK) vf_fail("signature-from-partial-data", "the server never answered but signing succeeded");
			else if (!is_net_error(res)) vf_fail("not-a-network-error", "a timed-out receive reported as 0x%x, which is not a network error", res);
		} else {
			vf_outcome("opt:answered:%s", res == KSI_OK ? "success" : "error");
			if (res != KSI_OK || !own) vf_fail("request-failed", "nothing went wrong on the connection but signing failed with 0x%x", res);
		}
		KSI_CTX_free(ctx);
		count_env(1);
		CASE_END(1);
	}
}

/* the blocking reader hands the upper layer exactly the one PDU the server wrote, whatever its shape (empty payload, one byte, the
 * 255/256 and 65535 boundaries, both header forms) and however the bytes arrive */
static vbuf RAWPDU;
static void raw_handler(const unsigned char *req, size_t n, vbuf *resp, void *user) { (void)req; (void)n; (void)user; vb_putvb(resp, &RAWPDU); }
static size_t g_rawchunk;
static long raw_recv(sn_conn *c, size_t avail, size_t cap) {
	size_t k = avail < cap ? avail : cap;
	if (g_rawchunk && k > g_rawchunk) k = g_rawchunk;
	if (k == 0) return (avail == 0 && c->peer_closed) ? 0 : -EAGAIN;
	return (long)k;
}
static void part_blkraw(void) {
	int k, chunk;
	static const size_t CH[] = {0, 1, 3, 1000};
	for (k = 0; k < NKIND; k++) for (chunk = 0; chunk < 4; chunk++) {
		KSI_CTX *ctx;
		KSI_DataHash *hsh = NULL;
		KSI_AggregationReq *areq = NULL;
		KSI_RequestHandle *rh = NULL;
		const unsigned char *raw = NULL;
		size_t rl = 0, off;
		int res;
		if (!CASE_BEGIN("blkraw:k%d:chunk%zu", k, CH[chunk])) continue;
		env_install();
		srv_install(raw_handler, NULL);
		sn.on_recv = raw_recv; sn.on_send = h_send; sn.on_connect = h_connect; sn.on_poll = h_poll; sn.after_send = h_after_send;
		g_rawchunk = CH[chunk];
		vb_reset(&RAWPDU);
		build_pdu(&RAWPDU, k, 0);
		(void)off;
		ctx = ku_ctx();
		hook_budget = 400000;
		KSI_CTX_setAggregator(ctx, URI, LOGIN, KEY);
		KSI_DataHash_fromImprint(ctx, IMPR[0], IMPRLEN, &hsh);
		if (KSI_createSignRequest(ctx, hsh, 0, &areq) != KSI_OK) vf_harness_error("createSignRequest");
		res = KSI_sendSignRequest(ctx, areq, &rh);
		if (res == KSI_OK) res = KSI_RequestHandle_perform(rh);
		if (res == KSI_OK) res = KSI_RequestHandle_getResponse(rh, &raw, &rl);
		if (res != KSI_OK) vf_fail("blocking-pdu-refused", "blocking client: a complete PDU of %zu bytes (%s header, payload %zu) delivered in chunks of %zu was not handed up: 0x%x", RAWPDU.n, KIND[k].is16 ? "4-byte" : "2-byte", KIND[k].len, CH[chunk], res);
		else if (rl != RAWPDU.n || memcmp(raw, RAWPDU.p, rl) != 0) vf_fail("blocking-pdu-differs", "blocking client: the PDU handed up has %zu bytes, the server wrote %zu", rl, RAWPDU.n);
		else vf_outcome("blkraw:%s", KIND[k].len == 0 ? "empty-payload" : KIND[k].len >= 65535 ? "largest" : "other");
		KSI_RequestHandle_free(rh);
		KSI_AggregationReq_free(areq);
		KSI_DataHash_free(hsh);
		KSI_CTX_free(ctx);
		count_env(1);
		CASE_END(1);
	}
}

static void run(void) {
	const char *only = getenv("C14_PART");     /* debugging aid: run one part only */
	imprints_init();
	calibrate_all();
	part_cal();
#define PART(name, fn) if (!only || strcmp(only, name) == 0) fn()
	PART("rxc", part_rxc);
	PART("flt", part_flt);
	PART("blk", part_blk);
	PART("opt", part_opt);
	PART("blkraw", part_blkraw);
	PART("e2e", part_e2e);
	PART("txf", part_txf);
	PART("txa", part_txa);
	PART("tx", part_tx);
	PART("rx", part_rx);
}

int main(int argc, char **argv) {
	vf_driver d = {"C14", run};
	return vf_main(argc, argv, &d);
}
