/* simnet.h - simulated socket layer + virtual clock (link-time interposition of libc calls)
 * and fake libcurl. Everything the network clients ask the environment is answered here,
 * under control of the driver (hooks / choice points). */
#ifndef SIMNET_H_
#define SIMNET_H_
#include <stddef.h>
#include <time.h>
#include "vf.h"

#define SN_FD_BASE 1000
#define SN_MAX_CONN 64

enum { SN_FREE = 0, SN_CREATED, SN_CONNECTING, SN_CONNECTED, SN_CLOSED_BY_CLIENT };

typedef struct sn_conn {
	int fd;
	int state;
	int nonblock;
	int seq;                 /* connection sequence number (order of socket() calls) */
	char host[256];
	int port;
	vbuf out;                /* every byte the client wrote on this connection */
	vbuf in;                 /* server -> client bytes queued */
	size_t in_off;           /* delivered so far */
	int peer_closed;         /* server closed: EOF after queued bytes */
	int peer_reset;          /* next recv/send fails with ECONNRESET */
	int connect_polls;       /* number of poll() calls answered "not yet writable" before connected */
	size_t parsed_out;       /* server side: bytes of out already consumed by the server logic */
	void *user;
	long rcv_timeo_s, snd_timeo_s;   /* SO_RCVTIMEO / SO_SNDTIMEO as set by the client (seconds; 0 = never set) */
	int rcv_timeo_set, snd_timeo_set;
} sn_conn;

typedef struct sn_hooks {
	/* return 0 = connected at once, >0 = connect in progress (EINPROGRESS) and becomes writable
	 * after that many polls, <0 = -errno */
	int (*on_connect)(sn_conn *c);
	/* how many of len bytes are accepted now: >=0, or -errno (-EWOULDBLOCK ...) */
	long (*on_send)(sn_conn *c, const void *buf, size_t len);
	/* called after bytes were appended to c->out: server logic */
	void (*after_send)(sn_conn *c);
	/* how many bytes (<= avail, <= cap) to deliver now: >0, 0 only if avail==0 && peer_closed, or -errno */
	long (*on_recv)(sn_conn *c, size_t avail, size_t cap);
	/* getaddrinfo result: 0 ok, else EAI_* */
	int (*on_resolve)(const char *host, const char *port);
	/* poll answer override: return -2 to use the default */
	int (*on_poll)(sn_conn *c, short events, short *revents);
} sn_hooks;

extern sn_hooks sn;
extern time_t sn_now;                /* virtual clock returned by time() */
extern long sn_time_calls;
extern int sn_nconn;                 /* connections created so far */
extern sn_conn sn_conns[SN_MAX_CONN];
extern long sn_calls;                /* number of intercepted socket-layer calls (network activity indicator) */
extern char sn_last_host[256];
extern char sn_last_port[32];

void sn_reset(void);                 /* forget all connections, clock to default */
sn_conn *sn_by_fd(int fd);
sn_conn *sn_last(void);              /* most recently created connection */
void sn_server_write(sn_conn *c, const void *d, size_t n);
void sn_server_close(sn_conn *c);

/* ---------------- fake curl ---------------- */
typedef struct fc_easy {
	int id;
	char *url;
	const void *post; long postsize; int is_post;
	size_t (*write_fn)(char *, size_t, size_t, void *);
	void *write_data;
	void *priv;
	char *errbuf;
	void *headers;
	long connect_timeout, timeout;
	char *useragent;
	long http_code;
	int in_multi, done, msg_pending;
	int result;
	vbuf sent;               /* snapshot of the POST body when the transfer started */
	/* scheduled completion */
	int have_completion; int comp_code; long comp_http; vbuf comp_data; size_t comp_chunk;
	struct fc_easy *next_all;
} fc_easy;

typedef struct fc_hooks {
	/* synchronous transfer: fill response, set *http, return CURLcode (0 = OK) */
	int (*on_perform)(fc_easy *e, vbuf *response, long *http);
	/* transfer added to the multi handle */
	void (*on_submit)(fc_easy *e);
	/* called at the start of every curl_multi_perform */
	void (*on_multi_perform)(void);
} fc_hooks;
extern fc_hooks fc;
extern int fc_multi_perform_result;   /* CURLMcode to return from curl_multi_perform (0 = OK) */
extern int fc_multi_add_result;       /* CURLMcode to return from curl_multi_add_handle */
extern long fc_calls;                 /* transfers started (network activity indicator) */
extern char fc_last_url[2048];
extern char fc_last_headers[1024];
extern int fc_easy_live;              /* live easy handles */
int fc_pending_count(void);
fc_easy *fc_pending(int i);           /* i-th transfer in the multi handle that has not completed */
/* schedule completion of a transfer: code = CURLcode, http status, body delivered through the
 * write callback in chunks of `chunk` bytes (0 = all at once) on the next curl_multi_perform */
void fc_complete(fc_easy *e, int code, long http, const void *data, size_t n, size_t chunk);
void fc_reset(void);
#endif
