/* ref_b32.c - reference base-32 DECODER, padded encoder and publication-string decoder for C17.
 * Independent of libksi: written from RFC 4648 section 6 (alphabet A-Z 2-7, most significant bit
 * first, '=' padding to a multiple of 8 symbols) and from the publication string layout
 * (8-byte big-endian time | imprint = algorithm id + digest | CRC-32 of both, big-endian).
 * No table shared with the library: symbol values are computed from character ranges.
 * Prototypes are repeated in c17_pubstring.c (this file has no header of its own). */
#include "ref.h"
#include <string.h>

/* mode bits of ref_b32_decode / ref_pub_decode */
#define RB_FOLD 1          /* lowercase a-z count as the corresponding uppercase symbol */
#define RB_SKIP_FOREIGN 2  /* characters that are neither symbol, '-' nor '=' are skipped (else: rejected) */

/* value of an alphabet symbol, -1 separator, -2 pad/terminator, -3 lowercase letter, -4 foreign */
int ref_b32_class(unsigned char c) {
	if (c >= 'A' && c <= 'Z') return c - 'A';
	if (c >= '2' && c <= '7') return 26 + (c - '2');
	if (c == '-') return -1;
	if (c == '=') return -2;
	if (c >= 'a' && c <= 'z') return -3;
	return -4;
}

/* Decodes s[0..slen). '-' is a separator (skipped), '=' ends the data. Returns 0 on success, -1 when a
 * character outside the alphabet is met (and not skipped by the mode), -7 when out is too small.
 * *nbytes = floor(5*symbols/8) bytes written; *nsym = number of data symbols; *left_bits = number of
 * bits (0..7) after the last whole byte, *left_val their value. */
int ref_b32_decode(const char *s, size_t slen, int mode, unsigned char *out, size_t cap,
                   size_t *nbytes, size_t *nsym, int *left_bits, unsigned *left_val) {
	uint64_t acc = 0;
	int nb = 0;
	size_t i, o = 0, syms = 0;
	for (i = 0; i < slen; i++) {
		int v = ref_b32_class((unsigned char)s[i]);
		if (v == -1) continue;
		if (v == -2) break;
		if (v == -3) {
			if (mode & RB_FOLD) v = s[i] - 'a';
			else if (mode & RB_SKIP_FOREIGN) continue;
			else return -1;
		}
		if (v == -4) {
			if (mode & RB_SKIP_FOREIGN) continue;
			return -1;
		}
		acc = ((acc << 5) | (uint64_t)v) & 0xffffu;
		nb += 5;
		syms++;
		if (nb >= 8) {
			if (o >= cap) return -7;
			out[o++] = (unsigned char)((acc >> (nb - 8)) & 0xffu);
			nb -= 8;
		}
	}
	if (nbytes) *nbytes = o;
	if (nsym) *nsym = syms;
	if (left_bits) *left_bits = nb;
	if (left_val) *left_val = (unsigned)(acc & ((1u << nb) - 1u));
	return 0;
}

/* RFC 4648 encoder with padding: symbols as ref_b32_encode (ref.c), then '=' up to a multiple of 8
 * symbols; no separators. Used only to cross-check the symbol part and to know the pad count. */
size_t ref_b32_pad_count(size_t nbytes) {
	size_t syms = (nbytes * 8 + 4) / 5;
	return (8 - syms % 8) % 8;
}

/* Publication string decoder. Returns 0 and fills t / imprint / ilen, or
 *  -1 character outside the alphabet, -2 fewer than 13 bytes, -3 CRC mismatch, -4 unknown algorithm,
 *  -5 byte length != 8 + 1 + digest length + 4, -6 all of the former fine but the string carries more
 *     symbols than needed for that many bytes (a whole surplus symbol: wrong total length). */
int ref_pub_decode(const char *s, size_t slen, int mode, uint64_t *t, unsigned char imprint[RH_MAX_IMPRINT], size_t *ilen) {
	unsigned char b[512];
	size_t n = 0, syms = 0;
	int left = 0, rc, i, L;
	uint32_t c, want;
	rc = ref_b32_decode(s, slen, mode, b, sizeof b, &n, &syms, &left, NULL);
	if (rc != 0) return rc == -7 ? -5 : -1;
	if (n < 13) return -2;
	c = ref_crc32(b, n - 4);
	want = ((uint32_t)b[n - 4] << 24) | ((uint32_t)b[n - 3] << 16) | ((uint32_t)b[n - 2] << 8) | (uint32_t)b[n - 1];
	if (c != want) return -3;
	L = ref_hash_len(b[8]);
	if (L == 0) return -4;
	if (n != (size_t)(8 + 1 + L + 4)) return -5;
	if (left >= 5) return -6;
	if (t) {
		uint64_t x = 0;
		for (i = 0; i < 8; i++) x = (x << 8) | b[i];
		*t = x;
	}
	if (imprint) memcpy(imprint, b + 8, (size_t)L + 1);
	if (ilen) *ilen = (size_t)L + 1;
	return 0;
}
