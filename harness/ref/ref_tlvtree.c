/* ref_tlvtree.c - reference TLV *tree* model for C09 (independent of libksi; libc only).
 *
 * A tree node is either a raw payload or an ordered list of children. Sizes are computed without
 * any truncation, so the model can say whether a tree fits the 16-bit length field at every node.
 * The decoder expands a byte string into a tree down to a given depth wherever the payload is an
 * exact tiling of elements.
 *
 * The declarations are exposed to the driver by
 *     #define REF_TLVTREE_DECL_ONLY
 *     #include "ref/ref_tlvtree.c"
 * (there is deliberately no separate header), the implementation is compiled as its own unit. */
#ifndef REF_TLVTREE_DECLS_
#define REF_TLVTREE_DECLS_
#include <stddef.h>
#include "../vf.h"

typedef struct rnode {
	unsigned tag;
	int nc, fw;
	int nested;                    /* 0: raw payload; 1: list of children */
	int attempt;                   /* the level is to be expanded by the implementation under test */
	int nchild;
	struct rnode *first, *last, *next;
	const unsigned char *raw;      /* payload bytes (leaf: source; after rt_bind / rt_decode: all nodes) */
	size_t raw_len;
	/* computed by rt_layout (canonical encoding; sizes are NOT truncated) */
	size_t content, hdr, off;
	/* header length as found in the input (rt_decode only) */
	size_t in_hdr;
} rnode;

typedef struct { unsigned tag; int nc, fw; size_t hdr, len; } rhdr;

void   rt_reset(void);                                   /* free all nodes */
rnode *rt_leaf(unsigned tag, int nc, int fw, const unsigned char *raw, size_t len);
rnode *rt_nested(unsigned tag, int nc, int fw);
void   rt_add(rnode *parent, rnode *child);
void   rt_layout(rnode *root);
/* 1 if every node (root excluded when skip_root) has content <= 0xffff and tag <= 0x1fff */
int    rt_fits(const rnode *root, int skip_root);
/* canonical encoding (two-byte header iff tag <= 0x1f and content <= 0xff). with_root_header = 0
 * writes the content of the root only. returns -1 (nothing useful written) if a header that has
 * to be written cannot carry its length */
int    rt_encode(const rnode *root, vbuf *out, int with_root_header);
/* make raw/raw_len of every node point at its payload inside the encoding produced by rt_encode(.., 1) */
void   rt_bind(rnode *root, const unsigned char *enc);
/* header at p: 0 = complete element inside n bytes; 1 = header complete but payload exceeds n; -1 = header incomplete */
int    rt_hdr(const unsigned char *p, size_t n, rhdr *h);
/* number of elements that exactly tile [p, p+n) (0 for n == 0), -1 if they do not */
long   rt_tile(const unsigned char *p, size_t n);
/* NULL unless [p,p+n) is exactly one element. levels are expanded while depth > 0 */
rnode *rt_decode(const unsigned char *p, size_t n, int depth);
const unsigned char *rt_pat(unsigned seed);              /* window into a fixed pseudo-random filler, >= 70300 bytes */
void   rt_describe(const rnode *n, char *buf, size_t cap);
#endif /* REF_TLVTREE_DECLS_ */

#ifndef REF_TLVTREE_DECL_ONLY
#include <stdlib.h>
#include <string.h>
#include <stdio.h>

static rnode **g_nodes;
static size_t g_nnodes, g_cap;

void rt_reset(void) {
	size_t i;
	for (i = 0; i < g_nnodes; i++) free(g_nodes[i]);
	g_nnodes = 0;
}

static rnode *node_new(void) {
	rnode *n = (rnode *)calloc(1, sizeof *n);
	if (!n) vf_harness_error("ref_tlvtree: out of memory");
	if (g_nnodes == g_cap) {
		g_cap = g_cap ? g_cap * 2 : 64;
		g_nodes = (rnode **)realloc(g_nodes, g_cap * sizeof *g_nodes);
		if (!g_nodes) vf_harness_error("ref_tlvtree: out of memory");
	}
	g_nodes[g_nnodes++] = n;
	return n;
}

rnode *rt_leaf(unsigned tag, int nc, int fw, const unsigned char *raw, size_t len) {
	rnode *n = node_new();
	n->tag = tag; n->nc = !!nc; n->fw = !!fw;
	n->raw = raw; n->raw_len = len;
	return n;
}

rnode *rt_nested(unsigned tag, int nc, int fw) {
	rnode *n = node_new();
	n->tag = tag; n->nc = !!nc; n->fw = !!fw;
	n->nested = 1; n->attempt = 1;
	return n;
}

void rt_add(rnode *p, rnode *c) {
	if (!p->nested) vf_harness_error("ref_tlvtree: rt_add on a raw node");
	c->next = NULL;
	if (p->last) p->last->next = c; else p->first = c;
	p->last = c;
	p->nchild++;
}

static void layout(rnode *n, size_t off) {
	n->off = off;
	if (n->nested) {
		rnode *c;
		size_t sum = 0;
		/* children are laid out relative to the payload start; the header size of this node is not
		 * known before the content is, so do two passes */
		for (c = n->first; c; c = c->next) { layout(c, 0); sum += c->hdr + c->content; }
		n->content = sum;
	} else {
		n->content = n->raw_len;
	}
	n->hdr = (n->tag > 0x1f || n->content > 0xff) ? 4 : 2;
	if (n->nested) {
		rnode *c;
		size_t o = off + n->hdr;
		for (c = n->first; c; c = c->next) { layout(c, o); o += c->hdr + c->content; }
	}
}

void rt_layout(rnode *root) { layout(root, 0); }

int rt_fits(const rnode *n, int skip_root) {
	const rnode *c;
	if (!skip_root && (n->content > 0xffff || n->tag > 0x1fff)) return 0;
	for (c = n->first; c; c = c->next) if (!rt_fits(c, 0)) return 0;
	return 1;
}

static int encode(const rnode *n, vbuf *out, int with_header) {
	const rnode *c;
	if (with_header) {
		unsigned char h[4];
		unsigned fl = (n->nc ? 0x40u : 0u) | (n->fw ? 0x20u : 0u);
		if (n->content > 0xffff || n->tag > 0x1fff) return -1;
		if (n->hdr == 2) {
			h[0] = (unsigned char)(fl | n->tag);
			h[1] = (unsigned char)n->content;
			vb_put(out, h, 2);
		} else {
			h[0] = (unsigned char)(0x80u | fl | (n->tag >> 8));
			h[1] = (unsigned char)(n->tag & 0xff);
			h[2] = (unsigned char)(n->content >> 8);
			h[3] = (unsigned char)(n->content & 0xff);
			vb_put(out, h, 4);
		}
	}
	if (!n->nested) {
		vb_put(out, n->raw, n->raw_len);
		return 0;
	}
	for (c = n->first; c; c = c->next) if (encode(c, out, 1) != 0) return -1;
	return 0;
}

int rt_encode(const rnode *root, vbuf *out, int with_root_header) {
	return encode(root, out, with_root_header);
}

void rt_bind(rnode *n, const unsigned char *enc) {
	rnode *c;
	n->raw = enc + n->off + n->hdr;
	n->raw_len = n->content;
	n->in_hdr = n->hdr;
	for (c = n->first; c; c = c->next) rt_bind(c, enc);
}

int rt_hdr(const unsigned char *p, size_t n, rhdr *h) {
	memset(h, 0, sizeof *h);
	if (n < 2) return -1;
	h->nc = (p[0] & 0x40) != 0;
	h->fw = (p[0] & 0x20) != 0;
	if (p[0] & 0x80) {
		if (n < 4) return -1;
		h->tag = ((unsigned)(p[0] & 0x1f) << 8) | p[1];
		h->hdr = 4;
		h->len = ((size_t)p[2] << 8) | p[3];
	} else {
		h->tag = p[0] & 0x1f;
		h->hdr = 2;
		h->len = p[1];
	}
	return (h->hdr + h->len <= n) ? 0 : 1;
}

long rt_tile(const unsigned char *p, size_t n) {
	long k = 0;
	while (n > 0) {
		rhdr h;
		if (rt_hdr(p, n, &h) != 0) return -1;
		p += h.hdr + h.len;
		n -= h.hdr + h.len;
		k++;
	}
	return k;
}

rnode *rt_decode(const unsigned char *p, size_t n, int depth) {
	rhdr h;
	rnode *nd;
	if (rt_hdr(p, n, &h) != 0 || h.hdr + h.len != n) return NULL;
	nd = node_new();
	nd->tag = h.tag; nd->nc = h.nc; nd->fw = h.fw;
	nd->raw = p + h.hdr; nd->raw_len = h.len; nd->in_hdr = h.hdr;
	nd->attempt = depth > 0;
	if (depth > 0 && rt_tile(nd->raw, nd->raw_len) >= 0) {
		const unsigned char *q = nd->raw;
		size_t left = nd->raw_len;
		nd->nested = 1;
		while (left > 0) {
			rhdr ch;
			rnode *c;
			rt_hdr(q, left, &ch);
			c = rt_decode(q, ch.hdr + ch.len, depth - 1);
			if (!c) vf_harness_error("ref_tlvtree: tiling child does not decode");
			rt_add(nd, c);
			q += ch.hdr + ch.len;
			left -= ch.hdr + ch.len;
		}
	}
	return nd;
}

#define PAT_SIZE (70000 + 600)
const unsigned char *rt_pat(unsigned seed) {
	static unsigned char *pat;
	if (!pat) {
		size_t i;
		uint32_t x = 0x2545F491u;
		pat = (unsigned char *)malloc(PAT_SIZE);
		if (!pat) vf_harness_error("ref_tlvtree: out of memory");
		for (i = 0; i < PAT_SIZE; i++) {
			x ^= x << 13; x ^= x >> 17; x ^= x << 5;
			pat[i] = (unsigned char)(x >> 11);
		}
	}
	return pat + (seed % 512);
}

void rt_describe(const rnode *n, char *buf, size_t cap) {
	size_t o = strlen(buf);
	const rnode *c;
	if (o + 40 >= cap) { if (o + 4 < cap) strcpy(buf + o, ".."); return; }
	o += (size_t)snprintf(buf + o, cap - o, "%x%s%s", n->tag, n->nc ? "n" : "", n->fw ? "f" : "");
	if (!n->nested) { snprintf(buf + o, cap - o, ":%zu", n->raw_len); return; }
	snprintf(buf + o, cap - o, "[");
	for (c = n->first; c; c = c->next) {
		rt_describe(c, buf, cap);
		o = strlen(buf);
		if (o + 2 < cap && c->next) strcpy(buf + o, ",");
	}
	o = strlen(buf);
	if (o + 2 < cap) strcpy(buf + o, "]");
}
#endif /* REF_TLVTREE_DECL_ONLY */
