/* ref_sig.c - reference model of a KSI signature (see ref_sig.h). Written from the KSI format
 * (element tags as published in the KSI specification) and the property statements. */
#include "ref_sig.h"
#include <string.h>
#include <stdlib.h>
#include <stdio.h>


/* ------------------------------------------------------------------ construction */
void rs_default_params(rs_params *p) {
	memset(p, 0, sizeof *p);
	p->doc_alg = RH_SHA256; p->doc_seed = 1;
	p->nchains = 1; p->nlinks[0] = 1; p->chain_alg[0] = RH_SHA256;
	p->aggr_time = 1500000000ULL;
	p->pub_time = 1500076800ULL;
	p->tail = 1;
	p->sib_alg = RH_SHA256;
}

static void link_from_desc(rlink *l, unsigned d, unsigned seed, int sib_alg) {
	int dir = d & 1, kind = (d >> 1) & 3;
	uint64_t corr = d >> 3;
	switch (kind) {
		case 0: ref_link_imprint(l, dir, sib_alg, seed, corr); break;
		case 1: ref_link_legacy(l, dir, "GT :: test", corr); break;
		case 2: ref_link_meta(l, dir, "client-a", 1, seed & 1, corr); break;
		default: ref_link_meta(l, dir, "cl", 0, 0, corr); break;
	}
}

static void canonical_indices(rsig *s) {
	uint64_t shape[RS_MAXCH];
	int i, j;
	for (i = 0; i < s->nchains; i++) {
		int dirs[RS_MAXLINKS];
		for (j = 0; j < s->ch[i].nlinks; j++) dirs[j] = s->ch[i].links[j].is_left;
		shape[i] = ref_shape_index(dirs, s->ch[i].nlinks);
	}
	for (i = 0; i < s->nchains; i++) {
		int k = 0;
		for (j = s->nchains - 1; j >= i; j--) s->ch[i].index[k++] = shape[j];
		s->ch[i].nindex = k;
	}
}

int rs_chain_output(const rsig *s, int i, int start_level, unsigned char out[RH_MAX_IMPRINT], size_t *out_len, int *out_level) {
	const rs_chain *c = &s->ch[i];
	if (c->alg > 0xff || !ref_backend_supports((int)c->alg)) return -2;
	return ref_chain_aggregate((int)c->alg, c->input, c->input_len, start_level, c->links, (size_t)c->nlinks, out, out_len, out_level);
}

int rs_aggr_root(const rsig *s, int start_level, unsigned char out[RH_MAX_IMPRINT], size_t *out_len, int *out_level) {
	int i, lvl = start_level, r;
	for (i = 0; i < s->nchains; i++) {
		r = rs_chain_output(s, i, lvl, out, out_len, &lvl);
		if (r != 0) return r;
	}
	if (out_level) *out_level = lvl;
	return 0;
}

int rs_cal_root(const rsig *s, unsigned char out[RH_MAX_IMPRINT], size_t *out_len) {
	int i;
	if (!s->has_cal || s->ncal == 0) return -1;
	if (!ref_backend_supports(s->cal_input[0])) return -2;
	for (i = 0; i < s->ncal; i++) if (s->cal[i].is_left && !ref_backend_supports(s->cal[i].sib[0])) return -2;
	return ref_cal_aggregate(s->cal_input, s->cal_input_len, s->cal, (size_t)s->ncal, out, out_len);
}

int rs_rfc_output(const rsig *s, unsigned char out[RH_MAX_IMPRINT], size_t *out_len) {
	unsigned char t1[RH_MAX_IMPRINT], t2[RH_MAX_IMPRINT];
	size_t l1, l2, l3;
	const rs_rfc3161 *r = &s->rfc;
	int out_alg;
	if (r->tst_alg > 0xff || r->sig_alg > 0xff) return -2;
	if (!ref_backend_supports((int)r->tst_alg) || !ref_backend_supports((int)r->sig_alg)) return -2;
	if (s->nchains < 1 || s->ch[0].input_len < 1) return -2;
	out_alg = s->ch[0].input[0];
	if (!ref_backend_supports(out_alg)) return -2;
	/* TSTInfo hash = H(prefix || input digest || suffix); signed attributes hash likewise over it; the
	 * record's output is the hash, under the algorithm of the first chain's input hash, of the signed
	 * attributes hash IMPRINT */
	l1 = ref_imprint2((int)r->tst_alg, r->tst_prefix, r->tst_prefix_len, r->input + 1, r->input_len - 1, r->tst_suffix, r->tst_suffix_len, t1);
	if (!l1) return -2;
	l2 = ref_imprint2((int)r->sig_alg, r->sig_prefix, r->sig_prefix_len, t1 + 1, l1 - 1, r->sig_suffix, r->sig_suffix_len, t2);
	if (!l2) return -2;
	l3 = ref_imprint(out_alg, t2, l2, out);
	if (!l3) return -2;
	*out_len = l3;
	return 0;
}

/* Path of second t in the calendar tree published at P, with sibling values taken from a virtual
 * calendar: the value of a subtree is a deterministic function of the time range it covers, so two
 * paths through the same calendar (e.g. before and after extending) agree on shared siblings. */
int rs_calendar_links(uint64_t t, uint64_t P, rlink *out, int max) {
	rlink tmp[130];
	int n = 0, i;
	uint64_t r = P, base = 0;
	if (t > P) return -1;
	while (r > 0) {
		uint64_t h = 1, lo, hi;
		int is_left;
		while ((r >> 1) >= h) h <<= 1;
		if (t < h) { is_left = 1; lo = base + h; hi = base + r; r = h - 1; }
		else { is_left = 0; lo = base; hi = base + h - 1; t -= h; r -= h; base += h; }
		if (n >= 129) return -1;
		ref_link_imprint(&tmp[n], is_left, RH_SHA256, (unsigned)(vf_fnv(&lo, sizeof lo, vf_fnv(&hi, sizeof hi, 0)) & 0xffffffffu), 0);
		n++;
	}
	if (n > max) return -1;
	for (i = 0; i < n; i++) out[i] = tmp[n - 1 - i];
	return n;
}

int rs_fix(rsig *s, unsigned what) {
	int i, rc = 0;
	if ((what & RS_FIX_RFC) && s->has_rfc) {
		unsigned char o[RH_MAX_IMPRINT]; size_t ol = 0;
		if (rs_rfc_output(s, o, &ol) == 0) { memcpy(s->ch[0].input, o, ol); s->ch[0].input_len = ol; } else rc = -1;
	}
	if (what & RS_FIX_INPUTS) {
		int lvl = 0;
		for (i = 0; i + 1 < s->nchains; i++) {
			unsigned char o[RH_MAX_IMPRINT]; size_t ol = 0;
			if (rs_chain_output(s, i, lvl, o, &ol, &lvl) != 0) { rc = -1; break; }
			memcpy(s->ch[i + 1].input, o, ol); s->ch[i + 1].input_len = ol;
		}
	}
	if (what & RS_FIX_INDEX) {
		canonical_indices(s);
		if (s->has_rfc) { memcpy(s->rfc.index, s->ch[0].index, sizeof s->rfc.index); s->rfc.nindex = s->ch[0].nindex; }
	}
	if ((what & RS_FIX_CALSHAPE) && s->has_cal) {
		int n = rs_calendar_links(s->cal_has_aggr ? s->cal_aggr_time : s->cal_pub_time, s->cal_pub_time, s->cal, RS_MAXCAL);
		if (n < 0) rc = -1;
		else s->ncal = n;
	}
	if ((what & RS_FIX_CAL_IN) && s->has_cal) {
		unsigned char o[RH_MAX_IMPRINT]; size_t ol = 0;
		if (rs_aggr_root(s, 0, o, &ol, NULL) == 0) { memcpy(s->cal_input, o, ol); s->cal_input_len = ol; } else rc = -1;
	}
	if ((what & RS_FIX_TAIL) && s->has_cal) {
		unsigned char o[RH_MAX_IMPRINT]; size_t ol = 0;
		if (rs_cal_root(s, o, &ol) == 0) {
			if (s->has_pub) { memcpy(s->pub_hash, o, ol); s->pub_hash_len = ol; s->pub_time = s->cal_pub_time; }
			if (s->has_auth) { memcpy(s->auth_hash, o, ol); s->auth_hash_len = ol; s->auth_time = s->cal_pub_time; }
		} else rc = -1;
	}
	return rc;
}

void rs_build(rsig *s, const rs_params *p) {
	int i, j;
	unsigned seed = 100;
	memset(s, 0, sizeof *s);
	s->nchains = p->nchains;
	for (i = 0; i < p->nchains; i++) {
		rs_chain *c = &s->ch[i];
		c->aggr_time = p->aggr_time;
		c->alg = (uint64_t)p->chain_alg[i];
		c->nlinks = p->nlinks[i];
		for (j = 0; j < c->nlinks; j++) link_from_desc(&c->links[j], p->link_desc[i][j], seed++, p->sib_alg);
	}
	if (p->with_rfc3161) {
		rs_rfc3161 *r = &s->rfc;
		s->has_rfc = 1;
		r->aggr_time = p->aggr_time;
		r->input_len = ref_fake_imprint(p->doc_alg, p->doc_seed, r->input);
		memcpy(r->tst_prefix, "\x30\x31\x02\x01\x01", 5); r->tst_prefix_len = 5;
		memcpy(r->tst_suffix, "\x02\x03\x01\x02\x03", 5); r->tst_suffix_len = 5;
		memcpy(r->sig_prefix, "\x31\x10\x30\x0e", 4); r->sig_prefix_len = 4;
		memcpy(r->sig_suffix, "\x05\x00", 2); r->sig_suffix_len = 2;
		r->tst_alg = RH_SHA256; r->sig_alg = RH_SHA256;
		s->ch[0].input[0] = (unsigned char)p->doc_alg;   /* algorithm of the record's output hash */
		s->ch[0].input_len = 1;
	} else {
		s->ch[0].input_len = ref_fake_imprint(p->doc_alg, p->doc_seed, s->ch[0].input);
	}
	if (p->tail >= 1) {
		s->has_cal = 1;
		s->cal_pub_time = p->pub_time;
		s->cal_has_aggr = 1;
		s->cal_aggr_time = p->aggr_time;
		if (p->tail == 2) { s->has_pub = 1; s->pub_nrefs = 1; }
		if (p->tail == 3) {
			s->has_auth = 1;
			strcpy(s->auth_sigtype, "1.2.840.113549.1.1.11");
			for (i = 0; i < 256; i++) s->auth_sig[i] = (unsigned char)(i * 7 + 3);
			s->auth_sig_len = 256;
			memcpy(s->auth_certid, "\xa4\x2c\x61\xad", 4); s->auth_certid_len = 4;
		}
	}
	if (rs_fix(s, RS_FIX_ALL) != 0) { fprintf(stderr, "rs_build: parameters do not yield a computable signature\n"); exit(2); }
}

/* ------------------------------------------------------------------ serialization */
void rs_serialize_chain(const rs_chain *c, vbuf *out) {
	vbuf b;
	int i;
	vb_init(&b);
	rtlv_put_u64(&b, 0x02, c->aggr_time);
	for (i = 0; i < c->nindex; i++) rtlv_put_u64(&b, 0x03, c->index[i]);
	if (c->has_input_data) rtlv_put(&b, 0x04, 0, 0, c->input_data, c->input_data_len, 0);
	rtlv_put(&b, 0x05, 0, 0, c->input, c->input_len, 0);
	rtlv_put_u64(&b, 0x06, c->alg);
	for (i = 0; i < c->nlinks; i++) ref_link_tlv(&b, &c->links[i]);
	rtlv_put(out, 0x0801, 0, 0, b.p, b.n, 0);
	vb_free(&b);
}

void rs_serialize_cal(const rsig *s, vbuf *out) {
	vbuf b;
	int i;
	vb_init(&b);
	rtlv_put_u64(&b, 0x01, s->cal_pub_time);
	if (s->cal_has_aggr) rtlv_put_u64(&b, 0x02, s->cal_aggr_time);
	rtlv_put(&b, 0x05, 0, 0, s->cal_input, s->cal_input_len, 0);
	for (i = 0; i < s->ncal; i++) rtlv_put(&b, s->cal[i].is_left ? 0x07 : 0x08, 0, 0, s->cal[i].sib, s->cal[i].sib_len, 0);
	rtlv_put(out, 0x0802, 0, 0, b.p, b.n, 0);
	vb_free(&b);
}

static void put_pubdata(vbuf *out, uint64_t t, const unsigned char *h, size_t hl, int fw) {
	vbuf b;
	vb_init(&b);
	rtlv_put_u64(&b, 0x02, t);
	rtlv_put(&b, 0x04, 0, 0, h, hl, 0);
	rtlv_put(out, 0x10, 0, fw, b.p, b.n, 0);
	vb_free(&b);
}

void rs_serialize(const rsig *s, vbuf *out) {
	vbuf b, t;
	int i;
	vb_init(&b); vb_init(&t);
	for (i = 0; i < s->nchains; i++) rs_serialize_chain(&s->ch[i], &b);
	if (s->has_cal) rs_serialize_cal(s, &b);
	if (s->has_pub) {
		vb_reset(&t);
		put_pubdata(&t, s->pub_time, s->pub_hash, s->pub_hash_len, 0);
		for (i = 0; i < s->pub_nrefs; i++) rtlv_put_str(&t, 0x09, "ref: test publication");
		rtlv_put(&b, 0x0803, 0, 0, t.p, t.n, 0);
	}
	if (s->has_auth) {
		vbuf sd;
		vb_init(&sd);
		vb_reset(&t);
		put_pubdata(&t, s->auth_time, s->auth_hash, s->auth_hash_len, 1);
		rtlv_put_str(&sd, 0x01, s->auth_sigtype);
		rtlv_put(&sd, 0x02, 0, 0, s->auth_sig, s->auth_sig_len, 0);
		rtlv_put(&sd, 0x03, 0, 0, s->auth_certid, s->auth_certid_len, 0);
		rtlv_put(&t, 0x0b, 0, 0, sd.p, sd.n, 0);
		rtlv_put(&b, 0x0805, 0, 0, t.p, t.n, 0);
		vb_free(&sd);
	}
	if (s->has_rfc) {
		const rs_rfc3161 *r = &s->rfc;
		vb_reset(&t);
		rtlv_put_u64(&t, 0x02, r->aggr_time);
		for (i = 0; i < r->nindex; i++) rtlv_put_u64(&t, 0x03, r->index[i]);
		rtlv_put(&t, 0x05, 0, 0, r->input, r->input_len, 0);
		rtlv_put(&t, 0x10, 0, 0, r->tst_prefix, r->tst_prefix_len, 0);
		rtlv_put(&t, 0x11, 0, 0, r->tst_suffix, r->tst_suffix_len, 0);
		rtlv_put_u64(&t, 0x12, r->tst_alg);
		rtlv_put(&t, 0x13, 0, 0, r->sig_prefix, r->sig_prefix_len, 0);
		rtlv_put(&t, 0x14, 0, 0, r->sig_suffix, r->sig_suffix_len, 0);
		rtlv_put_u64(&t, 0x15, r->sig_alg);
		rtlv_put(&b, 0x0806, 0, 0, t.p, t.n, 0);
	}
	rtlv_put(out, 0x0800, 0, 0, b.p, b.n, 0);
	vb_free(&b); vb_free(&t);
}

/* ------------------------------------------------------------------ strict reference parser */
static int plain(const rtlv *t) { return !t->nc && !t->fw; }
static int get_imprint(const rtlv *t, unsigned char *out, size_t *ol) {
	if (t->len < 1 || t->len > RH_MAX_IMPRINT) return -1;
	if (ref_hash_len(t->val[0]) == 0 || (size_t)ref_hash_len(t->val[0]) + 1 != t->len) return -1;
	memcpy(out, t->val, t->len);
	*ol = t->len;
	return 0;
}
static int valid_legacy(const unsigned char *v, size_t n) {
	size_t i;
	if (n != 29 || v[0] != 3 || v[1] != 0 || v[2] > 25) return 0;
	for (i = 3u + v[2]; i < 29; i++) if (v[i]) return 0;
	return 1;
}
static int valid_cstr(const unsigned char *v, size_t n) {
	size_t i;
	if (n == 0 || v[n - 1] != 0) return 0;
	for (i = 0; i + 1 < n; i++) if (v[i] == 0 || v[i] >= 0x80) return 0;   /* ASCII only in the strict reference */
	return 1;
}
static int parse_meta(const rtlv *t) {
	/* payload must tile; elements 1e (padding), 01 client id (mandatory, once), 02, 03, 04 at most once */
	size_t off = 0;
	int seen[0x20] = {0};
	while (off < t->len) {
		rtlv e;
		uint64_t v;
		if (rtlv_read(t->val + off, t->len - off, &e) != 0) return -1;
		if (e.tag > 0x1f) return -1;
		/* an element inside hashed metadata may be coded with the long header although the short one would do: the record is hashed
		 * as it is carried; only the padding element has to be a TLV8 (a consistency condition, see meta_padding_bad) */
		if (seen[e.tag]++) return -1;
		switch (e.tag) {
			case 0x1e: if (off != 0) return -1; /* positional constraint of the schema: padding comes first */ break;
			case 0x01: case 0x02: if (!plain(&e) || !valid_cstr(e.val, e.len)) return -1; break;
			case 0x03: case 0x04: if (!plain(&e) || rtlv_get_u64(&e, &v) != 0) return -1; break;
			default: return -1;
		}
		off += e.hdr + e.len;
	}
	if (seen[0x01] != 1) return -1;
	return 0;
}
static int parse_link(const rtlv *t, rlink *l) {
	size_t off = 0;
	int have = 0, have_lc = 0;
	memset(l, 0, sizeof *l);
	l->is_left = t->tag == 0x07;
	if (!plain(t)) return -1;
	while (off < t->len) {
		rtlv e;
		if (rtlv_read(t->val + off, t->len - off, &e) != 0) return -1;
		if (!plain(&e)) return -1;
		switch (e.tag) {
			case 0x01: if (have_lc++) return -1; if (rtlv_get_u64(&e, &l->level_corr) != 0) return -1; l->has_level_corr = 1; break;
			case 0x02: if (have++) return -1; l->kind = RL_IMPRINT; if (get_imprint(&e, l->sib, &l->sib_len) != 0) return -1; break;
			case 0x03: if (have++) return -1; l->kind = RL_LEGACY; if (!valid_legacy(e.val, e.len)) return -1; memcpy(l->sib, e.val, e.len); l->sib_len = e.len; break;
			case 0x04: if (have++) return -1; l->kind = RL_META; if (e.len > sizeof l->sib || parse_meta(&e) != 0) return -1; memcpy(l->sib, e.val, e.len); l->sib_len = e.len; break;
			default: return -1;
		}
		off += e.hdr + e.len;
	}
	return have == 1 ? 0 : -1;
}
static int parse_chain(const rtlv *t, rs_chain *c) {
	size_t off = 0;
	int n02 = 0, n05 = 0, n06 = 0;
	memset(c, 0, sizeof *c);
	if (!plain(t)) return -1;
	while (off < t->len) {
		rtlv e;
		if (rtlv_read(t->val + off, t->len - off, &e) != 0) return -1;
		if (e.tag != 0x07 && e.tag != 0x08 && !plain(&e)) return -1;
		switch (e.tag) {
			case 0x02: if (n02++) return -1; if (rtlv_get_u64(&e, &c->aggr_time) != 0) return -1; break;
			case 0x03: if (c->nindex >= RS_MAXIDX) return -1; if (rtlv_get_u64(&e, &c->index[c->nindex++]) != 0) return -1; break;
			case 0x04: if (c->has_input_data++) return -1; if (e.len > sizeof c->input_data) return -1; memcpy(c->input_data, e.val, e.len); c->input_data_len = e.len; break;
			case 0x05: if (n05++) return -1; if (get_imprint(&e, c->input, &c->input_len) != 0) return -1; break;
			case 0x06: if (n06++) return -1; if (rtlv_get_u64(&e, &c->alg) != 0) return -1; break;
			case 0x07: case 0x08: if (c->nlinks >= RS_MAXLINKS) return -1; if (parse_link(&e, &c->links[c->nlinks++]) != 0) return -1; break;
			default: return -1;
		}
		off += e.hdr + e.len;
	}
	if (n02 != 1 || n05 != 1 || n06 != 1 || c->nindex < 1 || c->nlinks < 1) return -1;
	return 0;
}
static int parse_pubdata(const rtlv *t, uint64_t *tm, unsigned char *h, size_t *hl) {
	size_t off = 0;
	int n2 = 0, n4 = 0;
	while (off < t->len) {
		rtlv e;
		if (rtlv_read(t->val + off, t->len - off, &e) != 0) return -1;
		if (!plain(&e)) return -1;
		if (e.tag == 0x02) { if (n2++) return -1; if (rtlv_get_u64(&e, tm) != 0) return -1; }
		else if (e.tag == 0x04) { if (n4++) return -1; if (get_imprint(&e, h, hl) != 0) return -1; }
		else return -1;
		off += e.hdr + e.len;
	}
	return (n2 == 1 && n4 == 1) ? 0 : -1;
}

int rs_parse(const unsigned char *p, size_t n, rsig *s) {
	rtlv top;
	size_t off = 0;
	int i, j;
	memset(s, 0, sizeof *s);
	if (rtlv_read(p, n, &top) != 0 || top.hdr + top.len != n || top.tag != 0x0800 || !plain(&top)) return -1;
	while (off < top.len) {
		rtlv e;
		if (rtlv_read(top.val + off, top.len - off, &e) != 0) return -1;
		if (!plain(&e)) return -1;
		switch (e.tag) {
			case 0x0801:
				if (s->nchains >= RS_MAXCH) return -1;
				if (parse_chain(&e, &s->ch[s->nchains++]) != 0) return -1;
				break;
			case 0x0802: {
				size_t o2 = 0;
				int n1 = 0, n5 = 0;
				if (s->has_cal++) return -1;
				while (o2 < e.len) {
					rtlv c;
					if (rtlv_read(e.val + o2, e.len - o2, &c) != 0) return -1;
					if (!plain(&c)) return -1;
					switch (c.tag) {
						case 0x01: if (n1++) return -1; if (rtlv_get_u64(&c, &s->cal_pub_time) != 0) return -1; break;
						case 0x02: if (s->cal_has_aggr++) return -1; if (rtlv_get_u64(&c, &s->cal_aggr_time) != 0) return -1; break;
						case 0x05: if (n5++) return -1; if (get_imprint(&c, s->cal_input, &s->cal_input_len) != 0) return -1; break;
						case 0x07: case 0x08: {
							rlink *l;
							if (s->ncal >= RS_MAXCAL) return -1;
							l = &s->cal[s->ncal++];
							memset(l, 0, sizeof *l);
							l->is_left = c.tag == 0x07; l->kind = RL_IMPRINT;
							if (get_imprint(&c, l->sib, &l->sib_len) != 0) return -1;
							break;
						}
						default: return -1;
					}
					o2 += c.hdr + c.len;
				}
				if (n1 != 1 || n5 != 1 || s->ncal < 1) return -1;
				break;
			}
			case 0x0803: {
				size_t o2 = 0;
				int n10 = 0;
				if (s->has_pub++) return -1;
				while (o2 < e.len) {
					rtlv c;
					if (rtlv_read(e.val + o2, e.len - o2, &c) != 0) return -1;
					if (!plain(&c)) return -1;
					if (c.tag == 0x10) { if (n10++) return -1; if (parse_pubdata(&c, &s->pub_time, s->pub_hash, &s->pub_hash_len) != 0) return -1; }
					else if (c.tag == 0x09 || c.tag == 0x0a) { if (!valid_cstr(c.val, c.len)) return -1; if (c.tag == 0x09) s->pub_nrefs++; else return -1; }
					else return -1;
					o2 += c.hdr + c.len;
				}
				if (n10 != 1) return -1;
				break;
			}
			case 0x0805: {
				size_t o2 = 0;
				int n10 = 0, nb = 0;
				if (s->has_auth++) return -1;
				while (o2 < e.len) {
					rtlv c;
					if (rtlv_read(e.val + o2, e.len - o2, &c) != 0) return -1;
					if (c.tag == 0x10) {
						if (c.nc || !c.fw) return -1;
						if (n10++) return -1;
						if (parse_pubdata(&c, &s->auth_time, s->auth_hash, &s->auth_hash_len) != 0) return -1;
					} else if (c.tag == 0x0b) {
						size_t o3 = 0;
						int k1 = 0, k2 = 0, k3 = 0;
						if (!plain(&c) || nb++) return -1;
						while (o3 < c.len) {
							rtlv d;
							if (rtlv_read(c.val + o3, c.len - o3, &d) != 0) return -1;
							if (!plain(&d)) return -1;
							switch (d.tag) {
								case 0x01: if (k1++) return -1; if (!valid_cstr(d.val, d.len) || d.len > sizeof s->auth_sigtype) return -1; memcpy(s->auth_sigtype, d.val, d.len); break;
								case 0x02: if (k2++) return -1; if (d.len > sizeof s->auth_sig) return -1; memcpy(s->auth_sig, d.val, d.len); s->auth_sig_len = d.len; break;
								case 0x03: if (k3++) return -1; if (d.len > sizeof s->auth_certid) return -1; memcpy(s->auth_certid, d.val, d.len); s->auth_certid_len = d.len; break;
								default: return -1;
							}
							o3 += d.hdr + d.len;
						}
						if (k1 != 1 || k2 != 1 || k3 != 1) return -1;
					} else return -1;
					o2 += c.hdr + c.len;
				}
				if (n10 != 1 || nb != 1) return -1;
				break;
			}
			case 0x0806: {
				size_t o2 = 0;
				int cnt[0x20] = {0};
				rs_rfc3161 *r = &s->rfc;
				if (s->has_rfc++) return -1;
				while (o2 < e.len) {
					rtlv c;
					if (rtlv_read(e.val + o2, e.len - o2, &c) != 0) return -1;
					if (!plain(&c) || c.tag > 0x1f) return -1;
					if (c.tag != 0x03 && cnt[c.tag]++) return -1;
					switch (c.tag) {
						case 0x02: if (rtlv_get_u64(&c, &r->aggr_time) != 0) return -1; break;
						case 0x03: if (r->nindex >= RS_MAXIDX) return -1; if (rtlv_get_u64(&c, &r->index[r->nindex++]) != 0) return -1; cnt[3]++; break;
						case 0x05: if (get_imprint(&c, r->input, &r->input_len) != 0) return -1; break;
						case 0x10: if (c.len > 40) return -1; memcpy(r->tst_prefix, c.val, c.len); r->tst_prefix_len = c.len; break;
						case 0x11: if (c.len > 40) return -1; memcpy(r->tst_suffix, c.val, c.len); r->tst_suffix_len = c.len; break;
						case 0x12: if (rtlv_get_u64(&c, &r->tst_alg) != 0) return -1; break;
						case 0x13: if (c.len > 40) return -1; memcpy(r->sig_prefix, c.val, c.len); r->sig_prefix_len = c.len; break;
						case 0x14: if (c.len > 40) return -1; memcpy(r->sig_suffix, c.val, c.len); r->sig_suffix_len = c.len; break;
						case 0x15: if (rtlv_get_u64(&c, &r->sig_alg) != 0) return -1; break;
						default: return -1;
					}
					o2 += c.hdr + c.len;
				}
				if (!cnt[2] || !cnt[3] || !cnt[5] || !cnt[0x10] || !cnt[0x11] || !cnt[0x12] || !cnt[0x13] || !cnt[0x14] || !cnt[0x15]) return -1;
				break;
			}
			default: return -1;
		}
		off += e.hdr + e.len;
	}
	if (s->nchains < 1) return -1;
	if (s->has_pub && s->has_auth) return -1;
	if ((s->has_pub || s->has_auth) && !s->has_cal) return -1;
	/* a verifier takes the chains from the longest chain index to the shortest (stable) */
	for (i = 1; i < s->nchains; i++)
		for (j = i; j > 0 && s->ch[j - 1].nindex < s->ch[j].nindex; j--) {
			rs_chain tmp = s->ch[j - 1]; s->ch[j - 1] = s->ch[j]; s->ch[j] = tmp;
		}
	return 0;
}

/* ------------------------------------------------------------------ evaluation */
void rs_document_hash(const rsig *s, const unsigned char **h, size_t *n) {
	if (s->has_rfc) { *h = s->rfc.input; *n = s->rfc.input_len; }
	else { *h = s->ch[0].input; *n = s->ch[0].input_len; }
}
uint64_t rs_signing_time(const rsig *s) {
	if (s->has_cal) return s->cal_has_aggr ? s->cal_aggr_time : s->cal_pub_time;
	return s->ch[0].aggr_time;
}
uint64_t rs_first_level_corr(const rsig *s) { return s->ch[0].links[0].level_corr; }

static int meta_padding_bad(const rlink *l) {
	size_t off = 0;
	int npad = 0, idx = 0, pad_idx = -1;
	rtlv pad;
	memset(&pad, 0, sizeof pad);
	while (off < l->sib_len) {
		rtlv e;
		if (rtlv_read(l->sib + off, l->sib_len - off, &e) != 0) return 1;
		if (e.tag == 0x1e) { if (npad++ == 0) { pad = e; pad_idx = idx; } }
		off += e.hdr + e.len;
		idx++;
	}
	if (npad > 1) return 1;
	if (npad == 1) {
		if (pad_idx != 0) return 1;                       /* must be the first element */
		if (pad.is16) return 1;                           /* must be TLV8 */
		if (!pad.nc || !pad.fw) return 1;                 /* N and F flags */
		if (pad.len == 1) { if (pad.val[0] != 0x01) return 1; }
		else if (pad.len == 2) { if (pad.val[0] != 0x01 || pad.val[1] != 0x01) return 1; }
		else return 1;
		if (l->sib_len % 2) return 1;                     /* total length even */
		return 0;
	}
	/* no padding: the record must not be interpretable as an imprint */
	if (l->sib_len >= 1 && ref_hash_len(l->sib[0]) != 0 && (size_t)ref_hash_len(l->sib[0]) + 1 == l->sib_len) return 1;
	return 0;
}

#define VIOL(k) (v->violated |= 1u << (k))
#define UNC(k)  (v->uncomputable |= 1u << (k))
void rs_eval(const rsig *s, rs_verdict *v) {
	int i, j, lvl = 0, chain_ok = 1;
	unsigned char out[RH_MAX_IMPRINT], root[RH_MAX_IMPRINT], calroot[RH_MAX_IMPRINT];
	size_t ol = 0, rl = 0, crl = 0;
	int have_root = 0, have_calroot = 0;
	const unsigned char *doc; size_t docl;
	unsigned k;
	v->violated = v->uncomputable = 0;

	/* INT-01: chain outputs feed the next chain; rfc3161 output feeds the first chain */
	if (s->has_rfc) {
		int r = rs_rfc_output(s, out, &ol);
		if (r != 0) UNC(1);
		else if (ol != s->ch[0].input_len || memcmp(out, s->ch[0].input, ol) != 0) VIOL(1);
	}
	for (i = 0; i < s->nchains; i++) {
		int r = rs_chain_output(s, i, lvl, out, &ol, &lvl);
		if (r != 0) { UNC(1); chain_ok = 0; break; }
		if (i + 1 < s->nchains) {
			if (ol != s->ch[i + 1].input_len || memcmp(out, s->ch[i + 1].input, ol) != 0) { VIOL(1); }
		} else { memcpy(root, out, ol); rl = ol; have_root = 1; }
	}
	(void)chain_ok;
	/* INT-02 */
	for (i = 1; i < s->nchains; i++) if (s->ch[i].aggr_time != s->ch[i - 1].aggr_time) VIOL(2);
	if (s->has_rfc && s->rfc.aggr_time != s->ch[0].aggr_time) VIOL(2);
	/* INT-12 index continuation, INT-10 shape */
	for (i = 1; i < s->nchains; i++) {
		if (s->ch[i - 1].nindex != s->ch[i].nindex + 1) VIOL(12);
		else for (j = 0; j < s->ch[i].nindex; j++) if (s->ch[i - 1].index[j] != s->ch[i].index[j]) VIOL(12);
	}
	if (s->has_rfc) {
		if (s->rfc.nindex != s->ch[0].nindex) VIOL(12);
		else for (j = 0; j < s->rfc.nindex; j++) if (s->rfc.index[j] != s->ch[0].index[j]) VIOL(12);
	}
	for (i = 0; i < s->nchains; i++) {
		int dirs[RS_MAXLINKS];
		for (j = 0; j < s->ch[i].nlinks; j++) dirs[j] = s->ch[i].links[j].is_left;
		if (s->ch[i].nindex > 0 && s->ch[i].index[s->ch[i].nindex - 1] != ref_shape_index(dirs, s->ch[i].nlinks)) VIOL(10);
	}
	/* INT-11 */
	for (i = 0; i < s->nchains; i++)
		for (j = 0; j < s->ch[i].nlinks; j++)
			if (s->ch[i].links[j].kind == RL_META && meta_padding_bad(&s->ch[i].links[j])) VIOL(11);
	/* algorithm life cycle */
	rs_document_hash(s, &doc, &docl);
	if (docl >= 1 && ref_hash_deprecated_at(doc[0], rs_signing_time(s))) VIOL(13);
	if (s->has_rfc) {
		if ((s->rfc.tst_alg <= 0xff && ref_hash_deprecated_at((int)s->rfc.tst_alg, s->rfc.aggr_time)) ||
		    (s->rfc.sig_alg <= 0xff && ref_hash_deprecated_at((int)s->rfc.sig_alg, s->rfc.aggr_time))) VIOL(14);
		if (ref_hash_deprecated_at(s->ch[0].input[0], s->rfc.aggr_time)) VIOL(17);
	}
	for (i = 0; i < s->nchains; i++) if (s->ch[i].alg <= 0xff && ref_hash_deprecated_at((int)s->ch[i].alg, s->ch[i].aggr_time)) VIOL(15);
	/* calendar */
	if (s->has_cal) {
		int dirs[RS_MAXCAL];
		uint64_t t = 0, claimed = s->cal_has_aggr ? s->cal_aggr_time : s->cal_pub_time;
		if (!have_root) UNC(3);
		else if (rl != s->cal_input_len || memcmp(root, s->cal_input, rl) != 0) VIOL(3);
		if (claimed != s->ch[0].aggr_time) VIOL(4);
		for (i = 0; i < s->ncal; i++) dirs[i] = s->cal[i].is_left;
		if (s->cal_pub_time >= 0x8000000000000000ULL || ref_cal_time(dirs, s->ncal, s->cal_pub_time, &t) != 0) UNC(5);
		else if (t != claimed) VIOL(5);
		if (rs_cal_root(s, calroot, &crl) == 0) have_calroot = 1;
		if (s->has_auth) {
			if (s->auth_time != s->cal_pub_time) VIOL(6);
			if (!have_calroot) UNC(8);
			else if (crl != s->auth_hash_len || memcmp(calroot, s->auth_hash, crl) != 0) VIOL(8);
		}
		if (s->has_pub) {
			if (s->pub_time != s->cal_pub_time) VIOL(7);
			if (!have_calroot) UNC(9);
			else if (crl != s->pub_hash_len || memcmp(calroot, s->pub_hash, crl) != 0) VIOL(9);
		}
	}
	v->nviolated = 0;
	for (k = 1; k <= 17; k++) if ((v->violated | v->uncomputable) & (1u << k)) v->nviolated++;
}
