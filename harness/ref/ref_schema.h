/* ref_schema.h - declarative reference table of the KSI schema (signature, aggregation / extension
 * PDUs v1 and v2, publications file) and a small generic validator. Independent of libksi: the table
 * is a transcription of the KSI format; the validator knows nothing about individual containers.
 *
 * Verdicts: RSCH_ACCEPT, RSCH_REJECT, RSCH_SILENT (the property statement of C10 does not decide). A
 * definite violation wins over a silent factor; a silent factor wins over acceptance. */
#ifndef REF_SCHEMA_H_
#define REF_SCHEMA_H_
#include "ref.h"

enum { RSCH_REJECT = 0, RSCH_ACCEPT = 1, RSCH_SILENT = -1 };

/* value types */
enum {
	RV_CONTAINER = 0,   /* nested elements, described by container `sub` */
	RV_INT,             /* big-endian, at most 8 bytes, no leading zero byte (0 = empty payload) */
	RV_STR,             /* NUL terminated, no embedded NUL, well-formed UTF-8 lead / continuation structure */
	RV_STRNZ,           /* RV_STR; the empty string is statement-silent */
	RV_IMPRINT,         /* known algorithm id followed by a digest of that algorithm's length */
	RV_OCTETS,          /* any bytes */
	RV_LEGACY,          /* 29 bytes: 03 00 len(<=25) string zero padding */
	RV_DER              /* DER blob (certificate / PKCS#7): only registered blobs are decided, others are silent */
};

/* multiplicity / position flags of an element inside its container */
#define RE_MAND   0x001u   /* must occur */
#define RE_MULTI  0x002u   /* may repeat; without it the element is single-valued */
#define RE_G0     0x004u   /* member of the at-least-one group */
#define RE_X0     0x008u   /* member of the mutually-exclusive group */
#define RE_FIRST  0x010u   /* no known element may precede it */
#define RE_LAST   0x020u   /* no known element may follow it */
#define RE_ORDER  0x040u   /* members appear in table order */
#define RE_SINGLE 0x080u   /* pseudo bit used in `silent`: repetition of this single-valued element is not decided */

/* expected header flags */
#define RX_N 1u
#define RX_F 2u

typedef struct {
	unsigned tag;
	int vtype;            /* RV_* */
	int sub;              /* container id when vtype == RV_CONTAINER */
	unsigned flags;       /* RE_* */
	unsigned silent;      /* RE_* rules of this element whose violation the statement does not decide */
	unsigned xfl;         /* header flags the format prescribes (RX_*); a deviation on a known element is silent */
	unsigned needs;       /* tag of a sibling that has to accompany this element (violation: silent), 0 = none */
	const char *name;
} rsch_elem;

/* container flags */
#define RC_HASHED 0x1u     /* the content is itself hashed or signed (metadata record, published data) */

typedef struct {
	const char *name;
	unsigned cflags;
	const rsch_elem *e;   /* terminated by tag == 0 && name == NULL */
} rsch_cont;

/* container ids */
enum {
	RC_SIG = 0, RC_AGGR_CHAIN, RC_LINK, RC_META, RC_CAL_CHAIN, RC_PUB_REC, RC_PUB_DATA, RC_AGGR_AUTH, RC_CAL_AUTH,
	RC_SIGNED_DATA, RC_RFC3161,
	RC_HEADER, RC_ERROR,
	RC_AGGR_PDU_V1, RC_AGGR_REQ_V1, RC_AGGR_RESP_V1, RC_CONFIG_V1, RC_REQ_ACK_V1,
	RC_AGGR_REQ_PDU, RC_AGGR_RESP_PDU, RC_AGGR_REQ_V2, RC_AGGR_RESP_V2, RC_AGGR_CONF, RC_AGGR_ACK_REQ, RC_AGGR_ACK,
	RC_EXT_PDU_V1, RC_EXT_REQ, RC_EXT_RESP_V1,
	RC_EXT_REQ_PDU, RC_EXT_RESP_PDU, RC_EXT_RESP_V2, RC_EXT_CONF,
	RC_PUBFILE, RC_PUBFILE_HDR, RC_CERT_REC,
	RC_N
};

/* roots: what the bytes are offered as */
enum { RR_SIG = 0, RR_AGGR_V1, RR_AGGR_V2, RR_EXT_V1, RR_EXT_V2, RR_PUBFILE, RR_N };
#define RSCH_PUBFILE_MAGIC "KSIPUBLF"

const rsch_cont *rsch_container(int id);
const rsch_elem *rsch_lookup(int cont, unsigned tag);            /* NULL when the tag is unknown in the container */
int  rsch_alphabet(int cont, unsigned *tags, int max);           /* the container's known tags, in table order */
/* container that describes a top-level element with this tag when offered as `root`; -1 = not acceptable.
 * (RR_PUBFILE has no top-level element: use RC_PUBFILE on the bytes that follow the magic) */
int  rsch_root_container(int root, unsigned tag);
int  rsch_root_tags(int root, unsigned *tags, int max);          /* top-level tags of the root's family */
const char *rsch_root_name(int root);

typedef struct {
	char rule[96];        /* first definite violation: "<container>:<rule>[:<element>]" */
	char silent[96];      /* first statement-silent factor */
	int unknown_nc;       /* number of ignored unknown non-critical elements */
	int unknown_nc_hashed;/* ... of them inside RC_HASHED content */
	int empty_values;     /* known elements with an empty payload where the value type needs content */
	int empty_at_end;     /* ... of them ending exactly at the end of the input */
} rsch_info;

/* validates `n` bytes offered as `root` */
int  rsch_validate(int root, const unsigned char *p, size_t n, rsch_info *info);
/* one value: RSCH_*; *rule names the violated value rule */
int  rsch_value(int vtype, const unsigned char *v, size_t n, const char **rule);
/* DER blobs taken from valid base objects: exactly these are accepted as RV_DER values */
void rsch_trust_blob(const unsigned char *p, size_t n);
#endif
