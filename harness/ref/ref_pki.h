/* ref_pki.h - test PKI (CA, signer certificates with chosen validity windows and subjects, PKCS#7
 * detached signatures, raw RSA signatures) and a reference publications-file builder.
 * Built directly on the OpenSSL C API; independent of libksi. */
#ifndef REF_PKI_H_
#define REF_PKI_H_
#include "ref_sig.h"

typedef struct rk_cert {
	void *pkey;                    /* EVP_PKEY* */
	void *x509;                    /* X509* */
	unsigned char der[2400]; size_t der_len;
	unsigned char id[4];           /* certificate id used in KSI records: CRC-32 of the DER encoding */
} rk_cert;

/* generates (once per process) two independent CAs: "good" (trust anchor) and "rogue" */
void rk_init(void);
rk_cert *rk_ca(int rogue);
/* new end-entity certificate signed by the chosen CA; subject: emailAddress=email, CN=cn; validity [nb, na] (unix times) */
void rk_issue(rk_cert *out, int rogue_ca, const char *email, const char *cn, int64_t not_before, int64_t not_after);
void rk_cert_free(rk_cert *c);
/* writes the CA certificate (PEM) to a file usable with KSI_PKITruststore_addLookupFile; returns the path (static) */
const char *rk_ca_file(int rogue);
/* detached PKCS#7 signature (DER) over data, signer certificate included */
size_t rk_pkcs7_sign(const rk_cert *signer, const unsigned char *data, size_t n, unsigned char *out, size_t cap);
int rk_pkcs7_verify(const unsigned char *data, size_t n, const unsigned char *sig, size_t sl, int rogue_ca, const char *email);
/* raw signature sha256WithRSAEncryption over data */
size_t rk_rsa_sign(const rk_cert *signer, const unsigned char *data, size_t n, unsigned char *out, size_t cap);
#define RK_SIGTYPE_SHA256_RSA "1.2.840.113549.1.1.11"

/* sign the calendar authentication record of s: the signed bytes are the published-data TLV (tag 0x10) */
void rk_sign_auth_record(rsig *s, const rk_cert *signer);

/* ---- publications file ---- */
#define RPF_MAXPUB 8
#define RPF_MAXCERT 4
typedef struct {
	uint64_t version, created;
	int ncerts; const rk_cert *certs[RPF_MAXCERT];
	int npubs; uint64_t pub_time[RPF_MAXPUB]; unsigned char pub_hash[RPF_MAXPUB][RH_MAX_IMPRINT]; size_t pub_hash_len[RPF_MAXPUB];
} rpubfile;
/* serializes magic + header + certificate records + publication records and appends the PKCS#7 signature record
 * made by `signer` over everything before it. *signed_len receives the length of the signed range. */
void rpf_serialize(const rpubfile *f, const rk_cert *signer, vbuf *out, size_t *signed_len);
/* the individual records, for structure enumeration */
void rpf_header(const rpubfile *f, vbuf *out);
void rpf_cert_record(const rk_cert *c, vbuf *out);
void rpf_pub_record(uint64_t t, const unsigned char *h, size_t hl, vbuf *out);
void rpf_sig_record(const rk_cert *signer, const unsigned char *signed_data, size_t n, vbuf *out);
#endif
