/* ref_schema.c - the KSI schema as data + a generic validator (see ref_schema.h).
 *
 * Reading guide for the table: one block per container, one line per element:
 *   tag, value type, sub-container, multiplicity / position flags, rules that are statement-silent when
 *   violated, prescribed header flags, companion element, name.
 * Elements not listed in a container are unknown there: rejected when critical, ignored when flagged
 * non-critical. Element order inside a container is free except for RE_FIRST / RE_LAST / RE_ORDER.
 *
 * A publication / calendar authentication record requires the calendar chain it speaks about (conditionally mandatory: judged).
 * Statement-silent decisions (property C10):
 *  - N / F header flags on a KNOWN element (the statement speaks about flags of unknown elements only);
 *  - presence of header and MAC in a PDU (judged with the HMAC by C06) and their position in version 1 PDUs;
 *  - an unknown non-critical element before a RE_FIRST element or after a RE_LAST element ("ignored" and
 *    "header first / MAC last / signature last" can both be argued);
 *  - UTF-8 beyond lead / continuation structure (overlong forms, surrogates, lead bytes f5..fd), empty
 *    "non-empty" strings, DER blobs other than the ones of the valid base objects. */
#include "ref_schema.h"
#include <string.h>
#include <stdio.h>
#include <stdlib.h>

#define M   RE_MAND
#define MU  RE_MULTI
#define G   RE_G0
#define X   RE_X0
#define END {0, 0, 0, 0, 0, 0, 0, NULL}
#define C(sub) RV_CONTAINER, sub
#define V(t)   t, -1

/* ------------------------------------------------------------------ signature */
static const rsch_elem E_SIG[] = {
	{0x0801, C(RC_AGGR_CHAIN), M | MU, 0, 0, 0,      "aggr_chain"},
	{0x0802, C(RC_CAL_CHAIN),  0,      0, 0, 0,      "cal_chain"},
	{0x0803, C(RC_PUB_REC),    X,      0, 0, 0x0802, "pub_rec"},
	{0x0804, C(RC_AGGR_AUTH),  0,      0, 0, 0,      "aggr_auth_rec"},
	{0x0805, C(RC_CAL_AUTH),   X,      0, 0, 0x0802, "cal_auth_rec"},
	{0x0806, C(RC_RFC3161),    0,      0, 0, 0,      "rfc3161_rec"},
	END
};
static const rsch_elem E_AGGR_CHAIN[] = {
	{0x02, V(RV_INT),     M,      0, 0, 0, "aggr_time"},
	{0x03, V(RV_INT),     M | MU, 0, 0, 0, "chain_index"},
	{0x04, V(RV_OCTETS),  0,      0, 0, 0, "input_data"},
	{0x05, V(RV_IMPRINT), M,      0, 0, 0, "input_hash"},
	{0x06, V(RV_INT),     M,      0, 0, 0, "hash_id"},
	{0x07, C(RC_LINK),    G | MU, 0, 0, 0, "left_link"},
	{0x08, C(RC_LINK),    G | MU, 0, 0, 0, "right_link"},
	END
};
/* aggregation chain link: optional level correction and exactly one of imprint | legacy id | metadata */
static const rsch_elem E_LINK[] = {
	{0x01, V(RV_INT),     0,     0, 0, 0, "level_correction"},
	{0x02, V(RV_IMPRINT), G | X, 0, 0, 0, "imprint"},
	{0x03, V(RV_LEGACY),  G | X, 0, 0, 0, "legacy_id"},
	{0x04, C(RC_META),    G | X, 0, 0, 0, "meta_data"},
	END
};
static const rsch_elem E_META[] = {
	{0x1e, V(RV_OCTETS), RE_FIRST, 0, RX_N | RX_F, 0, "padding"},
	{0x01, V(RV_STR),    M,        0, 0, 0, "client_id"},
	{0x02, V(RV_STR),    0,        0, 0, 0, "machine_id"},
	{0x03, V(RV_INT),    0,        0, 0, 0, "seq_nr"},
	{0x04, V(RV_INT),    0,        0, 0, 0, "req_time"},
	END
};
/* calendar chain: the links are plain imprints */
static const rsch_elem E_CAL_CHAIN[] = {
	{0x01, V(RV_INT),     M,      0, 0, 0, "pub_time"},
	{0x02, V(RV_INT),     0,      0, 0, 0, "aggr_time"},
	{0x05, V(RV_IMPRINT), M,      0, 0, 0, "input_hash"},
	{0x07, V(RV_IMPRINT), G | MU, 0, 0, 0, "left_link"},
	{0x08, V(RV_IMPRINT), G | MU, 0, 0, 0, "right_link"},
	END
};
static const rsch_elem E_PUB_REC[] = {
	{0x10, C(RC_PUB_DATA), M,  0, 0, 0, "pub_data"},
	{0x09, V(RV_STRNZ),    MU, 0, 0, 0, "pub_ref"},
	{0x0a, V(RV_STRNZ),    MU, 0, 0, 0, "uri"},
	END
};
static const rsch_elem E_PUB_DATA[] = {
	{0x02, V(RV_INT),     M, 0, 0, 0, "pub_time"},
	{0x04, V(RV_IMPRINT), M, 0, 0, 0, "pub_hash"},
	END
};
static const rsch_elem E_AGGR_AUTH[] = {
	{0x02, V(RV_INT),         M,      0, 0, 0, "aggr_time"},
	{0x03, V(RV_INT),         M | MU, 0, 0, 0, "chain_index"},
	{0x05, V(RV_IMPRINT),     M,      0, 0, 0, "input_hash"},
	{0x0b, C(RC_SIGNED_DATA), M,      0, 0, 0, "signed_data"},
	END
};
static const rsch_elem E_CAL_AUTH[] = {
	{0x10, C(RC_PUB_DATA),    M, 0, RX_F, 0, "pub_data"},
	{0x0b, C(RC_SIGNED_DATA), M, 0, 0,    0, "signed_data"},
	END
};
static const rsch_elem E_SIGNED_DATA[] = {
	{0x01, V(RV_STR),    M, 0, 0, 0, "sig_type"},
	{0x02, V(RV_OCTETS), M, 0, 0, 0, "sig_value"},
	{0x03, V(RV_OCTETS), M, 0, 0, 0, "cert_id"},
	{0x04, V(RV_STRNZ),  0, 0, 0, 0, "cert_rep_uri"},
	END
};
static const rsch_elem E_RFC3161[] = {
	{0x02, V(RV_INT),     M,      0, 0, 0, "aggr_time"},
	{0x03, V(RV_INT),     M | MU, 0, 0, 0, "chain_index"},
	{0x05, V(RV_IMPRINT), M,      0, 0, 0, "input_hash"},
	{0x10, V(RV_OCTETS),  M,      0, 0, 0, "tst_info_prefix"},
	{0x11, V(RV_OCTETS),  M,      0, 0, 0, "tst_info_suffix"},
	{0x12, V(RV_INT),     M,      0, 0, 0, "tst_info_algo"},
	{0x13, V(RV_OCTETS),  M,      0, 0, 0, "sig_attr_prefix"},
	{0x14, V(RV_OCTETS),  M,      0, 0, 0, "sig_attr_suffix"},
	{0x15, V(RV_INT),     M,      0, 0, 0, "sig_attr_algo"},
	END
};

/* ------------------------------------------------------------------ PDU parts shared by all versions */
static const rsch_elem E_HEADER[] = {
	{0x01, V(RV_STR), M, 0, 0, 0, "login_id"},
	{0x02, V(RV_INT), 0, 0, 0, 0, "instance_id"},
	{0x03, V(RV_INT), 0, 0, 0, 0, "message_id"},
	END
};
static const rsch_elem E_ERROR[] = {
	{0x04, V(RV_INT), M, 0, 0, 0, "status"},
	{0x05, V(RV_STR), 0, 0, 0, 0, "error_message"},
	END
};

/* ------------------------------------------------------------------ aggregation PDU version 1 (0x200) */
static const rsch_elem E_AGGR_PDU_V1[] = {
	{0x01,  C(RC_HEADER),       M | RE_FIRST, M | RE_FIRST, 0, 0, "header"},
	{0x201, C(RC_AGGR_REQ_V1),  G | X,        0,            0, 0, "aggr_req"},
	{0x202, C(RC_AGGR_RESP_V1), G | X,        0,            0, 0, "aggr_resp"},
	{0x203, C(RC_ERROR),        G | X,        0,            0, 0, "aggr_error"},
	{0x1f,  V(RV_IMPRINT),      M | RE_LAST,  M | RE_LAST,  0, 0, "hmac"},
	END
};
static const rsch_elem E_AGGR_REQ_V1[] = {
	{0x01, V(RV_INT),       M, 0, 0, 0, "req_id"},
	{0x02, V(RV_IMPRINT),   0, 0, 0, 0, "req_hash"},
	{0x03, V(RV_INT),       0, 0, 0, 0, "req_level"},
	{0x10, C(RC_CONFIG_V1), 0, 0, 0, 0, "config"},
	END
};
static const rsch_elem E_AGGR_RESP_V1[] = {
	{0x01,   V(RV_INT),        M,  0, 0, 0, "req_id"},
	{0x04,   V(RV_INT),        0,  0, 0, 0, "status"},
	{0x05,   V(RV_STR),        0,  0, 0, 0, "error_message"},
	{0x10,   C(RC_CONFIG_V1),  0,  0, 0, 0, "config"},
	{0x11,   C(RC_REQ_ACK_V1), 0,  0, 0, 0, "req_ack"},
	{0x0801, C(RC_AGGR_CHAIN), MU, 0, 0, 0, "aggr_chain"},
	{0x0802, C(RC_CAL_CHAIN),  0,  0, 0, 0, "cal_chain"},
	{0x0804, C(RC_AGGR_AUTH),  0,  0, 0, 0, "aggr_auth_rec"},
	{0x0805, C(RC_CAL_AUTH),   0,  0, 0, 0, "cal_auth_rec"},
	END
};
static const rsch_elem E_CONFIG_V1[] = {
	{0x01, V(RV_INT), 0,  0, 0, 0, "max_level"},
	{0x02, V(RV_INT), 0,  0, 0, 0, "aggr_algo"},
	{0x03, V(RV_INT), 0,  0, 0, 0, "aggr_period"},
	{0x04, V(RV_STR), MU, 0, 0, 0, "parent_uri"},
	END
};
static const rsch_elem E_REQ_ACK_V1[] = {
	{0x01, V(RV_INT), M, 0, 0, 0, "aggr_period"},
	{0x02, V(RV_INT), M, 0, 0, 0, "aggr_delay"},
	END
};

/* ------------------------------------------------------------------ aggregation PDU version 2 (0x220 / 0x221) */
static const rsch_elem E_AGGR_REQ_PDU[] = {
	{0x01, C(RC_HEADER),       M | RE_FIRST, M, 0, 0, "header"},
	{0x02, C(RC_AGGR_REQ_V2),  G,            0, 0, 0, "aggr_req"},
	{0x04, C(RC_AGGR_CONF),    G,            0, 0, 0, "aggr_conf_req"},
	{0x05, C(RC_AGGR_ACK_REQ), G,            0, 0, 0, "aggr_ack_req"},
	{0x1f, V(RV_IMPRINT),      M | RE_LAST,  M, 0, 0, "hmac"},
	END
};
static const rsch_elem E_AGGR_RESP_PDU[] = {
	{0x01, C(RC_HEADER),       M | RE_FIRST, M, 0, 0, "header"},
	{0x02, C(RC_AGGR_RESP_V2), G,            0, 0, 0, "aggr_resp"},
	{0x03, C(RC_ERROR),        G,            0, 0, 0, "aggr_err"},
	{0x04, C(RC_AGGR_CONF),    G,            0, 0, 0, "aggr_conf"},
	{0x05, C(RC_AGGR_ACK),     G,            0, 0, 0, "aggr_ack"},
	{0x1f, V(RV_IMPRINT),      M | RE_LAST,  M, 0, 0, "hmac"},
	END
};
static const rsch_elem E_AGGR_REQ_V2[] = {
	{0x01, V(RV_INT),     M, 0, 0, 0, "req_id"},
	{0x02, V(RV_IMPRINT), M, 0, 0, 0, "req_hash"},
	{0x03, V(RV_INT),     0, 0, 0, 0, "req_level"},
	END
};
static const rsch_elem E_AGGR_RESP_V2[] = {
	{0x01,   V(RV_INT),        M,  0, 0, 0, "req_id"},
	{0x04,   V(RV_INT),        0,  0, 0, 0, "status"},
	{0x05,   V(RV_STR),        0,  0, 0, 0, "error_message"},
	{0x0801, C(RC_AGGR_CHAIN), MU, 0, 0, 0, "aggr_chain"},
	{0x0802, C(RC_CAL_CHAIN),  0,  0, 0, 0, "cal_chain"},
	{0x0804, C(RC_AGGR_AUTH),  0,  0, 0, 0, "aggr_auth_rec"},
	{0x0805, C(RC_CAL_AUTH),   0,  0, 0, 0, "cal_auth_rec"},
	END
};
static const rsch_elem E_AGGR_CONF[] = {
	{0x01, V(RV_INT), 0,  0, 0, 0, "max_level"},
	{0x02, V(RV_INT), 0,  0, 0, 0, "aggr_algo"},
	{0x03, V(RV_INT), 0,  0, 0, 0, "aggr_period"},
	{0x04, V(RV_INT), 0,  0, 0, 0, "max_requests"},
	{0x10, V(RV_STR), MU, 0, 0, 0, "parent_uri"},
	END
};
static const rsch_elem E_AGGR_ACK_REQ[] = {
	{0x01, V(RV_INT), 0, 0, 0, 0, "req_time"},
	END
};
static const rsch_elem E_AGGR_ACK[] = {
	{0x01, V(RV_INT), 0, 0, 0, 0, "req_time"},
	{0x02, V(RV_INT), 0, 0, 0, 0, "recv_time"},
	{0x03, V(RV_INT), 0, 0, 0, 0, "ack_time"},
	{0x04, V(RV_INT), 0, 0, 0, 0, "aggr_delay"},
	{0x05, V(RV_INT), 0, 0, 0, 0, "aggr_period"},
	{0x06, V(RV_INT), 0, 0, 0, 0, "aggr_drift"},
	END
};

/* ------------------------------------------------------------------ extension PDU version 1 (0x300) */
static const rsch_elem E_EXT_PDU_V1[] = {
	{0x01,  C(RC_HEADER),      M | RE_FIRST, M | RE_FIRST, 0, 0, "header"},
	{0x301, C(RC_EXT_REQ),     G | X,        0,            0, 0, "ext_req"},
	{0x302, C(RC_EXT_RESP_V1), G | X,        0,            0, 0, "ext_resp"},
	{0x303, C(RC_ERROR),       G | X,        0,            0, 0, "ext_error"},
	{0x1f,  V(RV_IMPRINT),     M | RE_LAST,  M | RE_LAST,  0, 0, "hmac"},
	END
};
static const rsch_elem E_EXT_REQ[] = {
	{0x01, V(RV_INT), M, 0, 0, 0, "req_id"},
	{0x02, V(RV_INT), 0, 0, 0, 0, "aggr_time"},
	{0x03, V(RV_INT), 0, 0, 0, 0, "pub_time"},
	END
};
static const rsch_elem E_EXT_RESP_V1[] = {
	{0x01,   V(RV_INT),       M, 0, 0, 0, "req_id"},
	{0x04,   V(RV_INT),       0, 0, 0, 0, "status"},
	{0x05,   V(RV_STR),       0, 0, 0, 0, "error_message"},
	{0x10,   V(RV_INT),       0, 0, 0, 0, "last_time"},
	{0x0802, C(RC_CAL_CHAIN), 0, 0, 0, 0, "cal_chain"},
	END
};

/* ------------------------------------------------------------------ extension PDU version 2 (0x320 / 0x321) */
static const rsch_elem E_EXT_REQ_PDU[] = {
	{0x01, C(RC_HEADER),   M | RE_FIRST, M, 0, 0, "header"},
	{0x02, C(RC_EXT_REQ),  G,            0, 0, 0, "ext_req"},
	{0x04, C(RC_EXT_CONF), G,            0, 0, 0, "ext_conf_req"},
	{0x1f, V(RV_IMPRINT),  M | RE_LAST,  M, 0, 0, "hmac"},
	END
};
static const rsch_elem E_EXT_RESP_PDU[] = {
	{0x01, C(RC_HEADER),      M | RE_FIRST, M, 0, 0, "header"},
	{0x02, C(RC_EXT_RESP_V2), G,            0, 0, 0, "ext_resp"},
	{0x03, C(RC_ERROR),       G,            0, 0, 0, "ext_err"},
	{0x04, C(RC_EXT_CONF),    G,            0, 0, 0, "ext_conf"},
	{0x1f, V(RV_IMPRINT),     M | RE_LAST,  M, 0, 0, "hmac"},
	END
};
static const rsch_elem E_EXT_RESP_V2[] = {
	{0x01,   V(RV_INT),       M, 0, 0, 0, "req_id"},
	{0x04,   V(RV_INT),       0, 0, 0, 0, "status"},
	{0x05,   V(RV_STR),       0, 0, 0, 0, "error_message"},
	{0x12,   V(RV_INT),       0, 0, 0, 0, "cal_last"},
	{0x0802, C(RC_CAL_CHAIN), 0, 0, 0, 0, "cal_chain"},
	END
};
static const rsch_elem E_EXT_CONF[] = {
	{0x04, V(RV_INT), 0,  0, 0, 0, "max_requests"},
	{0x10, V(RV_STR), MU, 0, 0, 0, "parent_uri"},
	{0x11, V(RV_INT), 0,  0, 0, 0, "cal_first"},
	{0x12, V(RV_INT), 0,  0, 0, 0, "cal_last"},
	END
};

/* ------------------------------------------------------------------ publications file: magic, then in this order */
static const rsch_elem E_PUBFILE[] = {
	{0x0701, C(RC_PUBFILE_HDR), M | RE_ORDER,           0, 0, 0, "pub_header"},
	{0x0702, C(RC_CERT_REC),    MU | RE_ORDER,          0, 0, 0, "cert_rec"},
	{0x0703, C(RC_PUB_REC),     MU | RE_ORDER,          0, 0, 0, "pub_rec"},
	{0x0704, V(RV_DER),         M | RE_ORDER | RE_LAST, 0, 0, 0, "pki_signature"},
	END
};
static const rsch_elem E_PUBFILE_HDR[] = {
	{0x01, V(RV_INT),   M, 0, 0, 0, "version"},
	{0x02, V(RV_INT),   M, 0, 0, 0, "time_created"},
	{0x03, V(RV_STRNZ), 0, 0, 0, 0, "rep_uri"},
	END
};
static const rsch_elem E_CERT_REC[] = {
	{0x01, V(RV_OCTETS), M, 0, 0, 0, "cert_id"},
	{0x02, V(RV_DER),    M, 0, 0, 0, "cert"},
	END
};

static const rsch_cont CONT[RC_N] = {
	[RC_SIG]           = {"signature",        0,         E_SIG},
	[RC_AGGR_CHAIN]    = {"aggr_chain",       0,         E_AGGR_CHAIN},
	[RC_LINK]          = {"link",             0,         E_LINK},
	[RC_META]          = {"meta_data",        RC_HASHED, E_META},
	[RC_CAL_CHAIN]     = {"cal_chain",        0,         E_CAL_CHAIN},
	[RC_PUB_REC]       = {"pub_rec",          0,         E_PUB_REC},
	[RC_PUB_DATA]      = {"pub_data",         RC_HASHED, E_PUB_DATA},
	[RC_AGGR_AUTH]     = {"aggr_auth_rec",    0,         E_AGGR_AUTH},
	[RC_CAL_AUTH]      = {"cal_auth_rec",     0,         E_CAL_AUTH},
	[RC_SIGNED_DATA]   = {"signed_data",      0,         E_SIGNED_DATA},
	[RC_RFC3161]       = {"rfc3161_rec",      0,         E_RFC3161},
	[RC_HEADER]        = {"header",           0,         E_HEADER},
	[RC_ERROR]         = {"error",            0,         E_ERROR},
	[RC_AGGR_PDU_V1]   = {"aggr_pdu_v1",      0,         E_AGGR_PDU_V1},
	[RC_AGGR_REQ_V1]   = {"aggr_req_v1",      0,         E_AGGR_REQ_V1},
	[RC_AGGR_RESP_V1]  = {"aggr_resp_v1",     0,         E_AGGR_RESP_V1},
	[RC_CONFIG_V1]     = {"config_v1",        0,         E_CONFIG_V1},
	[RC_REQ_ACK_V1]    = {"req_ack_v1",       0,         E_REQ_ACK_V1},
	[RC_AGGR_REQ_PDU]  = {"aggr_req_pdu",     0,         E_AGGR_REQ_PDU},
	[RC_AGGR_RESP_PDU] = {"aggr_resp_pdu",    0,         E_AGGR_RESP_PDU},
	[RC_AGGR_REQ_V2]   = {"aggr_req",         0,         E_AGGR_REQ_V2},
	[RC_AGGR_RESP_V2]  = {"aggr_resp",        0,         E_AGGR_RESP_V2},
	[RC_AGGR_CONF]     = {"aggr_conf",        0,         E_AGGR_CONF},
	[RC_AGGR_ACK_REQ]  = {"aggr_ack_req",     0,         E_AGGR_ACK_REQ},
	[RC_AGGR_ACK]      = {"aggr_ack",         0,         E_AGGR_ACK},
	[RC_EXT_PDU_V1]    = {"ext_pdu_v1",       0,         E_EXT_PDU_V1},
	[RC_EXT_REQ]       = {"ext_req",          0,         E_EXT_REQ},
	[RC_EXT_RESP_V1]   = {"ext_resp_v1",      0,         E_EXT_RESP_V1},
	[RC_EXT_REQ_PDU]   = {"ext_req_pdu",      0,         E_EXT_REQ_PDU},
	[RC_EXT_RESP_PDU]  = {"ext_resp_pdu",     0,         E_EXT_RESP_PDU},
	[RC_EXT_RESP_V2]   = {"ext_resp",         0,         E_EXT_RESP_V2},
	[RC_EXT_CONF]      = {"ext_conf",         0,         E_EXT_CONF},
	[RC_PUBFILE]       = {"pubfile",          0,         E_PUBFILE},
	[RC_PUBFILE_HDR]   = {"pubfile_header",   0,         E_PUBFILE_HDR},
	[RC_CERT_REC]      = {"cert_rec",         0,         E_CERT_REC},
};

/* top-level elements per root */
static const struct { const char *name; struct { unsigned tag; int cont; } top[4]; } ROOT[RR_N] = {
	[RR_SIG]     = {"sig",   {{0x0800, RC_SIG}}},
	[RR_AGGR_V1] = {"aggr1", {{0x0200, RC_AGGR_PDU_V1}, {0x0220, -1}, {0x0221, -1}}},
	[RR_AGGR_V2] = {"aggr2", {{0x0220, RC_AGGR_REQ_PDU}, {0x0221, RC_AGGR_RESP_PDU}, {0x0200, -1}}},
	[RR_EXT_V1]  = {"ext1",  {{0x0300, RC_EXT_PDU_V1}, {0x0320, -1}, {0x0321, -1}}},
	[RR_EXT_V2]  = {"ext2",  {{0x0320, RC_EXT_REQ_PDU}, {0x0321, RC_EXT_RESP_PDU}, {0x0300, -1}}},
	[RR_PUBFILE] = {"pubfile", {{0, -1}}},
};

/* ------------------------------------------------------------------ table access */
const rsch_cont *rsch_container(int id) { return (id >= 0 && id < RC_N) ? &CONT[id] : NULL; }
static int is_end(const rsch_elem *e) { return e->tag == 0 && e->name == NULL; }
static int nelems(const rsch_cont *c) { int n = 0; while (!is_end(&c->e[n])) n++; return n; }
const rsch_elem *rsch_lookup(int cont, unsigned tag) {
	const rsch_cont *c = rsch_container(cont);
	int i;
	if (!c) return NULL;
	for (i = 0; !is_end(&c->e[i]); i++) if (c->e[i].tag == tag) return &c->e[i];
	return NULL;
}
int rsch_alphabet(int cont, unsigned *tags, int max) {
	const rsch_cont *c = rsch_container(cont);
	int i, n = 0;
	if (!c) return 0;
	for (i = 0; !is_end(&c->e[i]) && n < max; i++) tags[n++] = c->e[i].tag;
	return n;
}
int rsch_root_container(int root, unsigned tag) {
	int i;
	if (root < 0 || root >= RR_N) return -1;
	for (i = 0; i < 4 && ROOT[root].top[i].tag; i++) if (ROOT[root].top[i].tag == tag) return ROOT[root].top[i].cont;
	return -1;
}
int rsch_root_tags(int root, unsigned *tags, int max) {
	int i, n = 0;
	if (root < 0 || root >= RR_N) return 0;
	for (i = 0; i < 4 && ROOT[root].top[i].tag && n < max; i++) tags[n++] = ROOT[root].top[i].tag;
	return n;
}
const char *rsch_root_name(int root) { return (root >= 0 && root < RR_N) ? ROOT[root].name : "?"; }

/* ------------------------------------------------------------------ values */
#define MAXBLOB 16
static struct { unsigned char *p; size_t n; } BLOB[MAXBLOB];
static int nblob;
void rsch_trust_blob(const unsigned char *p, size_t n) {
	int i;
	for (i = 0; i < nblob; i++) if (BLOB[i].n == n && memcmp(BLOB[i].p, p, n) == 0) return;
	if (nblob >= MAXBLOB) { fprintf(stderr, "rsch_trust_blob: table full\n"); exit(2); }
	BLOB[nblob].p = (unsigned char *)malloc(n ? n : 1);
	memcpy(BLOB[nblob].p, p, n);
	BLOB[nblob].n = n;
	nblob++;
}

static int value_str(const unsigned char *v, size_t n, int nz, const char **rule) {
	size_t i = 0;
	int silent = 0;
	if (n == 0 || v[n - 1] != 0) { *rule = "string-not-terminated"; return RSCH_REJECT; }
	while (i + 1 < n) {
		unsigned char c = v[i];
		int cont, k;
		if (c == 0) { *rule = "string-embedded-nul"; return RSCH_REJECT; }
		if (c < 0x80) { i++; continue; }
		if (c < 0xc0) { *rule = "utf8-lone-continuation"; return RSCH_REJECT; }
		if (c >= 0xfe) { *rule = "utf8-invalid-lead"; return RSCH_REJECT; }
		if (c < 0xe0) cont = 1; else if (c < 0xf0) cont = 2; else if (c < 0xf8) cont = 3; else if (c < 0xfc) cont = 4; else cont = 5;
		/* statement-silent: forms that have lead / continuation structure but are excluded by RFC 3629 */
		if (c >= 0xf5 || c == 0xc0 || c == 0xc1) silent = 1;
		for (k = 1; k <= cont; k++) {
			if (i + (size_t)k >= n - 1 || v[i + k] < 0x80 || v[i + k] > 0xbf) {
				*rule = "utf8-missing-continuation";   /* also for lead bytes f5..fd: rejected under either reading */
				return RSCH_REJECT;
			}
		}
		if ((c == 0xe0 && v[i + 1] < 0xa0) || (c == 0xf0 && v[i + 1] < 0x90) || (c == 0xed && v[i + 1] >= 0xa0) || (c == 0xf4 && v[i + 1] >= 0x90)) silent = 1;
		i += 1 + (size_t)cont;
	}
	if (silent) { *rule = "utf8-beyond-structure"; return RSCH_SILENT; }
	if (nz && n == 1) { *rule = "empty-string"; return RSCH_SILENT; }
	return RSCH_ACCEPT;
}

int rsch_value(int vtype, const unsigned char *v, size_t n, const char **rule) {
	static const char *dummy;
	size_t i;
	if (!rule) rule = &dummy;
	*rule = "";
	switch (vtype) {
		case RV_INT:
			if (n > 8) { *rule = "integer-over-64-bits"; return RSCH_REJECT; }
			if (n > 0 && v[0] == 0) { *rule = "integer-leading-zero"; return RSCH_REJECT; }
			return RSCH_ACCEPT;
		case RV_STR: return value_str(v, n, 0, rule);
		case RV_STRNZ: return value_str(v, n, 1, rule);
		case RV_IMPRINT:
			if (n == 0) { *rule = "imprint-empty"; return RSCH_REJECT; }
			if (ref_hash_len(v[0]) == 0) { *rule = "imprint-unknown-algorithm"; return RSCH_REJECT; }
			if ((size_t)ref_hash_len(v[0]) + 1 != n) { *rule = "imprint-length"; return RSCH_REJECT; }
			return RSCH_ACCEPT;
		case RV_OCTETS: return RSCH_ACCEPT;
		case RV_LEGACY:
			if (n != 29) { *rule = "legacy-id-length"; return RSCH_REJECT; }
			if (v[0] != 0x03 || v[1] != 0x00) { *rule = "legacy-id-prefix"; return RSCH_REJECT; }
			if (v[2] > 25) { *rule = "legacy-id-string-length"; return RSCH_REJECT; }
			for (i = 3u + v[2]; i < 29; i++) if (v[i] != 0) { *rule = "legacy-id-padding"; return RSCH_REJECT; }
			return RSCH_ACCEPT;
		case RV_DER:
			for (i = 0; i < (size_t)nblob; i++) if (BLOB[i].n == n && memcmp(BLOB[i].p, v, n) == 0) return RSCH_ACCEPT;
			*rule = "der-blob-not-from-a-base-object";
			return RSCH_SILENT;
	}
	*rule = "bad-value-type";
	return RSCH_REJECT;
}

/* ------------------------------------------------------------------ generic validator */
typedef struct { rsch_info *info; int reject, silent; const unsigned char *end; } vctx;

static void note(vctx *x, int verdict, const rsch_cont *c, const char *rule, const char *el) {
	char *dst;
	if (verdict == RSCH_REJECT) { if (x->reject++) return; dst = x->info->rule; }
	else { if (x->silent++) return; dst = x->info->silent; }
	if (el && *el) snprintf(dst, sizeof x->info->rule, "%s:%s:%s", c ? c->name : "top", rule, el);
	else snprintf(dst, sizeof x->info->rule, "%s:%s", c ? c->name : "top", rule);
}
/* violation of rule `bit` of element e */
static void viol(vctx *x, const rsch_cont *c, const rsch_elem *e, unsigned bit, const char *rule) {
	note(x, (e->silent & bit) ? RSCH_SILENT : RSCH_REJECT, c, rule, e->name);
}

#define MAXEL 16
static void validate(vctx *x, int cont, const unsigned char *p, size_t n, int hashed) {
	const rsch_cont *c = rsch_container(cont);
	int ne = nelems(c), i, count[MAXEL] = {0};
	int known_seen = 0, unknown_before_known = 0, first_present = 0, maxorder = -1;
	const rsch_elem *last_seen = NULL;
	size_t off = 0;
	if (c->cflags & RC_HASHED) hashed = 1;
	while (off < n) {
		rtlv t;
		const rsch_elem *e;
		if (rtlv_read(p + off, n - off, &t) != 0) { note(x, RSCH_REJECT, c, "content-not-a-sequence-of-elements", NULL); return; }
		off += t.hdr + t.len;
		e = rsch_lookup(cont, t.tag);
		if (e == NULL) {
			if (!t.nc) { note(x, RSCH_REJECT, c, "unknown-critical", NULL); continue; }
			x->info->unknown_nc++;
			if (hashed) x->info->unknown_nc_hashed++;
			if (!known_seen) unknown_before_known = 1;
			if (last_seen) note(x, RSCH_SILENT, c, "unknown-noncritical-after-last", last_seen->name);
			continue;
		}
		i = (int)(e - c->e);
		count[i]++;
		if ((unsigned)((t.nc ? RX_N : 0) | (t.fw ? RX_F : 0)) != e->xfl) note(x, RSCH_SILENT, c, "header-flags-of-known-element", e->name);
		if (e->flags & RE_FIRST) {
			first_present = 1;
			if (known_seen) viol(x, c, e, RE_FIRST, "not-first");
		}
		if (last_seen) viol(x, c, last_seen, RE_LAST, "not-last");
		if (e->flags & RE_LAST) last_seen = e;
		if (e->flags & RE_ORDER) {
			if (i < maxorder) viol(x, c, e, RE_ORDER, "out-of-order");
			else maxorder = i;
		}
		known_seen++;
		if (e->vtype == RV_CONTAINER) validate(x, e->sub, t.val, t.len, hashed);
		else {
			const char *rule;
			int v = rsch_value(e->vtype, t.val, t.len, &rule);
			if (v != RSCH_ACCEPT) note(x, v, c, rule, e->name);
			if (v == RSCH_REJECT && t.len == 0) { x->info->empty_values++; if (t.val == x->end) x->info->empty_at_end++; }
		}
	}
	if (first_present && unknown_before_known) note(x, RSCH_SILENT, c, "unknown-noncritical-before-first", NULL);
	{
		int g_members = 0, g_count = 0, x_count = 0;
		for (i = 0; i < ne; i++) {
			const rsch_elem *e = &c->e[i];
			if ((e->flags & RE_MAND) && count[i] == 0) viol(x, c, e, RE_MAND, "mandatory-missing");
			if (!(e->flags & RE_MULTI) && count[i] > 1) viol(x, c, e, RE_SINGLE, "repeated");
			if (e->flags & RE_G0) { g_members++; g_count += count[i]; }
			if (e->flags & RE_X0) x_count += count[i];
			if (e->needs && count[i] > 0) {
				const rsch_elem *d = rsch_lookup(cont, e->needs);
				/* conditionally mandatory: a publication / authentication record is a statement about the calendar chain's root */
				if (d && count[d - c->e] == 0) note(x, RSCH_REJECT, c, "companion-missing", e->name);
			}
		}
		if (g_members && g_count == 0) note(x, RSCH_REJECT, c, "at-least-one-group-empty", NULL);
		if (x_count > 1) note(x, RSCH_REJECT, c, "exclusive-alternatives-combined", NULL);
	}
}

int rsch_validate(int root, const unsigned char *p, size_t n, rsch_info *info) {
	rsch_info local;
	vctx x;
	if (!info) info = &local;
	memset(info, 0, sizeof *info);
	x.info = info; x.reject = 0; x.silent = 0; x.end = p + n;
	if (root == RR_PUBFILE) {
		size_t ml = strlen(RSCH_PUBFILE_MAGIC);
		if (n < ml || memcmp(p, RSCH_PUBFILE_MAGIC, ml) != 0) note(&x, RSCH_REJECT, NULL, "magic", NULL);
		else validate(&x, RC_PUBFILE, p + ml, n - ml, 0);
	} else {
		rtlv t;
		int cont;
		if (rtlv_read(p, n, &t) != 0 || t.hdr + t.len != n) note(&x, RSCH_REJECT, NULL, "not-one-element", NULL);
		else if ((cont = rsch_root_container(root, t.tag)) < 0) note(&x, RSCH_REJECT, NULL, "top-level-tag", NULL);
		else {
			if (t.nc || t.fw) note(&x, RSCH_SILENT, NULL, "header-flags-of-known-element", "top");
			validate(&x, cont, t.val, t.len, 0);
		}
	}
	return x.reject ? RSCH_REJECT : x.silent ? RSCH_SILENT : RSCH_ACCEPT;
}
