/* ref_pdu.c - reference PDU model (see ref_pdu.h) */
#include "ref_pdu.h"
#include <string.h>
#include <stdlib.h>
#include <stdio.h>

/* ------------------------------------------------------------------ request parsing */
void rp_req_free(rp_req *r) { vb_free(&r->mac_in); }

static int parse_header(const rtlv *h, rp_req *r) {
	size_t off = 0;
	int n1 = 0;
	while (off < h->len) {
		rtlv e;
		if (rtlv_read(h->val + off, h->len - off, &e) != 0) return -1;
		switch (e.tag) {
			case 0x01:
				if (n1++) return -1;
				if (e.len == 0 || e.len > sizeof r->login || e.val[e.len - 1] != 0) return -1;
				memcpy(r->login, e.val, e.len);
				break;
			case 0x02: if (rtlv_get_u64(&e, &r->instance_id) != 0) return -1; r->has_instance = 1; break;
			case 0x03: if (rtlv_get_u64(&e, &r->message_id) != 0) return -1; r->has_msgid = 1; break;
			default: return -1;
		}
		off += e.hdr + e.len;
	}
	return n1 == 1 ? 0 : -1;
}

static int parse_req_payload(const rtlv *q, int kind, rp_req *r) {
	size_t off = 0;
	while (off < q->len) {
		rtlv e;
		if (rtlv_read(q->val + off, q->len - off, &e) != 0) return -1;
		if (e.tag == 0x01) { if (rtlv_get_u64(&e, &r->req_id) != 0) return -1; r->has_req = 1; }
		else if (kind == RP_AGGR && e.tag == 0x02) { if (e.len < 1 || e.len > RH_MAX_IMPRINT) return -1; memcpy(r->hash, e.val, e.len); r->hash_len = e.len; r->has_hash = 1; }
		else if (kind == RP_AGGR && e.tag == 0x03) { if (rtlv_get_u64(&e, &r->level) != 0) return -1; r->has_level = 1; }
		else if (kind == RP_AGGR && e.tag == 0x10) { r->has_conf_req = 1; }
		else if (kind == RP_EXT && e.tag == 0x02) { if (rtlv_get_u64(&e, &r->aggr_time) != 0) return -1; r->has_aggr_time = 1; }
		else if (kind == RP_EXT && e.tag == 0x03) { if (rtlv_get_u64(&e, &r->pub_time) != 0) return -1; r->has_pub_time = 1; }
		else return -1;
		off += e.hdr + e.len;
	}
	return 0;
}

int rp_parse_request(const unsigned char *p, size_t n, int kind, rp_req *r) {
	rtlv top;
	size_t off = 0;
	int idx = 0;
	const unsigned char *hdr_p = NULL, *pl_p = NULL;
	size_t hdr_n = 0, pl_n = 0;
	memset(r, 0, sizeof *r);
	vb_init(&r->mac_in);
	r->kind = kind;
	if (rtlv_read(p, n, &top) != 0 || top.hdr + top.len != n) return -1;
	r->outer_tag = top.tag;
	if (top.tag == (kind == RP_AGGR ? 0x220u : 0x320u)) r->version = 2;
	else if (top.tag == (kind == RP_AGGR ? 0x200u : 0x300u)) r->version = 1;
	else return -1;
	while (off < top.len) {
		rtlv e;
		if (rtlv_read(top.val + off, top.len - off, &e) != 0) return -1;
		if (e.tag == 0x01) {
			if (r->has_header++) return -1;
			r->header_first = (idx == 0);
			if (parse_header(&e, r) != 0) return -1;
			hdr_p = top.val + off; hdr_n = e.hdr + e.len;
		} else if (e.tag == 0x1f) {
			if (r->has_mac++) return -1;
			if (e.len < 1 || e.len > RH_MAX_IMPRINT) return -1;
			memcpy(r->mac, e.val, e.len); r->mac_len = e.len;
			r->mac_last = (off + e.hdr + e.len == top.len);
		} else if (r->version == 2 && e.tag == 0x02) {
			r->npayload++;
			if (parse_req_payload(&e, kind, r) != 0) return -1;
		} else if (r->version == 2 && e.tag == 0x04) {
			r->npayload++; r->has_conf_req = 1;
		} else if (r->version == 1 && e.tag == (kind == RP_AGGR ? 0x201u : 0x301u)) {
			r->npayload++;
			if (parse_req_payload(&e, kind, r) != 0) return -1;
			pl_p = top.val + off; pl_n = e.hdr + e.len;
		} else return -1;
		off += e.hdr + e.len;
		idx++;
	}
	if (r->has_mac) {
		if (r->version == 2) {
			int dl = ref_hash_len(r->mac[0]);
			if (dl == 0 || (size_t)dl + 1 != r->mac_len || !r->mac_last) return 0; /* parsed, MAC range undefined */
			vb_put(&r->mac_in, p, n - (size_t)dl);
		} else {
			if (hdr_p) vb_put(&r->mac_in, hdr_p, hdr_n);
			if (pl_p) vb_put(&r->mac_in, pl_p, pl_n);
		}
	}
	return 0;
}

int rp_request_mac_ok(const rp_req *r, const void *key, size_t keylen) {
	unsigned char m[RH_MAX_IMPRINT];
	size_t ml;
	if (!r->has_mac || r->mac_in.n == 0) return 0;
	ml = ref_hmac(r->mac[0], key, keylen, r->mac_in.p, r->mac_in.n, m);
	return ml != 0 && ml == r->mac_len && memcmp(m, r->mac, ml) == 0;
}

/* ------------------------------------------------------------------ wrapping */
static void put_header(vbuf *out, const rp_env *e) {
	vbuf h;
	vb_init(&h);
	rtlv_put_str(&h, 0x01, e->login ? e->login : "anon");
	if (e->with_ids) { rtlv_put_u64(&h, 0x02, e->instance_id); rtlv_put_u64(&h, 0x03, e->message_id); }
	rtlv_put(out, 0x01, 0, 0, h.p, h.n, 0);
	vb_free(&h);
}

static void wrap(vbuf *out, const rp_env *e, unsigned outer, const unsigned char *payload, size_t payload_len) {
	vbuf body, hdr, mac;
	int dl = ref_hash_len(e->mac_alg);
	unsigned char m[RH_MAX_IMPRINT];
	size_t ml;
	vb_init(&body); vb_init(&hdr); vb_init(&mac);
	if (!(e->flags & RP_F_NO_HEADER)) put_header(&hdr, e);
	if (e->version == 1) {
		/* v1: MAC over header TLV || payload TLV */
		vbuf in;
		vb_init(&in);
		vb_putvb(&in, &hdr); vb_put(&in, payload, payload_len);
		ml = ref_hmac(e->mac_alg, e->key, e->keylen, in.p, in.n, m);
		vb_free(&in);
		if (e->flags & RP_F_BAD_MAC) m[ml - 1] ^= 1;
		if (!(e->flags & RP_F_NO_MAC)) rtlv_put(&mac, 0x1f, 0, 0, m, ml, 0);
		if (e->flags & RP_F_MAC_FIRST) { vb_putvb(&body, &mac); vb_putvb(&body, &hdr); vb_put(&body, payload, payload_len); }
		else if (e->flags & RP_F_HEADER_LAST) { vb_put(&body, payload, payload_len); vb_putvb(&body, &hdr); vb_putvb(&body, &mac); }
		else { vb_putvb(&body, &hdr); vb_put(&body, payload, payload_len); vb_putvb(&body, &mac); }
		rtlv_put(out, outer, 0, 0, body.p, body.n, 0);
	} else {
		/* v2: MAC over every byte of the PDU that precedes the digest (outer header with its final
		 * length, header, payload, MAC element header and algorithm byte) */
		size_t start = out->n;
		unsigned char zero[RH_MAX_IMPRINT];
		memset(zero, 0, sizeof zero);
		zero[0] = (unsigned char)e->mac_alg;
		if (e->flags & RP_F_HEADER_LAST) { vb_put(&body, payload, payload_len); vb_putvb(&body, &hdr); }
		else { vb_putvb(&body, &hdr); vb_put(&body, payload, payload_len); }
		if (e->flags & RP_F_NO_MAC) { rtlv_put(out, outer, 0, 0, body.p, body.n, 0); }
		else if (e->flags & RP_F_MAC_FIRST) {
			/* MAC not last: computed as if it were, then moved in front (it cannot verify; the point is the position) */
			vbuf b2;
			vb_init(&b2);
			rtlv_put(&b2, 0x1f, 0, 0, zero, (size_t)dl + 1, 0);
			vb_putvb(&b2, &body);
			rtlv_put(out, outer, 0, 0, b2.p, b2.n, 0);
			vb_free(&b2);
		} else {
			rtlv_put(&body, 0x1f, 0, 0, zero, (size_t)dl + 1, 0);
			rtlv_put(out, outer, 0, 0, body.p, body.n, 0);
			ml = ref_hmac(e->mac_alg, e->key, e->keylen, out->p + start, out->n - start - (size_t)dl, m);
			if (e->flags & RP_F_BAD_MAC) m[ml - 1] ^= 1;
			memcpy(out->p + out->n - (size_t)dl, m + 1, (size_t)dl);
		}
	}
	vb_free(&body); vb_free(&hdr); vb_free(&mac);
}

void rp_wrap_response(vbuf *out, const rp_env *e, const unsigned char *payload, size_t payload_len) {
	unsigned outer = e->version == 2 ? (e->kind == RP_AGGR ? 0x221u : 0x321u) : (e->kind == RP_AGGR ? 0x200u : 0x300u);
	wrap(out, e, outer, payload, payload_len);
}
void rp_wrap_request(vbuf *out, const rp_env *e, const unsigned char *payload, size_t payload_len) {
	unsigned outer = e->version == 2 ? (e->kind == RP_AGGR ? 0x220u : 0x320u) : (e->kind == RP_AGGR ? 0x200u : 0x300u);
	wrap(out, e, outer, payload, payload_len);
}

/* ------------------------------------------------------------------ payloads */
void rp_aggr_resp_payload(vbuf *out, int version, uint64_t req_id, int with_status, uint64_t status, const char *errmsg,
                          const unsigned char *body, size_t body_len) {
	vbuf b;
	vb_init(&b);
	rtlv_put_u64(&b, 0x01, req_id);
	if (with_status) rtlv_put_u64(&b, 0x04, status);
	if (errmsg) rtlv_put_str(&b, 0x05, errmsg);
	if (body_len) vb_put(&b, body, body_len);
	rtlv_put(out, version == 2 ? 0x02u : 0x202u, 0, 0, b.p, b.n, 0);
	vb_free(&b);
}
void rp_ext_resp_payload(vbuf *out, int version, uint64_t req_id, int with_status, uint64_t status, const char *errmsg,
                         int with_last, uint64_t cal_last, const unsigned char *cal, size_t cal_len) {
	vbuf b;
	vb_init(&b);
	rtlv_put_u64(&b, 0x01, req_id);
	if (with_status) rtlv_put_u64(&b, 0x04, status);
	if (errmsg) rtlv_put_str(&b, 0x05, errmsg);
	if (with_last) rtlv_put_u64(&b, version == 2 ? 0x12u : 0x10u, cal_last);
	if (cal_len) vb_put(&b, cal, cal_len);
	rtlv_put(out, version == 2 ? 0x02u : 0x302u, 0, 0, b.p, b.n, 0);
	vb_free(&b);
}
void rp_error_payload(vbuf *out, int version, int kind, uint64_t status, const char *errmsg) {
	vbuf b;
	vb_init(&b);
	rtlv_put_u64(&b, 0x04, status);
	if (errmsg) rtlv_put_str(&b, 0x05, errmsg);
	rtlv_put(out, version == 2 ? 0x03u : (kind == RP_AGGR ? 0x203u : 0x303u), 0, 0, b.p, b.n, 0);
	vb_free(&b);
}
void rp_aggr_conf_payload(vbuf *out, int64_t max_level, int64_t aggr_algo, int64_t aggr_period, int64_t max_req, const char *parent_uri) {
	vbuf b;
	vb_init(&b);
	if (max_level >= 0) rtlv_put_u64(&b, 0x01, (uint64_t)max_level);
	if (aggr_algo >= 0) rtlv_put_u64(&b, 0x02, (uint64_t)aggr_algo);
	if (aggr_period >= 0) rtlv_put_u64(&b, 0x03, (uint64_t)aggr_period);
	if (max_req >= 0) rtlv_put_u64(&b, 0x04, (uint64_t)max_req);
	if (parent_uri) rtlv_put_str(&b, 0x10, parent_uri);
	rtlv_put(out, 0x04, 0, 0, b.p, b.n, 0);
	vb_free(&b);
}
void rp_ext_conf_payload(vbuf *out, int64_t max_req, const char *parent_uri, int64_t cal_first, int64_t cal_last) {
	vbuf b;
	vb_init(&b);
	if (max_req >= 0) rtlv_put_u64(&b, 0x04, (uint64_t)max_req);
	if (parent_uri) rtlv_put_str(&b, 0x10, parent_uri);
	if (cal_first >= 0) rtlv_put_u64(&b, 0x11, (uint64_t)cal_first);
	if (cal_last >= 0) rtlv_put_u64(&b, 0x12, (uint64_t)cal_last);
	rtlv_put(out, 0x04, 0, 0, b.p, b.n, 0);
	vb_free(&b);
}

/* ------------------------------------------------------------------ reference aggregator / extender */
void rp_aggregate(rsig *s, const unsigned char *hash, size_t hash_len, uint64_t level, int shape, int tail, uint64_t aggr_time, uint64_t pub_time) {
	static const int NL[6][3] = {{1, 0, 0}, {2, 0, 0}, {1, 1, 0}, {2, 1, 0}, {1, 2, 0}, {2, 1, 1}};
	rs_params p;
	int i, j;
	rs_default_params(&p);
	shape %= 6;
	p.nchains = 0;
	for (i = 0; i < 3 && NL[shape][i]; i++) {
		p.nlinks[i] = NL[shape][i];
		p.chain_alg[i] = RH_SHA256;
		for (j = 0; j < p.nlinks[i]; j++) p.link_desc[i][j] = (unsigned)(((shape + i + j) & 1) | ((i == 0 && j == 1) ? (1 << 1) : 0));
		p.nchains++;
	}
	p.aggr_time = aggr_time; p.pub_time = pub_time; p.tail = tail;
	rs_build(s, &p);
	memcpy(s->ch[0].input, hash, hash_len); s->ch[0].input_len = hash_len;
	s->ch[0].links[0].level_corr = level;
	if (rs_fix(s, RS_FIX_INPUTS | RS_FIX_CAL_IN | RS_FIX_TAIL) != 0) { fprintf(stderr, "rp_aggregate: not computable\n"); exit(2); }
}

void rp_sig_body(const rsig *s, vbuf *out) {
	vbuf full;
	rtlv top;
	vb_init(&full);
	rs_serialize(s, &full);
	if (rtlv_read(full.p, full.n, &top) != 0) { fprintf(stderr, "rp_sig_body\n"); exit(2); }
	vb_put(out, top.val, top.len);
	vb_free(&full);
}

void rp_extend(rsig *c, const unsigned char *input, size_t input_len, uint64_t t, uint64_t P) {
	memset(c, 0, sizeof *c);
	c->has_cal = 1;
	c->cal_pub_time = P; c->cal_has_aggr = 1; c->cal_aggr_time = t;
	memcpy(c->cal_input, input, input_len); c->cal_input_len = input_len;
	c->ncal = rs_calendar_links(t, P, c->cal, RS_MAXCAL);
	if (c->ncal < 0) { fprintf(stderr, "rp_extend: t > P\n"); exit(2); }
}
