/* ref.c - reference KSI model: TLV, digests, chains, calendar arithmetic, base32/crc32.
 * Written from the KSI format description (and the property statements), NOT from libksi's
 * source, and using only OpenSSL's EVP digest / HMAC primitives. */
#include "ref.h"
#include <string.h>
#include <stdio.h>
#include <stdlib.h>
#include <openssl/evp.h>
#include <openssl/hmac.h>

/* ======================================================================== TLV */
int rtlv_read(const unsigned char *p, size_t n, rtlv *t) {
	if (n < 2) return -1;
	t->is16 = (p[0] & 0x80) != 0;
	t->nc = (p[0] & 0x40) != 0;
	t->fw = (p[0] & 0x20) != 0;
	if (t->is16) {
		if (n < 4) return -1;
		t->tag = ((unsigned)(p[0] & 0x1f) << 8) | p[1];
		t->len = ((size_t)p[2] << 8) | p[3];
		t->hdr = 4;
	} else {
		t->tag = p[0] & 0x1f;
		t->len = p[1];
		t->hdr = 2;
	}
	if (t->hdr + t->len > n) return -1;
	t->val = p + t->hdr;
	return 0;
}

int rtlv_count(const unsigned char *p, size_t n) {
	int c = 0;
	size_t off = 0;
	while (off < n) {
		rtlv t;
		if (rtlv_read(p + off, n - off, &t) != 0) return -1;
		off += t.hdr + t.len;
		c++;
	}
	return c;
}

int rtlv_find(const unsigned char *p, size_t n, unsigned tag, int k, rtlv *out) {
	size_t off = 0;
	while (off < n) {
		rtlv t;
		if (rtlv_read(p + off, n - off, &t) != 0) return -1;
		if (t.tag == tag) {
			if (k == 0) { *out = t; return 0; }
			k--;
		}
		off += t.hdr + t.len;
	}
	return -1;
}

int rtlv_put(vbuf *out, unsigned tag, int nc, int fw, const void *payload, size_t len, int force16) {
	unsigned char h[4];
	if (len > 0xffff || tag > 0x1fff) return -1;
	if (force16 || tag > 0x1f || len > 0xff) {
		h[0] = (unsigned char)(0x80 | (nc ? 0x40 : 0) | (fw ? 0x20 : 0) | (tag >> 8));
		h[1] = (unsigned char)(tag & 0xff);
		h[2] = (unsigned char)(len >> 8);
		h[3] = (unsigned char)(len & 0xff);
		vb_put(out, h, 4);
	} else {
		h[0] = (unsigned char)((nc ? 0x40 : 0) | (fw ? 0x20 : 0) | tag);
		h[1] = (unsigned char)len;
		vb_put(out, h, 2);
	}
	vb_put(out, payload, len);
	return 0;
}

size_t ref_u64_bytes(uint64_t v, unsigned char out[8]) {
	size_t n = 0;
	int i, started = 0;
	for (i = 7; i >= 0; i--) {
		unsigned char b = (unsigned char)(v >> (8 * i));
		if (b || started) { out[n++] = b; started = 1; }
	}
	return n;
}

int rtlv_put_u64(vbuf *out, unsigned tag, uint64_t v) {
	unsigned char b[8];
	size_t n = ref_u64_bytes(v, b);
	return rtlv_put(out, tag, 0, 0, b, n, 0);
}

int rtlv_put_str(vbuf *out, unsigned tag, const char *s) {
	return rtlv_put(out, tag, 0, 0, s, strlen(s) + 1, 0);
}

int rtlv_get_u64(const rtlv *t, uint64_t *v) {
	size_t i;
	uint64_t r = 0;
	if (t->len > 8) return -1;
	if (t->len > 0 && t->val[0] == 0) return -1;
	for (i = 0; i < t->len; i++) r = (r << 8) | t->val[i];
	*v = r;
	return 0;
}

/* ======================================================================== hash */
static const struct { int id; int len; const char *evp; const char *name; } ALGS[] = {
	{RH_SHA1, 20, "SHA1", "SHA-1"}, {RH_SHA256, 32, "SHA256", "SHA-256"}, {RH_RIPEMD160, 20, "RIPEMD160", "RIPEMD-160"},
	{RH_SHA384, 48, "SHA384", "SHA-384"}, {RH_SHA512, 64, "SHA512", "SHA-512"},
	{RH_SHA3_224, 28, "SHA3-224", "SHA3-224"}, {RH_SHA3_256, 32, "SHA3-256", "SHA3-256"},
	{RH_SHA3_384, 48, "SHA3-384", "SHA3-384"}, {RH_SHA3_512, 64, "SHA3-512", "SHA3-512"}, {RH_SM3, 32, "SM3", "SM-3"},
};
#define NALGS (sizeof(ALGS) / sizeof(ALGS[0]))
static int alg_idx(int alg) {
	size_t i;
	for (i = 0; i < NALGS; i++) if (ALGS[i].id == alg) return (int)i;
	return -1;
}
int ref_hash_len(int alg) { int i = alg_idx(alg); return i < 0 ? 0 : ALGS[i].len; }
const char *ref_hash_name(int alg) { int i = alg_idx(alg); return i < 0 ? "?" : ALGS[i].name; }
static const EVP_MD *md_of(int alg) {
	int i = alg_idx(alg);
	if (i < 0) return NULL;
	return EVP_get_digestbyname(ALGS[i].evp);
}
int ref_hash_computable(int alg) {
	static int cache[16], init = 0;
	if (alg < 0 || alg > 15) return 0;
	if (!init) {
		int a;
		for (a = 0; a < 16; a++) {
			const EVP_MD *md = md_of(a);
			cache[a] = 0;
			if (md) {
				EVP_MD_CTX *c = EVP_MD_CTX_new();
				if (c && EVP_DigestInit_ex(c, md, NULL) == 1) cache[a] = 1;
				EVP_MD_CTX_free(c);
			}
		}
		init = 1;
	}
	return cache[alg];
}
size_t ref_imprint2(int alg, const void *a, size_t an, const void *b, size_t bn, const void *c, size_t cn, unsigned char out[RH_MAX_IMPRINT]) {
	const EVP_MD *md = md_of(alg);
	EVP_MD_CTX *x;
	unsigned int l = 0;
	if (!md || !ref_hash_computable(alg)) return 0;
	x = EVP_MD_CTX_new();
	EVP_DigestInit_ex(x, md, NULL);
	if (an) EVP_DigestUpdate(x, a, an);
	if (bn) EVP_DigestUpdate(x, b, bn);
	if (cn) EVP_DigestUpdate(x, c, cn);
	EVP_DigestFinal_ex(x, out + 1, &l);
	EVP_MD_CTX_free(x);
	out[0] = (unsigned char)alg;
	return (size_t)l + 1;
}
size_t ref_imprint(int alg, const void *data, size_t n, unsigned char out[RH_MAX_IMPRINT]) {
	return ref_imprint2(alg, data, n, NULL, 0, NULL, 0, out);
}
size_t ref_fake_imprint(int alg, unsigned seed, unsigned char out[RH_MAX_IMPRINT]) {
	int l = ref_hash_len(alg), i;
	uint32_t x = seed * 2654435761u + 12345u;
	out[0] = (unsigned char)alg;
	for (i = 0; i < l; i++) { x = x * 1664525u + 1013904223u; out[1 + i] = (unsigned char)(x >> 24); }
	return (size_t)l + 1;
}
int ref_hash_deprecated_at(int alg, uint64_t t) {
	if (alg == RH_SHA1) return t >= REF_SHA1_DEPRECATED_FROM;
	return 0;
}
/* algorithms the SDK build under test (OpenSSL hashing back end) implements; SHA-3 and SM3 ids are
 * known to the format but not computable by that back end */
int ref_backend_supports(int alg) { return alg == RH_SHA1 || alg == RH_SHA256 || alg == RH_RIPEMD160 || alg == RH_SHA384 || alg == RH_SHA512; }
int ref_hash_trusted(int alg) { return alg_idx(alg) >= 0 && alg != RH_SHA1; }

size_t ref_hmac(int alg, const void *key, size_t keylen, const void *data, size_t n, unsigned char out[RH_MAX_IMPRINT]) {
	/* HMAC written out from RFC 2104 over the digest primitive */
	unsigned char k0[144], ipad[144], opad[144], inner[RH_MAX_IMPRINT], tmp[RH_MAX_IMPRINT];
	size_t B, i, il;
	int L = ref_hash_len(alg);
	if (!ref_hash_computable(alg)) return 0;
	switch (alg) {
		case RH_SHA384: case RH_SHA512: B = 128; break;
		case RH_SHA3_224: B = 144; break;
		case RH_SHA3_256: B = 136; break;
		case RH_SHA3_384: B = 104; break;
		case RH_SHA3_512: B = 72; break;
		default: B = 64;
	}
	memset(k0, 0, sizeof k0);
	if (keylen > B) {
		ref_imprint(alg, key, keylen, tmp);
		memcpy(k0, tmp + 1, (size_t)L);
	} else memcpy(k0, key, keylen);
	for (i = 0; i < B; i++) { ipad[i] = k0[i] ^ 0x36; opad[i] = k0[i] ^ 0x5c; }
	il = ref_imprint2(alg, ipad, B, data, n, NULL, 0, inner);
	(void)il;
	return ref_imprint2(alg, opad, B, inner + 1, (size_t)L, NULL, 0, out);
}

/* ======================================================================== chains */
int ref_chain_aggregate(int alg, const unsigned char *in, size_t in_len, int start_level,
                        const rlink *links, size_t n, unsigned char out[RH_MAX_IMPRINT], size_t *out_len, int *out_level) {
	unsigned char cur[RH_MAX_IMPRINT];
	size_t cur_len = in_len, i;
	uint64_t level = (uint64_t)start_level;
	if (in_len > RH_MAX_IMPRINT) return -1;
	memcpy(cur, in, in_len);
	for (i = 0; i < n; i++) {
		const rlink *l = &links[i];
		unsigned char lv, nxt[RH_MAX_IMPRINT];
		size_t nl;
		if (l->level_corr > 255) return -1;
		level = level + l->level_corr + 1;
		if (level > 255) return -1;
		lv = (unsigned char)level;
		if (l->is_left) nl = ref_imprint2(alg, cur, cur_len, l->sib, l->sib_len, &lv, 1, nxt);
		else nl = ref_imprint2(alg, l->sib, l->sib_len, cur, cur_len, &lv, 1, nxt);
		if (nl == 0) return -2;
		memcpy(cur, nxt, nl);
		cur_len = nl;
	}
	memcpy(out, cur, cur_len);
	*out_len = cur_len;
	*out_level = (int)level;
	return 0;
}

int ref_cal_aggregate(const unsigned char *in, size_t in_len, const rlink *links, size_t n,
                      unsigned char out[RH_MAX_IMPRINT], size_t *out_len) {
	unsigned char cur[RH_MAX_IMPRINT];
	size_t cur_len = in_len, i;
	int alg;
	unsigned char lv = 0xff;
	if (in_len < 1 || in_len > RH_MAX_IMPRINT) return -1;
	alg = in[0];
	memcpy(cur, in, in_len);
	for (i = 0; i < n; i++) {
		const rlink *l = &links[i];
		unsigned char nxt[RH_MAX_IMPRINT];
		size_t nl;
		if (l->is_left) {
			/* the algorithm of a left link's sibling becomes the hashing algorithm */
			alg = l->sib[0];
			nl = ref_imprint2(alg, cur, cur_len, l->sib, l->sib_len, &lv, 1, nxt);
		} else {
			nl = ref_imprint2(alg, l->sib, l->sib_len, cur, cur_len, &lv, 1, nxt);
		}
		if (nl == 0) return -2;
		memcpy(cur, nxt, nl);
		cur_len = nl;
	}
	memcpy(out, cur, cur_len);
	*out_len = cur_len;
	return 0;
}

static uint64_t hb64(uint64_t r) {
	uint64_t h = 1;
	if (r == 0) return 0;
	while ((r >> 1) >= h) h <<= 1;
	return h;
}

int ref_cal_shape(uint64_t t, uint64_t P, int dirs[130]) {
	/* root-first walk, then reversed to leaf-first */
	int tmp[130], n = 0, i;
	uint64_t r = P;
	if (t > P) return -1;
	while (r > 0) {
		uint64_t h = hb64(r);
		if (t < h) { tmp[n++] = 1; r = h - 1; }
		else { tmp[n++] = 0; t -= h; r -= h; }
		if (n >= 129) return -1;
	}
	for (i = 0; i < n; i++) dirs[i] = tmp[n - 1 - i];
	return n;
}

int ref_cal_time(const int *dirs, int n, uint64_t P, uint64_t *t) {
	uint64_t r = P, acc = 0;
	int i;
	for (i = n - 1; i >= 0; i--) {
		uint64_t h;
		if (r == 0) return -1;          /* more links than the tree has levels */
		h = hb64(r);
		if (dirs[i]) r = h - 1;
		else { acc += h; r -= h; }
	}
	if (r != 0) return -1;              /* path ends above a leaf */
	*t = acc;
	return 0;
}

uint64_t ref_shape_index(const int *is_left, int n) {
	uint64_t v = 1;
	int i;
	for (i = n - 1; i >= 0; i--) v = (v << 1) | (is_left[i] ? 1u : 0u);
	return v;
}

void ref_link_tlv(vbuf *out, const rlink *l) {
	vbuf in;
	vb_init(&in);
	if (l->level_corr != 0 || l->has_level_corr) rtlv_put_u64(&in, 0x01, l->level_corr);
	switch (l->kind) {
		case RL_IMPRINT: rtlv_put(&in, 0x02, 0, 0, l->sib, l->sib_len, 0); break;
		case RL_LEGACY: rtlv_put(&in, 0x03, 0, 0, l->sib, l->sib_len, 0); break;
		default: rtlv_put(&in, 0x04, 0, 0, l->sib, l->sib_len, 0); break;
	}
	rtlv_put(out, l->is_left ? 0x07 : 0x08, 0, 0, in.p, in.n, 0);
	vb_free(&in);
}

void ref_link_imprint(rlink *l, int is_left, int alg, unsigned seed, uint64_t corr) {
	memset(l, 0, sizeof *l);
	l->is_left = is_left; l->kind = RL_IMPRINT; l->level_corr = corr;
	l->sib_len = ref_fake_imprint(alg, seed, l->sib);
}
void ref_link_legacy(rlink *l, int is_left, const char *name, uint64_t corr) {
	size_t k = strlen(name);
	memset(l, 0, sizeof *l);
	if (k > 25) k = 25;
	l->is_left = is_left; l->kind = RL_LEGACY; l->level_corr = corr;
	l->sib[0] = 0x03; l->sib[1] = 0x00; l->sib[2] = (unsigned char)k;
	memcpy(l->sib + 3, name, k);
	l->sib_len = 29;
}
uint64_t ref_meta_seqnr = 7;   /* sequence number written by ref_link_meta(with_extra) */
void ref_link_meta(rlink *l, int is_left, const char *client, int padding_mode, int with_extra, uint64_t corr) {
	vbuf b, body;
	memset(l, 0, sizeof *l);
	l->is_left = is_left; l->kind = RL_META; l->level_corr = corr;
	vb_init(&b); vb_init(&body);
	rtlv_put_str(&body, 0x01, client);
	if (with_extra) {
		rtlv_put_str(&body, 0x02, "machine");
		rtlv_put_u64(&body, 0x03, ref_meta_seqnr);
		rtlv_put_u64(&body, 0x04, 1500000000000000ULL);
	}
	if (padding_mode == 1) {
		/* padding element: tag 0x1e, flags N and F set, TLV8, value 01 or 0101 so that the
		 * total metadata length is even */
		static const unsigned char one[2] = {1, 1};
		size_t padlen = ((body.n + 2 + 1) % 2 == 0) ? 1 : 2;
		rtlv_put(&b, 0x1e, 1, 1, one, padlen, 0);
	}
	vb_putvb(&b, &body);
	if (b.n > sizeof l->sib) { fprintf(stderr, "ref_link_meta: too long\n"); exit(2); }
	memcpy(l->sib, b.p, b.n);
	l->sib_len = b.n;
	vb_free(&b); vb_free(&body);
}

/* ======================================================================== crc32 / base32 */
uint32_t ref_crc32(const void *d, size_t n) {
	/* bitwise CRC-32 (IEEE 802.3, reflected, init/xorout 0xffffffff) */
	const unsigned char *p = (const unsigned char *)d;
	uint32_t c = 0xffffffffu;
	size_t i;
	int k;
	for (i = 0; i < n; i++) {
		c ^= p[i];
		for (k = 0; k < 8; k++) c = (c >> 1) ^ (0xedb88320u & (0u - (c & 1u)));
	}
	return c ^ 0xffffffffu;
}

void ref_b32_encode(const unsigned char *d, size_t n, int group, char *out, size_t cap) {
	static const char A[] = "ABCDEFGHIJKLMNOPQRSTUVWXYZ234567";
	size_t nbits = n * 8, bit = 0, o = 0, sym = 0;
	while (bit < nbits) {
		unsigned v = 0;
		int k;
		for (k = 0; k < 5; k++) {
			size_t b = bit + (size_t)k;
			unsigned x = 0;
			if (b < nbits) x = (d[b / 8] >> (7 - (b % 8))) & 1u;
			v = (v << 1) | x;
		}
		if (group > 0 && sym > 0 && sym % (size_t)group == 0) { if (o + 1 < cap) out[o++] = '-'; }
		if (o + 1 < cap) out[o++] = A[v];
		sym++;
		bit += 5;
	}
	out[o] = 0;
}

void ref_pubstring(uint64_t t, const unsigned char *imprint, size_t ilen, char *out, size_t cap) {
	unsigned char buf[8 + RH_MAX_IMPRINT + 4];
	uint32_t c;
	int i;
	for (i = 0; i < 8; i++) buf[i] = (unsigned char)(t >> (8 * (7 - i)));
	memcpy(buf + 8, imprint, ilen);
	c = ref_crc32(buf, 8 + ilen);
	buf[8 + ilen] = (unsigned char)(c >> 24);
	buf[9 + ilen] = (unsigned char)(c >> 16);
	buf[10 + ilen] = (unsigned char)(c >> 8);
	buf[11 + ilen] = (unsigned char)c;
	ref_b32_encode(buf, 12 + ilen, 6, out, cap);
}
