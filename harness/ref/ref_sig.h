/* ref_sig.h - reference model of a KSI signature: descriptor, constructive builder, serializer,
 * strict reference parser and reference evaluator of the internal consistency conditions.
 * Independent of libksi. */
#ifndef REF_SIG_H_
#define REF_SIG_H_
#include "ref.h"

#define RS_MAXCH 5
#define RS_MAXLINKS 10
#define RS_MAXIDX 10
#define RS_MAXCAL 72
#define RS_MAXBLOB 300

typedef struct {
	uint64_t aggr_time;
	uint64_t index[RS_MAXIDX]; int nindex;
	unsigned char input[RH_MAX_IMPRINT]; size_t input_len;
	unsigned char input_data[64]; size_t input_data_len; int has_input_data;
	uint64_t alg;
	rlink links[RS_MAXLINKS]; int nlinks;
} rs_chain;

typedef struct {
	uint64_t aggr_time;
	uint64_t index[RS_MAXIDX]; int nindex;
	unsigned char input[RH_MAX_IMPRINT]; size_t input_len;
	unsigned char tst_prefix[40], tst_suffix[40], sig_prefix[40], sig_suffix[40];
	size_t tst_prefix_len, tst_suffix_len, sig_prefix_len, sig_suffix_len;
	uint64_t tst_alg, sig_alg;
} rs_rfc3161;

typedef struct {
	int nchains; rs_chain ch[RS_MAXCH];
	/* calendar chain */
	int has_cal;
	uint64_t cal_pub_time; int cal_has_aggr; uint64_t cal_aggr_time;
	unsigned char cal_input[RH_MAX_IMPRINT]; size_t cal_input_len;
	rlink cal[RS_MAXCAL]; int ncal;
	/* publication record */
	int has_pub; uint64_t pub_time; unsigned char pub_hash[RH_MAX_IMPRINT]; size_t pub_hash_len;
	int pub_nrefs;            /* number of 0x09 reference strings emitted */
	/* calendar authentication record */
	int has_auth; uint64_t auth_time; unsigned char auth_hash[RH_MAX_IMPRINT]; size_t auth_hash_len;
	char auth_sigtype[64];
	unsigned char auth_sig[600]; size_t auth_sig_len;
	unsigned char auth_certid[32]; size_t auth_certid_len;
	/* rfc3161 record */
	int has_rfc; rs_rfc3161 rfc;
	/* serialization order of the top-level elements: 0 = chains, calendar, tail, rfc3161 */
	int order_variant;
} rsig;

/* construction parameters for a consistent signature */
typedef struct {
	int doc_alg; unsigned doc_seed;       /* document (input) hash */
	int nchains;
	int nlinks[RS_MAXCH];                 /* links per chain */
	int chain_alg[RS_MAXCH];
	/* per link descriptor: bits 0 dir(1=left), 1-2 kind (0 imprint,1 legacy,2 meta+pad,3 meta nopad), value>>3 = level correction */
	unsigned link_desc[RS_MAXCH][RS_MAXLINKS];
	uint64_t aggr_time;
	int tail;                             /* 0 no calendar chain, 1 calendar chain only, 2 + publication record, 3 + calendar auth record */
	uint64_t pub_time;                    /* calendar publication time (> aggr_time) */
	int with_rfc3161;
	int sib_alg;                          /* algorithm of sibling imprints */
} rs_params;

void rs_default_params(rs_params *p);
/* builds a signature that satisfies every consistency condition */
void rs_build(rsig *s, const rs_params *p);

/* recomputation helpers used by mutation catalogues. Each returns 0 or -1 if not computable */
#define RS_FIX_INPUTS   0x01   /* next-chain inputs := previous outputs (from chain `from`+1 on) */
#define RS_FIX_INDEX    0x02   /* chain indices := canonical from link directions */
#define RS_FIX_CAL_IN   0x04   /* calendar input := aggregation root */
#define RS_FIX_TAIL     0x08   /* publication / auth record hash := calendar root; times := calendar publication time */
#define RS_FIX_RFC      0x10   /* first chain input := rfc3161 output hash */
#define RS_FIX_CALSHAPE 0x20   /* calendar link directions := shape(cal aggr time, pub time) */
#define RS_FIX_ALL      0x3f
int rs_fix(rsig *s, unsigned what);
/* calendar path of second t in the tree published at P (virtual calendar siblings); returns link count or -1 */
int rs_calendar_links(uint64_t t, uint64_t P, rlink *out, int max);
/* output of chain i starting at level `lvl`; returns 0 / -1 rejected / -2 not computable */
int rs_chain_output(const rsig *s, int i, int start_level, unsigned char out[RH_MAX_IMPRINT], size_t *out_len, int *out_level);
int rs_aggr_root(const rsig *s, int start_level, unsigned char out[RH_MAX_IMPRINT], size_t *out_len, int *out_level);
int rs_cal_root(const rsig *s, unsigned char out[RH_MAX_IMPRINT], size_t *out_len);
int rs_rfc_output(const rsig *s, unsigned char out[RH_MAX_IMPRINT], size_t *out_len);

void rs_serialize(const rsig *s, vbuf *out);
void rs_serialize_chain(const rs_chain *c, vbuf *out);
void rs_serialize_cal(const rsig *s, vbuf *out);
/* strict reference parser. returns 0 ok; -1 = not a signature this reference understands */
int rs_parse(const unsigned char *p, size_t n, rsig *s);

/* evaluation of the consistency conditions. Bit k (1..17) of *violated set when condition INT-k is
 * violated; bit k of *uncomputable set when the comparison for INT-k can not even be evaluated */
typedef struct {
	unsigned violated;
	unsigned uncomputable;
	int nviolated;
} rs_verdict;
void rs_eval(const rsig *s, rs_verdict *v);
/* document hash / signing time as seen by a verifier */
void rs_document_hash(const rsig *s, const unsigned char **h, size_t *n);
uint64_t rs_signing_time(const rsig *s);
uint64_t rs_first_level_corr(const rsig *s);
#endif
