/* ref.h - reference KSI model, independent of libksi. Depends on libc and on OpenSSL's
 * primitive digest / HMAC functions only. */
#ifndef REF_H_
#define REF_H_
#include <stdint.h>
#include <stddef.h>
#include "../vf.h"

/* ---------------- TLV ---------------- */
typedef struct {
	unsigned tag;
	int nc, fw;          /* non-critical, forward flags */
	int is16;            /* header form */
	size_t hdr, len;     /* header length, payload length */
	const unsigned char *val;
} rtlv;
/* parse one element at p (n bytes available). Returns 0 on success (element fits in n). */
int  rtlv_read(const unsigned char *p, size_t n, rtlv *t);
/* find the k-th (0-based) child with the given tag inside payload. returns 0 when found */
int  rtlv_find(const unsigned char *p, size_t n, unsigned tag, int k, rtlv *t);
/* count children; returns -1 if the payload is not an exact tiling of TLVs */
int  rtlv_count(const unsigned char *p, size_t n);
/* append an element; force16: 1 = always 4-byte header. The shortest form is used otherwise.
 * returns -1 (nothing written) if len > 0xffff or tag > 0x1fff */
int  rtlv_put(vbuf *out, unsigned tag, int nc, int fw, const void *payload, size_t len, int force16);
int  rtlv_put_u64(vbuf *out, unsigned tag, uint64_t v);            /* minimal big-endian, 0 -> empty */
int  rtlv_put_str(vbuf *out, unsigned tag, const char *s);         /* with NUL terminator */
size_t ref_u64_bytes(uint64_t v, unsigned char out[8]);           /* minimal big endian */
int  rtlv_get_u64(const rtlv *t, uint64_t *v);                     /* -1 if > 8 bytes or leading zero */

/* ---------------- hash ---------------- */
/* KSI algorithm ids */
enum { RH_SHA1 = 0, RH_SHA256 = 1, RH_RIPEMD160 = 2, RH_SHA384 = 4, RH_SHA512 = 5,
       RH_SHA3_224 = 7, RH_SHA3_256 = 8, RH_SHA3_384 = 9, RH_SHA3_512 = 10, RH_SM3 = 11 };
#define RH_MAX_IMPRINT 65
int  ref_hash_len(int alg);                 /* digest length of a known algorithm id, 0 if unknown */
int  ref_hash_computable(int alg);          /* 1 if the reference can compute it (OpenSSL) */
const char *ref_hash_name(int alg);
/* imprint = alg byte || digest. returns imprint length, 0 on failure */
size_t ref_imprint(int alg, const void *data, size_t n, unsigned char out[RH_MAX_IMPRINT]);
size_t ref_imprint2(int alg, const void *a, size_t an, const void *b, size_t bn, const void *c, size_t cn, unsigned char out[RH_MAX_IMPRINT]);
/* a deterministic filler imprint (digest bytes derived from seed) */
size_t ref_fake_imprint(int alg, unsigned seed, unsigned char out[RH_MAX_IMPRINT]);
/* hash algorithm life cycle (from the KSI spec table used by the SDK): SHA-1 deprecated from 2016-07-01 */
#define REF_SHA1_DEPRECATED_FROM 1467331200ULL
int  ref_hash_deprecated_at(int alg, uint64_t t);   /* 1 if deprecated at t */
int  ref_backend_supports(int alg);                 /* computable by the SDK's OpenSSL back end */
int  ref_hash_trusted(int alg);                     /* never deprecated / obsolete, and known */
size_t ref_hmac(int alg, const void *key, size_t keylen, const void *data, size_t n, unsigned char out[RH_MAX_IMPRINT]);

/* ---------------- chains ---------------- */
enum { RL_IMPRINT = 0, RL_LEGACY = 1, RL_META = 2 };
typedef struct {
	int is_left;
	int kind;                       /* RL_* */
	uint64_t level_corr;
	int has_level_corr;             /* emit the element even when 0? (0 = only when non-zero) */
	unsigned char sib[300];         /* bytes that enter the hash: imprint / 29 legacy bytes / metadata payload */
	size_t sib_len;
} rlink;
/* aggregation chain step arithmetic. returns 0 and sets out / out_level, or -1 if the chain must
 * be rejected (correction > 255 or level leaves 0..255), or -2 if a digest is not computable */
int ref_chain_aggregate(int alg, const unsigned char *in, size_t in_len, int start_level,
                        const rlink *links, size_t n, unsigned char out[RH_MAX_IMPRINT], size_t *out_len, int *out_level);
/* calendar chain: links carry imprints only. algorithm = input's, switched by left links */
int ref_cal_aggregate(const unsigned char *in, size_t in_len, const rlink *links, size_t n,
                      unsigned char out[RH_MAX_IMPRINT], size_t *out_len);
/* shape of the calendar path of time t in a calendar tree published at P: dirs[i] = 1 (left
 * link) / 0 (right link), leaf-first. returns number of links, -1 if t > P. cap 64+ */
int ref_cal_shape(uint64_t t, uint64_t P, int dirs[130]);
/* inverse: given dirs (leaf first) and P, the time or -1 when the shape is impossible */
int ref_cal_time(const int *dirs, int n, uint64_t P, uint64_t *t);
/* chain index bit string from link directions (leaf first): leading 1 then, from the LAST
 * link to the first, bit = is_left */
uint64_t ref_shape_index(const int *is_left, int n);

/* serialize a link as TLV (tag 7 left / 8 right) for aggregation chains */
void ref_link_tlv(vbuf *out, const rlink *l);
/* helpers to fill links */
void ref_link_imprint(rlink *l, int is_left, int alg, unsigned seed, uint64_t corr);
void ref_link_legacy(rlink *l, int is_left, const char *name, uint64_t corr);
/* metadata: padding_mode 0 = none, 1 = correct padding so that the length is even,
 * payload = [padding] client id [machine id] [seq] [req time] */
extern uint64_t ref_meta_seqnr;
void ref_link_meta(rlink *l, int is_left, const char *client, int padding_mode, int with_extra, uint64_t corr);

/* ---------------- base32 / crc32 ---------------- */
uint32_t ref_crc32(const void *d, size_t n);
/* encode with groups of `group` symbols separated by '-', (0 = no grouping); pads with '=' to a
 * multiple of 8 symbols when pad != 0 */
void ref_b32_encode(const unsigned char *d, size_t n, int group, char *out, size_t cap);
/* publication string for (time, imprint) */
void ref_pubstring(uint64_t t, const unsigned char *imprint, size_t ilen, char *out, size_t cap);

#endif
