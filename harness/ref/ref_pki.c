/* ref_pki.c - test PKI and reference publications-file builder (see ref_pki.h) */
#define _GNU_SOURCE
#include "ref_pki.h"
#include <string.h>
#include <stdlib.h>
#include <stdio.h>
#include <unistd.h>
#include <sys/stat.h>
#include <openssl/evp.h>
#include <openssl/rsa.h>
#include <openssl/x509.h>
#include <openssl/x509v3.h>
#include <openssl/pkcs7.h>
#include <openssl/pem.h>
#include <openssl/err.h>

static rk_cert CA[2];
static EVP_PKEY *ee_key[2];
static int inited;
static char ca_path[2][512];
static long serial = 1000;

static void die(const char *m) {
	fprintf(stderr, "ref_pki: %s\n", m);
	ERR_print_errors_fp(stderr);
	exit(2);
}

static void fill_der(rk_cert *c) {
	unsigned char *p = c->der;
	int n = i2d_X509((X509 *)c->x509, NULL);
	uint32_t crc;
	if (n <= 0 || (size_t)n > sizeof c->der) die("certificate too large");
	i2d_X509((X509 *)c->x509, &p);
	c->der_len = (size_t)n;
	crc = ref_crc32(c->der, c->der_len);
	c->id[0] = (unsigned char)(crc >> 24); c->id[1] = (unsigned char)(crc >> 16); c->id[2] = (unsigned char)(crc >> 8); c->id[3] = (unsigned char)crc;
}

static X509 *make_cert(EVP_PKEY *subject_key, const char *email, const char *cn, int64_t nb, int64_t na, X509 *issuer, EVP_PKEY *issuer_key, int is_ca) {
	X509 *x = X509_new();
	X509_NAME *nm;
	X509_EXTENSION *ex;
	X509V3_CTX v3;
	if (!x) die("X509_new");
	X509_set_version(x, 2);
	ASN1_INTEGER_set(X509_get_serialNumber(x), serial++);
	ASN1_TIME_set(X509_getm_notBefore(x), (time_t)nb);
	ASN1_TIME_set(X509_getm_notAfter(x), (time_t)na);
	X509_set_pubkey(x, subject_key);
	nm = X509_get_subject_name(x);
	X509_NAME_add_entry_by_txt(nm, "C", MBSTRING_ASC, (const unsigned char *)"EE", -1, -1, 0);
	X509_NAME_add_entry_by_txt(nm, "O", MBSTRING_ASC, (const unsigned char *)"Verif Test", -1, -1, 0);
	X509_NAME_add_entry_by_txt(nm, "CN", MBSTRING_ASC, (const unsigned char *)cn, -1, -1, 0);
	if (email) X509_NAME_add_entry_by_txt(nm, "emailAddress", MBSTRING_ASC, (const unsigned char *)email, -1, -1, 0);
	X509_set_issuer_name(x, issuer ? X509_get_subject_name(issuer) : nm);
	X509V3_set_ctx_nodb(&v3);
	X509V3_set_ctx(&v3, issuer ? issuer : x, x, NULL, NULL, 0);
	ex = X509V3_EXT_conf_nid(NULL, &v3, NID_basic_constraints, is_ca ? "critical,CA:TRUE" : "CA:FALSE");
	if (ex) { X509_add_ext(x, ex, -1); X509_EXTENSION_free(ex); }
	if (is_ca) {
		ex = X509V3_EXT_conf_nid(NULL, &v3, NID_key_usage, "critical,keyCertSign,cRLSign");
		if (ex) { X509_add_ext(x, ex, -1); X509_EXTENSION_free(ex); }
	}
	ex = X509V3_EXT_conf_nid(NULL, &v3, NID_subject_key_identifier, "hash");
	if (ex) { X509_add_ext(x, ex, -1); X509_EXTENSION_free(ex); }
	if (!X509_sign(x, issuer_key, EVP_sha256())) die("X509_sign");
	return x;
}

/* keys are generated once per build directory and shared by all processes (deterministic test PKI, no
 * per-process key generation); concurrent first use is resolved by writing to a temporary name and
 * linking it into place (the first one wins, everybody then loads the winner) */
static EVP_PKEY *load_or_make_key(const char *dir, const char *name) {
	char path[600], tmp[640];
	FILE *f;
	EVP_PKEY *k = NULL;
	int tries;
	snprintf(path, sizeof path, "%s/%s.key.pem", dir, name);
	for (tries = 0; tries < 3 && !k; tries++) {
		f = fopen(path, "r");
		if (f) { k = PEM_read_PrivateKey(f, NULL, NULL, NULL); fclose(f); if (k) break; }
		k = EVP_RSA_gen(2048);
		if (!k) die("RSA keygen");
		snprintf(tmp, sizeof tmp, "%s.%d.tmp", path, (int)getpid());
		f = fopen(tmp, "w");
		if (!f) die("cannot write key file");
		PEM_write_PrivateKey(f, k, NULL, NULL, 0, NULL, NULL);
		fclose(f);
		if (link(tmp, path) != 0) { EVP_PKEY_free(k); k = NULL; }   /* somebody else was first: load theirs */
		unlink(tmp);
	}
	if (!k) die("cannot obtain key");
	return k;
}

void rk_init(void) {
	int i;
	const char *dir = getenv("VERIF_DIR");
	char d[400];
	if (inited) return;
	inited = 1;
	snprintf(d, sizeof d, "%s/build", dir ? dir : "/verif");
	mkdir(d, 0755);
	snprintf(d, sizeof d, "%s/build/pki", dir ? dir : "/verif");
	mkdir(d, 0755);
	for (i = 0; i < 2; i++) {
		EVP_PKEY *k = load_or_make_key(d, i ? "ca_rogue" : "ca_good");
		char tmp[640];
		FILE *f;
		CA[i].pkey = k;
		serial = 1 + i;
		CA[i].x509 = make_cert(k, NULL, i ? "Rogue Test CA" : "Verif Test CA", 946684800, 4102444800LL, NULL, k, 1);
		fill_der(&CA[i]);
		ee_key[i] = load_or_make_key(d, i ? "ee_rogue" : "ee_good");
		snprintf(ca_path[i], sizeof ca_path[i], "%s/ca_%d.pem", d, i);
		snprintf(tmp, sizeof tmp, "%s.%d.tmp", ca_path[i], (int)getpid());
		f = fopen(tmp, "w");
		if (!f) die("cannot write CA file");
		PEM_write_X509(f, (X509 *)CA[i].x509);
		fclose(f);
		rename(tmp, ca_path[i]);     /* content is identical in every process (RSA PKCS#1 v1.5 signatures are deterministic) */
	}
	/* the platform's own certificate store (what OpenSSL's default paths lead to) holds only the ROGUE CA: an application that
	 * configures its own truststore (created without the platform defaults) must not end up trusting it */
	setenv("SSL_CERT_FILE", ca_path[1], 1);
	setenv("SSL_CERT_DIR", "/nonexistent-verif-cert-dir", 1);
	serial = 1000;
}

rk_cert *rk_ca(int rogue) { rk_init(); return &CA[rogue ? 1 : 0]; }
const char *rk_ca_file(int rogue) { rk_init(); return ca_path[rogue ? 1 : 0]; }

void rk_issue(rk_cert *out, int rogue_ca, const char *email, const char *cn, int64_t nb, int64_t na) {
	rk_init();
	memset(out, 0, sizeof *out);
	out->pkey = ee_key[rogue_ca ? 1 : 0];
	EVP_PKEY_up_ref((EVP_PKEY *)out->pkey);
	out->x509 = make_cert((EVP_PKEY *)out->pkey, email, cn, nb, na, (X509 *)CA[rogue_ca ? 1 : 0].x509, (EVP_PKEY *)CA[rogue_ca ? 1 : 0].pkey, 0);
	fill_der(out);
}

void rk_cert_free(rk_cert *c) {
	if (c->x509) X509_free((X509 *)c->x509);
	if (c->pkey) EVP_PKEY_free((EVP_PKEY *)c->pkey);
	memset(c, 0, sizeof *c);
}

size_t rk_pkcs7_sign(const rk_cert *signer, const unsigned char *data, size_t n, unsigned char *out, size_t cap) {
	BIO *bio = BIO_new_mem_buf(data, (int)n);
	PKCS7 *p7 = PKCS7_sign((X509 *)signer->x509, (EVP_PKEY *)signer->pkey, NULL, bio, PKCS7_DETACHED | PKCS7_BINARY | PKCS7_NOSMIMECAP);
	unsigned char *p = out;
	int l;
	if (!p7) die("PKCS7_sign");
	l = i2d_PKCS7(p7, NULL);
	if (l <= 0 || (size_t)l > cap) die("PKCS7 too large");
	i2d_PKCS7(p7, &p);
	PKCS7_free(p7);
	BIO_free(bio);
	return (size_t)l;
}

size_t rk_rsa_sign(const rk_cert *signer, const unsigned char *data, size_t n, unsigned char *out, size_t cap) {
	EVP_MD_CTX *c = EVP_MD_CTX_new();
	size_t sl = cap;
	if (!c || EVP_DigestSignInit(c, NULL, EVP_sha256(), NULL, (EVP_PKEY *)signer->pkey) != 1) die("DigestSignInit");
	if (EVP_DigestSign(c, out, &sl, data, n) != 1) die("DigestSign");
	EVP_MD_CTX_free(c);
	return sl;
}

/* reference verification with plain OpenSSL: 1 = sig is a valid detached PKCS#7 signature over data whose signer
 * chains to the chosen CA and whose subject e-mail equals `email` (NULL = do not check) */
int rk_pkcs7_verify(const unsigned char *data, size_t n, const unsigned char *sig, size_t sl, int rogue_ca, const char *email) {
	const unsigned char *p = sig;
	PKCS7 *p7 = d2i_PKCS7(NULL, &p, (long)sl);
	X509_STORE *st;
	BIO *bio;
	STACK_OF(X509) *signers;
	int ok = 0;
	ERR_clear_error();
	if (!p7 || (size_t)(p - sig) != sl) { if (p7) PKCS7_free(p7); ERR_clear_error(); return 0; }
	if (!PKCS7_type_is_signed(p7) || !p7->d.sign) { PKCS7_free(p7); ERR_clear_error(); return 0; }
	st = X509_STORE_new();
	X509_STORE_add_cert(st, (X509 *)CA[rogue_ca ? 1 : 0].x509);
	bio = BIO_new_mem_buf(data, (int)n);
	if (PKCS7_verify(p7, NULL, st, bio, NULL, PKCS7_BINARY) == 1) {
		ok = 1;
		if (email) {
			signers = PKCS7_get0_signers(p7, NULL, 0);
			ok = 0;
			if (signers && sk_X509_num(signers) >= 1) {
				char buf[256];
				X509 *x = sk_X509_value(signers, 0);
				if (X509_NAME_get_text_by_NID(X509_get_subject_name(x), NID_pkcs9_emailAddress, buf, sizeof buf) >= 0 && strcmp(buf, email) == 0) ok = 1;
			}
			if (signers) sk_X509_free(signers);
		}
	}
	BIO_free(bio);
	X509_STORE_free(st);
	PKCS7_free(p7);
	ERR_clear_error();
	return ok;
}

void rk_sign_auth_record(rsig *s, const rk_cert *signer) {
	vbuf d, pd;
	vb_init(&d); vb_init(&pd);
	rtlv_put_u64(&d, 0x02, s->auth_time);
	rtlv_put(&d, 0x04, 0, 0, s->auth_hash, s->auth_hash_len, 0);
	rtlv_put(&pd, 0x10, 0, 1, d.p, d.n, 0);   /* the published-data element as it stands in the record */
	strcpy(s->auth_sigtype, RK_SIGTYPE_SHA256_RSA);
	s->auth_sig_len = rk_rsa_sign(signer, pd.p, pd.n, s->auth_sig, sizeof s->auth_sig);
	memcpy(s->auth_certid, signer->id, 4); s->auth_certid_len = 4;
	vb_free(&d); vb_free(&pd);
}

/* ------------------------------------------------------------------ publications file */
void rpf_header(const rpubfile *f, vbuf *out) {
	vbuf b;
	vb_init(&b);
	rtlv_put_u64(&b, 0x01, f->version);
	rtlv_put_u64(&b, 0x02, f->created);
	rtlv_put(out, 0x0701, 0, 0, b.p, b.n, 0);
	vb_free(&b);
}
void rpf_cert_record(const rk_cert *c, vbuf *out) {
	vbuf b;
	vb_init(&b);
	rtlv_put(&b, 0x01, 0, 0, c->id, 4, 0);
	rtlv_put(&b, 0x02, 0, 0, c->der, c->der_len, 0);
	rtlv_put(out, 0x0702, 0, 0, b.p, b.n, 0);
	vb_free(&b);
}
void rpf_pub_record(uint64_t t, const unsigned char *h, size_t hl, vbuf *out) {
	vbuf b, d;
	vb_init(&b); vb_init(&d);
	rtlv_put_u64(&d, 0x02, t);
	rtlv_put(&d, 0x04, 0, 0, h, hl, 0);
	rtlv_put(&b, 0x10, 0, 0, d.p, d.n, 0);
	rtlv_put_str(&b, 0x09, "ref: test publication");
	rtlv_put(out, 0x0703, 0, 0, b.p, b.n, 0);
	vb_free(&b); vb_free(&d);
}
void rpf_sig_record(const rk_cert *signer, const unsigned char *signed_data, size_t n, vbuf *out) {
	unsigned char *p7 = (unsigned char *)malloc(16384);
	size_t l = rk_pkcs7_sign(signer, signed_data, n, p7, 16384);
	rtlv_put(out, 0x0704, 0, 0, p7, l, 0);
	free(p7);
}
void rpf_serialize(const rpubfile *f, const rk_cert *signer, vbuf *out, size_t *signed_len) {
	int i;
	size_t start = out->n;
	vb_put(out, "KSIPUBLF", 8);
	rpf_header(f, out);
	for (i = 0; i < f->ncerts; i++) rpf_cert_record(f->certs[i], out);
	for (i = 0; i < f->npubs; i++) rpf_pub_record(f->pub_time[i], f->pub_hash[i], f->pub_hash_len[i], out);
	if (signed_len) *signed_len = out->n - start;
	if (signer) rpf_sig_record(signer, out->p + start, out->n - start, out);
}
