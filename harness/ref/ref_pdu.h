/* ref_pdu.h - reference model of KSI request / response PDUs (versions 1 and 2) with HMAC,
 * reference aggregator and extender. Independent of libksi. */
#ifndef REF_PDU_H_
#define REF_PDU_H_
#include "ref_sig.h"

enum { RP_AGGR = 0, RP_EXT = 1 };

typedef struct {
	int version;                 /* 1 or 2 */
	int kind;                    /* RP_AGGR / RP_EXT */
	unsigned outer_tag;
	int has_header; char login[256]; int has_instance, has_msgid; uint64_t instance_id, message_id;
	int header_first;            /* header was the first element */
	int npayload;                /* number of payload elements (requests / conf requests) */
	int has_req; uint64_t req_id;
	int has_hash; unsigned char hash[RH_MAX_IMPRINT]; size_t hash_len;
	int has_level; uint64_t level;
	int has_aggr_time, has_pub_time; uint64_t aggr_time, pub_time;
	int has_conf_req;
	int has_mac; int mac_last; unsigned char mac[RH_MAX_IMPRINT]; size_t mac_len;
	/* authenticated byte range as the reference defines it: v2 = [0, mac_in_len) of the PDU;
	 * v1 = header TLV followed by payload TLV (copied into mac_in) */
	vbuf mac_in;
} rp_req;

/* parse what a client emitted. returns 0 when the bytes are a PDU of the given kind */
int rp_parse_request(const unsigned char *p, size_t n, int kind, rp_req *r);
void rp_req_free(rp_req *r);
/* 1 when the request's MAC is the HMAC of the authenticated range under (alg of the MAC imprint, key) */
int rp_request_mac_ok(const rp_req *r, const void *key, size_t keylen);

/* ---- response construction ---- */
#define RP_F_NO_HEADER   0x01
#define RP_F_NO_MAC      0x02
#define RP_F_MAC_FIRST   0x04     /* MAC element placed before the payload (not last) */
#define RP_F_BAD_MAC     0x08     /* one bit of the digest flipped */
#define RP_F_HEADER_LAST 0x10
typedef struct {
	int version, kind;
	const char *login;
	int mac_alg;
	const void *key; size_t keylen;
	unsigned flags;
	uint64_t instance_id, message_id; int with_ids;
} rp_env;
/* wraps already encoded payload elements (v2: elements with tags 02/03/04/05; v1: one element 0x202/0x203/0x302/0x303)
 * into a response PDU with header and MAC */
void rp_wrap_response(vbuf *out, const rp_env *e, const unsigned char *payload, size_t payload_len);
/* same for a request PDU (used to craft inputs for parsers) */
void rp_wrap_request(vbuf *out, const rp_env *e, const unsigned char *payload, size_t payload_len);

/* payload builders (append one payload element in the form of the given version) */
void rp_aggr_resp_payload(vbuf *out, int version, uint64_t req_id, int with_status, uint64_t status, const char *errmsg,
                          const unsigned char *body, size_t body_len);
void rp_ext_resp_payload(vbuf *out, int version, uint64_t req_id, int with_status, uint64_t status, const char *errmsg,
                         int with_last, uint64_t cal_last, const unsigned char *cal_chain_tlv, size_t cal_len);
void rp_error_payload(vbuf *out, int version, int kind, uint64_t status, const char *errmsg);
/* aggregator configuration (v2 element 04 / v1 0x10 inside the response): fields < 0 are absent */
void rp_aggr_conf_payload(vbuf *out, int64_t max_level, int64_t aggr_algo, int64_t aggr_period, int64_t max_req, const char *parent_uri);
void rp_ext_conf_payload(vbuf *out, int64_t max_req, const char *parent_uri, int64_t cal_first, int64_t cal_last);

/* ---- reference aggregator: honest signature body for (hash, level) ----
 * shape selects the tree: number of chains 1..3, links per chain; tail: 1 calendar chain, 3 + auth record.
 * The result is an rsig whose first chain input is `hash` and whose first link carries level
 * correction `level`. */
void rp_aggregate(rsig *s, const unsigned char *hash, size_t hash_len, uint64_t level, int shape, int tail, uint64_t aggr_time, uint64_t pub_time);
/* body elements of an aggregation response (0801.. 0802 0805) taken from s */
void rp_sig_body(const rsig *s, vbuf *out);

/* ---- reference extender ----
 * calendar chain from aggregation time t to publication time P with the given input hash. Sibling
 * imprints are a deterministic function of (node position), so that two chains through the same
 * calendar agree on shared right links. */
void rp_extend(rsig *cal_out, const unsigned char *input, size_t input_len, uint64_t t, uint64_t P);
#endif
