/* C13 (HTTP transport part) - the asynchronous service over the curl multi client: explicit-state search over
 * event histories with the fake libcurl owned by the harness (every transfer completes when and how the
 * harness decides). Same shadow model and invariant as c13_async.c. */
#include <stdarg.h>
#include "ku.h"
#include "simnet.h"
#include "ref/ref_pdu.h"
#include <ksi/net_async.h>
#include <ksi/net_uri.h>
#include <ksi/impl/net_async_impl.h>
/* the HTTP async client is compiled into this translation unit so that its private state can be read */
#include "ksi/net_http_curl_async.c"

#define LOGIN "u13h"
#define KEY   "k13h"
#define MAXREQ 12

enum { EV_ADD = 0, EV_RUN, EV_DONE_VALID, EV_DONE_VALID_NEWEST, EV_DONE_CROSS, EV_DONE_BADMAC, EV_DONE_STATUS, EV_DONE_ERRPDU, EV_DONE_CURLERR, EV_DONE_HTTP500,
       EV_DONE_EMPTY, EV_DONE_TWO, EV_DONE_TRUNC, EV_DONE_GARBAGE, EV_CHUNK1, EV_MULTI_ERR, EV_ADD_ERR, EV_CLOCK_1, EV_CLOCK_BIG, EV_NEVENTS };
static const char EVCH[EV_NEVENTS + 1] = "ARvncmsex50tzgkMH+T";
#define LETTERS "ARvncmsex50tzgkMH+T = add,run,complete-oldest-valid,complete-newest-valid,oldest-with-reply-for-newest,bad-mac,status,error-pdu,curl-error,http-500,empty-body,valid+duplicate,truncated,garbage,1-byte-chunks,multi-perform-error,add-handle-error,clock+1,clock+big"

typedef struct { int cache, maxreq, snd, rcv, con; } config_t;
static const config_t CONFIGS[] = { {1, 1, 10, 10, 10}, {2, 2, 10, 10, 10}, {2, 1, 10, 10, 10}, {1, 1, 0, 10, 10}, {1, 1, 10, 0, 10}, {3, 3, 1, 1, 1} };
#define NCONFIGS ((int)(sizeof CONFIGS / sizeof *CONFIGS))

typedef struct {
	KSI_AsyncHandle *h;
	unsigned seed;
	uint64_t id;
	time_t add_time, sent_time;
	int submitted, done_scheduled, returned;
	int id_reply, honest_reply, stale_reply;      /* set when a scheduled completion has been performed */
	fc_easy *easy;
	/* what the scheduled completion carries */
	int comp_kind;                 /* 0 none, 1 bad data, 2 status / error pdu, 3 transport (curl / http) */
	uint64_t comp_id[2]; unsigned comp_seed[2]; int comp_n;
} sreq_t;

typedef struct {
	config_t cfg;
	KSI_CTX *ctx;
	KSI_AsyncService *svc;
	sreq_t req[MAXREQ]; int nreq, nreturned, total_added;
	size_t chunk;
	int cause_baddata, cause_status, cause_transport, cause_multi;
	long step;
	int violated;
} world_t;
static world_t W;
static char g_hist[40];
static int g_cfg;
#define HF(sig, ...) do { char _m[900]; snprintf(_m, sizeof _m, __VA_ARGS__); vf_fail(sig, "%s [history %s cfg %d; letters " LETTERS "]", _m, g_hist, g_cfg); W.violated = 1; } while (0)

static void h_submit(fc_easy *e) {
	rp_req r;
	int i;
	if (rp_parse_request(e->sent.p, e->sent.n, RP_AGGR, &r) == 0 && r.has_req) {
		if (!rp_request_mac_ok(&r, KEY, strlen(KEY))) HF("request-mac", "emitted request does not carry a valid MAC");
		for (i = 0; i < W.nreq; i++) {
			unsigned char h[RH_MAX_IMPRINT];
			size_t hl = ref_fake_imprint(RH_SHA256, W.req[i].seed, h);
			if (!W.req[i].submitted && !W.req[i].returned && r.has_hash && r.hash_len == hl && memcmp(r.hash, h, hl) == 0) {
				W.req[i].submitted = 1; W.req[i].id = r.req_id; W.req[i].sent_time = sn_now; W.req[i].easy = e;
				break;
			}
		}
	} else HF("request-unparsable", "transfer started with something that is not an aggregation request");
	rp_req_free(&r);
}

static void world_open(const config_t *cfg) {
	memset(&W, 0, sizeof W);
	W.cfg = *cfg;
	sn_reset(); fc_reset();
	fc.on_submit = h_submit;
	W.ctx = ku_ctx();
	if (KSI_SigningAsyncService_new(W.ctx, &W.svc) != KSI_OK) vf_harness_error("service");
	if (KSI_AsyncService_setEndpoint(W.svc, "ksi+http://a13.test:8080/sign", LOGIN, KEY) != KSI_OK) vf_harness_error("endpoint");
	KSI_AsyncService_setOption(W.svc, KSI_ASYNC_OPT_REQUEST_CACHE_SIZE, (void *)(size_t)cfg->cache);
	KSI_AsyncService_setOption(W.svc, KSI_ASYNC_OPT_MAX_REQUEST_COUNT, (void *)(size_t)cfg->maxreq);
	KSI_AsyncService_setOption(W.svc, KSI_ASYNC_OPT_SND_TIMEOUT, (void *)(size_t)cfg->snd);
	KSI_AsyncService_setOption(W.svc, KSI_ASYNC_OPT_RCV_TIMEOUT, (void *)(size_t)cfg->rcv);
	KSI_AsyncService_setOption(W.svc, KSI_ASYNC_OPT_CON_TIMEOUT, (void *)(size_t)cfg->con);
}
static void world_close(void) {
	/* complete whatever is still in flight with a transport error so that the service can release it */
	KSI_AsyncService_free(W.svc);
	KSI_CTX_free(W.ctx);
	if (fc_easy_live != 0) { HF("leak-http-handle", "%d curl easy handle(s) still alive after freeing service and context", fc_easy_live); fc_easy_live = 0; }
	if (vf_alloc_live != 0) { HF("leak", "%ld SDK allocations live after freeing service and context", vf_alloc_live); vf_alloc_live = 0; }
}
static int outstanding(void) { return W.nreq - W.nreturned; }

static void build_reply(vbuf *out, unsigned seed, uint64_t id, unsigned flags, uint64_t status) {
	rp_env e;
	rsig sig;
	vbuf body, payload;
	unsigned char h[RH_MAX_IMPRINT];
	size_t hl = ref_fake_imprint(RH_SHA256, seed, h);
	memset(&e, 0, sizeof e);
	e.version = 2; e.kind = RP_AGGR; e.login = LOGIN; e.mac_alg = RH_SHA256; e.key = KEY; e.keylen = strlen(KEY); e.flags = flags;
	vb_init(&body); vb_init(&payload);
	rp_aggregate(&sig, h, hl, 0, 0, 1, 1700000000ULL, 1700000000ULL + 86400);
	if (!status) rp_sig_body(&sig, &body);
	rp_aggr_resp_payload(&payload, 2, id, 1, status, status ? "refused" : NULL, body.p, body.n);
	rp_wrap_response(out, &e, payload.p, payload.n);
	vb_free(&body); vb_free(&payload);
}

static void check_returned(KSI_AsyncHandle *h) {
	int state = -1, err = 0, i, idx = -1;
	KSI_AsyncHandle_getState(h, &state);
	KSI_AsyncHandle_getError(h, &err);
	for (i = 0; i < W.nreq; i++) if (W.req[i].h == h && !W.req[i].returned) idx = i;
	if (idx < 0) { HF("foreign-handle", "run returned a handle that was never accepted or was already returned (state %d)", state); KSI_AsyncHandle_free(h); return; }
	W.req[idx].returned = 1; W.nreturned++;
	if (state == KSI_ASYNC_STATE_RESPONSE_RECEIVED) {
		KSI_Signature *sig = NULL;
		int r;
		vf_outcome("returned:response");
		if (!W.req[idx].id_reply) HF("response-without-valid-reply", "request #%d (id %llx) completed with a response although no authentic status-0 reply bearing its id arrived after it was sent", idx, (unsigned long long)W.req[idx].id);
		r = KSI_AsyncHandle_getSignature(h, &sig);
		if (r != KSI_OK || sig == NULL) {
			vf_outcome("returned:response-without-signature");
			if (W.req[idx].honest_reply && !W.req[idx].stale_reply) HF("honest-reply-no-signature", "request #%d: an honest reply arrived but getSignature failed 0x%x", idx, r);
		} else {
			KSI_DataHash *dh = NULL;
			unsigned char hh[RH_MAX_IMPRINT];
			size_t hl = ref_fake_imprint(RH_SHA256, W.req[idx].seed, hh);
			KSI_Signature_getDocumentHash(sig, &dh);
			if (!ku_hash_eq(dh, hh, hl)) HF("foreign-signature", "request #%d completed with a signature for another hash", idx);
		}
		KSI_Signature_free(sig);
	} else if (state == KSI_ASYNC_STATE_ERROR) {
		const char *cls;
		int explained;
		if (err >= 0x400 && err < 0x600) { cls = "service-status"; explained = W.cause_status; }
		else if (err == KSI_NETWORK_SEND_TIMEOUT) { cls = "send-timeout"; explained = W.cfg.snd == 0 || difftime(sn_now, W.req[idx].add_time) > W.cfg.snd; }
		else if (err == KSI_NETWORK_RECIEVE_TIMEOUT) { cls = "receive-timeout"; explained = W.req[idx].submitted && (W.cfg.rcv == 0 || difftime(sn_now, W.req[idx].sent_time) > W.cfg.rcv); }
		/* the HTTP client reports a body that is not a sequence of whole TLVs as a network error */
		else if (err == KSI_NETWORK_ERROR || err == KSI_HTTP_ERROR || err == KSI_ASYNC_CONNECTION_CLOSED) { cls = "transport"; explained = W.cause_transport || W.cause_multi || W.cause_baddata; }
		else { cls = "bad-data"; explained = W.cause_baddata || W.cause_status; }
		vf_outcome("returned:error:%s", cls);
		if (!explained) HF("error-without-cause", "request #%d returned with error 0x%x (%s) but no such cause occurred (status=%d baddata=%d transport=%d multi=%d, now-add=%ld, submitted=%d)", idx, err, cls, W.cause_status, W.cause_baddata, W.cause_transport, W.cause_multi, (long)(sn_now - W.req[idx].add_time), W.req[idx].submitted);
	} else HF("non-final-state", "request #%d handed back in non-final state %d", idx, state);
	KSI_AsyncHandle_free(h);
}

static void do_run(void) {
	KSI_AsyncHandle *out = NULL;
	size_t waiting = 9999, pend = 0, recvd = 0;
	int res, i, k;
	/* completions scheduled so far are performed by curl during this run */
	for (i = 0; i < W.nreq; i++) {
		sreq_t *r = &W.req[i];
		if (!r->done_scheduled || r->returned) continue;
		r->done_scheduled = 2;
	}
	if (fc_multi_perform_result || fc_multi_add_result) W.cause_multi = 1;   /* a curl multi error armed for this run is a cause occurring now */
	res = KSI_AsyncService_run(W.svc, &out, &waiting);
	vf_count("impl_calls", 1);
	fc_multi_perform_result = 0;
	fc_multi_add_result = 0;
	for (i = 0; i < W.nreq; i++) {
		sreq_t *r = &W.req[i];
		if (r->done_scheduled != 2) continue;
		r->done_scheduled = 3;
		if (r->comp_kind == 1) W.cause_baddata = 1;
		if (r->comp_kind == 2) W.cause_status = 1;
		if (r->comp_kind == 3) W.cause_transport = 1;
		for (k = 0; k < r->comp_n; k++) {
			int j;
			for (j = 0; j < W.nreq; j++) if (!W.req[j].returned && W.req[j].submitted && W.req[j].id == r->comp_id[k]) {
				W.req[j].id_reply = 1;
				if (W.req[j].seed == r->comp_seed[k]) W.req[j].honest_reply = 1; else if (!W.req[j].honest_reply) W.req[j].stale_reply = 1;
			}
		}
	}
	if (res != KSI_OK) vf_outcome("run:error");
	if (out) check_returned(out);
	if (res == KSI_OK) {
		if (waiting != (size_t)outstanding()) HF("waiting-count", "run reports %zu waiting, accepted-returned=%d", waiting, outstanding());
		KSI_AsyncService_getPendingCount(W.svc, &pend);
		KSI_AsyncService_getReceivedCount(W.svc, &recvd);
		if (pend + recvd != (size_t)outstanding()) HF("pending-count", "pending %zu + received %zu, accepted-returned %d", pend, recvd, outstanding());
	}
}

static void quiescent_reset(void) {
	if (outstanding() != 0) return;
	W.cause_baddata = W.cause_status = W.cause_transport = W.cause_multi = 0;
}

static int apply_inner(int ev) {
	int i, oldest = -1, newest = -1, npend = 0;
	vbuf b;
	for (i = 0; i < W.nreq; i++) if (W.req[i].submitted && !W.req[i].done_scheduled && !W.req[i].returned) { if (oldest < 0) oldest = i; newest = i; npend++; }
	switch (ev) {
		case EV_ADD: {
			KSI_AsyncHandle *h = NULL;
			KSI_DataHash *dh = NULL;
			unsigned char hh[RH_MAX_IMPRINT];
			size_t hl;
			int res;
			if (W.nreq >= MAXREQ) return 0;
			hl = ref_fake_imprint(RH_SHA256, 100u + (unsigned)W.total_added, hh);
			KSI_DataHash_fromImprint(W.ctx, hh, hl, &dh);
			if (KSI_AsyncSigningHandle_new(W.ctx, dh, 0, &h) != KSI_OK) vf_harness_error("handle new");
			res = KSI_AsyncService_addRequest(W.svc, h);
			vf_count("impl_calls", 1);
			if (res == KSI_OK) {
				if (outstanding() >= W.cfg.cache) HF("cache-overfull", "request accepted although %d requests are outstanding with cache size %d", outstanding(), W.cfg.cache);
				memset(&W.req[W.nreq], 0, sizeof W.req[0]);
				W.req[W.nreq].h = h; W.req[W.nreq].seed = 100u + (unsigned)W.total_added; W.total_added++; W.req[W.nreq].add_time = sn_now; W.nreq++;
				vf_outcome("add:accepted");
			} else {
				if (res == KSI_ASYNC_REQUEST_CACHE_FULL) { vf_outcome("add:cache-full"); if (outstanding() != W.cfg.cache) HF("cache-full-early", "'cache full' with %d outstanding requests and cache size %d", outstanding(), W.cfg.cache); }
				else { vf_outcome("add:error"); HF("add-error", "addRequest failed with 0x%x", res); }
				KSI_AsyncHandle_free(h);
			}
			return 1;
		}
		case EV_RUN: do_run(); return 1;
		case EV_CHUNK1: if (W.chunk == 1) return 0; W.chunk = 1; return 1;
		case EV_MULTI_ERR: if (fc_multi_perform_result) return 0; fc_multi_perform_result = 2 /* CURLM_BAD_EASY_HANDLE-like */; return 1;
		case EV_ADD_ERR: if (fc_multi_add_result) return 0; fc_multi_add_result = 3; return 1;
		case EV_CLOCK_1: sn_now += 1; return 1;
		case EV_CLOCK_BIG: { int m = W.cfg.snd; if (W.cfg.rcv > m) m = W.cfg.rcv; if (W.cfg.con > m) m = W.cfg.con; sn_now += m + 2; return 1; }
		default: break;
	}
	/* completion events */
	{
		int k = (ev == EV_DONE_VALID_NEWEST) ? newest : oldest;
		sreq_t *r;
		if (k < 0) return 0;
		if ((ev == EV_DONE_VALID_NEWEST || ev == EV_DONE_CROSS) && npend < 2) return 0;
		r = &W.req[k];
		vb_init(&b);
		r->comp_kind = 0; r->comp_n = 0;
		switch (ev) {
			case EV_DONE_VALID: case EV_DONE_VALID_NEWEST:
				build_reply(&b, r->seed, r->id, 0, 0); r->comp_id[0] = r->id; r->comp_seed[0] = r->seed; r->comp_n = 1;
				fc_complete(r->easy, 0, 200, b.p, b.n, W.chunk); break;
			case EV_DONE_CROSS: /* the oldest transfer's body carries the (authentic) reply for the newest request */
				build_reply(&b, W.req[newest].seed, W.req[newest].id, 0, 0); r->comp_id[0] = W.req[newest].id; r->comp_seed[0] = W.req[newest].seed; r->comp_n = 1;
				fc_complete(r->easy, 0, 200, b.p, b.n, W.chunk); break;
			case EV_DONE_BADMAC: build_reply(&b, r->seed, r->id, RP_F_BAD_MAC, 0); r->comp_kind = 1; fc_complete(r->easy, 0, 200, b.p, b.n, W.chunk); break;
			case EV_DONE_STATUS: build_reply(&b, r->seed, r->id, 0, 0x0101); r->comp_kind = 2; fc_complete(r->easy, 0, 200, b.p, b.n, W.chunk); break;
			case EV_DONE_ERRPDU: {
				rp_env e;
				vbuf payload;
				memset(&e, 0, sizeof e);
				e.version = 2; e.kind = RP_AGGR; e.login = LOGIN; e.mac_alg = RH_SHA256; e.key = KEY; e.keylen = strlen(KEY);
				vb_init(&payload);
				rp_error_payload(&payload, 2, RP_AGGR, 0x0300, "upstream error");
				rp_wrap_response(&b, &e, payload.p, payload.n);
				vb_free(&payload);
				r->comp_kind = 2; fc_complete(r->easy, 0, 200, b.p, b.n, W.chunk); break;
			}
			case EV_DONE_CURLERR: r->comp_kind = 3; fc_complete(r->easy, 7, 0, NULL, 0, 0); break;
			case EV_DONE_HTTP500: vb_put(&b, "<html>500</html>", 16); r->comp_kind = 3; fc_complete(r->easy, 0, 500, b.p, b.n, W.chunk); break;
			case EV_DONE_EMPTY: fc_complete(r->easy, 0, 200, NULL, 0, 0); break;    /* nothing arrives: the request can only time out */
			case EV_DONE_TWO: /* the honest reply followed by a duplicate of it in the same body */
				build_reply(&b, r->seed, r->id, 0, 0); build_reply(&b, r->seed, r->id, 0, 0); r->comp_id[0] = r->id; r->comp_seed[0] = r->seed; r->comp_n = 1;
				fc_complete(r->easy, 0, 200, b.p, b.n, W.chunk); break;
			case EV_DONE_TRUNC: build_reply(&b, r->seed, r->id, 0, 0); r->comp_kind = 1; fc_complete(r->easy, 0, 200, b.p, b.n / 2, W.chunk); break;
			case EV_DONE_GARBAGE: vb_put(&b, "\x82\x21\x00\x05\x01\x02\x03", 7); r->comp_kind = 1; fc_complete(r->easy, 0, 200, b.p, b.n, W.chunk); break;
			default: vb_free(&b); return 0;
		}
		r->done_scheduled = 1;
		vb_free(&b);
		return 1;
	}
}
static int apply(int ev) { int r = apply_inner(ev); if (r) { W.step++; quiescent_reset(); } return r; }

static void drain(void) {
	int rounds, i;
	fc_multi_add_result = 0;
	for (rounds = 0; rounds < 60 && outstanding() > 0; rounds++) {
		do_run();
		if (W.violated) return;
		sn_now += 1;
	}
	if (outstanding() > 0) HF("request-lost", "%d accepted request(s) never handed back within 60 further rounds / 60 virtual seconds", outstanding());
	/* transfers that the harness never completed stay attached to the multi handle: the service is then freed with
	 * transfers in flight (it has to detach and release them; world_close checks that nothing is left allocated).
	 * In every second drain they are completed first, so that both ways of ending are exercised */
	fc_multi_perform_result = 0;
	if ((W.nreq + W.nreturned) & 1) {
		for (i = 0; i < 64; i++) { fc_easy *e = fc_pending(0); if (!e) break; fc_complete(e, 7, 0, NULL, 0, 0); }
		{ KSI_AsyncHandle *o = NULL; size_t w = 0; KSI_AsyncService_run(W.svc, &o, &w); if (o) { HF("late-handle", "a handle was returned although nothing was outstanding"); KSI_AsyncHandle_free(o); } }
	}
}

/* ------------------------------------------------------------------ canonical key */
static uint64_t mix(uint64_t h, uint64_t v) { return vf_fnv(&v, sizeof v, h); }
static uint64_t age(time_t t, int cap) { long a = (long)(sn_now - t); if (a > cap + 1) a = cap + 1; if (a < 0) a = -1; return (uint64_t)a; }
static uint64_t state_key(void) {
	KSI_AsyncClient *ac = (KSI_AsyncClient *)W.svc->impl;
	HttpAsyncCtx *hc = (HttpAsyncCtx *)ac->clientImpl;
	uint64_t h = 1469598103934665603ULL;
	size_t i;
	int k, maxto = W.cfg.snd > W.cfg.rcv ? W.cfg.snd : W.cfg.rcv;
	if (W.cfg.con > maxto) maxto = W.cfg.con;
	h = mix(h, ac->pending); h = mix(h, ac->received); h = mix(h, ac->tail); h = mix(h, ac->requestCount); h = mix(h, ac->requestCountOffset);
	for (i = 1; i < ac->options[KSI_ASYNC_OPT_REQUEST_CACHE_SIZE]; i++) {
		KSI_AsyncHandle *q = ac->reqCache[i];
		if (!q) { h = mix(h, 0xdead); continue; }
		h = mix(h, (uint64_t)q->state); h = mix(h, (uint64_t)q->err); h = mix(h, q->id); h = mix(h, age(q->reqTime, maxto)); h = mix(h, age(q->sndTime, maxto));
	}
	h = mix(h, hc->roundCount); h = mix(h, age(hc->roundStartAt, 2));
	for (i = 0; i < KSI_AsyncHandleList_length(hc->reqQueue); i++) { KSI_AsyncHandle *q = NULL; KSI_AsyncHandleList_elementAt(hc->reqQueue, i, &q); h = mix(h, q ? q->id : 0); h = mix(h, q ? (uint64_t)q->state : 0); }
	h = mix(h, KSI_OctetStringList_length(hc->respQueue));
	for (i = 0; i < KSI_OctetStringList_length(hc->respQueue); i++) { KSI_OctetString *o = NULL; const unsigned char *d = NULL; size_t dl = 0; KSI_OctetStringList_elementAt(hc->respQueue, i, &o); KSI_OctetString_extract(o, &d, &dl); h = vf_fnv(d, dl, h); }
	h = mix(h, W.chunk); h = mix(h, (uint64_t)fc_multi_perform_result); h = mix(h, (uint64_t)fc_multi_add_result);
	h = mix(h, (uint64_t)(W.cause_baddata | W.cause_status << 1 | W.cause_transport << 2 | W.cause_multi << 3));
	h = mix(h, (uint64_t)W.nreq); h = mix(h, (uint64_t)W.nreturned);
	for (k = 0; k < W.nreq; k++) {
		sreq_t *r = &W.req[k];
		if (r->returned) continue;
		h = mix(h, (uint64_t)(r->submitted | r->done_scheduled << 1 | r->id_reply << 3 | r->honest_reply << 4 | r->stale_reply << 5 | r->comp_kind << 6)); h = mix(h, r->id);
		h = mix(h, age(r->add_time, maxto)); h = mix(h, r->submitted ? age(r->sent_time, maxto) : 77);
		if (r->done_scheduled == 1 && r->easy) { h = mix(h, (uint64_t)r->easy->comp_code); h = mix(h, (uint64_t)r->easy->comp_http); h = vf_fnv(r->easy->comp_data.p, r->easy->comp_data.n, h); }
	}
	return h;
}

/* ------------------------------------------------------------------ search */
#define SEEN_BITS 21
static struct { uint64_t key; int depth_left; } *seen;
static long n_states, n_transitions, n_pruned, n_traces;
static int seen_check(uint64_t key, int depth_left) {
	uint32_t i = (uint32_t)(key >> 13) & ((1u << SEEN_BITS) - 1);
	int probes = 0;
	if (!key) key = 1;
	for (;;) {
		if (seen[i].key == key) { if (seen[i].depth_left >= depth_left) return 1; seen[i].depth_left = depth_left; return 0; }
		if (seen[i].key == 0) { seen[i].key = key; seen[i].depth_left = depth_left; n_states++; return 0; }
		i = (i + 1) & ((1u << SEEN_BITS) - 1);
		if (++probes > (1 << 19)) vf_harness_error("state table full");
	}
}
static int replay(const config_t *cfg, const int *hist, int n) {
	int i;
	for (i = 0; i < n; i++) g_hist[i] = EVCH[hist[i]];
	g_hist[n] = 0;
	g_cfg = (int)(cfg - CONFIGS);
	world_open(cfg);
	for (i = 0; i < n; i++) {
		if (!apply(hist[i])) return 0;
		n_transitions++;
		if (W.violated) return 1;
	}
	return 1;
}
static void explore(const config_t *cfg, int *hist, int n, int maxdepth) {
	int ev;
	if (!replay(cfg, hist, n)) { drain(); world_close(); return; }
	n_traces++;
	if (W.violated) { world_close(); return; }
	if (seen_check(state_key(), maxdepth - n)) { n_pruned++; drain(); world_close(); return; }
	drain();
	world_close();
	if (n >= maxdepth) return;
	for (ev = 0; ev < EV_NEVENTS; ev++) { hist[n] = ev; explore(cfg, hist, n + 1, maxdepth); }
}

/* deviation-bounded search over a long default run: three complete request cycles (add, run, valid completion, run); a
 * deviation is the insertion of any one event at any position; all schedules with up to D insertions are executed to
 * completion and followed by the drain phase. Reaches what the depth bound of the exhaustive search cannot: objects
 * recycled from an earlier request cycle, counters after several completed cycles */
static const int BASE[] = {EV_ADD, EV_RUN, EV_DONE_VALID, EV_RUN, EV_ADD, EV_RUN, EV_DONE_VALID, EV_RUN, EV_ADD, EV_RUN, EV_DONE_VALID, EV_RUN};
#define NBASE ((int)(sizeof BASE / sizeof *BASE))
static long dfs_runs;
static void run_schedule(const config_t *cfg, const int *ins_pos, const int *ins_ev, int nins) {
	int i, k, n = 0;
	world_open(cfg);
	g_cfg = (int)(cfg - CONFIGS);
	g_hist[0] = 0;
	for (i = 0; i <= NBASE && !W.violated; i++) {
		for (k = 0; k < nins; k++) if (ins_pos[k] == i) { if (n < (int)sizeof g_hist - 2) { g_hist[n++] = EVCH[ins_ev[k]]; g_hist[n] = 0; } apply(ins_ev[k]); n_transitions++; }
		if (i < NBASE) { if (n < (int)sizeof g_hist - 2) { g_hist[n++] = EVCH[BASE[i]]; g_hist[n] = 0; } apply(BASE[i]); n_transitions++; }
	}
	if (!W.violated) drain();
	world_close();
	dfs_runs++;
}
static void part_dfs(void) {
	int maxdev = VF_THOROUGH ? 3 : 2, ci, p1, e1;
	static const int CFG_IDX[] = {1, 0};
	for (ci = 0; ci < (VF_THOROUGH ? 2 : 1); ci++) for (p1 = 0; p1 <= NBASE; p1++) for (e1 = 0; e1 < EV_NEVENTS; e1++) {
		const config_t *cfg = &CONFIGS[CFG_IDX[ci]];
		int pos[3], evs[3], p2, e2, p3, e3;
		if (!vf_case_begin("httpdfs:cfg%d:ins%d%c:dev%d", CFG_IDX[ci], p1, EVCH[e1], maxdev)) continue;
		dfs_runs = 0; n_transitions = 0;
		pos[0] = p1; evs[0] = e1;
		if (p1 == 0 && e1 == 0) run_schedule(cfg, pos, evs, 0);
		run_schedule(cfg, pos, evs, 1);
		for (p2 = p1; p2 <= NBASE && maxdev >= 2; p2++) for (e2 = 0; e2 < EV_NEVENTS; e2++) {
			if (p2 == p1 && e2 < e1) continue;
			pos[1] = p2; evs[1] = e2;
			run_schedule(cfg, pos, evs, 2);
			for (p3 = p2; p3 <= NBASE && maxdev >= 3; p3++) for (e3 = 0; e3 < EV_NEVENTS; e3++) {
				if (p3 == p2 && e3 < e2) continue;
				pos[2] = p3; evs[2] = e3;
				run_schedule(cfg, pos, evs, 3);
			}
		}
		vf_count("traces", dfs_runs); vf_count("transitions", n_transitions); vf_count("dfs_schedules", dfs_runs);
		vf_obs("runs=%ld", dfs_runs);
		vf_case_end(1);
	}
}

/* ------------------------------------------------------------------ two services on one context
 * All asynchronous HTTP clients of a context share one transfer engine (curl multi handle), and every service numbers its
 * requests from 1. A transfer that finishes while ANOTHER service is being run still belongs to the service that started it.
 * Every schedule of length <= 5 over {add on A, add on B, run A, run B, complete the oldest open transfer of A / of B with its
 * valid reply} followed by a drain; each request comes back from its own service, exactly once, with a signature for its hash. */
typedef struct { KSI_AsyncHandle *h; unsigned seed; int svc; int returned; fc_easy *easy; uint64_t id; int completed; } treq_t;
static struct { KSI_AsyncService *svc[2]; treq_t r[8]; int n; int bad; } T;
static const char TCH[] = "aAbBrRcC";   /* unused letters kept apart from the main alphabet */
static void t_submit(fc_easy *e) {
	rp_req r;
	int i;
	if (rp_parse_request(e->sent.p, e->sent.n, RP_AGGR, &r) == 0 && r.has_req && r.has_hash) {
		for (i = 0; i < T.n; i++) {
			unsigned char h[RH_MAX_IMPRINT];
			size_t hl = ref_fake_imprint(RH_SHA256, T.r[i].seed, h);
			if (!T.r[i].easy && r.hash_len == hl && memcmp(r.hash, h, hl) == 0) { T.r[i].easy = e; T.r[i].id = r.req_id; break; }
		}
	}
	rp_req_free(&r);
}
static void t_fail(const char *sig, const char *hist, const char *fmt, ...) {
	char m[600];
	va_list ap;
	va_start(ap, fmt); vsnprintf(m, sizeof m, fmt, ap); va_end(ap);
	vf_fail(sig, "%s [two services on one context; schedule %s; letters a/b = add on A/B, r/R = run A/B, c/C = complete the oldest open transfer of A/B]", m, hist);
	T.bad = 1;
}
static void t_run(int k, const char *hist) {
	KSI_AsyncHandle *out = NULL;
	size_t waiting = 0;
	int i, state = -1, res = KSI_AsyncService_run(T.svc[k], &out, &waiting);
	vf_count("impl_calls", 1);
	if (res != KSI_OK) { t_fail("two-services-run-error", hist, "run of service %c failed 0x%x", 'A' + k, res); return; }
	if (!out) return;
	KSI_AsyncHandle_getState(out, &state);
	for (i = 0; i < T.n; i++) if (T.r[i].h == out && !T.r[i].returned) break;
	if (i == T.n) { t_fail("foreign-handle", hist, "service %c returned a handle it never accepted (state %d)", 'A' + k, state); KSI_AsyncHandle_free(out); return; }
	T.r[i].returned = 1;
	if (T.r[i].svc != k) t_fail("handle-from-other-service", hist, "service %c handed back a request that was accepted by service %c", 'A' + k, 'A' + T.r[i].svc);
	if (state == KSI_ASYNC_STATE_RESPONSE_RECEIVED) {
		KSI_Signature *sig = NULL;
		KSI_DataHash *dh = NULL;
		unsigned char hh[RH_MAX_IMPRINT];
		size_t hl = ref_fake_imprint(RH_SHA256, T.r[i].seed, hh);
		if (!T.r[i].completed) t_fail("response-without-valid-reply", hist, "request %d of service %c completed with a response although its own transfer has not finished", i, 'A' + T.r[i].svc);
		if (KSI_AsyncHandle_getSignature(out, &sig) != KSI_OK || sig == NULL) t_fail("honest-reply-no-signature", hist, "request %d of service %c: no signature although only honest replies were sent", i, 'A' + T.r[i].svc);
		else { KSI_Signature_getDocumentHash(sig, &dh); if (!ku_hash_eq(dh, hh, hl)) t_fail("foreign-signature", hist, "request %d of service %c completed with a signature for another hash", i, 'A' + T.r[i].svc); }
		KSI_Signature_free(sig);
		vf_outcome("two-services:returned:response");
	} else {
		int err = 0;
		KSI_AsyncHandle_getError(out, &err);
		t_fail("error-without-cause", hist, "request %d of service %c came back in state %d with error 0x%x although every transfer is answered honestly", i, 'A' + T.r[i].svc, state, err);
	}
	KSI_AsyncHandle_free(out);
}
static int t_complete(int k) {
	int i;
	for (i = 0; i < T.n; i++) if (T.r[i].svc == k && T.r[i].easy && !T.r[i].completed) {
		vbuf b;
		vb_init(&b);
		build_reply(&b, T.r[i].seed, T.r[i].id, 0, 0);
		fc_complete(T.r[i].easy, 0, 200, b.p, b.n, 0);
		vb_free(&b);
		T.r[i].completed = 1;
		return 1;
	}
	return 0;
}
static int t_add(KSI_CTX *ctx, int k, const char *hist) {
	KSI_AsyncHandle *h = NULL;
	KSI_DataHash *dh = NULL;
	unsigned char hh[RH_MAX_IMPRINT];
	size_t hl;
	int res, cnt = 0, i;
	for (i = 0; i < T.n; i++) if (T.r[i].svc == k && !T.r[i].returned) cnt++;
	if (T.n >= 8 || cnt >= 2) return 0;
	hl = ref_fake_imprint(RH_SHA256, 500u + (unsigned)T.n, hh);
	KSI_DataHash_fromImprint(ctx, hh, hl, &dh);
	if (KSI_AsyncSigningHandle_new(ctx, dh, 0, &h) != KSI_OK) vf_harness_error("handle new");
	res = KSI_AsyncService_addRequest(T.svc[k], h);
	vf_count("impl_calls", 1);
	if (res != KSI_OK) { t_fail("add-error", hist, "service %c refused a request with 0x%x (%d outstanding, cache size 3)", 'A' + k, res, cnt); KSI_AsyncHandle_free(h); return 1; }
	memset(&T.r[T.n], 0, sizeof T.r[0]);
	T.r[T.n].h = h; T.r[T.n].seed = 500u + (unsigned)T.n; T.r[T.n].svc = k; T.n++;
	return 1;
}
static void t_schedule(const int *ev, int n) {
	KSI_CTX *ctx;
	char hist[16];
	int i, k, rounds;
	static const char L[] = "abrRcC";
	for (i = 0; i < n; i++) hist[i] = L[ev[i]];
	hist[n] = 0;
	memset(&T, 0, sizeof T);
	sn_reset(); fc_reset();
	fc.on_submit = t_submit;
	ctx = ku_ctx();
	for (k = 0; k < 2; k++) {
		if (KSI_SigningAsyncService_new(ctx, &T.svc[k]) != KSI_OK) vf_harness_error("service");
		if (KSI_AsyncService_setEndpoint(T.svc[k], k ? "ksi+http://b13.test:8080/sign" : "ksi+http://a13.test:8080/sign", LOGIN, KEY) != KSI_OK) vf_harness_error("endpoint");
		KSI_AsyncService_setOption(T.svc[k], KSI_ASYNC_OPT_REQUEST_CACHE_SIZE, (void *)(size_t)3);
		KSI_AsyncService_setOption(T.svc[k], KSI_ASYNC_OPT_MAX_REQUEST_COUNT, (void *)(size_t)3);
	}
	for (i = 0; i < n && !T.bad; i++) {
		int done = 1;
		switch (ev[i]) {
			case 0: case 1: done = t_add(ctx, ev[i], hist); break;
			case 2: case 3: t_run(ev[i] - 2, hist); break;
			default: done = t_complete(ev[i] - 4); break;
		}
		if (done) n_transitions++;
	}
	/* drain: everything still open is answered honestly, both services are run in turn */
	for (rounds = 0; rounds < 12 && !T.bad; rounds++) {
		int open = 0;
		t_run(rounds & 1, hist);
		while (t_complete(0) || t_complete(1)) {}
		for (i = 0; i < T.n; i++) if (!T.r[i].returned) open++;
		if (!open && rounds >= 2) break;
		sn_now += 1;
	}
	if (!T.bad) for (i = 0; i < T.n; i++) if (!T.r[i].returned) { t_fail("request-lost", hist, "request %d of service %c was never handed back although its transfer was answered", i, 'A' + T.r[i].svc); break; }
	KSI_AsyncService_free(T.svc[0]); KSI_AsyncService_free(T.svc[1]);
	KSI_CTX_free(ctx);
	if (fc_easy_live != 0) { t_fail("leak-http-handle", hist, "%d curl easy handle(s) alive after freeing both services and the context", fc_easy_live); fc_easy_live = 0; }
	if (vf_alloc_live != 0) { t_fail("leak", hist, "%ld SDK allocations live after freeing both services and the context", vf_alloc_live); vf_alloc_live = 0; }
	(void)TCH;
}
static void part_two_services(void) {
	int len = VF_THOROUGH ? 7 : 6, e1, e2;
	for (e1 = 0; e1 < 2; e1++) for (e2 = 0; e2 < 6; e2++) {
		long total = 1, idx, runs = 0;
		int i, ev[12];
		if (!vf_case_begin("http-two-services:%c%c:len%d", "ab"[e1], "abrRcC"[e2], len)) continue;
		n_transitions = 0;
		for (i = 2; i < len; i++) total *= 6;
		for (idx = 0; idx < total; idx++) {
			long x = idx;
			ev[0] = e1; ev[1] = e2;
			for (i = 2; i < len; i++) { ev[i] = (int)(x % 6); x /= 6; }
			t_schedule(ev, len);
			runs++;
		}
		vf_count("traces", runs); vf_count("transitions", n_transitions); vf_count("dfs_schedules", runs);
		vf_obs("runs=%ld", runs);
		vf_case_end(1);
	}
}

static void run(void) {
	int ci, e1, e2;
	int depth = VF_THOROUGH ? 7 : 5;
	seen = calloc((size_t)1 << SEEN_BITS, sizeof *seen);
	for (ci = 0; ci < NCONFIGS; ci++) {
		int d = depth - (CONFIGS[ci].cache >= 3 ? 1 : 0);
		for (e1 = 0; e1 < EV_NEVENTS; e1++) for (e2 = 0; e2 < EV_NEVENTS; e2++) {
			int hist[16];
			if (!vf_case_begin("http:cfg%d:%c%c:d%d", ci, EVCH[e1], EVCH[e2], d)) continue;
			memset(seen, 0, ((size_t)1 << SEEN_BITS) * sizeof *seen);
			n_states = n_transitions = n_pruned = n_traces = 0;
			hist[0] = e1; hist[1] = e2;
			explore(&CONFIGS[ci], hist, 2, d);
			vf_count("states", n_states); vf_count("transitions", n_transitions); vf_count("traces", n_traces); vf_count("pruned_revisits", n_pruned);
			if (ci == 1 && e1 == 0 && e2 == 0) vf_sample("HTTP transport cfg{cache=%d,maxreq=%d} prefix AA depth %d: %ld states, %ld transitions (letters: %s)", CONFIGS[ci].cache, CONFIGS[ci].maxreq, d, n_states, n_transitions, LETTERS);
			vf_obs("states=%ld", n_states);
			vf_case_end(n_traces > 0);
		}
	}
	free(seen);
	part_dfs();
	part_two_services();
}

int main(int argc, char **argv) {
	vf_driver d = {"C13", run};
	return vf_main(argc, argv, &d);
}
