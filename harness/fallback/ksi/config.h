/* src/ksi/config.h.  Generated from config.h.in by configure.  */
/* src/ksi/config.h.in.  Generated from configure.ac by autoheader.  */

/* Commit id */
#define COMMIT_ID "f9cd247d6e3f4a233fbf5513b2f209851f7e1dea"

/* Define to 1 if you have the <dlfcn.h> header file. */
#define HAVE_DLFCN_H 1

/* Define to 1 if you have the <inttypes.h> header file. */
#define HAVE_INTTYPES_H 1

/* Define to 1 if you have the `crypto' library (-lcrypto). */
#define HAVE_LIBCRYPTO 1

/* Define to 1 if you have the `curl' library (-lcurl). */
#define HAVE_LIBCURL 1

/* Define to 1 if you have the <stdint.h> header file. */
#define HAVE_STDINT_H 1

/* Define to 1 if you have the <stdio.h> header file. */
#define HAVE_STDIO_H 1

/* Define to 1 if you have the <stdlib.h> header file. */
#define HAVE_STDLIB_H 1

/* Define to 1 if you have the <strings.h> header file. */
#define HAVE_STRINGS_H 1

/* Define to 1 if you have the <string.h> header file. */
#define HAVE_STRING_H 1

/* Define to 1 if you have the <sys/stat.h> header file. */
#define HAVE_SYS_STAT_H 1

/* Define to 1 if you have the <sys/types.h> header file. */
#define HAVE_SYS_TYPES_H 1

/* Define to 1 if you have the <unistd.h> header file. */
#define HAVE_UNISTD_H 1

/* Disabling strict HTTP parsing to allow underscores in host names. */
#define HTTP_PARSER_STRICT 0

/* Default aggregation PDU version. */
/* #undef KSI_AGGREGATION_PDU_VERSION */

/* Build without net provider (bitfield). */
#define KSI_DISABLE_NET_PROVIDER 0

/* Default extending PDU version. */
/* #undef KSI_EXTENDING_PDU_VERSION */

/* Use OpenSSL. */
#define KSI_HASH_IMPL KSI_IMPL_OPENSSL

/* Define to the sub-directory where libtool stores uninstalled libraries. */
#define LT_OBJDIR ".libs/"

/* Path to the trusted CA certificate directory */
#define OPENSSL_CA_DIR "/etc/ssl/certs/"

/* Location of the trusted CA certificate bundle file */
#define OPENSSL_CA_FILE "/etc/ssl/certs/ca-certificates.crt"

/* Name of package */
#define PACKAGE "libksi"

/* Define to the address where bug reports for this package should be sent. */
#define PACKAGE_BUGREPORT "support@guardtime.com"

/* Define to the full name of this package. */
#define PACKAGE_NAME "libksi"

/* Define to the full name and version of this package. */
#define PACKAGE_STRING "libksi 3.20.3025"

/* Define to the one symbol short name of this package. */
#define PACKAGE_TARNAME "libksi"

/* Define to the home page for this package. */
#define PACKAGE_URL ""

/* Define to the version of this package. */
#define PACKAGE_VERSION "3.20.3025"

/* Define to 1 if all of the C90 standard headers exist (not just the ones
   required in a freestanding environment). This macro is provided for
   backward compatibility; new code need not use it. */
#define STDC_HEADERS 1

/* Location of the unit test xml results. */
#define UNIT_TEST_OUTPUT_XML "testsuite-xunit.xml"

/* Version number of package */
#define VERSION "3.20.3025"
