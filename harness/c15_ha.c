/* C15 - high availability service: first valid reply wins, error only when every endpoint failed;
 *       pushed configurations are consolidated field by field, ignoring out-of-range values.
 *
 * Part (a): explicit-state search (breadth first, canonical-state de-duplication) over event histories of a
 *           signing HA service with 1..3 simulated TCP endpoints, 1..2 user requests and one assigned outcome per
 *           endpoint; a shadow model written from the statement is the oracle; a drain phase from every state.
 * Part (b): all multisets / orders / endpoint assignments of pushed configurations over boundary value alphabets;
 *           oracle = field-wise reference fold written from the statement. */
#include "ku.h"
#include "simnet.h"
#include "ref/ref_pdu.h"
#include <ksi/net_async.h>
#include <ksi/net_ha.h>
#include <ksi/net_uri.h>
#include <ksi/impl/net_async_impl.h>
#include <errno.h>
#include <poll.h>
/* the TCP async client is compiled into this translation unit so that its private state can enter the canonical
 * state key (net_tcp_async.o is left out of the link, see run/reg_c15.py) */
#include "ksi/net_tcp_async.c"

#define LOGIN "u15"
#define KEY   "k15"
#define TIMEOUT_S 10              /* connect / send / receive timeout of every sub-service (the SDK default) */
#define MAXE 3
#define MAXR 3                    /* filler + 2 user requests */
#define T0 1700000000ULL

/* =================================================================================================== part (a) */
enum { O_VALID = 0, O_STATUS, O_ERRPDU, O_VALID_CLOSE, O_TIMEOUT, O_CONNFAIL, O_CACHEFULL, O_N };   /* O_VALID_CLOSE: a valid reply, and the endpoint closes the connection right after it */
#define O_ANSWERS(o) ((o) <= O_VALID_CLOSE)
static const char OCH[O_N + 1] = "VSPXTCF";
enum { EV_ADD = 0, EV_RUN, EV_CLOCK, EV_ANS0, EV_ANS1, EV_ANS2, EV_FILL, EV_N };
static const char EVCH[EV_N + 1] = "AR+012F";
#define EV_LEGEND "A=add user request, R=run, +=clock beyond all timeouts, 0/1/2=endpoint i answers its oldest unanswered request with its assigned outcome, F=add filler request"

typedef struct {
	int forwarded;                /* model: the endpoint had room, so the request was cloned to it */
	int sent; time_t sent_time; uint64_t id; int sent_conn_seq;
	int answered, reply_kind; size_t end_off; int conn_seq;
	int consumed, arrival_round, expired_at_arrival;
	int expired;                  /* a send / receive timeout was possible at some run (sticky) */
	int connfail, errhit;
} ssub_t;

typedef struct {
	KSI_AsyncHandle *h;
	unsigned seed;
	int filler, accepted, completed, completion_state, nfwd, nnotice;
	uint64_t level;               /* the level the caller gave: every copy sent to an endpoint has to carry it */
	time_t add_time;
	ssub_t s[MAXE];
} sreq_t;

typedef struct {
	int nE, nR, out[MAXE];
	KSI_CTX *ctx;
	KSI_AsyncService *ha, *sub[MAXE];
	size_t epid[MAXE];
	int cache[MAXE], occ[MAXE];
	sreq_t req[MAXR]; int nreq, nuser;
	int round, nnotice_total;
	KSI_AsyncHandle *keep[64]; int nkeep;
	KSI_AsyncHandle *last_out;
	int violated;
} aworld_t;
static aworld_t W;
static char g_hist[80];
static int g_case_fails;
#define HF(sig, ...) do { char _m[1200]; snprintf(_m, sizeof _m, __VA_ARGS__); if (g_case_fails++ < 4) vf_fail(sig, "%s [endpoints %d, outcomes %s, history %s; " EV_LEGEND "; outcome letters V=valid reply S=error status P=error PDU T=never answers C=connect refused F=cache size 1 occupied by the filler, never answers]", _m, W.nE, outcomes_str(), g_hist); W.violated = 1; } while (0)

static const char *outcomes_str(void) { static char b[MAXE + 1]; int e; for (e = 0; e < W.nE; e++) b[e] = OCH[W.out[e]]; b[W.nE] = 0; return b; }

static int ep_of_host(const char *h) {
	if (h[0] == 'h' && h[1] == 'a' && h[2] >= '0' && h[2] < '0' + MAXE && strcmp(h + 3, ".test") == 0) return h[2] - '0';
	return -1;
}
static sn_conn *ep_conn(int e) {
	sn_conn *best = NULL;
	int i;
	for (i = 0; i < SN_MAX_CONN; i++) {
		sn_conn *c = &sn_conns[i];
		if (c->state != SN_CONNECTED || c->peer_closed || ep_of_host(c->host) != e) continue;
		if (!best || c->seq > best->seq) best = c;
	}
	return best;
}
static sn_conn *conn_by_seq(int seq) {
	int i;
	for (i = 0; i < SN_MAX_CONN; i++) if (sn_conns[i].state != SN_FREE && sn_conns[i].seq == seq) return &sn_conns[i];
	return NULL;
}

static int a_connect(sn_conn *c) {
	int e = ep_of_host(c->host), k;
	if (e < 0 || e >= W.nE) vf_harness_error("connect to unknown host %s", c->host);
	if (W.out[e] == O_CONNFAIL) {
		for (k = 0; k < W.nreq; k++) if (W.req[k].s[e].forwarded && !W.req[k].s[e].sent) W.req[k].s[e].connfail = 1;
		return -ECONNREFUSED;
	}
	return 0;
}
static void a_after_send(sn_conn *c) {
	int e = ep_of_host(c->host);
	for (;;) {
		rtlv t;
		rp_req r;
		int k;
		if (c->parsed_out >= c->out.n || rtlv_read(c->out.p + c->parsed_out, c->out.n - c->parsed_out, &t) != 0) break;
		if (rp_parse_request(c->out.p + c->parsed_out, t.hdr + t.len, RP_AGGR, &r) == 0 && r.has_req && r.has_hash) {
			int hit = 0;
			if (!rp_request_mac_ok(&r, KEY, strlen(KEY))) HF("request-mac", "request emitted to endpoint %d does not carry a valid MAC", e);
			for (k = 0; k < W.nreq; k++) {
				unsigned char h[RH_MAX_IMPRINT];
				size_t hl = ref_fake_imprint(RH_SHA256, W.req[k].seed, h);
				if (r.hash_len == hl && memcmp(r.hash, h, hl) == 0 && !W.req[k].s[e].sent) {
					hit = 1;
					if (!W.req[k].s[e].forwarded) HF("forwarded-to-full-endpoint", "request #%d reached endpoint %d although its cache (size %d) was occupied at submission", k, e, W.cache[e]);
					W.req[k].s[e].sent = 1; W.req[k].s[e].id = r.req_id; W.req[k].s[e].sent_time = sn_now; W.req[k].s[e].sent_conn_seq = c->seq;
					if ((r.has_level ? r.level : 0) != W.req[k].level) HF("request-level-changed", "the copy of request #%d sent to endpoint %d carries level %llu, the caller gave %llu", k, e, (unsigned long long)(r.has_level ? r.level : 0), (unsigned long long)W.req[k].level);
					break;
				}
			}
			if (!hit) HF("unknown-request-sent", "endpoint %d received a request that matches no accepted, unsent request", e);
		}
		rp_req_free(&r);
		c->parsed_out += t.hdr + t.len;
	}
}

/* prelude (cases "ha-reuse"): the context has already carried another HA service, which was freed while a copy of its request
 * was still unanswered (the normal end of "first valid reply wins"); what the SDK recycles from it must not leak into this one */
static int g_prelude;
static KSI_CTX *g_keep_ctx;
static void a_open(void) {
	int e, nE = W.nE, nR = W.nR, out[MAXE];
	size_t p = 0;
	KSI_AsyncServiceList *lst;
	memcpy(out, W.out, sizeof out);
	memset(&W, 0, sizeof W);
	W.nE = nE; W.nR = nR; memcpy(W.out, out, sizeof out);
	sn_reset(); fc_reset();
	sn.on_connect = a_connect; sn.after_send = a_after_send;
	W.ctx = g_keep_ctx ? g_keep_ctx : ku_ctx();
	g_keep_ctx = NULL;
	if (KSI_SigningHighAvailabilityService_new(W.ctx, &W.ha) != KSI_OK) vf_harness_error("HA service");
	for (e = 0; e < nE; e++) {
		char uri[64];
		snprintf(uri, sizeof uri, "ksi+tcp://ha%d.test:%d", e, 1001 + e);
		if (KSI_AsyncService_addEndpoint(W.ha, uri, LOGIN, KEY) != KSI_OK) vf_harness_error("addEndpoint");
	}
	if (KSI_AsyncService_setOption(W.ha, KSI_ASYNC_OPT_MAX_REQUEST_COUNT, (void *)(size_t)8) != KSI_OK) vf_harness_error("setOption");
	KSI_AsyncService_setOption(W.ha, KSI_ASYNC_OPT_RCV_TIMEOUT, (void *)(size_t)TIMEOUT_S);
	KSI_AsyncService_setOption(W.ha, KSI_ASYNC_OPT_SND_TIMEOUT, (void *)(size_t)TIMEOUT_S);
	KSI_AsyncService_setOption(W.ha, KSI_ASYNC_OPT_CON_TIMEOUT, (void *)(size_t)TIMEOUT_S);
	if (KSI_AsyncService_getOption(W.ha, KSI_ASYNC_OPT_HA_SUBSERVICE_LIST, &p) != KSI_OK || !p) vf_harness_error("subservice list");
	lst = (KSI_AsyncServiceList *)p;
	for (e = 0; e < nE; e++) {
		if (KSI_AsyncServiceList_elementAt(lst, (size_t)e, &W.sub[e]) != KSI_OK || !W.sub[e]) vf_harness_error("subservice %d", e);
		W.cache[e] = W.out[e] == O_CACHEFULL ? 1 : 4;
		if (W.cache[e] != 1 && KSI_AsyncService_setOption(W.sub[e], KSI_ASYNC_OPT_REQUEST_CACHE_SIZE, (void *)(size_t)W.cache[e]) != KSI_OK) vf_harness_error("cache size");
		KSI_AsyncService_getOption(W.sub[e], KSI_ASYNC_PRIVOPT_ENDPOINT_ID, &W.epid[e]);
		W.occ[e] = -1;
	}
}
static void a_close(void) {
	int i;
	for (i = 0; i < W.nkeep; i++) KSI_AsyncHandle_free(W.keep[i]);
	KSI_AsyncService_free(W.ha);
	KSI_CTX_free(W.ctx);
	if (vf_alloc_live != 0) { HF("leak", "%ld SDK allocations live after freeing all returned handles, the service and the context", vf_alloc_live); vf_alloc_live = 0; }
}

static int valid_maybe(int k, int e) { const ssub_t *s = &W.req[k].s[e]; return s->consumed && s->reply_kind == O_VALID; }
static int valid_sure(int k, int e) { const ssub_t *s = &W.req[k].s[e]; return valid_maybe(k, e) && !s->expired_at_arrival && !s->errhit && !s->connfail; }
static int fail_maybe(int k, int e) { const ssub_t *s = &W.req[k].s[e]; return s->connfail || s->errhit || s->expired || (s->consumed && s->reply_kind == O_STATUS); }
static int req_index(const void *h) { int k; if (!h) return -1; for (k = 0; k < W.nreq; k++) if ((const void *)W.req[k].h == h) return k; return -1; }

static void a_add(int filler) {
	KSI_AsyncHandle *h = NULL;
	KSI_DataHash *dh = NULL;
	unsigned char hh[RH_MAX_IMPRINT];
	size_t hl;
	int res, e, acc[MAXE], any = 0, all = 1, k = W.nreq;
	unsigned seed = 200u + (unsigned)k;
	if (k >= MAXR) vf_harness_error("too many requests");
	hl = ref_fake_imprint(RH_SHA256, seed, hh);
	KSI_DataHash_fromImprint(W.ctx, hh, hl, &dh);
	if (KSI_AsyncSigningHandle_new(W.ctx, dh, (KSI_uint64_t)(1 + (k & 1) * 2), &h) != KSI_OK) vf_harness_error("handle new");
	for (e = 0; e < W.nE; e++) { acc[e] = W.cache[e] > 1 || W.occ[e] < 0; any |= acc[e]; all &= acc[e]; }
	res = KSI_AsyncService_addRequest(W.ha, h);
	vf_count("impl_calls", 1);
	if (res == KSI_OK) {
		sreq_t *r = &W.req[k];
		if (!any) HF("accepted-by-nobody", "addRequest reported success although every endpoint's request cache was full");
		memset(r, 0, sizeof *r);
		r->h = h; r->seed = seed; r->filler = filler; r->accepted = 1; r->add_time = sn_now; r->level = (uint64_t)(1 + (k & 1) * 2);
		for (e = 0; e < W.nE; e++) if (acc[e]) { r->s[e].forwarded = 1; r->nfwd++; if (W.cache[e] == 1) W.occ[e] = k; }
		W.nreq++;
		vf_outcome(all ? "add:forwarded-to-all" : "add:forwarded-to-some");
	} else {
		if (any) HF("submission-refused", "addRequest failed with 0x%x although %s endpoint had room for the request", res, all ? "every" : "at least one");
		else vf_outcome("add:refused-by-all");
		KSI_AsyncHandle_free(h);
	}
}

static void a_returned(KSI_AsyncHandle *h) {
	int state = -1, err = 0, k, e;
	KSI_AsyncHandle_getState(h, &state);
	KSI_AsyncHandle_getError(h, &err);
	if (W.nkeep >= 64) vf_harness_error("too many returned handles");
	W.keep[W.nkeep++] = h;                    /* kept alive until the end so that pointer identity is reliable */
	if (state == KSI_ASYNC_STATE_ERROR_NOTICE) {
		const void *rc = NULL;
		int fails = 0;
		KSI_AsyncHandle_getRequestCtx(h, &rc);
		k = req_index(rc);
		W.nnotice_total++;
		vf_outcome("notice:error");
		if (k >= 0) {
			W.req[k].nnotice++;
			for (e = 0; e < W.nE; e++) if (W.req[k].s[e].forwarded && fail_maybe(k, e)) fails++;
			if (W.req[k].nnotice + (W.req[k].completed && W.req[k].completion_state == KSI_ASYNC_STATE_ERROR ? 1 : 0) > fails)
				HF("notice-without-cause", "error notice #%d (error 0x%x) for request #%d, but only %d of its endpoints have failed so far", W.req[k].nnotice, err, k, fails);
		} else {
			int kk;
			for (kk = 0; kk < W.nreq; kk++) for (e = 0; e < W.nE; e++) if (W.req[kk].s[e].forwarded && fail_maybe(kk, e)) fails++;
			if (W.nnotice_total > fails) HF("notice-without-cause", "error notice (error 0x%x) but only %d endpoint failures occurred so far", err, fails);
		}
		return;
	}
	k = req_index(h);
	if (k < 0) { HF("foreign-handle", "run returned a handle in state %d that is neither an accepted request nor an error notice", state); return; }
	if (W.req[k].completed) { HF("completed-twice", "request #%d was handed back a second time (state %d, first time state %d)", k, state, W.req[k].completion_state); return; }
	W.req[k].completed = 1; W.req[k].completion_state = state;
	if (state == KSI_ASYNC_STATE_RESPONSE_RECEIVED) {
		KSI_Signature *sig = NULL;
		int r = KSI_AsyncHandle_getSignature(h, &sig), w = -1, others = 0, failed = 0;
		if (r != KSI_OK || !sig) {
			int anyvalid = 0;
			for (e = 0; e < W.nE; e++) anyvalid |= valid_maybe(k, e);
			if (!anyvalid) HF("response-without-valid-reply", "request #%d completed as RESPONSE_RECEIVED although no authentic status-0 reply for it has arrived from any endpoint", k);
			else HF("response-without-signature", "request #%d completed as RESPONSE_RECEIVED but no signature can be obtained (0x%x)", k, r);
		} else {
			KSI_DataHash *dh = NULL;
			KSI_Integer *t = NULL;
			unsigned char hh[RH_MAX_IMPRINT];
			size_t hl = ref_fake_imprint(RH_SHA256, W.req[k].seed, hh);
			KSI_Signature_getDocumentHash(sig, &dh);
			if (!ku_hash_eq(dh, hh, hl)) HF("foreign-signature", "request #%d completed with a signature for another hash", k);
			KSI_Signature_getSigningTime(sig, &t);
			if (t && KSI_Integer_getUInt64(t) >= T0 && KSI_Integer_getUInt64(t) < T0 + (uint64_t)W.nE) w = (int)(KSI_Integer_getUInt64(t) - T0);
			if (w < 0) HF("unknown-winner", "request #%d: the signature does not come from any endpoint's reply", k);
			else if (!valid_maybe(k, w)) HF("response-without-valid-reply", "request #%d completed with endpoint %d's reply, but no valid reply of that endpoint has arrived at the client (forwarded=%d sent=%d answered=%d consumed=%d)", k, w, W.req[k].s[w].forwarded, W.req[k].s[w].sent, W.req[k].s[w].answered, W.req[k].s[w].consumed);
			else {
				for (e = 0; e < W.nE; e++) {
					int tol = 0, kk;
					if (e == w || !valid_sure(k, e)) continue;
					/* a sub-service hands over one finished handle per run: a reply may be held back one round per other request on the same endpoint */
					for (kk = 0; kk < W.nreq; kk++) if (kk != k && W.req[kk].s[e].forwarded) tol++;
					if (W.req[k].s[e].arrival_round + tol < W.req[k].s[w].arrival_round)
						HF("later-valid-response-won", "request #%d completed with endpoint %d's reply (arrived in run %d) although endpoint %d's valid reply had arrived in run %d", k, w, W.req[k].s[w].arrival_round, e, W.req[k].s[e].arrival_round);
				}
			}
		}
		KSI_Signature_free(sig);
		for (e = 0; e < W.nE; e++) if (W.req[k].s[e].forwarded && e != w) { others++; if (fail_maybe(k, e)) failed++; }
		if (!W.req[k].filler) {
			vf_outcome(others ? "req:first-valid-wins" : "req:response:single-endpoint");
			if (failed) vf_outcome("req:valid-wins-over-errors");
		} else vf_outcome("filler:response");
	} else if (state == KSI_ASYNC_STATE_ERROR) {
		for (e = 0; e < W.nE; e++) {
			if (!W.req[k].s[e].forwarded) continue;
			if (valid_sure(k, e)) HF("error-despite-valid-response", "request #%d completed with error 0x%x although endpoint %d's valid reply had arrived (run %d) in time", k, err, e, W.req[k].s[e].arrival_round);
			else if (!fail_maybe(k, e)) HF("error-before-all-failed", "request #%d completed with error 0x%x although endpoint %d, to which it was forwarded, has not failed (sent=%d answered=%d consumed=%d)", k, err, e, W.req[k].s[e].sent, W.req[k].s[e].answered, W.req[k].s[e].consumed);
		}
		if (err == KSI_OK) HF("error-without-code", "request #%d completed in the error state with error code 0", k);
		vf_outcome(W.req[k].filler ? "filler:error" : "req:all-failed:error");
		if (!W.req[k].filler) vf_outcome("req:all-failed:%d-of-%d-endpoints", W.req[k].nfwd, W.nE);
	} else {
		HF("non-final-state", "request #%d handed back in state %d", k, state);
	}
}

static void note_arrivals(void) {
	int k, e, kk;
	for (k = 0; k < W.nreq; k++) for (e = 0; e < W.nE; e++) {
		ssub_t *s = &W.req[k].s[e];
		sn_conn *c;
		if (!s->answered || s->consumed) continue;
		c = conn_by_seq(s->conn_seq);
		if (!c || c->in_off < s->end_off) continue;
		s->consumed = 1; s->arrival_round = W.round; s->expired_at_arrival = s->expired;
		if (s->reply_kind == O_ERRPDU) {
			/* an error PDU fails every request of that endpoint that is waiting for its response */
			for (kk = 0; kk < W.nreq; kk++) if (W.req[kk].s[e].sent) W.req[kk].s[e].errhit = 1;
		}
		if (s->reply_kind == O_VALID && W.req[k].completed) vf_outcome("req:later-response-discarded");
	}
}

static void a_run(void) {
	KSI_AsyncHandle *out = NULL;
	size_t waiting = 0;
	int res, k, e;
	for (k = 0; k < W.nreq; k++) for (e = 0; e < W.nE; e++) {
		ssub_t *s = &W.req[k].s[e];
		if (!s->forwarded || s->consumed || s->connfail) continue;
		if (s->sent ? difftime(sn_now, s->sent_time) > TIMEOUT_S : difftime(sn_now, W.req[k].add_time) > TIMEOUT_S) s->expired = 1;
	}
	W.round++;
	res = KSI_AsyncService_run(W.ha, &out, &waiting);
	vf_count("impl_calls", 1);
	note_arrivals();
	/* a cache of size 1 is free again once its only request has timed out and was handed over (such endpoints never answer) */
	for (e = 0; e < W.nE; e++) if (W.cache[e] == 1 && W.occ[e] >= 0 && W.req[W.occ[e]].s[e].expired) W.occ[e] = -1;
	if (res != KSI_OK) vf_outcome("run:error");
	W.last_out = out;
	if (out) a_returned(out);
}

static int a_apply(int ev) {
	switch (ev) {
		case EV_ADD: if (W.nuser >= W.nR) return 0; W.nuser++; a_add(0); return 1;
		case EV_FILL: a_add(1); return 1;
		case EV_RUN: a_run(); return 1;
		case EV_CLOCK: sn_now += TIMEOUT_S + 1; return 1;
		case EV_ANS0: case EV_ANS1: case EV_ANS2: {
			int e = ev - EV_ANS0, k, kk = -1;
			sn_conn *c;
			vbuf b, body, payload;
			rp_env env;
			if (e >= W.nE || !O_ANSWERS(W.out[e])) return 0;
			c = ep_conn(e);
			if (!c) return 0;
			for (k = 0; k < W.nreq; k++) if (W.req[k].s[e].sent && !W.req[k].s[e].answered && W.req[k].s[e].sent_conn_seq == c->seq) { kk = k; break; }   /* a server answers on the connection the request came in on */
			if (kk < 0) return 0;
			memset(&env, 0, sizeof env);
			env.version = 2; env.kind = RP_AGGR; env.login = LOGIN; env.mac_alg = RH_SHA256; env.key = KEY; env.keylen = strlen(KEY);
			vb_init(&b); vb_init(&body); vb_init(&payload);
			if (W.out[e] == O_ERRPDU) rp_error_payload(&payload, 2, RP_AGGR, 0x0300, "upstream error");
			else {
				if (W.out[e] == O_VALID || W.out[e] == O_VALID_CLOSE) {
					rsig sig;
					unsigned char hh[RH_MAX_IMPRINT];
					size_t hl = ref_fake_imprint(RH_SHA256, W.req[kk].seed, hh);
					/* the aggregation time identifies the endpoint whose reply ends up in the signature */
					rp_aggregate(&sig, hh, hl, W.req[kk].level, 0, 1, T0 + (uint64_t)e, T0 + 86400);
					sig.ch[0].links[0].level_corr -= W.req[kk].level;      /* reported relative to the requested level */
					rp_sig_body(&sig, &body);
				}
				rp_aggr_resp_payload(&payload, 2, W.req[kk].s[e].id, 1, W.out[e] == O_STATUS ? 0x0101 : 0, W.out[e] == O_STATUS ? "refused" : NULL, body.p, body.n);
			}
			rp_wrap_response(&b, &env, payload.p, payload.n);
			sn_server_write(c, b.p, b.n);
			W.req[kk].s[e].answered = 1; W.req[kk].s[e].reply_kind = W.out[e] == O_VALID_CLOSE ? O_VALID : W.out[e]; W.req[kk].s[e].end_off = c->in.n; W.req[kk].s[e].conn_seq = c->seq;
			if (W.out[e] == O_VALID_CLOSE) {
				/* the reply and the end of the connection reach the client together; whatever else was waiting on that connection is lost */
				int q;
				sn_server_close(c);
				for (q = 0; q < W.nreq; q++) if (q != kk && W.req[q].s[e].sent && !W.req[q].s[e].answered && W.req[q].s[e].sent_conn_seq == c->seq) W.req[q].s[e].errhit = 1;
			}
			vb_free(&b); vb_free(&body); vb_free(&payload);
			return 1;
		}
	}
	return 0;
}

/* drain: quiet network from here on (nothing more is answered), clock advancing: every accepted request must come back */
static void a_drain(void) {
	int r, idle = 0, k, all;
	for (r = 0; r < 40; r++) {
		a_run();
		if (W.violated) return;
		idle = W.last_out ? 0 : idle + 1;
		all = 1;
		for (k = 0; k < W.nreq; k++) if (!W.req[k].completed) all = 0;
		if (all && idle >= 2) break;
		sn_now += 2;
	}
	for (k = 0; k < W.nreq; k++) if (!W.req[k].completed)
		HF("request-lost", "accepted request #%d was not handed back within the horizon of 40 further run() rounds / 80 virtual seconds of a quiet network (timeouts are %d s)", k, TIMEOUT_S);
}

/* ------------------------------------------------------------------ canonical state key */
static uint64_t mix(uint64_t h, uint64_t v) { return vf_fnv(&v, sizeof v, h); }
static uint64_t age(time_t t) { long a = (long)(sn_now - t); if (a > TIMEOUT_S + 1) a = TIMEOUT_S + 1; if (a < 0) a = -1; return (uint64_t)a; }
static uint64_t ep_index(size_t id) { int e; for (e = 0; e < W.nE; e++) if (W.epid[e] == id) return (uint64_t)e; return 9; }
static uint64_t handle_key(uint64_t h, const KSI_AsyncHandle *q) {
	int k;
	if (!q) return mix(h, 0xdead);
	h = mix(h, (uint64_t)q->state); h = mix(h, (uint64_t)q->err); h = mix(h, ep_index(q->parentId)); h = mix(h, q->respCtx != NULL);
	k = req_index(q);
	h = mix(h, (uint64_t)(k + 1));
	if (k < 0 && q->state == KSI_ASYNC_STATE_ERROR_NOTICE) h = mix(h, (uint64_t)(req_index(q->userCtx) + 1));
	return h;
}
static uint64_t a_state_key(void) {
	KSI_HighAvailabilityService *has = (KSI_HighAvailabilityService *)W.ha->impl;
	uint64_t h = 1469598103934665603ULL;
	size_t i;
	int e, k;
	for (e = 0; e < W.nE; e++) {
		KSI_AsyncClient *ac = (KSI_AsyncClient *)W.sub[e]->impl;
		TcpAsyncCtx *tc = (TcpAsyncCtx *)ac->clientImpl;
		sn_conn *c = ep_conn(e);
		h = mix(h, 0xe0 + (uint64_t)e);
		h = mix(h, ac->pending); h = mix(h, ac->received); h = mix(h, ac->tail); h = mix(h, ac->requestCount); h = mix(h, ac->requestCountOffset); h = mix(h, ac->serverConf != NULL);
		for (i = 1; i < ac->options[KSI_ASYNC_OPT_REQUEST_CACHE_SIZE]; i++) {
			KSI_AsyncHandle *q = ac->reqCache[i];
			KSI_HighAvailabilityRequest *hr;
			if (!q) { h = mix(h, 0xdead); continue; }
			h = mix(h, (uint64_t)q->state); h = mix(h, (uint64_t)q->err); h = mix(h, q->id); h = mix(h, q->sentCount); h = mix(h, q->len != 0);
			h = mix(h, age(q->reqTime)); h = mix(h, q->state == KSI_ASYNC_STATE_WAITING_FOR_DISPATCH ? 77 : age(q->sndTime));
			hr = (KSI_HighAvailabilityRequest *)q->userCtx;
			if (hr) { h = mix(h, hr->expectedRespCount); h = mix(h, (uint64_t)(req_index(hr->asyncHandle) + 1)); }
		}
		/* the per-second throttle (8 requests per round) is never reached with at most 3 requests: round counters are left out */
		h = mix(h, tc->sockfd >= 0); h = mix(h, tc->socketReady); h = mix(h, tc->inLen);
		h = mix(h, KSI_AsyncHandleList_length(tc->reqQueue)); h = mix(h, KSI_OctetStringList_length(tc->respQueue));
		h = mix(h, c ? 1 : 0);
		if (c) { h = mix(h, c->out.n - c->parsed_out); h = mix(h, c->in.n - c->in_off); h = vf_fnv(c->in.p + c->in_off, c->in.n - c->in_off, h); }
		h = mix(h, (uint64_t)(W.occ[e] + 1));
	}
	h = mix(h, KSI_AsyncHandleList_length(has->respQueue));
	for (i = 0; i < KSI_AsyncHandleList_length(has->respQueue); i++) { KSI_AsyncHandle *q = NULL; KSI_AsyncHandleList_elementAt(has->respQueue, i, &q); h = handle_key(h, q); }
	h = mix(h, (uint64_t)W.nreq); h = mix(h, (uint64_t)W.nuser);
	for (k = 0; k < W.nreq; k++) {
		sreq_t *r = &W.req[k];
		h = mix(h, (uint64_t)r->h->state); h = mix(h, (uint64_t)r->h->err); h = mix(h, (uint64_t)(r->completed | r->filler << 1)); h = mix(h, (uint64_t)r->completion_state); h = mix(h, (uint64_t)r->nnotice);
		{ int uns = 0; for (e = 0; e < W.nE; e++) if (r->s[e].forwarded && !r->s[e].sent && !r->s[e].connfail) uns = 1; h = mix(h, uns ? age(r->add_time) : 99); }   /* matters for the send timeout only */
		for (e = 0; e < W.nE; e++) {
			ssub_t *s = &r->s[e];
			int back = s->consumed ? W.round - s->arrival_round : 0;
			if (back > MAXR) back = MAXR;
			if (r->completed) back = 0;
			h = mix(h, (uint64_t)(s->forwarded | s->sent << 1 | s->answered << 2 | s->consumed << 3 | s->expired << 4 | s->expired_at_arrival << 5 | s->connfail << 6 | s->errhit << 7 | back << 8));
			h = mix(h, s->sent && !s->consumed ? age(s->sent_time) : 99);
		}
	}
	return h;
}

/* ------------------------------------------------------------------ breadth-first search */
#define HMAX 60
typedef struct { unsigned char n, ev[HMAX + 3]; } node_t;
#define SEEN_BITS 20
static uint64_t *seen;
static long n_states, n_transitions, n_traces, n_pruned, n_maxdepth;
static int seen_add(uint64_t key) {
	uint32_t i = (uint32_t)(key >> 11) & ((1u << SEEN_BITS) - 1);
	if (!key) key = 1;
	for (;;) {
		if (seen[i] == key) return 0;
		if (seen[i] == 0) { seen[i] = key; n_states++; return 1; }
		i = (i + 1) & ((1u << SEEN_BITS) - 1);
	}
}
static void hist_name(const unsigned char *ev, int n, char *out) { int i; for (i = 0; i < n && i < 78; i++) out[i] = EVCH[ev[i]]; out[i] = 0; }

/* canonical order inside a segment between two runs: answers of different endpoints, additions and clock jumps
 * commute (the client looks at its sockets and at the clock only inside run()), so answers are generated last and in
 * ascending endpoint order, and a clock jump is never doubled */
static int g_clock_max;
static int canonical(const unsigned char *ev, int n, int next) {
	int i, last = -1, has_ans = 0;
	for (i = n - 1; i >= 0 && ev[i] != EV_RUN; i--) { if (last < 0) last = ev[i]; if (ev[i] >= EV_ANS0 && ev[i] <= EV_ANS2) has_ans = 1; }
	if (next == EV_RUN) return 1;
	if (next == EV_ADD) return !has_ans;
	if (next == EV_CLOCK) { int np = 0; for (i = 0; i < n; i++) np += ev[i] == EV_CLOCK; return np < g_clock_max && !has_ans && last != EV_CLOCK; }
	if (next >= EV_ANS0 && next <= EV_ANS2) return !(last >= EV_ANS0 && last <= EV_ANS2 && next < last);
	return 0;
}

/* replays a history on a fresh world; returns 0 if its last event is not enabled */
static void a_prelude(void) {
	int nE = W.nE, nR = W.nR, out[MAXE], i;
	memcpy(out, W.out, sizeof out);
	W.nE = 2; W.nR = 1; W.out[0] = O_VALID; W.out[1] = O_TIMEOUT;
	a_open();
	a_apply(EV_ADD); a_apply(EV_RUN); a_apply(EV_ANS0);
	for (i = 0; i < 3; i++) a_apply(EV_RUN);
	if (W.nreq != 1 || !W.req[0].completed) vf_harness_error("prelude: the request of the first service did not complete");
	for (i = 0; i < W.nkeep; i++) KSI_AsyncHandle_free(W.keep[i]);
	W.nkeep = 0;
	KSI_AsyncService_free(W.ha);
	g_keep_ctx = W.ctx;
	W.nE = nE; W.nR = nR; memcpy(W.out, out, sizeof out);
}
static int a_replay(const unsigned char *ev, int n) {
	int i;
	hist_name(ev, n, g_hist);
	if (g_prelude) a_prelude();
	a_open();
	for (i = 0; i < n; i++) {
		if (!a_apply(ev[i])) return 0;
		n_transitions++;
		if (W.violated) return 1;
	}
	return 1;
}

static void a_case(int nE, int nR, const int *out, long max_states, int max_len, int clock_max) {
	node_t *queue;
	size_t qh = 0, qt = 0, qcap = 1 << 12;
	node_t root;
	int e, ev, any_full = 0;
	memset(&W, 0, sizeof W);
	W.nE = nE; W.nR = nR; memcpy(W.out, out, sizeof(int) * (size_t)nE);
	memset(seen, 0, ((size_t)1 << SEEN_BITS) * sizeof *seen);
	n_states = n_transitions = n_traces = n_pruned = n_maxdepth = 0;
	g_case_fails = 0;
	g_clock_max = clock_max;
	memset(&root, 0, sizeof root);
	for (e = 0; e < nE; e++) any_full |= out[e] == O_CACHEFULL;
	if (any_full) {
		/* fixed prefix: a filler request occupies the one-slot caches; the answering endpoints answer it */
		root.ev[root.n++] = EV_FILL; root.ev[root.n++] = EV_RUN;
		for (e = 0; e < nE; e++) if (O_ANSWERS(out[e])) root.ev[root.n++] = (unsigned char)(EV_ANS0 + e);
		root.ev[root.n++] = EV_RUN; root.ev[root.n++] = EV_RUN; root.ev[root.n++] = EV_RUN;
	}
	queue = malloc(qcap * sizeof *queue);
	queue[qt++] = root;
	/* the root state itself */
	if (!a_replay(root.ev, root.n)) vf_harness_error("prefix not enabled");
	n_traces++;
	if (!W.violated) { seen_add(a_state_key()); a_drain(); }
	a_close();
	while (qh < qt && g_case_fails == 0) {
		node_t cur = queue[qh++];
		if (cur.n - root.n >= max_len || cur.n >= HMAX) { n_maxdepth++; continue; }
		for (ev = 0; ev < EV_FILL; ev++) {
			node_t nx = cur;
			int ok, fresh = 0;
			if (!canonical(cur.ev + root.n, cur.n - root.n, ev)) continue;
			nx.ev[nx.n++] = (unsigned char)ev;
			ok = a_replay(nx.ev, nx.n);
			if (ok) {
				n_traces++;
				if (!W.violated) {
					fresh = seen_add(a_state_key());
					if (fresh) a_drain(); else n_pruned++;
				}
			}
			a_close();
			if (ok && fresh && !W.violated) {
				if (n_states >= max_states) { vf_inexhaustive("state bound %ld reached in %s", max_states, vf_case_name()); qh = qt; break; }
				if (qt == qcap) { qcap *= 2; queue = realloc(queue, qcap * sizeof *queue); }
				queue[qt++] = nx;
			}
		}
	}
	free(queue);
	vf_count("states", n_states); vf_count("transitions", n_transitions); vf_count("traces", n_traces); vf_count("pruned_revisits", n_pruned);
	vf_count("histories_cut_at_length_bound", n_maxdepth);
	vf_max("max_states_per_case", n_states);
	vf_obs("states=%ld traces=%ld", n_states, n_traces);
	if (getenv("C15_STATS")) fprintf(stderr, "%s: states %ld traces %ld transitions %ld pruned %ld cut %ld\n", vf_case_name(), n_states, n_traces, n_transitions, n_pruned, n_maxdepth);
}

static void part_a(void) {
	int nE, nR, code, e;
	int maxE = 3;
	seen = calloc((size_t)1 << SEEN_BITS, sizeof *seen);
	for (nE = 1; nE <= maxE; nE++) for (nR = 1; nR <= 2; nR++) {
		int ncodes = 1;
		for (e = 0; e < nE; e++) ncodes *= O_N;
		for (code = 0; code < ncodes; code++) {
			int out[MAXE], c = code, max_len;
			char nm[MAXE + 1];
			long max_states = 200000;
			for (e = 0; e < nE; e++) { out[e] = c % O_N; c /= O_N; nm[e] = OCH[out[e]]; }
			nm[nE] = 0;
			/* number of clock jumps per history (timeouts are in addition exercised by the drain from every state) */
			int clk = 9, silent = 0;
			for (e = 0; e < nE; e++) silent += !O_ANSWERS(out[e]);
			if ((nE == 2 && nR == 2) || (nE == 3 && nR == 1)) clk = VF_THOROUGH ? 9 : 1;
			if (nE == 3 && nR == 2) { if (!VF_THOROUGH) continue; clk = silent ? 1 : 0; }
			max_len = 40;            /* history length bound after the fixed prefix (never reached: the reachable state space is finite) */
			/* the same search on a context that has carried (and freed) another HA service before */
			if (nR == 1 && nE >= 2 && vf_case_begin("ha-reuse:e%d:r%d:%s:clk%d", nE, nR, nm, clk)) {
				g_prelude = 1;
				a_case(nE, nR, out, max_states, max_len, clk);
				g_prelude = 0;
				vf_outcome("ha:context-reused");
				vf_case_end(n_traces > 1);
			}
			if (!vf_case_begin("ha:e%d:r%d:%s:clk%d", nE, nR, nm, clk)) continue;
			a_case(nE, nR, out, max_states, max_len, clk);
			if (nE == 2 && nR == 2 && code < 2) vf_sample("part a, %d endpoints with outcomes %s, %d user requests: %ld distinct states, %ld histories replayed, %ld events executed (%s)", nE, nm, nR, n_states, n_traces, n_transitions, EV_LEGEND);
			vf_case_end(n_traces > 1);
		}
	}
	free(seen);
}

/* =================================================================================================== part (b) */
enum { F_LEVEL = 0, F_PERIOD, F_REQS, F_FIRST, F_LAST, NF };
static const char *FNAME[NF] = {"maxlevel", "aggrperiod", "maxrequests", "calfirst", "callast"};
typedef struct { int64_t v[NF]; } conf_t;        /* -1 = absent */
#define CAL_BEGIN 1136073600LL
#define FAR (1LL << 40)

/* the ranges the statement gives */
static int in_range(int f, int64_t v) {
	switch (f) {
		case F_LEVEL: return v >= 1 && v <= 20;
		case F_PERIOD: return v >= 100 && v <= 20000;
		case F_REQS: return v >= 1 && v <= 16000;
		default: return v >= CAL_BEGIN;
	}
}
/* reference fold: largest level / request count / last time, smallest period / first time, over the in-range values */
static void ref_fold(conf_t *acc, const conf_t *c) {
	int f;
	for (f = 0; f < NF; f++) {
		int64_t v = c->v[f];
		if (v < 0 || !in_range(f, v)) continue;
		if (acc->v[f] < 0) acc->v[f] = v;
		else if (f == F_PERIOD || f == F_FIRST) { if (v < acc->v[f]) acc->v[f] = v; }
		else if (v > acc->v[f]) acc->v[f] = v;
	}
}
/* the same defect shows in thousands of multisets: list the first few per signature and process, count the rest */
static void conf_fail(const char *sig, const char *msg) {
	static struct { char sig[64]; int n; } seen_sig[32];
	int i;
	for (i = 0; i < 32 && seen_sig[i].sig[0] && strcmp(seen_sig[i].sig, sig) != 0; i++) {}
	if (i < 32) { if (!seen_sig[i].sig[0]) snprintf(seen_sig[i].sig, sizeof seen_sig[i].sig, "%s", sig); if (seen_sig[i].n++ >= 6 && !vf_replaying()) { vf_count("conf_violations_not_listed", 1); return; } }
	vf_fail(sig, "%s", msg);
}
static void conf_clear(conf_t *c) { int f; for (f = 0; f < NF; f++) c->v[f] = -1; }

typedef struct {
	int kind, nE, mode;           /* mode 0: push-config callback, 1: PUSH_CONFIG_RECEIVED handles, 2: handles, all pushes before the first run (3: as 1, first endpoint via setEndpoint; 4: as 0, callback registered on the context) */
	KSI_CTX *ctx;
	KSI_AsyncService *ha;
	uint64_t prime_id[MAXE]; int prime_seen[MAXE];
	conf_t view; int ndeliv, ndeliv_cb, ndeliv_h;
	int prime_done;
	conf_t last_pushed[MAXE]; int pushed[MAXE];   /* mode 5: what each endpoint pushed last */
	int user_consolidate, ncons;
} bworld_t;
static bworld_t B;

static int64_t get_int(KSI_Integer *i) { uint64_t v; if (!i) return -1; v = KSI_Integer_getUInt64(i); if (v == 0) return -1; return v > (uint64_t)INT64_MAX ? INT64_MAX : (int64_t)v; }
static void read_config(KSI_Config *cfg, conf_t *out) {
	KSI_Integer *i = NULL;
	conf_clear(out);
	if (!cfg) return;
	i = NULL; KSI_Config_getMaxLevel(cfg, &i); out->v[F_LEVEL] = get_int(i);
	i = NULL; KSI_Config_getAggrPeriod(cfg, &i); out->v[F_PERIOD] = get_int(i);
	i = NULL; KSI_Config_getMaxRequests(cfg, &i); out->v[F_REQS] = get_int(i);
	i = NULL; KSI_Config_getCalendarFirstTime(cfg, &i); out->v[F_FIRST] = get_int(i);
	i = NULL; KSI_Config_getCalendarLastTime(cfg, &i); out->v[F_LAST] = get_int(i);
}
static int b_conf_cb(KSI_CTX *ctx, KSI_Config *cfg) {
	(void)ctx;
	read_config(cfg, &B.view);
	B.ndeliv++; B.ndeliv_cb++;
	return KSI_OK;
}
static int b_conf_cb_other(KSI_CTX *ctx, KSI_Config *cfg) {
	(void)ctx; (void)cfg;
	conf_fail("conf-delivered-to-wrong-callback", "the consolidated configuration of this HA service was handed to the context's callback for the OTHER kind of service (aggregator / extender mixed up)");
	return KSI_OK;
}
/* mode 5: the application consolidates itself (KSI_ASYNC_OPT_CONF_CONSOLIDATE_CALLBACK). It is told which endpoint pushed what and is
 * given the service's running configuration to update; here it applies the same fold as the default through the public setters */
static void set_field(KSI_CTX *ctx, KSI_Config *cfg, int f, int64_t v) {
	KSI_Integer *old = NULL, *nw = NULL;
	switch (f) {
		case F_LEVEL: KSI_Config_getMaxLevel(cfg, &old); break;
		case F_PERIOD: KSI_Config_getAggrPeriod(cfg, &old); break;
		case F_REQS: KSI_Config_getMaxRequests(cfg, &old); break;
		case F_FIRST: KSI_Config_getCalendarFirstTime(cfg, &old); break;
		default: KSI_Config_getCalendarLastTime(cfg, &old); break;
	}
	if (get_int(old) == v) return;
	KSI_Integer_free(old);
	if (v >= 0 && KSI_Integer_new(ctx, (KSI_uint64_t)v, &nw) != KSI_OK) vf_harness_error("integer");
	switch (f) {
		case F_LEVEL: KSI_Config_setMaxLevel(cfg, nw); break;
		case F_PERIOD: KSI_Config_setAggrPeriod(cfg, nw); break;
		case F_REQS: KSI_Config_setMaxRequests(cfg, nw); break;
		case F_FIRST: KSI_Config_setCalendarFirstTime(cfg, nw); break;
		default: KSI_Config_setCalendarLastTime(cfg, nw); break;
	}
}
static void ref_fold(conf_t *acc, const conf_t *c);
static int kind_has(int kind, int f);
static void b_push(int e, const conf_t *c);
static int b_consolidate_cb(KSI_CTX *ctx, size_t id, void *userp, KSI_Config *haConfig, KSI_Config *respConfig) {
	conf_t cur, resp;
	int f;
	(void)userp;
	B.ncons++;
	if (haConfig == NULL || respConfig == NULL) { conf_fail("conf-consolidate-callback-args", "the application's consolidation callback was called without the running or the pushed configuration"); return KSI_OK; }
	read_config(haConfig, &cur);
	read_config(respConfig, &resp);
	/* the id is the opaque endpoint id of the sub-service that received the push (the same value KSI_AsyncHandle_getParentId reports);
	 * it is resolved through the sub-service list the HA service hands out */
	{
		KSI_LIST(KSI_AsyncService) *subs = NULL;
		size_t i, sid = 0;
		int e = -1;
		if (KSI_AsyncService_getOption(B.ha, KSI_ASYNC_OPT_HA_SUBSERVICE_LIST, (void *)&subs) != KSI_OK || subs == NULL) vf_harness_error("sub-service list");
		for (i = 0; i < KSI_AsyncServiceList_length(subs); i++) {
			KSI_AsyncService *as = NULL;
			KSI_AsyncServiceList_elementAt(subs, i, &as);
			if (as && KSI_AsyncService_getOption(as, KSI_ASYNC_PRIVOPT_ENDPOINT_ID, (void *)&sid) == KSI_OK && sid == id) e = ep_of_host(((TcpAsyncCtx *)sid)->host);
		}
		id = e < 0 ? (size_t)MAXE : (size_t)e;
	}
	if (id >= (size_t)B.nE || !B.pushed[id]) conf_fail("conf-consolidate-callback-endpoint", "the application's consolidation callback names an endpoint that has not pushed a configuration");
	else for (f = 0; f < NF; f++) {
		int64_t want = B.last_pushed[id].v[f];
		if (!kind_has(B.kind, f)) continue;
		if (want == 0) want = -1;
		if (resp.v[f] != want) { char m[300]; snprintf(m, sizeof m, "the application's consolidation callback is told that endpoint %zu pushed %s = %lld, the endpoint's last push carried %lld", id, FNAME[f], (long long)resp.v[f], (long long)want); conf_fail("conf-consolidate-callback-values", m); }
	}
	ref_fold(&cur, &resp);
	for (f = 0; f < NF; f++) if (kind_has(B.kind, f)) set_field(ctx, haConfig, f, cur.v[f]);
	return KSI_OK;
}
static void b_after_send(sn_conn *c) {
	int e = ep_of_host(c->host);
	for (;;) {
		rtlv t;
		rp_req r;
		if (c->parsed_out >= c->out.n || rtlv_read(c->out.p + c->parsed_out, c->out.n - c->parsed_out, &t) != 0) break;
		if (rp_parse_request(c->out.p + c->parsed_out, t.hdr + t.len, B.kind, &r) == 0 && r.has_req && e >= 0) { B.prime_id[e] = r.req_id; B.prime_seen[e] = 1; }
		rp_req_free(&r);
		c->parsed_out += t.hdr + t.len;
	}
}
static void b_env(rp_env *env) {
	memset(env, 0, sizeof *env);
	env->version = 2; env->kind = B.kind; env->login = LOGIN; env->mac_alg = RH_SHA256; env->key = KEY; env->keylen = strlen(KEY);
}
/* one HA run; a returned configuration handle updates the view */
static int b_run(void) {
	KSI_AsyncHandle *out = NULL;
	size_t waiting = 0;
	int state = -1;
	int res = KSI_AsyncService_run(B.ha, &out, &waiting);
	vf_count("impl_calls", 1);
	if (res != KSI_OK) vf_fail("conf-run-error", "run() failed with 0x%x while configurations were pushed", res);
	if (!out) return 0;
	KSI_AsyncHandle_getState(out, &state);
	if (state == KSI_ASYNC_STATE_PUSH_CONFIG_RECEIVED) {
		KSI_Config *cfg = NULL;
		KSI_AsyncHandle_getConfig(out, &cfg);
		read_config(cfg, &B.view);
		B.ndeliv++; B.ndeliv_h++;
		if (B.mode == 0) vf_fail("conf-delivered-twice", "a push-config callback is set on the HA service but a PUSH_CONFIG_RECEIVED handle was returned as well");
	} else if (B.prime_done) {
		vf_fail("conf-unexpected-handle", "run() returned a handle in state %d while only configurations were pushed", state);
	}
	KSI_AsyncHandle_free(out);
	return 1;
}
/* the TCP sub-services connect only when there is something to send: one request, refused by every endpoint with an error status */
static void b_prime(void) {
	KSI_AsyncHandle *h = NULL;
	int kind = B.kind, nE = B.nE, e, r;
	B.prime_done = 0;
	for (e = 0; e < MAXE; e++) B.prime_seen[e] = 0;
	if (kind == RP_AGGR) {
		KSI_DataHash *dh = NULL;
		unsigned char hh[RH_MAX_IMPRINT];
		size_t hl = ref_fake_imprint(RH_SHA256, 77, hh);
		KSI_DataHash_fromImprint(B.ctx, hh, hl, &dh);
		if (KSI_AsyncSigningHandle_new(B.ctx, dh, 0, &h) != KSI_OK) vf_harness_error("handle");
	} else {
		KSI_ExtendReq *req = NULL;
		KSI_Integer *t = NULL;
		KSI_ExtendReq_new(B.ctx, &req);
		KSI_Integer_new(B.ctx, T0 - 86400 * 40, &t);
		KSI_ExtendReq_setAggregationTime(req, t);
		if (KSI_AsyncExtendHandle_new(B.ctx, req, &h) != KSI_OK) vf_harness_error("handle");
	}
	if (KSI_AsyncService_addRequest(B.ha, h) != KSI_OK) vf_harness_error("priming request refused");
	b_run();
	for (e = 0; e < nE; e++) {
		sn_conn *c = ep_conn(e);
		vbuf b, payload;
		rp_env env;
		if (!c || !B.prime_seen[e]) vf_harness_error("priming request did not reach endpoint %d", e);
		b_env(&env);
		vb_init(&b); vb_init(&payload);
		if (kind == RP_AGGR) rp_aggr_resp_payload(&payload, 2, B.prime_id[e], 1, 0x0101, "refused", NULL, 0);
		else rp_ext_resp_payload(&payload, 2, B.prime_id[e], 1, 0x0101, "refused", 0, 0, NULL, 0);
		rp_wrap_response(&b, &env, payload.p, payload.n);
		sn_server_write(c, b.p, b.n);
		vb_free(&b); vb_free(&payload);
	}
	for (r = 0, e = 0; r < 12 && e < 2; r++) e = b_run() ? 0 : e + 1;
	B.prime_done = 1;
}
static void b_open(int kind, int nE, int mode) {
	KSI_AsyncHandle *h = NULL;
	int e, r, setup = (mode == 3);   /* mode 3: handle delivery on a service whose first endpoint was given with KSI_AsyncService_setEndpoint */
	int ctxcb = (mode == 4);         /* mode 4: callback delivery through the callback registered on the CONTEXT for this kind of service */
	int usercons = (mode == 5);      /* mode 5: callback delivery, the application consolidates (KSI_ASYNC_OPT_CONF_CONSOLIDATE_CALLBACK) */
	int reset = (mode == 6);         /* mode 6: callback delivery on a service that was re-pointed with KSI_AsyncService_setEndpoint after it had already
	                                  * consolidated dominating values from its former endpoints: they no longer take part */
	if (setup) mode = 1;
	if (ctxcb || usercons || reset) mode = 0;
	memset(&B, 0, sizeof B);
	B.kind = kind; B.nE = nE; B.mode = mode; B.user_consolidate = usercons;
	conf_clear(&B.view);
	sn_reset(); fc_reset();
	sn.after_send = b_after_send;
	B.ctx = ku_ctx();
	if ((kind == RP_AGGR ? KSI_SigningHighAvailabilityService_new(B.ctx, &B.ha) : KSI_ExtendingHighAvailabilityService_new(B.ctx, &B.ha)) != KSI_OK) vf_harness_error("HA service");
	for (e = 0; e < nE; e++) {
		char uri[64];
		snprintf(uri, sizeof uri, "ksi+tcp://ha%d.test:%d", e, 1001 + e);
		if (setup && e == 0) { if (KSI_AsyncService_setEndpoint(B.ha, uri, LOGIN, KEY) != KSI_OK) vf_harness_error("setEndpoint"); }
		else if (KSI_AsyncService_addEndpoint(B.ha, uri, LOGIN, KEY) != KSI_OK) vf_harness_error("addEndpoint");
	}
	KSI_AsyncService_setOption(B.ha, KSI_ASYNC_OPT_MAX_REQUEST_COUNT, (void *)(size_t)8);
	if (mode == 0 && !ctxcb && KSI_AsyncService_setOption(B.ha, KSI_ASYNC_OPT_PUSH_CONF_CALLBACK, (void *)b_conf_cb) != KSI_OK) vf_harness_error("callback option");
	if (usercons && KSI_AsyncService_setOption(B.ha, KSI_ASYNC_OPT_CONF_CONSOLIDATE_CALLBACK, (void *)b_consolidate_cb) != KSI_OK) vf_harness_error("consolidate callback option");
	if (ctxcb) {
		/* the callback of the other kind of service is registered as well: it must never see this service's configuration */
		if (KSI_CTX_setOption(B.ctx, kind == RP_AGGR ? KSI_OPT_AGGR_CONF_RECEIVED_CALLBACK : KSI_OPT_EXT_CONF_RECEIVED_CALLBACK, (void *)b_conf_cb) != KSI_OK) vf_harness_error("context callback");
		if (KSI_CTX_setOption(B.ctx, kind == RP_AGGR ? KSI_OPT_EXT_CONF_RECEIVED_CALLBACK : KSI_OPT_AGGR_CONF_RECEIVED_CALLBACK, (void *)b_conf_cb_other) != KSI_OK) vf_harness_error("context callback");
	}
	b_prime();
	if (B.ndeliv) vf_harness_error("configuration delivered before any was pushed");
	if (reset) {
		conf_t stale;
		conf_clear(&stale);
		stale.v[F_LEVEL] = 20; stale.v[F_PERIOD] = 100; stale.v[F_REQS] = 16000; stale.v[F_FIRST] = CAL_BEGIN; stale.v[F_LAST] = (int64_t)T0 + 86400 * 3650;
		b_push(0, &stale);
		for (r = 0, e = 0; r < 10 && e < 2; r++) e = b_run() ? 0 : e + 1;
		if (B.ndeliv == 0) vf_harness_error("the configuration of the former endpoint was not delivered");
		/* the service is pointed at its endpoints anew: setEndpoint drops every former endpoint and what was learnt from them */
		for (e = 0; e < nE; e++) {
			char uri[64];
			snprintf(uri, sizeof uri, "ksi+tcp://ha%d.test:%d", e, 1001 + e);
			if ((e == 0 ? KSI_AsyncService_setEndpoint(B.ha, uri, LOGIN, KEY) : KSI_AsyncService_addEndpoint(B.ha, uri, LOGIN, KEY)) != KSI_OK) vf_harness_error("re-pointing the HA service");
		}
		KSI_AsyncService_setOption(B.ha, KSI_ASYNC_OPT_MAX_REQUEST_COUNT, (void *)(size_t)8);
		conf_clear(&B.view); B.ndeliv = B.ndeliv_cb = B.ndeliv_h = 0;
		for (e = 0; e < MAXE; e++) B.pushed[e] = 0;
		{
			/* exactly the endpoints configured now are left */
			KSI_LIST(KSI_AsyncService) *subs = NULL;
			if (KSI_AsyncService_getOption(B.ha, KSI_ASYNC_OPT_HA_SUBSERVICE_LIST, (void *)&subs) != KSI_OK || subs == NULL) vf_harness_error("sub-service list");
			if ((int)KSI_AsyncServiceList_length(subs) != nE) { char m[200]; snprintf(m, sizeof m, "after KSI_AsyncService_setEndpoint and %d addEndpoint call(s) the HA service has %zu sub-services (a former endpoint survived the reset)", nE - 1, (size_t)KSI_AsyncServiceList_length(subs)); conf_fail("ha-reset-keeps-former-endpoint", m); }
		}
		b_prime();
		if (B.ndeliv) conf_fail("conf-delivered-after-reset", "a configuration was delivered right after the HA service was re-pointed, before any of its new endpoints pushed one");
		conf_clear(&B.view); B.ndeliv = B.ndeliv_cb = B.ndeliv_h = 0;
		vf_outcome("conf:after-setEndpoint-reset");
	}
}
static void b_close(void) {
	KSI_AsyncService_free(B.ha);
	KSI_CTX_free(B.ctx);
	if (vf_alloc_live != 0) { vf_fail("leak", "%ld SDK allocations live after freeing the service and the context (configuration pushes)", vf_alloc_live); vf_alloc_live = 0; }
}
static void b_push(int e, const conf_t *c) {
	sn_conn *conn = ep_conn(e);
	vbuf b, payload;
	rp_env env;
	if (!conn) vf_harness_error("no connection to endpoint %d", e);
	B.last_pushed[e] = *c; B.pushed[e] = 1;
	b_env(&env);
	vb_init(&b); vb_init(&payload);
	if (B.kind == RP_AGGR) rp_aggr_conf_payload(&payload, c->v[F_LEVEL], -1, c->v[F_PERIOD], c->v[F_REQS], NULL);
	else rp_ext_conf_payload(&payload, c->v[F_REQS], NULL, c->v[F_FIRST], c->v[F_LAST]);
	rp_wrap_response(&b, &env, payload.p, payload.n);
	sn_server_write(conn, b.p, b.n);
	vb_free(&b); vb_free(&payload);
}
static const char *conf_str(const conf_t *c, int kind) {
	static char buf[4][160];
	static int rot;
	char *o = buf[rot++ & 3];
	if (kind == RP_AGGR) snprintf(o, 160, "{level=%lld period=%lld requests=%lld}", (long long)c->v[F_LEVEL], (long long)c->v[F_PERIOD], (long long)c->v[F_REQS]);
	else snprintf(o, 160, "{requests=%lld first=%lld last=%lld}", (long long)c->v[F_REQS], (long long)c->v[F_FIRST], (long long)c->v[F_LAST]);
	return o;
}
static int kind_has(int kind, int f) { return kind == RP_AGGR ? (f == F_LEVEL || f == F_PERIOD || f == F_REQS) : (f == F_REQS || f == F_FIRST || f == F_LAST); }

/* pushes the sequence, checks the delivered view against the reference fold after every push (or at the end in
 * batch mode); returns the final view. bad[f] is set for fields that disagreed. */
static void b_sequence(int kind, int nE, int mode, int n, const conf_t *seq, const int *eps, conf_t *final, int *bad) {
	conf_t exp;
	int j, f, r, idle;
	char desc[600];
	size_t o = 0;
	desc[0] = 0;
	for (j = 0; j < n; j++) o += (size_t)snprintf(desc + o, sizeof desc - o, "%s endpoint %d pushes %s", j ? "," : "", eps[j], conf_str(&seq[j], kind));
	b_open(kind, nE, mode);
	conf_clear(&exp);
	for (j = 0; j < n; j++) {
		b_push(eps[j], &seq[j]);
		ref_fold(&exp, &seq[j]);
		if (mode == 2 && j + 1 < n) continue;
		for (r = 0, idle = 0; r < 10 && idle < 2; r++) idle = b_run() ? 0 : idle + 1;
		for (f = 0; f < NF; f++) {
			if (!kind_has(kind, f)) continue;
			if (B.view.v[f] != exp.v[f]) {
				char sig[64];
				snprintf(sig, sizeof sig, "conf-fold:%s", FNAME[f]);
				if (!bad[f]) { char msg[2400]; snprintf(msg, sizeof msg, "%s: consolidated %s delivered %s is %lld after push %d, the fold over the in-range values is %lld (-1 = absent) [%s service, %d endpoints, delivery by %s%s:%s; delivered %s expected %s]",
				                    FNAME[f], FNAME[f], B.ndeliv ? (mode == 0 ? "to the callback" : "in the handle") : "(nothing delivered)", (long long)B.view.v[f], j + 1, (long long)exp.v[f],
				                    kind == RP_AGGR ? "signing" : "extending", nE, mode == 0 ? "callback" : "handle", mode == 2 ? ", all pushes before the first run" : "", desc, conf_str(&B.view, kind), conf_str(&exp, kind)); conf_fail(sig, msg); }
				bad[f] = 1;
			}
		}
	}
	if (B.user_consolidate) {
		if (B.ncons != n) { char m[200]; snprintf(m, sizeof m, "%d configurations were pushed, the application's consolidation callback ran %d time(s)", n, B.ncons); conf_fail("conf-consolidate-callback-count", m); }
		else vf_outcome("conf:consolidated-by-application");
	}
	if (B.ndeliv_cb) vf_outcome("conf:deliver:callback");
	if (B.ndeliv_h) vf_outcome("conf:deliver:handle");
	*final = B.view;
	b_close();
}

/* all distinct orders of the n (config, endpoint) pairs */
static int next_perm(int *p, int n) {
	int i = n - 2, j, t;
	while (i >= 0 && p[i] >= p[i + 1]) i--;
	if (i < 0) return 0;
	for (j = n - 1; p[j] <= p[i]; j--) {}
	t = p[i]; p[i] = p[j]; p[j] = t;
	for (i++, j = n - 1; i < j; i++, j--) { t = p[i]; p[i] = p[j]; p[j] = t; }
	return 1;
}

/* one case: a multiset of (config, endpoint) pairs; every order, every delivery mode */
static void b_multiset(int kind, int nE, int n, const conf_t *cfg, const int *eps, const char *label) {
	int mode, f, j, distinct_eps = 1, nperm_total = 0;
	int bad[NF] = {0};
	for (j = 0; j < n; j++) { int i; for (i = 0; i < j; i++) if (eps[i] == eps[j]) distinct_eps = 0; }
	for (mode = 0; mode < 7; mode++) {
		int p[3] = {0, 1, 2}, first = 1;
		conf_t ref_final;
		char first_order[8] = "";
		if (mode == 2 && (!distinct_eps || n < 2)) continue;     /* a second push on the same connection before the run supersedes the first */
		do {
			conf_t seq[3], fin;
			int ep[3], dup = 0;
			char order[8];
			for (j = 0; j < n; j++) { seq[j] = cfg[p[j]]; ep[j] = eps[p[j]]; order[j] = (char)('1' + p[j]); }
			order[n] = 0;
			/* skip orders that give the same sequence (equal pairs) */
			for (j = 0; j + 1 < n; j++) if (p[j] > p[j + 1] && memcmp(&cfg[p[j]], &cfg[p[j + 1]], sizeof(conf_t)) == 0 && eps[p[j]] == eps[p[j + 1]]) dup = 1;
			if (dup) continue;
			b_sequence(kind, nE, mode, n, seq, ep, &fin, bad);
			nperm_total++;
			vf_count("conf_sequences", 1);
			if (first) { ref_final = fin; first = 0; strcpy(first_order, order); }
			else for (f = 0; f < NF; f++) if (kind_has(kind, f) && fin.v[f] != ref_final.v[f]) {
				char sig[64];
				snprintf(sig, sizeof sig, "conf-order-dependent:%s", FNAME[f]);
				{ char msg[1200]; snprintf(msg, sizeof msg, "%s: final consolidated %s depends on the order in which the same configurations arrive: order %s gives %lld, order %s gives %lld [%s, mode %d, %d endpoints]", FNAME[f], FNAME[f], first_order, (long long)ref_final.v[f], order, (long long)fin.v[f], label, mode, nE); conf_fail(sig, msg); }
				bad[f] |= 2;
			}
		} while (next_perm(p, n));
	}
	for (f = 0; f < NF; f++) if (kind_has(kind, f)) {
		int touched = 0, oor = 0;
		for (j = 0; j < n; j++) { if (cfg[j].v[f] >= 0) touched = 1; if (cfg[j].v[f] >= 0 && !in_range(f, cfg[j].v[f])) oor = 1; }
		if (!touched) continue;
		vf_outcome("conf:field:%s:%s", FNAME[f], bad[f] ? "mismatch" : "ok");
		if (oor) vf_outcome("conf:field:%s:out-of-range-value:%s", FNAME[f], bad[f] ? "mismatch" : "ignored");
	}
	vf_obs("perms=%d bad=%d%d%d%d%d", nperm_total, bad[0], bad[1], bad[2], bad[3], bad[4]);
}

/* value alphabets: absent, 0, far below, min-1, min, mid1 < mid2, max, max+1, far above (duplicates removed; calendar
 * times have no upper bound, so "far above" is in range) */
static const int64_t A_LEVEL[]  = {-1, 0, 1, 7, 13, 20, 21, 261, (1LL << 32) + 5, FAR};   /* 261, 2^32+5: in range only if truncated to 8 / 32 bits */
static const int64_t A_PERIOD[] = {-1, 0, 1, 99, 100, 500, 3000, 20000, 20001, (1LL << 32) + 500, FAR};
static const int64_t A_REQS[]   = {-1, 0, 1, 10, 4000, 16000, 16001, 65536 + 10, (1LL << 32) + 10, FAR};
static const int64_t A_TIME[]   = {-1, 0, 1000, CAL_BEGIN - 1, CAL_BEGIN, 1400000000, 1600000000, FAR};
#define NEL(a) ((int)(sizeof(a) / sizeof *(a)))

static void part_b_single(void) {
	static const struct { int kind, f; const int64_t *a; int n; } FIELDS[] = {
		{RP_AGGR, F_LEVEL, A_LEVEL, NEL(A_LEVEL)}, {RP_AGGR, F_PERIOD, A_PERIOD, NEL(A_PERIOD)}, {RP_AGGR, F_REQS, A_REQS, NEL(A_REQS)},
		{RP_EXT, F_REQS, A_REQS, NEL(A_REQS)}, {RP_EXT, F_FIRST, A_TIME, NEL(A_TIME)}, {RP_EXT, F_LAST, A_TIME, NEL(A_TIME)},
	};
	int fi, n, i0, i1, i2, a, nE = VF_THOROUGH ? 3 : 2, nsampled = 0;
	for (fi = 0; fi < NEL(FIELDS); fi++) for (n = 1; n <= 3; n++) {
		int na = FIELDS[fi].n, nassign = 1, j;
		for (j = 0; j < n; j++) nassign *= nE;
		for (i0 = 0; i0 < na; i0++) for (i1 = (n >= 2 ? i0 : na - 1); i1 < na; i1++) for (i2 = (n >= 3 ? i1 : na - 1); i2 < na; i2++) for (a = 0; a < nassign; a++) {
			conf_t cfg[3];
			int eps[3], idx[3], x = a;
			char label[120], eplabel[4];
			idx[0] = i0; idx[1] = i1; idx[2] = i2;
			for (j = 0; j < n; j++) { conf_clear(&cfg[j]); cfg[j].v[FIELDS[fi].f] = FIELDS[fi].a[idx[j]]; eps[j] = x % nE; x /= nE; eplabel[j] = (char)('0' + eps[j]); }
			eplabel[n] = 0;
			/* equal values: only non-decreasing endpoint numbers (the pairs form a multiset) */
			for (j = 0, x = 0; j + 1 < n; j++) if (idx[j] == idx[j + 1] && eps[j] > eps[j + 1]) x = 1;
			if (x) continue;
			if (!vf_case_begin("conf:%s:%s:n%d:v%d.%d.%d:ep%s:e%d", FIELDS[fi].kind == RP_AGGR ? "aggr" : "ext", FNAME[FIELDS[fi].f], n, i0, n >= 2 ? i1 : -1, n >= 3 ? i2 : -1, eplabel, nE)) continue;
			snprintf(label, sizeof label, "%s values %lld,%lld,%lld on endpoints %s", FNAME[FIELDS[fi].f], (long long)cfg[0].v[FIELDS[fi].f], n >= 2 ? (long long)cfg[1].v[FIELDS[fi].f] : -2LL, n >= 3 ? (long long)cfg[2].v[FIELDS[fi].f] : -2LL, eplabel);
			b_multiset(FIELDS[fi].kind, nE, n, cfg, eps, label);
			if (n == 3 && a == 5 && nsampled < 2 && i0 == 2 && i1 == 4 && i2 == 6) { nsampled++; vf_sample("part b single field: %s service, %s; every order x {callback, handle, batch} delivery, reference fold after every push", FIELDS[fi].kind == RP_AGGR ? "signing" : "extending", label); }
			vf_case_end(1);
		}
	}
}

/* cross-field: reduced alphabet per field {absent, in-range a < b, out-of-range}; extender configurations are
 * self-consistent (first <= last); across endpoints the in-range first time 1550000000 lies after the in-range last time 1500000000
 * (a lagging extender), so an order-dependent cross-field rule would show */
static const int64_t X_LEVEL[4]  = {-1, 5, 12, 21};
static const int64_t X_PERIOD[4] = {-1, 400, 1000, 99};
static const int64_t X_REQS[4]   = {-1, 8, 256, 16001};
static const int64_t X_FIRST[4]  = {-1, 1200000000, 1550000000, CAL_BEGIN - 1};
static const int64_t X_LAST[4]   = {-1, 1500000000, 1600000000, CAL_BEGIN - 1};

static int cross_conf(int kind, int code, int reduced, conf_t *c) {
	/* code: base 4 (or base 3 over {absent, a, out} when reduced) digits for the three fields */
	int base = reduced ? 3 : 4, d[3], i;
	for (i = 0; i < 3; i++) { d[i] = code % base; code /= base; if (reduced && d[i] == 2) d[i] = 3; }
	conf_clear(c);
	if (kind == RP_AGGR) { c->v[F_LEVEL] = X_LEVEL[d[0]]; c->v[F_PERIOD] = X_PERIOD[d[1]]; c->v[F_REQS] = X_REQS[d[2]]; return 1; }
	c->v[F_REQS] = X_REQS[d[0]]; c->v[F_FIRST] = X_FIRST[d[1]]; c->v[F_LAST] = X_LAST[d[2]];
	if (c->v[F_FIRST] >= 0 && c->v[F_LAST] >= 0 && c->v[F_FIRST] > c->v[F_LAST]) return 0;
	return 1;
}

static void part_b_cross(void) {
	int kind, n, nE = VF_THOROUGH ? 3 : 2, sampled = 0;
	for (kind = RP_AGGR; kind <= RP_EXT; kind++) for (n = 2; n <= (VF_THOROUGH ? 3 : 2); n++) {
		int reduced = n == 3, ncodes = reduced ? 27 : 64, c0, c1, c2, a, nassign = 1, j;
		for (j = 0; j < n; j++) nassign *= nE;
		for (c0 = 0; c0 < ncodes; c0++) for (c1 = c0; c1 < ncodes; c1++) for (c2 = (n >= 3 ? c1 : ncodes - 1); c2 < ncodes; c2++) for (a = 0; a < nassign; a++) {
			conf_t cfg[3];
			int eps[3], idx[3], x = a, ok = 1;
			char label[160], eplabel[4];
			idx[0] = c0; idx[1] = c1; idx[2] = c2;
			for (j = 0; j < n; j++) { ok &= cross_conf(kind, idx[j], reduced, &cfg[j]); eps[j] = x % nE; x /= nE; eplabel[j] = (char)('0' + eps[j]); }
			eplabel[n] = 0;
			if (!ok) continue;
			/* in the three-push runs the first push goes to endpoint 0 and a new endpoint number is used only after all smaller ones
			 * (the sub-services are configured identically; every ORDER of the pushes is still tried) */
			if (n == 3) { int mx = -1; for (j = 0, x = 0; j < n; j++) { if (eps[j] > mx + 1) x = 1; if (eps[j] > mx) mx = eps[j]; } if (x) continue; }
			for (j = 0, x = 0; j + 1 < n; j++) if (idx[j] == idx[j + 1] && eps[j] > eps[j + 1]) x = 1;
			if (x) continue;
			if (!vf_case_begin("confx:%s:n%d:c%d.%d.%d:ep%s:e%d", kind == RP_AGGR ? "aggr" : "ext", n, c0, c1, n >= 3 ? c2 : -1, eplabel, nE)) continue;
			snprintf(label, sizeof label, "configurations %s %s %s on endpoints %s", conf_str(&cfg[0], kind), conf_str(&cfg[1], kind), n >= 3 ? conf_str(&cfg[2], kind) : "", eplabel);
			b_multiset(kind, nE, n, cfg, eps, label);
			vf_outcome("conf:cross:%s", kind == RP_AGGR ? "aggr" : "ext");
			if (sampled < 2 && c0 == 21 && c1 == 38 && a == 1) { sampled++; vf_sample("part b cross-field: %s service, %s", kind == RP_AGGR ? "signing" : "extending", label); }
			vf_case_end(1);
		}
	}
}

/* =================================================================================================== part (c)
 * a configuration REQUEST through the HA service: it goes to every endpoint; each endpoint answers with a configuration, with an
 * error PDU, or never; every order of the answers. run() never fails, the request comes back exactly once - with a configuration if
 * any endpoint delivered one (whatever failed before or after), with an error only after every endpoint has failed - and there are
 * never more error notices than failed endpoints. */
static void part_c(void) {
	static const char KCH[4] = "CPT";       /* configuration, error PDU, never */
	int nE, code, perm;
	for (nE = 2; nE <= 3; nE++) {
		int ncodes = nE == 2 ? 9 : 27, nperm = nE == 2 ? 2 : 6;
		static const int P2[2][3] = {{0, 1, 0}, {1, 0, 0}};
		static const int P3[6][3] = {{0, 1, 2}, {0, 2, 1}, {1, 0, 2}, {1, 2, 0}, {2, 0, 1}, {2, 1, 0}};
		for (code = 0; code < ncodes; code++) for (perm = 0; perm < nperm; perm++) {
			int kind[3], e, i, c = code, nconf = 0, nfail = 0, back = 0, back_state = -1, notices = 0, confs = 0, rounds;
			char nm[4];
			KSI_AsyncHandle *h = NULL;
			KSI_AggregationReq *rq = NULL;
			KSI_Config *cf = NULL;
			for (e = 0; e < nE; e++) { kind[e] = c % 3; c /= 3; nm[e] = KCH[kind[e]]; nconf += kind[e] == 0; nfail += kind[e] != 0; }
			nm[nE] = 0;
			if (!vf_case_begin("ha-conf-request:e%d:%s:order%d", nE, nm, perm)) continue;
			W.nE = nE; W.nR = 1;
			for (e = 0; e < nE; e++) W.out[e] = O_VALID;
			a_open();
			if (KSI_AggregationReq_new(W.ctx, &rq) != KSI_OK || KSI_Config_new(W.ctx, &cf) != KSI_OK || KSI_AggregationReq_setConfig(rq, cf) != KSI_OK) vf_harness_error("configuration request objects");
			if (KSI_AsyncAggregationHandle_new(W.ctx, rq, &h) != KSI_OK) vf_harness_error("configuration request handle");
			if (KSI_AsyncService_addRequest(W.ha, h) != KSI_OK) { vf_fail("submission-refused", "the HA service refused a configuration request although every endpoint has room"); KSI_AsyncHandle_free(h); h = NULL; }
			for (i = 0; h != NULL && i <= nE + 1; i++) {
				/* step 0: the request goes out; steps 1..nE: one endpoint answers; last step: the clock passes all time-outs */
				if (i >= 1 && i <= nE) {
					int ep = (nE == 2 ? P2[perm] : P3[perm])[i - 1];
					sn_conn *cn = ep_conn(ep);
					if (kind[ep] != 2 && cn != NULL) {
						rp_env env;
						vbuf b, payload;
						memset(&env, 0, sizeof env);
						env.version = 2; env.kind = RP_AGGR; env.login = LOGIN; env.mac_alg = RH_SHA256; env.key = KEY; env.keylen = strlen(KEY);
						vb_init(&b); vb_init(&payload);
						if (kind[ep] == 0) rp_aggr_conf_payload(&payload, 10 + ep, 1, 400, 100 + ep, NULL);
						else rp_error_payload(&payload, 2, RP_AGGR, 0x0300, "upstream error");
						rp_wrap_response(&b, &env, payload.p, payload.n);
						sn_server_write(cn, b.p, b.n);
						vb_free(&b); vb_free(&payload);
					}
				}
				if (i == nE + 1) sn_now += TIMEOUT_S + 1;
				for (rounds = 0; rounds < 4; rounds++) {
					KSI_AsyncHandle *out = NULL;
					size_t waiting = 0;
					int st = -1, res = KSI_AsyncService_run(W.ha, &out, &waiting);
					vf_count("impl_calls", 1);
					if (res != KSI_OK) { vf_fail("ha-run-error", "configuration request through %d endpoints (answers %s, order %d): run() failed with 0x%x after step %d", nE, nm, perm, res, i); break; }
					if (out == NULL) continue;
					KSI_AsyncHandle_getState(out, &st);
					if (out == h) { back++; back_state = st; }
					else if (st == KSI_ASYNC_STATE_ERROR_NOTICE) { notices++; KSI_AsyncHandle_free(out); }
					else if (st == KSI_ASYNC_STATE_PUSH_CONFIG_RECEIVED) {
						/* the HA service answers a configuration request the way it reports pushed configurations: with a handle of its own
						 * that carries the consolidated configuration (one per endpoint reply that changed it) */
						KSI_Config *got = NULL;
						confs++;
						if (KSI_AsyncHandle_getConfig(out, &got) != KSI_OK || got == NULL) vf_fail("response-without-configuration", "configuration request (answers %s, order %d): a configuration handle without a configuration", nm, perm);
						KSI_AsyncHandle_free(out);
					}
					else { vf_fail("foreign-handle", "configuration request through the HA service: run() returned another handle in state %d", st); KSI_AsyncHandle_free(out); }
				}
			}
			if (h != NULL) {
				if (back > 1) vf_fail("completed-twice", "configuration request through %d endpoints (answers %s, order %d): the request handle was handed back %d times", nE, nm, perm, back);
				if (nconf == 0) {
					/* every endpoint failed: the request itself comes back, once, in the error state */
					if (back != 1 || back_state != KSI_ASYNC_STATE_ERROR) vf_fail("request-lost", "configuration request through %d endpoints (answers %s, order %d): every endpoint failed, the request was handed back %d times (state %d)", nE, nm, perm, back, back_state);
					if (confs) vf_fail("response-without-valid-reply", "configuration request (answers %s): no endpoint delivered a configuration but %d configuration handles were returned", nm, confs);
				} else {
					if (confs == 0 && !(back == 1 && back_state == KSI_ASYNC_STATE_PUSH_CONFIG_RECEIVED)) vf_fail("request-lost", "configuration request through %d endpoints (answers %s, order %d): %d endpoint(s) delivered a configuration but none was handed to the caller", nE, nm, perm, nconf);
					if (back == 1 && back_state == KSI_ASYNC_STATE_ERROR) vf_fail("error-despite-valid-response", "configuration request through %d endpoints (answers %s, order %d): an endpoint delivered a configuration but the request came back in the error state", nE, nm, perm);
					if (confs > nconf) vf_fail("response-without-valid-reply", "configuration request (answers %s, order %d): %d configuration handles for %d configuration replies", nm, perm, confs, nconf);
				}
				if (notices > nfail) vf_fail("notice-without-cause", "configuration request (answers %s, order %d): %d error notices, %d endpoints failed", nm, perm, notices, nfail);
				vf_outcome("ha-conf-request:%s:%d-notices", nconf ? "configuration" : "error", notices);
				if (back == 1) KSI_AsyncHandle_free(h);
			}
			a_close();
			vf_case_end(1);
		}
	}
}

static void run(void) {
	part_a();
	part_c();
	part_b_single();
	part_b_cross();
}

int main(int argc, char **argv) {
	vf_driver d = {"C15", run};
	return vf_main(argc, argv, &d);
}
