/* C13 - async service completes every accepted request exactly once, correctly matched.
 * Explicit-state search: a state is the event history that reaches it, rebuilt on a fresh context for every
 * expansion; states are de-duplicated by a canonical key over the client, transport, environment and shadow
 * state; the invariant is evaluated after every event and a drain phase checks that nothing is lost. */
#include "ku.h"
#include "simnet.h"
#include "ref/ref_pdu.h"
#include <ksi/net_async.h>
#include <ksi/net_uri.h>
#include <ksi/impl/net_async_impl.h>
#include <errno.h>
/* the TCP async client is compiled into this translation unit so that its private state can be read
 * (net_tcp_async.o is left out of the link, see run/reg_c13.py) */
#include "ksi/net_tcp_async.c"

#define LOGIN "u13"
#define KEY   "k13"
#define MAXREQ 12
#define MAXREPLY 24

enum { EV_ADD = 0, EV_RUN, EV_REPLY_OLDEST, EV_REPLY_NEWEST, EV_REPLY_DUP, EV_REPLY_UNKNOWN, EV_REPLY_STALE, EV_REPLY_BADMAC, EV_REPLY_STATUS,
       EV_ERROR_PDU, EV_PUSH_CONF, EV_DELIVER_1, EV_DELIVER_HALF, EV_DELIVER_ALL, EV_PEER_CLOSE, EV_NEXT_CONNECT_REFUSED, EV_NEXT_CONNECT_PENDING,
       EV_SEND_WOULDBLOCK, EV_SEND_PARTIAL, EV_CLOCK_1, EV_CLOCK_BIG, EV_NEVENTS,
       EV_ADD_CONF = EV_NEVENTS,   /* a configuration request: only in the alphabet of part "conf" */
       EV_GROW,                    /* the application enlarges the request cache at run time: only in part "dfs2" */
       EV_READD,                   /* the application submits a handle it got back once more (a new request with the same hash): only in part "readd" */
       EV_RUN_PUMP,                /* KSI_AsyncService_run without a receiving handle pointer (the application only wants the service to make progress): only in part "pump" */
       EV_SNDBUF_FULL,             /* the socket's send buffer is full at the next poll (the connection is not reported writable): only in part "sndbuf" */
       EV_POLL_FAIL,               /* the next poll() on the established connection fails (EIO): only in part "pollfail" */
       EV_NALL };
static const char EVCH[EV_NALL + 1] = "ARonduxmseg1haCXPwp+TKGZNfE";

typedef struct { int cache, maxreq; long long snd, rcv, con; } config_t;

typedef struct {
	KSI_AsyncHandle *h;             /* pointer identity of the accepted handle */
	unsigned seed;
	uint64_t id;                    /* request id seen on the wire (0 until fully sent) */
	time_t add_time, sent_time;
	long add_step;
	int sent_complete, valid_reply_arrived, id_reply_arrived, stale_id_reply_arrived, returned;
	int answered;                   /* server side: a valid reply was queued */
	int madeup_reply_first;         /* an authentic reply with this id that the server made up (chains for another hash) arrived before any honest one */
	int is_conf;                    /* a configuration request (no id, no cache slot) */
	long conf_seen_at_add;          /* authentic configuration payloads that had arrived when it was accepted */
} sreq_t;

typedef struct {
	size_t end_off;                 /* offset in conn->in where this reply ends */
	int conn_seq;
	int kind;                       /* 0 valid, 1 bad data (bad MAC), 2 status error / error PDU, 3 push config, 4 unknown/stale/duplicate id */
	int fabricated;                 /* kind 4: not a repeated reply to an earlier request but an authentic reply the server made up for an id */
	uint64_t id;
	unsigned seed;                  /* whose hash the chains are for */
	int arrived;
} sreply_t;

typedef struct {
	config_t cfg;
	KSI_CTX *ctx;
	KSI_AsyncService *svc;
	sreq_t req[MAXREQ]; int nreq; int nreturned; int total_added;
	sreply_t reply[MAXREPLY]; int nreply;
	vbuf last_valid_reply; uint64_t last_valid_id; unsigned last_valid_seed;
	uint64_t last_returned_id;
	size_t budget;                  /* bytes the client may still read */
	int next_connect_refused, next_connect_pending, send_wouldblock, send_partial, sndbuf_full, poll_fail, poll_failed_now;
	int cause_baddata, cause_status, cause_conn, cause_connect_pending, cause_connect_timeout;
	time_t connect_started; int connecting;
	long step;                      /* events applied so far */
	int id_reuse_expected;          /* long runs through one slot (part wrap): the 8-bit generation counter wraps by design */
	int conf_pending;               /* authentic pushed configurations that reached the client and are not yet accounted for by a returned notice */
	long conf_arrived;              /* authentic configuration payloads that reached the client so far */
	KSI_AsyncHandle *kept;          /* part "readd": the handle returned last, still owned by the application */
	unsigned kept_seed;
	int kept_is_conf;
	int violated;
} world_t;
static int g_ext;                  /* part "extconf": the service is an extending service (configuration requests and pushed configurations only) */
static int g_keep;                 /* returned handles are kept for re-submission instead of being freed */
static world_t W;
static char g_hist[40];
static int g_cfg;
#define HF(sig, ...) do { char _m[900]; snprintf(_m, sizeof _m, __VA_ARGS__); vf_fail(sig, "%s [history %s cfg %d; letters ARonduxmseg1haCXPwp+T = add,run,reply-oldest,reply-newest,dup,unknown-id,stale-id,bad-mac,status,error-pdu,push-conf,deliver1,half,all,peer-close,refuse-next-connect,pending-connect,send-wouldblock,send-partial,clock+1,clock+big; K = add configuration request, G = grow cache, Z = re-add the handle returned last, N = run without a receiving handle pointer, f = send buffer full at the next poll, E = the next poll() on the connection fails]", _m, g_hist, g_cfg); } while (0)

/* ------------------------------------------------------------------ environment hooks */
static int h_connect(sn_conn *c) {
	(void)c;
	W.connecting = 1; W.connect_started = sn_now;
	if (W.next_connect_refused) { W.next_connect_refused = 0; W.cause_conn = (int)W.step + 1; W.connecting = 0; return -ECONNREFUSED; }
	if (W.next_connect_pending) { W.next_connect_pending = 0; W.cause_connect_pending = (int)W.step + 1; return 1000000; }   /* stays pending */
	return 0;
}
static long h_send(sn_conn *c, const void *buf, size_t len) {
	(void)c; (void)buf;
	if (W.send_wouldblock) { W.send_wouldblock = 0; return -EWOULDBLOCK; }
	if (W.send_partial) { W.send_partial = 0; W.send_wouldblock = 1; return (long)(len / 2 ? len / 2 : 1); }   /* half is taken, then the socket buffer is full */
	return (long)len;
}
static void h_after_send(sn_conn *c) {
	/* the server sees complete request PDUs */
	for (;;) {
		rtlv t;
		rp_req r;
		int i, parsed;
		if (c->parsed_out >= c->out.n || rtlv_read(c->out.p + c->parsed_out, c->out.n - c->parsed_out, &t) != 0) break;
		parsed = rp_parse_request(c->out.p + c->parsed_out, t.hdr + t.len, g_ext ? RP_EXT : RP_AGGR, &r) == 0;
		if (!parsed) { HF("request-stream-unframed", "the bytes written on the connection are not a sequence of whole requests (offset %zu of %zu)", c->parsed_out, c->out.n); W.violated = 1; }
		if (parsed && !r.has_req && r.has_conf_req) {
			if (!rp_request_mac_ok(&r, KEY, strlen(KEY))) { HF("request-mac", "emitted configuration request does not carry a valid MAC"); W.violated = 1; }
			for (i = 0; i < W.nreq; i++) if (W.req[i].is_conf && !W.req[i].sent_complete && !W.req[i].returned) { W.req[i].sent_complete = 1; W.req[i].sent_time = sn_now; break; }
		} else if (parsed && r.has_req) {
			if (!rp_request_mac_ok(&r, KEY, strlen(KEY))) { HF("request-mac", "emitted request does not carry a valid MAC"); W.violated = 1; }
			for (i = 0; i < W.nreq; i++) {
				unsigned char h[RH_MAX_IMPRINT];
				size_t hl = ref_fake_imprint(RH_SHA256, W.req[i].seed, h);
				if (!W.req[i].is_conf && !W.req[i].sent_complete && !W.req[i].returned && r.has_hash && r.hash_len == hl && memcmp(r.hash, h, hl) == 0) {
					int q;
					W.req[i].sent_complete = 1; W.req[i].id = r.req_id; W.req[i].sent_time = sn_now;
					/* within fewer than 255 generations of a slot no two requests may bear the same identifier: a reply to the
					 * earlier one (late, repeated) would be taken for the later one's */
					if (!W.id_reuse_expected) for (q = 0; q < W.nreq; q++) if (q != i && W.req[q].sent_complete && !W.req[q].is_conf && W.req[q].id == r.req_id) {
						HF("request-id-reused", "request #%d was sent with identifier %llx, which request #%d of this short history already bore", i, (unsigned long long)r.req_id, q); W.violated = 1; break;
					}
					break;
				}
			}
		}
		rp_req_free(&r);
		c->parsed_out += t.hdr + t.len;
	}
}
static long h_recv(sn_conn *c, size_t avail, size_t cap) {
	size_t k = avail < cap ? avail : cap;
	if (k > W.budget) k = W.budget;
	if (k == 0) {
		if (avail == 0 && c->peer_closed) { W.cause_conn = (int)W.step + 1; return 0; }
		return -EWOULDBLOCK;
	}
	W.budget -= k;
	return (long)k;
}
static int h_poll(sn_conn *c, short events, short *revents) {
	/* connection establishment and readability under the delivery budget */
	short rev = 0;
	(void)events;
	if (c->state == SN_CONNECTING) {
		if (c->connect_polls > 0) { if (c->connect_polls < 1000000) c->connect_polls--; *revents = 0; return 0; }
		c->state = SN_CONNECTED; W.connecting = 0;
	}
	if (c->state == SN_CONNECTED && W.poll_fail) { W.poll_fail = 0; W.poll_failed_now = 1; W.cause_conn = (int)W.step + 1; return -EIO; }
	if (c->state == SN_CONNECTED) {
		if (W.sndbuf_full) W.sndbuf_full = 0;   /* this once the send buffer is full */
		else rev |= POLLOUT;
		if ((c->in.n > c->in_off && W.budget > 0) || (c->in.n == c->in_off && c->peer_closed)) rev |= POLLIN;
	}
	*revents = rev;
	return 0;
}

static sn_conn *live_conn(void) {
	sn_conn *c = sn_last();
	if (c && (c->state == SN_CONNECTED) && !c->peer_closed) return c;
	return NULL;
}

/* ------------------------------------------------------------------ world */
static void world_open(const config_t *cfg) {
	memset(&W, 0, sizeof W);
	W.cfg = *cfg;
	sn_reset(); fc_reset();
	sn.on_connect = h_connect; sn.on_send = h_send; sn.after_send = h_after_send; sn.on_recv = h_recv; sn.on_poll = h_poll;
	W.ctx = ku_ctx();
	if ((g_ext ? KSI_ExtendingAsyncService_new(W.ctx, &W.svc) : KSI_SigningAsyncService_new(W.ctx, &W.svc)) != KSI_OK) vf_harness_error("service");
	if (KSI_AsyncService_setEndpoint(W.svc, "ksi+tcp://a13.test:3332", LOGIN, KEY) != KSI_OK) vf_harness_error("endpoint");
	KSI_AsyncService_setOption(W.svc, KSI_ASYNC_OPT_REQUEST_CACHE_SIZE, (void *)(size_t)cfg->cache);
	KSI_AsyncService_setOption(W.svc, KSI_ASYNC_OPT_MAX_REQUEST_COUNT, (void *)(size_t)cfg->maxreq);
	KSI_AsyncService_setOption(W.svc, KSI_ASYNC_OPT_SND_TIMEOUT, (void *)(size_t)cfg->snd);
	KSI_AsyncService_setOption(W.svc, KSI_ASYNC_OPT_RCV_TIMEOUT, (void *)(size_t)cfg->rcv);
	KSI_AsyncService_setOption(W.svc, KSI_ASYNC_OPT_CON_TIMEOUT, (void *)(size_t)cfg->con);
	{
		/* the configured times are the ones that count ("once the configured time has elapsed", 0 included): the service must have taken them */
		static const int OPT[3] = {KSI_ASYNC_OPT_SND_TIMEOUT, KSI_ASYNC_OPT_RCV_TIMEOUT, KSI_ASYNC_OPT_CON_TIMEOUT};
		long long want[3];
		int i;
		want[0] = cfg->snd; want[1] = cfg->rcv; want[2] = cfg->con;
		for (i = 0; i < 3; i++) {
			size_t got = 12345;
			if (KSI_AsyncService_getOption(W.svc, OPT[i], &got) != KSI_OK || (long long)got != want[i]) { HF("timeout-option-not-taken", "%s time-out set to %lld s, the service reports %zu", i == 0 ? "send" : i == 1 ? "receive" : "connect", want[i], got); W.violated = 1; }
		}
	}
}
static void world_close(void) {
	int i;
	/* handles not yet returned belong to the service */
	(void)i;
	KSI_AsyncHandle_free(W.kept); W.kept = NULL;
	KSI_AsyncService_free(W.svc);
	KSI_CTX_free(W.ctx);
	vb_free(&W.last_valid_reply);
	if (vf_alloc_live != 0) { HF("leak", "%ld SDK allocations live after freeing service and context", vf_alloc_live); vf_alloc_live = 0; }
}

static int outstanding(void) { return W.nreq - W.nreturned; }

static int g_fabricated;
static void queue_reply2(sn_conn *c, const vbuf *b, int kind, uint64_t id, unsigned seed);
static void queue_reply(sn_conn *c, const vbuf *b, int kind, uint64_t id) { queue_reply2(c, b, kind, id, 0); }
static void queue_reply2(sn_conn *c, const vbuf *b, int kind, uint64_t id, unsigned seed) {
	if (W.nreply >= MAXREPLY) vf_harness_error("too many replies");
	sn_server_write(c, b->p, b->n);
	W.reply[W.nreply].end_off = c->in.n; W.reply[W.nreply].conn_seq = c->seq; W.reply[W.nreply].kind = kind; W.reply[W.nreply].id = id; W.reply[W.nreply].seed = seed; W.reply[W.nreply].arrived = 0;
	W.reply[W.nreply].fabricated = g_fabricated; g_fabricated = 0;
	W.nreply++;
}

static void build_reply(vbuf *out, const sreq_t *r, uint64_t id, unsigned flags, uint64_t status) {
	rp_env e;
	rsig sig;
	vbuf body, payload;
	unsigned char h[RH_MAX_IMPRINT];
	size_t hl = ref_fake_imprint(RH_SHA256, r->seed, h);
	memset(&e, 0, sizeof e);
	e.version = 2; e.kind = RP_AGGR; e.login = LOGIN; e.mac_alg = RH_SHA256; e.key = KEY; e.keylen = strlen(KEY); e.flags = flags;
	vb_init(&body); vb_init(&payload);
	rp_aggregate(&sig, h, hl, 0, 0, 1, 1700000000ULL, 1700000000ULL + 86400);
	if (!status) rp_sig_body(&sig, &body);
	rp_aggr_resp_payload(&payload, 2, id, 1, status, status ? "refused" : NULL, body.p, body.n);
	rp_wrap_response(out, &e, payload.p, payload.n);
	vb_free(&body); vb_free(&payload);
}

/* after a run: which queued replies have fully arrived at the client */
static void note_arrivals(void) {
	int i, j;
	for (i = 0; i < W.nreply; i++) {
		sreply_t *rp = &W.reply[i];
		sn_conn *c = NULL;
		int k;
		if (rp->arrived) continue;
		for (k = 0; k < SN_MAX_CONN; k++) if (sn_conns[k].state != SN_FREE && sn_conns[k].seq == rp->conn_seq) c = &sn_conns[k];
		if (!c || c->in_off < rp->end_off) continue;
		rp->arrived = 1;
		switch (rp->kind) {
			case 0: for (j = 0; j < W.nreq; j++) if (W.req[j].id == rp->id && W.req[j].sent_complete && !W.req[j].returned) { W.req[j].id_reply_arrived = 1; if (W.req[j].seed == rp->seed) W.req[j].valid_reply_arrived = 1; } break;
			case 4: for (j = 0; j < W.nreq; j++) if (W.req[j].id == rp->id && W.req[j].sent_complete && !W.req[j].returned) { W.req[j].id_reply_arrived = 1; if (W.req[j].seed == rp->seed) W.req[j].valid_reply_arrived = 1; else if (!W.req[j].valid_reply_arrived && !rp->fabricated) W.req[j].stale_id_reply_arrived = 1; else if (!W.req[j].valid_reply_arrived) W.req[j].madeup_reply_first = 1; } break;
			case 1: W.cause_baddata = (int)W.step + 1; break;
			case 2: W.cause_status = (int)W.step + 1; break;
			case 3: {
				int absorbed = 0;
				W.conf_arrived++;
				for (j = 0; j < W.nreq; j++) if (W.req[j].is_conf && !W.req[j].returned) absorbed = 1;
				if (!absorbed) W.conf_pending++;
				break;
			}
			default: break;
		}
	}
}

static void check_returned(KSI_AsyncHandle *h) {
	int state = -1, err = 0, i, idx = -1;
	KSI_AsyncHandle_getState(h, &state);
	KSI_AsyncHandle_getError(h, &err);
	for (i = 0; i < W.nreq; i++) if (W.req[i].h == h && !W.req[i].returned) idx = i;   /* returned handles are dead: their memory may be recycled */
	if (state == KSI_ASYNC_STATE_PUSH_CONFIG_RECEIVED && idx < 0) {
		if (!W.conf_pending) { HF("config-notice-unexplained", "a push-config notice was returned but no authentic configuration arrived"); W.violated = 1; }
		/* consecutive pushed configurations are merged into one notice: a notice accounts for all that arrived so far
		 * and were processed; at least one must have arrived */
		if (W.conf_pending > 0) W.conf_pending--;
		vf_outcome("returned:push-config");
		KSI_AsyncHandle_free(h);
		return;
	}
	if (idx < 0) { HF("foreign-handle", "run returned a handle that was never accepted (state %d)", state); W.violated = 1; KSI_AsyncHandle_free(h); return; }
	W.req[idx].returned = 1; W.nreturned++;
	if (!W.req[idx].is_conf) W.last_returned_id = W.req[idx].id;
	if (!W.req[idx].is_conf) {
		/* what the handle tells about itself: the id it was sent under, and a response object exactly in the answered state */
		KSI_uint64_t rid = 0;
		KSI_AggregationResp *ar = NULL;
		int gr;
		if (KSI_AsyncHandle_getRequestId(h, &rid) != KSI_OK || (W.req[idx].id != 0 && rid != W.req[idx].id)) { HF("handle-request-id", "request #%d went out under id %llx, its handle reports %llx", idx, (unsigned long long)W.req[idx].id, (unsigned long long)rid); W.violated = 1; }
		gr = KSI_AsyncHandle_getAggregationResp(h, &ar);
		if (state == KSI_ASYNC_STATE_RESPONSE_RECEIVED) {
			KSI_Integer *ri = NULL, *st = NULL;
			if (gr != KSI_OK || ar == NULL) { HF("answered-without-response-object", "request #%d is handed back as answered but KSI_AsyncHandle_getAggregationResp gives 0x%x / %s", idx, gr, ar ? "object" : "NULL"); W.violated = 1; }
			else {
				KSI_AggregationResp_getRequestId(ar, &ri); KSI_AggregationResp_getStatus(ar, &st);
				if (ri == NULL || KSI_Integer_getUInt64(ri) != W.req[idx].id || (st != NULL && KSI_Integer_getUInt64(st) != 0)) { HF("response-object-mismatch", "request #%d (id %llx): the response object on its handle bears id %llx status %llu", idx, (unsigned long long)W.req[idx].id, ri ? (unsigned long long)KSI_Integer_getUInt64(ri) : 0ULL, st ? (unsigned long long)KSI_Integer_getUInt64(st) : 0ULL); W.violated = 1; }
			}
		} else if (state == KSI_ASYNC_STATE_ERROR) {
			KSI_Signature *none = NULL;
			int sr = KSI_AsyncHandle_getSignature(h, &none);
			if (ar != NULL) { HF("error-with-response", "request #%d is handed back as failed (0x%x) but its handle carries a response object", idx, err); W.violated = 1; }
			if (sr == KSI_OK || none != NULL) { HF("error-with-signature", "request #%d is handed back as failed (0x%x) but KSI_AsyncHandle_getSignature gives 0x%x and %s", idx, err, sr, none ? "a signature" : "NULL"); W.violated = 1; KSI_Signature_free(none); }
		}
	}
	if (W.req[idx].is_conf && state == KSI_ASYNC_STATE_PUSH_CONFIG_RECEIVED) {
		KSI_Config *cf = NULL;
		vf_outcome("returned:conf-response");
		/* a configuration request bears no identifier: it is answered by an authentic configuration payload that reached the client after it was accepted */
		if (W.conf_arrived <= W.req[idx].conf_seen_at_add) { HF("conf-response-without-reply", "configuration request #%d completed with a response although no authentic configuration arrived after it was accepted", idx); W.violated = 1; }
		if (KSI_AsyncHandle_getConfig(h, &cf) != KSI_OK || cf == NULL) { HF("conf-response-without-config", "configuration request #%d handed back as answered but carries no configuration", idx); W.violated = 1; }
	} else if (W.req[idx].is_conf && state == KSI_ASYNC_STATE_RESPONSE_RECEIVED) {
		HF("conf-wrong-final-state", "configuration request #%d handed back in the state of an answered signing request", idx); W.violated = 1;
	} else if (state == KSI_ASYNC_STATE_RESPONSE_RECEIVED) {
		KSI_Signature *sig = NULL;
		int r;
		vf_outcome("returned:response");
		if (!W.req[idx].id_reply_arrived) { HF("response-without-valid-reply", "request #%d (id %llx) completed with a response although no authentic status-0 reply bearing its id arrived after it was sent", idx, (unsigned long long)W.req[idx].id); W.violated = 1; }
		r = KSI_AsyncHandle_getSignature(h, &sig);
		if (r != KSI_OK || sig == NULL) {
			/* an authentic reply with this id but chains for another hash yields no signature: allowed; an honest reply must */
			vf_outcome("returned:response-without-signature");
			if (W.req[idx].valid_reply_arrived && W.req[idx].stale_id_reply_arrived) { HF("completed-with-stale-reply", "request #%d (id %llx): an authentic reply from an earlier occupant of the same id (the id generation counter has wrapped) arrived before the honest reply and completed the request; getSignature fails 0x%x and the honest reply is discarded", idx, (unsigned long long)W.req[idx].id, r); W.violated = 1; }
			else if (W.req[idx].valid_reply_arrived && W.req[idx].madeup_reply_first) vf_outcome("returned:response-of-made-up-reply");   /* the first authentic reply with its id completes the request */
			else if (W.req[idx].valid_reply_arrived) { HF("honest-reply-no-signature", "request #%d: an honest reply arrived but getSignature failed 0x%x", idx, r); W.violated = 1; }
		} else {
			KSI_DataHash *dh = NULL;
			unsigned char hh[RH_MAX_IMPRINT];
			size_t hl = ref_fake_imprint(RH_SHA256, W.req[idx].seed, hh);
			KSI_Signature_getDocumentHash(sig, &dh);
			if (!ku_hash_eq(dh, hh, hl)) { HF("foreign-signature", "request #%d completed with a signature for another hash", idx); W.violated = 1; }
		}
		KSI_Signature_free(sig);
	} else if (state == KSI_ASYNC_STATE_ERROR) {
		const char *cls = "other";
		int explained = 0;
		long since = 0;   /* cause flags are cleared at every quiescent point (see quiescent_reset) */
		if (err >= 0x400 && err < 0x600) { cls = "service-status"; explained = W.cause_status > since; }
		else if (err == KSI_NETWORK_SEND_TIMEOUT) { cls = "send-timeout"; explained = W.cfg.snd == 0 || difftime(sn_now, W.req[idx].add_time) > W.cfg.snd;
			/* a partly written request that is given up takes its connection with it */
			if (explained) { int q; for (q = 0; q < SN_MAX_CONN; q++) if (sn_conns[q].state == SN_CLOSED_BY_CLIENT && sn_conns[q].out.n > sn_conns[q].parsed_out) W.cause_conn = (int)W.step + 1; } }
		else if (err == KSI_NETWORK_RECIEVE_TIMEOUT) { cls = "receive-timeout"; explained = W.req[idx].sent_complete && (W.cfg.rcv == 0 || difftime(sn_now, W.req[idx].sent_time) > W.cfg.rcv); }
		else if (err == KSI_NETWORK_CONNECTION_TIMEOUT) { cls = "connection-timeout"; explained = W.cause_connect_timeout > since; }
		else if (err == KSI_NETWORK_ERROR || err == KSI_ASYNC_CONNECTION_CLOSED || err == KSI_IO_ERROR) {
			/* the connection went down: by the peer, or by the client itself when a request that was only partly written ran into its send
			 * time-out (the stream can only be resumed on a new connection, so everything waiting on the old one fails with it) */
			int k, q, cut = 0;
			cls = "connection"; explained = W.cause_conn > since;
			for (k = 0; k < W.nreq && !explained; k++) if (!W.req[k].is_conf && !W.req[k].returned && !W.req[k].sent_complete && (W.cfg.snd == 0 || difftime(sn_now, W.req[k].add_time) > W.cfg.snd)) explained = 1;
			/* the same when the partly written request is a configuration request that is given up: because its send time-out has passed, or
			 * because a configuration that arrived in the meantime has answered it (it bears no id: any authentic configuration completes
			 * it). Whether it had gone out completely is read off the connection: closed by the client, its output ending inside a request */
			for (q = 0; q < SN_MAX_CONN; q++) if (sn_conns[q].state == SN_CLOSED_BY_CLIENT && sn_conns[q].out.n > sn_conns[q].parsed_out) cut = 1;
			for (k = 0; k < W.nreq && !explained && cut; k++) if (W.req[k].is_conf &&
					((!W.req[k].returned && (W.cfg.snd == 0 || difftime(sn_now, W.req[k].add_time) > W.cfg.snd)) || W.conf_arrived > W.req[k].conf_seen_at_add)) explained = 1;
		}
		else { cls = "bad-data"; explained = W.cause_baddata > since || W.cause_status > since; }   /* malformed or unauthenticated data on the connection */
		vf_outcome("returned:error:%s", cls);
		if (!explained) { HF("error-without-cause", "request #%d returned with error 0x%x (%s) but no such cause occurred (status=%d baddata=%d conn=%d, now-add=%ld, sent=%d now-sent=%ld)", idx, err, cls, W.cause_status, W.cause_baddata, W.cause_conn, (long)(sn_now - W.req[idx].add_time), W.req[idx].sent_complete, (long)(sn_now - W.req[idx].sent_time)); W.violated = 1; }
	} else {
		HF("non-final-state", "request #%d handed back in non-final state %d", idx, state); W.violated = 1;
	}
	if (g_keep && (!W.req[idx].is_conf || g_keep == 2)) { KSI_AsyncHandle_free(W.kept); W.kept = h; W.kept_seed = W.req[idx].seed; W.kept_is_conf = W.req[idx].is_conf; }
	else KSI_AsyncHandle_free(h);
}

static int g_run_pump;   /* the next do_run passes no receiving handle pointer */
static void do_run(void) {
	KSI_AsyncHandle *out = NULL;
	size_t waiting = 9999, pend = 0, recvd = 0;
	int res, pump = g_run_pump;
	/* a connection attempt that is still pending when its time is up (or with a zero timeout) is a cause that occurs now */
	if (W.connecting && (W.cfg.con == 0 || difftime(sn_now, W.connect_started) > W.cfg.con)) W.cause_connect_timeout = (int)W.step + 1;
	g_run_pump = 0;
	res = KSI_AsyncService_run(W.svc, pump ? NULL : &out, &waiting);
	vf_count("impl_calls", 1);
	if (W.cause_connect_pending && (W.cfg.con == 0 || difftime(sn_now, W.connect_started) > W.cfg.con)) W.cause_connect_timeout = (int)W.step + 1;
	{ sn_conn *lc = sn_last(); if (lc && lc->state == SN_CLOSED_BY_CLIENT) W.connecting = 0; }
	note_arrivals();
	if (res != KSI_OK) vf_outcome("run:error");
	if (out) check_returned(out);
	if (res == KSI_OK) {
		/* an authentic pushed configuration that has reached the client is queued as a notice when the client
		 * gets to process it (PDUs behind a failing PDU are processed in a later round), so it may or may not
		 * be counted yet */
		size_t lo = (size_t)outstanding(), hi = lo + (W.conf_pending > 0 ? 1u : 0u);
		if (waiting < lo || waiting > hi) { HF("waiting-count", "run reports %zu waiting, accepted-returned=%d, possible config notices=%d", waiting, outstanding(), W.conf_pending); W.violated = 1; }
		KSI_AsyncService_getPendingCount(W.svc, &pend);
		KSI_AsyncService_getReceivedCount(W.svc, &recvd);
		/* each counter on its own as well (a counter that has wrapped below zero can hide in the sum) */
		if (pend > lo || recvd > hi) { HF("pending-count", "pending %zu, received %zu, but only %d request(s) are accepted and not yet returned (possible config notices %d)", pend, recvd, outstanding(), W.conf_pending); W.violated = 1; }
		else if (pend + recvd < lo || pend + recvd > hi) { HF("pending-count", "pending %zu + received %zu, accepted-returned %d (possible config notices %d)", pend, recvd, outstanding(), W.conf_pending); W.violated = 1; }
	}
}

/* apply one event; returns 0 when the event is not enabled in this state */
static int apply_inner(int ev);
/* a cause explains an error only if it occurred since the system was last quiescent: nothing outstanding, nothing
 * in flight on the wire, nothing buffered or queued inside the client */
static void quiescent_reset(void) {
	KSI_AsyncClient *ac = (KSI_AsyncClient *)W.svc->impl;
	TcpAsyncCtx *tc = (TcpAsyncCtx *)ac->clientImpl;
	sn_conn *c = sn_last();
	int k;
	if (outstanding() != 0 || W.connecting) return;
	if (tc->inLen != 0 || KSI_OctetStringList_length(tc->respQueue) != 0 || KSI_AsyncHandleList_length(tc->reqQueue) != 0) return;
	if (c && c->state == SN_CONNECTED && c->in.n != c->in_off) return;
	for (k = 0; k < W.nreply; k++) if (!W.reply[k].arrived && c && W.reply[k].conn_seq == c->seq && c->state == SN_CONNECTED) return;
	W.cause_baddata = W.cause_status = W.cause_conn = W.cause_connect_pending = W.cause_connect_timeout = 0;
}
static int apply(int ev) { int r = apply_inner(ev); if (r) { W.step++; quiescent_reset(); } return r; }
static int apply_inner(int ev) {
	sn_conn *c = live_conn();
	vbuf b;
	int i, oldest = -1, newest = -1, nun = 0;
	for (i = 0; i < W.nreq; i++) if (!W.req[i].is_conf && W.req[i].sent_complete && !W.req[i].answered && !W.req[i].returned) { if (oldest < 0) oldest = i; newest = i; nun++; }
	switch (ev) {
		case EV_GROW: {
			int res = KSI_AsyncService_setOption(W.svc, KSI_ASYNC_OPT_REQUEST_CACHE_SIZE, (void *)(size_t)(W.cfg.cache + 3));
			vf_count("impl_calls", 1);
			if (res == KSI_OK) { W.cfg.cache += 3; vf_outcome("grow:accepted"); }
			else vf_outcome("grow:refused");          /* then nothing has changed */
			return 1;
		}
		case EV_ADD_CONF: {
			KSI_AsyncHandle *h = NULL;
			KSI_AggregationReq *rq = NULL;
			KSI_ExtendReq *xq = NULL;
			KSI_Config *cf = NULL;
			int res;
			if (W.nreq >= MAXREQ) return 0;
			if (g_ext) {
				if (KSI_ExtendReq_new(W.ctx, &xq) != KSI_OK || KSI_Config_new(W.ctx, &cf) != KSI_OK) vf_harness_error("conf request objects");
				if (KSI_ExtendReq_setConfig(xq, cf) != KSI_OK) vf_harness_error("setConfig");
				if (KSI_AsyncExtendHandle_new(W.ctx, xq, &h) != KSI_OK) vf_harness_error("conf handle new");
			} else {
			if (KSI_AggregationReq_new(W.ctx, &rq) != KSI_OK || KSI_Config_new(W.ctx, &cf) != KSI_OK) vf_harness_error("conf request objects");
			if (KSI_AggregationReq_setConfig(rq, cf) != KSI_OK) vf_harness_error("setConfig");
			if (KSI_AsyncAggregationHandle_new(W.ctx, rq, &h) != KSI_OK) vf_harness_error("conf handle new");
			}
			res = KSI_AsyncService_addRequest(W.svc, h);
			vf_count("impl_calls", 1);
			if (res == KSI_OK) {
				if (outstanding() >= W.cfg.cache) { HF("cache-overfull", "configuration request accepted although %d requests are outstanding with cache size %d", outstanding(), W.cfg.cache); W.violated = 1; }
				memset(&W.req[W.nreq], 0, sizeof W.req[0]);
				W.req[W.nreq].h = h; W.req[W.nreq].is_conf = 1; W.req[W.nreq].conf_seen_at_add = W.conf_arrived; W.req[W.nreq].add_time = sn_now; W.req[W.nreq].add_step = W.step; W.nreq++;
				vf_outcome("add-conf:accepted");
			} else {
				/* a refusal is a definite answer: the caller keeps the handle and nothing is outstanding for it. It needs a reason:
				 * the cache is full, or another configuration request is outstanding (its answer bears no id, so only one can be matched) */
				int k, other = 0;
				for (k = 0; k < W.nreq; k++) if (W.req[k].is_conf && !W.req[k].returned) other = 1;
				vf_outcome("add-conf:refused:%s", outstanding() == W.cfg.cache ? "cache-full" : other ? "one-at-a-time" : "other");
				if (res != KSI_ASYNC_REQUEST_CACHE_FULL || (outstanding() != W.cfg.cache && !other)) { HF("conf-refused-without-reason", "configuration request refused with 0x%x while %d requests are outstanding (cache size %d) and no other configuration request is", res, outstanding(), W.cfg.cache); W.violated = 1; }
				KSI_AsyncHandle_free(h);
			}
			return 1;
		}
		case EV_READD: {
			int res;
			if (W.kept == NULL || W.nreq >= MAXREQ) return 0;
			res = KSI_AsyncService_addRequest(W.svc, W.kept);
			vf_count("impl_calls", 1);
			if (res == KSI_OK) {
				if (outstanding() >= W.cfg.cache) { HF("cache-overfull", "re-submitted request accepted although %d requests are outstanding with cache size %d", outstanding(), W.cfg.cache); W.violated = 1; }
				memset(&W.req[W.nreq], 0, sizeof W.req[0]);
				W.req[W.nreq].h = W.kept; W.req[W.nreq].seed = W.kept_seed; W.req[W.nreq].add_time = sn_now; W.req[W.nreq].add_step = W.step;
				if (W.kept_is_conf) { W.req[W.nreq].is_conf = 1; W.req[W.nreq].conf_seen_at_add = W.conf_arrived; }
				W.nreq++;
				W.kept = NULL;
				vf_outcome(W.kept_is_conf ? "readd-conf:accepted" : "readd:accepted");
			} else if (res == KSI_ASYNC_REQUEST_CACHE_FULL && W.kept_is_conf) {
				/* a configuration request: refused while the cache is full or another one is outstanding */
				int k, other = 0;
				for (k = 0; k < W.nreq; k++) if (W.req[k].is_conf && !W.req[k].returned) other = 1;
				vf_outcome("readd-conf:refused");
				if (outstanding() != W.cfg.cache && !other) { HF("conf-refused-without-reason", "re-submitted configuration request refused while %d requests are outstanding (cache size %d) and no other configuration request is", outstanding(), W.cfg.cache); W.violated = 1; }
			} else if (res == KSI_ASYNC_REQUEST_CACHE_FULL) {
				vf_outcome("readd:cache-full");
				if (outstanding() != W.cfg.cache) { HF("cache-full-early", "'cache full' for a re-submitted handle with %d outstanding requests and cache size %d", outstanding(), W.cfg.cache); W.violated = 1; }
			} else if (res == KSI_INVALID_STATE && sn_last() != NULL && sn_last()->state != SN_CLOSED_BY_CLIENT && sn_last()->out.n > sn_last()->parsed_out) {
				/* the handle's former request is partly written on the connection the client has not given up yet (it came back by a time-out or was answered by a pushed
				 * configuration before the rest went out): a refusal is a definite answer; the caller keeps the handle and may try again after
				 * the service has run */
				vf_outcome("readd:refused:former-request-partly-written");
			} else { vf_outcome("readd:error"); HF("add-error", "addRequest of a handle that had been returned failed with 0x%x", res); W.violated = 1; }
			return 1;
		}
		case EV_ADD: {
			KSI_AsyncHandle *h = NULL;
			KSI_DataHash *dh = NULL;
			unsigned char hh[RH_MAX_IMPRINT];
			size_t hl;
			int res;
			if (W.nreq >= MAXREQ) return 0;
			hl = ref_fake_imprint(RH_SHA256, 100u + (unsigned)W.total_added, hh);
			KSI_DataHash_fromImprint(W.ctx, hh, hl, &dh);
			if (KSI_AsyncSigningHandle_new(W.ctx, dh, 0, &h) != KSI_OK) vf_harness_error("handle new");
			res = KSI_AsyncService_addRequest(W.svc, h);
			vf_count("impl_calls", 1);
			if (res == KSI_OK) {
				if (outstanding() >= W.cfg.cache) { HF("cache-overfull", "request accepted although %d requests are outstanding with cache size %d", outstanding(), W.cfg.cache); W.violated = 1; }
				memset(&W.req[W.nreq], 0, sizeof W.req[0]);
				W.req[W.nreq].h = h; W.req[W.nreq].seed = 100u + (unsigned)W.total_added; W.total_added++; W.req[W.nreq].add_time = sn_now; W.req[W.nreq].add_step = W.step; W.nreq++;
				vf_outcome("add:accepted");
			} else {
				if (res == KSI_ASYNC_REQUEST_CACHE_FULL) {
					vf_outcome("add:cache-full");
					if (outstanding() != W.cfg.cache) { size_t p_ = 0, r_ = 0; KSI_AsyncService_getPendingCount(W.svc, &p_); KSI_AsyncService_getReceivedCount(W.svc, &r_); HF("cache-full-early", "'cache full' with %d outstanding requests and cache size %d (service reports %zu pending, %zu received; configuration notices not yet handed out: %d)", outstanding(), W.cfg.cache, p_, r_, W.conf_pending); W.violated = 1; }
				} else { vf_outcome("add:error"); HF("add-error", "addRequest failed with 0x%x", res); W.violated = 1; }
				KSI_AsyncHandle_free(h);
			}
			return 1;
		}
		case EV_RUN: {
			int before[64], nb = 0, i, k;
			for (i = 0; i < W.nreq && nb < 64; i++) if (!W.req[i].is_conf && W.req[i].sent_complete && !W.req[i].returned) before[nb++] = i;
			W.poll_failed_now = 0;
			do_run();
			/* a connection that fails under the client ends the requests waiting on it with a network error, now: they are handed back by the
			 * following calls without any time passing (not left to run into their receive time-out) */
			if (W.poll_failed_now && !W.violated) {
				for (k = 0; k < nb + 2 && !W.violated; k++) do_run();
				for (i = 0; i < nb && !W.violated; i++) if (!W.req[before[i]].returned) { HF("connection-failure-not-reported", "poll() failed on the connection request #%d was waiting on, but %d calls later (no time has passed) the request has not been handed back", before[i], nb + 3); W.violated = 1; }
			}
			W.poll_failed_now = 0;
			return 1;
		}
		case EV_RUN_PUMP: g_run_pump = 1; do_run(); return 1;
		case EV_REPLY_OLDEST: case EV_REPLY_NEWEST: {
			int k = ev == EV_REPLY_OLDEST ? oldest : newest;
			if (!c || k < 0 || (ev == EV_REPLY_NEWEST && nun < 2)) return 0;
			vb_init(&b);
			build_reply(&b, &W.req[k], W.req[k].id, 0, 0);
			queue_reply2(c, &b, 0, W.req[k].id, W.req[k].seed);
			W.req[k].answered = 1;
			vb_reset(&W.last_valid_reply); vb_putvb(&W.last_valid_reply, &b); W.last_valid_id = W.req[k].id; W.last_valid_seed = W.req[k].seed;
			vb_free(&b);
			return 1;
		}
		case EV_REPLY_DUP:
			if (!c || W.last_valid_reply.n == 0) return 0;
			queue_reply2(c, &W.last_valid_reply, 4, W.last_valid_id, W.last_valid_seed);
			return 1;
		case EV_REPLY_UNKNOWN: case EV_REPLY_STALE: {
			sreq_t fake;
			uint64_t id;
			if (!c) return 0;
			if (ev == EV_REPLY_STALE) {
				/* same cache slot, another generation: the id of an outstanding request with the generation bits changed,
				 * or the id of the request returned last */
				if (oldest >= 0) id = W.req[oldest].id ^ (1ULL << 32);
				else if (W.last_returned_id) id = W.last_returned_id;
				else return 0;
			} else id = 0x77;
			memset(&fake, 0, sizeof fake);
			fake.seed = oldest >= 0 ? W.req[oldest].seed : 555;
			vb_init(&b);
			build_reply(&b, &fake, id, 0, 0);
			/* a reply bearing the id of the request returned last is a (late) reply to that request; one with altered generation
			 * bits answers no request that was ever made: an authentic but made-up reply. If a later request happens to get that id,
			 * the statement lets it complete with this reply (no signature can be derived from it) */
			g_fabricated = !(ev == EV_REPLY_STALE && oldest < 0);
			queue_reply2(c, &b, 4, id, fake.seed);
			vb_free(&b);
			return 1;
		}
		case EV_REPLY_BADMAC: case EV_REPLY_STATUS:
			if (!c || oldest < 0) return 0;
			vb_init(&b);
			build_reply(&b, &W.req[oldest], W.req[oldest].id, ev == EV_REPLY_BADMAC ? RP_F_BAD_MAC : 0, ev == EV_REPLY_STATUS ? 0x0101 : 0);
			queue_reply(c, &b, ev == EV_REPLY_BADMAC ? 1 : 2, W.req[oldest].id);
			W.req[oldest].answered = 1;
			vb_free(&b);
			return 1;
		case EV_ERROR_PDU: case EV_PUSH_CONF: {
			rp_env e;
			vbuf payload;
			if (!c) return 0;
			if (ev == EV_ERROR_PDU && nun == 0) return 0;
			memset(&e, 0, sizeof e);
			e.version = 2; e.kind = g_ext ? RP_EXT : RP_AGGR; e.login = LOGIN; e.mac_alg = RH_SHA256; e.key = KEY; e.keylen = strlen(KEY);
			vb_init(&b); vb_init(&payload);
			if (ev == EV_ERROR_PDU) rp_error_payload(&payload, 2, g_ext ? RP_EXT : RP_AGGR, 0x0300, "upstream error");
			else if (g_ext) rp_ext_conf_payload(&payload, 12, NULL, 1136073600LL + 1000, 1700000000LL);
			else rp_aggr_conf_payload(&payload, 17, 1, 400, 1000, NULL);
			rp_wrap_response(&b, &e, payload.p, payload.n);
			queue_reply(c, &b, ev == EV_ERROR_PDU ? 2 : 3, 0);
			vb_free(&b); vb_free(&payload);
			return 1;
		}
		case EV_DELIVER_1: case EV_DELIVER_HALF: case EV_DELIVER_ALL: {
			size_t undelivered;
			if (!c) return 0;
			undelivered = c->in.n - c->in_off;
			if (undelivered <= W.budget) return 0;
			undelivered -= W.budget;
			if (ev == EV_DELIVER_1) W.budget += 1;
			else if (ev == EV_DELIVER_HALF) { if (undelivered < 4) return 0; W.budget += undelivered / 2; }
			else W.budget += undelivered;
			return 1;
		}
		case EV_PEER_CLOSE: if (!c) return 0; sn_server_close(c); return 1;
		case EV_NEXT_CONNECT_REFUSED: if (c || W.connecting || W.next_connect_refused || W.next_connect_pending) return 0; W.next_connect_refused = 1; return 1;
		case EV_NEXT_CONNECT_PENDING: if (c || W.connecting || W.next_connect_refused || W.next_connect_pending) return 0; W.next_connect_pending = 1; return 1;
		case EV_SEND_WOULDBLOCK: if (W.send_wouldblock || W.send_partial) return 0; W.send_wouldblock = 1; return 1;
		case EV_SEND_PARTIAL: if (W.send_wouldblock || W.send_partial) return 0; W.send_partial = 1; return 1;
		case EV_SNDBUF_FULL: if (W.sndbuf_full || !c) return 0; W.sndbuf_full = 1; return 1;
		case EV_POLL_FAIL: if (W.poll_fail || !c) return 0; W.poll_fail = 1; return 1;
		case EV_CLOCK_1: sn_now += 1; return 1;
		case EV_CLOCK_BIG: { long long m = W.cfg.snd; if (W.cfg.rcv > m && W.cfg.rcv < 1000000) m = W.cfg.rcv; if (W.cfg.con > m && W.cfg.con < 1000000) m = W.cfg.con; sn_now += (time_t)(m + 2); return 1; }   /* "never" time-outs (2^31 and more) are not waited for */
	}
	return 0;
}

/* drain: default environment from here on - everything delivered, clock advancing - until quiescent; every accepted request must come back */
static void drain(void) {
	int rounds;
	sn_conn *c;
	W.send_wouldblock = W.send_partial = W.sndbuf_full = W.poll_fail = 0;
	for (rounds = 0; rounds < (W.cfg.rcv > 1000 ? 14 : 60) && (outstanding() > 0 || rounds < 3); rounds++) {
		c = live_conn();
		if (c) W.budget = c->in.n - c->in_off;
		do_run();
		if (W.violated) return;
		sn_now += 1;
	}
	if (outstanding() > 0) {
		int k, must = 0;
		/* with a receive time-out that never elapses within the horizon, a request that was written and that the server never answered
		 * legitimately stays pending; everything else must have come back */
		for (k = 0; k < W.nreq; k++) if (!W.req[k].returned && !(W.cfg.rcv > 1000 && W.req[k].sent_complete && !W.req[k].answered && !W.req[k].is_conf)) must++;
		if (must > 0) { HF("request-lost", "%d accepted request(s) never handed back within 60 further rounds / 60 virtual seconds of a quiet network", must); W.violated = 1; }
	}
}

/* ------------------------------------------------------------------ canonical state key */
static uint64_t mix(uint64_t h, uint64_t v) { return vf_fnv(&v, sizeof v, h); }
static uint64_t age(time_t t, int cap) { long a = (long)(sn_now - t); if (a > cap + 1) a = cap + 1; if (a < 0) a = -1; return (uint64_t)a; }

static uint64_t state_key(void) {
	KSI_AsyncClient *ac = (KSI_AsyncClient *)W.svc->impl;
	TcpAsyncCtx *tc = (TcpAsyncCtx *)ac->clientImpl;
	uint64_t h = 1469598103934665603ULL;
	size_t i;
	int k, maxto = (int)(W.cfg.snd > W.cfg.rcv ? W.cfg.snd : W.cfg.rcv);
	if (W.cfg.con > maxto) maxto = (int)W.cfg.con;
	if (maxto > 1000 || maxto < 0) maxto = 1000;
	h = mix(h, ac->pending); h = mix(h, ac->received); h = mix(h, ac->tail); h = mix(h, ac->requestCount); h = mix(h, ac->requestCountOffset);
	h = mix(h, ac->serverConf ? 1 + (uint64_t)ac->serverConf->state : 0);
	for (i = 1; i < ac->options[KSI_ASYNC_OPT_REQUEST_CACHE_SIZE]; i++) {
		KSI_AsyncHandle *q = ac->reqCache[i];
		if (!q) { h = mix(h, 0xdead); continue; }
		h = mix(h, (uint64_t)q->state); h = mix(h, (uint64_t)q->err); h = mix(h, q->id); h = mix(h, q->sentCount); h = mix(h, q->len);
		h = mix(h, age(q->reqTime, maxto)); h = mix(h, age(q->sndTime, maxto));
	}
	h = mix(h, tc->sockfd >= 0); h = mix(h, tc->socketReady); h = mix(h, tc->inLen); h = vf_fnv(tc->inBuf, tc->inLen, h);
	h = mix(h, tc->roundCount); h = mix(h, age(tc->roundStartAt, 2)); h = mix(h, age(tc->connectedAt, maxto));
	for (i = 0; i < KSI_AsyncHandleList_length(tc->reqQueue); i++) { KSI_AsyncHandle *q = NULL; KSI_AsyncHandleList_elementAt(tc->reqQueue, i, &q); h = mix(h, q ? q->id : 0); h = mix(h, q ? q->sentCount : 0); h = mix(h, q ? (uint64_t)q->state : 0); }
	h = mix(h, KSI_OctetStringList_length(tc->respQueue));
	for (i = 0; i < KSI_OctetStringList_length(tc->respQueue); i++) { KSI_OctetString *o = NULL; const unsigned char *d = NULL; size_t dl = 0; KSI_OctetStringList_elementAt(tc->respQueue, i, &o); KSI_OctetString_extract(o, &d, &dl); h = vf_fnv(d, dl, h); }
	{
		sn_conn *c = sn_last();
		h = mix(h, c ? (uint64_t)c->state : 99);
		if (c) { h = mix(h, c->peer_closed); h = mix(h, c->out.n - c->parsed_out); h = mix(h, c->in.n - c->in_off); h = vf_fnv(c->in.p + c->in_off, c->in.n - c->in_off, h); h = mix(h, c->connect_polls > 0); }
	}
	h = mix(h, W.budget); h = mix(h, (uint64_t)W.next_connect_refused); h = mix(h, (uint64_t)W.next_connect_pending); h = mix(h, (uint64_t)W.send_wouldblock); h = mix(h, (uint64_t)W.send_partial); h = mix(h, (uint64_t)W.sndbuf_full); h = mix(h, (uint64_t)W.poll_fail);
	h = mix(h, (uint64_t)((W.cause_baddata != 0) | (W.cause_status != 0) << 1 | (W.cause_conn != 0) << 2 | (W.cause_connect_pending != 0) << 3 | (W.cause_connect_timeout != 0) << 6 | W.conf_pending << 4 | W.connecting << 5));
	h = mix(h, (uint64_t)W.nreq); h = mix(h, (uint64_t)W.nreturned); h = mix(h, W.last_valid_reply.n != 0); h = mix(h, W.last_returned_id);
	for (k = 0; k < W.nreq; k++) {
		sreq_t *r = &W.req[k];
		if (r->returned) continue;
		h = mix(h, (uint64_t)(r->sent_complete | r->valid_reply_arrived << 1 | r->answered << 2 | r->id_reply_arrived << 3 | r->stale_id_reply_arrived << 4 | r->madeup_reply_first << 7 | r->is_conf << 5 | (r->is_conf && W.conf_arrived > r->conf_seen_at_add) << 6)); h = mix(h, r->id); h = mix(h, age(r->add_time, maxto)); h = mix(h, r->sent_complete ? age(r->sent_time, maxto) : 77);
	}
	for (k = 0; k < W.nreply; k++) if (!W.reply[k].arrived) { h = mix(h, (uint64_t)W.reply[k].kind); h = mix(h, W.reply[k].id); }
	if (g_keep) { h = mix(h, W.kept ? 1 + (uint64_t)W.kept->state : 0); h = mix(h, W.kept ? W.kept_seed : 0); }
	return h;
}

static const config_t CONFIGS[] = {
	{1, 1, 10, 10, 10}, {2, 2, 10, 10, 10}, {2, 1, 10, 10, 10}, {1, 1, 0, 10, 10}, {1, 1, 10, 0, 10}, {2, 2, 1, 1, 1}, {3, 2, 10, 10, 10}, {1, 1, 10, 10, 0},
};
#define NCONFIGS ((int)(sizeof CONFIGS / sizeof *CONFIGS))

/* ------------------------------------------------------------------ search */
#define SEEN_BITS 22
static struct { uint64_t key; int depth_left; } *seen;
static long n_states, n_transitions, n_pruned, n_traces;

static int seen_check(uint64_t key, int depth_left) {
	/* returns 1 if the state was already expanded with at least this much remaining depth */
	uint32_t i = (uint32_t)(key >> 13) & ((1u << SEEN_BITS) - 1);
	int probes = 0;
	if (!key) key = 1;
	for (;;) {
		if (seen[i].key == key) { if (seen[i].depth_left >= depth_left) return 1; seen[i].depth_left = depth_left; return 0; }
		if (seen[i].key == 0) { seen[i].key = key; seen[i].depth_left = depth_left; n_states++; return 0; }
		i = (i + 1) & ((1u << SEEN_BITS) - 1);
		if (++probes > (1 << 20)) vf_harness_error("state table full");
	}
}

/* replays a history on a fresh world; returns 0 if some event was not enabled */
static void hist_name(const int *hist, int n, char *out);
static int replay(const config_t *cfg, const int *hist, int n) {
	int i;
	hist_name(hist, n, g_hist);
	g_cfg = (cfg >= CONFIGS && cfg < CONFIGS + NCONFIGS) ? (int)(cfg - CONFIGS) : -1;
	world_open(cfg);
	for (i = 0; i < n; i++) {
		if (!apply(hist[i])) return 0;
		n_transitions++;
		if (W.violated) return 1;
	}
	return 1;
}

static void hist_name(const int *hist, int n, char *out) { int i; for (i = 0; i < n; i++) out[i] = EVCH[hist[i]]; out[n] = 0; }

/* the alphabet of the current search (the 21 main events by default) */
static int g_alpha[EV_NALL], g_nalpha;
static void alpha_main(void) { int e; g_nalpha = 0; for (e = 0; e < EV_NEVENTS; e++) g_alpha[g_nalpha++] = e; }

static void explore(const config_t *cfg, int *hist, int n, int maxdepth) {
	uint64_t key;
	int ev, enabled[EV_NALL], nen = 0;
	/* 1. reach the state, evaluate the invariant (done inside apply), compute its key */
	if (!replay(cfg, hist, n)) { world_close(); return; }
	n_traces++;
	if ((n_traces % 20000) == 0 && getenv("VF_PROGRESS")) fprintf(stderr, "traces=%ld states=%ld pruned=%ld transitions=%ld hist=%s\n", n_traces, n_states, n_pruned, n_transitions, g_hist);
	if (W.violated) { world_close(); return; }
	key = state_key();
	if (seen_check(key, maxdepth - n)) { n_pruned++; world_close(); return; }
	/* 2. which events are enabled here (probe on throw-away replays is avoided: enabledness is evaluated when the child is replayed) */
	/* 3. drain from this state: nothing may be lost */
	drain();
	world_close();
	if (n >= maxdepth) return;
	for (ev = 0; ev < g_nalpha; ev++) enabled[nen++] = g_alpha[ev];
	for (ev = 0; ev < nen; ev++) { hist[n] = enabled[ev]; explore(cfg, hist, n + 1, maxdepth); }
}


/* long horizon: sequential requests through a one-slot cache until the 8-bit id generation wraps, with one
 * stale reply injected at a chosen position: a duplicate of the reply of the previous occupant of the slot,
 * of the occupant 255 generations ago (identical id), or of the next generation */
static void part_wrap(void) {
	static const config_t cfg = {1, 1, 10, 10, 10};
	int total = VF_THOROUGH ? 300 : 264, pos, kind;
	for (kind = 0; kind < 3; kind++) for (pos = (kind == 1 ? 255 : 1); pos < total; pos += (VF_THOROUGH ? 1 : 7)) {
		int k, ok = 1;
		vbuf *old = NULL;
		uint64_t *old_id = NULL;
		unsigned *old_seed = NULL;
		if (!vf_case_begin("wrap:kind%d:pos%d", kind, pos)) continue;
		snprintf(g_hist, sizeof g_hist, "wrap%d@%d", kind, pos);
		world_open(&cfg);
		W.id_reuse_expected = 1;
		old = calloc((size_t)total, sizeof(vbuf));
		old_id = calloc((size_t)total, sizeof *old_id);
		old_seed = calloc((size_t)total, sizeof *old_seed);
		for (k = 0; k < total && ok; k++) {
			sn_conn *c;
			int guard = 0;
			if (!apply(EV_ADD)) { HF("wrap-add", "request %d not accepted", k); break; }
			apply(EV_RUN);                       /* connect + send */
			while (!W.req[W.nreq - 1].sent_complete && guard++ < 5) { sn_now += 1; apply(EV_RUN); }
			c = live_conn();
			if (!c || !W.req[W.nreq - 1].sent_complete) { HF("wrap-send", "request %d not sent", k); break; }
			if (k == pos) {
				/* the injected stale reply goes first */
				int src = kind == 0 ? k - 1 : kind == 1 ? k - 255 : -1;
				if (src >= 0) queue_reply2(c, &old[src], 4, old_id[src], old_seed[src]);
				else { sreq_t fake = W.req[W.nreq - 1]; vbuf b; vb_init(&b); build_reply(&b, &fake, W.req[W.nreq - 1].id + (1ULL << 32), 0, 0); queue_reply2(c, &b, 4, 0, 0); vb_free(&b); }
			}
			apply(EV_REPLY_OLDEST);
			vb_init(&old[k]); vb_putvb(&old[k], &W.last_valid_reply); old_id[k] = W.last_valid_id; old_seed[k] = W.last_valid_seed;
			apply(EV_DELIVER_ALL);
			guard = 0;
			while (outstanding() > 0 && guard++ < 5) apply(EV_RUN);
			if (outstanding() > 0) { HF("request-lost", "request %d of the wrap sequence not handed back", k); ok = 0; }
			if (W.violated) ok = 0;
			sn_now += 1;
			/* forget returned requests so that the fixed-size shadow tables suffice */
			if (W.nreq == MAXREQ - 1) { W.nreq = 0; W.nreturned = 0; W.nreply = 0; }
		}
		for (k = 0; k < total; k++) vb_free(&old[k]);
		free(old); free(old_id); free(old_seed);
		world_close();
		vf_count("transitions", (long)total * 5);
		vf_case_end(1);
	}
}

/* deviation-bounded search over long default runs: the default schedule is three complete request cycles
 * (add, run, reply, deliver all, run, clock+1); a deviation is the insertion of any one event at any position;
 * all schedules with up to D deviations are executed to completion and followed by the drain phase */
static const int BASE[] = {EV_ADD, EV_RUN, EV_REPLY_OLDEST, EV_DELIVER_ALL, EV_RUN, EV_CLOCK_1, EV_ADD, EV_RUN, EV_REPLY_OLDEST, EV_DELIVER_ALL, EV_RUN, EV_CLOCK_1,
                           EV_ADD, EV_RUN, EV_REPLY_OLDEST, EV_DELIVER_ALL, EV_RUN};
#define NBASE ((int)(sizeof BASE / sizeof *BASE))
/* second default schedule: two requests in flight, completed out of order, then a third one that re-uses the freed slot */
static const int BASE2_ORIG[] = {EV_ADD, EV_ADD, EV_RUN, EV_REPLY_NEWEST, EV_DELIVER_ALL, EV_RUN, EV_ADD, EV_RUN, EV_REPLY_NEWEST, EV_DELIVER_ALL, EV_RUN, EV_REPLY_OLDEST, EV_DELIVER_ALL, EV_RUN};
#define NBASE2 ((int)(sizeof BASE2_ORIG / sizeof *BASE2_ORIG))
/* third default schedule (cache size 3): three requests, the two oldest answered and returned, a fourth request re-uses the first
 * slot while the third is still outstanding, the application enlarges the cache, then the rest is answered */
static const int BASE3[] = {EV_ADD, EV_ADD, EV_ADD, EV_RUN, EV_RUN, EV_REPLY_OLDEST, EV_DELIVER_ALL, EV_RUN, EV_REPLY_OLDEST, EV_DELIVER_ALL, EV_RUN, EV_ADD, EV_RUN, EV_GROW,
                            EV_REPLY_OLDEST, EV_DELIVER_ALL, EV_RUN, EV_REPLY_OLDEST, EV_DELIVER_ALL, EV_RUN};
#define NBASE3 ((int)(sizeof BASE3 / sizeof *BASE3))
static const int *g_base2 = BASE2_ORIG;
static int g_nbase2 = NBASE2;
#undef NBASE2
#define NBASE2 g_nbase2
#define BASE2 g_base2
static void run_schedule2(const config_t *cfg, int ins_pos, int ins_ev) {
	int i, n = 0;
	char *g = g_hist;
	world_open(cfg);
	g_cfg = (cfg >= CONFIGS && cfg < CONFIGS + NCONFIGS) ? (int)(cfg - CONFIGS) : -1;
	for (i = 0; i <= NBASE2 && !W.violated; i++) {
		if (ins_pos == i) { if (n < 38) g[n++] = EVCH[ins_ev]; g[n] = 0; apply(ins_ev); n_transitions++; }
		if (i < NBASE2) { if (n < 38) g[n++] = EVCH[BASE2[i]]; g[n] = 0; apply(BASE2[i]); n_transitions++; }
	}
	if (!W.violated) drain();
	world_close();
}
static long dfs_runs;
static void run_schedule(const config_t *cfg, const int *ins_pos, const int *ins_ev, int nins) {
	int i, k, n = 0;
	char *g = g_hist;
	world_open(cfg);
	g_cfg = (cfg >= CONFIGS && cfg < CONFIGS + NCONFIGS) ? (int)(cfg - CONFIGS) : -1;
	for (i = 0; i <= NBASE && !W.violated; i++) {
		for (k = 0; k < nins; k++) if (ins_pos[k] == i) { if (n < 38) g[n++] = EVCH[ins_ev[k]]; g[n] = 0; apply(ins_ev[k]); n_transitions++; }
		if (i < NBASE) { if (n < 38) g[n++] = (char)(EVCH[BASE[i]] | 0x20) == EVCH[BASE[i]] ? EVCH[BASE[i]] : EVCH[BASE[i]]; g[n] = 0; apply(BASE[i]); n_transitions++; }
	}
	if (!W.violated) drain();
	world_close();
	dfs_runs++;
}
static void part_dfs(void) {
	int maxdev = VF_THOROUGH ? 3 : 2, ci, p1, e1;
	static const int CFG_IDX[] = {1, 0, 5};
	for (ci = 0; ci < (VF_THOROUGH ? 3 : 1); ci++) for (p1 = 0; p1 <= NBASE; p1++) for (e1 = 0; e1 < EV_NEVENTS; e1++) {
		const config_t *cfg = &CONFIGS[CFG_IDX[ci]];
		int pos[3], evs[3], p2, e2, p3, e3;
		if (VF_THOROUGH) maxdev = ci == 0 ? 3 : 2;     /* three insertions for the first configuration, two for the others */
		if (!vf_case_begin("dfs:cfg%d:ins%d%c:dev%d", CFG_IDX[ci], p1, EVCH[e1], maxdev)) continue;
		dfs_runs = 0; n_transitions = 0;
		pos[0] = p1; evs[0] = e1;
		if (p1 == 0 && e1 == 0) run_schedule(cfg, pos, evs, 0);       /* the default schedule itself */
		run_schedule(cfg, pos, evs, 1);
		/* insertions are ordered (position, then event) so that every multiset of insertions is run once */
		for (p2 = p1; p2 <= NBASE && maxdev >= 2; p2++) for (e2 = 0; e2 < EV_NEVENTS; e2++) {
			if (p2 == p1 && e2 < e1) continue;
			pos[1] = p2; evs[1] = e2;
			run_schedule(cfg, pos, evs, 2);
			for (p3 = p2; p3 <= NBASE && maxdev >= 3; p3++) for (e3 = 0; e3 < EV_NEVENTS; e3++) {
				if (p3 == p2 && e3 < e2) continue;
				pos[2] = p3; evs[2] = e3;
				run_schedule(cfg, pos, evs, 3);
			}
		}
		vf_count("traces", dfs_runs); vf_count("transitions", n_transitions); vf_count("dfs_schedules", dfs_runs);
		vf_obs("runs=%ld", dfs_runs);
		vf_case_end(1);
	}
}

/* configuration requests: they bear no id and occupy no cache slot; any authentic configuration payload answers the
 * outstanding one. Searched with their own alphabet (the main search keeps its 21 events). */
static void part_conf(void) {
	static const int ALPHA[] = {EV_ADD_CONF, EV_ADD, EV_RUN, EV_PUSH_CONF, EV_REPLY_OLDEST, EV_ERROR_PDU, EV_DELIVER_ALL, EV_PEER_CLOSE, EV_CLOCK_BIG, EV_DELIVER_HALF, EV_SEND_WOULDBLOCK};
	static const int CFGI[] = {1, 0, 5};
	int na = VF_THOROUGH ? 11 : 9, ci, a1, a2, depth = VF_THOROUGH ? 8 : 6, e;
	for (ci = 0; ci < (VF_THOROUGH ? 3 : 2); ci++) for (a1 = 0; a1 < na; a1++) for (a2 = 0; a2 < na; a2++) {
		int hist[16];
		char nm[8];
		if (!vf_case_begin("conf:cfg%d:%c%c:d%d", CFGI[ci], EVCH[ALPHA[a1]], EVCH[ALPHA[a2]], depth)) continue;
		g_nalpha = 0;
		for (e = 0; e < na; e++) g_alpha[g_nalpha++] = ALPHA[e];
		memset(seen, 0, ((size_t)1 << SEEN_BITS) * sizeof *seen);
		n_states = n_transitions = n_pruned = n_traces = 0;
		hist[0] = ALPHA[a1]; hist[1] = ALPHA[a2];
		explore(&CONFIGS[CFGI[ci]], hist, 2, depth);
		vf_count("states", n_states); vf_count("transitions", n_transitions); vf_count("traces", n_traces); vf_count("pruned_revisits", n_pruned);
		hist_name(hist, 2, nm);
		if (ci == 0 && a1 == 0 && a2 == 2) vf_sample("conf part: cfg %d prefix %s depth %d over {add-conf, add, run, config payload, reply, error PDU, deliver all, peer close, clock (thorough: + deliver half, would-block)}: %ld states, %ld transitions", CFGI[ci], nm, depth, n_states, n_transitions);
		vf_obs("states=%ld", n_states);
		alpha_main();
		vf_case_end(n_traces > 0);
	}
}

/* configuration requests whose handle is submitted again after it came back (as the answer to the request, or because a pushed
 * configuration answered it while it was only partly written): the byte stream stays a sequence of whole requests */
static void part_confreadd(void) {
	static const int ALPHA[] = {EV_ADD_CONF, EV_READD, EV_RUN, EV_PUSH_CONF, EV_SEND_PARTIAL, EV_DELIVER_ALL, EV_CLOCK_BIG, EV_PEER_CLOSE, EV_ADD, EV_REPLY_OLDEST};
	static const int CFGI[] = {1, 0};
	int na = 10, ci, a2, depth = VF_THOROUGH ? 9 : 7, e;
	g_keep = 2;
	for (ci = 0; ci < 2; ci++) for (a2 = 0; a2 < na; a2++) {
		int hist[16];
		if (!vf_case_begin("confreadd:cfg%d:K%c:d%d", CFGI[ci], EVCH[ALPHA[a2]], depth)) continue;
		g_nalpha = 0;
		for (e = 0; e < na; e++) g_alpha[g_nalpha++] = ALPHA[e];
		memset(seen, 0, ((size_t)1 << SEEN_BITS) * sizeof *seen);
		n_states = n_transitions = n_pruned = n_traces = 0;
		hist[0] = EV_ADD_CONF; hist[1] = ALPHA[a2];
		explore(&CONFIGS[CFGI[ci]], hist, 2, depth);
		vf_count("states", n_states); vf_count("transitions", n_transitions); vf_count("traces", n_traces); vf_count("pruned_revisits", n_pruned);
		/* deeper behind the prefix in which the request is half written and a pushed configuration is on its way */
		memset(seen, 0, ((size_t)1 << SEEN_BITS) * sizeof *seen);
		n_states = n_transitions = n_pruned = n_traces = 0;
		hist[0] = EV_ADD_CONF; hist[1] = EV_SEND_PARTIAL; hist[2] = EV_RUN; hist[3] = EV_PUSH_CONF; hist[4] = ALPHA[a2];
		explore(&CONFIGS[CFGI[ci]], hist, 5, depth + 2);
		vf_count("states", n_states); vf_count("transitions", n_transitions); vf_count("traces", n_traces); vf_count("pruned_revisits", n_pruned);
		if (ci == 0 && a2 == 4) vf_sample("confreadd part: cfg %d prefix Kp depth %d over {add-conf, re-add the handle returned last, run, config payload, partial send, deliver all, clock, peer close, add, reply}: %ld states, %ld transitions", CFGI[ci], depth, n_states, n_transitions);
		vf_obs("states=%ld", n_states);
		alpha_main();
		vf_case_end(n_traces > 0);
	}
	g_keep = 0;
}

/* the service is also driven by calls that pass no receiving handle pointer: such a call makes progress but hands nothing out, so every
 * finished request is still there for the next ordinary call */
static void part_pump(void) {
	static const int ALPHA[] = {EV_ADD, EV_RUN, EV_RUN_PUMP, EV_REPLY_OLDEST, EV_REPLY_STATUS, EV_DELIVER_ALL, EV_CLOCK_BIG, EV_PEER_CLOSE, EV_PUSH_CONF};
	static const int CFGI[] = {1, 0};
	int na = 9, ci, a2, depth = VF_THOROUGH ? 9 : 7, e;
	for (ci = 0; ci < 2; ci++) for (a2 = 0; a2 < na; a2++) {
		int hist[16];
		if (!vf_case_begin("pump:cfg%d:A%c:d%d", CFGI[ci], EVCH[ALPHA[a2]], depth)) continue;
		g_nalpha = 0;
		for (e = 0; e < na; e++) g_alpha[g_nalpha++] = ALPHA[e];
		memset(seen, 0, ((size_t)1 << SEEN_BITS) * sizeof *seen);
		n_states = n_transitions = n_pruned = n_traces = 0;
		hist[0] = EV_ADD; hist[1] = ALPHA[a2];
		explore(&CONFIGS[CFGI[ci]], hist, 2, depth);
		vf_count("states", n_states); vf_count("transitions", n_transitions); vf_count("traces", n_traces); vf_count("pruned_revisits", n_pruned);
		if (ci == 0 && a2 == 2) vf_sample("pump part: cfg %d prefix AN depth %d over {add, run, run without a handle pointer, reply, status reply, deliver all, clock, peer close, config payload}: %ld states, %ld transitions", CFGI[ci], depth, n_states, n_transitions);
		vf_obs("states=%ld", n_states);
		alpha_main();
		vf_case_end(n_traces > 0);
	}
}

/* the same on an extending service (its configuration request is kept in another field of the same record): configuration requests,
 * configuration payloads, error PDUs, network events - no extension requests */
static void part_extconf(void) {
	static const int ALPHA[] = {EV_ADD_CONF, EV_RUN, EV_PUSH_CONF, EV_ERROR_PDU, EV_DELIVER_ALL, EV_PEER_CLOSE, EV_CLOCK_BIG, EV_DELIVER_HALF, EV_SEND_WOULDBLOCK};
	static const int CFGI[] = {1, 0};
	int na = 9, ci, a1, depth = VF_THOROUGH ? 9 : 7, e;
	g_ext = 1;
	for (ci = 0; ci < 2; ci++) for (a1 = 0; a1 < na; a1++) {
		int hist[16];
		if (!vf_case_begin("extconf:cfg%d:K%c:d%d", CFGI[ci], EVCH[ALPHA[a1]], depth)) continue;
		g_nalpha = 0;
		for (e = 0; e < na; e++) g_alpha[g_nalpha++] = ALPHA[e];
		memset(seen, 0, ((size_t)1 << SEEN_BITS) * sizeof *seen);
		n_states = n_transitions = n_pruned = n_traces = 0;
		hist[0] = EV_ADD_CONF; hist[1] = ALPHA[a1];
		explore(&CONFIGS[CFGI[ci]], hist, 2, depth);
		vf_count("states", n_states); vf_count("transitions", n_transitions); vf_count("traces", n_traces); vf_count("pruned_revisits", n_pruned);
		if (ci == 0 && a1 == 1) vf_sample("extconf part (extending service): cfg %d prefix KR depth %d over {add-conf, run, config payload, error PDU, deliver all / half, peer close, clock, would-block}: %ld states, %ld transitions", CFGI[ci], depth, n_states, n_transitions);
		vf_obs("states=%ld", n_states);
		alpha_main();
		vf_case_end(n_traces > 0);
	}
	g_ext = 0;
}

/* handles submitted again after they came back: a new request with a new id; what the earlier round left on the handle
 * (response object, error, raw request) must not show in the new round's result */
static void part_readd(void) {
	static const int ALPHA[] = {EV_ADD, EV_READD, EV_RUN, EV_REPLY_OLDEST, EV_REPLY_STATUS, EV_ERROR_PDU, EV_DELIVER_ALL, EV_PEER_CLOSE, EV_CLOCK_BIG, EV_SEND_PARTIAL, EV_SEND_WOULDBLOCK, EV_REPLY_DUP, EV_REPLY_STALE};
	static const int CFGI[] = {1, 0, 2};
	int na = VF_THOROUGH ? 13 : 11, ci, a2, depth = VF_THOROUGH ? 9 : 7, e;
	g_keep = 1;
	for (ci = 0; ci < (VF_THOROUGH ? 3 : 2); ci++) for (a2 = 0; a2 < na; a2++) {
		int hist[16];
		if (!vf_case_begin("readd:cfg%d:A%c:d%d", CFGI[ci], EVCH[ALPHA[a2]], depth)) continue;
		g_nalpha = 0;
		for (e = 0; e < na; e++) g_alpha[g_nalpha++] = ALPHA[e];
		memset(seen, 0, ((size_t)1 << SEEN_BITS) * sizeof *seen);
		n_states = n_transitions = n_pruned = n_traces = 0;
		hist[0] = EV_ADD; hist[1] = ALPHA[a2];
		explore(&CONFIGS[CFGI[ci]], hist, 2, depth);
		vf_count("states", n_states); vf_count("transitions", n_transitions); vf_count("traces", n_traces); vf_count("pruned_revisits", n_pruned);
		if (ci == 0 && a2 == 2) vf_sample("readd part: cfg %d prefix A%c depth %d over {add, re-add the handle returned last, run, reply, status reply, error PDU, deliver all, peer close, clock, partial send, would-block (thorough: + duplicate / stale reply)}: %ld states, %ld transitions", CFGI[ci], EVCH[ALPHA[a2]], depth, n_states, n_transitions);
		vf_obs("states=%ld", n_states);
		alpha_main();
		vf_case_end(n_traces > 0);
	}
	g_keep = 0;
}

/* unequal send / receive time-outs: the exact moment a request may be given up. Small alphabet (add, run, reply, deliver all,
 * clock + 1 s), deeper search */
static void part_timeouts(void) {
	static const config_t TCFG[] = { {2, 2, 2, 10, 10}, {2, 2, 10, 2, 10}, {1, 1, 2, 5, 10}, {2, 2, 3, 1, 10},
	                                 {2, 2, 10, 4294967298LL, 10}, {2, 2, 10, 2147483648LL, 10} };   /* receive time-outs of 2^32+2 and 2^31 seconds: never within the horizon */
	static const int ALPHA[] = {EV_ADD, EV_RUN, EV_REPLY_OLDEST, EV_DELIVER_ALL, EV_CLOCK_1};
	int ci, a1, depth = VF_THOROUGH ? 10 : 8, e;
	for (ci = 0; ci < 6; ci++) for (a1 = 0; a1 < 5; a1++) {
		int hist[16];
		if (!vf_case_begin("timeouts:snd%lld.rcv%lld:%c:d%d", TCFG[ci].snd, TCFG[ci].rcv, EVCH[ALPHA[a1]], depth)) continue;
		g_nalpha = 0;
		for (e = 0; e < 5; e++) g_alpha[g_nalpha++] = ALPHA[e];
		memset(seen, 0, ((size_t)1 << SEEN_BITS) * sizeof *seen);
		n_states = n_transitions = n_pruned = n_traces = 0;
		hist[0] = ALPHA[a1];
		explore(&TCFG[ci], hist, 1, depth);
		vf_count("states", n_states); vf_count("transitions", n_transitions); vf_count("traces", n_traces); vf_count("pruned_revisits", n_pruned);
		vf_obs("states=%ld", n_states);
		alpha_main();
		vf_case_end(n_traces > 0);
	}
}

/* a connection that is not writable for a round (send buffer full): nothing may be concluded from that but "not now" - neither a
 * connection time-out on an established connection nor an error taken over from the input side */
static void part_sndbuf(void) {
	static const config_t SCFG[] = { {2, 2, 10, 10, 2}, {1, 1, 3, 5, 1}, {3, 1, 10, 10, 0} };
	static const int ALPHA[] = {EV_ADD, EV_RUN, EV_SNDBUF_FULL, EV_REPLY_OLDEST, EV_DELIVER_1, EV_DELIVER_ALL, EV_CLOCK_1, EV_CLOCK_BIG, EV_PEER_CLOSE, EV_SEND_PARTIAL};
	int ci, a2, depth = VF_THOROUGH ? 9 : 7, e, na = (int)(sizeof ALPHA / sizeof *ALPHA);
	for (ci = 0; ci < 3; ci++) for (a2 = 0; a2 < na; a2++) {
		int hist[16];
		if (!vf_case_begin("sndbuf:cfg%d:A%c:d%d", ci, EVCH[ALPHA[a2]], depth)) continue;
		g_nalpha = 0;
		for (e = 0; e < na; e++) g_alpha[g_nalpha++] = ALPHA[e];
		memset(seen, 0, ((size_t)1 << SEEN_BITS) * sizeof *seen);
		n_states = n_transitions = n_pruned = n_traces = 0;
		hist[0] = EV_ADD; hist[1] = ALPHA[a2];
		explore(&SCFG[ci], hist, 2, depth);
		vf_count("states", n_states); vf_count("transitions", n_transitions); vf_count("traces", n_traces); vf_count("pruned_revisits", n_pruned);
		vf_obs("states=%ld", n_states);
		if (ci == 0 && a2 == 1) vf_sample("sndbuf part: cfg{cache 2, con 2 s} prefix AR depth %d over {add, run, send buffer full at the next poll, reply, deliver 1 byte / all, clock +1 / +big, peer close, partial send}: %ld states, %ld transitions", depth, n_states, n_transitions);
		alpha_main();
		vf_case_end(n_traces > 0);
	}
}

/* poll() itself fails on the established connection: the requests waiting on it end with a network error at once, the others travel
 * on a fresh connection */
static void part_pollfail(void) {
	static const int ALPHA[] = {EV_ADD, EV_RUN, EV_POLL_FAIL, EV_REPLY_OLDEST, EV_DELIVER_ALL, EV_CLOCK_1, EV_SEND_PARTIAL, EV_PEER_CLOSE};
	static const int CFGI[] = {1, 0};
	int na = 8, ci, a2, depth = VF_THOROUGH ? 9 : 7, e;
	for (ci = 0; ci < 2; ci++) for (a2 = 0; a2 < na; a2++) {
		int hist[16];
		if (!vf_case_begin("pollfail:cfg%d:A%c:d%d", CFGI[ci], EVCH[ALPHA[a2]], depth)) continue;
		g_nalpha = 0;
		for (e = 0; e < na; e++) g_alpha[g_nalpha++] = ALPHA[e];
		memset(seen, 0, ((size_t)1 << SEEN_BITS) * sizeof *seen);
		n_states = n_transitions = n_pruned = n_traces = 0;
		hist[0] = EV_ADD; hist[1] = ALPHA[a2];
		explore(&CONFIGS[CFGI[ci]], hist, 2, depth);
		vf_count("states", n_states); vf_count("transitions", n_transitions); vf_count("traces", n_traces); vf_count("pruned_revisits", n_pruned);
		if (ci == 0 && a2 == 2) vf_sample("pollfail part: cfg %d prefix AE depth %d over {add, run, poll fails, reply, deliver all, clock +1, partial send, peer close}: %ld states, %ld transitions", CFGI[ci], depth, n_states, n_transitions);
		vf_obs("states=%ld", n_states);
		alpha_main();
		vf_case_end(n_traces > 0);
	}
}

static void part_dfs2(void) {
	static const int CFG_IDX[] = {1, 6, 2, 6};
	int ci, p1, e1;
	for (ci = 0; ci < 4; ci++) for (p1 = -1; p1 <= (ci == 3 ? NBASE3 : (int)(sizeof BASE2_ORIG / sizeof *BASE2_ORIG)); p1++) {
		g_base2 = ci == 3 ? BASE3 : BASE2_ORIG; g_nbase2 = ci == 3 ? NBASE3 : (int)(sizeof BASE2_ORIG / sizeof *BASE2_ORIG);
		if (!vf_case_begin("dfs%d:cfg%d:ins%d", ci == 3 ? 3 : 2, CFG_IDX[ci], p1)) continue;
		n_transitions = 0;
		if (p1 < 0) run_schedule2(&CONFIGS[CFG_IDX[ci]], -1, 0);
		else { for (e1 = 0; e1 < EV_NEVENTS; e1++) run_schedule2(&CONFIGS[CFG_IDX[ci]], p1, e1); run_schedule2(&CONFIGS[CFG_IDX[ci]], p1, EV_GROW); }
		vf_count("traces", p1 < 0 ? 1 : EV_NEVENTS + 1); vf_count("transitions", n_transitions); vf_count("dfs_schedules", p1 < 0 ? 1 : EV_NEVENTS + 1);
		vf_case_end(1);
	}
}

/* development aid: C13_HIST=<event letters> [C13_CFG=<n>] [C13_KEEP=<n>] [C13_EXT=1] runs that one history and nothing else */
static int run_one_history(void) {
	const char *h = getenv("C13_HIST");
	int hist[32], n = 0, ci = getenv("C13_CFG") ? atoi(getenv("C13_CFG")) : 0;
	if (h == NULL) return 0;
	for (; *h && n < 32; h++) { const char *q = strchr(EVCH, *h); if (q == NULL) vf_harness_error("C13_HIST: unknown event letter %c", *h); hist[n++] = (int)(q - EVCH); }
	if (getenv("C13_KEEP")) g_keep = atoi(getenv("C13_KEEP"));
	if (getenv("C13_EXT")) g_ext = atoi(getenv("C13_EXT"));
	if (!vf_case_begin("one-history")) return 1;
	if (replay(&CONFIGS[ci], hist, n) && !W.violated) drain();
	world_close();
	vf_case_end(1);
	return 1;
}

static void run(void) {
	int ci, e1, e2, e3;
	int depth = VF_THOROUGH ? 8 : 6;
	if (run_one_history()) return;
	seen = calloc((size_t)1 << SEEN_BITS, sizeof *seen);
	alpha_main();
	part_conf();
	part_readd();
	part_timeouts();
	part_sndbuf();
	part_pollfail();
	part_extconf();
	part_pump();
	part_confreadd();
	for (ci = 0; ci < NCONFIGS; ci++) {
		int d = depth;
		if (!VF_THOROUGH && ci >= 4) d = depth - 1;
		if (CONFIGS[ci].cache >= 3) d -= 1;
		/* one case = the subtree below a two-event (thorough: three-event) prefix (shards split the prefixes) */
		for (e1 = 0; e1 < EV_NEVENTS; e1++) for (e2 = 0; e2 < EV_NEVENTS; e2++) for (e3 = 0; e3 < (VF_THOROUGH ? EV_NEVENTS : 1); e3++) {
			int hist[16];
			char nm[8];
			int plen = VF_THOROUGH ? 3 : 2;
			if (!vf_case_begin("bfs:cfg%d:%c%c%s:d%d", ci, EVCH[e1], EVCH[e2], VF_THOROUGH ? (char[2]){EVCH[e3], 0} : "", d)) continue;
			memset(seen, 0, ((size_t)1 << SEEN_BITS) * sizeof *seen);
			n_states = n_transitions = n_pruned = n_traces = 0;
			hist[0] = e1; hist[1] = e2; hist[2] = e3;
			explore(&CONFIGS[ci], hist, plen, d);
			vf_count("states", n_states); vf_count("transitions", n_transitions); vf_count("traces", n_traces); vf_count("pruned_revisits", n_pruned);
			vf_max("max_depth", d);
			hist_name(hist, plen, nm);
			if (ci == 0 && e1 == 0 && e2 == 1) vf_sample("cfg{cache=%d,maxreq=%d,snd=%lld,rcv=%lld,con=%lld} prefix %s depth %d: %ld states, %ld transitions (event letters: %s)", CONFIGS[ci].cache, CONFIGS[ci].maxreq, CONFIGS[ci].snd, CONFIGS[ci].rcv, CONFIGS[ci].con, nm, d, n_states, n_transitions, EVCH);
			vf_obs("states=%ld", n_states);
			vf_case_end(n_traces > 0);
		}
	}
	free(seen);
	part_wrap();
	part_dfs();
	part_dfs2();
}

int main(int argc, char **argv) {
	vf_driver d = {"C13", run};
	return vf_main(argc, argv, &d);
}
