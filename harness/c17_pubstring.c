/* C17 - publication strings round-trip; every single-symbol corruption is rejected
 * (DESIGN.md "### C17").
 *
 * Parts (all exhaustive over the stated finite space, nothing sampled):
 *   e:   (time x algorithm x digest pattern): KSI_PublicationData_toBase32 == reference string,
 *        KSI_PublicationData_fromBase32 returns the same time and imprint
 *   b:   KSI_base32Encode / KSI_base32Decode / KSI_crc32 against the reference
 *   m:   for every base string, the mutation families
 *          sub   all 31 x nsym single-symbol substitutions
 *          xp    all adjacent transpositions of different symbols (and symbol<->dash swaps)
 *          byte  all 256 byte values at every position of the string
 *          ins   all 255 byte values inserted at every position
 *          len   1..8 symbols removed from / appended to the end, 1..8 symbols removed at each position
 *          alg   algorithm byte replaced by every id 0..255 / digest length 0..70 (CRC recomputed)
 *
 * Oracle for a mutated string m (judge()):
 *   I1 = reference decoding of m with every character outside A-Z 2-7 '-' '=' removed
 *   I2 = (only when m holds lowercase letters) the same with a-z read as A-Z
 *   the library must reject m, or return exactly the (time, imprint) of I1 or I2.
 * The reference decoder rejects: CRC mismatch, unknown algorithm, byte length != 13 + digest
 * length, and a string that carries a whole surplus symbol (wrong total length).
 * => a substitution / transposition is accepted only when nothing but the unused trailing bits of the
 *    last symbol changed, and then with identical data; a character outside the alphabet can never
 *    contribute data bits. */
#include "ku.h"
#include "ref/ref.h"
#include <ksi/base32.h>
#include <ksi/crc32.h>
#include <stdarg.h>

/* harness/ref/ref_b32.c */
#define RB_FOLD 1
#define RB_SKIP_FOREIGN 2
int ref_b32_class(unsigned char c);
int ref_b32_decode(const char *s, size_t slen, int mode, unsigned char *out, size_t cap, size_t *nbytes, size_t *nsym, int *left_bits, unsigned *left_val);
size_t ref_b32_pad_count(size_t nbytes);
int ref_pub_decode(const char *s, size_t slen, int mode, uint64_t *t, unsigned char imprint[RH_MAX_IMPRINT], size_t *ilen);

static KSI_CTX *ctx;
static const char B32[] = "ABCDEFGHIJKLMNOPQRSTUVWXYZ234567";
static const int ALGS[] = {RH_SHA1, RH_SHA256, RH_RIPEMD160, RH_SHA384, RH_SHA512, RH_SHA3_224, RH_SHA3_256, RH_SHA3_384, RH_SHA3_512, RH_SM3};
#define NALG ((int)(sizeof ALGS / sizeof *ALGS))
static const uint64_t T_SPECIAL[] = {0, 1, 0x7fffffffULL, 0xffffffffULL, 0x100000000ULL, 0x8000000000000000ULL, 0xffffffffffffffffULL, 0x80000000ULL, 0x123456789abcdef0ULL, 0x7fffffffffffffffULL, 0x0000008000000000ULL, 0x00ff00ff00ff00ffULL};
#define NSPECIAL 12
#define NTIMES (NSPECIAL + 254)   /* the specials, then 2..255 (0 and 1 are among the specials) */
static uint64_t time_of(int ti) { return ti < NSPECIAL ? T_SPECIAL[ti] : (uint64_t)(ti - NSPECIAL + 2); }
static const char *DP_NAME[] = {"zero", "ones", "ctr"};

static size_t make_imprint(int alg, int dp, unsigned char out[RH_MAX_IMPRINT]) {
	int L = ref_hash_len(alg), i;
	out[0] = (unsigned char)alg;
	for (i = 0; i < L; i++) out[1 + i] = dp == 0 ? 0x00 : dp == 1 ? 0xff : (unsigned char)i;
	return (size_t)L + 1;
}

/* ------------------------------------------------------------------ decoded publication data */
typedef struct {
	int ok;              /* accepted */
	int rc;              /* library status / reference reason */
	uint64_t t;
	unsigned char imp[RH_MAX_IMPRINT + 16];
	size_t il;
} pdec;

static int pdec_eq(const pdec *a, const pdec *b) {
	return a->ok && b->ok && a->t == b->t && a->il == b->il && memcmp(a->imp, b->imp, a->il) == 0;
}

static long g_calls;

/* KSI_PublicationData_fromBase32 on an exactly sized copy (so that a read past the terminator faults) */
static void lib_dec(const char *m, size_t mlen, pdec *d) {
	char *copy = (char *)malloc(mlen + 1);
	KSI_PublicationData *pd = NULL;
	int res;
	memcpy(copy, m, mlen);
	copy[mlen] = 0;
	memset(d, 0, sizeof *d);
	res = KSI_PublicationData_fromBase32(ctx, copy, &pd);
	g_calls++;
	d->rc = res;
	if (res == KSI_OK) {
		KSI_Integer *ti = NULL;
		KSI_DataHash *h = NULL;
		const unsigned char *p = NULL;
		size_t l = 0;
		d->ok = 1;
		if (pd == NULL || KSI_PublicationData_getTime(pd, &ti) != KSI_OK || ti == NULL ||
		    KSI_PublicationData_getImprint(pd, &h) != KSI_OK || h == NULL ||
		    KSI_DataHash_getImprint(h, &p, &l) != KSI_OK || l > RH_MAX_IMPRINT) {
			d->il = 0;
			d->t = 0xdeadbeefdeadbeefULL;
		} else {
			d->t = KSI_Integer_getUInt64(ti);
			d->il = l;
			memcpy(d->imp, p, l);
		}
	} else if (pd != NULL) {
		/* error with an output object: counts as a wrong acceptance of nothing; freed below */
		d->rc = res;
	}
	KSI_PublicationData_free(pd);
	free(copy);
	/* a refused string leaves nothing behind on the context: after every refusal two hashes are created on it (they come from the
	 * context's pool of recycled hash objects) and must be two different, intact objects */
	if (res != KSI_OK) {
		KSI_DataHash *a = NULL, *b = NULL;
		const unsigned char *pa = NULL, *pb = NULL;
		size_t la = 0, lb = 0;
		unsigned char wa[RH_MAX_IMPRINT], wb[RH_MAX_IMPRINT];
		size_t na = ref_imprint(RH_SHA256, "c17-a", 5, wa), nb = ref_imprint(RH_SHA256, "c17-b", 5, wb);
		if (KSI_DataHash_create(ctx, "c17-a", 5, KSI_HASHALG_SHA2_256, &a) != KSI_OK || KSI_DataHash_create(ctx, "c17-b", 5, KSI_HASHALG_SHA2_256, &b) != KSI_OK) vf_harness_error("hash after a refused string");
		if (a == b || KSI_DataHash_getImprint(a, &pa, &la) != KSI_OK || KSI_DataHash_getImprint(b, &pb, &lb) != KSI_OK || la != na || lb != nb || memcmp(pa, wa, na) != 0 || memcmp(pb, wb, nb) != 0) {
			static int once;
			if (!once++) vf_fail("context-damaged-by-refused-string", "after the refused string \"%.*s\" (0x%x) two hashes created on the context are %s", (int)(mlen > 80 ? 80 : mlen), m, res, a == b ? "one and the same object" : "not the hashes of their inputs");
		}
		KSI_DataHash_free(a); KSI_DataHash_free(b);
	}
}

static void ref_dec(const char *m, size_t n, int mode, pdec *d) {
	memset(d, 0, sizeof *d);
	d->rc = ref_pub_decode(m, n, mode, &d->t, d->imp, &d->il);
	d->ok = d->rc == 0;
}

static const char *pdec_str(const pdec *d) {
	static char b[8][260];
	static int k;
	char *o = b[k++ & 7];
	if (!d->ok) snprintf(o, 260, "rejected(%s)", d->rc == -1 ? "character outside the alphabet" : d->rc == -2 ? "shorter than 13 bytes" : d->rc == -3 ? "CRC mismatch" :
	                     d->rc == -4 ? "unknown algorithm" : d->rc == -5 ? "byte length does not fit the algorithm" : d->rc == -6 ? "surplus symbol: wrong total length" : "library error");
	else snprintf(o, 260, "time=%llx imprint=%s", (unsigned long long)d->t, vf_hex(d->imp, d->il));
	return o;
}

/* ------------------------------------------------------------------ per-case accumulator */
typedef struct {
	const char *fam;
	long cls[2][3];                     /* [reference accepts][library: 0 rejected, 1 same data, 2 WRONG] */
	struct { const char *sig; long n; char first[1800]; } f[10];
	int nf;
} acc_t;

static void acc_init(acc_t *a, const char *fam) { memset(a, 0, sizeof *a); a->fam = fam; }

static void acc_fail(acc_t *a, const char *sig, const char *fmt, ...) {
	int i;
	va_list ap;
	for (i = 0; i < a->nf; i++) if (strcmp(a->f[i].sig, sig) == 0) { a->f[i].n++; return; }
	if (a->nf >= 10) return;
	a->f[a->nf].sig = sig;
	a->f[a->nf].n = 1;
	va_start(ap, fmt);
	vsnprintf(a->f[a->nf].first, sizeof a->f[0].first, fmt, ap);
	va_end(ap);
	a->nf++;
}

/* Output budget. check.py drains the shards' pipes one after the other, so a shard that prints more than
 * a pipe buffer (64 KB) of VIOL lines before it is finished stalls until its turn comes. While a defect is
 * present, thousands of cases fail for the same reason; the first FULL_PER_SIG failing cases per signature
 * (and process) carry the whole detail, later ones a short pointer. Every failing case is still reported
 * with vf_fail, and a replay always prints the whole detail. */
#define FULL_PER_SIG 2
static void report(const char *sig, const char *full, long n, const char *unit) {
	static struct { char sig[64]; int n; } seen[24];
	int i;
	for (i = 0; i < 24 && seen[i].sig[0]; i++) if (strcmp(seen[i].sig, sig) == 0) break;
	if (i < 24 && !seen[i].sig[0]) snprintf(seen[i].sig, sizeof seen[i].sig, "%s", sig);
	if (vf_replaying() || (i < 24 && seen[i].n++ < FULL_PER_SIG))
		vf_fail(sig, "%s [first of %ld such %s in this case]", full, n, unit);
	else
		vf_fail(sig, "%ld %s; replay for detail", n, unit);
}

/* single failure through the output budget */
static void fail1(const char *sig, const char *fmt, ...) {
	char d[2400];
	va_list ap;
	va_start(ap, fmt);
	vsnprintf(d, sizeof d, fmt, ap);
	va_end(ap);
	report(sig, d, 1, "comparison(s)");
}

static void acc_finish(acc_t *a) {
	static const char *RN[2] = {"ref-rej", "ref-ok"}, *LN[3] = {"lib-rej", "lib-same", "lib-WRONG"};
	int r, l, i;
	char key[80];
	for (r = 0; r < 2; r++)
		for (l = 0; l < 3; l++)
			if (a->cls[r][l]) {
				vf_outcome("%s:%s:%s", a->fam, RN[r], LN[l]);
				snprintf(key, sizeof key, "%s_%s_%s", a->fam, RN[r], LN[l]);
				vf_count(key, a->cls[r][l]);
				vf_obs("%s=%ld", key, a->cls[r][l]);
			}
	for (i = 0; i < a->nf; i++) report(a->f[i].sig, a->f[i].first, a->f[i].n, "mutation(s)");
}

/* ------------------------------------------------------------------ base strings */
typedef struct {
	int alg, dp;
	uint64_t t;
	pdec want;
	unsigned char bin[8 + RH_MAX_IMPRINT + 4];
	size_t nbin;
	char s[200];
	size_t len;
	int sympos[140];
	int nsym, spare;
} base_t;

static void base_make(base_t *b, int alg, int dp, uint64_t t) {
	size_t i;
	uint32_t c;
	pdec chk;
	memset(b, 0, sizeof *b);
	b->alg = alg; b->dp = dp; b->t = t;
	b->want.ok = 1; b->want.t = t;
	b->want.il = make_imprint(alg, dp, b->want.imp);
	for (i = 0; i < 8; i++) b->bin[i] = (unsigned char)(t >> (8 * (7 - i)));
	memcpy(b->bin + 8, b->want.imp, b->want.il);
	c = ref_crc32(b->bin, 8 + b->want.il);
	for (i = 0; i < 4; i++) b->bin[8 + b->want.il + i] = (unsigned char)(c >> (8 * (3 - i)));
	b->nbin = 12 + b->want.il;
	ref_pubstring(t, b->want.imp, b->want.il, b->s, sizeof b->s);
	b->len = strlen(b->s);
	for (i = 0; i < b->len; i++) if (b->s[i] != '-') b->sympos[b->nsym++] = (int)i;
	b->spare = b->nsym * 5 - (int)b->nbin * 8;
	/* harness self-checks: the two halves of the reference agree with each other */
	if (b->nsym != (int)((b->nbin * 8 + 4) / 5) || b->spare < 0 || b->spare > 4) vf_harness_error("reference encoder: %d symbols for %zu bytes", b->nsym, b->nbin);
	for (i = 0; i < b->len; i++) if ((b->s[i] == '-') != (i % 7 == 6)) vf_harness_error("reference encoder: grouping of %s", b->s);
	ref_dec(b->s, b->len, 0, &chk);
	if (!pdec_eq(&chk, &b->want)) vf_harness_error("reference decoder does not invert the reference encoder for %s", b->s);
}

/* symbols -> string with a dash after every six symbols (none at the end) */
static size_t group6(const char *syms, size_t n, char *out) {
	size_t i, o = 0;
	for (i = 0; i < n; i++) {
		if (i > 0 && i % 6 == 0) out[o++] = '-';
		out[o++] = syms[i];
	}
	out[o] = 0;
	return o;
}

static void desc_char(char *o, size_t cap, int v) {
	if (v > 32 && v < 127) snprintf(o, cap, "'%c'(0x%02x)", v, v);
	else snprintf(o, cap, "0x%02x", v);
}

/* printable rendering of a mutated string for reports */
static const char *printable(const char *m, size_t mlen) {
	static char ring[4][900];
	static int ri;
	char *o = ring[ri++ & 3];
	size_t k, n = 0;
	for (k = 0; k < mlen && n + 6 < sizeof ring[0]; k++) {
		unsigned char c = (unsigned char)m[k];
		if (c > 32 && c < 127 && c != '\\' && c != '"') o[n++] = (char)c;
		else n += (size_t)snprintf(o + n, sizeof ring[0] - n, "\\x%02x", c);
	}
	o[n] = 0;
	return o;
}

/* Judge one mutated string. what/pos/val describe the mutation for the report.
 * Returns 1 when the reference accepts the string (I1 or I2). */
static int judge(acc_t *a, const base_t *b, const char *m, size_t mlen, const char *what, int pos, int val) {
	size_t n = 0, i;
	int has_foreign = 0, has_lower = 0, refok, same;
	pdec r1, r2, lib;
	while (n < mlen && m[n] != 0) n++;
	for (i = 0; i < n; i++) {
		int c = ref_b32_class((unsigned char)m[i]);
		if (c == -3) has_lower = 1;
		else if (c == -4) has_foreign = 1;
	}
	ref_dec(m, n, RB_SKIP_FOREIGN, &r1);
	r2.ok = 0;
	if (has_lower) ref_dec(m, n, RB_SKIP_FOREIGN | RB_FOLD, &r2);
	lib_dec(m, mlen, &lib);
	refok = r1.ok || r2.ok;
	if (!lib.ok) { a->cls[refok][0]++; return refok; }
	same = pdec_eq(&lib, &r1) || pdec_eq(&lib, &r2);
	if (same) { a->cls[refok][1]++; return refok; }
	a->cls[refok][2]++;
	{
		const char *sig;
		char vd[24];
		if (has_foreign) sig = "nonalphabet-char-contributes-bits";
		else if (has_lower) sig = "lowercase-char-misdecoded";
		else if (r1.rc == -6) sig = "surplus-symbol-accepted";
		else if (r1.rc == -5 || r1.rc == -2) sig = "wrong-length-accepted";
		else if (r1.rc == -4) sig = "unknown-algorithm-accepted";
		else if (r1.rc == -3) sig = "corrupted-string-accepted";
		else sig = "decoded-data-mismatch";
		desc_char(vd, sizeof vd, val);
		acc_fail(a, sig, "%s [pos=%d val=%s]: \"%s\": library ACCEPTED it and returned %s%s; reference (characters outside the alphabet removed): %s%s%s; "
		         "valid string \"%s\"",
		         what, pos, vd, printable(m, mlen), pdec_eq(&lib, &b->want) ? "the data of the valid string" : "DIFFERENT data ", pdec_eq(&lib, &b->want) ? "" : pdec_str(&lib),
		         pdec_str(&r1), has_lower ? "; with lowercase folded: " : "", has_lower ? pdec_str(&r2) : "", b->s);
	}
	return refok;
}

/* ------------------------------------------------------------------ mutation families */
static void fam_sub(const base_t *b) {
	acc_t a;
	char m[200];
	int k, v;
	acc_init(&a, "sub");
	for (k = 0; k < b->nsym; k++) {
		int p = b->sympos[k];
		int old = (int)(strchr(B32, b->s[p]) - B32);
		for (v = 0; v < 32; v++) {
			int refok, padding_only;
			if (v == old) continue;
			memcpy(m, b->s, b->len + 1);
			m[p] = B32[v];
			refok = judge(&a, b, m, b->len, "symbol substituted", p, B32[v]);
			/* cross-check of the reference decoder with the property text: accepted <=> only unused
			 * trailing bits of the last symbol changed */
			padding_only = (k == b->nsym - 1) && (((v ^ old) >> b->spare) == 0);
			if (refok != padding_only) vf_harness_error("reference decoder: substitution pos %d %c->%c of %s: accepts=%d padding-only=%d", p, b->s[p], B32[v], b->s, refok, padding_only);
		}
	}
	acc_finish(&a);
}

static void fam_xpose(const base_t *b) {
	acc_t a, ad;
	char m[200];
	int k;
	size_t p;
	acc_init(&a, "xp");
	for (k = 0; k + 1 < b->nsym; k++) {
		int p0 = b->sympos[k], q = b->sympos[k + 1];
		if (b->s[p0] == b->s[q]) continue;
		memcpy(m, b->s, b->len + 1);
		m[p0] = b->s[q]; m[q] = b->s[p0];
		if (judge(&a, b, m, b->len, "adjacent symbols swapped", p0, b->s[q])) vf_harness_error("reference decoder accepts a transposition at %d of %s", p0, b->s);
	}
	acc_finish(&a);
	/* a symbol swapped with the neighbouring separator: the symbol sequence is unchanged */
	acc_init(&ad, "xpdash");
	for (p = 0; p < b->len; p++) {
		if (b->s[p] != '-') continue;
		memcpy(m, b->s, b->len + 1);
		m[p] = m[p - 1]; m[p - 1] = '-';
		judge(&ad, b, m, b->len, "symbol swapped with dash", (int)p - 1, '-');
		memcpy(m, b->s, b->len + 1);
		m[p] = m[p + 1]; m[p + 1] = '-';
		judge(&ad, b, m, b->len, "symbol swapped with dash", (int)p, m[p]);
	}
	acc_finish(&ad);
}

static void fam_byte(const base_t *b) {
	acc_t a;
	char m[200];
	size_t p;
	int v;
	acc_init(&a, "byte");
	for (p = 0; p < b->len; p++)
		for (v = 0; v < 256; v++) {
			if (v == (unsigned char)b->s[p]) continue;
			memcpy(m, b->s, b->len + 1);
			m[p] = (char)v;
			judge(&a, b, m, b->len, "byte replaced", (int)p, v);
		}
	acc_finish(&a);
}

static void fam_ins(const base_t *b) {
	acc_t a;
	char m[204];
	size_t p;
	int v;
	acc_init(&a, "ins");
	for (p = 0; p <= b->len; p++)
		for (v = 1; v < 256; v++) {
			memcpy(m, b->s, p);
			m[p] = (char)v;
			memcpy(m + p + 1, b->s + p, b->len - p + 1);
			judge(&a, b, m, b->len + 1, "byte inserted", (int)p, v);
		}
	acc_finish(&a);
}

static void fam_len(const base_t *b) {
	acc_t a;
	char syms[160], m[220], t[160];
	int k, i, v, n = b->nsym;
	size_t l;
	for (i = 0; i < n; i++) syms[i] = b->s[b->sympos[i]];
	/* shorter: k symbols removed from the end (regrouped), raw string cut after every length len-10..len-1 */
	acc_init(&a, "len-");
	for (k = 1; k <= 8; k++) {
		l = group6(syms, (size_t)(n - k), m);
		judge(&a, b, m, l, "last k symbols removed (pos=symbols left, val=k)", n - k, k);
	}
	for (k = 1; k <= 10; k++) {
		memcpy(m, b->s, b->len - (size_t)k);
		m[b->len - (size_t)k] = 0;
		judge(&a, b, m, b->len - (size_t)k, "string cut (pos=characters left, val=characters cut)", (int)b->len - k, k);
	}
	/* k consecutive symbols removed at every position */
	for (k = 1; k <= 8; k++)
		for (i = 0; i + k <= n; i++) {
			memcpy(t, syms, (size_t)i);
			memcpy(t + i, syms + i + k, (size_t)(n - i - k));
			l = group6(t, (size_t)(n - k), m);
			judge(&a, b, m, l, "k consecutive symbols removed (pos=symbol index, val=k)", i, k);
		}
	acc_finish(&a);
	/* longer: k copies of every symbol appended (regrouped, and raw without separator) */
	acc_init(&a, "len+");
	for (k = 1; k <= 8; k++)
		for (v = 0; v < 32; v++) {
			memcpy(t, syms, (size_t)n);
			for (i = 0; i < k; i++) t[n + i] = B32[v];
			l = group6(t, (size_t)(n + k), m);
			judge(&a, b, m, l, "k copies of a symbol appended, regrouped (pos=k, val=symbol)", k, B32[v]);
			memcpy(m, b->s, b->len);
			for (i = 0; i < k; i++) m[b->len + (size_t)i] = B32[v];
			m[b->len + (size_t)k] = 0;
			judge(&a, b, m, b->len + (size_t)k, "k copies of a symbol appended without separator (pos=k, val=symbol)", k, B32[v]);
			/* the same followed by 1..6 pad characters (a decoder that stops at the first '=' must still see the surplus) */
			if (k <= 2) {
				int j, q;
				for (j = 1; j <= 6; j++) {
					for (q = 0; q < j; q++) m[b->len + (size_t)k + (size_t)q] = '=';
					m[b->len + (size_t)k + (size_t)j] = 0;
					judge(&a, b, m, b->len + (size_t)k + (size_t)j, "k copies of a symbol and pad characters appended (pos=k, val=symbol)", k, B32[v]);
				}
			}
		}
	/* the valid string itself followed by 1..8 pad characters */
	for (k = 1; k <= 8; k++) {
		memcpy(m, b->s, b->len);
		for (i = 0; i < k; i++) m[b->len + (size_t)i] = '=';
		m[b->len + (size_t)k] = 0;
		judge(&a, b, m, b->len + (size_t)k, "pad characters appended (pos=count)", k, '=');
	}
	acc_finish(&a);
}

static size_t encode_bin(const unsigned char *head9, const unsigned char *digest, size_t dl, char *out, size_t cap) {
	unsigned char buf[8 + 1 + 80 + 4];
	uint32_t c;
	memcpy(buf, head9, 9);
	memcpy(buf + 9, digest, dl);
	c = ref_crc32(buf, 9 + dl);
	buf[9 + dl] = (unsigned char)(c >> 24); buf[10 + dl] = (unsigned char)(c >> 16);
	buf[11 + dl] = (unsigned char)(c >> 8); buf[12 + dl] = (unsigned char)c;
	ref_b32_encode(buf, 13 + dl, 6, out, cap);
	return strlen(out);
}

/* algorithm byte replaced by every id (CRC correct), digest length varied (CRC correct) */
static void fam_alg(const base_t *b) {
	int id, dl, L = ref_hash_len(b->alg);
	long n_acc = 0, n_unknown = 0, n_otherlen = 0, n_dl = 0;
	char m[260];
	unsigned char head[9], digest[80];
	size_t l;
	pdec lib, want, rd;
	acc_t a;
	int i;
	acc_init(&a, "alg");
	memcpy(head, b->bin, 9);
	for (id = 0; id < 256; id++) {
		int idL = ref_hash_len(id);
		head[8] = (unsigned char)id;
		l = encode_bin(head, b->bin + 9, (size_t)L, m, sizeof m);
		ref_dec(m, l, 0, &rd);
		lib_dec(m, l, &lib);
		if (idL == L) {
			want = b->want;
			want.imp[0] = (unsigned char)id;
			if (!pdec_eq(&rd, &want)) vf_harness_error("reference decoder refuses a valid string of algorithm %d", id);
			n_acc++;
			if (!lib.ok) acc_fail(&a, "valid-string-rejected", "algorithm id %d with a %d-byte digest and correct CRC: \"%s\" rejected with 0x%x", id, L, m, lib.rc);
			else if (!pdec_eq(&lib, &want)) acc_fail(&a, "decoded-data-mismatch", "algorithm id %d \"%s\": expected %s got %s", id, m, pdec_str(&want), pdec_str(&lib));
		} else if (idL == 0) {
			if (rd.rc != -4) vf_harness_error("reference decoder: unknown id %d gives %d", id, rd.rc);
			n_unknown++;
			if (lib.ok) acc_fail(&a, "unknown-algorithm-accepted", "algorithm byte of \"%s\" replaced by unknown id %d (CRC recomputed): \"%s\" ACCEPTED, returned %s", b->s, id, m, pdec_str(&lib));
		} else {
			if (rd.rc != -5) vf_harness_error("reference decoder: id %d with a %d-byte digest gives %d", id, L, rd.rc);
			n_otherlen++;
			if (lib.ok) acc_fail(&a, "wrong-length-accepted", "algorithm byte of \"%s\" replaced by id %d whose digest has %d bytes, not %d (CRC recomputed): \"%s\" ACCEPTED, returned %s", b->s, id, idL, L, m, pdec_str(&lib));
		}
	}
	head[8] = (unsigned char)b->alg;
	for (dl = 0; dl < 70; dl++) digest[dl] = b->dp == 0 ? 0 : b->dp == 1 ? 0xff : (unsigned char)dl;
	for (dl = 0; dl <= 70; dl++) {
		if (dl == L) continue;
		l = encode_bin(head, digest, (size_t)dl, m, sizeof m);
		ref_dec(m, l, 0, &rd);
		if (rd.ok) vf_harness_error("reference decoder accepts digest length %d for algorithm %d", dl, b->alg);
		lib_dec(m, l, &lib);
		n_dl++;
		if (lib.ok) acc_fail(&a, "wrong-length-accepted", "algorithm %d with a %d-byte digest instead of %d (CRC correct): \"%s\" ACCEPTED, returned %s", b->alg, dl, L, m, pdec_str(&lib));
	}
	for (i = 0; i < a.nf; i++) report(a.f[i].sig, a.f[i].first, a.f[i].n, "string(s)");
	vf_outcome("alg:same-length-known-id:checked");
	vf_outcome("alg:unknown-id:checked");
	if (n_otherlen) vf_outcome("alg:known-id-other-length:checked");
	vf_count("alg_valid_ids", n_acc);
	vf_count("alg_unknown_ids", n_unknown);
	vf_count("alg_other_length_ids", n_otherlen);
	vf_count("alg_digest_lengths", n_dl);
	vf_obs("alg %ld %ld %ld %ld", n_acc, n_unknown, n_otherlen, n_dl);
}

static void part_m(void) {
	static const int QT[] = {1, 3, 6};  /* quick: times 1, 2^32-1, 2^64-1 */
	static const char *FAM[] = {"sub", "xp", "byte", "ins", "len", "alg"};
	int ai, dp, k, f, sampled = 0;
	int nt = VF_THOROUGH ? NTIMES : 3;
	for (ai = 0; ai < NALG; ai++)
		for (dp = 0; dp < 3; dp++)
			for (k = 0; k < nt; k++) {
				int ti = VF_THOROUGH ? k : QT[k];
				for (f = 0; f < 6; f++) {
					base_t b;
					if (!vf_case_begin("m:a%d:%s:t%llx:%s", ALGS[ai], DP_NAME[dp], (unsigned long long)time_of(ti), FAM[f])) continue;
					base_make(&b, ALGS[ai], dp, time_of(ti));
					g_calls = 0;
					if (f == 0 && sampled++ < 2) vf_sample("m: base \"%s\" (alg %d, %s digest, time %llx): %d symbols, %d unused trailing bits; families sub/xp/byte/ins/len/alg",
					                                  b.s, b.alg, DP_NAME[dp], (unsigned long long)b.t, b.nsym, b.spare);
					switch (f) {
						case 0: fam_sub(&b); break;
						case 1: fam_xpose(&b); break;
						case 2: fam_byte(&b); break;
						case 3: fam_ins(&b); break;
						case 4: fam_len(&b); break;
						default: fam_alg(&b); break;
					}
					vf_count("impl_calls", g_calls);
					vf_count("mutated_strings", g_calls);
					vf_case_end(1);
				}
			}
}

/* ------------------------------------------------------------------ encoder output comparison */
/* lib must be: the reference symbols/grouping, followed by nothing or by RFC 4648 '=' padding (the property
 * text fixes the symbol part only; what the library emits for the padding is recorded as an outcome class).
 * Returns 0 when fine. */
static int check_encoded(const char *lib, const char *ref, size_t nbytes, int group, const char *tag, char *why, size_t wcap) {
	size_t rl = strlen(ref), i, eq = 0, dash = 0, want_pad = ref_b32_pad_count(nbytes);
	const char *tail;
	if (strncmp(lib, ref, rl) != 0) { snprintf(why, wcap, "symbol part differs"); return -1; }
	tail = lib + rl;
	for (i = 0; tail[i]; i++) {
		if (tail[i] == '=') eq++;
		else if (tail[i] == '-') dash++;
		else { snprintf(why, wcap, "unexpected character 0x%02x after the data symbols", (unsigned char)tail[i]); return -1; }
	}
	if (eq != 0 && eq != want_pad) { snprintf(why, wcap, "%zu pad characters, RFC 4648 wants %zu", eq, want_pad); return -1; }
	if (group == 0 && dash) { snprintf(why, wcap, "separator emitted although group length is 0"); return -1; }
	if (i > 0 && tail[i - 1] == '-') { snprintf(why, wcap, "string ends with a separator"); return -1; }
	if (eq == 0 && dash) { snprintf(why, wcap, "separator after the last symbol"); return -1; }
	vf_outcome("%s:tail:%s", tag, i == 0 ? "none" : strlen(tail) < 40 ? tail : "long");
	return 0;
}

/* ------------------------------------------------------------------ part e: encode + round trip */
static void part_e(void) {
	int ai, dp, ti, sampled = 0;
	for (ai = 0; ai < NALG; ai++)
		for (dp = 0; dp < 3; dp++)
			for (ti = 0; ti < NTIMES; ti++) {
				base_t b;
				KSI_PublicationData *pd = NULL;
				KSI_Integer *tm = NULL;
				KSI_DataHash *h = NULL;
				char *str = NULL, why[120];
				int res;
				pdec d;
				if (!vf_case_begin("e:a%d:%s:t%llx", ALGS[ai], DP_NAME[dp], (unsigned long long)time_of(ti))) continue;
				base_make(&b, ALGS[ai], dp, time_of(ti));
				g_calls = 0;
				if ((res = KSI_PublicationData_new(ctx, &pd)) != KSI_OK) vf_harness_error("KSI_PublicationData_new 0x%x", res);
				if ((res = KSI_Integer_new(ctx, b.t, &tm)) != KSI_OK) vf_harness_error("KSI_Integer_new 0x%x", res);
				res = KSI_DataHash_fromImprint(ctx, b.want.imp, b.want.il, &h);
				if (res != KSI_OK) {
					/* the property quantifies over every known algorithm */
					fail1("known-algorithm-imprint-refused", "KSI_DataHash_fromImprint refuses algorithm %d: 0x%x", b.alg, res);
					KSI_Integer_free(tm); KSI_PublicationData_free(pd);
					vf_case_end(1);
					continue;
				}
				if (KSI_PublicationData_setTime(pd, tm) != KSI_OK || KSI_PublicationData_setImprint(pd, h) != KSI_OK) vf_harness_error("setters failed");
				res = KSI_PublicationData_toBase32(pd, &str);
				g_calls++;
				if (res != KSI_OK || str == NULL) fail1("encode-failed", "KSI_PublicationData_toBase32 failed 0x%x for time %llx alg %d", res, (unsigned long long)b.t, b.alg);
				else {
					if (check_encoded(str, b.s, b.nbin, 6, "e", why, sizeof why) != 0)
						fail1("encoding-mismatch", "time %llx imprint %s: reference \"%s\", library \"%s\": %s", (unsigned long long)b.t, vf_hex(b.want.imp, b.want.il), b.s, str, why);
					if (sampled++ < 3) vf_sample("e: time %llx imprint %s -> \"%s\" (reference \"%s\"); decoded back to the same time and imprint", (unsigned long long)b.t, vf_hex(b.want.imp, b.want.il), str, b.s);
					/* decode what the library produced */
					lib_dec(str, strlen(str), &d);
					if (!pdec_eq(&d, &b.want)) fail1("roundtrip-mismatch", "library string \"%s\" decodes to %s, expected %s", str, pdec_str(&d), pdec_str(&b.want));
					else vf_outcome("e:roundtrip:ok");
					vf_obs("%s", str);
				}
				/* decode the reference string */
				lib_dec(b.s, b.len, &d);
				if (!pdec_eq(&d, &b.want)) fail1("valid-string-rejected", "reference string \"%s\" decodes to %s, expected %s", b.s, pdec_str(&d), pdec_str(&b.want));
				else vf_outcome("e:decode-reference-string:ok");
				{
					/* the same data inside a publication record: the record's string is the data's string */
					KSI_PublicationRecord *rec = NULL;
					char *rs = NULL;
					if (KSI_PublicationRecord_new(ctx, &rec) != KSI_OK || KSI_PublicationRecord_setPublishedData(rec, pd) != KSI_OK) vf_harness_error("publication record");
					pd = NULL;   /* owned by the record */
					res = KSI_PublicationRecord_toBase32(rec, &rs);
					g_calls++;
					if (res != KSI_OK || rs == NULL || check_encoded(rs, b.s, b.nbin, 6, "e", why, sizeof why) != 0 || (str != NULL && strcmp(rs, str) != 0)) fail1("record-encoding-mismatch", "KSI_PublicationRecord_toBase32: 0x%x \"%s\", reference \"%s\", the data's own string \"%s\"", res, rs ? rs : "(null)", b.s, str ? str : "(null)");
					else vf_outcome("e:record-string:ok");
					KSI_free(rs);
					KSI_PublicationRecord_free(rec);
				}
				KSI_free(str);
				KSI_PublicationData_free(pd);
				vf_count("impl_calls", g_calls);
				vf_case_end(1);
			}
}

/* ------------------------------------------------------------------ part b: base32 / crc32 directly */
static void fill(unsigned char *d, size_t n, int pat) {
	size_t i;
	for (i = 0; i < n; i++) d[i] = pat == 0 ? (unsigned char)i : pat == 1 ? 0 : pat == 2 ? 0xff : (unsigned char)(0xa5 ^ (i * 29));
}
static const int GROUPS[] = {0, 1, 2, 3, 4, 5, 6, 7, 8, 9, 13, 40, 100};
#define NGROUPS ((int)(sizeof GROUPS / sizeof *GROUPS))

static void part_b_encode(void) {
	int gi, n, pat;
	for (gi = 0; gi < NGROUPS; gi++)
		for (n = 0; n <= 40; n++) {
			if (!vf_case_begin("b:enc:g%d:n%d", GROUPS[gi], n)) continue;
			for (pat = 0; pat < 4; pat++) {
				unsigned char d[48], *back = NULL, *ex;
				char ref[200], why[120], *enc = NULL;
				size_t bl = 0;
				int res;
				fill(d, (size_t)n, pat);
				ex = ku_exact(d, (size_t)n);
				ref_b32_encode(d, (size_t)n, GROUPS[gi], ref, sizeof ref);
				res = KSI_base32Encode(ex, (size_t)n, (size_t)GROUPS[gi], &enc);
				vf_count("impl_calls", 1);
				if (n == 0) {
					/* nothing to encode: an error or the empty string are both fine */
					if (res == KSI_OK && (enc == NULL || enc[0] != 0)) fail1("b32enc-mismatch", "0 bytes encoded to \"%s\"", enc ? enc : "(null)");
					vf_outcome("b:enc:empty-input:%s", res == KSI_OK ? "empty-string" : "error");
				} else if (res != KSI_OK || enc == NULL) {
					fail1("b32enc-failed", "KSI_base32Encode(%d bytes, group %d) failed 0x%x", n, GROUPS[gi], res);
				} else {
					if (check_encoded(enc, ref, (size_t)n, GROUPS[gi], "b:enc", why, sizeof why) != 0)
						fail1("b32enc-mismatch", "%d bytes %s group %d: reference \"%s\", library \"%s\": %s", n, vf_hex(d, (size_t)n), GROUPS[gi], ref, enc, why);
					else vf_outcome("b:enc:equal");
					res = KSI_base32Decode(enc, &back, &bl);
					vf_count("impl_calls", 1);
					if (res != KSI_OK || bl != (size_t)n || memcmp(back, d, (size_t)n) != 0)
						fail1("b32-roundtrip-mismatch", "\"%s\" decodes to res 0x%x %s, expected %s", enc, res, res == KSI_OK ? vf_hex(back, bl) : "-", vf_hex(d, (size_t)n));
					vf_obs("%s", enc);
				}
				KSI_free(back);
				KSI_free(enc);
				free(ex);
			}
			vf_case_end(1);
		}
}

/* raw decoder oracle: the library must fail, or return the reference decoding with foreign characters
 * removed (or, for lowercase letters, folded). A string of alphabet / '-' / '=' only MUST decode. */
static void judge_raw(acc_t *a, const char *m, size_t mlen, long *cls) {
	size_t n = 0, i, n1 = 0, n2 = 0, bl = 0;
	int has_foreign = 0, has_lower = 0, res, ok2 = 0;
	unsigned char b1[128], b2[128], *out = NULL;
	char *copy;
	while (n < mlen && m[n] != 0) n++;
	for (i = 0; i < n; i++) {
		int c = ref_b32_class((unsigned char)m[i]);
		if (c == -3) has_lower = 1; else if (c == -4) has_foreign = 1;
	}
	int left1 = 0;
	if (ref_b32_decode(m, n, RB_SKIP_FOREIGN, b1, sizeof b1, &n1, NULL, &left1, NULL) != 0) vf_harness_error("raw reference decode failed");
	if (has_lower) ok2 = ref_b32_decode(m, n, RB_SKIP_FOREIGN | RB_FOLD, b2, sizeof b2, &n2, NULL, NULL, NULL) == 0;
	copy = (char *)malloc(mlen + 1);
	memcpy(copy, m, mlen);
	copy[mlen] = 0;
	res = KSI_base32Decode(copy, &out, &bl);
	vf_count("impl_calls", 1);
	if (res != KSI_OK) {
		/* a symbol sequence that leaves a whole unused symbol (5..7 surplus bits) is not the encoding of any byte
		 * string: it may be refused (a canonical encoding leaves at most 4 unused bits) */
		if (!has_foreign && !has_lower && left1 < 5) {
			cls[3]++;
			acc_fail(a, "b32dec-valid-rejected", "KSI_base32Decode of the bytes %s failed 0x%x; reference: %s", vf_hex(m, n), res, vf_hex(b1, n1));
		} else cls[0]++;
	} else if ((bl == n1 && memcmp(out, b1, n1) == 0) || (ok2 && bl == n2 && memcmp(out, b2, n2) == 0)) {
		cls[(has_foreign || has_lower) ? 1 : 2]++;
	} else {
		cls[3]++;
		acc_fail(a, has_foreign ? "b32dec-nonalphabet-char-contributes-bits" : has_lower ? "b32dec-lowercase-misdecoded" : "b32dec-mismatch",
		         "KSI_base32Decode of the bytes %s (\"%s\") returned %zu byte(s) %s; reference with characters outside A-Z 2-7 removed: %zu byte(s) %s%s%s",
		         vf_hex(m, n), printable(m, n), bl, vf_hex(out, bl), n1, vf_hex(b1, n1), ok2 ? "; with lowercase folded: " : "", ok2 ? vf_hex(b2, n2) : "");
	}
	KSI_free(out);
	free(copy);
}

static void raw_finish(acc_t *a, const char *fam, long *cls) {
	static const char *N[4] = {"nonalphabet:rejected", "nonalphabet:skipped-or-folded", "alphabet:equal", "WRONG"};
	int i;
	for (i = 0; i < 4; i++) if (cls[i]) { vf_outcome("%s:%s", fam, N[i]); vf_obs("%d=%ld", i, cls[i]); }
	for (i = 0; i < a->nf; i++) report(a->f[i].sig, a->f[i].first, a->f[i].n, "string(s)");
}

static void part_b_decode(void) {
	int n, c1;
	/* reference encodings in every grouping, with and without '=' padding, upper and lower case */
	for (n = 0; n <= 40; n++) {
		int pat, g, variant;
		long cls[4] = {0, 0, 0, 0};
		acc_t a;
		if (!vf_case_begin("b:dec:n%d", n)) continue;
		acc_init(&a, "b:dec");
		for (pat = 0; pat < 4; pat++)
			for (g = 0; g <= 9; g++)
				for (variant = 0; variant < 4; variant++) {
					unsigned char d[48];
					char s[220];
					size_t l, k;
					fill(d, (size_t)n, pat);
					ref_b32_encode(d, (size_t)n, g, s, sizeof s);
					l = strlen(s);
					if (variant & 1) for (k = ref_b32_pad_count((size_t)n); k > 0; k--) s[l++] = '=';
					s[l] = 0;
					if (variant & 2) for (k = 0; k < l; k++) if (s[k] >= 'A' && s[k] <= 'Z') s[k] = (char)(s[k] - 'A' + 'a');
					{
						/* the reference decoder must invert the reference encoder */
						unsigned char chk[64];
						size_t cn = 0;
						if (ref_b32_decode(s, l, RB_FOLD, chk, sizeof chk, &cn, NULL, NULL, NULL) != 0 || cn != (size_t)n || memcmp(chk, d, (size_t)n) != 0)
							vf_harness_error("reference base-32 decoder does not invert the encoder: %s", s);
					}
					judge_raw(&a, s, l, cls);
				}
		raw_finish(&a, "b:dec", cls);
		vf_case_end(1);
	}
	/* every pair of byte values between two fixed symbols: M c1 c2 Z, and a lone c1 */
	for (c1 = 0; c1 < 256; c1++) {
		int c2;
		long cls[4] = {0, 0, 0, 0};
		char s[8];
		acc_t a;
		if (!vf_case_begin("b:dec2:c%02x", c1)) continue;
		acc_init(&a, "b:dec2");
		for (c2 = 0; c2 < 256; c2++) {
			s[0] = 'M'; s[1] = (char)c1; s[2] = (char)c2; s[3] = 'Z'; s[4] = 0;
			judge_raw(&a, s, 4, cls);
		}
		s[0] = (char)c1; s[1] = 0;
		judge_raw(&a, s, 1, cls);
		s[0] = (char)c1; s[1] = 'A'; s[2] = 0;
		judge_raw(&a, s, 2, cls);
		raw_finish(&a, "b:dec2", cls);
		vf_case_end(1);
	}
}

static void part_b_crc(void) {
	static const int NS[] = {63, 64, 65, 255, 256, 257, 1000};
	int i;
	if (ref_crc32("123456789", 9) != 0xCBF43926u) vf_harness_error("reference CRC-32 does not give the check value");
	for (i = 0; i <= 40 + (int)(sizeof NS / sizeof *NS); i++) {
		int n = i <= 40 ? i : NS[i - 41], pat;
		acc_t a;
		int j;
		if (!vf_case_begin("b:crc:n%d", n)) continue;
		acc_init(&a, "b:crc");
		for (pat = 0; pat < 4; pat++) {
			unsigned char d[1000], *ex;
			uint32_t want;
			unsigned long got;
			int k;
			fill(d, (size_t)n, pat);
			ex = ku_exact(d, (size_t)n);
			want = ref_crc32(d, (size_t)n);
			got = KSI_crc32(ex, (size_t)n, 0);
			vf_count("impl_calls", 1);
			if (got != (unsigned long)want) acc_fail(&a, "crc32-mismatch", "%d bytes pattern %d: reference %08x library %lx", n, pat, want, got);
			/* documented continuation: result of the previous call as initial value */
			for (k = 0; k <= n; k += (n <= 40 ? 1 : 37)) {
				unsigned long part = KSI_crc32(ex, (size_t)k, 0);
				got = KSI_crc32(ex + k, (size_t)(n - k), part);
				vf_count("impl_calls", 2);
				if (got != (unsigned long)want) acc_fail(&a, "crc32-continuation-mismatch", "%d bytes split at %d: reference %08x library %lx", n, k, want, got);
			}
			vf_obs("%lx", got);
			free(ex);
		}
		for (j = 0; j < a.nf; j++) report(a.f[j].sig, a.f[j].first, a.f[j].n, "comparison(s)");
		vf_outcome("b:crc:compared");
		vf_case_end(1);
	}
}

static void run(void) {
	ctx = ku_ctx();
	part_e();
	part_b_encode();
	part_b_decode();
	part_b_crc();
	part_m();
	KSI_CTX_free(ctx);
}

int main(int argc, char **argv) {
	vf_driver d = {"C17", run};
	return vf_main(argc, argv, &d);
}
