/* C01 - internal verification accepts exactly the internally consistent signatures */
#include "ku.h"
#include "ref/ref_sig.h"
#include <ksi/policy.h>
#include <ksi/signature_builder.h>
#include <ksi/impl/signature_impl.h>

static KSI_CTX *ctx;

#define T_BEFORE 1467331199ULL   /* one second before SHA-1 deprecation */
#define T_AT     1467331200ULL
#define T_AFTER  1467331201ULL
#define T_2024   1710000000ULL

/* ------------------------------------------------------------------ oracle comparison */
static const char *setstr(unsigned m) {
	static char b[4][128];
	static int k;
	char *o = b[k++ & 3];
	int i, n = 0;
	o[0] = 0;
	for (i = 1; i <= 17; i++) if (m & (1u << i)) n += sprintf(o + n, "%s%d", n ? "," : "", i);
	if (!n) strcpy(o, "-");
	return o;
}

/* returns 1 when an oracle comparison took place */
static int check_sig(const unsigned char *bytes, size_t n, const rsig *model, const char *what) {
	rs_verdict v;
	KSI_Signature *sig = NULL, *sig2 = NULL;
	KSI_VerificationContext vc;
	KSI_PolicyVerificationResult *result = NULL;
	unsigned char *ex = ku_exact(bytes, n);
	int res, rc, r2, ok, consistent;
	{
		/* judge only what the strict reference parser recognises as a schema-valid signature within the
		 * compared domain; everything else is run for memory safety only */
		rsig reparsed;
		if (rs_parse(bytes, n, &reparsed) != 0) {
			res = KSI_Signature_parse(ctx, ex, n, &sig);
			vf_count("impl_calls", 1);
			vf_outcome("unjudged:%s:%s", what, res == KSI_OK ? "accepted" : "refused");
			KSI_Signature_free(sig);
			free(ex);
			return 0;
		}
	}
	rs_eval(model, &v);
	consistent = (v.violated | v.uncomputable) == 0;
	res = KSI_Signature_parseWithPolicy(ctx, ex, n, KSI_VERIFICATION_POLICY_EMPTY, NULL, &sig);
	vf_count("impl_calls", 1);
	if (res != KSI_OK || sig == NULL) {
		/* the reference understands the bytes as a schema-valid signature: the parser must too */
		vf_fail("wellformed-rejected", "%s: reference-valid signature refused by KSI_Signature_parseWithPolicy(EMPTY): 0x%x; bytes=%s", what, res, vf_hex(bytes, n));
		vf_outcome("parse-refused");
		free(ex);
		return 1;
	}
	KSI_VerificationContext_init(&vc, ctx);
	vc.signature = sig;
	rc = KSI_SignatureVerifier_verify(KSI_VERIFICATION_POLICY_INTERNAL, &vc, &result);
	vf_count("impl_calls", 1);
	ok = (rc == KSI_OK && result != NULL && result->finalResult.resultCode == KSI_VER_RES_OK);
	vf_obs("rc=%x res=%d err=%x", rc, result ? (int)result->finalResult.resultCode : -1, result ? (int)result->finalResult.errorCode : -1);
	if (consistent) {
		vf_outcome("consistent:%s", ok ? "OK" : "NOT-OK");
		if (!ok) vf_fail("consistent-not-ok", "%s: reference finds no violated condition but verdict rc=0x%x result=%d error=0x%x", what, rc, result ? (int)result->finalResult.resultCode : -1, result ? (int)result->finalResult.errorCode : -1);
	} else {
		if (ok) vf_fail("inconsistent-ok", "%s: violated={%s} uncomputable={%s} but internal verification reports OK", what, setstr(v.violated), setstr(v.uncomputable));
		if (v.nviolated == 1) {
			int k = 0, i;
			for (i = 1; i <= 17; i++) if ((v.violated | v.uncomputable) & (1u << i)) k = i;
			if (v.violated && !v.uncomputable) {
				vf_outcome("single:INT-%02d:%s", k, ok ? "OK" : (rc != KSI_OK ? "error" : (result->finalResult.resultCode == KSI_VER_RES_FAIL ? "FAIL" : "NA")));
				if (!ok && (rc != KSI_OK || result->finalResult.resultCode != KSI_VER_RES_FAIL || (int)result->finalResult.errorCode != 0x200 + k))
					vf_fail("wrong-code", "%s: exactly INT-%02d violated (computable): expected FAIL 0x%x, got rc=0x%x result=%d error=0x%x", what, k, 0x200 + k, rc, result ? (int)result->finalResult.resultCode : -1, result ? (int)result->finalResult.errorCode : -1);
			} else {
				vf_outcome("single-uncomputable:INT-%02d:%s", k, ok ? "OK" : (rc != KSI_OK ? "error" : (result->finalResult.resultCode == KSI_VER_RES_FAIL ? "FAIL" : "NA")));
				/* inconclusive or an error status; a FAIL is not excluded by the statement only when the code is the documented one */
				if (!ok && rc == KSI_OK && result->finalResult.resultCode == KSI_VER_RES_FAIL && (int)result->finalResult.errorCode != 0x200 + k)
					vf_fail("wrong-code", "%s: INT-%02d not computable: got FAIL with another code 0x%x", what, k, (int)result->finalResult.errorCode);
			}
		} else {
			vf_outcome("multi:%s", ok ? "OK" : "not-ok");
		}
	}
	/* the consistency conditions are properties of the signature: an admissible input level supplied for the document (1 and the
	 * first link's level correction itself, when the signature has one and is not of the legacy form) does not change the verdict */
	if (rc == KSI_OK && result != NULL && !model->has_rfc) {
		uint64_t lc = rs_first_level_corr(model), L[2];
		int nl = 0, li;
		if (lc >= 1 && lc <= 255) { L[nl++] = 1; if (lc > 1) L[nl++] = lc; }
		for (li = 0; li < nl; li++) {
			KSI_PolicyVerificationResult *r3 = NULL;
			int rc3, ok3;
			vc.docAggrLevel = L[li];
			rc3 = KSI_SignatureVerifier_verify(KSI_VERIFICATION_POLICY_INTERNAL, &vc, &r3);
			vf_count("impl_calls", 1);
			ok3 = (rc3 == KSI_OK && r3 != NULL && r3->finalResult.resultCode == KSI_VER_RES_OK);
			if (ok3 != ok || (rc3 == KSI_OK && r3 != NULL && (r3->finalResult.resultCode != result->finalResult.resultCode || r3->finalResult.errorCode != result->finalResult.errorCode)))
				vf_fail("verdict-depends-on-input-level", "%s: verdict rc=0x%x result=%d error=0x%x without an input level, rc=0x%x result=%d error=0x%x with the admissible input level %llu (first level correction %llu)",
				        what, rc, (int)result->finalResult.resultCode, (int)result->finalResult.errorCode, rc3, r3 ? (int)r3->finalResult.resultCode : -1, r3 ? (int)r3->finalResult.errorCode : -1, (unsigned long long)L[li], (unsigned long long)lc);
			else vf_outcome("with-input-level:%s", ok3 ? "OK" : "not-ok");
			KSI_PolicyVerificationResult_free(r3);
		}
		vc.docAggrLevel = 0;
	}
	/* one verification context that lives as long as the process and is handed every signature in turn (cleaned after every second
	 * use only): what an earlier verification left in it does not change this verdict */
	if (rc == KSI_OK && result != NULL) {
		static KSI_VerificationContext pv;
		static int pv_ready, pv_uses;
		KSI_PolicyVerificationResult *r4 = NULL;
		int rc4;
		if (!pv_ready) { KSI_VerificationContext_init(&pv, ctx); pv_ready = 1; }
		pv.signature = sig;
		rc4 = KSI_SignatureVerifier_verify(KSI_VERIFICATION_POLICY_INTERNAL, &pv, &r4);
		vf_count("impl_calls", 1);
		if (rc4 != rc || r4 == NULL || r4->finalResult.resultCode != result->finalResult.resultCode || r4->finalResult.errorCode != result->finalResult.errorCode)
			vf_fail("verdict-depends-on-context-history", "%s: verdict rc=0x%x result=%d error=0x%x in a fresh verification context, rc=0x%x result=%d error=0x%x in a verification context that has verified other signatures before",
			        what, rc, (int)result->finalResult.resultCode, (int)result->finalResult.errorCode, rc4, r4 ? (int)r4->finalResult.resultCode : -1, r4 ? (int)r4->finalResult.errorCode : -1);
		KSI_PolicyVerificationResult_free(r4);
		pv.signature = NULL;
		if ((++pv_uses & 1) == 0) KSI_VerificationContext_clean(&pv);
	}
	KSI_PolicyVerificationResult_free(result);
	KSI_VerificationContext_clean(&vc);
	/* KSI_Signature_parse applies the internal policy at parse time */
	r2 = KSI_Signature_parse(ctx, ex, n, &sig2);
	vf_count("impl_calls", 1);
	if (consistent && r2 != KSI_OK) vf_fail("consistent-parse-refused", "%s: KSI_Signature_parse refused a consistent signature: 0x%x", what, r2);
	if (!consistent && r2 == KSI_OK) vf_fail("inconsistent-parse-ok", "%s: KSI_Signature_parse accepted a signature violating {%s}/{%s}", what, setstr(v.violated), setstr(v.uncomputable));
	vf_obs("parse=%x", r2);
	KSI_Signature_free(sig2);
	KSI_Signature_free(sig);
	free(ex);
	return 1;
}

static int check_model(const rsig *s, const char *what) {
	vbuf b;
	int r;
	vb_init(&b);
	rs_serialize(s, &b);
	r = check_sig(b.p, b.n, s, what);
	vb_free(&b);
	return r;
}

/* ------------------------------------------------------------------ mutation catalogue */
#define NMUT 63
static const char *MUTNAME[NMUT] = {
	"chain1-input", "chainlast-input", "rfc-suffix", "chain1-time", "chainlast-time", "rfc-time", "cal-input", "cal-aggrtime-consistent",
	"cal-flip-link", "cal-drop-link", "cal-add-link", "auth-time", "auth-hash", "pub-time", "pub-hash", "index-last-top", "index-last-bottom",
	"meta-imprint-like", "meta-pad-flags", "meta-pad-tlv16", "meta-pad-value", "meta-pad-odd", "meta-pad-not-first", "meta-pad-twice",
	"index-extra", "index-prefix", "rfc-index", "doc-sha1", "chain-sha1", "rfc-tst-sha1", "rfc-sig-sha1", "rfc-out-sha1", "all-times-shift", "cal-no-aggrtime",
	"meta-padv-00", "meta-padv-ff", "meta-padv-0201", "meta-padv-0001", "meta-padv-ff01", "meta-padv-0102", "meta-padv-0100", "meta-padv-0202", "meta-padv-empty", "meta-padv-010101", "meta-padv-0101-ok", "meta-padv-01-ok",
	"cal-add-right-lowest", "cal-add-left-lowest", "cal-add-right-second", "cal-dup-first",
	"corr-2^64-1", "corr-2^64-2-last-chain", "corr-2^32", "cal-no-aggrtime-consistent",
	"rfc-tst-alg+2^32", "rfc-sig-alg+2^32", "rfc-both-alg+2^63", "rfc-tst-alg-257", "rfc-index-one-more", "rfc-index-one-less", "cal-no-aggrtime-shape-of-previous-second", "meta-pad-tlv16-hashed-as-tlv8", "index-middle-value"
};

static rlink *find_meta(rsig *s, int *chain) {
	int i, j;
	for (i = 0; i < s->nchains; i++) for (j = 0; j < s->ch[i].nlinks; j++) if (s->ch[i].links[j].kind == RL_META) { *chain = i; return &s->ch[i].links[j]; }
	return NULL;
}
static void set_meta(rlink *l, const unsigned char *d, size_t n) { memcpy(l->sib, d, n); l->sib_len = n; }

/* returns 0 if applied, -1 if not applicable to this base */
static int mutate(rsig *s, int m) {
	int ci = 0;
	rlink *ml;
	vbuf b;
	switch (m) {
		case 0: if (s->nchains < 2) return -1; s->ch[1].input[5] ^= 1; return 0;
		case 1: if (s->nchains < 3) return -1; s->ch[s->nchains - 1].input[7] ^= 0x80; return 0;
		case 2: if (!s->has_rfc) return -1; s->rfc.tst_suffix[0] ^= 1; return 0;
		case 3: if (s->nchains < 2) return -1; s->ch[1].aggr_time += 1; return 0;
		case 4: if (s->nchains < 3) return -1; s->ch[s->nchains - 1].aggr_time -= 1; return 0;
		case 5: if (!s->has_rfc) return -1; s->rfc.aggr_time += 1; return 0;
		case 6: if (!s->has_cal) return -1; s->cal_input[3] ^= 4; return 0;
		case 7: if (!s->has_cal) return -1; s->cal_aggr_time += 1; return rs_fix(s, RS_FIX_CALSHAPE | RS_FIX_TAIL);
		case 8: { /* flip one direction so that the shape stays possible but denotes another time */
			int i, dirs[RS_MAXCAL];
			uint64_t t;
			if (!s->has_cal) return -1;
			for (i = 0; i < s->ncal; i++) {
				int j;
				s->cal[i].is_left ^= 1;
				for (j = 0; j < s->ncal; j++) dirs[j] = s->cal[j].is_left;
				if (ref_cal_time(dirs, s->ncal, s->cal_pub_time, &t) == 0) return rs_fix(s, RS_FIX_TAIL);
				s->cal[i].is_left ^= 1;
			}
			return -1;
		}
		case 9: if (!s->has_cal || s->ncal < 2) return -1; s->ncal--; return rs_fix(s, RS_FIX_TAIL);
		case 10: if (!s->has_cal || s->ncal >= RS_MAXCAL) return -1; s->cal[s->ncal] = s->cal[s->ncal - 1]; s->ncal++; return rs_fix(s, RS_FIX_TAIL);
		case 11: if (!s->has_auth) return -1; s->auth_time += 1; return 0;
		case 12: if (!s->has_auth) return -1; s->auth_hash[9] ^= 2; return 0;
		case 13: if (!s->has_pub) return -1; s->pub_time -= 1; return 0;
		case 14: if (!s->has_pub) return -1; s->pub_hash[1] ^= 0x40; return 0;
		case 15: { /* shape element of the top chain changed everywhere it is a prefix: only INT-10 */
			int i;
			for (i = 0; i < s->nchains; i++) s->ch[i].index[0] ^= 2;
			if (s->has_rfc) s->rfc.index[0] ^= 2;
			return 0;
		}
		case 16: s->ch[0].index[s->ch[0].nindex - 1] += 1; if (s->has_rfc) s->rfc.index[s->rfc.nindex - 1] += 1; return 0;
		case 17: { /* no padding and a record that reads like a SHA-256 imprint: 01 1f <30 chars> 00 = 33 bytes */
			if (!(ml = find_meta(s, &ci))) return -1;
			vb_init(&b);
			rtlv_put_str(&b, 0x01, "aaaaaaaaaabbbbbbbbbbcccccccccc");
			set_meta(ml, b.p, b.n); vb_free(&b);
			return rs_fix(s, RS_FIX_INPUTS | RS_FIX_CAL_IN | RS_FIX_TAIL);
		}
		case 18: case 19: case 20: case 21: case 22: case 23: {
			static const unsigned char one[2] = {1, 1}, two[1] = {2};
			if (!(ml = find_meta(s, &ci))) return -1;
			vb_init(&b);
			switch (m) {
				case 18: rtlv_put(&b, 0x1e, 1, 0, one, 2, 0); rtlv_put_str(&b, 0x01, "cli"); break;            /* F flag missing; 4+6 = even */
				case 19: rtlv_put(&b, 0x1e, 1, 1, one, 2, 1); rtlv_put_str(&b, 0x01, "cli"); break;            /* TLV16: 6+6 */
				case 20: rtlv_put(&b, 0x1e, 1, 1, two, 1, 0); rtlv_put_str(&b, 0x01, "clie"); break;           /* value 02: 3+7 */
				case 21: rtlv_put(&b, 0x1e, 1, 1, one, 1, 0); rtlv_put_str(&b, 0x01, "cli"); break;            /* 3+6 = odd */
				case 22: rtlv_put_str(&b, 0x01, "cli"); rtlv_put(&b, 0x1e, 1, 1, one, 2, 0); break;            /* not first */
				default: rtlv_put(&b, 0x1e, 1, 1, one, 2, 0); rtlv_put(&b, 0x1e, 1, 1, one, 2, 0); rtlv_put_str(&b, 0x01, "cli"); break;
			}
			set_meta(ml, b.p, b.n); vb_free(&b);
			return rs_fix(s, RS_FIX_INPUTS | RS_FIX_CAL_IN | RS_FIX_TAIL);
		}
		case 34: case 35: case 36: case 37: case 38: case 39: case 40: case 41: case 42: case 43: case 44: case 45: {
			/* every interesting padding value: the total length is kept even by the choice of the client id */
			static const unsigned char V[12][3] = {{0x00}, {0xff}, {0x02, 0x01}, {0x00, 0x01}, {0xff, 0x01}, {0x01, 0x02}, {0x01, 0x00}, {0x02, 0x02}, {0}, {0x01, 0x01, 0x01}, {0x01, 0x01}, {0x01}};
			static const size_t VL[12] = {1, 1, 2, 2, 2, 2, 2, 2, 0, 3, 2, 1};
			size_t vl = VL[m - 34];
			if (!(ml = find_meta(s, &ci))) return -1;
			vb_init(&b);
			rtlv_put(&b, 0x1e, 1, 1, V[m - 34], vl, 0);
			rtlv_put_str(&b, 0x01, ((2 + vl + 2 + 4) % 2 == 0) ? "cli" : "clie");   /* padding TLV + (01 len "cli\0") even in total */
			set_meta(ml, b.p, b.n); vb_free(&b);
			return rs_fix(s, RS_FIX_INPUTS | RS_FIX_CAL_IN | RS_FIX_TAIL);
		}
		case 24: if (s->ch[0].nindex >= RS_MAXIDX) return -1; s->ch[0].index[s->ch[0].nindex] = s->ch[0].index[s->ch[0].nindex - 1]; s->ch[0].nindex++;
			if (s->has_rfc) { s->rfc.index[s->rfc.nindex] = s->rfc.index[s->rfc.nindex - 1]; s->rfc.nindex++; } return s->nchains >= 2 ? 0 : -1;
		case 25: if (s->nchains < 2) return -1; s->ch[0].index[0] += 4; if (s->has_rfc) s->rfc.index[0] += 4; return 0;
		case 26: if (!s->has_rfc) return -1; s->rfc.index[s->rfc.nindex - 1] ^= 1; return 0;
		case 27: { /* document hash under SHA-1 */
			unsigned char *h = s->has_rfc ? s->rfc.input : s->ch[0].input;
			size_t *hl = s->has_rfc ? &s->rfc.input_len : &s->ch[0].input_len;
			*hl = ref_fake_imprint(RH_SHA1, 5, h);
			return rs_fix(s, RS_FIX_RFC | RS_FIX_INPUTS | RS_FIX_CAL_IN | RS_FIX_TAIL);
		}
		case 28: s->ch[s->nchains - 1].alg = RH_SHA1; return rs_fix(s, RS_FIX_INPUTS | RS_FIX_CAL_IN | RS_FIX_TAIL);
		case 29: if (!s->has_rfc) return -1; s->rfc.tst_alg = RH_SHA1; return rs_fix(s, RS_FIX_RFC | RS_FIX_INPUTS | RS_FIX_CAL_IN | RS_FIX_TAIL);
		case 30: if (!s->has_rfc) return -1; s->rfc.sig_alg = RH_SHA1; return rs_fix(s, RS_FIX_RFC | RS_FIX_INPUTS | RS_FIX_CAL_IN | RS_FIX_TAIL);
		case 31: if (!s->has_rfc) return -1; s->ch[0].input[0] = RH_SHA1; s->ch[0].input_len = 21; return rs_fix(s, RS_FIX_RFC | RS_FIX_INPUTS | RS_FIX_CAL_IN | RS_FIX_TAIL);
		case 32: { /* everything moved one second later: stays consistent */
			int i;
			for (i = 0; i < s->nchains; i++) s->ch[i].aggr_time += 1;
			if (s->has_rfc) s->rfc.aggr_time += 1;
			if (s->has_cal) { s->cal_aggr_time += 1; return rs_fix(s, RS_FIX_CALSHAPE | RS_FIX_TAIL); }
			return 0;
		}
		case 33: { /* calendar chain without aggregation time: then publication time is the aggregation time */
			if (!s->has_cal) return -1;
			s->cal_has_aggr = 0;
			return 0;
		}
		case 53: { /* publication time = aggregation time and no aggregation-time field in the calendar chain: a consistent signature
		            * whose signing time is the chain's publication time (no mutation by itself; it matters in pairs) */
			if (!s->has_cal) return -1;
			s->cal_pub_time = s->cal_aggr_time;
			s->cal_has_aggr = 0;
			return rs_fix(s, RS_FIX_CALSHAPE | RS_FIX_TAIL);
		}
		/* RFC3161 record: algorithm ids that do not fit 32 bits but whose low half is a known id (everything else untouched: a reader that
		 * narrows the id computes exactly the hashes the record was built with) */
		case 54: if (!s->has_rfc || s->rfc.tst_alg != RH_SHA256) return -1; s->rfc.tst_alg += 0x100000000ULL; return 0;
		case 55: if (!s->has_rfc || s->rfc.sig_alg != RH_SHA256) return -1; s->rfc.sig_alg += 0x100000000ULL; return 0;
		case 56: if (!s->has_rfc || s->rfc.tst_alg != RH_SHA256 || s->rfc.sig_alg != RH_SHA256) return -1; s->rfc.tst_alg += 0x8000000000000000ULL; s->rfc.sig_alg += 0x8000000000000000ULL; return 0;
		case 57: if (!s->has_rfc || s->rfc.tst_alg != RH_SHA256) return -1; s->rfc.tst_alg += 256; return 0;
		case 62: { /* a value in the middle of the lowest chain's index differs from the chain above (three chains and more): neither the first
		            * value nor the one that describes the chain's own shape */
			if (s->nchains < 3 || s->ch[0].nindex < 3) return -1;
			s->ch[0].index[s->ch[0].nindex - 2] ^= 1;
			return 0;
		}
		case 61: { /* the padding element is coded with the long (TLV16) header, while every hash of the signature was computed over the record
		            * with the padding in its short form: what is hashed is not what the signature carries, and the padding is not a TLV8 */
			static const unsigned char one[2] = {1, 1};
			if (!(ml = find_meta(s, &ci))) return -1;
			vb_init(&b);
			rtlv_put(&b, 0x1e, 1, 1, one, 2, 0); rtlv_put_str(&b, 0x01, "cli");
			set_meta(ml, b.p, b.n); vb_free(&b);
			if (rs_fix(s, RS_FIX_INPUTS | RS_FIX_CAL_IN | RS_FIX_TAIL) != 0) return -1;
			vb_init(&b);
			rtlv_put(&b, 0x1e, 1, 1, one, 2, 1); rtlv_put_str(&b, 0x01, "cli");
			set_meta(ml, b.p, b.n); vb_free(&b);
			return 0;
		}
		case 60: { /* no aggregation-time field, publication time = the signature's aggregation time (so the times agree), but the links have the
		            * shape of the second before: the time derived from the shape is not the chain's time */
			uint64_t t;
			if (!s->has_cal || s->cal_aggr_time == 0) return -1;
			t = s->cal_aggr_time;
			s->cal_pub_time = t;
			s->cal_aggr_time = t - 1;
			if (rs_fix(s, RS_FIX_CALSHAPE) != 0) return -1;
			s->cal_aggr_time = t;
			s->cal_has_aggr = 0;
			return rs_fix(s, RS_FIX_TAIL);
		}
		case 58: if (!s->has_rfc || s->rfc.nindex >= RS_MAXIDX) return -1; s->rfc.index[s->rfc.nindex] = 3; s->rfc.nindex++; return 0;   /* the record's index has one element more than the first chain's */
		case 59: if (!s->has_rfc || s->rfc.nindex < 2) return -1; s->rfc.nindex--; return 0;
		case 50: s->ch[0].links[0].level_corr = 0xffffffffffffffffULL; s->ch[0].links[0].has_level_corr = 1; return 0;   /* wraps to "no correction" in 64-bit arithmetic */
		case 51: { rs_chain *c = &s->ch[s->nchains - 1]; c->links[c->nlinks - 1].level_corr = 0xfffffffffffffffeULL; c->links[c->nlinks - 1].has_level_corr = 1; return 0; }
		case 52: s->ch[0].links[0].level_corr += 0x100000000ULL; s->ch[0].links[0].has_level_corr = 1; return 0;
		case 46: case 47: case 48: case 49: { /* a surplus link at the input end of the calendar chain (the record after the chain is recomputed) */
			int at = m == 48 ? 1 : 0, j;
			if (!s->has_cal || s->ncal >= RS_MAXCAL || s->ncal < 2) return -1;
			for (j = s->ncal; j > at; j--) s->cal[j] = s->cal[j - 1];
			s->ncal++;
			if (m != 49) {
				s->cal[at] = s->cal[at + 1];
				s->cal[at].is_left = (m == 47);
				s->cal[at].sib[5] ^= 0x21;
			}
			return rs_fix(s, RS_FIX_TAIL);
		}
	}
	return -1;
}

/* ------------------------------------------------------------------ bases */
static unsigned mkdesc(int dir, int kind, int corr) { return (unsigned)(dir | (kind << 1) | (corr << 3)); }

/* F2: algorithms x times x tails x rfc x chain counts */
static int f2_count(void) { return 5 * 3 * 4 * 4 * 2 * 3; }
static void f2_params(int idx, rs_params *p, char *name, size_t nn) {
	static const int CALG[] = {RH_SHA256, RH_SHA512, RH_SHA1, RH_SHA3_256, 3};
	static const int DALG[] = {RH_SHA256, RH_SHA1, RH_SHA512};
	static const uint64_t TM[] = {T_BEFORE, T_AT, T_AFTER, T_2024};
	int ca = idx % 5, da = (idx / 5) % 3, tm = (idx / 15) % 4, tail = (idx / 60) % 4, rfc = (idx / 240) % 2, nch = 1 + (idx / 480) % 3, i;
	rs_default_params(p);
	p->doc_alg = DALG[da]; p->aggr_time = TM[tm]; p->pub_time = TM[tm] + 86400 * 20; p->tail = tail; p->with_rfc3161 = rfc; p->nchains = nch;
	for (i = 0; i < nch; i++) {
		p->chain_alg[i] = (i == nch - 1) ? CALG[ca] : RH_SHA256;
		p->nlinks[i] = 1 + (i & 1);
		p->link_desc[i][0] = mkdesc(i & 1, i == 0 ? 2 : 0, i == 0 ? 1 : 0);
		p->link_desc[i][1] = mkdesc(1, 1, 0);
	}
	snprintf(name, nn, "ca%d.da%d.t%d.tail%d.rfc%d.n%d", CALG[ca], DALG[da], tm, tail, rfc, nch);
}
static int params_computable(const rs_params *p) {
	int i;
	for (i = 0; i < p->nchains; i++) if (!ref_backend_supports(p->chain_alg[i])) return 0;
	return 1;
}

/* build, tolerating uncomputable chain algorithms (then the signature is built with SHA-256 and the
 * algorithm id swapped afterwards: it cannot be consistent, which is what the reference says too) */
static void build_any(rsig *s, const rs_params *p) {
	if (params_computable(p)) { rs_build(s, p); return; }
	{
		rs_params q = *p;
		int i;
		for (i = 0; i < q.nchains; i++) if (!ref_backend_supports(q.chain_alg[i])) q.chain_alg[i] = RH_SHA256;
		rs_build(s, &q);
		for (i = 0; i < p->nchains; i++) s->ch[i].alg = (uint64_t)p->chain_alg[i];
	}
}

static void part_f2(void) {
	int idx, n = f2_count();
	for (idx = 0; idx < n; idx++) {
		rs_params p;
		rsig s;
		char name[96];
		f2_params(idx, &p, name, sizeof name);
		if (!vf_case_begin("f2:%s", name)) continue;
		build_any(&s, &p);
		if (idx == 7) vf_sample("f2 base %s: chains=%d tail=%d rfc3161=%d", name, s.nchains, p.tail, p.with_rfc3161);
		vf_case_end(check_model(&s, name));
	}
}

/* F1: all link mixes */
static void part_f1(void) {
	static const int SHAPES_Q[][RS_MAXCH] = {{1}, {2}, {1, 1}, {2, 1}, {1, 2}};
	static const int SHAPES_T[][RS_MAXCH] = {{1}, {2}, {3}, {1, 1}, {2, 1}, {1, 2}, {2, 2}, {1, 1, 1}};
	int nshapes = VF_THOROUGH ? 8 : 5, si;
	int ncorr = VF_THOROUGH ? 3 : 2;
	static const int CORR[] = {0, 1, 3};
	int per = 2 * 4 * ncorr;
	for (si = 0; si < nshapes; si++) {
		const int *sh = VF_THOROUGH ? SHAPES_T[si] : SHAPES_Q[si];
		int nch = 0, total_links = 0, i, j;
		long total = 1, idx;
		while (nch < RS_MAXCH && sh[nch]) { total_links += sh[nch]; nch++; }
		for (i = 0; i < total_links; i++) total *= per;
		for (idx = 0; idx < total; idx++) {
			rs_params p;
			rsig s;
			long x = idx;
			if (!vf_case_begin("f1:shape%d:%ld", si, idx)) continue;
			rs_default_params(&p);
			p.nchains = nch; p.tail = 1 + (int)(idx % 3);
			for (i = 0; i < nch; i++) {
				p.nlinks[i] = sh[i]; p.chain_alg[i] = RH_SHA256;
				for (j = 0; j < sh[i]; j++) { int d = (int)(x % per); x /= per; p.link_desc[i][j] = mkdesc(d & 1, (d >> 1) & 3, CORR[d >> 3]); }
			}
			rs_build(&s, &p);
			if (idx == 11) vf_sample("f1 base shape#%d index %ld: %d chains, %d links in total, tail %d", si, idx, nch, total_links, p.tail);
			vf_case_end(check_model(&s, "f1"));
		}
	}
}

/* bases used for the mutation catalogue */
static int mut_bases(rs_params *out, int max) {
	int n = 0, tail, rfc, nch, meta;
	for (nch = 1; nch <= 3; nch++) for (tail = 0; tail <= 3; tail++) for (rfc = 0; rfc <= 1; rfc++) for (meta = 0; meta <= 1; meta++) {
		rs_params *p;
		int i;
		if (n >= max) return n;
		p = &out[n++];
		rs_default_params(p);
		p->nchains = nch; p->tail = tail; p->with_rfc3161 = rfc; p->aggr_time = T_2024; p->pub_time = T_2024 + 86400 * 11 + 17;
		for (i = 0; i < nch; i++) {
			p->nlinks[i] = 2; p->chain_alg[i] = (i == 1) ? RH_SHA512 : RH_SHA256;
			p->link_desc[i][0] = mkdesc(i & 1, (meta && i == nch - 1) ? 2 : 0, i == 0 ? 2 : 0);
			p->link_desc[i][1] = mkdesc(1, i == 0 ? 1 : 0, 0);
		}
	}
	return n;
}

static void part_single(void) {
	static rs_params bases[64];
	int nb = mut_bases(bases, 64), b, m;
	for (b = 0; b < nb; b++) for (m = 0; m < NMUT; m++) {
		rsig s;
		rs_verdict v;
		if (!vf_case_begin("single:base%d:%s", b, MUTNAME[m])) continue;
		rs_build(&s, &bases[b]);
		if (mutate(&s, m) != 0) { vf_outcome("mutation-not-applicable"); vf_case_end(0); continue; }
		rs_eval(&s, &v);
		vf_outcome("ref:%s:violated{%s}uncomputable{%s}", MUTNAME[m], setstr(v.violated), setstr(v.uncomputable));
		if (b == 3 && m < 3) vf_sample("single mutation %s on base %d -> reference: violated {%s}", MUTNAME[m], b, setstr(v.violated));
		vf_case_end(check_model(&s, MUTNAME[m]));
	}
}

/* a record that speaks about a calendar root (publication or calendar authentication record) in a signature without the calendar
 * chain: nothing the record says can be compared with the signature, so it is not a consistent signature - neither entry point
 * may report it OK (keep 1: publication record only, 2: authentication record only, 3: whatever the base has) */
static void part_tail_without_calendar(void) {
	static rs_params bases[64];
	int nb = mut_bases(bases, 64), b, keep;
	for (b = 0; b < nb; b++) for (keep = 1; keep <= 3; keep++) {
		rsig s;
		vbuf by;
		unsigned char *ex;
		KSI_Signature *sig = NULL;
		int res;
		if (!vf_case_begin("tail-without-calendar:base%d:keep%d", b, keep)) continue;
		rs_build(&s, &bases[b]);
		if (!s.has_cal || (keep == 1 && !s.has_pub) || (keep == 2 && !s.has_auth) || (keep == 3 && !(s.has_pub || s.has_auth))) { vf_outcome("mutation-not-applicable"); vf_case_end(0); continue; }
		s.has_cal = 0;
		if (keep == 1) s.has_auth = 0;
		if (keep == 2) s.has_pub = 0;
		vb_init(&by);
		rs_serialize(&s, &by);
		ex = ku_exact(by.p, by.n);
		res = KSI_Signature_parse(ctx, ex, by.n, &sig);
		vf_count("impl_calls", 1);
		if (res == KSI_OK) vf_fail("inconsistent-parse-ok", "base %d: KSI_Signature_parse accepted a signature with %s and no calendar chain", b, s.has_pub ? "a publication record" : "a calendar authentication record");
		KSI_Signature_free(sig); sig = NULL;
		res = KSI_Signature_parseWithPolicy(ctx, ex, by.n, KSI_VERIFICATION_POLICY_EMPTY, NULL, &sig);
		vf_count("impl_calls", 1);
		if (res == KSI_OK && sig != NULL) {
			KSI_VerificationContext vc;
			KSI_PolicyVerificationResult *result = NULL;
			int rc;
			KSI_VerificationContext_init(&vc, ctx);
			vc.signature = sig;
			rc = KSI_SignatureVerifier_verify(KSI_VERIFICATION_POLICY_INTERNAL, &vc, &result);
			vf_count("impl_calls", 1);
			if (rc == KSI_OK && result != NULL && result->finalResult.resultCode == KSI_VER_RES_OK)
				vf_fail("inconsistent-ok", "base %d: internal verification reports OK for a signature with %s and no calendar chain", b, s.has_pub ? "a publication record" : "a calendar authentication record");
			vf_outcome("tail-without-calendar:parsed:%s", rc == KSI_OK && result ? "verdict-not-ok" : "error");
			KSI_PolicyVerificationResult_free(result);
			KSI_VerificationContext_clean(&vc);
		} else vf_outcome("tail-without-calendar:refused");
		KSI_Signature_free(sig);
		free(ex);
		vb_free(&by);
		vf_case_end(1);
	}
}

static void part_pairs(void) {
	static rs_params bases[64];
	int nb = mut_bases(bases, 64), b, m1, m2;
	for (b = 0; b < nb; b++) {
		if (!VF_THOROUGH && (b % 6) != 5) continue;
		for (m1 = 0; m1 < NMUT; m1++) for (m2 = m1 + 1; m2 < NMUT; m2++) {
			rsig s;
			if (!vf_case_begin("pair:base%d:%s+%s", b, MUTNAME[m1], MUTNAME[m2])) continue;
			rs_build(&s, &bases[b]);
			if (mutate(&s, m1) != 0 || mutate(&s, m2) != 0) { vf_case_end(0); continue; }
			vf_case_end(check_model(&s, "pair"));
		}
	}
}

/* byte mutations: the mutated bytes are re-read by the strict reference parser; when it understands
 * them the verdicts must agree, otherwise the case is not judged here (typed-parser strictness is C10) */
static void part_bytes(void) {
	static rs_params bases[64];
	static const int PICK_Q[] = {5, 30}, PICK_T[] = {1, 5, 14, 22, 30, 39, 47};
	int nb = mut_bases(bases, 64), k, npick = VF_THOROUGH ? 7 : 2;
	for (k = 0; k < npick; k++) {
		int b = VF_THOROUGH ? PICK_T[k] : PICK_Q[k];
		rsig s;
		vbuf bytes;
		size_t off;
		if (b >= nb) continue;
		rs_build(&s, &bases[b]);
		vb_init(&bytes);
		rs_serialize(&s, &bytes);
		for (off = 0; off < bytes.n; off++) {
			int op;
			for (op = 0; op < 4; op++) {
				unsigned char old = bytes.p[off], nv;
				rsig parsed;
				nv = op == 0 ? (unsigned char)(old ^ 1) : op == 1 ? (unsigned char)(old ^ 0x80) : op == 2 ? 0 : 0xff;
				if (nv == old) continue;
				if (!vf_case_begin("byte:base%d:off%zu:op%d", b, off, op)) continue;
				bytes.p[off] = nv;
				if (rs_parse(bytes.p, bytes.n, &parsed) == 0) {
					vf_outcome("byte:judged");
					check_sig(bytes.p, bytes.n, &parsed, "byte");
					vf_case_end(1);
				} else {
					/* not judged: only memory safety (ASan) is observed */
					KSI_Signature *sig = NULL;
					unsigned char *ex = ku_exact(bytes.p, bytes.n);
					int r = KSI_Signature_parse(ctx, ex, bytes.n, &sig);
					vf_count("impl_calls", 1);
					vf_outcome("byte:unjudged:%s", r == KSI_OK ? "accepted" : "refused");
					KSI_Signature_free(sig);
					free(ex);
					vf_case_end(0);
				}
				bytes.p[off] = old;
			}
		}
		vb_free(&bytes);
	}
}

/* self-check of the reference: every base is consistent and re-parses to itself */
static void part_selfcheck(void) {
	static rs_params bases[64];
	int nb = mut_bases(bases, 64), b;
	for (b = 0; b < nb; b++) {
		rsig s, p;
		rs_verdict v;
		vbuf x, y;
		if (!vf_case_begin("selfcheck:base%d", b)) continue;
		rs_build(&s, &bases[b]);
		rs_eval(&s, &v);
		if (v.violated | v.uncomputable) vf_harness_error("reference base %d is not consistent: {%s}{%s}", b, setstr(v.violated), setstr(v.uncomputable));
		vb_init(&x); vb_init(&y);
		rs_serialize(&s, &x);
		if (rs_parse(x.p, x.n, &p) != 0) vf_harness_error("reference parser refuses reference base %d", b);
		rs_serialize(&p, &y);
		if (x.n != y.n || memcmp(x.p, y.p, x.n) != 0) vf_harness_error("reference parse/serialize round trip differs for base %d", b);
		vb_free(&x); vb_free(&y);
		vf_case_end(check_model(&s, "selfcheck"));
	}
}

/* ------------------------------------------------------------------ the signature builder hands out only what its internal verification accepts - also at the
 * SECOND close of a builder whose first close was refused and whose components were changed in between */
static KSI_Signature *parse_plain(const rsig *m) {
	vbuf b;
	KSI_Signature *sig = NULL;
	vb_init(&b);
	rs_serialize(m, &b);
	if (KSI_Signature_parseWithPolicy(ctx, b.p, b.n, KSI_VERIFICATION_POLICY_EMPTY, NULL, &sig) != KSI_OK || sig == NULL) vf_harness_error("builder part: fixture signature refused");
	vb_free(&b);
	return sig;
}
static void part_builder(void) {
	int nch, scen;
	for (nch = 2; nch <= 3; nch++) for (scen = 0; scen < 6; scen++) {
		rs_params p, q;
		rsig m, other;
		KSI_Signature *src, *osrc, *out = NULL;
		KSI_SignatureBuilder *b = NULL;
		vbuf want;
		unsigned char *raw = NULL;
		size_t rl = 0, i, nc;
		int res, r1;
		if (!vf_case_begin("builder:chains%d:%s", nch, scen == 0 ? "complete" : scen == 1 ? "chain-missing-then-added" : scen == 2 ? "level-refused-then-closed" : scen == 3 ? "level-refused-then-foreign-calendar" : scen == 4 ? "root-level-breaks-the-chain" : "root-level-completes-the-chain")) continue;
		rs_default_params(&p);
		p.nchains = nch; p.tail = 3; p.aggr_time = T_2024; p.pub_time = T_2024 + 86400 * 11 + 17;
		for (i = 0; i < (size_t)nch; i++) { p.nlinks[i] = 2; p.chain_alg[i] = RH_SHA256; p.link_desc[i][0] = mkdesc((int)i & 1, 0, i == 0 ? 2 : 0); p.link_desc[i][1] = mkdesc(1, 0, 0); }
		rs_build(&m, &p);
		q = p; q.doc_seed += 77; q.aggr_time = T_2024 + 5; q.pub_time = T_2024 + 86400 * 12 + 3;
		rs_build(&other, &q);
		src = parse_plain(&m); osrc = parse_plain(&other);
		vb_init(&want);
		rs_serialize(&m, &want);
		if (KSI_SignatureBuilder_open(ctx, &b) != KSI_OK) vf_harness_error("KSI_SignatureBuilder_open");
		nc = KSI_AggregationHashChainList_length(src->aggregationChainList);
		for (i = 0; i < nc; i++) {
			KSI_AggregationHashChain *ch = NULL;
			KSI_AggregationHashChainList_elementAt(src->aggregationChainList, i, &ch);
			if (scen == 1 && i == nc - 1) continue;                 /* the top chain is left out at first */
			if (KSI_SignatureBuilder_addAggregationChain(b, ch) != KSI_OK) vf_harness_error("addAggregationChain");
		}
		if (scen <= 1) {
			if (KSI_SignatureBuilder_setCalendarHashChain(b, src->calendarChain) != KSI_OK || KSI_SignatureBuilder_setCalendarAuthRecord(b, src->calendarAuthRec) != KSI_OK) vf_harness_error("calendar parts");
		}
		vf_count("impl_calls", 3);
		if (scen == 0) {
			res = KSI_SignatureBuilder_close(b, 0, &out);
			if (res != KSI_OK || out == NULL) vf_fail("consistent-not-ok", "builder: a consistent signature assembled from its parts is refused by KSI_SignatureBuilder_close: 0x%x", res);
		} else if (scen == 4) {
			/* the parts are consistent as they are; closing with root level 3 adds 3 to the first link's level correction, after which the
			 * first chain no longer leads to the second one: what is judged is the signature that would be handed out */
			if (KSI_SignatureBuilder_setCalendarHashChain(b, src->calendarChain) != KSI_OK || KSI_SignatureBuilder_setCalendarAuthRecord(b, src->calendarAuthRec) != KSI_OK) vf_harness_error("calendar parts");
			res = KSI_SignatureBuilder_close(b, 3, &out);
			if (res == KSI_OK || out != NULL) vf_fail("inconsistent-ok", "builder: close with root level 3 succeeded although the level added to the first link breaks the chain (result: 0x%x)", res);
			vf_outcome("builder:root-level-breaks:%s", res == KSI_OK ? "OK" : "refused");
		} else if (scen == 5) {
			/* the mirror image: the first chain is that of a signature whose first link's correction is 3 less, all other parts come from the
			 * signature with the full correction; closing with root level 3 yields exactly that signature, which is consistent */
			rs_params p5 = p;
			rsig m5;
			KSI_Signature *s5;
			KSI_SignatureBuilder *b5 = NULL;
			size_t k;
			p5.link_desc[0][0] = mkdesc(0, 0, 5);
			rs_build(&m5, &p5);
			s5 = parse_plain(&m5);
			vb_reset(&want); rs_serialize(&m5, &want);
			if (KSI_SignatureBuilder_open(ctx, &b5) != KSI_OK) vf_harness_error("KSI_SignatureBuilder_open");
			for (k = 0; k < nc; k++) {
				KSI_AggregationHashChain *ch = NULL;
				KSI_AggregationHashChainList_elementAt(k == 0 ? src->aggregationChainList : s5->aggregationChainList, k, &ch);
				if (KSI_SignatureBuilder_addAggregationChain(b5, ch) != KSI_OK) vf_harness_error("addAggregationChain");
			}
			if (KSI_SignatureBuilder_setCalendarHashChain(b5, s5->calendarChain) != KSI_OK || KSI_SignatureBuilder_setCalendarAuthRecord(b5, s5->calendarAuthRec) != KSI_OK) vf_harness_error("calendar parts");
			res = KSI_SignatureBuilder_close(b5, 3, &out);
			if (res != KSI_OK || out == NULL) vf_fail("consistent-not-ok", "builder: close with root level 3 refused (0x%x) although the level completes the first link's correction and the result is consistent", res);
			KSI_SignatureBuilder_free(b5);
			KSI_Signature_free(s5);
		} else if (scen == 1) {
			KSI_AggregationHashChain *top = NULL;
			r1 = KSI_SignatureBuilder_close(b, 0, &out);
			if (r1 == KSI_OK || out != NULL) { vf_fail("inconsistent-ok", "builder: close succeeded although the chain that leads to the calendar is missing"); KSI_Signature_free(out); out = NULL; }
			KSI_AggregationHashChainList_elementAt(src->aggregationChainList, nc - 1, &top);
			if (KSI_SignatureBuilder_addAggregationChain(b, top) != KSI_OK) vf_harness_error("addAggregationChain (late)");
			res = KSI_SignatureBuilder_close(b, 0, &out);
			if (res != KSI_OK || out == NULL) vf_fail("consistent-not-ok", "builder: after the missing chain was added the second KSI_SignatureBuilder_close still fails with 0x%x (the first close was refused with 0x%x)", res, r1);
		} else {
			r1 = KSI_SignatureBuilder_close(b, 300, &out);
			if (r1 == KSI_OK || out != NULL) { vf_fail("inconsistent-ok", "builder: close with root level 300 succeeded"); KSI_Signature_free(out); out = NULL; }
			if (scen == 2) {
				if (KSI_SignatureBuilder_setCalendarHashChain(b, src->calendarChain) != KSI_OK || KSI_SignatureBuilder_setCalendarAuthRecord(b, src->calendarAuthRec) != KSI_OK) vf_harness_error("calendar parts (late)");
				res = KSI_SignatureBuilder_close(b, 0, &out);
				if (res != KSI_OK || out == NULL) vf_fail("consistent-not-ok", "builder: after a refused close(level 300) and adding the calendar parts, close(0) of the consistent signature fails with 0x%x", res);
			} else {
				/* the calendar chain of ANOTHER signature: its input is not this signature's aggregation root */
				if (KSI_SignatureBuilder_setCalendarHashChain(b, osrc->calendarChain) != KSI_OK || KSI_SignatureBuilder_setCalendarAuthRecord(b, osrc->calendarAuthRec) != KSI_OK) vf_harness_error("foreign calendar parts");
				res = KSI_SignatureBuilder_close(b, 0, &out);
				if (res == KSI_OK || out != NULL) vf_fail("inconsistent-ok", "builder: close succeeded for aggregation chains combined with another signature's calendar chain (first close had been refused with 0x%x)", r1);
				vf_outcome("builder:foreign-calendar:%s", res == KSI_OK ? "OK" : "refused");
			}
		}
		vf_count("impl_calls", 2);
		if (out != NULL && scen != 3) {
			/* what is handed out is the signature the parts came from: typed fields and stored form agree */
			if (KSI_Signature_serialize(out, &raw, &rl) != KSI_OK) vf_fail("unserializable", "builder: result cannot be serialized");
			else {
				rsig got;
				vbuf g;
				vb_init(&g);
				if (rs_parse(raw, rl, &got) != 0) vf_fail("wellformed-rejected", "builder: the serialized result is not understood by the reference parser");
				else {
					rs_serialize(&got, &g);
					if (g.n != want.n || memcmp(g.p, want.p, g.n) != 0) vf_fail("builder-result-differs", "builder (%d chains, scenario %d): the serialized result differs from the signature its parts were taken from (%zu vs %zu bytes; calendar chain %s, authentication record %s)", nch, scen, g.n, want.n, got.has_cal ? "present" : "MISSING", got.has_auth ? "present" : "MISSING");
					else vf_outcome("builder:result-identical");
				}
				vb_free(&g);
			}
			KSI_free(raw);
		}
		KSI_Signature_free(out);
		KSI_SignatureBuilder_free(b);
		KSI_Signature_free(src); KSI_Signature_free(osrc);
		vb_free(&want);
		vf_case_end(1);
	}
}

static void run(void) {
	ctx = ku_ctx();
	part_selfcheck();
	part_f2();
	part_f1();
	part_single();
	part_tail_without_calendar();
	part_pairs();
	part_bytes();
	part_builder();
	KSI_CTX_free(ctx);
}

int main(int argc, char **argv) {
	vf_driver d = {"C01", run};
	return vf_main(argc, argv, &d);
}
