/* anchor_fix.h - fixture shared by the trust-anchor drivers (C04, C02, C11): reference-built
 * signatures of every form, a virtual calendar / extender behind the simulated transport, a PKI-signed
 * publications file served over the fake HTTP transport. Header-only. */
#ifndef ANCHOR_FIX_H_
#define ANCHOR_FIX_H_
#include "ku.h"
#include "srv.h"
#include "ref/ref_pdu.h"
#include "ref/ref_pki.h"
#include <ksi/policy.h>
#include <ksi/publicationsfile.h>
#include <ksi/pkitruststore.h>

#define FX_LOGIN "fx-user"
#define FX_KEY   "fx-key"
#define FX_EMAIL "publications@verif.test"
#define FX_T0    1600000000ULL                  /* aggregation time */
#define FX_P0    (FX_T0 + 86400ULL * 4 + 11)    /* publication time inside the signatures */
#define FX_P1    (FX_T0 + 86400ULL * 35 + 5)    /* a later publication */
#define FX_PE    (FX_T0 - 86400ULL * 3)         /* an earlier publication */
#define FX_HEAD  (FX_T0 + 86400ULL * 60 + 9)    /* calendar head */

enum { FXE_CORRECT = 0, FXE_OTHER_ROOT, FXE_OTHER_INPUT, FXE_OTHER_AGGR_TIME, FXE_RIGHT_ALTERED, FXE_ERROR_STATUS, FXE_ERROR_PDU, FXE_BAD_MAC,
       FXE_WRONG_ID, FXE_NO_REPLY, FXE_RIGHT_EXTRA, FXE_RIGHT_EXTRA_TOP, FXE_NO_AGGR_TIME_FIELD, FXE_ERROR_STATUS_WIDE,
       FXE_LEFT_AS_RIGHT_LOW, FXE_LEFT_AS_RIGHT_MID, FXE_LEFT_AS_RIGHT_HIGH, FXE_NBEH };   /* FXE_LEFT_AS_RIGHT_*: the honest chain with the lowest / a middle / the highest left link turned into a right link */
static const char *FXE_NAME[FXE_NBEH] = {"correct", "other-root", "other-input", "other-aggr-time", "right-altered", "error-status", "error-pdu", "bad-mac", "wrong-id", "no-reply",
                                         "right-extra", "right-extra-top", "no-aggr-time-field", "error-status-wide",
                                         "left-link-as-right-lowest", "left-link-as-right-middle", "left-link-as-right-highest"};

typedef struct {
	int ext_behaviour;
	unsigned char root[RH_MAX_IMPRINT]; size_t root_len;    /* what the calendar holds at FX_T0 */
	vbuf pubfile; int pubfile_mode;                         /* 0 serve, 1 HTTP 404, 2 connection failure */
	long ext_requests, pub_requests;
} fx_server;
static fx_server FXS;

static rk_cert fx_pub_signer, fx_auth_cert, fx_auth_cert_otherkey;
static int fx_pki_ready;
static void fx_pki(void) {
	if (fx_pki_ready) return;
	fx_pki_ready = 1;
	rk_init();
	rk_issue(&fx_pub_signer, 0, FX_EMAIL, "Verif Publications", 1500000000, 1900000000);
	rk_issue(&fx_auth_cert, 0, "calendar@verif.test", "Verif Calendar Key", (int64_t)FX_T0 - 1000, (int64_t)FX_T0 + 1000);
	rk_issue(&fx_auth_cert_otherkey, 1, "calendar@verif.test", "Verif Calendar Key", (int64_t)FX_T0 - 1000, (int64_t)FX_T0 + 1000);
}

/* root of the virtual calendar for (input = root, t0, P) */
static void fx_cal_root(const unsigned char *root, size_t rl, uint64_t P, unsigned char out[RH_MAX_IMPRINT], size_t *ol) {
	rsig c;
	rp_extend(&c, root, rl, FX_T0, P);
	if (rs_cal_root(&c, out, ol) != 0) vf_harness_error("fx_cal_root");
}

static void fx_handler(const unsigned char *req, size_t n, vbuf *resp, void *user) {
	rp_req r;
	rp_env e;
	rsig cal;
	vbuf calb, payload;
	uint64_t id, t, P;
	int i;
	(void)user;
	if (n == 0) {            /* HTTP GET: the publications file */
		FXS.pub_requests++;
		if (FXS.pubfile_mode == 0) vb_put(resp, FXS.pubfile.p, FXS.pubfile.n);
		return;
	}
	if (rp_parse_request(req, n, RP_EXT, &r) != 0) { rp_req_free(&r); return; }
	FXS.ext_requests++;
	memset(&e, 0, sizeof e);
	e.version = r.version; e.kind = RP_EXT; e.login = FX_LOGIN; e.mac_alg = RH_SHA256; e.key = FX_KEY; e.keylen = strlen(FX_KEY);
	id = r.req_id; t = r.has_aggr_time ? r.aggr_time : FX_T0; P = r.has_pub_time ? r.pub_time : FX_HEAD;
	vb_init(&calb); vb_init(&payload);
	if (FXS.ext_behaviour == FXE_NO_REPLY) goto done;
	if (FXS.ext_behaviour == FXE_ERROR_PDU) { rp_error_payload(&payload, e.version, RP_EXT, 0x0200, "internal"); rp_wrap_response(resp, &e, payload.p, payload.n); goto done; }
	if (t > P) { rp_ext_resp_payload(&payload, e.version, id, 1, 0x0104, "invalid time range", 0, 0, NULL, 0); rp_wrap_response(resp, &e, payload.p, payload.n); goto done; }
	if (FXS.ext_behaviour == FXE_OTHER_AGGR_TIME) t = t + 1 <= P ? t + 1 : t - 1;
	rp_extend(&cal, FXS.root, FXS.root_len, t, P);
	switch (FXS.ext_behaviour) {
		case FXE_OTHER_ROOT: for (i = 0; i < cal.ncal; i++) if (cal.cal[i].is_left) { cal.cal[i].sib[7] ^= 1; break; } break;   /* a later (left-link) sibling differs: same shape, other root */
		case FXE_OTHER_INPUT: cal.cal_input[cal.cal_input_len - 1] ^= 1; break;
		case FXE_RIGHT_ALTERED: for (i = 0; i < cal.ncal; i++) if (!cal.cal[i].is_left) { cal.cal[i].sib[9] ^= 1; break; } break;
		case FXE_RIGHT_EXTRA: case FXE_RIGHT_EXTRA_TOP: {
			/* all honest links are kept; one more right link follows the last right link (or the whole chain) */
			int at = cal.ncal, j;
			if (FXS.ext_behaviour == FXE_RIGHT_EXTRA) { at = 0; for (i = 0; i < cal.ncal; i++) if (!cal.cal[i].is_left) at = i + 1; }
			if (cal.ncal < RS_MAXCAL && cal.ncal > 0) {
				for (j = cal.ncal; j > at; j--) cal.cal[j] = cal.cal[j - 1];
				cal.cal[at] = cal.cal[at > 0 ? at - 1 : 1];
				cal.cal[at].is_left = 0;
				cal.cal[at].sib[11] ^= 0x5a;
				cal.ncal++;
			}
			break;
		}
		case FXE_LEFT_AS_RIGHT_LOW: case FXE_LEFT_AS_RIGHT_MID: case FXE_LEFT_AS_RIGHT_HIGH: {
			int nl = 0, want, k = 0;
			for (i = 0; i < cal.ncal; i++) nl += cal.cal[i].is_left;
			want = FXS.ext_behaviour == FXE_LEFT_AS_RIGHT_LOW ? 0 : FXS.ext_behaviour == FXE_LEFT_AS_RIGHT_MID ? nl / 2 : nl - 1;
			for (i = 0; i < cal.ncal; i++) if (cal.cal[i].is_left && k++ == want) { cal.cal[i].is_left = 0; break; }
			break;
		}
		case FXE_NO_AGGR_TIME_FIELD: cal.cal_has_aggr = 0; break;   /* the honest chain, but it does not say which aggregation time it is for (then: its publication time) */
		case FXE_BAD_MAC: e.flags |= RP_F_BAD_MAC; break;
		case FXE_WRONG_ID: id += 7; break;
		default: break;
	}
	rs_serialize_cal(&cal, &calb);
	rp_ext_resp_payload(&payload, e.version, id, 1, FXS.ext_behaviour == FXE_ERROR_STATUS ? 0x0201 : FXS.ext_behaviour == FXE_ERROR_STATUS_WIDE ? 0x300000000ULL : 0,
	                    (FXS.ext_behaviour == FXE_ERROR_STATUS || FXS.ext_behaviour == FXE_ERROR_STATUS_WIDE) ? "database missing" : NULL, 1, FX_HEAD, calb.p, calb.n);   /* the wide status (a multiple of 2^32) comes with the honest chain */
	rp_wrap_response(resp, &e, payload.p, payload.n);
done:
	rp_req_free(&r);
	vb_free(&calb); vb_free(&payload);
}

static void fx_server_install(int ext_behaviour) {
	vbuf keep = FXS.pubfile;
	srv_install(fx_handler, NULL);
	memset(&FXS, 0, sizeof FXS);
	FXS.pubfile = keep;
	vb_reset(&FXS.pubfile);
	FXS.ext_behaviour = ext_behaviour;
	sn_now = (time_t)(FX_HEAD + 100);
}

/* signature of form 0..3 (no calendar / calendar / +publication / +auth record signed by `signer`);
 * broken = 1: chain index of the first chain altered (INT-10) without touching any hash; broken = 2: calendar chain shape
 * inconsistent with the aggregation time (internal verification inconclusive), everything after it recomputed */
static void fx_make_sig(rsig *s, int form, int broken, const rk_cert *signer) {
	rs_params p;
	rs_default_params(&p);
	p.nchains = 2; p.nlinks[0] = 2; p.nlinks[1] = 1; p.chain_alg[0] = p.chain_alg[1] = RH_SHA256;
	p.link_desc[0][0] = 0 | (3 << 3); p.link_desc[0][1] = 1 | (1 << 1); p.link_desc[1][0] = 1;
	p.aggr_time = FX_T0; p.pub_time = FX_P0; p.tail = form;
	rs_build(s, &p);
	if (broken == 2 && form >= 1) {
		/* the lowest right link of the calendar chain is missing: the shape no longer reproduces the aggregation time (INT-05,
		 * inconclusive); the record after the chain is recomputed (and signed), so that nothing else is wrong */
		int i, j;
		for (i = 0; i < s->ncal; i++) if (!s->cal[i].is_left) break;
		if (i < s->ncal) { for (j = i; j + 1 < s->ncal; j++) s->cal[j] = s->cal[j + 1]; s->ncal--; }
		if (rs_fix(s, RS_FIX_TAIL) != 0) vf_harness_error("fx_make_sig: broken calendar shape");
	}
	if (form == 3 && signer) rk_sign_auth_record(s, signer);
	if (broken == 1 || (broken == 2 && form == 0)) s->ch[0].index[s->ch[0].nindex - 1] ^= 1;
}

/* publications file with the given publications (time, hash) and certificates, signed by the good signer */
static void fx_make_pubfile(vbuf *out, int npubs, const uint64_t *times, unsigned char (*hashes)[RH_MAX_IMPRINT], const size_t *hlens, int ncerts, const rk_cert **certs, const rk_cert *signer) {
	rpubfile f;
	int i;
	memset(&f, 0, sizeof f);
	f.version = 2; f.created = FX_HEAD;
	f.npubs = npubs;
	for (i = 0; i < npubs; i++) { f.pub_time[i] = times[i]; memcpy(f.pub_hash[i], hashes[i], hlens[i]); f.pub_hash_len[i] = hlens[i]; }
	f.ncerts = ncerts;
	for (i = 0; i < ncerts; i++) f.certs[i] = certs[i];
	rpf_serialize(&f, signer, out, NULL);
}

/* context wired to the simulated extender / publications URL, trusting the good CA with the e-mail constraint */
static KSI_CTX *fx_ctx(int with_extender, int with_puburl) {
	KSI_CTX *ctx = ku_ctx();
	KSI_PKITruststore *pki = NULL;
	static KSI_CertConstraint c[2];
	if (KSI_PKITruststore_new(ctx, 0, &pki) != KSI_OK) vf_harness_error("truststore");
	if (KSI_PKITruststore_addLookupFile(pki, rk_ca_file(0)) != KSI_OK) vf_harness_error("lookup file");
	KSI_CTX_setPKITruststore(ctx, pki);
	memset(c, 0, sizeof c);
	c[0].oid = KSI_CERT_EMAIL; c[0].val = FX_EMAIL;
	KSI_CTX_setDefaultPubFileCertConstraints(ctx, c);
	if (with_extender && KSI_CTX_setExtender(ctx, "ksi+tcp://ext.fx.test:3331", FX_LOGIN, FX_KEY) != KSI_OK) vf_harness_error("setExtender");
	if (with_puburl && KSI_CTX_setPublicationUrl(ctx, "http://pub.fx.test/ksi-publications.bin") != KSI_OK) vf_harness_error("setPublicationUrl");
	return ctx;
}

static KSI_PublicationData *fx_pubdata(KSI_CTX *ctx, uint64_t t, const unsigned char *h, size_t hl) {
	KSI_PublicationData *pd = NULL;
	KSI_Integer *ti = NULL;
	KSI_DataHash *dh = NULL;
	if (KSI_PublicationData_new(ctx, &pd) != KSI_OK || KSI_Integer_new(ctx, t, &ti) != KSI_OK || KSI_DataHash_fromImprint(ctx, h, hl, &dh) != KSI_OK) vf_harness_error("fx_pubdata");
	KSI_PublicationData_setTime(pd, ti);
	KSI_PublicationData_setImprint(pd, dh);
	return pd;
}
#endif
