/* C05 - the policy engine evaluates rule trees with the documented AND/OR/fallback semantics
 * (DESIGN.md section 3, C05).
 *
 * Space: every rule tree (top-level rule array of BASIC / AND(list) / OR(list) elements, lists
 * non-empty) up to a leaf/nesting bound; every basic rule is a distinct instrumented verifier
 * function. The outcome of a rule is a choice point taken when the rule is invoked, so exactly the
 * outcome assignments that are reachable according to the reference are executed (depth-first over
 * choice sequences). Every execution goes through KSI_Policy_create / KSI_Policy_setFallback /
 * KSI_SignatureVerifier_verify of the compiled library and is compared with the reference
 * interpreter below: order of rule invocations, return code, final result.
 *
 * Case names:  t:<tree>            five outcomes per rule (OK, NA/GEN-2, NA/no error code, FAIL, internal error)
 *              u:<tree>            the same plus a rule that returns KSI_OK without writing a result
 *              f:<tree>|<tree>...  fallback chain: first policy | its fallback | the fallback's fallback ...
 * <tree> is the canonical text of the top-level rule array, e.g. "B,A(B,O(B,B))"; basic rules are
 * numbered left to right (over the whole fallback chain). */
#include "ku.h"
#include <stdarg.h>
#include <ksi/policy.h>
#include <ksi/signature.h>

#define MAXLEAF 8
#define MAXLIST 48
#define MAXPOL 4
#define MAXTRACE 32
#define MAXD 3

enum { O_OK = 0, O_NA, O_NA0, O_FAIL, O_ERR, O_UNSET, O__N };
static const char *const ONAME[O__N] = {"OK", "NA", "NA0", "FAIL", "ERR", "UNSET"};

/* ------------------------------------------------------------------ the rule tree (plain data) */
typedef struct { char type; int leaf; int sub; } elem_t;          /* type 'B' (leaf), 'A' / 'O' (sub = list index) */
typedef struct { int n; elem_t e[MAXLEAF]; } list_t;
static list_t g_list[MAXLIST];
static int g_nlist, g_nleaf;
static int g_root[MAXPOL], g_npol;
static int g_has_and_in_or;

static int parse_list(const char **ps, int inside_or) {
	int li = g_nlist++;
	if (li >= MAXLIST) vf_harness_error("tree with too many lists");
	g_list[li].n = 0;
	for (;;) {
		elem_t e;
		e.type = **ps; e.leaf = -1; e.sub = -1;
		(*ps)++;
		if (e.type == 'B') {
			if (g_nleaf >= MAXLEAF) vf_harness_error("tree with too many leaves");
			e.leaf = g_nleaf++;
		} else if (e.type == 'A' || e.type == 'O') {
			if (e.type == 'A' && inside_or) g_has_and_in_or = 1;
			if (*(*ps)++ != '(') vf_harness_error("tree syntax: '(' expected");
			e.sub = parse_list(ps, inside_or || e.type == 'O');
			if (*(*ps)++ != ')') vf_harness_error("tree syntax: ')' expected");
		} else vf_harness_error("tree syntax: element expected");
		if (g_list[li].n >= MAXLEAF) vf_harness_error("list too long");
		g_list[li].e[g_list[li].n++] = e;
		if (**ps != ',') break;
		(*ps)++;
	}
	return li;
}

/* text -> g_list / g_root; policies separated by '|' */
/* g_share: every policy of a fallback chain numbers its rules from 0 again, so that the policies of the chain are built from
 * the SAME rule functions (same function pointers, same rule names), as user policies assembled from the SDK's rules are */
static int g_share;
static void parse_chain(const char *s) {
	int maxleaf = 0;
	g_nlist = g_nleaf = g_npol = 0;
	g_has_and_in_or = 0;
	for (;;) {
		if (g_npol >= MAXPOL) vf_harness_error("too many policies");
		if (g_share) g_nleaf = 0;
		g_root[g_npol++] = parse_list(&s, 0);
		if (g_nleaf > maxleaf) maxleaf = g_nleaf;
		if (*s != '|') break;
		s++;
	}
	if (g_share) g_nleaf = maxleaf;
	if (*s) vf_harness_error("tree syntax: trailing text '%s'", s);
}

/* ------------------------------------------------------------------ enumeration of trees (counting + unranking) */
static uint64_t Lc[MAXD + 1][MAXLEAF + 1];   /* lists with exactly n leaves, nesting depth <= d */
static uint64_t Ec[MAXD + 1][MAXLEAF + 1];   /* single elements with exactly n leaves, nesting depth <= d */

static void count_init(void) {
	int d, n, k;
	for (d = 0; d <= MAXD; d++)
		for (n = 1; n <= MAXLEAF; n++) {
			Ec[d][n] = (n == 1 ? 1 : 0) + (d > 0 ? 2 * Lc[d - 1][n] : 0);
			Lc[d][n] = 0;
			for (k = 1; k <= n; k++) Lc[d][n] += Ec[d][k] * (k == n ? 1 : Lc[d][n - k]);
		}
}

static char *unrank_list(char *o, int d, int n, uint64_t idx);
static char *unrank_elem(char *o, int d, int k, uint64_t ei) {
	if (k == 1) {
		if (ei == 0) { *o++ = 'B'; return o; }
		ei--;
	}
	*o++ = (ei / Lc[d - 1][k]) ? 'O' : 'A';
	*o++ = '(';
	o = unrank_list(o, d - 1, k, ei % Lc[d - 1][k]);
	*o++ = ')';
	return o;
}
static char *unrank_list(char *o, int d, int n, uint64_t idx) {
	int k;
	for (k = 1; k <= n; k++) {
		uint64_t rest = (k == n) ? 1 : Lc[d][n - k], blk = Ec[d][k] * rest;
		if (idx < blk) {
			o = unrank_elem(o, d, k, idx / rest);
			if (k < n) { *o++ = ','; o = unrank_list(o, d, n - k, idx % rest); }
			return o;
		}
		idx -= blk;
	}
	vf_harness_error("unrank out of range");
	return o;
}

/* ------------------------------------------------------------------ stimulus: instrumented rules */
static const char *const LEAFNAME[MAXLEAF] = {"rule0", "rule1", "rule2", "rule3", "rule4", "rule5", "rule6", "rule7"};
static const char *const POLNAME[MAXPOL] = {"P0", "P1", "P2", "P3"};
/* any status other than KSI_OK is an error: the ordinary codes, the small codes below 0x100 (KSI_INVALID_VERIFICATION_INPUT = 5 is what
 * several SDK rules return), 0xff, and a negative value a user rule may return */
static const int LEAFERR[MAXLEAF] = {KSI_INVALID_VERIFICATION_INPUT, KSI_OUT_OF_MEMORY, -3, KSI_NETWORK_ERROR,
                                     1, KSI_CRYPTO_FAILURE, 0xff, KSI_UNKNOWN_ERROR};

/* the outcome plan: choice taken at the k-th rule invocation of one execution (0 beyond the prefix) */
static int g_plan[MAXTRACE], g_plan_len;
static int choice_at(int pos) { return pos < g_plan_len ? g_plan[pos] : 0; }

/* what rule <leaf> reports under outcome <c>: returned status and the written result (written = 0: untouched) */
static void leaf_report(int leaf, int c, int *status, int *written, int *rc, int *ec) {
	*status = KSI_OK; *written = 1; *rc = KSI_VER_RES_NA; *ec = KSI_VER_ERR_GEN_2;
	switch (c) {
		case O_OK: *rc = KSI_VER_RES_OK; *ec = KSI_VER_ERR_NONE; break;
		case O_NA: break;
		case O_NA0: *ec = KSI_VER_ERR_NONE; break;
		case O_FAIL: *rc = KSI_VER_RES_FAIL; *ec = KSI_VER_ERR_INT_1 + leaf; break;
		case O_ERR:
			/* an internal error is the returned status; what the rule left in the result is deliberately
			 * varied (even rules leave OK behind, odd rules leave inconclusive) */
			*status = LEAFERR[leaf];
			if ((leaf & 1) == 0) { *rc = KSI_VER_RES_OK; *ec = KSI_VER_ERR_NONE; }
			break;
		default: *written = 0; break;
	}
}

static int i_trace[MAXTRACE], i_n;    /* observed invocation order */

static int leaf_invoke(int leaf, KSI_RuleVerificationResult *r) {
	int status, written, rc, ec;
	leaf_report(leaf, choice_at(i_n), &status, &written, &rc, &ec);
	if (i_n < MAXTRACE) i_trace[i_n] = leaf;
	i_n++;
	if (written) {
		r->resultCode = (KSI_VerificationResultCode)rc;
		r->errorCode = (KSI_VerificationErrorCode)ec;
		r->ruleName = LEAFNAME[leaf];
	}
	return status;
}
#define LEAF(i) static int leaf_fn##i(KSI_VerificationContext *c, KSI_RuleVerificationResult *r) { (void)c; return leaf_invoke(i, r); }
LEAF(0) LEAF(1) LEAF(2) LEAF(3) LEAF(4) LEAF(5) LEAF(6) LEAF(7)
typedef int (*leaf_fn_t)(KSI_VerificationContext *, KSI_RuleVerificationResult *);
static const leaf_fn_t LEAF_FN[MAXLEAF] = {leaf_fn0, leaf_fn1, leaf_fn2, leaf_fn3, leaf_fn4, leaf_fn5, leaf_fn6, leaf_fn7};

/* ------------------------------------------------------------------ reference interpreter
 * Written from the property statement and the documentation of KSI_RULE_TYPE_* in policy.h:
 *  - rules of a list are evaluated strictly in order;
 *  - a basic or AND element lets the evaluation of its list continue only on OK;
 *  - an OR element ends its list on OK and passes on to the next element when inconclusive;
 *  - any FAIL or error ends the whole evaluation;
 *  - the reported result is that of the last rule evaluated;
 *  - a fallback policy is evaluated exactly when the preceding policy ended FAIL or inconclusive. */
typedef enum { V_OK, V_NA, V_FAIL, V_ERR } verdict_t;
static const char *const VNAME[] = {"OK", "NA", "FAIL", "error"};

static int r_trace[MAXTRACE], r_n;    /* expected invocation order (= choice points reached) */
static int r_last_leaf, r_last_choice;
enum { F_OR_OK_SKIPS, F_OR_OK_LAST, F_OR_NA_PASSES, F_OR_NA_LAST, F_NA_STOPS, F_NA_LAST, F_FAIL_SKIPS, F_ERR_SKIPS, F_ALL_OK, F__N };
static const char *const FNAME[F__N] = {"stop:or-ok-skips-rest", "stop:or-ok-last", "or:na-passes-on", "or:na-in-last-position",
                                        "stop:na-skips-rest", "stop:na-last", "stop:fail-skips-rest", "stop:error-skips-rest", "stop:all-ok"};
static unsigned r_flags;

static verdict_t ref_rule(int leaf) {
	int c = choice_at(r_n);
	r_trace[r_n++] = leaf;
	r_last_leaf = leaf;
	r_last_choice = c;
	return c == O_OK ? V_OK : c == O_FAIL ? V_FAIL : c == O_ERR ? V_ERR : V_NA;
}

static verdict_t ref_list(int li) {
	const list_t *l = &g_list[li];
	verdict_t v = V_NA;
	int i;
	for (i = 0; i < l->n; i++) {
		const elem_t *e = &l->e[i];
		int more = i + 1 < l->n;
		v = (e->type == 'B') ? ref_rule(e->leaf) : ref_list(e->sub);
		if (v == V_FAIL || v == V_ERR) {           /* ends the whole evaluation: every enclosing list ends too */
			if (more) r_flags |= 1u << (v == V_FAIL ? F_FAIL_SKIPS : F_ERR_SKIPS);
			return v;
		}
		if (e->type == 'O') {
			if (v == V_OK) { r_flags |= 1u << (more ? F_OR_OK_SKIPS : F_OR_OK_LAST); return v; }
			r_flags |= 1u << (more ? F_OR_NA_PASSES : F_OR_NA_LAST);
		} else if (v != V_OK) {
			r_flags |= 1u << (more ? F_NA_STOPS : F_NA_LAST);
			return v;
		}
	}
	return v;                                      /* result of the last element evaluated */
}

typedef struct {
	int status;                 /* expected return code */
	int npol;                   /* policies evaluated */
	verdict_t v[MAXPOL];        /* verdict of each evaluated policy */
	int leaf[MAXPOL], choice[MAXPOL];   /* last rule evaluated in each policy and its outcome */
} expect_t;

static void ref_verify(expect_t *x) {
	int p;
	r_n = 0;
	r_flags = 0;
	x->npol = 0;
	x->status = KSI_OK;
	for (p = 0; p < g_npol; p++) {
		verdict_t v = ref_list(g_root[p]);
		x->v[p] = v; x->leaf[p] = r_last_leaf; x->choice[p] = r_last_choice;
		x->npol = p + 1;
		if (v == V_ERR) { x->status = LEAFERR[r_last_leaf]; return; }   /* error to the caller, no verdict, no fallback */
		if (v == V_OK) return;                                           /* never a fallback after OK */
	}
}

/* ------------------------------------------------------------------ the implementation side */
static KSI_CTX *ctx;
static KSI_Signature *g_sig;
static KSI_Rule g_rules[MAXLIST][MAXLEAF + 1];
static KSI_Policy *g_pol[MAXPOL];
static KSI_Policy *g_clone;     /* KSI_Policy_clone of the chain head, taken after the fallbacks were set */
static KSI_Policy *g_entry;     /* the policy object handed to the verifier in the current pass */

static void build_policies(void) {
	int li, i, p;
	for (li = 0; li < g_nlist; li++) {
		for (i = 0; i < g_list[li].n; i++) {
			const elem_t *e = &g_list[li].e[i];
			if (e->type == 'B') { g_rules[li][i].type = KSI_RULE_TYPE_BASIC; g_rules[li][i].rule = (const void *)LEAF_FN[e->leaf]; }
			else { g_rules[li][i].type = e->type == 'A' ? KSI_RULE_TYPE_COMPOSITE_AND : KSI_RULE_TYPE_COMPOSITE_OR; g_rules[li][i].rule = g_rules[e->sub]; }
		}
		g_rules[li][i].type = KSI_RULE_TYPE_BASIC;
		g_rules[li][i].rule = NULL;
	}
	for (p = 0; p < g_npol; p++) {
		g_pol[p] = NULL;
		if (KSI_Policy_create(ctx, g_rules[g_root[p]], POLNAME[p], &g_pol[p]) != KSI_OK || g_pol[p] == NULL) vf_harness_error("KSI_Policy_create failed");
	}
	for (p = 0; p + 1 < g_npol; p++)
		if (KSI_Policy_setFallback(ctx, g_pol[p], g_pol[p + 1]) != KSI_OK) vf_harness_error("KSI_Policy_setFallback failed");
	g_clone = NULL;
	if (KSI_Policy_clone(ctx, g_pol[0], &g_clone) != KSI_OK || g_clone == NULL) vf_harness_error("KSI_Policy_clone failed");
	/* calls that are refused leave the chain as it is: no fallback given, and a fallback for no policy */
	for (p = 0; p < g_npol; p++) {
		if (KSI_Policy_setFallback(ctx, g_pol[p], NULL) == KSI_OK) vf_outcome("setFallback(NULL):accepted"); else vf_outcome("setFallback(NULL):refused");
		KSI_Policy_setFallback(ctx, NULL, g_pol[p]);
	}
	if (KSI_Policy_setFallback(ctx, g_clone, NULL) == KSI_OK) vf_outcome("setFallback(NULL):accepted");
	g_entry = g_pol[0];
}
static void free_policies(void) {
	int p;
	for (p = 0; p < g_npol; p++) { KSI_Policy_free(g_pol[p]); g_pol[p] = NULL; }
	KSI_Policy_free(g_clone); g_clone = NULL; g_entry = NULL;
}

static const char *fmt_trace(const int *t, int n) {
	static char ring[4][160];
	static int ri;
	char *o = ring[ri++ & 3];
	int i, k = 0;
	o[0] = 0;
	for (i = 0; i < n && i < MAXTRACE; i++) k += snprintf(o + k, sizeof ring[0] - (size_t)k, "%s%d", i ? "," : "", t[i]);
	return o;
}
static const char *fmt_plan(int n) {
	static char o[320];
	int i, k = 0;
	o[0] = 0;
	for (i = 0; i < n; i++) k += snprintf(o + k, sizeof o - (size_t)k, "%s%s", i ? "," : "", ONAME[choice_at(i)]);
	return o;
}

static const char *fmt_ec(int written, int ec) {
	static char o[24];
	if (!written) return "(any)";
	snprintf(o, sizeof o, "0x%x", ec);
	return o;
}

/* per-case accumulators */
static unsigned c_flags, c_final, c_fb;
static long c_exec, c_inv, c_fails, c_byfinal[4];
static uint64_t c_hash;
enum { FB_AFTER_FAIL, FB_AFTER_NA, FB_NOT_AFTER_OK, FB_NOT_AFTER_ERR, FB_EXHAUSTED, FB__N };
static const char *const FBNAME[FB__N] = {"fallback-taken:after-FAIL", "fallback-taken:after-NA", "fallback-not-taken:after-OK",
                                          "fallback-not-taken:after-error", "fallback:chain-exhausted"};

static void report(const char *part, const char *sig, const expect_t *x, int rc, const char *fmt, ...) __attribute__((format(printf, 5, 6)));
static void report(const char *part, const char *sig, const expect_t *x, int rc, const char *fmt, ...) {
	char d[600], s[80];
	va_list ap;
	c_fails++;
	if (c_fails > 3) return;                       /* a few per case are enough; the total is counted */
	va_start(ap, fmt);
	vsnprintf(d, sizeof d, fmt, ap);
	va_end(ap);
	snprintf(s, sizeof s, "%s%s", part[0] == 'f' ? "fb-" : "", sig);
	vf_fail(s, "rule outcomes in invocation order [%s]: %s; expected invocations [%s] return 0x%x, observed invocations [%s] return 0x%x",
	        fmt_plan(r_n > i_n ? r_n : i_n), d, fmt_trace(r_trace, r_n), x->status, fmt_trace(i_trace, i_n), rc);
}

/* one execution of the library under the current plan, compared with the reference */
static void execute(const char *part, KSI_VerificationContext *vc) {
	expect_t x;
	KSI_PolicyVerificationResult *res = NULL;
	int rc, i, same, last;
	ref_verify(&x);
	i_n = 0;
	rc = KSI_SignatureVerifier_verify(g_entry, vc, &res);
	c_exec++;
	c_inv += i_n;
	c_flags |= r_flags;
	last = x.npol - 1;
	c_final |= 1u << x.v[last];
	c_byfinal[x.v[last]]++;
	for (i = 0; i < x.npol; i++) {
		if (i < last) c_fb |= 1u << (x.v[i] == V_FAIL ? FB_AFTER_FAIL : FB_AFTER_NA);
		else if (x.v[i] == V_OK) { if (i + 1 < g_npol) c_fb |= 1u << FB_NOT_AFTER_OK; }
		else if (x.v[i] == V_ERR) { if (i + 1 < g_npol) c_fb |= 1u << FB_NOT_AFTER_ERR; }
		else if (g_npol > 1) c_fb |= 1u << FB_EXHAUSTED;
	}
	/* observations (determinism self-test) */
	c_hash = vf_fnv(&rc, sizeof rc, c_hash);
	c_hash = vf_fnv(&i_n, sizeof i_n, c_hash);
	c_hash = vf_fnv(i_trace, sizeof(int) * (size_t)(i_n < MAXTRACE ? i_n : MAXTRACE), c_hash);
	if (res != NULL) {
		int o[4];
		o[0] = res->finalResult.resultCode; o[1] = res->finalResult.errorCode; o[2] = (int)res->resultCode;
		o[3] = (int)KSI_RuleVerificationResultList_length(res->policyResults);
		c_hash = vf_fnv(o, sizeof o, c_hash);
	}

	/* (1) order of invocations */
	same = (i_n == r_n);
	for (i = 0; same && i < r_n; i++) same = (i_trace[i] == r_trace[i]);
	if (!same) {
		int pre = 1, m = i_n < r_n ? i_n : r_n;
		for (i = 0; i < m && i < MAXTRACE; i++) if (i_trace[i] != r_trace[i]) pre = 0;
		if (pre && i_n > r_n) report(part, "rule-invoked-after-stop", &x, rc, "rule %d was invoked after the evaluation had to stop", i_trace[r_n < MAXTRACE ? r_n : MAXTRACE - 1]);
		else if (pre) report(part, "rule-not-invoked", &x, rc, "rule %d had to be evaluated but was not", r_trace[i_n]);
		else report(part, "invocation-order", &x, rc, "rules invoked in another order");
	}
	/* (2) return code */
	else if (rc != x.status) report(part, "return-code", &x, rc, "wrong return code");
	/* (3) internal error: no verdict */
	else if (x.status != KSI_OK) {
		if (res != NULL) report(part, "error-with-verdict", &x, rc, "an internal error was returned together with a verification result (%d/0x%x)", res->finalResult.resultCode, res->finalResult.errorCode);
	}
	/* (4) verdict = result of the last rule evaluated (of the last policy evaluated) */
	else if (res == NULL) report(part, "no-result", &x, rc, "KSI_OK returned without a result object");
	else {
		int st, wr, erc, eec;
		leaf_report(x.leaf[last], x.choice[last], &st, &wr, &erc, &eec);
		if ((int)res->finalResult.resultCode != erc || (int)res->resultCode != erc || (wr && (int)res->finalResult.errorCode != eec))
			report(part, "final-result", &x, rc, "expected verdict %s (result %d error %s) of rule %d, got finalResult %d/0x%x, resultCode %d",
			       VNAME[x.v[last]], erc, fmt_ec(wr, eec), x.leaf[last], res->finalResult.resultCode, res->finalResult.errorCode, res->resultCode);
		else if (wr && res->finalResult.ruleName != LEAFNAME[x.leaf[last]])
			report(part, "final-result-rule", &x, rc, "the reported result is not that of the last rule evaluated (%s): ruleName %s", LEAFNAME[x.leaf[last]],
			       res->finalResult.ruleName ? res->finalResult.ruleName : "(null)");
		else if (res->finalResult.policyName != POLNAME[last])
			report(part, "final-result-policy", &x, rc, "the reported result is not that of the last policy evaluated (%s): policyName %s", POLNAME[last],
			       res->finalResult.policyName ? res->finalResult.policyName : "(null)");
		else if ((int)KSI_RuleVerificationResultList_length(res->policyResults) != x.npol)
			report(part, "policy-results-length", &x, rc, "%d policies were evaluated but policyResults has %d entries", x.npol, (int)KSI_RuleVerificationResultList_length(res->policyResults));
		else {
			for (i = 0; i < x.npol; i++) {
				KSI_RuleVerificationResult *pr = NULL;
				leaf_report(x.leaf[i], x.choice[i], &st, &wr, &erc, &eec);
				if (KSI_RuleVerificationResultList_elementAt(res->policyResults, (size_t)i, &pr) != KSI_OK || pr == NULL || (int)pr->resultCode != erc || (wr && (int)pr->errorCode != eec)) {
					report(part, "policy-results-entry", &x, rc, "policyResults[%d]: expected %d/%s, got %d/0x%x", i, erc, fmt_ec(wr, eec), pr ? (int)pr->resultCode : -1, pr ? (int)pr->errorCode : -1);
					break;
				}
			}
		}
	}
	KSI_PolicyVerificationResult_free(res);
}

/* all reachable outcome assignments of the current tree / chain: depth-first over choice sequences */
static void explore(const char *part, const char *text, int nout, int use_sig) {
	KSI_VerificationContext vc;
	int k, pass;
	unsigned f;
	parse_chain(text);
	build_policies();
	if (KSI_VerificationContext_init(&vc, ctx) != KSI_OK) vf_harness_error("KSI_VerificationContext_init failed");
	vc.signature = use_sig ? g_sig : NULL;
	c_flags = c_final = c_fb = 0;
	c_exec = c_inv = c_fails = 0;
	memset(c_byfinal, 0, sizeof c_byfinal);
	c_hash = 0;
	/* two passes over all choice sequences: through the created chain head, and through a clone of it (a clone has to
	 * behave like the original: same rules, same fallback chain, same name) */
	for (pass = 0; pass < 2; pass++) {
		char part2[24];
		snprintf(part2, sizeof part2, "%s%s", part, pass ? "+clone" : "");
		g_entry = pass ? g_clone : g_pol[0];
		g_plan_len = 0;
		for (;;) {
			execute(part2, &vc);
			/* next choice sequence: the reference reached choice points 0..r_n-1 */
			for (k = g_plan_len; k < r_n; k++) g_plan[k] = 0;
			k = r_n;
			while (k > 0 && g_plan[k - 1] == nout - 1) k--;
			if (k == 0) break;
			g_plan[k - 1]++;
			g_plan_len = k;
		}
		g_plan_len = 0;
	}
	vf_outcome("entry:created-and-cloned");
	KSI_VerificationContext_clean(&vc);
	free_policies();
	if (c_fails > 3) vf_fail(part[0] == 'f' ? "fb-more" : "more", "%ld executions of this case disagree with the reference in total", c_fails);
	for (f = 0; f < 4; f++) if (c_final & (1u << f)) vf_outcome("final:%s", VNAME[f]);
	for (f = 0; f < F__N; f++) if (c_flags & (1u << f)) vf_outcome("%s", FNAME[f]);
	for (f = 0; f < FB__N; f++) if (c_fb & (1u << f)) vf_outcome("%s", FBNAME[f]);
	if (g_has_and_in_or) vf_outcome("shape:and-nested-in-or");
	vf_outcome("part:%s:policies=%d", part, g_npol);
	vf_obs("exec=%ld inv=%ld h=%016llx", c_exec, c_inv, (unsigned long long)c_hash);
	vf_count("impl_calls", c_exec);
	vf_count("traces", c_exec);
	vf_count("transitions", c_inv);
	{
		char key[40];
		snprintf(key, sizeof key, "exec_part_%s_policies%d", part, g_npol);
		vf_count(key, c_exec);
		snprintf(key, sizeof key, "cases_part_%s_rules%d", part, g_nleaf);
		vf_count(key, 1);
		snprintf(key, sizeof key, "exec_part_%s_rules%d", part, g_nleaf);
		if (part[0] != 'f') vf_count(key, c_exec);
	}
	vf_count("exec_final_OK", c_byfinal[V_OK]);
	vf_count("exec_final_NA", c_byfinal[V_NA]);
	vf_count("exec_final_FAIL", c_byfinal[V_FAIL]);
	vf_count("exec_final_error", c_byfinal[V_ERR]);
	vf_max("max_executions_per_case", c_exec);
}

/* ------------------------------------------------------------------ parts */
/* nesting depth bound as a function of the number of leaves */
static int depth_t(int n) {
	if (!VF_THOROUGH) return n <= 5 ? 2 : -1;
	return n <= 5 ? 3 : n <= 7 ? 2 : -1;
}
static int depth_u(int n) {
	if (!VF_THOROUGH) return n <= 3 ? 2 : -1;
	return n <= 4 ? 2 : n == 5 ? 1 : -1;
}

static void part_trees(const char *part, int (*depth)(int), int nout) {
	int n;
	long nsamp = 0;
	for (n = 1; n <= MAXLEAF - 1; n++) {
		int d = depth(n);
		uint64_t idx;
		if (d < 0) continue;
		for (idx = 0; idx < Lc[d][n]; idx++) {
			char text[200];
			*unrank_list(text, d, n, idx) = 0;
			if (!vf_case_begin("%s:%s", part, text)) continue;
			explore(part, text, nout, 0);
			if (n >= 3 && d >= 2 && (idx % 977) == 5 && nsamp++ < 3)
				vf_sample("%s:%s  (%d rules, %ld reachable outcome assignments executed, %ld rule invocations)", part, text, n, c_exec, c_inv);
			vf_case_end(1);
		}
	}
}

/* fallback chains: m = 1..4 policies, each a tree with <= 2 leaves */
static void part_fallback(void) {
	int m;
	for (m = 1; m <= MAXPOL; m++) {
		/* per-policy tree bound: thorough <= 2 rules, depth <= 2 (depth <= 1 for 4 policies);
		 * quick <= 2 rules, depth <= 1 (<= 1 rule for 4 policies) */
		int d = VF_THOROUGH ? (m <= 3 ? 2 : 1) : 1, i;
		int two = VF_THOROUGH || m <= 3;
		uint64_t nt = Lc[d][1] + (two ? Lc[d][2] : 0), total = 1, idx;
		for (i = 0; i < m; i++) total *= nt;
		for (idx = 0; idx < total; idx++) {
			char text[400], *o = text;
			uint64_t x = idx;
			for (i = 0; i < m; i++) {
				uint64_t t = x % nt;
				x /= nt;
				if (i) *o++ = '|';
				o = t < Lc[d][1] ? unrank_list(o, d, 1, t) : unrank_list(o, d, 2, t - Lc[d][1]);
			}
			*o = 0;
			if (!vf_case_begin("f:%s", text)) continue;
			explore("f", text, 5, 1);
			if (m >= 2) { g_share = 1; explore("fshared", text, 5, 1); g_share = 0; }
			if (m == 3 && (idx % 1013) == 700) vf_sample("f:%s  (policy|fallback|fallback; %ld reachable outcome assignments executed)", text, c_exec);
			vf_case_end(1);
		}
	}
}

static void load_signature(void) {
	const char *repo = getenv("VERIF_REPO");
	char path[1024];
	unsigned char buf[16384];
	size_t n;
	FILE *f;
	snprintf(path, sizeof path, "%s/test/resource/tlv/ok-sig-2014-04-30.1.ksig", (repo && *repo) ? repo : "/repo");
	f = fopen(path, "rb");
	if (f == NULL) vf_harness_error("cannot open %s", path);
	n = fread(buf, 1, sizeof buf, f);
	fclose(f);
	if (n == 0 || n == sizeof buf) vf_harness_error("unexpected size of %s", path);
	if (KSI_Signature_parseWithPolicy(ctx, buf, n, KSI_VERIFICATION_POLICY_EMPTY, NULL, &g_sig) != KSI_OK || g_sig == NULL)
		vf_harness_error("cannot parse the sample signature %s", path);
}

static void run(void) {
	ctx = ku_ctx();
	count_init();
	load_signature();
	part_trees("t", depth_t, 5);
	part_trees("u", depth_u, 6);
	part_fallback();
	KSI_Signature_free(g_sig);
	g_sig = NULL;
	KSI_CTX_free(ctx);
}

int main(int argc, char **argv) {
	vf_driver d = {"C05", run};
	return vf_main(argc, argv, &d);
}
