/* C18 - publications file: strict structure, exact signed range, trust only via PKI, lookups */
#include <unistd.h>
#include "ku.h"
#include "ref/ref_pki.h"
#include <ksi/publicationsfile.h>
#include <ksi/pkitruststore.h>

#define EMAIL "publications@verif.test"
#define CN    "Verif Publications"
static rk_cert signer_good, signer_rogue, signer_other_email, cert_a, cert_b;

static void pki_setup(void) {
	static int done;
	if (done) return;
	done = 1;
	rk_init();
	rk_issue(&signer_good, 0, EMAIL, CN, 1500000000, 1900000000);
	rk_issue(&signer_rogue, 1, EMAIL, CN, 1500000000, 1900000000);
	rk_issue(&signer_other_email, 0, "someone@else.test", CN, 1500000000, 1900000000);
	rk_issue(&cert_a, 0, "a@verif.test", "cert a", 1500000000, 1600000000);
	rk_issue(&cert_b, 0, "b@verif.test", "cert b", 1600000001, 1700000000);
}

static KSI_CTX *trusting_ctx(int anchor /*0 good CA, 1 rogue CA only, 2 none*/, int constraints /*0 none,1 email ok,2 email bad,3 email ok+cn ok,4 email ok+cn bad*/) {
	KSI_CTX *ctx = ku_ctx();
	KSI_PKITruststore *pki = NULL;
	static KSI_CertConstraint c[3];
	if (KSI_PKITruststore_new(ctx, 0, &pki) != KSI_OK) vf_harness_error("truststore");
	if (anchor == 0 && KSI_PKITruststore_addLookupFile(pki, rk_ca_file(0)) != KSI_OK) vf_harness_error("addLookupFile");
	if (anchor == 1 && KSI_PKITruststore_addLookupFile(pki, rk_ca_file(1)) != KSI_OK) vf_harness_error("addLookupFile");
	if (KSI_CTX_setPKITruststore(ctx, pki) != KSI_OK) vf_harness_error("setPKITruststore");
	memset(c, 0, sizeof c);
	switch (constraints) {
		case 1: c[0].oid = KSI_CERT_EMAIL; c[0].val = EMAIL; break;
		case 2: c[0].oid = KSI_CERT_EMAIL; c[0].val = "publications@verif.tesT"; break;
		case 3: c[0].oid = KSI_CERT_EMAIL; c[0].val = EMAIL; c[1].oid = KSI_CERT_COMMON_NAME; c[1].val = CN; break;
		case 4: c[0].oid = KSI_CERT_EMAIL; c[0].val = EMAIL; c[1].oid = KSI_CERT_COMMON_NAME; c[1].val = "Verif Publication"; break;
		/* 7 / 8: a constraint on an attribute the signer's subject does not carry (organizational unit) - after a matching constraint
		 * that expects the very same string, and alone; 9: a second matching constraint on the organization */
		case 7: c[0].oid = KSI_CERT_EMAIL; c[0].val = EMAIL; c[1].oid = "2.5.4.11"; c[1].val = EMAIL; break;
		case 8: c[0].oid = "2.5.4.11"; c[0].val = "Verif Test"; break;
		case 9: c[0].oid = KSI_CERT_EMAIL; c[0].val = EMAIL; c[1].oid = KSI_CERT_ORGANIZATION; c[1].val = "Verif Test"; break;
		default: break;
	}
	if (constraints == 5 || constraints == 6) {
		/* 5 / 6: the right / a wrong e-mail address given through the older setter */
		if (KSI_CTX_setPublicationCertEmail(ctx, constraints == 5 ? EMAIL : "publications@verif.tesT") != KSI_OK) vf_harness_error("setPublicationCertEmail");
		return ctx;
	}
	if (KSI_CTX_setDefaultPubFileCertConstraints(ctx, c) != KSI_OK) vf_harness_error("setDefaultPubFileCertConstraints");
	return ctx;
}

/* ------------------------------------------------------------------ (a) structure */
/* record alphabet: H header, C certificate, P publication, S signature (over everything before it),
 * X unknown critical record, N unknown non-critical record */
static const char ALPHA[] = "HCPSXN";

static size_t g_nsize = 2;     /* payload size of the unknown non-critical record 'N' */
static void build_file(const char *seq, int magic_variant, int trailing, vbuf *out, size_t *sig_off, int *nsig) {
	rpubfile f;
	const char *p;
	int pubno = 0;
	memset(&f, 0, sizeof f);
	f.version = 2; f.created = 1600000000;
	*nsig = 0; *sig_off = 0;
	if (magic_variant == 0) vb_put(out, "KSIPUBLF", 8);
	else if (magic_variant == 1) vb_put(out, "KSIPUBLG", 8);
	else vb_put(out, "KSIPUB", 6);
	for (p = seq; *p; p++) {
		unsigned char h[RH_MAX_IMPRINT];
		size_t hl;
		switch (*p) {
			case 'H': rpf_header(&f, out); break;
			case 'C': rpf_cert_record(pubno & 1 ? &cert_b : &cert_a, out); break;
			case 'P': hl = ref_fake_imprint(RH_SHA256, (unsigned)(50 + pubno), h); rpf_pub_record(1600000000ULL + (uint64_t)pubno * 86400, h, hl, out); pubno++; break;
			case 'S': if ((*nsig)++ == 0) *sig_off = out->n; rpf_sig_record(&signer_good, out->p, out->n, out); break;
			case 'X': rtlv_put(out, 0x0705, 0, 0, "\x01\x02", 2, 0); break;
			case 'N':
				if (g_nsize <= 2) rtlv_put(out, 0x0705, 1, 0, "\x01\x02", 2, 0);
				else { unsigned char *big = (unsigned char *)calloc(1, g_nsize); size_t q; for (q = 0; q < g_nsize; q++) big[q] = (unsigned char)(q * 13 + 5); rtlv_put(out, 0x0705, 1, 0, big, g_nsize, 1); free(big); }
				break;
		}
	}
	if (trailing == 1) vb_put(out, "\x00", 1);
	if (trailing == 2) rtlv_put(out, 0x0703, 0, 0, "", 0, 0);
	if (trailing == 3) rtlv_put(out, 0x0705, 1, 0, "\x01\x02", 2, 0);
	if (trailing == 4) rtlv_put(out, 0x1d, 1, 0, "\x01", 1, 0);
}

/* reference structure rule: 1 accept, 0 reject, -1 the statement is silent */
static int ref_structure(const char *seq, int magic_variant, int trailing) {
	const char *p = seq;
	int silent = 0;
	if (magic_variant != 0 || trailing != 0) return 0;
	if (strchr(seq, 'X')) return 0;
	/* unknown non-critical records: the statement neither lists them as allowed content nor as a reason to refuse */
	if (strchr(seq, 'N')) silent = 1;
	while (*p == 'N') p++;
	if (*p != 'H') return 0;
	p++;
	while (*p == 'C' || *p == 'N') p++;
	while (*p == 'P' || *p == 'N') p++;
	if (*p != 'S') return 0;
	p++;
	if (*p) return 0;                /* the signature record is the final record: nothing, known or unknown, may follow it */
	return silent ? -1 : 1;
}

static void part_structure(void) {
	int maxlen = VF_THOROUGH ? 6 : 5, len;
	KSI_CTX *ctx = NULL;
	for (len = 0; len <= maxlen; len++) {
		long total = 1, idx;
		int i;
		for (i = 0; i < len; i++) total *= 6;
		for (idx = 0; idx < total; idx++) {
			char seq[8];
			long x = idx;
			int variant;
			for (i = 0; i < len; i++) { seq[i] = ALPHA[x % 6]; x /= 6; }
			seq[len] = 0;
			for (variant = 0; variant < 7; variant++) {
				/* variants: 0 plain, 1 wrong magic, 2 truncated magic, 3 trailing byte, 4 trailing empty publication record, 5/6 trailing unknown non-critical record (TLV16 / TLV8) */
				int magic = variant == 1 ? 1 : variant == 2 ? 2 : 0, trailing = variant == 3 ? 1 : variant == 4 ? 2 : variant == 5 ? 3 : variant == 6 ? 4 : 0;
				vbuf b;
				size_t sig_off = 0, sdl = 0;
				int nsig = 0, exp, res;
				KSI_PublicationsFile *pf = NULL;
				unsigned char *ex;
				if (variant > 0 && ref_structure(seq, 0, 0) == 0) continue;   /* variants only of otherwise acceptable files */
				if (!vf_case_begin("struct:%s:v%d", len ? seq : "-", variant)) continue;
				pki_setup();
				if (!ctx) ctx = ku_ctx();
				vb_init(&b);
				build_file(seq, magic, trailing, &b, &sig_off, &nsig);
				exp = ref_structure(seq, magic, trailing);
				ex = ku_exact(b.p, b.n);
				res = KSI_PublicationsFile_parse(ctx, ex, b.n, &pf);
				vf_count("impl_calls", 1);
				vf_outcome("struct:%s:%s", exp == 1 ? "valid" : exp == 0 ? "invalid" : "silent", res == KSI_OK ? "accepted" : "refused");
				if (exp == 1 && res != KSI_OK) vf_fail("valid-file-refused", "record sequence %s refused: 0x%x", seq, res);
				if (exp == 0 && res == KSI_OK) vf_fail("invalid-file-accepted", "record sequence '%s' (variant %d) accepted", seq, variant);
				if (res == KSI_OK && exp != 0) {
					if (KSI_PublicationsFile_getSignedDataLength(pf, &sdl) != KSI_OK || sdl != sig_off)
						vf_fail("signed-range", "sequence %s: signed data length %zu, signature record starts at %zu", seq, sdl, sig_off);
				}
				if (res == KSI_OK && exp != 0) {
					/* re-serializing the object keeps the reported range exact: it is everything before the signature record of the bytes
					 * the object now stands for (unknown non-critical records are dropped by the rebuild) */
					char *out = NULL;
					size_t on = 0, off = 8, sdl2 = 0;
					int sr = KSI_PublicationsFile_serialize(ctx, pf, &out, &on);
					vf_count("impl_calls", 1);
					if (sr != KSI_OK || out == NULL) vf_fail("serialize-refused", "sequence %s: an accepted file cannot be serialized: 0x%x", seq, sr);
					else {
						rtlv t;
						int found = 0;
						while (off < on && rtlv_read((const unsigned char *)out + off, on - off, &t) == 0) { if (t.tag == 0x704) { found = 1; break; } off += t.hdr + t.len; }
						if (!found) vf_fail("serialized-without-signature", "sequence %s: the serialized file has no signature record", seq);
						else if (KSI_PublicationsFile_getSignedDataLength(pf, &sdl2) != KSI_OK || sdl2 != off)
							vf_fail("signed-range", "sequence %s (variant %d): after KSI_PublicationsFile_serialize the signed data length is reported as %zu, the signature record of the serialized file starts at %zu", seq, variant, sdl2, off);
						if (variant == 0 && strchr(seq, 'N') == NULL && (on != b.n || memcmp(out, b.p, on) != 0)) vf_fail("serialize-differs", "sequence %s: the canonical file re-serializes to other bytes (%zu vs %zu)", seq, on, b.n);
						vf_outcome("struct:serialized");
					}
					KSI_free(out);
					/* the object changed in place (its last publication record taken out of the list the getter hands out) and serialized
					 * again: the signed range is everything before the signature record of the bytes the object stands for NOW */
					if (sr == KSI_OK) {
						KSI_LIST(KSI_PublicationRecord) *pl = NULL;
						if (KSI_PublicationsFile_getPublications(pf, &pl) == KSI_OK && pl != NULL && KSI_PublicationRecordList_length(pl) > 0) {
							KSI_PublicationRecord *gone = NULL;
							char *o2 = NULL;
							size_t n2 = 0, off2 = 8, sdl3 = 0;
							if (KSI_PublicationRecordList_remove(pl, KSI_PublicationRecordList_length(pl) - 1, &gone) == KSI_OK) {
								KSI_PublicationRecord_free(gone);
								if (KSI_PublicationsFile_serialize(ctx, pf, &o2, &n2) == KSI_OK && o2 != NULL) {
									rtlv t2;
									int f2 = 0;
									while (off2 < n2 && rtlv_read((const unsigned char *)o2 + off2, n2 - off2, &t2) == 0) { if (t2.tag == 0x704) { f2 = 1; break; } off2 += t2.hdr + t2.len; }
									if (f2 && (KSI_PublicationsFile_getSignedDataLength(pf, &sdl3) != KSI_OK || sdl3 != off2))
										vf_fail("signed-range", "sequence %s: after a publication record was removed in place and the file serialized again, the signed data length is reported as %zu, the signature record of the new bytes starts at %zu", seq, sdl3, off2);
									vf_outcome("struct:serialized-after-in-place-change");
								}
								vf_count("impl_calls", 2);
								KSI_free(o2);
							}
						}
					}
				}
				vf_obs("res=%x sdl=%zu", res, sdl);
				KSI_PublicationsFile_free(pf);
				free(ex);
				vb_free(&b);
				vf_case_end(1);
			}
		}
	}
	/* record sizes at the top of what a 16-bit length can say: a record of 65531..65535 payload bytes (65535..65539 with its header) */
	{
		static const size_t SZ[] = {300, 65531, 65532, 65533, 65535};
		static const char *SEQS[] = {"HCPNS", "HNCPS", "HCNPS"};
		size_t zi, si;
		for (si = 0; si < 3; si++) for (zi = 0; zi < 5; zi++) {
			vbuf b;
			size_t sig_off = 0, sdl = 0;
			int nsig = 0, exp, res;
			KSI_PublicationsFile *pf = NULL;
			unsigned char *ex;
			if (!vf_case_begin("struct-big:%s:n%zu", SEQS[si], SZ[zi])) continue;
			pki_setup();
			if (!ctx) ctx = ku_ctx();
			vb_init(&b);
			g_nsize = SZ[zi];
			build_file(SEQS[si], 0, 0, &b, &sig_off, &nsig);
			g_nsize = 2;
			exp = ref_structure(SEQS[si], 0, 0);
			ex = ku_exact(b.p, b.n);
			res = KSI_PublicationsFile_parse(ctx, ex, b.n, &pf);
			vf_count("impl_calls", 1);
			vf_outcome("struct-big:%s:%s", exp == 1 ? "valid" : exp == 0 ? "invalid" : "silent", res == KSI_OK ? "accepted" : "refused");
			if (exp == 1 && res != KSI_OK) vf_fail("valid-file-refused", "record sequence %s with an unknown non-critical record of %zu payload bytes refused: 0x%x", SEQS[si], SZ[zi], res);
			if (exp == 0 && res == KSI_OK) vf_fail("invalid-file-accepted", "record sequence '%s' (big record) accepted", SEQS[si]);
			{
				/* whatever the parser makes of an unknown non-critical record at this place, it does not depend on how long the record is */
				static int base_res[3];
				vbuf b0;
				size_t so0 = 0; int ns0 = 0;
				KSI_PublicationsFile *pf0 = NULL;
				vb_init(&b0);
				g_nsize = 300; build_file(SEQS[si], 0, 0, &b0, &so0, &ns0); g_nsize = 2;
				base_res[si] = KSI_PublicationsFile_parse(ctx, b0.p, b0.n, &pf0);
				KSI_PublicationsFile_free(pf0);
				vb_free(&b0);
				if ((base_res[si] == KSI_OK) != (res == KSI_OK)) vf_fail("record-size-changes-acceptance", "record sequence %s: with an unknown non-critical record of 300 payload bytes the file is %s (0x%x), with %zu payload bytes %s (0x%x)", SEQS[si], base_res[si] == KSI_OK ? "accepted" : "refused", base_res[si], SZ[zi], res == KSI_OK ? "accepted" : "refused", res);
			}
			if (res == KSI_OK && exp != 0 && (KSI_PublicationsFile_getSignedDataLength(pf, &sdl) != KSI_OK || sdl != sig_off))
				vf_fail("signed-range", "sequence %s, record of %zu bytes: signed data length %zu, signature record starts at %zu", SEQS[si], SZ[zi], sdl, sig_off);
			if (res == KSI_OK && exp == 1) {
				int v = KSI_PublicationsFile_verify(pf, NULL);
				(void)v;
			}
			KSI_PublicationsFile_free(pf);
			free(ex);
			vb_free(&b);
			vf_case_end(1);
		}
	}
	if (ctx) KSI_CTX_free(ctx);
}

/* ------------------------------------------------------------------ (b) trust */
static void small_file(vbuf *out, const rk_cert *signer, size_t *signed_len, unsigned seed) {
	rpubfile f;
	memset(&f, 0, sizeof f);
	f.version = 2; f.created = 1600000000;
	f.npubs = 2;
	f.pub_time[0] = 1600000000; f.pub_hash_len[0] = ref_fake_imprint(RH_SHA256, seed, f.pub_hash[0]);
	f.pub_time[1] = 1602592000; f.pub_hash_len[1] = ref_fake_imprint(RH_SHA256, seed + 1, f.pub_hash[1]);
	rpf_serialize(&f, signer, out, signed_len);
}

static int parse_and_verify(KSI_CTX *ctx, const unsigned char *p, size_t n, int *parse_res) {
	KSI_PublicationsFile *pf = NULL;
	unsigned char *ex = ku_exact(p, n);
	int res = KSI_PublicationsFile_parse(ctx, ex, n, &pf), v = -1;
	*parse_res = res;
	if (res == KSI_OK) {
		int v2;
		v = KSI_PublicationsFile_verify(pf, ctx);
		v2 = KSI_verifyPublicationsFile(ctx, pf);
		vf_count("impl_calls", 3);
		if ((v == KSI_OK) != (v2 == KSI_OK)) vf_fail("verify-disagree", "KSI_PublicationsFile_verify=0x%x but KSI_verifyPublicationsFile=0x%x", v, v2);
		{
			/* serializing the object in between does not change what is verified */
			char *out = NULL;
			size_t on = 0;
			int v3;
			if (KSI_PublicationsFile_serialize(ctx, pf, &out, &on) == KSI_OK) {
				v3 = KSI_PublicationsFile_verify(pf, ctx);
				vf_count("impl_calls", 2);
				if (on == n && memcmp(out, p, n) == 0 && (v3 == KSI_OK) != (v == KSI_OK)) vf_fail("verify-after-serialize", "the verdict changed from 0x%x to 0x%x after KSI_PublicationsFile_serialize (same bytes)", v, v3);
			}
			KSI_free(out);
		}
	} else vf_count("impl_calls", 1);
	{
		/* the same bytes read from a file on disk are judged the same way */
		static char path[64];
		KSI_PublicationsFile *ff = NULL;
		FILE *f;
		int fr, fv;
		if (!path[0]) snprintf(path, sizeof path, "/tmp/vf_c18_%ld.bin", (long)getpid());
		f = fopen(path, "wb");
		if (f == NULL || fwrite(p, 1, n, f) != n) vf_harness_error("cannot write %s", path);
		fclose(f);
		fr = KSI_PublicationsFile_fromFile(ctx, path, &ff);
		vf_count("impl_calls", 1);
		if ((fr == KSI_OK) != (res == KSI_OK)) vf_fail("from-file-differs", "KSI_PublicationsFile_parse gives 0x%x, KSI_PublicationsFile_fromFile on the same %zu bytes 0x%x", res, n, fr);
		else if (fr == KSI_OK) {
			fv = KSI_PublicationsFile_verify(ff, ctx);
			vf_count("impl_calls", 1);
			if ((fv == KSI_OK) != (v == KSI_OK)) vf_fail("from-file-differs", "verification of the parsed bytes gives 0x%x, of the same bytes read with KSI_PublicationsFile_fromFile 0x%x", v, fv);
		}
		KSI_PublicationsFile_free(ff);
		remove(path);
	}
	KSI_PublicationsFile_free(pf);
	free(ex);
	return v;
}

/* the file object was parsed under another context (which trusts the good CA and accepts the good e-mail address): the
 * context given to the verification call decides */
static int verify_cross(KSI_CTX *vctx, const unsigned char *p, size_t n) {
	KSI_CTX *pctx = trusting_ctx(0, 1);
	KSI_PublicationsFile *pf = NULL;
	unsigned char *ex = ku_exact(p, n);
	int v = -1, v2;
	if (KSI_PublicationsFile_parse(pctx, ex, n, &pf) == KSI_OK) {
		v = KSI_PublicationsFile_verify(pf, vctx);
		v2 = KSI_verifyPublicationsFile(vctx, pf);
		vf_count("impl_calls", 3);
		if ((v == KSI_OK) != (v2 == KSI_OK)) vf_fail("verify-disagree", "cross-context: KSI_PublicationsFile_verify=0x%x but KSI_verifyPublicationsFile=0x%x", v, v2);
	}
	KSI_PublicationsFile_free(pf);
	free(ex);
	KSI_CTX_free(pctx);
	return v;
}

/* constraints set on the file object itself take the place of the context's defaults: kind 0 an empty list (then none is
 * configured: at least one is required), 1 the right e-mail address, 2 a wrong one */
static int verify_file_constraints(KSI_CTX *ctx, const unsigned char *p, size_t n, int kind) {
	KSI_PublicationsFile *pf = NULL;
	KSI_CertConstraint c[2];
	unsigned char *ex = ku_exact(p, n);
	int v = -1, v2;
	memset(c, 0, sizeof c);
	if (kind == 1) { c[0].oid = KSI_CERT_EMAIL; c[0].val = EMAIL; }
	if (kind == 2) { c[0].oid = KSI_CERT_EMAIL; c[0].val = "publications@verif.tesT"; }
	if (KSI_PublicationsFile_parse(ctx, ex, n, &pf) == KSI_OK) {
		if (KSI_PublicationsFile_setCertConstraints(pf, c) != KSI_OK) vf_harness_error("KSI_PublicationsFile_setCertConstraints");
		{
			/* the object reports the list it was given */
			KSI_CertConstraint *gc = NULL;
			if (KSI_PublicationsFile_getCertConstraints(pf, &gc) != KSI_OK || gc == NULL || (kind == 0 ? gc[0].oid != NULL : (gc[0].oid == NULL || strcmp(gc[0].oid, c[0].oid) != 0 || gc[0].val == NULL || strcmp(gc[0].val, c[0].val) != 0 || gc[1].oid != NULL)))
				vf_fail("file-constraints-not-reported", "KSI_PublicationsFile_getCertConstraints does not report the %s list set on the file object", kind == 0 ? "empty" : "one-entry");
		}
		v = KSI_PublicationsFile_verify(pf, ctx);
		v2 = KSI_verifyPublicationsFile(ctx, pf);
		vf_count("impl_calls", 4);
		if ((v == KSI_OK) != (v2 == KSI_OK)) vf_fail("verify-disagree", "file-level constraints: KSI_PublicationsFile_verify=0x%x but KSI_verifyPublicationsFile=0x%x", v, v2);
		if (kind != 0) {
			/* an update that is refused (an entry without a value) leaves the constraints as they were */
			KSI_CertConstraint bad[3];
			int r, v3;
			memset(bad, 0, sizeof bad);
			bad[0].oid = KSI_CERT_EMAIL; bad[0].val = EMAIL; bad[1].oid = KSI_CERT_COMMON_NAME; bad[1].val = NULL;
			bad[1].oid = KSI_CERT_COMMON_NAME;
			r = KSI_PublicationsFile_setCertConstraints(pf, bad);
			v3 = KSI_PublicationsFile_verify(pf, ctx);
			vf_count("impl_calls", 2);
			if (r == KSI_OK) vf_outcome("constraints:entry-without-value:accepted");
			else {
				vf_outcome("constraints:entry-without-value:refused");
				if ((v3 == KSI_OK) != (v == KSI_OK)) vf_fail("refused-update-changed-constraints", "the refused KSI_PublicationsFile_setCertConstraints call (0x%x) changed the outcome of verification from 0x%x to 0x%x", r, v, v3);
			}
		}
	}
	KSI_PublicationsFile_free(pf);
	free(ex);
	return v;
}

static void part_trust(void) {
	int anchor, cons, signer;
	/* matrix: signer x anchor x constraint set */
	for (signer = 0; signer < 3; signer++) for (anchor = 0; anchor < 3; anchor++) for (cons = 0; cons < 10; cons++) {
		KSI_CTX *ctx;
		vbuf b;
		size_t sl;
		int pres, v, expect;
		if (!vf_case_begin("trust:signer%d:anchor%d:cons%d", signer, anchor, cons)) continue;
		pki_setup();
		ctx = trusting_ctx(anchor, cons);
		vb_init(&b);
		small_file(&b, signer == 0 ? &signer_good : signer == 1 ? &signer_rogue : &signer_other_email, &sl, 70);
		v = parse_and_verify(ctx, b.p, b.n, &pres);
		/* trusted iff the signer chains to the configured anchor and every configured constraint (at least one) matches */
		expect = (anchor == 0 && signer != 1) || (anchor == 1 && signer == 1);
		if (cons == 0 || cons == 2 || cons == 4 || cons == 6 || cons == 7 || cons == 8) expect = 0;
		if (signer == 2) expect = 0;                          /* other e-mail address */
		vf_outcome("trust:%s:%s", expect ? "trusted-expected" : "untrusted-expected", v == KSI_OK ? "trusted" : "refused");
		if (pres != KSI_OK) vf_fail("valid-file-refused", "signed file refused by the parser 0x%x", pres);
		else if (expect && v != KSI_OK) vf_fail("trusted-file-refused", "signer %d anchor %d constraints %d: verification failed 0x%x", signer, anchor, cons, v);
		else if (!expect && v == KSI_OK) vf_fail("untrusted-file-trusted", "signer %d anchor %d constraints %d: file reported trusted", signer, anchor, cons);
		vf_obs("v=%x", v);
		if (pres == KSI_OK) {
			int vx = verify_cross(ctx, b.p, b.n);
			vf_outcome("trust-cross:%s:%s", expect ? "trusted-expected" : "untrusted-expected", vx == KSI_OK ? "trusted" : "refused");
			if (expect && vx != KSI_OK) vf_fail("trusted-file-refused", "signer %d anchor %d constraints %d, file parsed under another context: verification failed 0x%x", signer, anchor, cons, vx);
			else if (!expect && vx == KSI_OK) vf_fail("untrusted-file-trusted", "signer %d anchor %d constraints %d: file parsed under another (trusting) context reported trusted by this one", signer, anchor, cons);
			vf_obs("vx=%x", vx);
		}
		if (pres == KSI_OK) {
			int kind;
			for (kind = 0; kind < 3; kind++) {
				int chain_ok = (anchor == 0 && signer != 1) || (anchor == 1 && signer == 1);
				int expf = kind == 1 && chain_ok && signer != 2;
				int vf_ = verify_file_constraints(ctx, b.p, b.n, kind);
				vf_outcome("trust-file-constraints:%s:%s:%s", kind == 0 ? "empty" : kind == 1 ? "good" : "bad", expf ? "trusted-expected" : "untrusted-expected", vf_ == KSI_OK ? "trusted" : "refused");
				if (expf && vf_ != KSI_OK) vf_fail("trusted-file-refused", "signer %d anchor %d, constraints on the file object (kind %d, context set %d): verification failed 0x%x", signer, anchor, kind, cons, vf_);
				else if (!expf && vf_ == KSI_OK) vf_fail("untrusted-file-trusted", "signer %d anchor %d: file reported trusted with %s constraint list set on the file object (context set %d)", signer, anchor, kind == 0 ? "an EMPTY" : "a non-matching", cons);
				vf_obs("vf%d=%x", kind, vf_);
			}
		}
		vb_free(&b);
		KSI_CTX_free(ctx);
		vf_case_end(1);
	}
	/* signature swapped with another file's */
	if (vf_case_begin("trust:swapped-signature")) {
		KSI_CTX *ctx;
		vbuf a, b, c;
		size_t sa, sb;
		int pres, v;
		pki_setup();
		ctx = trusting_ctx(0, 1);
		vb_init(&a); vb_init(&b); vb_init(&c);
		small_file(&a, &signer_good, &sa, 70);
		small_file(&b, &signer_good, &sb, 90);
		vb_put(&c, a.p, sa);
		vb_put(&c, b.p + sb, b.n - sb);
		v = parse_and_verify(ctx, c.p, c.n, &pres);
		if (pres == KSI_OK && v == KSI_OK) vf_fail("untrusted-file-trusted", "file carrying another file's signature reported trusted");
		vf_outcome("trust:swapped:%s", v == KSI_OK ? "trusted" : "refused");
		vb_free(&a); vb_free(&b); vb_free(&c);
		KSI_CTX_free(ctx);
		vf_case_end(1);
	}
}

/* every single-bit change of a small signed file */
static void part_flips(void) {
	vbuf b;
	size_t sl = 0, chunk = 64, off, nbytes;
	int made = 0;
	KSI_CTX *ctx = NULL;
	vb_init(&b);
	/* the file content must be identical in every process: sign lazily only inside a case. The file
	 * length is needed for the enumeration, so build it once up front (PKCS#7 length is deterministic
	 * for a fixed key size and certificate; the signature bytes themselves are not). */
	pki_setup();
	small_file(&b, &signer_good, &sl, 70);
	made = 1;
	nbytes = b.n;
	for (off = 0; off < nbytes; off += chunk) {
		size_t i;
		int bit;
		long still_trusted = 0, refused = 0, equivalent = 0;
		if (!vf_case_begin("flip:bytes%zu-%zu", off, off + chunk - 1)) continue;
		if (!ctx) ctx = trusting_ctx(0, 1);
		{
			int pres, v = parse_and_verify(ctx, b.p, b.n, &pres);
			if (pres != KSI_OK || v != KSI_OK) vf_fail("trusted-file-refused", "unmodified file not trusted: parse 0x%x verify 0x%x", pres, v);
		}
		for (i = off; i < off + chunk && i < nbytes; i++) {
			for (bit = 0; bit < 8; bit++) {
				int pres, v;
				if (!VF_THOROUGH && bit != (int)(i % 8) && bit != 7) continue;
				b.p[i] ^= (unsigned char)(1u << bit);
				v = parse_and_verify(ctx, b.p, b.n, &pres);
				b.p[i] ^= (unsigned char)(1u << bit);
				if (pres == KSI_OK && v == KSI_OK) {
					/* a change inside the signed range must always be fatal. A change inside the signature record is
					 * fatal unless the record is, by plain OpenSSL, still a valid PKCS#7 signature of the same data
					 * by a signer chaining to the anchor with the required e-mail (PKCS#7 framing fields that are not
					 * cryptographically bound, e.g. the declared version): that is no change of "the signature" */
					int still_valid = 0;
					if (i >= sl) {
						rtlv t;
						b.p[i] ^= (unsigned char)(1u << bit);
						if (rtlv_read(b.p + sl, b.n - sl, &t) == 0 && t.tag == 0x0704 && t.hdr + t.len == b.n - sl)
							still_valid = rk_pkcs7_verify(b.p, sl, t.val, t.len, 0, EMAIL);
						b.p[i] ^= (unsigned char)(1u << bit);
					}
					if (still_valid) { equivalent++; }
					else {
						still_trusted++;
						vf_fail(i < sl ? "signed-byte-change-trusted" : "signature-change-trusted", "bit %d of byte %zu (%s) flipped: file still reported trusted", bit, i, i < sl ? "signed range" : "signature record");
					}
				} else refused++;
			}
		}
		vf_outcome("flip:%s", still_trusted ? "STILL-TRUSTED" : "refused");
		vf_count("flips_refused", refused);
		vf_count("flips_in_unbound_pkcs7_framing_still_valid", equivalent);
		vf_case_end(1);
	}
	(void)made;
	if (ctx) KSI_CTX_free(ctx);
	vb_free(&b);
}

/* ------------------------------------------------------------------ (c) lookups */
/* the result variable of a lookup is handed in holding a stale non-NULL value (a variable reused across a series of queries): "nothing
 * found" must come back as NULL, not as whatever the variable held */
static char stale_obj[64];
#define STALE ((KSI_PublicationRecord *)(void *)stale_obj)
#define FOUND(r) ((r) != NULL && (r) != STALE)
static void part_lookup(void) {
	int maxlen = VF_THOROUGH ? 4 : 3, len;
	KSI_CTX *ctx = NULL;
	for (len = 0; len <= maxlen; len++) {
		long total = 1, idx;
		int i;
		for (i = 0; i < len; i++) total *= 5;
		for (idx = 0; idx < total; idx++) {
			rpubfile f;
			vbuf b;
			KSI_PublicationsFile *pf = NULL;
			long x = idx;
			int q;
			char name[16];
			for (i = 0; i < len; i++) { name[i] = (char)('1' + x % 5); x /= 5; }
			name[len] = 0;
			if (!vf_case_begin("lookup:%s", len ? name : "-")) continue;
			pki_setup();
			if (!ctx) ctx = ku_ctx();
			memset(&f, 0, sizeof f);
			f.version = 2; f.created = 1600000000; f.npubs = len;
			f.ncerts = 2; f.certs[0] = &cert_a; f.certs[1] = &cert_b;
			for (i = 0; i < len; i++) { f.pub_time[i] = (uint64_t)(name[i] - '0'); f.pub_hash_len[i] = ref_fake_imprint(RH_SHA256, (unsigned)(i + 1), f.pub_hash[i]); }
			vb_init(&b);
			rpf_serialize(&f, &signer_good, &b, NULL);
			if (KSI_PublicationsFile_parse(ctx, b.p, b.n, &pf) != KSI_OK) { vf_fail("valid-file-refused", "lookup file refused"); vb_free(&b); vf_case_end(1); continue; }
			for (q = -1; q <= 6; q++) {
				KSI_Integer *qi = NULL;
				KSI_PublicationRecord *r = STALE;
				int res, have, k;
				uint64_t best;
				if (q >= 0) KSI_Integer_new(ctx, (uint64_t)q, &qi);
				/* exact time */
				if (q >= 0) {
					res = KSI_PublicationsFile_getPublicationDataByTime(pf, qi, &r);
					vf_count("impl_calls", 1);
					have = 0; for (k = 0; k < len; k++) if (f.pub_time[k] == (uint64_t)q) have = 1;
					if (res != KSI_OK || FOUND(r) != have) vf_fail("lookup-by-time", "times %s query %d: res 0x%x found=%d expected=%d", name, q, res, FOUND(r), have);
					else if (FOUND(r)) { KSI_PublicationData *pd = NULL; KSI_Integer *t = NULL; KSI_PublicationRecord_getPublishedData(r, &pd); KSI_PublicationData_getTime(pd, &t); if (KSI_Integer_getUInt64(t) != (uint64_t)q) vf_fail("lookup-by-time", "times %s query %d returned time %llu", name, q, (unsigned long long)KSI_Integer_getUInt64(t)); }
					if (r == STALE) vf_fail("lookup-stale-result", "times %s query %d: KSI_PublicationsFile_getPublicationDataByTime left the caller's stale value in the result variable", name, q);
					r = NULL;       /* this (undocumented) function writes the result variable only when it finds a record: the caller clears it */
					res = KSI_PublicationsFile_findPublicationByTime(pf, qi, &r);
					vf_count("impl_calls", 1);
					if (res != KSI_OK || FOUND(r) != have) vf_fail("find-by-time", "times %s query %d: res 0x%x found=%d expected=%d", name, q, res, FOUND(r), have);
					if (r == STALE) { vf_fail("lookup-stale-result", "times %s query %d: KSI_PublicationsFile_findPublicationByTime left the caller's stale value in the result variable", name, q); r = NULL; }
					KSI_PublicationRecord_free(r); r = STALE;
					/* earliest publication not before q */
					res = KSI_PublicationsFile_getNearestPublication(pf, qi, &r);
					vf_count("impl_calls", 1);
					have = 0; best = 0; for (k = 0; k < len; k++) if (f.pub_time[k] >= (uint64_t)q && (!have || f.pub_time[k] < best)) { have = 1; best = f.pub_time[k]; }
					if (res != KSI_OK || FOUND(r) != have) vf_fail("lookup-nearest", "times %s query %d: res 0x%x found=%d expected=%d", name, q, res, FOUND(r), have);
					else if (FOUND(r)) { KSI_PublicationData *pd = NULL; KSI_Integer *t = NULL; KSI_PublicationRecord_getPublishedData(r, &pd); KSI_PublicationData_getTime(pd, &t); if (KSI_Integer_getUInt64(t) != best) vf_fail("lookup-nearest", "times %s query %d returned time %llu, expected %llu", name, q, (unsigned long long)KSI_Integer_getUInt64(t), (unsigned long long)best); }
					if (r == STALE) { vf_fail("lookup-stale-result", "times %s query %d: KSI_PublicationsFile_getNearestPublication left the caller's stale value in the result variable", name, q); r = NULL; }
					KSI_PublicationRecord_free(r); r = STALE;
				}
				/* latest publication (not before q when given) */
				res = KSI_PublicationsFile_getLatestPublication(pf, qi, &r);
				vf_count("impl_calls", 1);
				have = 0; best = 0; for (k = 0; k < len; k++) if ((q < 0 || f.pub_time[k] >= (uint64_t)q) && (!have || f.pub_time[k] > best)) { have = 1; best = f.pub_time[k]; }
				if (res != KSI_OK || FOUND(r) != have) vf_fail("lookup-latest", "times %s query %d: res 0x%x found=%d expected=%d", name, q, res, FOUND(r), have);
				else if (FOUND(r)) { KSI_PublicationData *pd = NULL; KSI_Integer *t = NULL; KSI_PublicationRecord_getPublishedData(r, &pd); KSI_PublicationData_getTime(pd, &t); if (KSI_Integer_getUInt64(t) != best) vf_fail("lookup-latest", "times %s query %d returned time %llu, expected %llu", name, q, (unsigned long long)KSI_Integer_getUInt64(t), (unsigned long long)best); }
				if (r == STALE) vf_fail("lookup-stale-result", "times %s query %d: KSI_PublicationsFile_getLatestPublication left the caller's stale value in the result variable (nothing %s)", name, q, have ? "was returned although a publication qualifies" : "qualifies: NULL expected");
				vf_outcome("lookup:%s", have ? "found" : "absent");
				KSI_Integer_free(qi);
			}
			/* by publication string: a string for (time, imprint) finds the record only if both agree with it */
			for (q = 1; q <= 6; q++) for (i = 0; i < 2; i++) {
				unsigned char h[RH_MAX_IMPRINT];
				size_t hl = 0;
				char str[200];
				KSI_PublicationRecord *r = NULL;
				int res, k, nmatch = 0, first = -1;
				for (k = 0; k < len; k++) if (f.pub_time[k] == (uint64_t)q) { if (first < 0) first = k; nmatch++; }
				if (nmatch > 1) continue;                 /* several records with one time: which one is compared is not specified */
				if (i == 0 && first >= 0) { memcpy(h, f.pub_hash[first], f.pub_hash_len[first]); hl = f.pub_hash_len[first]; }
				else hl = ref_fake_imprint(RH_SHA256, 900u + (unsigned)q, h);
				ref_pubstring((uint64_t)q, h, hl, str, sizeof str);
				res = KSI_PublicationsFile_getPublicationDataByPublicationString(pf, str, &r);
				vf_count("impl_calls", 1);
				if (first < 0) { if (res != KSI_OK || r != NULL) vf_fail("lookup-by-string", "times %s: string for time %d (not in the file): res 0x%x found=%d", name, q, res, r != NULL); }
				else if (i == 0) {
					if (res != KSI_OK || r == NULL) vf_fail("lookup-by-string", "times %s: genuine string of the record with time %d: res 0x%x found=%d", name, q, res, r != NULL);
					else { KSI_PublicationData *pd = NULL; KSI_Integer *t = NULL; KSI_DataHash *dh = NULL; KSI_PublicationRecord_getPublishedData(r, &pd); KSI_PublicationData_getTime(pd, &t); KSI_PublicationData_getImprint(pd, &dh);
						if (KSI_Integer_getUInt64(t) != (uint64_t)q || !ku_hash_eq(dh, h, hl)) vf_fail("lookup-by-string", "times %s: string of the record with time %d returned another record", name, q); }
				} else if (res == KSI_OK && r != NULL) vf_fail("lookup-by-string", "times %s: a string with time %d but ANOTHER imprint was answered with the file's record", name, q);
				vf_outcome("lookup-by-string:%s", first < 0 ? "time-absent" : i == 0 ? "genuine" : "other-imprint");
			}
			/* by record: a query record (time, imprint) finds the file's record with that time AND that imprint, wherever it stands
			 * (also behind another record of the same time); a query with a file time and a foreign imprint finds nothing */
			for (q = 0; q < len + 6; q++) {
				unsigned char h[RH_MAX_IMPRINT];
				size_t hl;
				uint64_t qt;
				KSI_PublicationRecord *in = NULL, *r = NULL;
				KSI_PublicationData *pd = NULL;
				KSI_Integer *ti = NULL;
				KSI_DataHash *dh = NULL;
				int res, k, want = -1;
				if (q < len) { qt = f.pub_time[q]; memcpy(h, f.pub_hash[q], f.pub_hash_len[q]); hl = f.pub_hash_len[q]; }
				else { qt = (uint64_t)(q - len + 1); hl = ref_fake_imprint(RH_SHA256, 900u + (unsigned)q, h); }
				for (k = 0; k < len; k++) if (f.pub_time[k] == qt && f.pub_hash_len[k] == hl && memcmp(f.pub_hash[k], h, hl) == 0) { want = k; break; }
				if (KSI_PublicationRecord_new(ctx, &in) != KSI_OK || KSI_PublicationData_new(ctx, &pd) != KSI_OK || KSI_Integer_new(ctx, qt, &ti) != KSI_OK
						|| KSI_DataHash_fromImprint(ctx, h, hl, &dh) != KSI_OK) vf_harness_error("query record");
				KSI_PublicationData_setTime(pd, ti); KSI_PublicationData_setImprint(pd, dh); KSI_PublicationRecord_setPublishedData(in, pd);
				res = KSI_PublicationsFile_findPublication(pf, in, &r);
				vf_count("impl_calls", 1);
				if (res != KSI_OK || (r != NULL) != (want >= 0)) vf_fail("find-by-record", "times %s: query (time %llu, imprint of %s): res 0x%x found=%d expected=%d", name, (unsigned long long)qt, q < len ? "a record of the file" : "no record", res, r != NULL, want >= 0);
				else if (r != NULL) {
					KSI_PublicationData *od = NULL; KSI_Integer *ot = NULL; KSI_DataHash *oh = NULL;
					KSI_PublicationRecord_getPublishedData(r, &od); KSI_PublicationData_getTime(od, &ot); KSI_PublicationData_getImprint(od, &oh);
					if (KSI_Integer_getUInt64(ot) != qt || !ku_hash_eq(oh, h, hl)) vf_fail("find-by-record", "times %s: query (time %llu) answered with another record", name, (unsigned long long)qt);
				}
				vf_outcome("find-by-record:%s", want >= 0 ? (want < q && q < len ? "found-earlier-twin" : "found") : "absent");
				KSI_PublicationRecord_free(r);
				KSI_PublicationRecord_free(in);
			}
			/* certificate ids: present, absent, prefix, extended */
			{
				static const int LENS[] = {4, 4, 4, 3, 5};
				int v;
				for (v = 0; v < 5; v++) {
					unsigned char id[5];
					KSI_OctetString *os = NULL;
					KSI_PKICertificate *c = NULL;
					int res, expect;
					memcpy(id, v == 1 ? cert_b.id : cert_a.id, 4); id[4] = 0;
					if (v == 2) id[3] ^= 1;
					expect = v < 2;
					KSI_OctetString_new(ctx, id, (size_t)LENS[v], &os);
					res = KSI_PublicationsFile_getPKICertificateById(pf, os, &c);
					vf_count("impl_calls", 1);
					if (res != KSI_OK || (c != NULL) != expect) vf_fail("lookup-cert", "certificate id variant %d: res 0x%x found=%d expected=%d", v, res, c != NULL, expect);
					else if (c) {
						unsigned char *der = NULL; size_t dl = 0;
						const rk_cert *want = v == 1 ? &cert_b : &cert_a;
						if (KSI_PKICertificate_serialize(c, &der, &dl) != KSI_OK || dl != want->der_len || memcmp(der, want->der, dl) != 0) vf_fail("lookup-cert", "certificate id variant %d returned another certificate", v);
						KSI_free(der);
					}
					KSI_OctetString_free(os);
				}
			}
			KSI_PublicationsFile_free(pf);
			vb_free(&b);
			vf_case_end(1);
		}
	}
	if (ctx) KSI_CTX_free(ctx);
}

static void run(void) {
	part_structure();
	part_trust();
	part_flips();
	part_lookup();
}

int main(int argc, char **argv) {
	vf_driver d = {"C18", run};
	return vf_main(argc, argv, &d);
}
