/* C20 - service URIs: exact scheme dispatch; embedded credentials never reach the wire
 * (DESIGN.md section "### C20").
 *
 * Technique: exhaustive enumeration of a stated finite product of URI components x credential
 * arguments x services on the real compiled code; everything is observed at the transport seam
 * (fake libcurl, simulated resolver/sockets, interposed fopen); the oracle below is written from the
 * property statement only.
 *
 * Domain (kept strictly): scheme://[user:key@]host[:port][/path][?query][#fragment], decimal port
 * 1..65535. Where the statement is silent the oracle accepts any behaviour; those places are marked
 * "SILENT" below. */
#define _GNU_SOURCE
#include <unistd.h>
#include "ku.h"
#include "ref/ref.h"
#include "simnet.h"
#include <ksi/net.h>
#include <ksi/net_async.h>
#include <ksi/hmac.h>
#include <signal.h>
#include <setjmp.h>
#include <dlfcn.h>
#include <errno.h>
#include <strings.h>
#include <ctype.h>
#include <stdarg.h>

/* ------------------------------------------------------------------ the enumerated space */
enum { CL_HTTP = 0, CL_TCP, CL_FILE, CL_OTHER };
static const char *CLS_NAME[] = {"ksi-http", "ksi-tcp", "file", "other"};
static const struct { const char *base; int cls; const char *rewrite; int all_cases; } SCH[] = {
	{"ksi", CL_HTTP, "http", 1}, {"ksi+http", CL_HTTP, "http", 1}, {"ksi+https", CL_HTTP, "https", 1},
	{"ksi+tcp", CL_TCP, NULL, 1}, {"file", CL_FILE, NULL, 1},
	{"http", CL_OTHER, NULL, 1}, {"https", CL_OTHER, NULL, 1},
	/* unknown schemes: one spelling each */
	{"ftp", CL_OTHER, NULL, 0}, {"ksix", CL_OTHER, NULL, 0}, {"ksi+udp", CL_OTHER, NULL, 0}};
#define NSCH ((int)(sizeof SCH / sizeof *SCH))

#define LONG_USER "Login-Name_07.x~y-0123456789_ABCDEFGHIJ"
#define LONG_KEY "S3cr3t-._~Key~42_0123456789-abcdefXYZ"
static const char *UI_USER[] = {NULL, "u", LONG_USER, "usr3"};
static const char *UI_KEY[] = {NULL, "k", LONG_KEY, "se:cr:et:"};     /* index 3: the key itself contains ':' (legal in user-info; the first ':' separates) */
static const char *HOSTS[] = {"aggr.example.test", "192.0.2.7", "[2001:db8::7]", "[::ffff:192.0.2.9]"};       /* the last: IPv6 literal with an embedded dotted quad */
static const char *HOSTS_BARE[] = {"aggr.example.test", "192.0.2.7", "2001:db8::7", "::ffff:192.0.2.9"};
static const unsigned PORTS[] = {0, 1, 80, 65535};
static const char *PATHS[] = {NULL, "/", "/a/b.c", "/~a/b!$&'()*+,;=:@-._c"};     /* the last one (part odd-query only): every character class RFC 3986 allows in a path segment */
#define QUERY "x=1&y=b"
#define QUERY_QMARK "?x=1??y=b?"
#define QUERY_DELIMS "m=/a:b@c?d"
#define QUERY_MARKS "~t=!$&'()*+,;=-._~"
#define FRAG_ODD "~f/?:@!$&'()*+,;=-._"
#define FRAG "frag1"
#define EXPL_ID "expl-id.7"
#define EXPL_KEY "Expl_key~42"
enum { SV_BLOCK_AGGR = 0, SV_BLOCK_EXT, SV_ASYNC_SIGN, SV_ASYNC_EXT, NSV };
static const char *SV_NAME[] = {"blocking-aggregator", "blocking-extender", "async-signing", "async-extending"};
#define SV_IS_ASYNC(v) ((v) >= SV_ASYNC_SIGN)
#define SV_IS_EXT(v) ((v) == SV_BLOCK_EXT || (v) == SV_ASYNC_EXT)

typedef struct {
	int b, mask, u, h, p, a, q, f, x, v;
	char scheme[16];
	char tail[6400];   /* host[:port][path][?query][#fragment] exactly as composed */
	char uri[6700];
} ccase;

static int nletters(const char *s) { int n = 0; for (; *s; s++) if (isalpha((unsigned char)*s)) n++; return n; }
static void spell(const char *base, int mask, char *out) {
	int k = 0;
	for (; *base; base++) {
		if (isalpha((unsigned char)*base)) { *out++ = (char)(((mask >> k) & 1) ? toupper((unsigned char)*base) : *base); k++; }
		else *out++ = *base;
	}
	*out = 0;
}
static void compose(ccase *c) {
	int o = 0;
	spell(SCH[c->b].base, c->mask, c->scheme);
	o += snprintf(c->tail + o, sizeof c->tail - (size_t)o, "%s", HOSTS[c->h]);
	if (PORTS[c->p]) o += snprintf(c->tail + o, sizeof c->tail - (size_t)o, ":%u", PORTS[c->p]);
	if (PATHS[c->a]) o += snprintf(c->tail + o, sizeof c->tail - (size_t)o, "%s", PATHS[c->a]);
	if (c->q == 1) o += snprintf(c->tail + o, sizeof c->tail - (size_t)o, "?%s", QUERY);
	if (c->q == 2) {
		/* a query of 6000 characters: the composed URL is longer than 4 KiB */
		int k;
		o += snprintf(c->tail + o, sizeof c->tail - (size_t)o, "?q=");
		for (k = 0; k < 6000 && (size_t)o + 2 < sizeof c->tail; k++) c->tail[o++] = (char)('0' + k % 10);   /* digits only: no credential string can occur in it */
		c->tail[o] = 0;
	}
	/* queries made of the other characters RFC 3986 allows there: '?' (also as the first character), '/', ':' and '@' */
	if (c->q == 3) o += snprintf(c->tail + o, sizeof c->tail - (size_t)o, "?%s", QUERY_QMARK);
	if (c->q == 4) o += snprintf(c->tail + o, sizeof c->tail - (size_t)o, "?%s", QUERY_DELIMS);
	if (c->q == 5) o += snprintf(c->tail + o, sizeof c->tail - (size_t)o, "?%s", QUERY_MARKS);
	if (c->f) o += snprintf(c->tail + o, sizeof c->tail - (size_t)o, "#%s", c->q >= 3 ? FRAG_ODD : FRAG);
	if (c->u) snprintf(c->uri, sizeof c->uri, "%s://%s:%s@%s", c->scheme, UI_USER[c->u], UI_KEY[c->u], c->tail);
	else snprintf(c->uri, sizeof c->uri, "%s://%s", c->scheme, c->tail);
}
/* quick tier: factored product = (every spelling x one representative of the rest) + (canonical spelling x all the rest) */
static int selected(const ccase *c) {
	if (VF_THOROUGH) return 1;
	if (c->mask == 0) return 1;
	return c->u == 1 && c->h == 0 && c->p == 2 && c->a == 2 && c->q == 1 && c->f == 1;
}

/* ------------------------------------------------------------------ seam: fopen (file transport) */
static int g_armed;          /* 1 while a libksi call of a case is in progress */
static struct {
	const char *stage;       /* libksi API call in progress (crash signature) */
	const char *fail_stage;  /* first libksi API call that returned an error */
	int set_res, send_res, perf_res, set_done, send_done, perf_done;
	int n_http;
	char url[8192];
	vbuf body;
	int n_fopen;
	char fpath[600];
	int async_state, async_err;
	long impl_calls;
} O;

FILE *fopen(const char *path, const char *mode) {
	static FILE *(*real)(const char *, const char *);
	if (g_armed) {
		/* the file transport opens its "response" file: record, never touch the file system */
		if (O.n_fopen++ == 0) snprintf(O.fpath, sizeof O.fpath, "%s", path ? path : "(null)");
		errno = ENOENT;
		return NULL;
	}
	if (!real) real = (FILE *(*)(const char *, const char *))dlsym(RTLD_NEXT, "fopen");
	if (!real) { errno = ENOSYS; return NULL; }
	return real(path, mode);
}

/* ------------------------------------------------------------------ seam: hooks */
static void capture(fc_easy *e) {
	if (O.n_http++ == 0) {
		snprintf(O.url, sizeof O.url, "%s", e->url ? e->url : "(null)");
		vb_reset(&O.body);
		vb_putvb(&O.body, &e->sent);
	}
}
static int on_perform(fc_easy *e, vbuf *resp, long *http) { (void)resp; capture(e); *http = 0; return 7 /* CURLE_COULDNT_CONNECT */; }
static void on_submit(fc_easy *e) { capture(e); fc_complete(e, 7, 0, NULL, 0, 0); }
static void after_send(sn_conn *c) { sn_server_close(c); }  /* accept everything, then EOF */

/* ------------------------------------------------------------------ crash guard
 * A wild read (SIGSEGV/SIGBUS) inside a libksi call is turned into an ordinary violation of the
 * current case ("crash:SEGV:<api call>") so that a family of crashing URIs does not exhaust the
 * runner's per-shard crash budget. Sanitizer-detected errors (which abort) and every other signal
 * are still contained by the runner. When a single case is replayed the guard is off, so the
 * sanitizer prints its full report. */
static sigjmp_buf g_jb;
static volatile sig_atomic_t g_guard;
static struct sigaction g_old_segv, g_old_bus;
static void on_fault(int sig, siginfo_t *si, void *uc) {
	struct sigaction *old = sig == SIGSEGV ? &g_old_segv : &g_old_bus;
	if (g_guard) { g_guard = 0; siglongjmp(g_jb, sig); }
	if ((old->sa_flags & SA_SIGINFO) && old->sa_sigaction) { old->sa_sigaction(sig, si, uc); return; }
	signal(sig, SIG_DFL);
	raise(sig);
}
static void install_guard(void) {
	struct sigaction sa;
	if (vf_replaying()) return;
	memset(&sa, 0, sizeof sa);
	sa.sa_sigaction = on_fault;
	sa.sa_flags = SA_SIGINFO | SA_NODEFER;
	sigemptyset(&sa.sa_mask);
	sigaction(SIGSEGV, &sa, &g_old_segv);
	sigaction(SIGBUS, &sa, &g_old_bus);
}

/* ------------------------------------------------------------------ executing one case on the library */
#define CALL(field, name, expr) do { O.stage = name; O.impl_calls++; O.field##_res = (expr); O.field##_done = 1; if (O.field##_res != KSI_OK && !O.fail_stage) O.fail_stage = name; } while (0)

/* re-pointing: a service that was configured with another URI before; the final configuration must decide alone */
static int g_prior;
/* part "after-bad-first": the service is first offered a URI it refuses, then the URI under test */
static int g_bad_first;
static const char *BAD_FIRST[] = {NULL, "ksi+tcp://other.example.test", "ksi+tcp://other.example.test:0", "file:///verif-nonexistent/x.bin", "gopher://other.example.test/x", "ksi+tcp://", "ksi+tcp://other.example.test:70000"};
#define NBADFIRST 7
static int g_bad_first_refused;
static const char *PRIOR_URI[] = {NULL, "ksi+tcp://prior.example.test:3333", "file:///verif-nonexistent/prior.bin", "http://prior.example.test/p", "ksi://pu:pk@prior.example.test:81/q",
                                  /* the same host as the URI under test, another port (and path) */
                                  "ksi+tcp://aggr.example.test:4444", "ksi+http://aggr.example.test:4444/other"};
#define NPRIOR 7
#define NPRIOR_OTHERHOST 5

static void exec_service(const ccase *c) {
	KSI_CTX *ctx = NULL;
	KSI_DataHash *hsh = NULL;
	KSI_AggregationReq *areq = NULL;
	KSI_ExtendReq *ereq = NULL;
	KSI_RequestHandle *rh = NULL;
	KSI_AsyncService *as = NULL;
	KSI_AsyncHandle *ah = NULL, *out = NULL;
	KSI_Integer *t0 = NULL;
	/* x: 0 no explicit credentials, 1 both, 2 login id only, 3 key only */
	const char *xid = (c->x == 1 || c->x == 2) ? EXPL_ID : NULL, *xkey = (c->x == 1 || c->x == 3) ? EXPL_KEY : NULL;
	unsigned char imp[RH_MAX_IMPRINT];
	size_t il = ref_fake_imprint(RH_SHA256, 20, imp);
	int res, i;

	O.stage = "KSI_CTX_new";
	ctx = ku_ctx();
	if (KSI_DataHash_fromImprint(ctx, imp, il, &hsh) != KSI_OK) vf_harness_error("fromImprint");
	if (KSI_Integer_new(ctx, 1600000000, &t0) != KSI_OK) vf_harness_error("integer");
	g_armed = 1;
	switch (c->v) {
		case SV_BLOCK_AGGR:
			if (g_prior) KSI_CTX_setAggregator(ctx, PRIOR_URI[g_prior], "prior-user", "prior-key");
			CALL(set, "KSI_CTX_setAggregator", KSI_CTX_setAggregator(ctx, c->uri, xid, xkey));
			if (O.set_res != KSI_OK) break;
			if (KSI_createSignRequest(ctx, hsh, 0, &areq) != KSI_OK) vf_harness_error("createSignRequest");
			CALL(send, "KSI_sendSignRequest", KSI_sendSignRequest(ctx, areq, &rh));
			if (O.send_res != KSI_OK) break;
			CALL(perf, "KSI_RequestHandle_perform", KSI_RequestHandle_perform(rh));
			break;
		case SV_BLOCK_EXT:
			if (g_prior) KSI_CTX_setExtender(ctx, PRIOR_URI[g_prior], "prior-user", "prior-key");
			CALL(set, "KSI_CTX_setExtender", KSI_CTX_setExtender(ctx, c->uri, xid, xkey));
			if (O.set_res != KSI_OK) break;
			if (KSI_createExtendRequest(ctx, t0, NULL, &ereq) != KSI_OK) vf_harness_error("createExtendRequest");
			CALL(send, "KSI_sendExtendRequest", KSI_sendExtendRequest(ctx, ereq, &rh));
			if (O.send_res != KSI_OK) break;
			CALL(perf, "KSI_RequestHandle_perform", KSI_RequestHandle_perform(rh));
			break;
		case SV_ASYNC_SIGN:
		case SV_ASYNC_EXT:
			O.stage = c->v == SV_ASYNC_SIGN ? "KSI_SigningAsyncService_new" : "KSI_ExtendingAsyncService_new";
			res = c->v == SV_ASYNC_SIGN ? KSI_SigningAsyncService_new(ctx, &as) : KSI_ExtendingAsyncService_new(ctx, &as);
			if (res != KSI_OK) vf_harness_error("async service constructor failed 0x%x", res);
			if (g_prior) KSI_AsyncService_setEndpoint(as, PRIOR_URI[g_prior], "prior-user", "prior-key");
			if (g_bad_first) {
				g_bad_first_refused = KSI_AsyncService_setEndpoint(as, BAD_FIRST[g_bad_first], "u-first", "k-first") != KSI_OK;
				if (!g_bad_first_refused) break;       /* taken: the service has its endpoint, a second one is refused by design */
			}
			CALL(set, "KSI_AsyncService_setEndpoint", KSI_AsyncService_setEndpoint(as, c->uri, xid, xkey));
			if (O.set_res != KSI_OK) break;
			if (c->v == SV_ASYNC_SIGN) {
				if (KSI_createSignRequest(ctx, hsh, 0, &areq) != KSI_OK) vf_harness_error("createSignRequest");
				if (KSI_AsyncAggregationHandle_new(ctx, areq, &ah) != KSI_OK) vf_harness_error("AsyncAggregationHandle_new");
				areq = NULL; /* owned by the handle */
			} else {
				if (KSI_createExtendRequest(ctx, t0, NULL, &ereq) != KSI_OK) vf_harness_error("createExtendRequest");
				if (KSI_AsyncExtendHandle_new(ctx, ereq, &ah) != KSI_OK) vf_harness_error("AsyncExtendHandle_new");
				ereq = NULL;
			}
			CALL(send, "KSI_AsyncService_addRequest", KSI_AsyncService_addRequest(as, ah));
			if (O.send_res != KSI_OK) break;
			ah = NULL; /* owned by the service until it is handed back by run() */
			for (i = 0; i < 6 && out == NULL; i++) {
				CALL(perf, "KSI_AsyncService_run", KSI_AsyncService_run(as, &out, NULL));
				if (O.perf_res != KSI_OK) break;
			}
			if (out != NULL) {
				KSI_AsyncHandle_getState(out, &O.async_state);
				KSI_AsyncHandle_getError(out, &O.async_err);
			}
			break;
	}
	O.stage = "cleanup";
	KSI_AsyncHandle_free(out);
	KSI_AsyncHandle_free(ah);
	KSI_RequestHandle_free(rh);
	KSI_AggregationReq_free(areq);
	KSI_ExtendReq_free(ereq);
	KSI_AsyncService_free(as);
	KSI_Integer_free(t0);
	KSI_DataHash_free(hsh);
	KSI_CTX_free(ctx);
	g_armed = 0;
}

static void reset_seam(void) {
	sn_reset();
	fc_reset();
	fc.on_perform = on_perform;
	fc.on_submit = on_submit;
	sn.after_send = after_send;
	vb_reset(&O.body);
	{ vbuf keep = O.body; memset(&O, 0, sizeof O); O.body = keep; }
	O.stage = "-";
	g_armed = 0;
}

/* ------------------------------------------------------------------ violation reporting with a per-signature budget
 * The runner reads the shards' stdout pipes one after the other, so a shard that prints more than a
 * pipe buffer (64 KiB) stalls until it is read (and its case timer expires); vf itself prints at most
 * 300 violations per shard in enumeration order. To keep the output small AND let every signature
 * through, each signature gets a budget per shard: the first 3 violations are reported with the full
 * text, the next 12 with the text cut to 100 characters, the rest is only counted (counter violations_beyond_report_budget
 * and outcome class "violation:<signature>"). A replayed case always reports in full; setting the
 * environment variable C20_REPORT_ALL additionally lists every violation (signature, case) on stderr for triage. */
static void report(const char *sig, const char *fmt, ...) __attribute__((format(printf, 2, 3)));
static void report(const char *sig, const char *fmt, ...) {
	static struct { char sig[100]; long n; } tab[96];
	char d[1500];
	va_list ap;
	int i;
	for (i = 0; i < 96 && tab[i].sig[0] && strcmp(tab[i].sig, sig) != 0; i++) {}
	if (i == 96) i = 95;
	if (!tab[i].sig[0]) snprintf(tab[i].sig, sizeof tab[i].sig, "%s", sig);
	tab[i].n++;
	vf_outcome("violation:%s", sig);
	vf_count("violations_found", 1);
	if (getenv("C20_REPORT_ALL")) fprintf(stderr, "C20VIOL %s\t%s\n", sig, vf_case_name());
	if (tab[i].n > 15 && !vf_replaying()) { vf_count("violations_beyond_report_budget", 1); return; }
	va_start(ap, fmt);
	vsnprintf(d, sizeof d, fmt, ap);
	va_end(ap);
	if (strlen(d) > 600) strcpy(d + 590, " ...");
	if (tab[i].n > 3 && !vf_replaying() && strlen(d) > 100) strcpy(d + 96, " ...");
	vf_fail(sig, "%s", d);
}

/* ------------------------------------------------------------------ PDU credentials (reference side)
 * PDU v2 request = TLV 0x220 (aggregation) / 0x320 (extension) { 01 header { 01 login id (NUL
 * terminated) ... } 02.. payload 1f mac-imprint }. The v2 MAC covers the serialized PDU from its first
 * byte (including the outer TLV header) up to, not including, the MAC digest, i.e. it includes the
 * 0x1f TLV header and the algorithm byte: types.c pdu_calculateHmac_v2 computes
 * KSI_HMAC_create(alg, key, raw_pdu, raw_len - KSI_getHashLength(alg)). */
static int mac_ok(const unsigned char *b, size_t n, const rtlv *mac, const char *key) {
	unsigned char out[RH_MAX_IMPRINT];
	int alg = mac->val[0], dl = ref_hash_len(alg);
	size_t ol = ref_hmac(alg, key, strlen(key), b, n - (size_t)dl, out);
	return ol == (size_t)dl + 1 && ol == mac->len && memcmp(out, mac->val, ol) == 0;
}
/* returns 0 when the PDU is well formed; *login = pointer to the login id inside b or NULL */
static int pdu_open(const unsigned char *b, size_t n, unsigned tag, const char **login, rtlv *mac, char *why, size_t wn) {
	rtlv t, hdr, lid;
	int dl;
	*login = NULL;
	if (n == 0 || rtlv_read(b, n, &t) != 0) { snprintf(why, wn, "not a TLV"); return -1; }
	if (t.tag != tag || t.hdr + t.len != n) { snprintf(why, wn, "outer tag 0x%x len %zu+%zu of %zu (expected tag 0x%x spanning the request)", t.tag, t.hdr, t.len, n, tag); return -1; }
	if (rtlv_count(t.val, t.len) < 0) { snprintf(why, wn, "payload is not a TLV tiling"); return -1; }
	if (rtlv_find(t.val, t.len, 0x01, 0, &hdr) != 0) { snprintf(why, wn, "no header"); return -1; }
	if (rtlv_find(hdr.val, hdr.len, 0x01, 0, &lid) == 0) {
		if (lid.len == 0 || lid.val[lid.len - 1] != 0 || strlen((const char *)lid.val) + 1 != lid.len) { snprintf(why, wn, "login id is not a NUL terminated string"); return -1; }
		*login = (const char *)lid.val;
	}
	if (rtlv_find(t.val, t.len, 0x1f, 0, mac) != 0) { snprintf(why, wn, "no MAC"); return -1; }
	if (mac->val + mac->len != b + n) { snprintf(why, wn, "MAC is not the last element"); return -1; }
	if (mac->len < 1 || (dl = ref_hash_len(mac->val[0])) == 0 || mac->len != (size_t)dl + 1 || !ref_hash_computable(mac->val[0])) { snprintf(why, wn, "MAC imprint malformed"); return -1; }
	return 0;
}

/* ------------------------------------------------------------------ oracle (from the statement) */
typedef struct {
	int refuse;            /* 1: the service must refuse the URI (asynchronous service: file and unknown schemes) */
	int transport;         /* 'h' HTTP, 't' TCP, 'f' file */
	char url[6700];         /* 'h': exact URL that must be handed to the HTTP library */
	int must_accept;       /* 0 = SILENT: a refusal is acceptable */
	const char *silent_why;
	const char *user, *key;        /* expected login id / HMAC key, NULL = SILENT */
	const char *user2, *key2;      /* acceptable alternative (SILENT precedence), or NULL */
	int check_leak;        /* embedded credentials must not appear in host / URL */
} expect;

static void oracle(const ccase *c, expect *e) {
	int cls = SCH[c->b].cls;
	memset(e, 0, sizeof *e);
	e->must_accept = 1;
	switch (cls) {
		case CL_HTTP:
			/* ksi, ksi+http, ksi+https (any letter case): HTTP transport, scheme rewritten to http, http, https;
			 * embedded user:key removed; host, port, path, query, fragment preserved exactly */
			e->transport = 'h';
			snprintf(e->url, sizeof e->url, "%s://%s", SCH[c->b].rewrite, c->tail);
			e->check_leak = 1;
			break;
		case CL_TCP:
			e->transport = 't';
			e->check_leak = 1;
			/* SILENT: a TCP endpoint without a port (the statement names no default port) */
			if (PORTS[c->p] == 0) { e->must_accept = 0; e->silent_why = "tcp-without-port"; }
			break;
		case CL_FILE:
			if (SV_IS_ASYNC(c->v)) e->refuse = 1;
			else {
				e->transport = 'f';   /* SILENT: which path is opened, which credentials are used */
				/* SILENT: a file URI without explicit credentials (no key to authenticate the request with;
				 * the role of user-info in a non-ksi URI is not defined by the statement) */
				if (c->x != 1) { e->must_accept = 0; e->silent_why = "no-credentials"; }
			}
			break;
		default:
			if (SV_IS_ASYNC(c->v)) e->refuse = 1;
			else { e->transport = 'h'; snprintf(e->url, sizeof e->url, "%s", c->uri); } /* passed unchanged */
			break;
	}
	if (e->refuse) return;
	if (cls == CL_HTTP || cls == CL_TCP) {
		/* embedded user:key are the KSI login id and HMAC key, explicit arguments take precedence */
		if (c->x == 1) { e->user = EXPL_ID; e->key = EXPL_KEY; }
		else if (c->u) {
			/* each explicit argument that is given replaces the embedded one; the other one is taken from the URI */
			e->user = c->x == 2 ? EXPL_ID : UI_USER[c->u];
			e->key = c->x == 3 ? EXPL_KEY : UI_KEY[c->u];
		}
		else { e->must_accept = 0; e->silent_why = "no-credentials"; } /* SILENT: no (or only half of the) credentials */
	} else if (cls == CL_OTHER) {
		/* the URI is passed on unchanged; only the explicit arguments are KSI credentials */
		if (c->x == 1) {
			e->user = EXPL_ID; e->key = EXPL_KEY;
			/* SILENT: the statement defines the role of embedded user-info for ksi schemes only */
			if (c->u) { e->user2 = UI_USER[c->u]; e->key2 = UI_KEY[c->u]; }
		} else { e->must_accept = 0; e->silent_why = "no-credentials"; }
	}
}

/* the component of the EXPECTED url in which the first difference with the observed url lies */
static const char *diff_component(const char *got, const char *exp) {
	size_t i = 0, sch, auth;
	const char *p = strstr(exp, "://"), *q, *f;
	while (got[i] && got[i] == exp[i]) i++;
	sch = p ? (size_t)(p - exp) + 3 : 0;
	if (i < sch) return "scheme";
	auth = sch + strcspn(exp + sch, "/?#");
	if (i < auth) return "authority";
	q = strchr(exp + auth, '?');
	f = strchr(exp + auth, '#');
	if (f && i >= (size_t)(f - exp)) return "fragment";
	if (q && i >= (size_t)(q - exp)) return "query";
	if (exp[i] == 0) return "trailing";
	return "path";
}

static void check_credentials(const ccase *c, const expect *e, const unsigned char *b, size_t n) {
	const char *login = NULL;
	rtlv mac;
	char why[200];
	unsigned tag = SV_IS_EXT(c->v) ? 0x320 : 0x220;
	const char *cand_name[] = {"explicit key", "embedded key", "explicit login id", "embedded user name", "empty key"};
	const char *cand[] = {EXPL_KEY, UI_KEY[c->u], EXPL_ID, UI_USER[c->u], ""};
	int i;
	if (pdu_open(b, n, tag, &login, &mac, why, sizeof why) != 0) {
		report("pdu-malformed", "%s over %s: emitted request (%zu bytes) %s: %s", c->uri, SV_NAME[c->v], n, why, vf_hex(b, n > 80 ? 80 : n));
		return;
	}
	vf_obs("login=%s alg=%d", login ? login : "(none)", mac.val[0]);
	if (e->user == NULL) { vf_outcome("cred:silent"); return; }
	if (login == NULL || (strcmp(login, e->user) != 0 && !(e->user2 && strcmp(login, e->user2) == 0)))
		report("loginid-mismatch", "%s (explicit login id %s) over %s: PDU header login id is '%s', expected '%s'", c->uri, c->x ? EXPL_ID : "absent", SV_NAME[c->v], login ? login : "(absent)", e->user);
	if (mac_ok(b, n, &mac, e->key)) vf_outcome("cred:%s", c->x ? "explicit" : "embedded");
	else if (e->key2 && mac_ok(b, n, &mac, e->key2)) vf_outcome("cred:embedded-over-explicit-silent");
	else {
		const char *under = "none of the candidate keys";
		for (i = 0; i < 5; i++) if (cand[i] && mac_ok(b, n, &mac, cand[i])) { under = cand_name[i]; break; }
		report("mac-key-mismatch", "%s (explicit key %s) over %s: the emitted PDU's MAC does not verify under the expected key '%s'; it verifies under: %s", c->uri, c->x ? EXPL_KEY : "absent", SV_NAME[c->v], e->key, under);
	}
}

static void check_leak(const ccase *c, const char *where, const char *s) {
	const char *at = strchr(s, '@');
	if (!c->u) return;
	/* an '@' is the user-info separator only inside the authority; the composed query may carry one of its own */
	if (at != NULL && c->q >= 3) {
		const char *a = strstr(s, "://");
		a = a ? a + 3 : s;
		if (at >= a + strcspn(a, "/?#")) at = NULL;
	}
	if (strstr(s, UI_KEY[c->u]) != NULL || at != NULL || strstr(s, UI_USER[c->u]) != NULL)
		report("credential-leak", "%s over %s: the %s handed to the transport is '%s' and contains the embedded user name / key", c->uri, SV_NAME[c->v], where, s);
}

static void evaluate(const ccase *c, int crashed) {
	expect e;
	int http = O.n_http > 0, tcp = sn_calls > 0, file = O.n_fopen > 0;
	int observed = (http + tcp + file) > 1 ? 'm' : http ? 'h' : tcp ? 't' : file ? 'f' : '-';
	int accepted = O.set_done && O.set_res == KSI_OK && O.send_done && O.send_res == KSI_OK;
	const char *kind = SV_IS_ASYNC(c->v) ? "async" : "blocking";
	sn_conn *conn = sn_nconn > 0 ? &sn_conns[0] : NULL;

	oracle(c, &e);
	vf_count("impl_calls", O.impl_calls);
	vf_obs("set=%d:%x send=%d:%x perf=%d:%x tr=%c url=%s gai=%s:%s fopen=%s", O.set_done, O.set_res, O.send_done, O.send_res, O.perf_done, O.perf_res,
	       observed, O.url, sn_last_host, sn_last_port, O.fpath);
	if (crashed) {
		char sig[120];
		snprintf(sig, sizeof sig, "crash:%s:%s", crashed == SIGSEGV ? "SEGV" : "BUS", O.stage);
		report(sig, "%s (explicit credentials %s) over %s: wild memory access (signal %d) inside %s", c->uri, c->x ? "present" : "absent", SV_NAME[c->v], crashed, O.stage);
		vf_outcome("crash:%s:%s", kind, CLS_NAME[SCH[c->b].cls]);
		return;
	}
	if (e.refuse) {
		/* asynchronous service: file and unknown schemes are refused */
		if (O.set_res == KSI_OK) report("async-not-refused", "%s over %s: the asynchronous service must refuse this scheme but KSI_AsyncService_setEndpoint returned KSI_OK", c->uri, SV_NAME[c->v]);
		if (observed != '-') report("refused-but-transport-used", "%s over %s: transport activity '%c' (url '%s', resolver '%s')", c->uri, SV_NAME[c->v], observed, O.url, sn_last_host);
		vf_outcome("refused:async:%s", CLS_NAME[SCH[c->b].cls]);
		return;
	}
	if (!accepted) {
		if (e.must_accept)
			report(O.set_res != KSI_OK ? "wellformed-refused:config" : "wellformed-refused:request", "%s (explicit credentials %s) over %s: well-formed URI refused: %s returned 0x%x; expected the %s transport", c->uri, c->x ? "present" : "absent", SV_NAME[c->v],
			        O.fail_stage ? O.fail_stage : "?", O.set_res != KSI_OK ? O.set_res : O.send_res, e.transport == 'h' ? "HTTP" : e.transport == 't' ? "TCP" : "file");
		else vf_outcome("silent-refused:%s:%s", kind, e.silent_why);
		if (observed != '-') report("refused-but-transport-used", "%s over %s: transport activity '%c' although the URI was refused", c->uri, SV_NAME[c->v], observed);
		return;
	}
	if (observed == '-') {
		report("no-transport-activity", "%s over %s: accepted, request started (perform 0x%x) but nothing reached any transport", c->uri, SV_NAME[c->v], O.perf_res);
		return;
	}
	if (observed != e.transport) {
		report("wrong-transport", "%s over %s: expected transport '%c', observed '%c' (url '%s', resolver '%s:%s', fopen '%s')", c->uri, SV_NAME[c->v], e.transport, observed, O.url, sn_last_host, sn_last_port, O.fpath);
		if (http && e.check_leak) check_leak(c, "URL", O.url);
		if (tcp && e.check_leak) check_leak(c, "resolver host", sn_last_host);
		return;
	}
	vf_outcome("transport:%s:%s:%s", observed == 'h' ? "http" : observed == 't' ? "tcp" : "file", kind, CLS_NAME[SCH[c->b].cls]);
	switch (observed) {
		case 'h':
			if (strcmp(O.url, e.url) != 0) {
				char sig[60];
				snprintf(sig, sizeof sig, "url-mismatch:%s", diff_component(O.url, e.url));
				report(sig, "%s over %s: URL handed to the HTTP library is '%s', expected '%s'", c->uri, SV_NAME[c->v], O.url, e.url);
			}
			if (e.check_leak) check_leak(c, "URL", O.url);
			check_credentials(c, &e, O.body.p, O.body.n);
			break;
		case 't':
			/* the host handed to name resolution: the host as written; for an IPv6 literal the address
			 * with or without the URI brackets is accepted (SILENT: resolver syntax of IP literals) */
			if (strcmp(sn_last_host, HOSTS[c->h]) != 0 && strcmp(sn_last_host, HOSTS_BARE[c->h]) != 0)
				report("host-mismatch", "%s over %s: host handed to getaddrinfo is '%s', expected '%s'", c->uri, SV_NAME[c->v], sn_last_host, HOSTS[c->h]);
			if (PORTS[c->p]) {
				char ps[16];
				snprintf(ps, sizeof ps, "%u", PORTS[c->p]);
				if (strcmp(sn_last_port, ps) != 0) report("port-mismatch", "%s over %s: port handed to getaddrinfo is '%s', expected '%s'", c->uri, SV_NAME[c->v], sn_last_port, ps);
				if (conn && conn->port != (int)PORTS[c->p]) report("port-mismatch", "%s over %s: connected to port %d, expected %u", c->uri, SV_NAME[c->v], conn->port, PORTS[c->p]);
			}
			if (conn && strcmp(conn->host, sn_last_host) != 0) report("host-mismatch", "%s over %s: connected to '%s' but resolved '%s'", c->uri, SV_NAME[c->v], conn->host, sn_last_host);
			if (e.check_leak) check_leak(c, "resolver host", sn_last_host);
			if (conn == NULL || conn->out.n == 0) report("no-transport-activity", "%s over %s: TCP transport selected but no request bytes were written (connections %d)", c->uri, SV_NAME[c->v], sn_nconn);
			else check_credentials(c, &e, conn->out.p, conn->out.n);
			break;
		default:
			/* file transport selected. SILENT: the statement does not say which path is opened. */
			break;
	}
}

static void run_guarded(void (*fn)(const ccase *), const ccase *c, int *crashed) {
	int sig;
	*crashed = 0;
	if ((sig = sigsetjmp(g_jb, 1)) != 0) { g_armed = 0; *crashed = sig; return; }
	g_guard = 1;
	fn(c);
	g_guard = 0;
}

/* ------------------------------------------------------------------ KSI_UriSplitBasic */
static struct { int res; char *scheme, *host, *path; unsigned port; } SP;
static void exec_split(const ccase *c) {
	O.stage = "KSI_UriSplitBasic";
	O.impl_calls++;
	SP.res = KSI_UriSplitBasic(c->uri, &SP.scheme, &SP.host, &SP.port, &SP.path);
}
static void split_case(const ccase *c) {
	int crashed;
	memset(&SP, 0, sizeof SP);
	SP.port = 0xdeadu;
	reset_seam();
	run_guarded(exec_split, c, &crashed);
	vf_count("impl_calls", 1);
	if (crashed) {
		report("crash:SEGV:KSI_UriSplitBasic", "%s: wild memory access (signal %d)", c->uri, crashed);
		vf_case_end(1);
		return;
	}
	vf_obs("res=%x s=%s h=%s p=%u a=%s", SP.res, SP.scheme ? SP.scheme : "-", SP.host ? SP.host : "-", SP.res == KSI_OK ? SP.port : 0, SP.path ? SP.path : "-");
	if (SP.res != KSI_OK) {
		report("split-refused", "KSI_UriSplitBasic('%s') returned 0x%x for a well-formed URI", c->uri, SP.res);
		vf_outcome("split:refused");
	} else {
		/* scheme: compared case-insensitively (SILENT: whether the spelling is normalised) */
		if (SP.scheme == NULL || strcasecmp(SP.scheme, c->scheme) != 0) report("split-mismatch:scheme", "KSI_UriSplitBasic('%s'): scheme '%s', expected '%s'", c->uri, SP.scheme ? SP.scheme : "(null)", c->scheme);
		/* host: IPv6 literal with or without brackets (SILENT) */
		if (SP.host == NULL || (strcmp(SP.host, HOSTS[c->h]) != 0 && strcmp(SP.host, HOSTS_BARE[c->h]) != 0)) report("split-mismatch:host", "KSI_UriSplitBasic('%s'): host '%s', expected '%s'", c->uri, SP.host ? SP.host : "(null)", HOSTS[c->h]);
		if (SP.port != PORTS[c->p]) report("split-mismatch:port", "KSI_UriSplitBasic('%s'): port %u, expected %u", c->uri, SP.port, PORTS[c->p]);
		if (PATHS[c->a] == NULL ? (SP.path != NULL && SP.path[0] != 0) : (SP.path == NULL || strcmp(SP.path, PATHS[c->a]) != 0))
			report("split-mismatch:path", "KSI_UriSplitBasic('%s'): path '%s', expected '%s'", c->uri, SP.path ? SP.path : "(null)", PATHS[c->a] ? PATHS[c->a] : "(absent)");
		vf_outcome("split:ok");
	}
	KSI_free(SP.scheme); KSI_free(SP.host); KSI_free(SP.path);
	vf_case_end(1);
}

/* ------------------------------------------------------------------ enumeration */
static void self_check(void) {
	/* the literal leak test relies on the non-credential components being free of the credential strings */
	int u, h, a, b;
	for (u = 1; u < 4; u++) {
		const char *cr[2];
		int k;
		cr[0] = UI_USER[u]; cr[1] = UI_KEY[u];
		for (k = 0; k < 2; k++) {
			for (h = 0; h < 4; h++) if (strstr(HOSTS[h], cr[k])) vf_harness_error("component contains credential string");
			for (a = 1; a < 3; a++) if (strstr(PATHS[a], cr[k])) vf_harness_error("component contains credential string");
			if (strstr(QUERY, cr[k]) || strstr(QUERY_QMARK, cr[k]) || strstr(QUERY_DELIMS, cr[k]) || strstr(QUERY_MARKS, cr[k]) || strstr(FRAG_ODD, cr[k]) || strstr(PATHS[3], cr[k]) || strstr(FRAG, cr[k]) || strstr("65535", cr[k])) vf_harness_error("component contains credential string");
			for (b = 0; b < NSCH; b++) if (SCH[b].rewrite && strstr(SCH[b].rewrite, cr[k])) vf_harness_error("component contains credential string");
		}
	}
	if (!ref_hash_computable(RH_SHA256)) vf_harness_error("reference digests unavailable");
}

/* (3b) a re-pointing call that is REFUSED leaves the service where it was: the next request still goes to the endpoint accepted
 * before (its transport, its host, its credentials) */
static const struct { const char *uri; const char *why; } REFUSED_URI[] = {
	{"ksi+tcp://other.example.test:4444", "TCP endpoint without credentials"},
	{"ksi+tcp://other.example.test:0", "port 0"},
	{"ksi://only-user@other.example.test/x", "not judged"},
	{"ksi+tcp://other.example.test:70000", "port out of range"},
};
#define NREFUSED 4
static void after_refused_case(int prior, int r, int ext) {
	KSI_CTX *ctx = ku_ctx();
	KSI_DataHash *hsh = NULL;
	KSI_AggregationReq *areq = NULL;
	KSI_ExtendReq *ereq = NULL;
	KSI_RequestHandle *rh = NULL;
	KSI_Integer *t0 = NULL;
	unsigned char imp[RH_MAX_IMPRINT];
	size_t il = ref_fake_imprint(RH_SHA256, 21, imp);
	int res, set2, http, tcp, file;
	if (KSI_DataHash_fromImprint(ctx, imp, il, &hsh) != KSI_OK || KSI_Integer_new(ctx, 1600000000, &t0) != KSI_OK) vf_harness_error("fixtures");
	g_armed = 1;
	res = ext ? KSI_CTX_setExtender(ctx, PRIOR_URI[prior], "prior-user", "prior-key") : KSI_CTX_setAggregator(ctx, PRIOR_URI[prior], "prior-user", "prior-key");
	if (res != KSI_OK) vf_harness_error("prior endpoint refused");
	set2 = ext ? KSI_CTX_setExtender(ctx, REFUSED_URI[r].uri, NULL, NULL) : KSI_CTX_setAggregator(ctx, REFUSED_URI[r].uri, NULL, NULL);
	O.impl_calls += 2;
	if (set2 == KSI_OK) { vf_outcome("after-refused:second-call-accepted"); goto done; }   /* not a refusal: covered by the re-pointing cases */
	if (ext) { if (KSI_createExtendRequest(ctx, t0, NULL, &ereq) != KSI_OK) vf_harness_error("createExtendRequest"); res = KSI_sendExtendRequest(ctx, ereq, &rh); }
	else { if (KSI_createSignRequest(ctx, hsh, 0, &areq) != KSI_OK) vf_harness_error("createSignRequest"); res = KSI_sendSignRequest(ctx, areq, &rh); }
	if (res == KSI_OK) res = KSI_RequestHandle_perform(rh);
	O.impl_calls += 2;
	http = O.n_http > 0; tcp = sn_calls > 0; file = O.n_fopen > 0;
	vf_obs("r=%x tr=%d%d%d url=%s gai=%s:%s fopen=%s", set2, http, tcp, file, O.url, sn_last_host, sn_last_port, O.fpath);
	switch (prior) {
		case 1:
			if (!tcp || http || file || strcmp(sn_last_host, "prior.example.test") != 0 || strcmp(sn_last_port, "3333") != 0)
				report("refused-call-changed-endpoint", "%s was refused (0x%x) after %s had been accepted: the next request went to http=%d tcp=%d file=%d, resolver '%s:%s', url '%s' instead of the TCP endpoint accepted before", REFUSED_URI[r].uri, set2, PRIOR_URI[prior], http, tcp, file, sn_last_host, sn_last_port, O.url);
			break;
		case 2:
			if (!file || http || tcp || strcmp(O.fpath, "/verif-nonexistent/prior.bin") != 0)
				report("refused-call-changed-endpoint", "%s was refused (0x%x) after %s had been accepted: the next request went to http=%d tcp=%d file=%d (fopen '%s') instead of the file endpoint accepted before", REFUSED_URI[r].uri, set2, PRIOR_URI[prior], http, tcp, file, O.fpath);
			break;
		default:
			if (!http || tcp || file || strcmp(O.url, prior == 3 ? "http://prior.example.test/p" : "http://prior.example.test:81/q") != 0)
				report("refused-call-changed-endpoint", "%s was refused (0x%x) after %s had been accepted: the next request went to http=%d tcp=%d file=%d, url '%s', resolver '%s' instead of the HTTP endpoint accepted before", REFUSED_URI[r].uri, set2, PRIOR_URI[prior], http, tcp, file, O.url, sn_last_host);
			break;
	}
	vf_outcome("after-refused:prior-endpoint-checked");
done:
	g_armed = 0;
	KSI_RequestHandle_free(rh);
	KSI_AggregationReq_free(areq); KSI_ExtendReq_free(ereq);
	KSI_DataHash_free(hsh); KSI_Integer_free(t0);
	KSI_CTX_free(ctx);
}

/* (3b') a service that has an endpoint with credentials is pointed at another host by a URI whose embedded user name or key is EMPTY
 * (no explicit arguments): whatever the library makes of the empty part, a request that then goes to the new host must not bear the
 * former endpoint's login id nor a MAC under the former endpoint's key */
static const char *EMPTY_CRED_URI[] = {"ksi+http://:k4@new.example.test/n", "ksi+http://usr5:@new.example.test/n", "ksi+http://:@new.example.test/n", "ksi://:k4@new.example.test/n"};
#define NEMPTYCRED 4
static void prior_credentials_case(int r, int ext) {
	KSI_CTX *ctx = ku_ctx();
	KSI_DataHash *hsh = NULL;
	KSI_AggregationReq *areq = NULL;
	KSI_ExtendReq *ereq = NULL;
	KSI_RequestHandle *rh = NULL;
	KSI_Integer *t0 = NULL;
	unsigned char imp[RH_MAX_IMPRINT];
	size_t il = ref_fake_imprint(RH_SHA256, 23, imp);
	int res, set2;
	if (KSI_DataHash_fromImprint(ctx, imp, il, &hsh) != KSI_OK || KSI_Integer_new(ctx, 1600000000, &t0) != KSI_OK) vf_harness_error("fixtures");
	g_armed = 1;
	res = ext ? KSI_CTX_setExtender(ctx, "ksi+http://prior.example.test/p", "prior-user", "prior-key") : KSI_CTX_setAggregator(ctx, "ksi+http://prior.example.test/p", "prior-user", "prior-key");
	if (res != KSI_OK) vf_harness_error("prior endpoint refused");
	set2 = ext ? KSI_CTX_setExtender(ctx, EMPTY_CRED_URI[r], NULL, NULL) : KSI_CTX_setAggregator(ctx, EMPTY_CRED_URI[r], NULL, NULL);
	O.impl_calls += 2;
	vf_outcome("empty-credentials:second-call-%s", set2 == KSI_OK ? "accepted" : "refused");
	if (ext) { if (KSI_createExtendRequest(ctx, t0, NULL, &ereq) != KSI_OK) vf_harness_error("createExtendRequest"); res = KSI_sendExtendRequest(ctx, ereq, &rh); }
	else { if (KSI_createSignRequest(ctx, hsh, 0, &areq) != KSI_OK) vf_harness_error("createSignRequest"); res = KSI_sendSignRequest(ctx, areq, &rh); }
	if (res == KSI_OK) res = KSI_RequestHandle_perform(rh);
	O.impl_calls += 2;
	vf_obs("r=%x n=%d url=%s", set2, O.n_http, O.url);
	if (O.n_http > 0 && strstr(O.url, "new.example.test") != NULL && O.body.n > 0) {
		const char *login = NULL;
		rtlv mac;
		char why[200];
		if (pdu_open(O.body.p, O.body.n, ext ? 0x320 : 0x220, &login, &mac, why, sizeof why) == 0) {
			if (login != NULL && strcmp(login, "prior-user") == 0)
				report("former-credentials-on-new-endpoint", "%s given after an endpoint with credentials: the request to '%s' bears the former endpoint's login id", EMPTY_CRED_URI[r], O.url);
			if (mac_ok(O.body.p, O.body.n, &mac, "prior-key"))
				report("former-credentials-on-new-endpoint", "%s given after an endpoint with credentials: the request to '%s' is authenticated with the former endpoint's key", EMPTY_CRED_URI[r], O.url);
			vf_outcome("empty-credentials:request-to-new-host-checked");
		}
	} else vf_outcome("empty-credentials:no-request-to-new-host");
	g_armed = 0;
	KSI_RequestHandle_free(rh);
	KSI_AggregationReq_free(areq); KSI_ExtendReq_free(ereq);
	KSI_DataHash_free(hsh); KSI_Integer_free(t0);
	KSI_CTX_free(ctx);
}

/* (3c) file transport re-pointed after it has served requests: the following requests are answered from the file configured NOW */
static void file_switch_case(int ext) {
	KSI_CTX *ctx = ku_ctx();
	KSI_DataHash *hsh = NULL;
	KSI_Integer *t0 = NULL;
	unsigned char imp[RH_MAX_IMPRINT];
	size_t il = ref_fake_imprint(RH_SHA256, 22, imp);
	char pa[80], pb[80], ua[100], ub[100];
	static const char *WANT[] = {"A1", "A2", "B1", "B2"};
	FILE *f;
	int step, k;
	snprintf(pa, sizeof pa, "/tmp/vf_c20_%ld_a.tlv", (long)getpid()); snprintf(pb, sizeof pb, "/tmp/vf_c20_%ld_b.tlv", (long)getpid());
	snprintf(ua, sizeof ua, "file://%s", pa); snprintf(ub, sizeof ub, "file://%s", pb);
	for (k = 0; k < 2; k++) {
		int j;
		f = fopen(k ? pb : pa, "wb");
		if (!f) vf_harness_error("cannot create %s", k ? pb : pa);
		for (j = 1; j <= 4; j++) { unsigned char t[4] = {0x05, 0x02, (unsigned char)(k ? 'B' : 'A'), (unsigned char)('0' + j)}; fwrite(t, 1, 4, f); }
		fclose(f);
	}
	if (KSI_DataHash_fromImprint(ctx, imp, il, &hsh) != KSI_OK || KSI_Integer_new(ctx, 1600000000, &t0) != KSI_OK) vf_harness_error("fixtures");
	for (step = 0; step < 4; step++) {
		KSI_AggregationReq *areq = NULL;
		KSI_ExtendReq *ereq = NULL;
		KSI_RequestHandle *rh = NULL;
		const unsigned char *raw = NULL;
		size_t rl = 0;
		int res;
		if (step == 0 || step == 2) {
			res = ext ? KSI_CTX_setExtender(ctx, step ? ub : ua, "u", "k") : KSI_CTX_setAggregator(ctx, step ? ub : ua, "u", "k");
			if (res != KSI_OK) { report("wellformed-refused:config", "file URI %s refused with 0x%x", step ? ub : ua, res); break; }
		}
		if (ext) { if (KSI_createExtendRequest(ctx, t0, NULL, &ereq) != KSI_OK) vf_harness_error("createExtendRequest"); res = KSI_sendExtendRequest(ctx, ereq, &rh); }
		else { if (KSI_createSignRequest(ctx, hsh, 0, &areq) != KSI_OK) vf_harness_error("createSignRequest"); res = KSI_sendSignRequest(ctx, areq, &rh); }
		if (res == KSI_OK) res = KSI_RequestHandle_perform(rh);
		if (res == KSI_OK) res = KSI_RequestHandle_getResponse(rh, &raw, &rl);
		O.impl_calls += 3;
		if (res != KSI_OK || rl != 4 || raw[2] != (unsigned char)WANT[step][0] || raw[3] != (unsigned char)WANT[step][1])
			report("file-endpoint-stale", "file transport (%s), request %d: expected the element '%s' of the file configured now, got res 0x%x and %zu bytes '%c%c'", ext ? "extender" : "aggregator", step + 1, WANT[step], res, rl, rl == 4 ? raw[2] : '?', rl == 4 ? raw[3] : '?');
		else vf_outcome("file-switch:%s", WANT[step]);
		KSI_RequestHandle_free(rh);
		KSI_AggregationReq_free(areq); KSI_ExtendReq_free(ereq);
	}
	KSI_DataHash_free(hsh); KSI_Integer_free(t0);
	KSI_CTX_free(ctx);
	remove(pa); remove(pb);
}

static void run(void) {
	ccase c;
	int nsample = 0;
	self_check();
	vb_init(&O.body);
	install_guard();
	/* warm up lazily initialised library / OpenSSL state outside any case (and outside the armed fopen) */
	{
		KSI_CTX *ctx = ku_ctx();
		KSI_DataHash *h = NULL;
		KSI_DataHash_create(ctx, "x", 1, KSI_HASHALG_SHA2_256, &h);
		KSI_DataHash_free(h);
		h = NULL;
		KSI_HMAC_create(ctx, KSI_HASHALG_SHA2_256, "k", (const unsigned char *)"x", 1, &h);
		KSI_DataHash_free(h);
		KSI_CTX_free(ctx);
	}
	memset(&c, 0, sizeof c);
	for (c.b = 0; c.b < NSCH; c.b++) {
		int nmask = SCH[c.b].all_cases ? (1 << nletters(SCH[c.b].base)) : 1;
		for (c.mask = 0; c.mask < nmask; c.mask++)
		for (c.u = 0; c.u < 3; c.u++)
		for (c.h = 0; c.h < 4; c.h++)
		for (c.p = 0; c.p < 4; c.p++)
		for (c.a = 0; c.a < 3; c.a++)
		for (c.q = 0; c.q < 2; c.q++)
		for (c.f = 0; c.f < 2; c.f++) {
			c.x = c.v = 0;
			if (!selected(&c)) continue;
			/* (1) KSI_UriSplitBasic on the URI */
			if (vf_case_begin("split:s%d.%d:u%d:h%d:p%d:a%d:q%d:f%d", c.b, c.mask, c.u, c.h, c.p, c.a, c.q, c.f)) {
				compose(&c);
				split_case(&c);
			}
			/* (2) the URI given to every service, without and with explicit credentials */
			for (c.x = 0; c.x < 2; c.x++)
			for (c.v = 0; c.v < NSV; c.v++) {
				int crashed;
				if (!vf_case_begin("svc:s%d.%d:u%d:h%d:p%d:a%d:q%d:f%d:x%d:v%d", c.b, c.mask, c.u, c.h, c.p, c.a, c.q, c.f, c.x, c.v)) continue;
				compose(&c);
				reset_seam();
				run_guarded(exec_service, &c, &crashed);
				if (nsample < 3 && c.u && !crashed) {
					nsample++;
					vf_sample("%s explicit=%s via %s -> set 0x%x, url '%s', resolver '%s:%s', fopen '%s'", c.uri, c.x ? EXPL_ID "/" EXPL_KEY : "absent", SV_NAME[c.v], O.set_res, O.url, sn_last_host, sn_last_port, O.fpath);
				}
				evaluate(&c, crashed);
				vf_case_end(1);
			}
		}
	}
	/* (2b) the asynchronous service is first offered a URI it refuses (no port, port 0 / out of range, file, unknown scheme, no host),
	 * then the URI under test: a refused call leaves the service as it was, so the expectations are those of a first configuration */
	memset(&c, 0, sizeof c);
	for (g_bad_first = 1; g_bad_first < NBADFIRST; g_bad_first++)
	for (c.b = 0; c.b < NSCH; c.b++)
	for (c.u = 0; c.u < 2; c.u++)
	for (c.x = 0; c.x < 2; c.x++)
	for (c.v = SV_ASYNC_SIGN; c.v <= SV_ASYNC_EXT; c.v++) {
		int crashed;
		c.mask = 0; c.h = 0; c.a = 2; c.q = 0; c.f = 0; c.p = 2;
		if (!vf_case_begin("after-bad-first:b%d:s%d:u%d:x%d:v%d", g_bad_first, c.b, c.u, c.x, c.v)) continue;
		compose(&c);
		reset_seam();
		g_bad_first_refused = 0;
		run_guarded(exec_service, &c, &crashed);
		if (!crashed && !g_bad_first_refused) vf_outcome("after-bad-first:first-uri-accepted");
		else { evaluate(&c, crashed); vf_outcome("after-bad-first:done"); }
		vf_case_end(1);
	}
	g_bad_first = 0;
	/* (3) re-pointing: every service first configured with a URI of each transport kind, then with the URI under test
	 * (one spelling per scheme, with and without embedded / explicit credentials): same expectations as a first configuration */
	memset(&c, 0, sizeof c);
	for (g_prior = 1; g_prior < NPRIOR; g_prior++)
	for (c.b = 0; c.b < NSCH; c.b++)
	for (c.u = 0; c.u < 2; c.u++)
	for (c.p = 0; c.p < 4; c.p += 2)
	for (c.x = 0; c.x < 2; c.x++)
	for (c.v = 0; c.v < NSV; c.v++) {
		int crashed;
		c.mask = 0; c.h = 0; c.a = 2; c.q = 0; c.f = 0;
		/* the asynchronous service accepts an endpoint only once (a second call is refused by design), so re-pointing
		 * exists for the blocking services only */
		if (c.v == SV_ASYNC_SIGN || c.v == SV_ASYNC_EXT) continue;
		if (!vf_case_begin("repoint:pr%d:s%d:u%d:p%d:x%d:v%d", g_prior, c.b, c.u, c.p, c.x, c.v)) continue;
		compose(&c);
		reset_seam();
		run_guarded(exec_service, &c, &crashed);
		evaluate(&c, crashed);
		vf_outcome("repoint:done");
		vf_case_end(1);
	}
	g_prior = 0;
	{
		int pr, r, ext;
		for (pr = 1; pr < NPRIOR_OTHERHOST; pr++) for (r = 0; r < NREFUSED; r++) for (ext = 0; ext < 2; ext++) {
			if (!vf_case_begin("after-refused:pr%d:r%d:%s", pr, r, ext ? "extender" : "aggregator")) continue;
			reset_seam();
			after_refused_case(pr, r, ext);
			vf_count("impl_calls", O.impl_calls);
			vf_case_end(1);
		}
	}
	{
		int r, ext;
		for (r = 0; r < NEMPTYCRED; r++) for (ext = 0; ext < 2; ext++) {
			if (!vf_case_begin("empty-credentials:r%d:%s", r, ext ? "extender" : "aggregator")) continue;
			reset_seam();
			prior_credentials_case(r, ext);
			vf_count("impl_calls", O.impl_calls);
			vf_case_end(1);
		}
	}
	{
		int ext;
		for (ext = 0; ext < 2; ext++) {
			if (!vf_case_begin("file-switch:%s", ext ? "extender" : "aggregator")) continue;
			reset_seam();
			g_armed = 0;          /* real files */
			file_switch_case(ext);
			vf_count("impl_calls", O.impl_calls);
			vf_case_end(1);
		}
	}
	/* (4) only one of the two explicit credentials is given: it takes precedence over its embedded counterpart, the other one
	 * comes from the URI (every scheme spelling, with embedded credentials, every service) */
	memset(&c, 0, sizeof c);
	for (c.b = 0; c.b < NSCH; c.b++)
	for (c.u = 1; c.u < 4; c.u++)
	for (c.p = 0; c.p < 4; c.p += 2)
	for (c.x = (c.u == 3 ? 0 : 2); c.x < 4; c.x++)
	for (c.v = 0; c.v < NSV; c.v++) {
		int crashed;
		c.mask = 0; c.h = 0; c.a = 2; c.q = 0; c.f = 0;
		if (c.u == 3 && c.x == 1) continue;              /* the key with ':' in it: embedded only, or together with one explicit credential */
		if (!vf_case_begin("mixed:s%d:u%d:p%d:x%d:v%d", c.b, c.u, c.p, c.x, c.v)) continue;
		compose(&c);
		reset_seam();
		run_guarded(exec_service, &c, &crashed);
		evaluate(&c, crashed);
		vf_outcome("mixed-credentials:done");
		vf_case_end(1);
	}
	/* (5) a URI whose query is 6000 characters long (the rewritten URL is longer than 4 KiB): same expectations */
	memset(&c, 0, sizeof c);
	for (c.b = 0; c.b < NSCH; c.b++)
	for (c.u = 0; c.u < 2; c.u++)
	for (c.f = 0; c.f < 2; c.f++)
	for (c.v = 0; c.v < NSV; c.v++) {
		int crashed;
		c.mask = 0; c.h = 0; c.p = 2; c.a = 2; c.q = 2; c.x = c.u ? 0 : 1;
		if (!vf_case_begin("long-query:s%d:u%d:f%d:v%d", c.b, c.u, c.f, c.v)) continue;
		compose(&c);
		reset_seam();
		run_guarded(exec_service, &c, &crashed);
		evaluate(&c, crashed);
		vf_outcome("long-query:done");
		vf_case_end(1);
	}
	/* (6) queries, paths and fragments made of the other characters RFC 3986 allows there ('?', '/', ':', '@', '~', sub-delimiters): same expectations */
	memset(&c, 0, sizeof c);
	for (c.b = 0; c.b < NSCH; c.b++)
	for (c.q = 3; c.q < 6; c.q++)
	for (c.u = 0; c.u < 2; c.u++)
	for (c.a = 0; c.a < 4; c.a++)
	for (c.f = 0; c.f < 2; c.f++)
	for (c.v = 0; c.v < NSV; c.v++) {
		int crashed;
		c.mask = 0; c.h = 0; c.p = 2; c.x = c.u ? 0 : 1;
		if (!VF_THOROUGH && c.a == 1) continue;
		if (!vf_case_begin("odd-query:s%d:q%d:u%d:a%d:f%d:v%d", c.b, c.q, c.u, c.a, c.f, c.v)) continue;
		compose(&c);
		reset_seam();
		run_guarded(exec_service, &c, &crashed);
		evaluate(&c, crashed);
		vf_outcome("odd-query:done");
		vf_case_end(1);
	}
	reset_seam();
	vb_free(&O.body);
}

int main(int argc, char **argv) {
	vf_driver d = {"C20", run};
	return vf_main(argc, argv, &d);
}
