/* ku.h - small helpers on the libksi side shared by the drivers (header-only) */
#ifndef KU_H_
#define KU_H_
#include <ksi/ksi.h>
#include <ksi/tlv.h>
#include <ksi/tlv_template.h>
#include <ksi/hashchain.h>
#include <string.h>
#include <stdlib.h>
#include "vf.h"

KSI_IMPORT_TLV_TEMPLATE(KSI_AggregationHashChain);
KSI_IMPORT_TLV_TEMPLATE(KSI_CalendarHashChain);

static inline KSI_CTX *ku_ctx(void) {
	KSI_CTX *c = NULL;
	if (KSI_CTX_new(&c) != KSI_OK || c == NULL) vf_harness_error("KSI_CTX_new failed");
	return c;
}

/* copy into an exactly sized heap block so that a one byte over-read faults under ASan */
static inline unsigned char *ku_exact(const void *d, size_t n) {
	unsigned char *p = (unsigned char *)malloc(n ? n : 1);
	if (n) memcpy(p, d, n);
	return p;
}

static inline int ku_parse_aggr_chain(KSI_CTX *ctx, const unsigned char *d, size_t n, KSI_AggregationHashChain **out) {
	KSI_TLV *tlv = NULL;
	KSI_AggregationHashChain *c = NULL;
	int res = KSI_TLV_parseBlob(ctx, d, n, &tlv);
	if (res != KSI_OK) return res;
	res = KSI_AggregationHashChain_new(ctx, &c);
	if (res == KSI_OK) res = KSI_TlvTemplate_extract(ctx, c, tlv, KSI_TLV_TEMPLATE(KSI_AggregationHashChain));
	KSI_TLV_free(tlv);
	if (res != KSI_OK) { KSI_AggregationHashChain_free(c); return res; }
	*out = c;
	return KSI_OK;
}

static inline int ku_parse_cal_chain(KSI_CTX *ctx, const unsigned char *d, size_t n, KSI_CalendarHashChain **out) {
	KSI_TLV *tlv = NULL;
	KSI_CalendarHashChain *c = NULL;
	int res = KSI_TLV_parseBlob(ctx, d, n, &tlv);
	if (res != KSI_OK) return res;
	res = KSI_CalendarHashChain_new(ctx, &c);
	if (res == KSI_OK) res = KSI_TlvTemplate_extract(ctx, c, tlv, KSI_TLV_TEMPLATE(KSI_CalendarHashChain));
	KSI_TLV_free(tlv);
	if (res != KSI_OK) { KSI_CalendarHashChain_free(c); return res; }
	*out = c;
	return KSI_OK;
}

static inline int ku_hash_eq(const KSI_DataHash *h, const unsigned char *imprint, size_t n) {
	const unsigned char *p = NULL;
	size_t l = 0;
	if (h == NULL) return 0;
	if (KSI_DataHash_getImprint(h, &p, &l) != KSI_OK) return 0;
	return l == n && memcmp(p, imprint, n) == 0;
}
static inline const char *ku_hash_hex(const KSI_DataHash *h) {
	const unsigned char *p = NULL;
	size_t l = 0;
	if (h == NULL) return "(null)";
	if (KSI_DataHash_getImprint(h, &p, &l) != KSI_OK) return "(err)";
	return vf_hex(p, l);
}
#endif
