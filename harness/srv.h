/* srv.h - simulated KSI server glue shared by the network drivers (header-only).
 * A driver installs one handler; it is fed every complete request PDU the client emits over the
 * simulated TCP connection, the fake synchronous curl transfer or the fake curl multi transfer and
 * produces zero or more response PDUs. */
#ifndef SRV_H_
#define SRV_H_
#include "simnet.h"
#include "ref/ref.h"
#include <string.h>

typedef void (*srv_fn)(const unsigned char *req, size_t n, vbuf *resp, void *user);
static srv_fn srv_handler;
static void *srv_user;
static long srv_requests_seen;
static vbuf srv_last_request;
static int srv_http_code = 200;
static int srv_http_curl_code = 0;
static size_t srv_http_chunk = 0;

static void srv_record(const unsigned char *p, size_t n) {
	srv_requests_seen++;
	vb_reset(&srv_last_request);
	vb_put(&srv_last_request, p, n);
}

static void srv_after_send(sn_conn *c) {
	for (;;) {
		rtlv t;
		vbuf resp;
		size_t total;
		if (c->parsed_out >= c->out.n) break;
		if (rtlv_read(c->out.p + c->parsed_out, c->out.n - c->parsed_out, &t) != 0) break; /* incomplete so far */
		total = t.hdr + t.len;
		srv_record(c->out.p + c->parsed_out, total);
		vb_init(&resp);
		if (srv_handler) srv_handler(c->out.p + c->parsed_out, total, &resp, srv_user);
		if (resp.n) sn_server_write(c, resp.p, resp.n);
		vb_free(&resp);
		c->parsed_out += total;
	}
}

static int srv_on_perform(fc_easy *e, vbuf *resp, long *http) {
	srv_record(e->sent.p, e->sent.n);
	if (srv_handler) srv_handler(e->sent.p, e->sent.n, resp, srv_user);
	*http = srv_http_code;
	return srv_http_curl_code;
}

static void srv_on_submit(fc_easy *e) {
	vbuf resp;
	vb_init(&resp);
	srv_record(e->sent.p, e->sent.n);
	if (srv_handler) srv_handler(e->sent.p, e->sent.n, &resp, srv_user);
	fc_complete(e, srv_http_curl_code, srv_http_code, resp.p, resp.n, srv_http_chunk);
	vb_free(&resp);
}

static void srv_install(srv_fn fn, void *user) {
	sn_reset();
	fc_reset();
	srv_handler = fn;
	srv_user = user;
	srv_requests_seen = 0;
	srv_http_code = 200;
	srv_http_curl_code = 0;
	srv_http_chunk = 0;
	vb_reset(&srv_last_request);
	sn.after_send = srv_after_send;
	fc.on_perform = srv_on_perform;
	fc.on_submit = srv_on_submit;
}
#endif
